(* Proofs about Model/Mirror.v (C17).  Stdlib only, axiom-free. *)
From Coq Require Import ZArith List Bool Lia.
From DRF Require Import Model.Ringbuffer Proofs.RingbufferProofs Model.Mirror.
Import ListNotations.
Local Open Scope Z_scope.

(* ------------------------------------------------------------------ destination map *)
Lemma dname_eqb_eq a b : dname_eqb a b = true <-> a = b.
Proof.
  destruct a, b; simpl; try (split; [discriminate | congruence]);
    rewrite path_eqb_eq; split; congruence.
Qed.
Lemma dname_eqb_refl a : dname_eqb a a = true.
Proof. apply dname_eqb_eq; auto. Qed.

Lemma dget_ddel m n l : dget m (ddel n l) = if dname_eqb m n then None else dget m l.
Proof.
  unfold ddel. induction l as [|[x v] r IH]; simpl.
  - destruct (dname_eqb m n); auto.
  - destruct (dname_eqb n x) eqn:E; simpl.
    + apply dname_eqb_eq in E; subst x. rewrite IH. destruct (dname_eqb m n); auto.
    + rewrite IH. destruct (dname_eqb m x) eqn:F; auto. apply dname_eqb_eq in F; subst x.
      destruct (dname_eqb m n) eqn:G; auto. apply dname_eqb_eq in G; subst n.
      rewrite dname_eqb_refl in E. discriminate.
Qed.
Lemma dget_dset m n v l : dget m (dset n v l) = if dname_eqb m n then Some v else dget m l.
Proof. unfold dset. simpl. rewrite dget_ddel. destruct (dname_eqb m n); auto. Qed.
Lemma dget_relink m p f l :
  dget m (relink p f l) =
  match dget m l with
  | Some v => Some (if dl v && path_eqb (name_path m) p then f v else v)
  | None => None
  end.
Proof.
  unfold relink. induction l as [|[x v] r IH]; simpl; auto.
  destruct (dl v && path_eqb (name_path x) p) eqn:E; simpl; destruct (dname_eqb m x) eqn:F; auto.
  - apply dname_eqb_eq in F; subst x. rewrite E. auto.
  - apply dname_eqb_eq in F; subst x. rewrite E. auto.
Qed.

Lemma step_envremove r p : step rbc r (EnvRemove p) = mkSt (h r) (rdel p (disk r)) (dels r) (err r).
Proof. reflexivity. Qed.
Lemma step_envwrite r p c : step rbc r (EnvWrite p c) = mkSt (h r) (rset p c (disk r)) (dels r) (err r).
Proof. reflexivity. Qed.

Lemma states_app s l1 l2 : states s (l1 ++ l2) = states s l1 ++ states (exec s l1) l2.
Proof.
  revert s. induction l1 as [|f r IH]; intros s; simpl; auto. rewrite IH. auto.
Qed.
Lemma exec_app s l1 l2 : exec s (l1 ++ l2) = exec (exec s l1) l2.
Proof. unfold exec. apply fold_left_app. Qed.

(* ------------------------------------------------------------------ invariants *)
Definition FinOk (s : mst) : Prop := forall p d, dget (Fin p) (dst s) = Some d -> dok d = true.
Definition NoTmp (s : mst) : Prop := forall p, dget (Tmp p) (dst s) = None.
Definition MInv (s : mst) : Prop := Good rbc (ring s) /\ FinOk s /\ NoTmp s.

Definition Full (o : option dfile) (c : Z) : Prop := exists l, o = Some (mkD c true l).

(* what one mirror_to_dest of p (source content c) may do to a state, relative to the state s0
   it started from: other names untouched, p's final name old or complete, and at every moment
   an intact copy of p exists in the source, under the tmp. name or under the final name *)
Definition Mid (s0 t : mst) (p : path) (c : Z) : Prop :=
  (forall q, q <> p -> dget (Fin q) (dst t) = dget (Fin q) (dst s0) /\
                       dget (Tmp q) (dst t) = dget (Tmp q) (dst s0) /\
                       rget q (src t) = rget q (src s0)) /\
  (dget (Fin p) (dst t) = dget (Fin p) (dst s0) \/ Full (dget (Fin p) (dst t)) c) /\
  (rget p (src t) = Some c \/
   (rget p (src t) = None /\ (Full (dget (Tmp p) (dst t)) c \/ Full (dget (Fin p) (dst t)) c))) /\
  h (ring t) = h (ring s0) /\ dels (ring t) = dels (ring s0) /\ err (ring t) = err (ring s0) /\
  NoDup (keys (src t)).

Lemma good_disk r d : Good rbc r -> NoDup (keys d) -> Good rbc (mkSt (h r) d (dels r) (err r)).
Proof. intros (I & _ & J) N. split; [exact I | split; [exact N | exact J]]. Qed.

Lemma mid_good s0 t p c : Good rbc (ring s0) -> Mid s0 t p c -> Good rbc (ring t).
Proof.
  intros (I & _ & J) (_ & _ & _ & Hh & Hd & _ & N). split; [rewrite Hh; exact I|].
  split; [exact N | rewrite Hd; exact J].
Qed.

Ltac dsimp := repeat (rewrite ?dget_dset, ?dget_ddel; cbn [dname_eqb]); rewrite ?path_eqb_refl.

Lemma neq_eqb q p : q <> p -> path_eqb q p = false.
Proof. apply path_eqb_neq. Qed.

Lemma mid_init s p c : NoDup (keys (src s)) -> rget p (src s) = Some c -> Mid s s p c.
Proof. intros N H. unfold Mid. repeat split; auto. Qed.

Section MidSteps.
Variables (s0 : mst) (p : path) (c : Z).

Lemma mid_copybegin t : Mid s0 t p c -> rget p (src t) = Some c ->
  Mid s0 (apply_fop t (FCopyBegin p (Tmp p))) p c /\ rget p (src (apply_fop t (FCopyBegin p (Tmp p)))) = Some c.
Proof.
  intros (A & B & C & D) H. cbn [apply_fop]. rewrite H. split; auto.
  unfold Mid, src in *; cbn [ring dst]. split; [|split; [|split]]; auto.
  - intros q Hq. dsimp. rewrite (neq_eqb q p Hq). apply A; auto.
  - dsimp. auto.
Qed.
Lemma mid_copyend t : Mid s0 t p c -> rget p (src t) = Some c ->
  let t' := apply_fop t (FCopyEnd p (Tmp p)) in
  Mid s0 t' p c /\ rget p (src t') = Some c /\ Full (dget (Tmp p) (dst t')) c.
Proof.
  intros (A & B & C & D) H. cbn [apply_fop]. rewrite H. cbn zeta. split; [|split; auto].
  - unfold Mid, src in *; cbn [ring dst]. split; [|split; [|split]]; auto.
    + intros q Hq. dsimp. rewrite (neq_eqb q p Hq). apply A; auto.
    + dsimp. auto.
  - cbn [dst]. dsimp. unfold Full; eauto.
Qed.
Lemma mid_link t : Mid s0 t p c -> rget p (src t) = Some c -> dget (Tmp p) (dst t) = None ->
  let t' := apply_fop t (FLink p (Tmp p)) in
  Mid s0 t' p c /\ rget p (src t') = Some c /\ Full (dget (Tmp p) (dst t')) c.
Proof.
  intros (A & B & C & D) H Ht. cbn [apply_fop]. rewrite H, Ht. cbn zeta. split; [|split; auto].
  - unfold Mid, src in *; cbn [ring dst]. split; [|split; [|split]]; auto.
    + intros q Hq. dsimp. rewrite (neq_eqb q p Hq). apply A; auto.
    + dsimp. auto.
  - cbn [dst]. dsimp. unfold Full; eauto.
Qed.
Lemma mid_nolink t : Mid s0 t p c -> Mid s0 (apply_fop t (FNoLink p)) p c.
Proof. intros M. exact M. Qed.
Lemma mid_renamein t : Mid s0 t p c -> rget p (src t) = Some c ->
  let t' := apply_fop t (FRenameIn p (Tmp p)) in
  Mid s0 t' p c /\ rget p (src t') = None /\ Full (dget (Tmp p) (dst t')) c.
Proof.
  intros (A & B & C & Hh & Hd & He & N) H. cbn [apply_fop]. rewrite H. cbn zeta.
  rewrite step_envremove. unfold src in *. cbn [ring dst disk].
  assert (R1 : rget p (rdel p (disk (ring t))) = None) by (rewrite rget_rdel, path_eqb_refl; auto).
  split; [|split; auto].
  - unfold Mid, src; cbn [ring dst disk h dels err]. split; [|split; [|split; [|split; [|split; [|split]]]]]; auto.
    + intros q Hq. dsimp. rewrite (neq_eqb q p Hq). rewrite rget_rdel, (neq_eqb q p Hq) by auto. apply A; auto.
    + dsimp. auto.
    + right. split; auto. left. dsimp. unfold Full; eauto.
    + apply NoDup_keys_rdel; auto.
  - dsimp. unfold Full; eauto.
Qed.
Lemma mid_unlink t : Mid s0 t p c -> Full (dget (Tmp p) (dst t)) c ->
  let t' := apply_fop t (FUnlinkSrc p) in
  Mid s0 t' p c /\ rget p (src t') = None /\ Full (dget (Tmp p) (dst t')) c.
Proof.
  intros (A & B & C & Hh & Hd & He & N) F. cbn [apply_fop]. unfold ring_step. cbn zeta.
  rewrite step_envremove. unfold src in *. cbn [ring dst disk].
  assert (R1 : rget p (rdel p (disk (ring t))) = None) by (rewrite rget_rdel, path_eqb_refl; auto).
  split; [|split; auto].
  unfold Mid, src; cbn [ring dst disk h dels err]. split; [|split; [|split; [|split; [|split; [|split]]]]]; auto.
  - intros q Hq. rewrite rget_rdel, (neq_eqb q p Hq) by auto. apply A; auto.
  - apply NoDup_keys_rdel; auto.
Qed.
Lemma mid_rename t : Mid s0 t p c -> Full (dget (Tmp p) (dst t)) c ->
  let t' := apply_fop t (FRename (Tmp p) (Fin p)) in
  Mid s0 t' p c /\ rget p (src t') = rget p (src t) /\ Full (dget (Fin p) (dst t')) c /\ dget (Tmp p) (dst t') = None.
Proof.
  intros (A & B & C & D) [l F]. cbn [apply_fop]. rewrite F. cbn zeta. unfold src in *; cbn [ring dst].
  assert (FF : Full (dget (Fin p) (dset (Fin p) (mkD c true l) (ddel (Tmp p) (dst t)))) c)
    by (dsimp; unfold Full; eauto).
  split; [|split; [auto | split; [exact FF | dsimp; auto]]].
  unfold Mid, src; cbn [ring dst]. split; [|split; [|split]]; auto.
  - intros q Hq. dsimp. rewrite (neq_eqb q p Hq). apply A; auto.
  - destruct C as [C|[C1 C2]]; auto.
Qed.
End MidSteps.

Ltac in_states H := cbn [states In] in H; repeat (destruct H as [<-|H]; [|]); try contradiction.

(* one staged transfer of p followed by the rename: every intermediate state is a Mid state and
   the final state holds the complete file under the final name, with no tmp. name left *)
Lemma plan_effect mc m s p c : MInv s -> rget p (src s) = Some c ->
  let l := stage mc m s p ++ [FRename (Tmp p) (Fin p)] in
  (forall t, In t (states s l) -> Mid s t p c) /\ Full (dget (Fin p) (dst (exec s l))) c /\ NoTmp (exec s l) /\ (m <> Move -> rget p (src (exec s l)) = Some c) /\ (m = Move -> rget p (src (exec s l)) = None).
Proof.
  intros (G & FO & NT) Hs. pose proof G as (_ & ND & _).
  pose proof (mid_init s p c ND Hs) as M0.
  assert (Ht : dget (Tmp p) (dst s) = None) by apply NT.
  assert (Fin_ : forall t, Mid s t p c -> Full (dget (Fin p) (dst t)) c -> dget (Tmp p) (dst t) = None ->
                 Full (dget (Fin p) (dst t)) c /\ NoTmp t).
  { intros t (A & _) F Tn. split; auto. intros q. destruct (path_eq_dec q p) as [->|Hq]; auto.
    destruct (A q Hq) as (_ & A2 & _). rewrite A2. apply NT. }
  (* the five shapes of a plan *)
  assert (CopyShape : forall t0, Mid s t0 p c -> rget p (src t0) = Some c -> dget (Tmp p) (dst t0) = dget (Tmp p) (dst s) ->
     let l := [FCopyBegin p (Tmp p); FCopyEnd p (Tmp p); FRename (Tmp p) (Fin p)] in
     (forall t, In t (states t0 l) -> Mid s t p c) /\ Full (dget (Fin p) (dst (exec t0 l))) c /\ NoTmp (exec t0 l) /\    rget p (src (exec t0 l)) = Some c).
  { intros t0 Mt Hr _. destruct (mid_copybegin s p c t0 Mt Hr) as (M1 & H1).
    destruct (mid_copyend s p c _ M1 H1) as (M2 & H2 & F2).
    destruct (mid_rename s p c _ M2 F2) as (M3 & H3 & F3 & T3).
    cbn zeta. split; [intros t Hin; cbn [states In] in Hin; destruct Hin as [<-|[<-|[<-|[]]]]; auto|].
    cbn [exec fold_left]. destruct (Fin_ _ M3 F3 T3). split; auto. split; auto. rewrite H3. auto. }
  unfold stage. cbn zeta.
  destruct m.
  - (* Copy *)
    destruct (CopyShape s M0 Hs eq_refl) as (A & B & C & D). cbn [app].
    split; auto. split; auto. split; auto. split; [auto | congruence].
  - (* Move *)
    destruct (m_same_fs mc).
    + destruct (mid_renamein s p c s M0 Hs) as (M1 & H1 & F1).
      destruct (mid_rename s p c _ M1 F1) as (M2 & H2 & F2 & T2). cbn [app].
      split; [intros t Hin; cbn [states In] in Hin; destruct Hin as [<-|[<-|[]]]; auto|].
      cbn [exec fold_left]. destruct (Fin_ _ M2 F2 T2). split; auto. split; auto.
      split; [congruence | intros _; rewrite H2; auto].
    + destruct (mid_copybegin s p c s M0 Hs) as (M1 & H1).
      destruct (mid_copyend s p c _ M1 H1) as (M2 & H2 & F2).
      destruct (mid_unlink s p c _ M2 F2) as (M3 & H3 & F3).
      destruct (mid_rename s p c _ M3 F3) as (M4 & H4 & F4 & T4). cbn [app].
      split; [intros t Hin; cbn [states In] in Hin; destruct Hin as [<-|[<-|[<-|[<-|[]]]]]; auto|].
      cbn [exec fold_left]. destruct (Fin_ _ M4 F4 T4). split; auto. split; auto.
      split; [congruence | intros _; rewrite H4; auto].
  - (* Link *)
    destruct (dir_mem (dir_of p) (nolink s)); [|destruct (m_linkable mc)].
    + destruct (CopyShape s M0 Hs eq_refl) as (A & B & C & D). cbn [app].
      split; auto. split; auto. split; auto. split; [auto | congruence].
    + destruct (mid_link s p c s M0 Hs Ht) as (M1 & H1 & F1).
      destruct (mid_rename s p c _ M1 F1) as (M2 & H2 & F2 & T2). cbn [app].
      split; [intros t Hin; cbn [states In] in Hin; destruct Hin as [<-|[<-|[]]]; auto|].
      cbn [exec fold_left]. destruct (Fin_ _ M2 F2 T2). split; auto. split; auto.
      split; [intros _; rewrite H2; auto | congruence].
    + pose proof (mid_nolink s p c s M0) as Mn.
      destruct (CopyShape (apply_fop s (FNoLink p)) Mn Hs eq_refl) as (A & B & C & D). cbn [app].
      split; [intros t Hin; cbn [states In] in Hin; destruct Hin as [<-|Hin]; auto|].
      cbn [exec fold_left]. split; auto. split; auto. split; [auto | congruence].
Qed.

(* ------------------------------------------------------------------ the ring buffer inside the mirror *)
Lemma rbc_once : c_dup rbc = CountOnce.
Proof. reflexivity. Qed.

Definition RingMD (r : st) : Prop := forall x, In x (keys (recs (h r))) -> kind_md x = true.
Definition ev_op (o : op) : Prop :=
  match o with Created _ | Modified _ | Deleted _ | Moved _ _ => True | _ => False end.

Lemma ring_event r o : Good rbc r -> RingMD r -> ev_op o ->
  (forall x, In x (op_paths r o) -> kind_md x = true) ->
  Good rbc (step rbc r o) /\ RingMD (step rbc r o) /\
  (forall x, rget x (disk (step rbc r o)) = None \/ rget x (disk (step rbc r o)) = rget x (disk r)) /\
  (forall x, kind_md x = false -> rget x (disk (step rbc r o)) = rget x (disk r)).
Proof.
  intros G M E Hp. split; [apply step_good; auto; apply rbc_once|].
  destruct (step_reach rbc r o) as (R1 & nd & E1 & R2).
  destruct (step_disk rbc r o (proj1 (proj2 G))) as (nd' & E2 & D).
  assert (nd' = nd) by (rewrite E1 in E2; apply app_inv_head in E2; auto). subst nd'.
  assert (Env : env_effect o (disk r) = disk r) by (destruct o; simpl in E; try contradiction; auto).
  rewrite Env in D.
  split; [|split].
  - intros x Hx. destruct (R1 x Hx) as [A|A]; auto.
  - intros x. rewrite D. destruct (mem x (map d_path nd)); auto.
  - intros x Hx. rewrite D. rewrite mem_false_notin; auto. intros y Hy ->.
    apply in_map_iff in Hy. destruct Hy as (d & <- & Hd).
    destruct (R2 d Hd) as [A|A]; [apply M in A | apply Hp in A]; congruence.
Qed.

(* every change of the ring component is a ring-buffer step, so the ring-buffer theorems apply *)
Lemma apply_ring s f : ring (apply_fop s f) = ring s \/ exists o, ring (apply_fop s f) = step rbc (ring s) o.
Proof.
  destruct f; cbn [apply_fop]; unfold ring_step; cbn [ring]; eauto.
  - destruct (rget p (src s)); auto.
  - destruct (rget p (src s)); auto.
  - destruct (rget p (src s)); auto. destruct (dget n (dst s)); auto.
  - destruct (rget p (src s)); cbn [ring]; eauto.
  - destruct (dget a (dst s)); auto.
Qed.
Lemma exec_ring l : forall s, exists ops, ring (exec s l) = fold_left (step rbc) ops (ring s).
Proof.
  induction l as [|f r IH]; intros s; [exists []; auto|]. cbn [exec fold_left].
  destruct (IH (apply_fop s f)) as [ops E]. fold (exec (apply_fop s f) r). 
  destruct (apply_ring s f) as [A|[o A]].
  - exists ops. unfold exec in *. rewrite E, A. auto.
  - exists (o :: ops). unfold exec in *. rewrite E, A. auto.
Qed.

(* ------------------------------------------------------------------ invariant of event boundaries *)
Definition MInvR (s : mst) : Prop := MInv s /\ RingMD (ring s).

Definition same_view (s t : mst) : Prop := ring t = ring s /\ dst t = dst s.

(* states of one mirror_to_dest *)
Lemma plan_states mc m s q : MInvR s ->
  let l := mirror_plan mc m s q in
  (forall t, In t (states s l) ->
     same_view s t \/ exists c', rget q (src s) = Some c' /\ up_to_date s q c' = false /\ Mid s t q c') /\
  MInvR (exec s l) /\ (same_view s (exec s l) \/ exists c', rget q (src s) = Some c' /\ Mid s (exec s l) q c') /\
  (forall c', rget q (src s) = Some c' -> Full (dget (Fin q) (dst (exec s l))) c') /\
  (forall c', rget q (src s) = Some c' -> m <> Move -> rget q (src (exec s l)) = Some c').
Proof.
  intros ((G & FO & NT) & RM). unfold mirror_plan.
  destruct (rget q (src s)) as [c'|] eqn:Hs.
  - destruct (up_to_date s q c') eqn:U.
    + cbn [states exec fold_left In]. split; [tauto|]. split; [split; [split|]; auto|].
      split; [left; split; auto|]. split; [|intros c2 E _; cbn [exec fold_left]; rewrite Hs; exact E].
      intros c2 E. inversion E; subst c2. unfold up_to_date in U.
      destruct (dget (Fin q) (dst s)) as [d|]; [|discriminate]. apply andb_true_iff in U. destruct U as [U1 U2].
      apply Z.eqb_eq in U1. destruct d as [dc0 dk0 dl0]; simpl in *; subst. exists dl0. auto.
    + destruct (plan_effect mc m s q c' (conj G (conj FO NT)) Hs) as (A & B & C & D1 & D2). cbn zeta in *.
      set (l := stage mc m s q ++ [FRename (Tmp q) (Fin q)]) in *.
      assert (Ml : Mid s (exec s l) q c').
      { apply A. subst l. rewrite states_app. apply in_or_app. right. cbn [states In]. left.
        rewrite exec_app. reflexivity. }
      split; [intros t Ht; right; exists c'; auto|]. split; [|split; [right; exists c'; auto|split]].
      * split; [split; [eapply mid_good; eauto | split; auto]|].
        -- intros x d Hd. destruct Ml as (M1 & M2 & _). destruct (path_eq_dec x q) as [->|Hx].
           ++ destruct M2 as [M2|[l0 M2]]; [rewrite M2 in Hd; eapply FO; eauto | rewrite M2 in Hd; inversion Hd; auto].
           ++ destruct (M1 x Hx) as (M1a & _). rewrite M1a in Hd. eapply FO; eauto.
        -- destruct Ml as (_ & _ & _ & Hh & _). intros x Hx. rewrite Hh in Hx. auto.
      * intros c2 E. inversion E; subst; auto.
      * intros c2 E Hm. inversion E; subst; auto.
  - assert (SV : forall t, In t (states s [FNoLink q]) -> same_view s t).
    { intros t [<-|[]]. split; auto. }
    assert (K : forall l, l = [] \/ l = [FNoLink q] ->
       (forall t, In t (states s l) -> same_view s t \/
           exists c', None = Some c' /\ up_to_date s q c' = false /\ Mid s t q c') /\
       MInvR (exec s l) /\ (same_view s (exec s l) \/ exists c', None = Some c' /\ Mid s (exec s l) q c') /\
       (forall c', None = Some c' -> Full (dget (Fin q) (dst (exec s l))) c') /\
       (forall c', None = Some c' -> m <> Move -> rget q (src (exec s l)) = Some c')).
    { intros l [->| ->].
      - cbn [states exec fold_left In]. split; [tauto|]. split; [split; [split|]; auto|].
        split; [left; split; auto|]. split; intros; discriminate.
      - split; [intros t Ht; left; auto|]. cbn [exec fold_left apply_fop].
        split; [split; [split|]; auto|]. split; [left; split; auto|]. split; intros; discriminate. }
    destruct m; [apply K; left; reflexivity | apply K; left; reflexivity |].
    destruct (dget (Fin q) (dst s)); [apply K; left; reflexivity|].
    destruct (dir_mem (dir_of q) (nolink s)); apply K; [left | right]; reflexivity.
Qed.

(* ------------------------------------------------------------------ predicates preserved by every operation of every event *)
Lemma exec_in_states l : forall s, l <> [] -> In (exec s l) (states s l).
Proof.
  induction l as [|f r IH]; intros s H; [congruence|]. cbn [states exec fold_left In].
  destruct r as [|g r']; [left; reflexivity|]. right. apply (IH (apply_fop s f)). congruence.
Qed.

Definition hm_ok (selb : path -> bool) (hm : hnd * (path -> bool)) : Prop :=
  match fst hm with
  | HRing => forall p, snd hm p = true -> kind_md p = true
  | HMirror _ => forall p, snd hm p = true -> selb p = true
  end.
Lemma copy_match_selected mc b p : copy_match mc b p = true -> selected mc p = true.
Proof.
  unfold copy_match, selected.
  destruct b, (m_drf mc), (m_dmd mc), (kind_rf p), (kind_md p), (pg p =? -1), (pg p =? -2); simpl; auto.
Qed.
Lemma mirror_handlers_ok mc : Forall (hm_ok (selected mc)) (mirror_handlers mc).
Proof.
  unfold mirror_handlers.
  assert (C : forall m b, hm_ok (selected mc) (HMirror m, copy_match mc b))
    by (intros m b p H; simpl in H; eapply copy_match_selected; eauto).
  destruct (m_meth mc); repeat constructor; auto.
  destruct (m_drf mc) eqn:D; repeat constructor. intros p H. simpl in H. unfold selected. rewrite D, H. auto.
Qed.
Lemma ring_handlers_ok mc selb : Forall (hm_ok selb) (ring_handlers mc).
Proof.
  unfold ring_handlers. destruct (m_meth mc); try constructor. destruct (m_dmd mc); repeat constructor.
  intros p H; exact H.
Qed.
Lemma handlers_ok mc : Forall (hm_ok (selected mc)) (handlers mc).
Proof. unfold handlers. apply Forall_app. split; [apply mirror_handlers_ok | apply ring_handlers_ok]. Qed.
Definition is_env (e : mev) : Prop := match e with EWrite _ _ | ERemove _ => True | _ => False end.

Lemma minvr_ring s o : MInvR s -> ev_op o -> (forall x, In x (op_paths (ring s) o) -> kind_md x = true) ->
  MInvR (ring_step s o).
Proof.
  intros ((G & FO & NT) & RM) E Hp. destruct (ring_event (ring s) o G RM E Hp) as (G' & RM' & _).
  split; [split; [exact G' | split; [exact FO | exact NT]] | exact RM'].
Qed.

Section Preserve.
Variable selb : path -> bool.      (* what the mirror handlers may match: the selected kinds *)
Variable P : mst -> Prop.
Hypothesis P_view : forall s t, same_view s t -> P s -> P t.
Hypothesis P_mid : forall s t q c', MInvR s -> P s -> rget q (src s) = Some c' ->
  up_to_date s q c' = false -> selb q = true -> Mid s t q c' -> P t.
Hypothesis P_ring : forall s o, MInvR s -> P s -> ev_op o ->
  (forall x, In x (op_paths (ring s) o) -> kind_md x = true) -> P (ring_step s o).

Lemma plan_preserves mc m s q : selb q = true -> MInvR s -> P s ->
  let l := mirror_plan mc m s q in
  (forall t, In t (states s l) -> P t) /\ P (exec s l) /\ MInvR (exec s l).
Proof.
  intros Sq I HP. destruct (plan_states mc m s q I) as (A & B & _). cbn zeta.
  assert (St : forall t, In t (states s (mirror_plan mc m s q)) -> P t).
  { intros t Ht. destruct (A t Ht) as [V|(c' & E1 & E2 & M)]; [apply (P_view s t V HP) | apply (P_mid s t q c' I HP E1 E2 Sq M)]. }
  split; auto. split; auto.
  destruct (mirror_plan mc m s q) as [|f r] eqn:E; [exact HP|].
  apply St. apply exec_in_states. congruence.
Qed.

Lemma ring_preserves s o : MInvR s -> P s -> ev_op o ->
  (forall x, In x (op_paths (ring s) o) -> kind_md x = true) ->
  let l := [FRing o] in (forall t, In t (states s l) -> P t) /\ P (exec s l) /\ MInvR (exec s l).
Proof.
  intros I HP E Hp. cbn [states exec fold_left apply_fop In].
  split; [intros t [<-|[]]; apply P_ring; auto|]. split; [apply P_ring; auto | apply minvr_ring; auto].
Qed.

Lemma nil_preserves s : MInvR s -> P s ->
  (forall t, In t (states s []) -> P t) /\ P (exec s []) /\ MInvR (exec s []).
Proof. intros I HP. cbn [states exec fold_left In]. tauto. Qed.

Lemma handler_preserves mc hm s e : hm_ok selb hm -> MInvR s -> P s -> ~ is_env e ->
  let l := handler_fops mc hm s e in
  (forall t, In t (states s l) -> P t) /\ P (exec s l) /\ MInvR (exec s l).
Proof.
  intros Hok I HP Ne. destruct hm as [hd mt]. unfold hm_ok in Hok; simpl in Hok. cbn zeta.
  assert (Rg : forall o, hd = HRing -> ev_op o -> (forall x, In x (op_paths (ring s) o) -> mt x = true) ->
               (forall t, In t (states s [FRing o]) -> P t) /\ P (exec s [FRing o]) /\ MInvR (exec s [FRing o])).
  { intros o -> E Hp. apply ring_preserves; auto. }
  unfold handler_fops. destruct e; simpl in Ne; try tauto.
  - destruct (mt p) eqn:Mp; [|apply nil_preserves; auto]. unfold react. destruct hd.
    + apply plan_preserves; auto.
    + apply Rg; simpl; auto; try (intros x [<-|[]]; auto).
  - destruct (mt p) eqn:Mp; [|apply nil_preserves; auto]. unfold react. destruct hd.
    + apply plan_preserves; auto.
    + apply Rg; simpl; auto; try (intros x [<-|[]]; auto).
  - destruct (mt p) eqn:Mp; [|apply nil_preserves; auto]. unfold react_deleted. destruct hd.
    + apply nil_preserves; auto.
    + apply Rg; simpl; auto; try (intros x []).
  - destruct (mt p) eqn:Mp, (mt q) eqn:Mq.
    + destruct hd; [apply nil_preserves; auto|]. apply Rg; simpl; auto; try (intros x [<-|[]]; auto).
    + unfold react_deleted. destruct hd; [apply nil_preserves; auto|]. apply Rg; simpl; auto; try (intros x []).
    + unfold react. destruct hd; [apply plan_preserves; auto|]. apply Rg; simpl; auto; try (intros x [<-|[]]; auto).
    + apply nil_preserves; auto.
Qed.

Lemma handlers_preserves mc hs : forall s e, Forall (hm_ok selb) hs -> MInvR s -> P s -> ~ is_env e ->
  let l := handlers_fops mc hs s e in
  (forall t, In t (states s l) -> P t) /\ P (exec s l) /\ MInvR (exec s l).
Proof.
  induction hs as [|hm r IH]; intros s e F I HP Ne; [apply nil_preserves; auto|].
  inversion F; subst. cbn [handlers_fops]. cbn zeta.
  destruct (handler_preserves mc hm s e H1 I HP Ne) as (A1 & A2 & A3).
  destruct (IH (exec s (handler_fops mc hm s e)) e H2 A3 A2 Ne) as (B1 & B2 & B3).
  rewrite states_app, exec_app. split; [|split; auto].
  intros t Ht. apply in_app_or in Ht. destruct Ht; auto.
Qed.

Variable allowed : mev -> Prop.
Hypothesis P_env : forall s e, MInvR s -> P s -> is_env e -> allowed e ->
  forall f, In f (match e with EWrite p c => [FEnvWrite p c] | ERemove p => [FEnvRemove p] | _ => [] end) ->
  P (apply_fop s f).

Lemma minvr_env s f : MInvR s -> (exists p c, f = FEnvWrite p c) \/ (exists p, f = FEnvRemove p) -> MInvR (apply_fop s f).
Proof.
  intros ((G & FO & NT) & RM) [(p & c & ->)|(p & ->)]; cbn [apply_fop].
  - split; [split; [|split]|].
    + cbn [ring]. apply step_good; [apply rbc_once | auto].
    + unfold FinOk; cbn [dst]. intros x d. destruct (rget p (src s)); [|apply FO]. rewrite dget_relink.
      destruct (dget (Fin x) (dst s)) as [v|] eqn:E; [|discriminate]. intros H; inversion H; subst.
      specialize (FO x v E). match goal with |- context [if ?b then _ else _] => destruct b end; simpl; auto.
    + unfold NoTmp; cbn [dst]. intros x. destruct (rget p (src s)); [|apply NT]. rewrite dget_relink. rewrite NT. auto.
    + unfold RingMD; cbn [ring]. rewrite step_envwrite. exact RM.
  - split; [split; [|split]|].
    + cbn [ring]. apply step_good; [apply rbc_once | auto].
    + unfold FinOk; cbn [dst]. intros x d. rewrite dget_relink.
      destruct (dget (Fin x) (dst s)) as [v|] eqn:E; [|discriminate]. intros H; inversion H; subst.
      specialize (FO x v E). match goal with |- context [if ?b then _ else _] => destruct b end; simpl; auto.
    + unfold NoTmp; cbn [dst]. intros x. rewrite dget_relink. rewrite NT. auto.
    + unfold RingMD; cbn [ring]. rewrite step_envremove. exact RM.
Qed.

Lemma event_preserves mc s e : Forall (hm_ok selb) (handlers mc) -> MInvR s -> P s -> allowed e ->
  let l := event_fops mc s e in
  (forall t, In t (states s l) -> P t) /\ P (exec s l) /\ MInvR (exec s l).
Proof.
  intros HO I HP Al. cbn zeta.
  assert (Env : forall f, (exists p c, f = FEnvWrite p c) \/ (exists p, f = FEnvRemove p) ->
                P (apply_fop s f) ->
                (forall t, In t (states s [f]) -> P t) /\ P (exec s [f]) /\ MInvR (exec s [f])).
  { intros f Hf Pf. cbn [states exec fold_left In]. split; [intros t [<-|[]]; auto|]. split; auto.
    apply minvr_env; auto. }
  destruct e; cbn [event_fops].
  - apply Env; [left; eauto|]. apply (P_env s (EWrite p c)); simpl; auto.
  - apply Env; [right; eauto|]. apply (P_env s (ERemove p)); simpl; auto.
  - apply handlers_preserves; [exact HO | exact I | exact HP | simpl; tauto].
  - apply handlers_preserves; [exact HO | exact I | exact HP | simpl; tauto].
  - apply handlers_preserves; [exact HO | exact I | exact HP | simpl; tauto].
  - apply handlers_preserves; [exact HO | exact I | exact HP | simpl; tauto].
Qed.

Lemma run_preserves mc evs : Forall (hm_ok selb) (handlers mc) -> forall s, MInvR s -> P s -> Forall allowed evs ->
  let l := run_fops mc s evs in
  (forall t, In t (states s l) -> P t) /\ P (exec s l) /\ MInvR (exec s l).
Proof.
  intros HO. induction evs as [|e r IH]; intros s I HP F; [cbn [run_fops states exec fold_left In]; tauto|].
  inversion F; subst. cbn [run_fops]. cbn zeta.
  destruct (event_preserves mc s e HO I HP H1) as (A1 & A2 & A3).
  destruct (IH (exec s (event_fops mc s e)) A3 A2 H2) as (B1 & B2 & B3).
  rewrite states_app, exec_app. split; [|split; auto].
  intros t Ht. apply in_app_or in Ht. destruct Ht; auto.
Qed.
End Preserve.

Lemma minvr_init : MInvR minit.
Proof.
  split; [split; [apply good_init | split]|].
  - intros p d H. discriminate.
  - intros p. reflexivity.
  - intros x [].
Qed.

(* ------------------------------------------------------------------ A. staged publication *)
Lemma finok_view s t : same_view s t -> FinOk s -> FinOk t.
Proof. intros [_ E] F p d. rewrite E. apply F. Qed.
Lemma finok_mid s t q c' : MInvR s -> FinOk s -> rget q (src s) = Some c' ->
  up_to_date s q c' = false -> Mid s t q c' -> FinOk t.
Proof.
  intros _ F _ _ (M1 & M2 & _) x d Hd. destruct (path_eq_dec x q) as [->|Hx].
  - destruct M2 as [M2|[l M2]]; rewrite M2 in Hd; [eapply F; eauto | inversion Hd; auto].
  - destruct (M1 x Hx) as (E & _). rewrite E in Hd. eapply F; eauto.
Qed.
Lemma finok_ring s o : MInvR s -> FinOk s -> ev_op o ->
  (forall x, In x (op_paths (ring s) o) -> kind_md x = true) -> FinOk (ring_step s o).
Proof. intros _ F _ _. exact F. Qed.

Lemma staged_publication mc evs t : In t (mtrace mc evs) -> FinOk t.
Proof.
  intros H. unfold mtrace in H.
  destruct (run_preserves (selected mc) FinOk finok_view
              (fun s t q c' I P0 E U _ M => finok_mid s t q c' I P0 E U M) finok_ring (fun _ => True))
    with (mc := mc) (evs := evs) (s := minit) as (A & _); auto.
  2: apply handlers_ok.
  - intros s e I _ Ie _ f Hf.
    assert (MInvR (apply_fop s f)) as ((_ & F & _) & _); auto.
    apply minvr_env; auto. destruct e; simpl in Hf; try contradiction; destruct Hf as [<-|[]]; eauto.
  - apply minvr_init.
  - destruct minvr_init as ((_ & F & _) & _). exact F.
  - apply Forall_forall. auto.
Qed.

(* ------------------------------------------------------------------ B. one event mirrors the file *)
Lemma kinds_disjoint p :
  (kind_md p = true -> kind_rf p = false /\ kind_prop p = false) /\
  (kind_rf p = true -> kind_md p = false /\ kind_prop p = false) /\
  (kind_prop p = true -> kind_md p = false /\ kind_rf p = false).
Proof.
  unfold kind_md, kind_rf, kind_prop. destruct (0 <=? pg p) eqn:E; simpl.
  - apply Z.leb_le in E. rewrite <- Z.negb_even.
    assert (pg p =? -1 = false) by (apply Z.eqb_neq; lia).
    assert (pg p =? -2 = false) by (apply Z.eqb_neq; lia).
    rewrite H, H0. destruct (Z.even (pg p)); simpl; repeat split; auto; discriminate.
  - repeat split; auto; discriminate.
Qed.

Section Stable.
Variables (p : path) (c : Z).
Definition Stable (s : mst) : Prop :=
  Full (dget (Fin p) (dst s)) c /\ (rget p (src s) = None \/ rget p (src s) = Some c).
Definition no_rewrite (e : mev) : Prop :=
  match e with EWrite q c2 => q = p -> c2 = c | _ => True end.

Lemma stable_view s t : same_view s t -> Stable s -> Stable t.
Proof. intros [E1 E2] [A B]. unfold Stable, src. rewrite E1, E2. auto. Qed.
Lemma stable_mid s t q c' : MInvR s -> Stable s -> rget q (src s) = Some c' ->
  up_to_date s q c' = false -> Mid s t q c' -> Stable t.
Proof.
  intros _ [[l A] B] Hs U (M1 & _). destruct (path_eq_dec p q) as [<-|Hq].
  - exfalso. destruct B as [B|B]; rewrite B in Hs; [discriminate|]. inversion Hs; subst c'.
    unfold up_to_date in U. rewrite A in U. simpl in U. rewrite Z.eqb_refl in U. discriminate.
  - destruct (M1 p Hq) as (E1 & _ & E3). unfold Stable. rewrite E1, E3. split; eauto. exists l; auto.
Qed.
Lemma stable_ring s o : MInvR s -> Stable s -> ev_op o ->
  (forall x, In x (op_paths (ring s) o) -> kind_md x = true) -> Stable (ring_step s o).
Proof.
  intros ((G & _) & RM) [A B] E Hp. destruct (ring_event (ring s) o G RM E Hp) as (_ & _ & D & _).
  split; [exact A|]. unfold src; cbn [ring_step ring]. destruct (D p) as [D1|D1]; [auto | rewrite D1; exact B].
Qed.
Lemma stable_env s e : MInvR s -> Stable s -> is_env e -> no_rewrite e ->
  forall f, In f (match e with EWrite q c2 => [FEnvWrite q c2] | ERemove q => [FEnvRemove q] | _ => [] end) ->
  Stable (apply_fop s f).
Proof.
  intros ((G & _) & _) [[l A] B] Ie Nr f Hf. pose proof G as (_ & ND & _).
  destruct e; simpl in Ie; try contradiction; destruct Hf as [<-|[]]; cbn [apply_fop].
  - (* write q := p0 *)
    unfold Stable, src; cbn [ring dst]. rewrite step_envwrite; cbn [disk]. rewrite rget_rset.
    split.
    + destruct (rget p0 (disk (ring s))); [|exists l; auto]. rewrite dget_relink, A.
      cbn [name_path dl dok]. destruct (l && path_eqb p p0) eqn:E.
      * apply andb_true_iff in E. destruct E as [_ E]. apply path_eqb_eq in E. simpl in Nr. rewrite (Nr (eq_sym E)).
        exists true. auto.
      * exists l. auto.
    + peq p p0; [right; simpl in Nr; rewrite (Nr (eq_sym E)); auto | exact B].
  - unfold Stable, src; cbn [ring dst]. rewrite step_envremove; cbn [disk]. rewrite rget_rdel by auto.
    split.
    + rewrite dget_relink, A. cbn [name_path dl dok dc]. destruct (l && path_eqb p p0); eexists; eauto.
    + destruct (path_eqb p p0); auto.
Qed.

Lemma mirrored_stable mc evs s : MInvR s -> Stable s -> Forall no_rewrite evs ->
  (forall t, In t (states s (run_fops mc s evs)) -> Stable t) /\ Stable (exec s (run_fops mc s evs)).
Proof.
  intros I S F.
  destruct (run_preserves (selected mc) Stable stable_view
              (fun s t q c' I0 P0 E U _ M => stable_mid s t q c' I0 P0 E U M) stable_ring no_rewrite stable_env
              mc evs (handlers_ok mc) s I S F) as (A & B & _).
  auto.
Qed.
End Stable.

Lemma handlers_fops_app mc a : forall b s e,
  handlers_fops mc (a ++ b) s e = handlers_fops mc a s e ++ handlers_fops mc b (exec s (handlers_fops mc a s e)) e.
Proof.
  induction a as [|hm r IH]; intros b s e; cbn [handlers_fops app]; [reflexivity|].
  cbn zeta. rewrite IH, exec_app, app_assoc. reflexivity.
Qed.

Lemma selected_cases mc p : selected mc p = true ->
  copy_match mc true p = true /\ (copy_match mc false p = true \/ (m_drf mc = true /\ kind_rf p = true)).
Proof.
  unfold selected, copy_match.
  destruct (m_drf mc), (m_dmd mc), (kind_rf p), (kind_md p), (pg p =? -1), (pg p =? -2); simpl; intros H;
    try discriminate; split; auto.
Qed.
Lemma selected_matched mc p : selected mc p = true ->
  exists hm, In hm (mirror_handlers mc) /\ snd hm p = true.
Proof.
  intros H. destruct (selected_cases mc p H) as (A & B). unfold mirror_handlers.
  destruct (m_meth mc).
  - exists (HMirror Copy, copy_match mc true). split; [left; reflexivity | exact A].
  - destruct B as [B|[B1 B2]].
    + exists (HMirror Copy, copy_match mc false). split; [left; reflexivity | exact B].
    + rewrite B1. exists (HMirror Move, kind_rf). split; [right; left; reflexivity | exact B2].
  - exists (HMirror Link, copy_match mc true). split; [left; reflexivity | exact A].
Qed.
Lemma mirror_handlers_mirror mc hm : In hm (mirror_handlers mc) -> exists m, fst hm = HMirror m.
Proof.
  unfold mirror_handlers. destruct (m_meth mc); [| destruct (m_drf mc) |]; cbn [In];
    intros H; repeat (destruct H as [<-|H]; [eexists; reflexivity|]); destruct H.
Qed.

(* an event for a file of a selected kind, handled while the source holds content c *)
Lemma event_mirrors mc s p c (created : bool) : MInvR s -> rget p (src s) = Some c -> selected mc p = true ->
  let e := if created then ECreated p else EModified p in
  Stable p c (exec s (event_fops mc s e)) /\ MInvR (exec s (event_fops mc s e)).
Proof.
  intros I Hs Hm. cbn zeta.
  set (e := if created then ECreated p else EModified p).
  assert (Ne : ~ is_env e) by (subst e; destruct created; simpl; tauto).
  assert (EF : event_fops mc s e = handlers_fops mc (handlers mc) s e) by (subst e; destruct created; reflexivity).
  rewrite EF. clear EF.
  assert (HF : forall hm s0, handler_fops mc hm s0 e = if snd hm p then react mc (fst hm) s0 created p else []).
  { intros [hd mt] s0. subst e. destruct created; reflexivity. }
  assert (Pres : forall hs s0, Forall (hm_ok (selected mc)) hs -> MInvR s0 -> Stable p c s0 ->
            Stable p c (exec s0 (handlers_fops mc hs s0 e)) /\ MInvR (exec s0 (handlers_fops mc hs s0 e))).
  { intros hs s0 F0 I0 S0.
    destruct (handlers_preserves (selected mc) (Stable p c) (stable_view p c)
                (fun s t q c' I1 P0 E U _ M => stable_mid p c s t q c' I1 P0 E U M) (stable_ring p c)
                mc hs s0 e F0 I0 S0 Ne) as (_ & A & B). auto. }
  assert (Phase : forall ms s0, (forall hm, In hm ms -> exists m, fst hm = HMirror m) ->
            Forall (hm_ok (selected mc)) ms -> MInvR s0 ->
            (Stable p c s0 \/ (rget p (src s0) = Some c /\ exists hm, In hm ms /\ snd hm p = true)) ->
            Stable p c (exec s0 (handlers_fops mc ms s0 e)) /\ MInvR (exec s0 (handlers_fops mc ms s0 e))).
  { induction ms as [|hm r IH]; intros s0 Mir F0 I0 [S0|(H0 & hm' & Hin & Hmt)].
    - apply Pres; auto.
    - destruct Hin.
    - apply Pres; auto.
    - inversion F0; subst. cbn [handlers_fops]. cbn zeta. rewrite exec_app, HF.
      destruct (snd hm p) eqn:Mp.
      + destruct (Mir hm (or_introl eq_refl)) as [m Em]. rewrite Em. cbn [react].
        destruct (plan_states mc m s0 p I0) as (_ & I1 & E1 & F1 & _).
        apply IH; auto; [intros h0 Hh; apply Mir; right; auto|]. left.
        split; [apply F1; auto|].
        destruct E1 as [[E1 _]|(c' & Hc' & (_ & _ & M3 & _))].
        * unfold src. rewrite E1. auto.
        * rewrite H0 in Hc'. inversion Hc'; subst c'. destruct M3 as [M3|[M3 _]]; auto.
      + cbn [exec fold_left]. apply IH; auto; [intros h0 Hh; apply Mir; right; auto|]. right. split; auto.
        destruct Hin as [<-|Hin]; [rewrite Hmt in Mp; discriminate|]. eauto. }
  unfold handlers. rewrite handlers_fops_app, exec_app.
  destruct (selected_matched mc p Hm) as (hm & Hin & Hmt).
  destruct (Phase (mirror_handlers mc) s (mirror_handlers_mirror mc) (mirror_handlers_ok mc) I) as (S1 & I1); eauto.
  apply Pres; auto. apply ring_handlers_ok.
Qed.

(* ------------------------------------------------------------------ runs from the empty state *)
Lemma run_fops_app mc a : forall s b,
  run_fops mc s (a ++ b) = run_fops mc s a ++ run_fops mc (exec s (run_fops mc s a)) b.
Proof.
  induction a as [|e r IH]; intros s b; cbn [run_fops app]; [reflexivity|].
  cbn zeta. rewrite IH, exec_app, app_assoc. reflexivity.
Qed.
Lemma mrun_app mc a b : mrun mc (a ++ b) = exec (mrun mc a) (run_fops mc (mrun mc a) b).
Proof. unfold mrun. rewrite run_fops_app, exec_app. reflexivity. Qed.

Lemma mrun_minvr mc evs : MInvR (mrun mc evs).
Proof.
  destruct (run_preserves (selected mc) (fun _ => True)) with (allowed := fun _ : mev => True) (mc := mc) (evs := evs) (s := minit)
    as (_ & _ & I); auto; try apply handlers_ok; try apply minvr_init; try (apply Forall_forall; auto).
Qed.

(* C (guarded form of the fidelity statement): once an event for p is handled while the source holds
   p's final content c, the destination holds c under the final name -- and keeps it whatever
   events (duplicated, late, stale, for other files) follow, as long as p is not rewritten *)
Lemma finalized_mirrored mc pre p c (created : bool) post :
  rget p (src (mrun mc pre)) = Some c -> selected mc p = true -> Forall (no_rewrite p c) post ->
  Full (dget (Fin p) (dst (mrun mc (pre ++ (if created then ECreated p else EModified p) :: post)))) c.
Proof.
  intros Hs Hm F. rewrite mrun_app. cbn [run_fops]. cbn zeta. rewrite exec_app.
  destruct (event_mirrors mc (mrun mc pre) p c created (mrun_minvr mc pre) Hs Hm) as (S1 & I1). cbn zeta in S1, I1.
  destruct (mirrored_stable p c mc post _ I1 S1 F) as (_ & [A _]). exact A.
Qed.

(* idempotence: a second handling of the same file plans nothing *)
Lemma second_plan_empty mc m m' s p : MInvR s ->
  (forall f, In f (mirror_plan mc m' (exec s (mirror_plan mc m s p)) p) -> exists q, f = FNoLink q).
Proof.
  intros I. destruct (plan_states mc m s p I) as (_ & I1 & E1 & F1 & _).
  set (s1 := exec s (mirror_plan mc m s p)) in *. unfold mirror_plan at 1.
  destruct (rget p (src s1)) as [c1|] eqn:H1.
  - assert (U : up_to_date s1 p c1 = true).
    { destruct (rget p (src s)) as [c0|] eqn:H0.
      - destruct (F1 c0 eq_refl) as [l A]. unfold up_to_date. rewrite A. simpl.
        destruct E1 as [[E1 _]|(c' & Hc' & (_ & _ & M3 & _))].
        + unfold src in H1. rewrite E1 in H1. unfold src in H0. rewrite H0 in H1. inversion H1. rewrite Z.eqb_refl. auto.
        + inversion Hc'; subst c'. destruct M3 as [M3|[M3 _]]; rewrite M3 in H1; inversion H1. rewrite Z.eqb_refl. auto.
      - destruct E1 as [[E1 _]|(c' & Hc' & _)]; [|discriminate].
        unfold src in H1, H0. rewrite E1, H0 in H1. discriminate. }
    rewrite U. intros f [].
  - destruct m'; try (intros f []). destruct (dget (Fin p) (dst s1)); [intros f []|].
    destruct (dir_mem (dir_of p) (nolink s1)); [intros f [] | intros f [<-|[]]; eauto].
Qed.

(* ------------------------------------------------------------------ D. a data file is never lost *)
Section Holds.
Variables (p : path) (c : Z).
Hypothesis not_md : kind_md p = false.
Definition Holds (s : mst) : Prop :=
  (rget p (src s) = None \/ rget p (src s) = Some c) /\
  (rget p (src s) = Some c \/ Full (dget (Tmp p) (dst s)) c \/ Full (dget (Fin p) (dst s)) c).
Definition untouched (e : mev) : Prop :=
  match e with EWrite q _ | ERemove q => q <> p | _ => True end.

Lemma holds_view s t : same_view s t -> Holds s -> Holds t.
Proof. intros [E1 E2] H. unfold Holds, src in *. rewrite E1, E2. exact H. Qed.
Lemma holds_mid s t q c' : MInvR s -> Holds s -> rget q (src s) = Some c' ->
  up_to_date s q c' = false -> Mid s t q c' -> Holds t.
Proof.
  intros _ [A B] Hs _ (M1 & M2 & M3 & _). destruct (path_eq_dec p q) as [<-|Hq].
  - destruct A as [A|A]; rewrite A in Hs; [discriminate|]. inversion Hs; subst c'.
    unfold Holds. destruct M3 as [M3|[M3 M4]]; rewrite M3; auto.
  - destruct (M1 p Hq) as (E1 & E2 & E3). unfold Holds. rewrite E1, E2, E3. auto.
Qed.
Lemma holds_ring s o : MInvR s -> Holds s -> ev_op o ->
  (forall x, In x (op_paths (ring s) o) -> kind_md x = true) -> Holds (ring_step s o).
Proof.
  intros ((G & _) & RM) H E Hp. destruct (ring_event (ring s) o G RM E Hp) as (_ & _ & _ & D).
  unfold Holds, src in *; cbn [ring_step ring dst]. rewrite (D p not_md). exact H.
Qed.
Lemma holds_env s e : MInvR s -> Holds s -> is_env e -> untouched e ->
  forall f, In f (match e with EWrite q c2 => [FEnvWrite q c2] | ERemove q => [FEnvRemove q] | _ => [] end) ->
  Holds (apply_fop s f).
Proof.
  intros ((G & _) & _) H Ie Nr f Hf. pose proof G as (_ & ND & _).
  assert (RL : forall q g n, q <> p -> name_path n = p -> dget n (relink q g (dst s)) = dget n (dst s)).
  { intros q g n Hq Hn. rewrite dget_relink. destruct (dget n (dst s)) as [v|]; auto. rewrite Hn.
    rewrite (proj2 (path_eqb_neq p q)) by congruence. rewrite andb_false_r. auto. }
  destruct e; simpl in Ie; try contradiction; destruct Hf as [<-|[]]; cbn [apply_fop]; simpl in Nr.
  - unfold Holds, src in *; cbn [ring dst]. rewrite step_envwrite; cbn [disk]. rewrite rget_rset.
    rewrite (proj2 (path_eqb_neq p p0)) by congruence.
    destruct (rget p0 (disk (ring s))); [rewrite !RL by auto|]; exact H.
  - unfold Holds, src in *; cbn [ring dst]. rewrite step_envremove; cbn [disk]. rewrite rget_rdel by auto.
    rewrite (proj2 (path_eqb_neq p p0)) by congruence. rewrite !RL by auto. exact H.
Qed.

Lemma never_lost mc evs s : MInvR s -> Holds s -> Forall untouched evs ->
  forall t, In t (states s (run_fops mc s evs)) -> Holds t.
Proof.
  intros I H F.
  destruct (run_preserves (selected mc) Holds holds_view
              (fun s t q c' I0 P0 E U _ M => holds_mid s t q c' I0 P0 E U M) holds_ring untouched holds_env
              mc evs (handlers_ok mc) s I H F) as (A & _).
  exact A.
Qed.
End Holds.

Lemma rf_not_md p : kind_rf p = true -> kind_md p = false.
Proof. intros H. apply (proj1 (proj2 (kinds_disjoint p))). exact H. Qed.

(* from the moment the recorder has written data file p (content c), through every file-system
   operation of the mirror for every later event history that does not rewrite or remove p *)
Lemma move_never_loses mc pre p c post t : kind_rf p = true ->
  In t (states (mrun mc (pre ++ [EWrite p c])) (run_fops mc (mrun mc (pre ++ [EWrite p c])) post)) ->
  Forall (untouched p) post -> Holds p c t.
Proof.
  intros K Ht F. apply (never_lost p c (rf_not_md p K) mc post (mrun mc (pre ++ [EWrite p c]))); auto.
  - apply mrun_minvr.
  - rewrite mrun_app. cbn [run_fops event_fops app exec fold_left apply_fop]. rewrite ?app_nil_r.
    cbn [exec fold_left apply_fop]. unfold Holds, src; cbn [ring]. rewrite step_envwrite; cbn [disk].
    rewrite rget_rset, path_eqb_refl. auto.
Qed.

(* ------------------------------------------------------------------ E. move mode copies properties and metadata *)
Lemma props_and_metadata_copied mc pre p c : m_meth mc = MMove -> kind_md p || kind_prop p = true ->
  selected mc p = true -> rget p (src (mrun mc pre)) = Some c ->
  Full (dget (Fin p) (dst (mrun mc (pre ++ [ECreated p])))) c /\
  (kind_prop p = true -> rget p (src (mrun mc (pre ++ [ECreated p]))) = Some c).
Proof.
  intros Hm Hk Sel Hs. rewrite mrun_app. cbn [run_fops]. cbn zeta. rewrite app_nil_r.
  set (s := mrun mc pre) in *. pose proof (mrun_minvr mc pre) as I. fold s in I.
  split; [apply (event_mirrors mc s p c true I Hs Sel)|].
  intros Kp. destruct (kinds_disjoint p) as (_ & _ & K3). destruct (K3 Kp) as [Kmd Krf].
  assert (Hcopy : rget p (src (exec s (if copy_match mc false p then react mc (HMirror Copy) s true p else []))) = Some c).
  { destruct (copy_match mc false p); [|exact Hs]. cbn [react].
    destruct (plan_states mc Copy s p I) as (_ & _ & _ & _ & G1). apply G1; auto. discriminate. }
  cbn [event_fops]. unfold handlers, mirror_handlers, ring_handlers. rewrite Hm.
  destruct (m_drf mc), (m_dmd mc); cbn [app handlers_fops handler_fops]; cbn zeta; rewrite ?Krf, ?Kmd; cbn [app];
    rewrite ?app_nil_r; exact Hcopy.
Qed.

(* nothing of a deselected kind ever appears under the destination (final or tmp. name) *)
Section Deselected.
Variables (mc : mcfg) (p : path).
Hypothesis desel : selected mc p = false.
Definition Absent (s : mst) : Prop := dget (Fin p) (dst s) = None /\ dget (Tmp p) (dst s) = None.

Lemma absent_view s t : same_view s t -> Absent s -> Absent t.
Proof. intros [_ E] A. unfold Absent. rewrite E. exact A. Qed.
Lemma absent_mid s t q c' : MInvR s -> Absent s -> rget q (src s) = Some c' ->
  up_to_date s q c' = false -> selected mc q = true -> Mid s t q c' -> Absent t.
Proof.
  intros _ [A B] _ _ Sq (M1 & _). assert (Hq : p <> q) by (intros ->; congruence).
  destruct (M1 p Hq) as (E1 & E2 & _). unfold Absent. rewrite E1, E2. auto.
Qed.
Lemma absent_ring s o : MInvR s -> Absent s -> ev_op o ->
  (forall x, In x (op_paths (ring s) o) -> kind_md x = true) -> Absent (ring_step s o).
Proof. intros _ A _ _. exact A. Qed.
Lemma absent_env s e : MInvR s -> Absent s -> is_env e -> True ->
  forall f, In f (match e with EWrite q c2 => [FEnvWrite q c2] | ERemove q => [FEnvRemove q] | _ => [] end) ->
  Absent (apply_fop s f).
Proof.
  intros _ [A B] Ie _ f Hf.
  destruct e; simpl in Ie; try contradiction; destruct Hf as [<-|[]]; cbn [apply_fop]; unfold Absent; cbn [dst].
  - destruct (rget p0 (src s)); [rewrite !dget_relink, A, B|]; auto.
  - rewrite !dget_relink, A, B. auto.
Qed.
Lemma deselected_never_mirrored evs t : In t (mtrace mc evs) -> Absent t.
Proof.
  intros H. unfold mtrace in H.
  destruct (run_preserves (selected mc) Absent absent_view absent_mid absent_ring (fun _ => True) absent_env
              mc evs (handlers_ok mc) minit minvr_init) as (A & _); auto.
  - split; reflexivity.
  - apply Forall_forall. auto.
Qed.
End Deselected.

(* ------------------------------------------------------------------ F. the newest metadata file stays in the source *)
Lemma newest_metadata_stays mc evs d : In d (dels (ring (mrun mc evs))) ->
  exists x, In x (keys (recs (d_pre d))) /\ x <> d_path d /\ pg x = pg (d_path d) /\ pk (d_path d) <= pk x.
Proof.
  intros H. unfold mrun in H. destruct (exec_ring (run_fops mc minit evs) minit) as [ops E].
  rewrite E in H. change (fold_left (step rbc) ops (ring minit)) with (run_ops rbc ops) in H.
  apply (count_keeps_newer rbc ops d rbc_once); auto.
  - intros n Hn. inversion Hn. lia.
  - destruct (delete_only_if_exceeded rbc ops d rbc_once H) as (_ & [(W & _)|[(_ & n & Hn & _)|(_ & n & Hn & _)]]);
      auto; discriminate.
Qed.

(* ------------------------------------------------------------------ the unguarded fidelity statement is false in move mode *)
Definition upd_reported (p : path) (st : option Z * bool) (e : mev) : option Z * bool :=
  match e with
  | EWrite q c => if path_eqb q p then (Some c, false) else st
  | ERemove q => if path_eqb q p then (None, false) else st
  | ECreated q | EModified q => if path_eqb q p then (fst st, true) else st
  | _ => st
  end.
(* the content last written to p, provided an event for p was delivered after that write *)
Definition final_reported (evs : list mev) (p : path) : option Z :=
  let st := fold_left (upd_reported p) evs (None, false) in if snd st then fst st else None.

Definition finalized_full : Prop := forall mc evs p c,
  selected mc p = true -> final_reported evs p = Some c -> Full (dget (Fin p) (dst (mrun mc evs))) c.

Definition wit_mc : mcfg := mkM MMove true true true true.
Definition mdA : path := mkP 1 1500000000000 0.
Definition mdB : path := mkP 1 1500000001000 0.
Definition wit_evs : list mev :=
  [EWrite (mkP (-2) 0 1) 1; ECreated (mkP (-2) 0 1);
   EWrite mdA 1; ECreated mdA;
   EWrite mdA 2;                     (* the last modification of the older file ... *)
   EWrite mdB 1; ECreated mdB;       (* ... is reported after the creation of the newer one *)
   EModified mdA].

Lemma finalized_refuted : ~ finalized_full.
Proof.
  intros H. destruct (H wit_mc wit_evs mdA 2 eq_refl eq_refl) as [l A]. vm_compute in A. discriminate.
Qed.
Lemma finalized_refuted_detail :
  dget (Fin mdA) (dst (mrun wit_mc wit_evs)) = Some (mkD 1 true false) /\ rget mdA (src (mrun wit_mc wit_evs)) = None.
Proof. split; vm_compute; reflexivity. Qed.

(* ------------------------------------------------------------------ the hypotheses are satisfiable *)
Definition rfA : path := mkP 0 1500000000000 0.
Definition ex_evs : list mev :=
  [EWrite (mkP (-1) 0 0) 1; ECreated (mkP (-1) 0 0); EWrite rfA 1; ECreated rfA; ECreated rfA;
   EWrite mdA 1; ECreated mdA; EWrite mdA 2; EModified mdA; EWrite mdB 1; ECreated mdB; EModified mdA].
Example ex_move :
  let s := mrun wit_mc ex_evs in
  rget rfA (src s) = None /\ dget (Fin rfA) (dst s) = Some (mkD 1 true false) /\
  dget (Fin mdA) (dst s) = Some (mkD 2 true false) /\ rget mdA (src s) = None /\ rget mdB (src s) = Some 1 /\
  rget (mkP (-1) 0 0) (src s) = Some 1 /\ length (mtrace wit_mc ex_evs) = 23%nat /\
  map (fun d => d_path d) (dels (ring s)) = [mdA].
Proof. vm_compute. repeat split; reflexivity. Qed.
Example ex_copy_pre : rget rfA (src (mrun (mkM MCopy true true true false) [EWrite rfA 7])) = Some 7 /\
  selected (mkM MCopy true true true false) rfA = true /\ selected (mkM MCopy true true true false) mdA = false.
Proof. repeat split; vm_compute; reflexivity. Qed.
Example ex_crossfs_trace :
  map (fun t => (rget rfA (src t), dget (Tmp rfA) (dst t), dget (Fin rfA) (dst t)))
      (mtrace (mkM MMove false false true true) [EWrite rfA 1; ECreated rfA]) =
  [(Some 1, None, None); (Some 1, Some (mkD 1 false false), None); (Some 1, Some (mkD 1 true false), None);
   (None, Some (mkD 1 true false), None); (None, None, Some (mkD 1 true false))].
Proof. vm_compute. reflexivity. Qed.
