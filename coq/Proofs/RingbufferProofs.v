(* Proofs about Model/Ringbuffer.v (C16).  Stdlib only, axiom-free. *)
From Coq Require Import ZArith List Bool Lia Permutation.
From DRF Require Import Model.Ringbuffer.
Import ListNotations.
Local Open Scope Z_scope.

(* ------------------------------------------------------------------ paths *)
Lemma path_eqb_eq p q : path_eqb p q = true <-> p = q.
Proof.
  destruct p, q; unfold path_eqb; simpl. rewrite !andb_true_iff, !Z.eqb_eq.
  split; [intros [[? ?] ?]; subst; auto | intros H; inversion H; auto].
Qed.
Lemma path_eqb_refl p : path_eqb p p = true.
Proof. apply path_eqb_eq; auto. Qed.
Lemma path_eqb_neq p q : path_eqb p q = false <-> p <> q.
Proof.
  split; intros H.
  - intros E. apply path_eqb_eq in E. congruence.
  - destruct (path_eqb p q) eqn:E; auto. apply path_eqb_eq in E. contradiction.
Qed.
Lemma path_eq_dec (p q : path) : {p = q} + {p <> q}.
Proof. destruct (path_eqb p q) eqn:E; [left; apply path_eqb_eq; auto | right; apply path_eqb_neq; auto]. Qed.

Ltac peq p q := let E := fresh "E" in destruct (path_eqb p q) eqn:E;
  [apply path_eqb_eq in E | apply path_eqb_neq in E].

(* ------------------------------------------------------------------ association lists *)
Definition keys (l : list (path * Z)) : list path := map fst l.
Definition total (l : list (path * Z)) : Z := fold_right (fun a acc => snd a + acc) 0 l.

Lemma rget_None p l : rget p l = None <-> ~ In p (keys l).
Proof.
  induction l as [|[x s] r IH]; simpl; [tauto|]. peq p x.
  - split; [discriminate | intros H; exfalso; apply H; auto].
  - rewrite IH. split; intros H; [intros [A|A]; [congruence | auto] | intros A; apply H; auto].
Qed.
Lemma rget_Some_In p l s : rget p l = Some s -> In p (keys l).
Proof.
  intros H. destruct (in_dec path_eq_dec p (keys l)) as [A|A]; auto.
  apply rget_None in A. congruence.
Qed.
Lemma In_rget_Some p l : In p (keys l) -> exists s, rget p l = Some s.
Proof.
  intros H. destruct (rget p l) eqn:E; eauto. apply rget_None in E. contradiction.
Qed.
Lemma keys_rset_in p s l : In p (keys l) -> keys (rset p s l) = keys l.
Proof.
  induction l as [|[x s0] r IH]; simpl; [tauto|]. intros H. peq p x; simpl.
  - subst; auto.
  - f_equal. apply IH. destruct H; [congruence | auto].
Qed.
Lemma keys_rset_notin p s l : ~ In p (keys l) -> keys (rset p s l) = keys l ++ [p].
Proof.
  induction l as [|[x s0] r IH]; simpl; auto. intros H. peq p x; simpl.
  - exfalso; apply H; auto.
  - f_equal. apply IH. tauto.
Qed.
Lemma total_rset_some p s old l : rget p l = Some old -> total (rset p s l) = total l - old + s.
Proof.
  induction l as [|[x s0] r IH]; simpl; [discriminate|]. peq p x; simpl.
  - intros H; inversion H; subst. lia.
  - intros H. rewrite (IH H). lia.
Qed.
Lemma total_rset_none p s l : rget p l = None -> total (rset p s l) = total l + s.
Proof.
  induction l as [|[x s0] r IH]; simpl; [intros; lia|]. peq p x; simpl.
  - discriminate.
  - intros H. rewrite (IH H). lia.
Qed.
Lemma rget_rset p q s l : rget q (rset p s l) = if path_eqb q p then Some s else rget q l.
Proof.
  induction l as [|[x s0] r IH]; simpl.
  - destruct (path_eqb q p); auto.
  - peq p x; simpl.
    + subst. peq q x; auto.
    + rewrite IH. peq q x; auto. subst. peq x p; auto. congruence.
Qed.
Lemma In_keys_rdel p x l : NoDup (keys l) -> (In x (keys (rdel p l)) <-> In x (keys l) /\ x <> p).
Proof.
  induction l as [|[y s0] r IH]; simpl; [tauto|]. intros N. inversion N; subst.
  peq p y; simpl.
  - subst. split; [intros A; split; auto; intros ->; contradiction | intros [[A|A] B]; [congruence | auto]].
  - rewrite (IH H2). split; [intros [A|[A B]]; subst; auto | intros [[A|A] B]; auto].
Qed.
Lemma NoDup_keys_rdel p l : NoDup (keys l) -> NoDup (keys (rdel p l)).
Proof.
  induction l as [|[y s0] r IH]; simpl; auto. intros N. inversion N; subst.
  peq p y; simpl; auto. constructor; auto. intros A. apply In_keys_rdel in A; tauto.
Qed.
Lemma total_rdel p s l : rget p l = Some s -> total (rdel p l) = total l - s.
Proof.
  induction l as [|[x s0] r IH]; simpl; [discriminate|]. peq p x; simpl.
  - intros H; inversion H; subst. lia.
  - intros H. rewrite (IH H). lia.
Qed.
Lemma rget_rdel p x l : NoDup (keys l) -> rget x (rdel p l) = if path_eqb x p then None else rget x l.
Proof.
  induction l as [|[y s0] r IH]; simpl; intros N.
  - destruct (path_eqb x p); auto.
  - inversion N; subst. peq p y; simpl.
    + subst. peq x y; auto. subst. apply rget_None; auto.
    + rewrite (IH H2). peq x y; auto. subst. peq y p; auto. congruence.
Qed.
Lemma NoDup_snoc {A} (x : A) l : NoDup l -> ~ In x l -> NoDup (l ++ [x]).
Proof.
  induction l as [|y r IH]; simpl; intros N H.
  - constructor; auto.
  - inversion N; subst. constructor.
    + rewrite in_app_iff; simpl. intros [B|[B|[]]]; [auto | subst; apply H; auto].
    + apply IH; auto.
Qed.
Lemma NoDup_keys_rset p s l : NoDup (keys l) -> NoDup (keys (rset p s l)).
Proof.
  intros N. destruct (in_dec path_eq_dec p (keys l)) as [A|A].
  - rewrite keys_rset_in; auto.
  - rewrite keys_rset_notin; auto. apply NoDup_snoc; auto.
Qed.

(* ------------------------------------------------------------------ queues dictionary *)
Lemma qget_qset g g' q l : qget g' (qset g q l) = if g' =? g then q else qget g' l.
Proof.
  induction l as [|[x q0] r IH]; simpl.
  - destruct (g' =? g); auto.
  - destruct (g =? x) eqn:E; simpl.
    + apply Z.eqb_eq in E; subst. destruct (g' =? x); auto.
    + rewrite IH. destruct (g' =? x) eqn:F; auto. apply Z.eqb_eq in F; subst.
      rewrite Z.eqb_sym, E. auto.
Qed.
Lemma fst_qset g q l :
  map fst (qset g q l) = if in_dec Z.eq_dec g (map fst l) then map fst l else map fst l ++ [g].
Proof.
  induction l as [|[x q0] r IH]; simpl; auto.
  destruct (g =? x) eqn:E; simpl.
  - apply Z.eqb_eq in E; subst. destruct (Z.eq_dec x x); [|congruence]. auto.
  - apply Z.eqb_neq in E. destruct (Z.eq_dec x g); [congruence|]. rewrite IH.
    destruct (in_dec Z.eq_dec g (map fst r)); auto.
Qed.
Lemma NoDup_fst_qset g q l : NoDup (map fst l) -> NoDup (map fst (qset g q l)).
Proof.
  intros N. rewrite fst_qset. destruct (in_dec Z.eq_dec g (map fst l)); auto. apply NoDup_snoc; auto.
Qed.
Lemma In_fst_qset g q l x : In x (map fst (qset g q l)) <-> x = g \/ In x (map fst l).
Proof.
  rewrite fst_qset. destruct (in_dec Z.eq_dec g (map fst l)).
  - split; [auto | intros [->|]; auto].
  - rewrite in_app_iff; simpl. split; [intros [|[|[]]]; auto | intros [|]; auto].
Qed.
Lemma In_qs_qget g q l : NoDup (map fst l) -> In (g, q) l -> qget g l = q.
Proof.
  induction l as [|[x q0] r IH]; simpl; [tauto|]. intros N [A|A]; inversion N; subst.
  - inversion A; subst. rewrite Z.eqb_refl. auto.
  - destruct (g =? x) eqn:E; auto. apply Z.eqb_eq in E; subst. exfalso. apply H1.
    change x with (fst (x, q)). apply in_map; auto.
Qed.
Lemma qget_nonempty_In g l : qget g l <> [] -> In g (map fst l).
Proof.
  induction l as [|[x q0] r IH]; simpl; [congruence|]. destruct (g =? x) eqn:E; auto.
  apply Z.eqb_eq in E; auto.
Qed.

(* ------------------------------------------------------------------ ascending queues *)
Fixpoint asc (q : list path) : Prop :=
  match q with [] => True | x :: r => (forall y, In y r -> pk x <= pk y) /\ asc r end.

Lemma asc_app l1 l2 :
  asc (l1 ++ l2) <-> asc l1 /\ asc l2 /\ (forall x y, In x l1 -> In y l2 -> pk x <= pk y).
Proof.
  induction l1 as [|a r IH]; simpl.
  - split; [intros; repeat split; auto; intros ? ? [] | tauto].
  - rewrite IH. split.
    + intros [A [B [C D]]]. repeat split; auto.
      * intros y Hy. apply A. apply in_or_app; auto.
      * intros x y [->|Hx] Hy; [apply A; apply in_or_app; auto | auto].
    + intros [[A B] [C D]]. repeat split; auto.
      intros y Hy. apply in_app_or in Hy. destruct Hy; auto.
Qed.

Lemma ins3_char p q :
  match ins3 p q with
  | Ins l => exists l1 x l2, q = l1 ++ x :: l2 /\ l = l1 ++ x :: p :: l2 /\ pk x < pk p /\
                             forall y, In y l2 -> pk p <= pk y /\ y <> p
  | Dup => In p q
  | Cont => forall y, In y q -> pk p <= pk y /\ y <> p
  end.
Proof.
  induction q as [|x r IH]; simpl; [tauto|].
  destruct (ins3 p r) as [l| |].
  - destruct IH as (l1 & y & l2 & A & B & C & D). exists (x :: l1), y, l2. subst. simpl. split; [reflexivity | split; [reflexivity | split; [exact C | exact D]]].
  - auto.
  - destruct (pk x <? pk p) eqn:E.
    + apply Z.ltb_lt in E. exists [], x, r. simpl. split; [reflexivity | split; [reflexivity | split; [exact E | exact IH]]].
    + apply Z.ltb_ge in E. peq p x.
      * auto.
      * intros y [<-|Hy]; auto.
Qed.

Lemma q_insert_spec p q : asc q ->
  (In p q -> q_insert p q = None) /\
  (~ In p q -> exists l1 l2, q = l1 ++ l2 /\ q_insert p q = Some (l1 ++ p :: l2) /\
                             (forall y, In y l1 -> pk y <= pk p) /\ (forall y, In y l2 -> pk p <= pk y)).
Proof.
  intros A. unfold q_insert. pose proof (ins3_char p q) as H. destruct (ins3 p q) as [l| |].
  - destruct H as (l1 & x & l2 & E & F & G & I). subst.
    assert (B : forall y, In y (l1 ++ [x]) -> pk y <= pk x).
    { replace (l1 ++ x :: l2) with ((l1 ++ [x]) ++ l2) in A by (rewrite <- app_assoc; auto).
      apply asc_app in A. destruct A as [A _]. apply asc_app in A. destruct A as (_ & _ & A).
      intros y Hy. apply in_app_or in Hy. destruct Hy as [Hy|[<-|[]]]; [apply A; simpl; auto | lia]. }
    split.
    + intros Hp. exfalso. apply in_app_or in Hp. destruct Hp as [Hp|[Hp|Hp]].
      * specialize (B p). rewrite in_app_iff in B. specialize (B (or_introl Hp)). lia.
      * subst. lia.
      * apply I in Hp. tauto.
    + intros _. exists (l1 ++ [x]), l2. rewrite <- !app_assoc. simpl. repeat split; auto.
      * intros y Hy. apply B in Hy. lia.
      * intros y Hy. apply I in Hy. tauto.
  - split; [auto | tauto].
  - split.
    + intros Hp. apply H in Hp. tauto.
    + intros _. exists [], q. simpl. repeat split; auto; [intros ? [] | intros y Hy; apply H in Hy; tauto].
Qed.

Lemma q_remove_spec p q : In p q ->
  exists l1 l2, q = l1 ++ p :: l2 /\ ~ In p l1 /\ q_remove p q = Some (l1 ++ l2).
Proof.
  induction q as [|x r IH]; simpl; [tauto|]. intros H. peq p x.
  - subst. exists [], r. auto.
  - destruct H as [H|H]; [congruence|]. destruct (IH H) as (l1 & l2 & A & B & C).
    exists (x :: l1), l2. subst. simpl. rewrite C. simpl. repeat split; auto. intros [D|D]; auto.
Qed.

Lemma asc_insert l1 l2 p : asc (l1 ++ l2) -> (forall y, In y l1 -> pk y <= pk p) ->
  (forall y, In y l2 -> pk p <= pk y) -> asc (l1 ++ p :: l2).
Proof.
  intros A B C. apply asc_app in A. destruct A as (A1 & A2 & A3). apply asc_app.
  split; [auto | split; [simpl; auto |]]. intros x y Hx [<-|Hy]; auto.
Qed.
Lemma asc_remove l1 l2 p : asc (l1 ++ p :: l2) -> asc (l1 ++ l2).
Proof.
  intros A. apply asc_app in A. destruct A as (A1 & [A2 A2'] & A3). apply asc_app.
  split; [auto | split; [auto |]]. intros x y Hx Hy. apply A3; simpl; auto.
Qed.
Lemma asc_head_min x r : asc (x :: r) -> forall y, In y (x :: r) -> pk x <= pk y.
Proof. intros [A _] y [<-|Hy]; [lia | auto]. Qed.
Lemma asc_last_max q d : asc q -> forall y, In y q -> pk y <= pk (last q d).
Proof.
  induction q as [|x r IH]; simpl; [tauto|]. intros [A B] y [<-|Hy].
  - destruct r as [|z r']; [lia|]. specialize (IH B z (or_introl eq_refl)).
    specialize (A z (or_introl eq_refl)). lia.
  - destruct r as [|z r']; [destruct Hy|]. apply IH; auto.
Qed.
Lemma last_In {A} (q : list A) d : q <> [] -> In (last q d) q.
Proof.
  induction q as [|x r IH]; [congruence|]. intros _. destruct r as [|z r']; simpl; auto.
  right. apply IH. congruence.
Qed.

Lemma NoDup_same_length {A} (l1 l2 : list A) :
  NoDup l1 -> NoDup l2 -> (forall x, In x l1 <-> In x l2) -> length l1 = length l2.
Proof. intros. apply Permutation_length. apply NoDup_Permutation; auto. Qed.

(* ------------------------------------------------------------------ the invariant *)
(* bookkeeping = truth about the tracked files: every queue is ascending by key, without
   duplicate, and holds exactly the tracked paths of its group; active_size is the total size *)
Definition Qok (hs : hst) (g : Z) : Prop :=
  asc (qget g (qs hs)) /\ NoDup (qget g (qs hs)) /\
  forall p, In p (qget g (qs hs)) <-> In p (keys (recs hs)) /\ pg p = g.

Definition Inv (c : cfg) (hs : hst) : Prop :=
  NoDup (keys (recs hs)) /\ NoDup (map fst (qs hs)) /\ (forall g, Qok hs g) /\
  (has_size c = true -> act hs = total (recs hs)) /\
  (forall p, In p (keys (recs hs)) -> trackable p = true).

Lemma In_middle {A} (x p : A) l1 l2 : In x (l1 ++ p :: l2) <-> x = p \/ In x (l1 ++ l2).
Proof.
  rewrite !in_app_iff. simpl. split; [intros [|[|]]; auto | intros [|[|]]; auto].
Qed.
Lemma NoDup_middle {A} (p : A) l1 l2 : NoDup (l1 ++ l2) -> ~ In p (l1 ++ l2) -> NoDup (l1 ++ p :: l2).
Proof.
  intros N H. apply (Permutation_NoDup (l := p :: l1 ++ l2)).
  - apply Permutation_middle.
  - constructor; auto.
Qed.

Lemma inv_track c hs p sz : Inv c hs -> ~ In p (keys (recs hs)) -> trackable p = true ->
  Inv c (add_to_queue c (mkH (rset p sz (recs hs)) (qs hs) (act hs)) p sz).
Proof.
  intros (I1 & I2 & I3 & I4 & I5) Hn Ht. unfold add_to_queue; simpl.
  destruct (I3 (pg p)) as (A & N & M).
  assert (Hq : ~ In p (qget (pg p) (qs hs))) by (intros B; apply M in B; tauto).
  destruct (proj2 (q_insert_spec p _ A) Hq) as (l1 & l2 & E & F & B1 & B2). rewrite F.
  assert (K : keys (rset p sz (recs hs)) = keys (recs hs) ++ [p]) by (apply keys_rset_notin; auto).
  unfold Inv; simpl. split; [apply NoDup_keys_rset; auto|]. split; [apply NoDup_fst_qset; auto|].
  split; [|split].
  - intros g. unfold Qok; simpl. rewrite qget_qset, K. destruct (g =? pg p) eqn:G.
    + apply Z.eqb_eq in G; subst g. rewrite E in *. split; [apply asc_insert; auto|].
      split; [apply NoDup_middle; auto|]. intros x. rewrite In_middle, M, in_app_iff. simpl.
      split; [intros [->|[? ?]]; auto | intros [[?|[<-|[]]] ?]; auto].
    + apply Z.eqb_neq in G. destruct (I3 g) as (A' & N' & M'). split; auto. split; auto.
      intros x. rewrite M', in_app_iff. simpl.
      split; [intros [? ?]; auto | intros [[?|[<-|[]]] ?]; [auto | congruence]].
  - intros S. rewrite S. rewrite total_rset_none; [rewrite I4; auto | apply rget_None; auto].
  - intros x. rewrite K, in_app_iff. simpl. intros [?|[<-|[]]]; auto.
Qed.

Lemma inv_resize c hs p sz old : Inv c hs -> rget p (recs hs) = Some old ->
  Inv c (mkH (rset p sz (recs hs)) (qs hs) (if has_size c then act hs - old + sz else act hs)).
Proof.
  intros (I1 & I2 & I3 & I4 & I5) Hr.
  assert (K : keys (rset p sz (recs hs)) = keys (recs hs))
    by (apply keys_rset_in; eapply rget_Some_In; eauto).
  unfold Inv; simpl. rewrite K. split; auto. split; auto. split; [|split; auto].
  - intros g. destruct (I3 g) as (A & N & M). unfold Qok; simpl. rewrite K. auto.
  - intros S. rewrite S. rewrite (total_rset_some _ _ old); auto. rewrite I4; auto.
Qed.

Lemma hst_eta hs : mkH (recs hs) (qs hs) (act hs) = hs.
Proof. destruct hs; auto. Qed.

Lemma add_to_queue_dup c hs p sz : c_dup c = CountOnce -> Inv c hs -> In p (keys (recs hs)) ->
  add_to_queue c hs p sz = hs.
Proof.
  intros D (I1 & I2 & I3 & I4 & I5) Hp. unfold add_to_queue.
  destruct (I3 (pg p)) as (A & N & M).
  rewrite (proj1 (q_insert_spec p _ A)); [|apply M; auto]. rewrite D.
  destruct (has_size c); apply hst_eta.
Qed.

Lemma inv_untrack c hs p sz : Inv c hs -> rget p (recs hs) = Some sz ->
  exists l1 l2, qget (pg p) (qs hs) = l1 ++ p :: l2 /\ ~ In p l1 /\
    remove_from_queue c (mkH (rdel p (recs hs)) (qs hs) (act hs)) p sz =
      Some (mkH (rdel p (recs hs)) (qset (pg p) (l1 ++ l2) (qs hs)) (if has_size c then act hs - sz else act hs)) /\
    Inv c (mkH (rdel p (recs hs)) (qset (pg p) (l1 ++ l2) (qs hs)) (if has_size c then act hs - sz else act hs)).
Proof.
  intros (I1 & I2 & I3 & I4 & I5) Hr. destruct (I3 (pg p)) as (A & N & M).
  assert (Hp : In p (qget (pg p) (qs hs))) by (apply M; split; auto; eapply rget_Some_In; eauto).
  destruct (q_remove_spec p _ Hp) as (l1 & l2 & E & F & G). exists l1, l2.
  split; auto. split; auto. split; [unfold remove_from_queue; simpl; rewrite G; auto|].
  unfold Inv; simpl. split; [apply NoDup_keys_rdel; auto|]. split; [apply NoDup_fst_qset; auto|].
  split; [|split].
  - intros g. unfold Qok; simpl. rewrite qget_qset. destruct (g =? pg p) eqn:G'.
    + apply Z.eqb_eq in G'; subst g. rewrite E in *. split; [eapply asc_remove; eauto|].
      split; [eapply NoDup_remove_1; eauto|]. intros x. rewrite In_keys_rdel; auto.
      specialize (M x). rewrite In_middle in M. apply NoDup_remove_2 in N.
      split.
      * intros Hx. assert (x <> p) by (intros ->; contradiction). tauto.
      * intros [[Hx Hne] Hg]. destruct (proj2 M (conj Hx Hg)); [contradiction | auto].
    + apply Z.eqb_neq in G'. destruct (I3 g) as (A' & N' & M'). split; auto. split; auto.
      intros x. rewrite M', In_keys_rdel; auto. split; [intros [? ?]; repeat split; auto; congruence | tauto].
  - intros S. rewrite S. rewrite (total_rdel _ sz); auto. rewrite I4; auto.
  - intros x Hx. apply In_keys_rdel in Hx; auto. apply I5; tauto.
Qed.

(* ------------------------------------------------------------------ justified deletions *)
Definition group_count (hs : hst) (g : Z) : Z :=
  Z.of_nat (length (filter (fun x => pg x =? g) (keys (recs hs)))).

(* a deletion is justified when, in the state just before it (where the bookkeeping is the
   truth), the path is tracked, no tracked file of its channel is older, and a configured limit
   is exceeded by the true quantities: files in the channel / time span of the channel / total size *)
Definition Justified (c : cfg) (d : del) : Prop :=
  let hs := d_pre d in let p := d_path d in
  Inv c hs /\ In p (keys (recs hs)) /\
  (forall x, In x (keys (recs hs)) -> pg x = pg p -> pk p <= pk x) /\
  ((d_why d = 1 /\ exists n, c_count c = Some n /\ group_count hs (pg p) > n) \/
   (d_why d = 2 /\ exists n, c_dur c = Some n /\ exists y, In y (keys (recs hs)) /\ pg y = pg p /\ pk y - pk p > n) \/
   (d_why d = 3 /\ exists n, c_size c = Some n /\ total (recs hs) > n)).

Definition Good (c : cfg) (s : st) : Prop :=
  Inv c (h s) /\ NoDup (keys (disk s)) /\ Forall (Justified c) (dels s).

Lemma group_count_qlen c hs g : Inv c hs -> group_count hs g = Z.of_nat (length (qget g (qs hs))).
Proof.
  intros (I1 & I2 & I3 & I4 & I5). destruct (I3 g) as (A & N & M). unfold group_count. f_equal.
  apply NoDup_same_length; auto.
  - apply NoDup_filter; auto.
  - intros x. rewrite filter_In, M, Z.eqb_eq. tauto.
Qed.

Lemma eofg_spec c s g why gf p r : Inv c (h s) -> qget g (qs (h s)) = p :: r ->
  exists sz, rget p (recs (h s)) = Some sz /\ pg p = g /\
    In p (keys (recs (h s))) /\
    (forall x, In x (keys (recs (h s))) -> pg x = pg p -> pk p <= pk x) /\
    Inv c (mkH (rdel p (recs (h s))) (qset g r (qs (h s))) (if has_size c then act (h s) - sz else act (h s))) /\
    expire_oldest_from_group c s g why gf =
      mkSt (mkH (rdel p (recs (h s))) (qset g r (qs (h s))) (if has_size c then act (h s) - sz else act (h s)))
           (rdel p (disk s)) (dels s ++ [mkDel p why gf (h s)]) (err s).
Proof.
  intros I Hq. pose proof I as (I1 & I2 & I3 & I4 & I5). destruct (I3 g) as (A & N & M).
  rewrite Hq in *. destruct (proj1 (M p) (or_introl eq_refl)) as [Hp Hg].
  destruct (In_rget_Some _ _ Hp) as [sz Hr]. exists sz. split; auto. split; auto. split; auto.
  split.
  { intros x Hx Hgx. apply (asc_head_min _ _ A). apply M. split; auto. congruence. }
  destruct (inv_untrack c (h s) p sz I Hr) as (l1 & l2 & E & F & G & K).
  rewrite Hg, Hq in E. destruct l1 as [|a l1].
  - simpl in E. inversion E; subst r. simpl in *. rewrite Hg in *. split; auto.
    unfold expire_oldest_from_group. rewrite Hq, Hr, G. auto.
  - simpl in E. inversion E; subst a. exfalso. apply F; simpl; auto.
Qed.

Lemma eofg_empty c s g why gf : qget g (qs (h s)) = [] -> expire_oldest_from_group c s g why gf = set_err s.
Proof. intros E. unfold expire_oldest_from_group. rewrite E. auto. Qed.

(* ------------------------------------------------------------------ Good is preserved *)
Section Preservation.
Variable c : cfg.
Hypothesis Once : c_dup c = CountOnce.

Lemma good_set_err s : Good c s -> Good c (set_err s).
Proof. intros G; exact G. Qed.

Definition Reason (hs : hst) (p : path) (why : Z) : Prop :=
  (why = 1 /\ exists n, c_count c = Some n /\ group_count hs (pg p) > n) \/
  (why = 2 /\ exists n, c_dur c = Some n /\ exists y, In y (keys (recs hs)) /\ pg y = pg p /\ pk y - pk p > n) \/
  (why = 3 /\ exists n, c_size c = Some n /\ total (recs hs) > n).

Lemma eofg_good s g why gf : Good c s ->
  (forall p r, qget g (qs (h s)) = p :: r -> Reason (h s) p why) ->
  Good c (expire_oldest_from_group c s g why gf).
Proof.
  intros (I & D & J) R. destruct (qget g (qs (h s))) as [|p r] eqn:Hq.
  - rewrite eofg_empty; auto. split; [exact I | split; [exact D | exact J]].
  - destruct (eofg_spec c s g why gf p r I Hq) as (sz & Hr & Hg & Hp & Hold & I' & E).
    rewrite E. split; [exact I'|]. split; [apply NoDup_keys_rdel; auto|]. simpl.
    apply Forall_app. split; auto. constructor; auto.
    unfold Justified; simpl. split; auto. split; auto. split; auto. apply (R p r); auto.
Qed.

Lemma count_loop_good cnt fuel : forall s g, c_count c = Some cnt -> Good c s -> Good c (count_loop c cnt fuel s g).
Proof.
  induction fuel as [|f IH]; intros s g Hc G; simpl.
  - destruct (qlen s g >? cnt); auto.
  - destruct (err s); auto. destruct (qlen s g >? cnt) eqn:E; auto. apply IH; auto.
    apply eofg_good; auto. intros p r Hq. left. split; auto. exists cnt. split; auto.
    destruct G as (I & _). rewrite (group_count_qlen c); auto.
    pose proof I as (_ & _ & I3 & _). destruct (I3 g) as (_ & _ & M).
    assert (pg p = g) by (apply M; rewrite Hq; simpl; auto). subst g.
    apply Z.gtb_lt in E. unfold qlen in E. lia.
Qed.

Lemma time_loop_good dur fuel : forall s g, c_dur c = Some dur -> Good c s -> Good c (time_loop c dur fuel s g).
Proof.
  induction fuel as [|f IH]; intros s g Hc G; simpl.
  - destruct (queue_duration (qget g (qs (h s))) >? dur); auto.
  - destruct (err s); auto. destruct (queue_duration (qget g (qs (h s))) >? dur) eqn:E; auto. apply IH; auto.
    apply eofg_good; auto. intros p r Hq. right; left. split; auto. exists dur. split; auto.
    destruct G as (I & _). pose proof I as (_ & _ & I3 & _). destruct (I3 g) as (_ & _ & M).
    rewrite Hq in E. unfold queue_duration in E. apply Z.gtb_lt in E.
    assert (Hl : In (last (p :: r) p) (qget g (qs (h s)))) by (rewrite Hq; apply last_In; congruence).
    assert (Hp : In p (qget g (qs (h s)))) by (rewrite Hq; simpl; auto).
    apply M in Hl. apply M in Hp. exists (last (p :: r) p). split; [tauto|]. split; [|lia].
    destruct Hl, Hp. congruence.
Qed.

Lemma size_loop_good lim fuel : forall s g, c_size c = Some lim -> Good c s -> Good c (size_loop c lim fuel s g).
Proof.
  induction fuel as [|f IH]; intros s g Hc G; simpl.
  - destruct (act (h s) >? lim); auto.
  - destruct (err s); auto. destruct (act (h s) >? lim) eqn:E; auto. apply IH; auto.
    apply eofg_good; auto. intros p r Hq. right; right. split; auto. exists lim. split; auto.
    destruct G as ((_ & _ & _ & I4 & _) & _). rewrite <- I4; [apply Z.gtb_lt in E; lia|].
    unfold has_size. rewrite Hc. auto.
Qed.

Lemma expire_good s g : Good c s -> Good c (expire c s g).
Proof.
  intros G. unfold expire.
  set (s1 := match c_count c with Some n => _ | None => s end).
  assert (G1 : Good c s1) by (subst s1; destruct (c_count c) eqn:E; auto; apply count_loop_good; auto).
  set (s2 := match c_dur c with Some d => _ | None => s1 end).
  assert (G2 : Good c s2) by (subst s2; destruct (c_dur c) eqn:E; auto; apply time_loop_good; auto).
  destruct (c_size c) eqn:E; auto. apply size_loop_good; auto.
Qed.

Lemma good_with_h s hs : Good c s -> Inv c hs -> Good c (with_h s hs).
Proof. intros (_ & D & J) I. split; [exact I | split; [exact D | exact J]]. Qed.

Lemma add_core_good_new s p sz : Good c s -> rget p (recs (h s)) = None -> trackable p = true ->
  Good c (add_core c s p sz).
Proof.
  intros G Hr Ht. unfold add_core. apply expire_good. apply good_with_h; auto.
  apply inv_track; auto. apply G. apply rget_None; auto.
Qed.

Lemma add_core_good_existing s p sz old : Good c s -> rget p (recs (h s)) = Some old ->
  (has_size c = true -> old = sz) -> Good c (add_core c s p sz).
Proof.
  intros G Hr Hs. unfold add_core. apply expire_good.
  assert (I : Inv c (mkH (rset p sz (recs (h s))) (qs (h s)) (act (h s)))).
  { pose proof (inv_resize c (h s) p sz old (proj1 G) Hr) as I.
    destruct (has_size c) eqn:S; auto. rewrite (Hs eq_refl) in I.
    replace (act (h s) - sz + sz) with (act (h s)) in I by lia. auto. }
  rewrite add_to_queue_dup; auto.
  - apply good_with_h; auto.
  - simpl. rewrite keys_rset_in; eapply rget_Some_In; eauto.
Qed.

Lemma add_record_good s p sz : Good c s -> trackable p = true -> Good c (add_record c s p sz).
Proof.
  intros G Ht. unfold add_record. destruct (err s); auto.
  destruct (rget p (recs (h s))) as [old|] eqn:Hr.
  - unfold modify_existing. destruct (has_size c) eqn:S.
    + apply (add_core_good_existing _ _ _ sz); auto.
      * apply good_with_h; auto. pose proof (inv_resize c (h s) p sz old (proj1 G) Hr) as I.
        rewrite S in I. auto.
      * simpl. rewrite rget_rset, path_eqb_refl. auto.
    + replace (with_h s (h s)) with s by (destruct s; auto).
      apply (add_core_good_existing _ _ _ old); auto. rewrite S. discriminate.
  - apply add_core_good_new; auto.
Qed.

Lemma modify_record_good s p sz : Good c s -> trackable p = true -> Good c (modify_record c s p sz).
Proof.
  intros G Ht. unfold modify_record. destruct (err s); auto.
  destruct (rget p (recs (h s))) as [old|] eqn:Hr.
  - apply good_with_h; auto. unfold modify_existing.
    pose proof (inv_resize c (h s) p sz old (proj1 G) Hr) as I. destruct (has_size c); auto. apply G.
  - apply add_core_good_new; auto.
Qed.

Lemma remove_record_good s p : Good c s -> Good c (remove_record c s p).
Proof.
  intros G. unfold remove_record. destruct (err s); auto.
  destruct (rget p (recs (h s))) as [sz|] eqn:Hr; auto.
  destruct (inv_untrack c (h s) p sz (proj1 G) Hr) as (l1 & l2 & E & F & R & I).
  rewrite R. apply good_with_h; auto.
Qed.

Lemma get_file_record_trackable s p sz : get_file_record s p = Some sz -> trackable p = true.
Proof. unfold get_file_record. destruct (trackable p); [auto | discriminate]. Qed.

Lemma get_records_In s l a : In a (get_records s l) -> get_file_record s (fst a) = Some (snd a) /\ In (fst a) l.
Proof.
  unfold get_records. rewrite in_flat_map. intros (p & Hp & Ha).
  destruct (get_file_record s p) eqn:E; simpl in Ha; [|tauto]. destruct Ha as [<-|[]]. simpl. auto.
Qed.

Lemma rec_insert_In a x l : In x (rec_insert a l) <-> x = a \/ In x l.
Proof.
  induction l as [|b r IH]; simpl; [intuition|]. destruct (rec_leb a b); simpl; [intuition|].
  rewrite IH. intuition.
Qed.
Lemma sort_recs_In x l : In x (sort_recs l) <-> In x l.
Proof.
  induction l as [|b r IH]; simpl; [tauto|]. rewrite rec_insert_In, IH. intuition.
Qed.

Lemma add_recs_good l : forall s, Good c s -> (forall a, In a l -> trackable (fst a) = true) -> Good c (add_recs c s l).
Proof.
  unfold add_recs. induction l as [|a r IH]; intros s G H; simpl; auto.
  apply IH; [apply add_record_good; auto; apply H; simpl; auto | intros; apply H; simpl; auto].
Qed.
Lemma modify_recs_good l : forall s, Good c s -> (forall a, In a l -> trackable (fst a) = true) -> Good c (modify_recs c s l).
Proof.
  unfold modify_recs. induction l as [|a r IH]; intros s G H; simpl; auto.
  apply IH; [apply modify_record_good; auto; apply H; simpl; auto | intros; apply H; simpl; auto].
Qed.
Lemma add_lazy_good l : forall s, Good c s -> Good c (add_lazy c s l).
Proof.
  induction l as [|p r IH]; intros s G; simpl; auto. apply IH.
  destruct (get_file_record s p) eqn:E; auto. apply add_record_good; auto.
  eapply get_file_record_trackable; eauto.
Qed.
Lemma modify_lazy_good l : forall s, Good c s -> Good c (modify_lazy c s l).
Proof.
  induction l as [|p r IH]; intros s G; simpl; auto. apply IH.
  destruct (get_file_record s p) eqn:E; auto. apply modify_record_good; auto.
  eapply get_file_record_trackable; eauto.
Qed.
Lemma dedup_recs_In x l : In x (dedup_recs l) -> In x l.
Proof.
  induction l as [|a r IH]; cbn [dedup_recs]; [tauto|].
  destruct (existsb _ r); intros H; [right; auto|].
  destruct H as [H|H]; [left; exact H | right; auto].
Qed.

Lemma sorted_records_trackable s l a : In a (sort_recs (dedup_recs (get_records s l))) -> trackable (fst a) = true.
Proof.
  intros H. apply (proj1 (sort_recs_In _ _)) in H. apply dedup_recs_In in H. apply get_records_In in H. destruct H as [H _].
  eapply get_file_record_trackable; eauto.
Qed.
Lemma add_files_good s l b : Good c s -> Good c (add_files c s l b).
Proof.
  intros G. unfold add_files. destruct b; [|apply add_lazy_good; auto].
  apply add_recs_good; auto. intros a. apply sorted_records_trackable.
Qed.
Lemma modify_files_good s l b : Good c s -> Good c (modify_files c s l b).
Proof.
  intros G. unfold modify_files. destruct b; [|apply modify_lazy_good; auto].
  apply modify_recs_good; auto. intros a. apply sorted_records_trackable.
Qed.
Lemma remove_files_good l : forall s, Good c s -> Good c (remove_files c s l).
Proof.
  unfold remove_files. induction l as [|p r IH]; intros s G; simpl; auto.
  apply IH. apply remove_record_good; auto.
Qed.

Lemma step_good s o : Good c s -> Good c (step c s o).
Proof.
  intros G. destruct o; cbn [step].
  - apply add_files_good; auto.
  - apply modify_files_good; auto.
  - apply (remove_files_good [p]); auto.
  - apply add_files_good. apply (remove_files_good [p]); auto.
  - apply add_files_good; auto.
  - apply modify_files_good; auto.
  - apply remove_files_good; auto.
  - unfold rescan. apply modify_files_good. apply add_files_good. apply remove_files_good; auto.
  - destruct G as (I & D & J). split; [exact I | split; [simpl; apply NoDup_keys_rset; auto | exact J]].
  - destruct G as (I & D & J). split; [exact I | split; [simpl; apply NoDup_keys_rdel; auto | exact J]].
Qed.

Lemma good_init : Good c init.
Proof.
  split; [|split; constructor]. unfold Inv, init; simpl.
  split; [constructor|]. split; [constructor|]. split; [|split; [auto | tauto]].
  intros g. unfold Qok; simpl. split; auto. split; [constructor | tauto].
Qed.

Lemma run_good_from l : forall s, Good c s -> Good c (fold_left (step c) l s).
Proof. induction l as [|o r IH]; intros s G; simpl; auto. apply IH. apply step_good; auto. Qed.

Lemma run_good l : Good c (run_ops c l).
Proof. apply run_good_from. apply good_init. Qed.

End Preservation.

(* ------------------------------------------------------------------ files leave the disk only through logged deletions *)
Definition Ext (s s' : st) : Prop :=
  NoDup (keys (disk s)) ->
  NoDup (keys (disk s')) /\
  exists nd, dels s' = dels s ++ nd /\
    forall x, rget x (disk s') = if mem x (map d_path nd) then None else rget x (disk s).

Lemma ext_same s s' : disk s' = disk s -> dels s' = dels s -> Ext s s'.
Proof.
  intros D L N. rewrite D. split; auto. exists []. rewrite app_nil_r. split; auto.
Qed.
Lemma ext_refl s : Ext s s.
Proof. apply ext_same; auto. Qed.
Lemma ext_trans s1 s2 s3 : Ext s1 s2 -> Ext s2 s3 -> Ext s1 s3.
Proof.
  intros A B N. destruct (A N) as (N2 & nd1 & E1 & F1). destruct (B N2) as (N3 & nd2 & E2 & F2).
  split; auto. exists (nd1 ++ nd2). split; [rewrite E2, E1, app_assoc; auto|].
  intros x. rewrite F2, F1. unfold mem. rewrite map_app, existsb_app.
  destruct (existsb (path_eqb x) (map d_path nd2)); [rewrite orb_true_r | rewrite orb_false_r]; auto.
Qed.

Section Disk.
Variable c : cfg.

Lemma eofg_ext s g why gf : Ext s (expire_oldest_from_group c s g why gf).
Proof.
  unfold expire_oldest_from_group. destruct (qget g (qs (h s))) as [|p r]; [(apply ext_same; auto)|].
  destruct (rget p (recs (h s))) as [sz|]; [|(apply ext_same; auto)].
  destruct (remove_from_queue c _ p sz) as [h2|]; [|(apply ext_same; auto)].
  intros N. simpl. split; [apply NoDup_keys_rdel; auto|]. exists [mkDel p why gf (h s)]. split; auto.
  intros x. simpl. rewrite rget_rdel; auto. rewrite orb_false_r. auto.
Qed.
Lemma count_loop_ext cnt fuel : forall s g, Ext s (count_loop c cnt fuel s g).
Proof.
  induction fuel as [|f IH]; intros s g; simpl.
  - destruct (qlen s g >? cnt); (apply ext_same; auto).
  - destruct (err s); [(apply ext_same; auto)|]. destruct (qlen s g >? cnt); [|(apply ext_same; auto)].
    eapply ext_trans; [apply eofg_ext | apply IH].
Qed.
Lemma time_loop_ext dur fuel : forall s g, Ext s (time_loop c dur fuel s g).
Proof.
  induction fuel as [|f IH]; intros s g; simpl.
  - destruct (_ >? dur); (apply ext_same; auto).
  - destruct (err s); [(apply ext_same; auto)|]. destruct (_ >? dur); [|(apply ext_same; auto)].
    eapply ext_trans; [apply eofg_ext | apply IH].
Qed.
Lemma size_loop_ext lim fuel : forall s g, Ext s (size_loop c lim fuel s g).
Proof.
  induction fuel as [|f IH]; intros s g; simpl.
  - destruct (_ >? lim); (apply ext_same; auto).
  - destruct (err s); [(apply ext_same; auto)|]. destruct (_ >? lim); [|(apply ext_same; auto)].
    eapply ext_trans; [apply eofg_ext | apply IH].
Qed.
Lemma expire_ext s g : Ext s (expire c s g).
Proof.
  unfold expire.
  set (s1 := match c_count c with Some n => _ | None => s end).
  assert (E1 : Ext s s1) by (subst s1; destruct (c_count c); [apply count_loop_ext | (apply ext_same; auto)]).
  set (s2 := match c_dur c with Some d => _ | None => s1 end).
  assert (E2 : Ext s1 s2) by (subst s2; destruct (c_dur c); [apply time_loop_ext | (apply ext_same; auto)]).
  eapply ext_trans; [exact E1|]. eapply ext_trans; [exact E2|].
  destruct (c_size c); [apply size_loop_ext | (apply ext_same; auto)].
Qed.
Lemma add_core_ext s p sz : Ext s (add_core c s p sz).
Proof.
  unfold add_core. eapply ext_trans; [|apply expire_ext]. apply ext_same; auto.
Qed.
Lemma add_record_ext s p sz : Ext s (add_record c s p sz).
Proof.
  unfold add_record. destruct (err s); [(apply ext_same; auto)|].
  destruct (rget p (recs (h s))); [|apply add_core_ext].
  eapply ext_trans; [|apply add_core_ext]. apply ext_same; auto.
Qed.
Lemma modify_record_ext s p sz : Ext s (modify_record c s p sz).
Proof.
  unfold modify_record. destruct (err s); [(apply ext_same; auto)|].
  destruct (rget p (recs (h s))); [apply ext_same; auto | apply add_core_ext].
Qed.
Lemma remove_record_ext s p : Ext s (remove_record c s p).
Proof.
  unfold remove_record. destruct (err s); [(apply ext_same; auto)|].
  destruct (rget p (recs (h s))); [|(apply ext_same; auto)].
  destruct (remove_from_queue c _ p z) as [h2|]; apply ext_same; auto.
Qed.
Lemma fold_ext {A} (f : st -> A -> st) (l : list A) :
  (forall s a, Ext s (f s a)) -> forall s, Ext s (fold_left f l s).
Proof.
  intros H. induction l as [|a r IH]; intros s; simpl; [(apply ext_same; auto)|].
  eapply ext_trans; [apply H | apply IH].
Qed.
Lemma add_lazy_ext l : forall s, Ext s (add_lazy c s l).
Proof.
  induction l as [|p r IH]; intros s; simpl; [(apply ext_same; auto)|].
  eapply ext_trans; [|apply IH]. destruct (get_file_record s p); [apply add_record_ext | (apply ext_same; auto)].
Qed.
Lemma modify_lazy_ext l : forall s, Ext s (modify_lazy c s l).
Proof.
  induction l as [|p r IH]; intros s; simpl; [(apply ext_same; auto)|].
  eapply ext_trans; [|apply IH]. destruct (get_file_record s p); [apply modify_record_ext | (apply ext_same; auto)].
Qed.
Lemma add_files_ext s l b : Ext s (add_files c s l b).
Proof.
  unfold add_files. destruct b; [|apply add_lazy_ext]. unfold add_recs. apply fold_ext.
  intros; apply add_record_ext.
Qed.
Lemma modify_files_ext s l b : Ext s (modify_files c s l b).
Proof.
  unfold modify_files. destruct b; [|apply modify_lazy_ext]. unfold modify_recs. apply fold_ext.
  intros; apply modify_record_ext.
Qed.
Lemma remove_files_ext s l : Ext s (remove_files c s l).
Proof. unfold remove_files. apply fold_ext. intros; apply remove_record_ext. Qed.

Lemma step_disk s o : NoDup (keys (disk s)) ->
  exists nd, dels (step c s o) = dels s ++ nd /\
    forall x, rget x (disk (step c s o)) =
              if mem x (map d_path nd) then None else rget x (env_effect o (disk s)).
Proof.
  intros N.
  assert (K : forall s', Ext s s' -> exists nd, dels s' = dels s ++ nd /\
            forall x, rget x (disk s') = if mem x (map d_path nd) then None else rget x (disk s))
    by (intros s' E; apply E; auto).
  destruct o; cbn [step env_effect].
  - apply K, add_files_ext.
  - apply K, modify_files_ext.
  - apply K, remove_files_ext.
  - apply K. eapply ext_trans; [apply remove_files_ext | apply add_files_ext].
  - apply K, add_files_ext.
  - apply K, modify_files_ext.
  - apply K, remove_files_ext.
  - apply K. unfold rescan.
    eapply ext_trans; [apply remove_files_ext|]. eapply ext_trans; [apply add_files_ext | apply modify_files_ext].
  - exists []. rewrite app_nil_r. simpl. auto.
  - exists []. rewrite app_nil_r. simpl. auto.
Qed.
End Disk.

(* ------------------------------------------------------------------ no exception, termination, limits *)
Lemma In_rset a p s l : In a (rset p s l) -> a = (p, s) \/ In a l.
Proof.
  induction l as [|[x s0] r IH]; simpl; [intros [<-|[]]; auto|]. peq p x; simpl.
  - intros [<-|A]; auto.
  - intros [<-|A]; auto. destruct (IH A); auto.
Qed.
Lemma In_rdel a p l : In a (rdel p l) -> In a l.
Proof.
  induction l as [|[x s0] r IH]; simpl; auto. peq p x; simpl; auto. intros [<-|A]; auto.
Qed.
Lemma rget_In p s l : rget p l = Some s -> In (p, s) l.
Proof.
  induction l as [|[x s0] r IH]; simpl; [discriminate|]. peq p x.
  - intros H; inversion H; subst; auto.
  - auto.
Qed.
Lemma length_rdel p l : In p (keys l) -> S (length (rdel p l)) = length l.
Proof.
  induction l as [|[x s0] r IH]; simpl; [tauto|]. peq p x; simpl; auto.
  intros [A|A]; [congruence | rewrite IH; auto].
Qed.
Lemma asc_duration_nonneg q : asc q -> 0 <= queue_duration q.
Proof.
  destruct q as [|x r]; simpl; [lia|]. intros A.
  pose proof (asc_last_max (x :: r) x A x (or_introl eq_refl)). simpl in H. lia.
Qed.
Lemma asc_sub_duration q q' : asc q -> asc q' -> (forall x, In x q' -> In x q) ->
  queue_duration q' <= queue_duration q.
Proof.
  intros A A' S. destruct q' as [|x' r']; [apply asc_duration_nonneg; auto|].
  destruct q as [|x r]; [destruct (S x' (or_introl eq_refl))|].
  unfold queue_duration.
  pose proof (asc_head_min x r A x' (S x' (or_introl eq_refl))).
  assert (In (last (x' :: r') x') (x :: r)) by (apply S; apply last_In; congruence).
  pose proof (asc_last_max (x :: r) x A _ H0). lia.
Qed.
Lemma NoDup_map_inj {A B} (f : A -> B) l :
  NoDup l -> (forall x y, In x l -> In y l -> f x = f y -> x = y) -> NoDup (map f l).
Proof.
  induction l as [|a r IH]; simpl; intros N H; [constructor|]. inversion N; subst. constructor.
  - intros I. apply in_map_iff in I. destruct I as (y & E & Hy).
    assert (y = a) by (apply H; auto). subst. contradiction.
  - apply IH; auto.
Qed.

Lemma pick_cases g l : forall best rg,
  pick_group g best rg l = rg \/ exists q, In (pick_group g best rg l, q) l /\ (2 <= length q)%nat.
Proof.
  induction l as [|[x q] r IH]; intros best rg; simpl; auto.
  destruct (x =? g).
  - destruct (IH best rg) as [A|(q' & A & B)]; auto. right; eauto.
  - destruct q as [|a [|b q']].
    + destruct (IH best rg) as [A|(q'' & A & B)]; [auto | right; eauto].
    + destruct (IH best rg) as [A|(q'' & A & B)]; [auto | right; eauto].
    + destruct (match best with None => true | Some b0 => pk a <? b0 end).
      * destruct (IH (Some (pk a)) x) as [A|(q'' & A & B)].
        -- right. exists (a :: b :: q'). rewrite A. simpl. split; auto. lia.
        -- right; eauto.
      * destruct (IH best rg) as [A|(q'' & A & B)]; [auto | right; eauto].
Qed.
Lemma cand_dec g (l : list (Z * list path)) :
  (exists x q, In (x, q) l /\ x <> g /\ (2 <= length q)%nat) \/
  ~ (exists x q, In (x, q) l /\ x <> g /\ (2 <= length q)%nat).
Proof.
  induction l as [|[x q] r IH].
  - right. intros (y & qy & [] & _).
  - destruct IH as [(y & qy & A & B & C)|N].
    + left. exists y, qy. simpl; auto.
    + destruct (Z.eq_dec x g) as [->|Nx].
      * right. intros (y & qy & [A|A] & B & C); [inversion A; subst; contradiction | apply N; eauto].
      * destruct (le_lt_dec 2 (length q)) as [L|L].
        -- left. exists x, q. simpl; auto.
        -- right. intros (y & qy & [A|A] & B & C); [inversion A; subst; lia | apply N; eauto].
Qed.
Lemma pick_none g l : forall rg,
  (exists x q, In (x, q) l /\ x <> g /\ (2 <= length q)%nat) ->
  exists q, In (pick_group g None rg l, q) l /\ (2 <= length q)%nat.
Proof.
  induction l as [|[x q] r IH]; intros rg (y & qy & Hy & Ny & Ly); simpl in *; [tauto|].
  destruct (x =? g) eqn:E.
  - apply Z.eqb_eq in E. destruct Hy as [Hy|Hy]; [inversion Hy; subst; contradiction|].
    destruct (IH rg) as (q' & A & B); eauto.
  - destruct q as [|a [|b q']].
    + destruct Hy as [Hy|Hy]; [inversion Hy; subst; simpl in Ly; lia|].
      destruct (IH rg) as (q' & A & B); eauto.
    + destruct Hy as [Hy|Hy]; [inversion Hy; subst; simpl in Ly; lia|].
      destruct (IH rg) as (q' & A & B); eauto.
    + destruct (pick_cases g r (Some (pk a)) x) as [A|(q'' & A & B)].
      * exists (a :: b :: q'). rewrite A. simpl. split; auto. lia.
      * eauto.
Qed.

Section Safety.
Variable c : cfg.
Variable G : list Z.    (* the channels (groups) that occur *)
Variable M : Z.         (* the largest file size *)

(* the property's hypothesis: limits are meaningful and the size limit is at least one largest
   file per channel *)
Definition CfgOk : Prop :=
  c_dup c = CountOnce /\ 0 <= M /\
  (forall n, c_count c = Some n -> 1 <= n) /\
  (forall d, c_dur c = Some d -> 0 <= d) /\
  (forall z, c_size c = Some z -> Z.of_nat (length G) * M <= z).
Hypothesis OK : CfgOk.

Definition BdH (hs : hst) : Prop :=
  (forall a, In a (recs hs) -> In (pg (fst a)) G /\ 0 <= snd a <= M) /\
  (forall g, In g (map fst (qs hs)) -> In g G).
Definition BdD (d : list (path * Z)) : Prop :=
  forall p sz, rget p d = Some sz -> trackable p = true -> In (pg p) G /\ 0 <= sz <= M.

Definition Shrunk (hs hs' : hst) : Prop := forall g, exists l, qget g (qs hs) = l ++ qget g (qs hs').
Definition GLg (hs : hst) (g : Z) : Prop :=
  (forall n, c_count c = Some n -> Z.of_nat (length (qget g (qs hs))) <= n) /\
  (forall d, c_dur c = Some d -> queue_duration (qget g (qs hs)) <= d).
Definition GL (hs : hst) : Prop := forall g, GLg hs g.
Definition AllLimits (hs : hst) : Prop := GL hs /\ forall z, c_size c = Some z -> act hs <= z.

Lemma shrunk_refl hs : Shrunk hs hs.
Proof. intros g. exists []. auto. Qed.
Lemma shrunk_trans a b d : Shrunk a b -> Shrunk b d -> Shrunk a d.
Proof.
  intros A B g. destruct (A g) as [l1 E1]. destruct (B g) as [l2 E2].
  exists (l1 ++ l2). rewrite E1, E2, app_assoc. auto.
Qed.
Lemma GLg_shrunk hs hs' g : Inv c hs -> Inv c hs' -> Shrunk hs hs' -> GLg hs g -> GLg hs' g.
Proof.
  intros (_ & _ & I3 & _) (_ & _ & I3' & _) S [A B]. destruct (S g) as [l E].
  destruct (I3 g) as (A1 & _). destruct (I3' g) as (A1' & _). split.
  - intros n Hn. specialize (A n Hn). rewrite E, app_length in A. lia.
  - intros d Hd. specialize (B d Hd).
    assert (queue_duration (qget g (qs hs')) <= queue_duration (qget g (qs hs))); [|lia].
    apply asc_sub_duration; auto. intros x Hx. rewrite E. apply in_or_app; auto.
Qed.

Lemma eofg_safe s g why gf p r : Inv c (h s) -> BdH (h s) -> qget g (qs (h s)) = p :: r ->
  let s' := expire_oldest_from_group c s g why gf in
  Inv c (h s') /\ BdH (h s') /\ err s' = err s /\ Shrunk (h s) (h s') /\
  qget g (qs (h s')) = r /\ S (length (recs (h s'))) = length (recs (h s)).
Proof.
  intros I [B1 B2] Hq. destruct (eofg_spec c s g why gf p r I Hq) as (sz & Hr & Hg & Hp & Hold & I' & E).
  simpl. rewrite E. simpl. split; auto. split; [|split; auto; split; [|split]].
  - split; simpl.
    + intros a Ha. apply B1. eapply In_rdel; eauto.
    + intros x Hx. apply In_fst_qset in Hx. destruct Hx as [->|Hx]; auto.
      apply B2. apply qget_nonempty_In. rewrite Hq. congruence.
  - intros g'. simpl. rewrite qget_qset. destruct (g' =? g) eqn:E'.
    + apply Z.eqb_eq in E'; subst. exists [p]. rewrite Hq. auto.
    + exists []. auto.
  - rewrite qget_qset, Z.eqb_refl. auto.
  - apply length_rdel; auto.
Qed.

Lemma count_loop_safe cnt fuel : forall s g, Inv c (h s) -> BdH (h s) -> err s = false -> 0 <= cnt ->
  (length (qget g (qs (h s))) < fuel)%nat ->
  let s' := count_loop c cnt fuel s g in
  Inv c (h s') /\ BdH (h s') /\ err s' = false /\ Shrunk (h s) (h s') /\ qlen s' g <= cnt.
Proof.
  induction fuel as [|f IH]; intros s g I B E Hc Hf; [lia|]. simpl. rewrite E.
  destruct (qlen s g >? cnt) eqn:C.
  - apply Z.gtb_lt in C. unfold qlen in C.
    destruct (qget g (qs (h s))) as [|p r] eqn:Hq; [simpl in C; lia|].
    destruct (eofg_safe s g 1 g p r I B Hq) as (I' & B' & E' & S' & Q' & _).
    destruct (IH (expire_oldest_from_group c s g 1 g) g) as (I2 & B2 & E2 & S2 & L2); auto.
    + rewrite E'; auto.
    + rewrite Q'. simpl in Hf. lia.
    + split; [exact I2 | split; [exact B2 | split; [exact E2 | split; [eapply shrunk_trans; eauto | exact L2]]]].
  - split; [exact I | split; [exact B | split; [exact E | split; [apply shrunk_refl |]]]].
    destruct (Z.gtb_spec (qlen s g) cnt); [discriminate | lia].
Qed.

Lemma time_loop_safe dur fuel : forall s g, Inv c (h s) -> BdH (h s) -> err s = false -> 0 <= dur ->
  (length (qget g (qs (h s))) < fuel)%nat ->
  let s' := time_loop c dur fuel s g in
  Inv c (h s') /\ BdH (h s') /\ err s' = false /\ Shrunk (h s) (h s') /\
  queue_duration (qget g (qs (h s'))) <= dur.
Proof.
  induction fuel as [|f IH]; intros s g I B E Hc Hf; [lia|]. simpl. rewrite E.
  destruct (queue_duration (qget g (qs (h s))) >? dur) eqn:C.
  - apply Z.gtb_lt in C.
    destruct (qget g (qs (h s))) as [|p r] eqn:Hq; [simpl in C; lia|].
    destruct (eofg_safe s g 2 g p r I B Hq) as (I' & B' & E' & S' & Q' & _).
    destruct (IH (expire_oldest_from_group c s g 2 g) g) as (I2 & B2 & E2 & S2 & L2); auto.
    + rewrite E'; auto.
    + rewrite Q'. simpl in Hf. lia.
    + split; [exact I2 | split; [exact B2 | split; [exact E2 | split; [eapply shrunk_trans; eauto | exact L2]]]].
  - split; [exact I | split; [exact B | split; [exact E | split; [apply shrunk_refl |]]]].
    destruct (Z.gtb_spec (queue_duration (qget g (qs (h s)))) dur); [discriminate | lia].
Qed.

Lemma total_bound l : (forall a, In a l -> 0 <= snd a <= M) -> total l <= Z.of_nat (length l) * M.
Proof.
  induction l as [|a r IH]; intros H; simpl total; simpl length; [lia|].
  assert (total r <= Z.of_nat (length r) * M) by (apply IH; intros; apply H; simpl; auto).
  pose proof (H a (or_introl eq_refl)). lia.
Qed.

(* when the size limit is exceeded some queue holds a file that may be expired *)
Lemma size_pick hs g z : Inv c hs -> BdH hs -> c_size c = Some z -> act hs > z ->
  qget (removal_group hs g) (qs hs) <> [].
Proof.
  intros I [B1 B2] Hz Ha. pose proof I as (I1 & I2 & I3 & I4 & I5).
  destruct OK as (_ & HM & _ & _ & Hsz). specialize (Hsz z Hz).
  unfold removal_group.
  destruct (qget g (qs hs)) as [|p r] eqn:Hq.
  - simpl head_key.
    destruct (cand_dec g (qs hs)) as [Ex|Nex].
    + destruct (pick_none g (qs hs) g Ex) as (q & A & B).
      rewrite (In_qs_qget _ _ _ I2 A). destruct q; simpl in B; [lia | congruence].
    + exfalso.
      (* every queue holds at most one file, so the tracked total is at most |G| * M *)
      assert (L1 : forall x, (length (qget x (qs hs)) <= 1)%nat).
      { intros x. destruct (Z.eq_dec x g) as [->|Nx]; [rewrite Hq; simpl; lia|].
        destruct (le_lt_dec (length (qget x (qs hs))) 1) as [|L]; auto. exfalso. apply Nex.
        assert (Hx : In x (map fst (qs hs)))
          by (apply qget_nonempty_In; destruct (qget x (qs hs)); simpl in L; [lia | congruence]).
        apply in_map_iff in Hx. destruct Hx as ([x' q'] & Ex' & Hin). simpl in Ex'; subst x'.
        exists x, q'. split; auto. split; auto. rewrite <- (In_qs_qget _ _ _ I2 Hin). lia. }
      assert (N : NoDup (map pg (keys (recs hs)))).
      { apply NoDup_map_inj; auto. intros x y Hx Hy Exy.
        destruct (I3 (pg x)) as (_ & _ & Mx).
        assert (Ax : In x (qget (pg x) (qs hs))) by (apply Mx; auto).
        assert (Ay : In y (qget (pg x) (qs hs))) by (apply Mx; auto).
        specialize (L1 (pg x)). destruct (qget (pg x) (qs hs)) as [|a [|b q']]; simpl in *; [tauto | | lia].
        destruct Ax as [<-|[]], Ay as [<-|[]]; auto. }
      assert (Incl : incl (map pg (keys (recs hs))) (map fst (qs hs))).
      { intros x Hx. apply in_map_iff in Hx. destruct Hx as (y & <- & Hy).
        destruct (I3 (pg y)) as (_ & _ & My). apply qget_nonempty_In.
        assert (In y (qget (pg y) (qs hs))) by (apply My; auto).
        destruct (qget (pg y) (qs hs)); [destruct H | congruence]. }
      pose proof (NoDup_incl_length N Incl) as L2. rewrite !map_length in L2.
      assert (L3 : (length (qs hs) <= length G)%nat).
      { rewrite <- (map_length fst). apply NoDup_incl_length; [exact I2 | exact B2]. }
      assert (T : total (recs hs) <= Z.of_nat (length (recs hs)) * M).
      { apply total_bound. intros a Ha'. apply B1; auto. }
      rewrite I4 in Ha by (unfold has_size; rewrite Hz; auto).
      unfold keys in L2. rewrite map_length in L2. nia.
  - simpl head_key. destruct (pick_cases g (qs hs) (Some (pk p)) g) as [A|(q & A & B)].
    + rewrite A, Hq. congruence.
    + rewrite (In_qs_qget _ _ _ I2 A). destruct q; simpl in B; [lia | congruence].
Qed.
Lemma size_loop_safe lim fuel : forall s g, Inv c (h s) -> BdH (h s) -> err s = false ->
  c_size c = Some lim -> (length (recs (h s)) < fuel)%nat ->
  let s' := size_loop c lim fuel s g in
  Inv c (h s') /\ BdH (h s') /\ err s' = false /\ Shrunk (h s) (h s') /\ act (h s') <= lim.
Proof.
  induction fuel as [|f IH]; intros s g I B E Hc Hf; [lia|]. simpl. rewrite E.
  destruct (act (h s) >? lim) eqn:C.
  - apply Z.gtb_lt in C.
    pose proof (size_pick (h s) g lim I B Hc (Z.lt_gt _ _ C)) as Hne.
    destruct (qget (removal_group (h s) g) (qs (h s))) as [|p r] eqn:Hq; [congruence|].
    destruct (eofg_safe s (removal_group (h s) g) 3 g p r I B Hq) as (I' & B' & E' & S' & _ & L').
    destruct (IH (expire_oldest_from_group c s (removal_group (h s) g) 3 g) g) as (I2 & B2 & E2 & S2 & L2); auto.
    + rewrite E'; auto.
    + lia.
    + split; [exact I2 | split; [exact B2 | split; [exact E2 | split; [eapply shrunk_trans; eauto | exact L2]]]].
  - split; [exact I | split; [exact B | split; [exact E | split; [apply shrunk_refl |]]]].
    destruct (Z.gtb_spec (act (h s)) lim); [discriminate | lia].
Qed.

Lemma shrunk_len a b g : Shrunk a b -> (length (qget g (qs b)) <= length (qget g (qs a)))%nat.
Proof. intros S. destruct (S g) as [l E]. rewrite E, app_length. lia. Qed.
Lemma shrunk_dur a b g : Inv c a -> Inv c b -> Shrunk a b ->
  queue_duration (qget g (qs b)) <= queue_duration (qget g (qs a)).
Proof.
  intros (_ & _ & I3 & _) (_ & _ & I3' & _) S. destruct (S g) as [l E].
  destruct (I3 g) as (A1 & _). destruct (I3' g) as (A1' & _).
  apply asc_sub_duration; auto. intros x Hx. rewrite E. apply in_or_app; auto.
Qed.

Lemma expire_safe s g : Inv c (h s) -> BdH (h s) -> err s = false ->
  let s' := expire c s g in
  Inv c (h s') /\ BdH (h s') /\ err s' = false /\ Shrunk (h s) (h s') /\
  (forall n, c_count c = Some n -> Z.of_nat (length (qget g (qs (h s')))) <= n) /\
  (forall d, c_dur c = Some d -> queue_duration (qget g (qs (h s'))) <= d) /\
  (forall z, c_size c = Some z -> act (h s') <= z).
Proof.
  intros I B E. destruct OK as (_ & HM & Hcnt & Hdur & _). unfold expire.
  set (s1 := match c_count c with Some n => _ | None => s end).
  assert (S1 : Inv c (h s1) /\ BdH (h s1) /\ err s1 = false /\ Shrunk (h s) (h s1) /\
               (forall n, c_count c = Some n -> Z.of_nat (length (qget g (qs (h s1)))) <= n)).
  { subst s1. destruct (c_count c) as [n|] eqn:Ec.
    - destruct (count_loop_safe n (S (length (qget g (qs (h s))))) s g) as (A1 & A2 & A3 & A4 & A5); auto.
      + specialize (Hcnt n eq_refl). lia.
      + split; auto. split; auto. split; auto. split; auto. intros n' Hn'. inversion Hn'; subst. exact A5.
    - split; auto. split; auto. split; auto. split; [apply shrunk_refl|]. intros; discriminate. }
  destruct S1 as (I1 & B1 & E1 & Sh1 & C1).
  set (s2 := match c_dur c with Some d => _ | None => s1 end).
  assert (S2 : Inv c (h s2) /\ BdH (h s2) /\ err s2 = false /\ Shrunk (h s1) (h s2) /\
               (forall d, c_dur c = Some d -> queue_duration (qget g (qs (h s2))) <= d)).
  { subst s2. destruct (c_dur c) as [d|] eqn:Ec.
    - destruct (time_loop_safe d (S (length (qget g (qs (h s1))))) s1 g) as (A1 & A2 & A3 & A4 & A5); auto.
      split; auto. split; auto. split; auto. split; auto. intros d' Hd'. inversion Hd'; subst. exact A5.
    - split; auto. split; auto. split; auto. split; [apply shrunk_refl|]. intros; discriminate. }
  destruct S2 as (I2 & B2 & E2 & Sh2 & C2).
  set (s3 := match c_size c with Some z => _ | None => s2 end).
  assert (S3 : Inv c (h s3) /\ BdH (h s3) /\ err s3 = false /\ Shrunk (h s2) (h s3) /\
               (forall z, c_size c = Some z -> act (h s3) <= z)).
  { subst s3. destruct (c_size c) as [z|] eqn:Ec.
    - destruct (size_loop_safe z (S (length (recs (h s2)))) s2 g) as (A1 & A2 & A3 & A4 & A5); auto.
      split; auto. split; auto. split; auto. split; auto. intros z' Hz'. inversion Hz'; subst. exact A5.
    - split; auto. split; auto. split; auto. split; [apply shrunk_refl|]. intros; discriminate. }
  destruct S3 as (I3 & B3 & E3 & Sh3 & C3).
  split; auto. split; auto. split; auto.
  split; [eapply shrunk_trans; [exact Sh1 | eapply shrunk_trans; eauto]|].
  split; [|split; auto].
  - intros n Hn. specialize (C1 n Hn).
    pose proof (shrunk_len _ _ g (shrunk_trans _ _ _ Sh2 Sh3)). lia.
  - intros d Hd. specialize (C2 d Hd). pose proof (shrunk_dur _ _ g I2 I3 Sh3). lia.
Qed.

Definition Core (s : st) : Prop := Inv c (h s) /\ BdH (h s) /\ err s = false /\ GL (h s).

Lemma expire_after s g : Inv c (h s) -> BdH (h s) -> err s = false ->
  (forall g', g' <> g -> GLg (h s) g') ->
  Core (expire c s g) /\ AllLimits (h (expire c s g)).
Proof.
  intros I B E H. destruct (expire_safe s g I B E) as (I' & B' & E' & S' & C1 & C2 & C3).
  assert (GL (h (expire c s g))).
  { intros g'. destruct (Z.eq_dec g' g) as [->|N]; [split; auto|].
    apply (GLg_shrunk (h s) _ g' I I' S' (H g' N)). }
  split; [split; auto | split; auto].
Qed.

Lemma add_to_queue_shape hs p sz :
  recs (add_to_queue c hs p sz) = recs hs /\
  (forall g', g' <> pg p -> qget g' (qs (add_to_queue c hs p sz)) = qget g' (qs hs)) /\
  (forall g', In g' (map fst (qs (add_to_queue c hs p sz))) -> g' = pg p \/ In g' (map fst (qs hs))).
Proof.
  unfold add_to_queue. destruct (q_insert p (qget (pg p) (qs hs))); simpl; auto.
  split; auto. split.
  - intros g' N. rewrite qget_qset. apply Z.eqb_neq in N. rewrite N. auto.
  - intros g' H. apply In_fst_qset in H. auto.
Qed.

Lemma add_core_core s p sz : Core s -> trackable p = true -> In (pg p) G -> 0 <= sz <= M ->
  (rget p (recs (h s)) = None \/ exists old, rget p (recs (h s)) = Some old /\ (has_size c = true -> old = sz)) ->
  Core (add_core c s p sz) /\ AllLimits (h (add_core c s p sz)).
Proof.
  intros (I & [B1 B2] & E & L) Ht Hg Hs Hc. destruct OK as (Once & _).
  unfold add_core.
  set (h1 := add_to_queue c (mkH (rset p sz (recs (h s))) (qs (h s)) (act (h s))) p sz).
  destruct (add_to_queue_shape (mkH (rset p sz (recs (h s))) (qs (h s)) (act (h s))) p sz) as (R1 & R2 & R3).
  fold h1 in R1, R2, R3. simpl in R1, R2, R3.
  assert (I1 : Inv c h1).
  { subst h1. destruct Hc as [Hn|(old & Ho & Heq)].
    - apply inv_track; auto. apply rget_None; auto.
    - assert (I0 : Inv c (mkH (rset p sz (recs (h s))) (qs (h s)) (act (h s)))).
      { pose proof (inv_resize c (h s) p sz old I Ho) as I0.
        destruct (has_size c) eqn:S; auto. rewrite (Heq eq_refl) in I0.
        replace (act (h s) - sz + sz) with (act (h s)) in I0 by lia. auto. }
      rewrite add_to_queue_dup; auto. simpl. rewrite keys_rset_in; eapply rget_Some_In; eauto. }
  apply expire_after; simpl; auto.
  - split.
    + rewrite R1. intros a Ha. apply In_rset in Ha. destruct Ha as [->|Ha]; simpl; auto.
    + intros g' Hg'. apply R3 in Hg'. destruct Hg' as [->|Hg']; auto.
  - intros g' N. unfold GLg. rewrite (R2 g' N). apply L.
Qed.

Lemma add_record_core s p sz : Core s -> trackable p = true -> In (pg p) G -> 0 <= sz <= M ->
  Core (add_record c s p sz) /\ AllLimits (h (add_record c s p sz)).
Proof.
  intros C Ht Hg Hs. pose proof C as (I & [B1 B2] & E & L). unfold add_record. rewrite E.
  destruct (rget p (recs (h s))) as [old|] eqn:Hr.
  - unfold modify_existing. destruct (has_size c) eqn:S.
    + apply add_core_core; auto.
      * split; [|split; [|split]]; simpl; auto.
        -- pose proof (inv_resize c (h s) p sz old I Hr) as I0. rewrite S in I0. exact I0.
        -- split; simpl; auto. intros a Ha. apply In_rset in Ha. destruct Ha as [->|Ha]; simpl; auto.
      * right. exists sz. simpl. rewrite rget_rset, path_eqb_refl. auto.
    + replace (with_h s (h s)) with s by (destruct s; auto).
      apply add_core_core; auto. right. exists old. split; auto. intros X. rewrite S in X. discriminate.
  - apply add_core_core; auto.
Qed.

Lemma modify_record_core s p sz : Core s -> trackable p = true -> In (pg p) G -> 0 <= sz <= M ->
  Core (modify_record c s p sz).
Proof.
  intros C Ht Hg Hs. pose proof C as (I & [B1 B2] & E & L). unfold modify_record. rewrite E.
  destruct (rget p (recs (h s))) as [old|] eqn:Hr.
  - unfold modify_existing. destruct (has_size c) eqn:S.
    + split; [|split; [|split]]; simpl; auto.
      * pose proof (inv_resize c (h s) p sz old I Hr) as I0. rewrite S in I0. exact I0.
      * split; simpl; auto. intros a Ha. apply In_rset in Ha. destruct Ha as [->|Ha]; simpl; auto.
    + replace (with_h s (h s)) with s by (destruct s; auto). auto.
  - apply add_core_core; auto.
Qed.

Lemma remove_record_core s p : Core s -> Core (remove_record c s p).
Proof.
  intros C. pose proof C as (I & [B1 B2] & E & L). unfold remove_record. rewrite E.
  destruct (rget p (recs (h s))) as [sz|] eqn:Hr; auto.
  destruct (inv_untrack c (h s) p sz I Hr) as (l1 & l2 & Eq & F & R & I').
  rewrite R. split; [|split; [|split]]; simpl; auto.
  - split; simpl.
    + intros a Ha. apply B1. eapply In_rdel; eauto.
    + intros g Hg. apply In_fst_qset in Hg. destruct Hg as [->|Hg]; auto.
      apply B2. apply qget_nonempty_In. rewrite Eq. destruct l1; simpl; congruence.
  - intros g. unfold GLg; simpl. rewrite qget_qset. destruct (g =? pg p) eqn:Eg; [|apply L].
    apply Z.eqb_eq in Eg; subst g. destruct (L (pg p)) as [L1 L2]. rewrite Eq in L1, L2. split.
    + intros n Hn. specialize (L1 n Hn). rewrite app_length in *. simpl in L1. lia.
    + intros d Hd. specialize (L2 d Hd).
      assert (queue_duration (l1 ++ l2) <= queue_duration (l1 ++ p :: l2)); [|lia].
      pose proof I as (_ & _ & I3 & _). destruct (I3 (pg p)) as (A & _). rewrite Eq in A.
      apply asc_sub_duration; auto; [eapply asc_remove; eauto|].
      intros x Hx. apply In_middle. auto.
Qed.

(* ---- the whole state: Good + bounded disk + Core *)
Definition Safe (s : st) : Prop := Good c s /\ BdD (disk s) /\ Core s.
Definition OpOk (o : op) : Prop :=
  match o with
  | EnvWrite p sz => trackable p = true -> In (pg p) G /\ 0 <= sz <= M
  | _ => True
  end.

Lemma bdd_ext s s' : NoDup (keys (disk s)) -> Ext s s' -> BdD (disk s) -> BdD (disk s').
Proof.
  intros N E B. destruct (E N) as (_ & nd & _ & F). intros p sz Hp Ht.
  rewrite F in Hp. destruct (mem p (map d_path nd)); [discriminate|]. apply B; auto.
Qed.

Lemma add_record_safe s p sz : Safe s -> trackable p = true -> In (pg p) G -> 0 <= sz <= M ->
  Safe (add_record c s p sz).
Proof.
  intros (Gd & D & C) Ht Hg Hs. destruct OK as (Once & _). split; [|split].
  - apply add_record_good; auto.
  - eapply bdd_ext; [apply Gd | apply add_record_ext | auto].
  - apply add_record_core; auto.
Qed.
Lemma modify_record_safe s p sz : Safe s -> trackable p = true -> In (pg p) G -> 0 <= sz <= M ->
  Safe (modify_record c s p sz).
Proof.
  intros (Gd & D & C) Ht Hg Hs. destruct OK as (Once & _). split; [|split].
  - apply modify_record_good; auto.
  - eapply bdd_ext; [apply Gd | apply modify_record_ext | auto].
  - apply modify_record_core; auto.
Qed.
Lemma remove_record_safe s p : Safe s -> Safe (remove_record c s p).
Proof.
  intros (Gd & D & C). destruct OK as (Once & _). split; [|split].
  - apply remove_record_good; auto.
  - eapply bdd_ext; [apply Gd | apply remove_record_ext | auto].
  - apply remove_record_core; auto.
Qed.

Definition RecOk (a : path * Z) : Prop := trackable (fst a) = true /\ In (pg (fst a)) G /\ 0 <= snd a <= M.

Lemma gfr_ok s p sz : BdD (disk s) -> get_file_record s p = Some sz -> RecOk (p, sz).
Proof.
  intros B H. pose proof (get_file_record_trackable _ _ _ H) as Ht. unfold get_file_record in H.
  rewrite Ht in H. destruct (B p sz H Ht). split; auto.
Qed.
Lemma add_recs_safe l : forall s, Safe s -> (forall a, In a l -> RecOk a) -> Safe (add_recs c s l).
Proof.
  unfold add_recs. induction l as [|a r IH]; intros s S H; simpl; auto.
  destruct (H a (or_introl eq_refl)) as (A1 & A2 & A3).
  apply IH; [apply add_record_safe; auto | intros; apply H; simpl; auto].
Qed.
Lemma modify_recs_safe l : forall s, Safe s -> (forall a, In a l -> RecOk a) -> Safe (modify_recs c s l).
Proof.
  unfold modify_recs. induction l as [|a r IH]; intros s S H; simpl; auto.
  destruct (H a (or_introl eq_refl)) as (A1 & A2 & A3).
  apply IH; [apply modify_record_safe; auto | intros; apply H; simpl; auto].
Qed.
Lemma add_lazy_safe l : forall s, Safe s -> Safe (add_lazy c s l).
Proof.
  induction l as [|p r IH]; intros s S; simpl; auto. apply IH.
  destruct (get_file_record s p) as [sz|] eqn:E; auto.
  destruct (gfr_ok s p sz (proj1 (proj2 S)) E) as (A1 & A2 & A3). apply add_record_safe; auto.
Qed.
Lemma modify_lazy_safe l : forall s, Safe s -> Safe (modify_lazy c s l).
Proof.
  induction l as [|p r IH]; intros s S; simpl; auto. apply IH.
  destruct (get_file_record s p) as [sz|] eqn:E; auto.
  destruct (gfr_ok s p sz (proj1 (proj2 S)) E) as (A1 & A2 & A3). apply modify_record_safe; auto.
Qed.
Lemma sorted_records_ok s l a : BdD (disk s) -> In a (sort_recs (dedup_recs (get_records s l))) -> RecOk a.
Proof.
  intros B H. apply (proj1 (sort_recs_In _ _)) in H. apply dedup_recs_In in H. apply get_records_In in H. destruct H as [H _].
  destruct a as [p sz]. eapply gfr_ok; eauto.
Qed.
Lemma add_files_safe s l b : Safe s -> Safe (add_files c s l b).
Proof.
  intros S. unfold add_files. destruct b; [|apply add_lazy_safe; auto].
  apply add_recs_safe; auto. intros a. apply sorted_records_ok. apply S.
Qed.
Lemma modify_files_safe s l b : Safe s -> Safe (modify_files c s l b).
Proof.
  intros S. unfold modify_files. destruct b; [|apply modify_lazy_safe; auto].
  apply modify_recs_safe; auto. intros a. apply sorted_records_ok. apply S.
Qed.
Lemma remove_files_safe l : forall s, Safe s -> Safe (remove_files c s l).
Proof.
  unfold remove_files. induction l as [|p r IH]; intros s S; simpl; auto.
  apply IH. apply remove_record_safe; auto.
Qed.

Lemma step_safe s o : Safe s -> OpOk o -> Safe (step c s o).
Proof.
  intros S Ho. destruct o; cbn [step].
  - apply add_files_safe; auto.
  - apply modify_files_safe; auto.
  - apply (remove_files_safe [p]); auto.
  - apply add_files_safe. apply (remove_files_safe [p]); auto.
  - apply add_files_safe; auto.
  - apply modify_files_safe; auto.
  - apply remove_files_safe; auto.
  - unfold rescan. apply modify_files_safe. apply add_files_safe. apply remove_files_safe; auto.
  - destruct S as (Gd & D & C). split; [|split; [|exact C]].
    + destruct Gd as (I & N & J). split; [exact I | split; [simpl; apply NoDup_keys_rset; auto | exact J]].
    + simpl. intros x sx Hx Ht. rewrite rget_rset in Hx. peq x p.
      * inversion Hx; subst. apply Ho; auto.
      * apply D; auto.
  - destruct S as (Gd & D & C). split; [|split; [|exact C]].
    + destruct Gd as (I & N & J). split; [exact I | split; [simpl; apply NoDup_keys_rdel; auto | exact J]].
    + simpl. intros x sx Hx Ht. rewrite rget_rdel in Hx by apply Gd.
      destruct (path_eqb x p); [discriminate | apply D; auto].
Qed.

Lemma safe_init : Safe init.
Proof.
  destruct OK as (Once & _). split; [apply good_init; auto|]. split; [intros p sz H; discriminate|].
  split; [apply good_init; auto|]. split; [split; simpl; tauto|]. split; auto.
  intros g. split; intros; simpl.
  - destruct OK as (_ & _ & Hc & _). specialize (Hc n H). lia.
  - destruct OK as (_ & _ & _ & Hd & _). specialize (Hd d H). lia.
Qed.

Lemma run_safe_from l : forall s, Safe s -> Forall OpOk l -> Safe (fold_left (step c) l s).
Proof.
  induction l as [|o r IH]; intros s S F; simpl; auto. inversion F; subst.
  apply IH; auto. apply step_safe; auto.
Qed.
Lemma run_safe l : Forall OpOk l -> Safe (run_ops c l).
Proof. apply run_safe_from. apply safe_init. Qed.

(* every configured limit holds again once a newly reported file has been handled *)
Lemma created_limits s p sz : Safe s -> get_file_record s p = Some sz ->
  err (step c s (Created p)) = false /\ AllLimits (h (step c s (Created p))).
Proof.
  intros S H. destruct (gfr_ok s p sz (proj1 (proj2 S)) H) as (A1 & A2 & A3). simpl in *.
  cbn [step]. unfold add_files, get_records. simpl. rewrite H. simpl. unfold add_recs. simpl.
  destruct (add_record_core s p sz (proj2 (proj2 S)) A1 A2 A3) as ((_ & _ & E & _) & L). auto.
Qed.
End Safety.

(* ------------------------------------------------------------------ statements used by Properties/C16.v *)
Lemma run_snoc c ops o : run_ops c (ops ++ [o]) = step c (run_ops c ops) o.
Proof. unfold run_ops. rewrite fold_left_app. auto. Qed.

Lemma inv_preserved c ops : c_dup c = CountOnce -> Inv c (h (run_ops c ops)).
Proof. intros O. apply (run_good c O ops). Qed.

Lemma deletions_justified c ops : c_dup c = CountOnce -> Forall (Justified c) (dels (run_ops c ops)).
Proof. intros O. apply (run_good c O ops). Qed.

Lemma deletes_only_tracked c ops d : c_dup c = CountOnce -> In d (dels (run_ops c ops)) ->
  In (d_path d) (keys (recs (d_pre d))) /\ trackable (d_path d) = true.
Proof.
  intros O H. pose proof (deletions_justified c ops O) as F. rewrite Forall_forall in F.
  destruct (F d H) as ((_ & _ & _ & _ & I5) & Hp & _). auto.
Qed.

Lemma oldest_first c ops d : c_dup c = CountOnce -> In d (dels (run_ops c ops)) ->
  forall x, In x (keys (recs (d_pre d))) -> pg x = pg (d_path d) -> pk (d_path d) <= pk x.
Proof.
  intros O H. pose proof (deletions_justified c ops O) as F. rewrite Forall_forall in F.
  destruct (F d H) as (_ & _ & Ho & _). auto.
Qed.

Lemma delete_only_if_exceeded c ops d : c_dup c = CountOnce -> In d (dels (run_ops c ops)) ->
  act (d_pre d) = (if has_size c then total (recs (d_pre d)) else act (d_pre d)) /\
  ((d_why d = 1 /\ exists n, c_count c = Some n /\ group_count (d_pre d) (pg (d_path d)) > n) \/
   (d_why d = 2 /\ exists n, c_dur c = Some n /\
      exists y, In y (keys (recs (d_pre d))) /\ pg y = pg (d_path d) /\ pk y - pk (d_path d) > n) \/
   (d_why d = 3 /\ exists n, c_size c = Some n /\ total (recs (d_pre d)) > n)).
Proof.
  intros O H. pose proof (deletions_justified c ops O) as F. rewrite Forall_forall in F.
  destruct (F d H) as ((_ & _ & _ & I4 & _) & _ & _ & R). split; auto.
  destruct (has_size c); auto.
Qed.

Lemma files_leave_only_by_logged_deletion c ops o : c_dup c = CountOnce ->
  exists nd, dels (run_ops c (ops ++ [o])) = dels (run_ops c ops) ++ nd /\
    forall x, rget x (disk (run_ops c (ops ++ [o]))) =
              if mem x (map d_path nd) then None else rget x (env_effect o (disk (run_ops c ops))).
Proof.
  intros O. rewrite run_snoc. apply step_disk. apply (run_good c O ops).
Qed.

Lemma mem_false_notin x l : (forall y, In y l -> y <> x) -> mem x l = false.
Proof.
  induction l as [|a r IH]; simpl; auto. intros H. rewrite IH by (intros; apply H; auto).
  assert (a <> x) by (apply H; auto). destruct (path_eqb x a) eqn:E; auto.
  apply path_eqb_eq in E. congruence.
Qed.

Lemma untrackable_never_deleted c ops o x : c_dup c = CountOnce -> trackable x = false ->
  rget x (disk (run_ops c (ops ++ [o]))) = rget x (env_effect o (disk (run_ops c ops))).
Proof.
  intros O Hx. destruct (files_leave_only_by_logged_deletion c ops o O) as (nd & E & F).
  rewrite F. rewrite mem_false_notin; auto. intros y Hy Eq. subst y.
  apply in_map_iff in Hy. destruct Hy as (d & Ed & Hd).
  assert (In d (dels (run_ops c (ops ++ [o])))) by (rewrite E; apply in_or_app; auto).
  destruct (deletes_only_tracked c _ d O H) as [_ T]. rewrite Ed in T. congruence.
Qed.

Lemma no_exception c G M ops : CfgOk c G M -> Forall (OpOk G M) ops -> err (run_ops c ops) = false.
Proof. intros OK F. destruct (run_safe c G M OK ops F) as (_ & _ & _ & _ & E & _). exact E. Qed.

Lemma group_limits_always c G M ops : CfgOk c G M -> Forall (OpOk G M) ops -> GL c (h (run_ops c ops)).
Proof. intros OK F. destruct (run_safe c G M OK ops F) as (_ & _ & _ & _ & _ & L). exact L. Qed.

Lemma limits_hold_after_add c G M ops p sz : CfgOk c G M -> Forall (OpOk G M) ops ->
  get_file_record (run_ops c ops) p = Some sz ->
  err (run_ops c (ops ++ [Created p])) = false /\ AllLimits c (h (run_ops c (ops ++ [Created p]))).
Proof.
  intros OK F H. rewrite run_snoc. apply (created_limits c G M OK _ p sz); auto. apply run_safe; auto.
Qed.

(* the defective variant (size counted again for an already queued path) breaks the property:
   three 100-byte files, size limit 350, the newest reported twice *)
Definition wit_cfg : cfg := mkCfg (Some 350) None None CountTwice.
Definition wp (j : Z) : path := mkP 1 (1500000000000 + j * 1000) 0.
Definition wit_ops : list op :=
  [EnvWrite (wp 0) 100; Created (wp 0); EnvWrite (wp 1) 100; Created (wp 1);
   EnvWrite (wp 2) 100; Created (wp 2); Created (wp 2)].
Definition dummy_del : del := mkDel (mkP 0 0 0) 0 0 (mkH [] [] 0).

Lemma count_twice_refuted :
  ~ Inv wit_cfg (h (run_ops wit_cfg wit_ops)) /\
  exists d, In d (dels (run_ops wit_cfg wit_ops)) /\ ~ Justified wit_cfg d /\
            total (recs (d_pre d)) = 300 /\ d_path d = wp 0.
Proof.
  split.
  - intros (_ & _ & _ & I4 & _). specialize (I4 eq_refl). vm_compute in I4. discriminate.
  - exists (hd dummy_del (dels (run_ops wit_cfg wit_ops))). split; [vm_compute; auto|].
    split; [|split; vm_compute; auto].
    intros ((_ & _ & _ & I4 & _) & _). specialize (I4 eq_refl). vm_compute in I4. discriminate.
Qed.

(* the same history on the repaired variant deletes nothing *)
Lemma count_once_witness_keeps_all :
  dels (run_ops (mkCfg (Some 350) None None CountOnce) wit_ops) = [] /\
  act (h (run_ops (mkCfg (Some 350) None None CountOnce) wit_ops)) = 300.
Proof. split; vm_compute; auto. Qed.

(* ------------------------------------------------------------------ the hypotheses are satisfiable *)
Definition ex_cfg : cfg := mkCfg (Some 600) (Some 2) (Some 2000) CountOnce.
Definition ep (g j : Z) : path := mkP g (1500000000000 + j * 1000) 0.
Definition ex_ops : list op :=
  [EnvWrite (mkP (-1) 0 1) 40;
   EnvWrite (ep 1 0) 100; Created (ep 1 0); EnvWrite (ep 1 1) 100; Created (ep 1 1);
   EnvWrite (ep 1 2) 100; Created (ep 1 2);                      (* count: deletes (1,0) *)
   EnvWrite (ep 1 5) 100; Created (ep 1 5);                      (* count: (1,1); duration: (1,2) *)
   EnvWrite (ep 2 0) 250; Created (ep 2 0); EnvWrite (ep 2 1) 250; Created (ep 2 1);
   EnvWrite (ep 1 6) 250; Created (ep 1 6);                      (* size: deletes (2,0) *)
   Created (ep 1 6); Rescan [ep 1 5; ep 1 6; ep 2 1]; Created (mkP (-1) 0 1)].

Example ex_cfg_ok : CfgOk ex_cfg [1; 2] 250.
Proof.
  unfold CfgOk, ex_cfg; simpl. split; auto. split; [lia|].
  split; [intros n H; inversion H; lia|]. split; [intros n H; inversion H; lia|].
  intros n H; inversion H; lia.
Qed.
Example ex_ops_ok : Forall (OpOk [1; 2] 250) ex_ops.
Proof. repeat constructor; simpl; intros; try discriminate; auto; lia. Qed.
Example ex_run :
  map (fun d => (pk (d_path d) - 1500000000000, pg (d_path d), d_why d)) (dels (run_ops ex_cfg ex_ops))
    = [(0, 1, 1); (1000, 1, 1); (2000, 1, 2); (0, 2, 3)] /\
  act (h (run_ops ex_cfg ex_ops)) = 600 /\ err (run_ops ex_cfg ex_ops) = false /\
  rget (mkP (-1) 0 1) (disk (run_ops ex_cfg ex_ops)) = Some 40.
Proof. vm_compute. auto. Qed.
Example ex_reported : get_file_record (run_ops ex_cfg ex_ops) (ep 2 1) = Some 250.
Proof. vm_compute. auto. Qed.

(* without the size hypothesis the implementation raises (IndexError on an empty deque) *)
Example ex_size_hypothesis_needed :
  err (run_ops (mkCfg (Some 100) None None CountOnce)
        [EnvWrite (ep 2 0) 50; Created (ep 2 0); EnvWrite (ep 2 0) 250; Modified (ep 2 0);
         EnvWrite (ep 1 0) 50; Created (ep 1 0)]) = true.
Proof. vm_compute. auto. Qed.

(* ------------------------------------------------------------------ only reported paths are ever tracked or deleted *)
Definition Reach (P : path -> Prop) (s s' : st) : Prop :=
  (forall x, In x (keys (recs (h s'))) -> In x (keys (recs (h s))) \/ P x) /\
  exists nd, dels s' = dels s ++ nd /\
             forall d, In d nd -> In (d_path d) (keys (recs (h s))) \/ P (d_path d).

Lemma reach_sub P s s' : (forall x, In x (keys (recs (h s'))) -> In x (keys (recs (h s))) \/ P x) ->
  dels s' = dels s -> Reach P s s'.
Proof. intros A B. split; auto. exists []. rewrite app_nil_r. split; auto. intros d []. Qed.
Lemma reach_same P s s' : recs (h s') = recs (h s) -> dels s' = dels s -> Reach P s s'.
Proof. intros A B. apply reach_sub; auto. rewrite A. auto. Qed.
Lemma reach_trans P a b d : Reach P a b -> Reach P b d -> Reach P a d.
Proof.
  intros (A1 & n1 & E1 & F1) (A2 & n2 & E2 & F2). split.
  - intros x Hx. destruct (A2 x Hx); auto.
  - exists (n1 ++ n2). split; [rewrite E2, E1, app_assoc; auto|].
    intros x Hx. apply in_app_or in Hx. destruct Hx as [Hx|Hx]; auto.
    destruct (F2 x Hx); auto.
Qed.
Lemma reach_weaken (P Q : path -> Prop) s s' : (forall x, P x -> Q x) -> Reach P s s' -> Reach Q s s'.
Proof.
  intros W (A & nd & E & F). split.
  - intros x Hx. destruct (A x Hx); auto.
  - exists nd. split; auto. intros d Hd. destruct (F d Hd); auto.
Qed.
Lemma keys_rdel_sub p x l : In x (keys (rdel p l)) -> In x (keys l).
Proof.
  induction l as [|[y s0] r IH]; simpl; auto. peq p y; simpl; auto. intros [A|A]; auto.
Qed.
Lemma keys_rset_sub p s x l : In x (keys (rset p s l)) -> x = p \/ In x (keys l).
Proof.
  induction l as [|[y s0] r IH]; simpl; [intros [A|[]]; auto|]. peq p y; simpl.
  - intros [A|A]; auto.
  - intros [A|A]; auto. destruct (IH A); auto.
Qed.

Section Reported.
Variable c : cfg.

Lemma remove_from_queue_recs hs p sz h2 : remove_from_queue c hs p sz = Some h2 -> recs h2 = recs hs.
Proof.
  unfold remove_from_queue. destruct (q_remove p (qget (pg p) (qs hs))); [|discriminate].
  intros H; inversion H; auto.
Qed.
Lemma add_to_queue_recs hs p sz : recs (add_to_queue c hs p sz) = recs hs.
Proof. unfold add_to_queue. destruct (q_insert p (qget (pg p) (qs hs))); auto. Qed.

Lemma eofg_reach P s g why gf : Reach P s (expire_oldest_from_group c s g why gf).
Proof.
  unfold expire_oldest_from_group. destruct (qget g (qs (h s))) as [|p r]; [apply reach_same; auto|].
  destruct (rget p (recs (h s))) as [sz|] eqn:Hr; [|apply reach_same; auto].
  destruct (remove_from_queue c _ p sz) as [h2|] eqn:Hq; [|apply reach_same; auto].
  apply remove_from_queue_recs in Hq. simpl in Hq. split; simpl.
  - rewrite Hq. intros x Hx. left. eapply keys_rdel_sub; eauto.
  - exists [mkDel p why gf (h s)]. split; auto. intros d [<-|[]]. simpl. left. eapply rget_Some_In; eauto.
Qed.
Lemma count_loop_reach P cnt fuel : forall s g, Reach P s (count_loop c cnt fuel s g).
Proof.
  induction fuel as [|f IH]; intros s g; simpl.
  - destruct (qlen s g >? cnt); apply reach_same; auto.
  - destruct (err s); [apply reach_same; auto|]. destruct (qlen s g >? cnt); [|apply reach_same; auto].
    eapply reach_trans; [apply eofg_reach | apply IH].
Qed.
Lemma time_loop_reach P dur fuel : forall s g, Reach P s (time_loop c dur fuel s g).
Proof.
  induction fuel as [|f IH]; intros s g; simpl.
  - destruct (_ >? dur); apply reach_same; auto.
  - destruct (err s); [apply reach_same; auto|]. destruct (_ >? dur); [|apply reach_same; auto].
    eapply reach_trans; [apply eofg_reach | apply IH].
Qed.
Lemma size_loop_reach P lim fuel : forall s g, Reach P s (size_loop c lim fuel s g).
Proof.
  induction fuel as [|f IH]; intros s g; simpl.
  - destruct (_ >? lim); apply reach_same; auto.
  - destruct (err s); [apply reach_same; auto|]. destruct (_ >? lim); [|apply reach_same; auto].
    eapply reach_trans; [apply eofg_reach | apply IH].
Qed.
Lemma expire_reach P s g : Reach P s (expire c s g).
Proof.
  unfold expire.
  set (s1 := match c_count c with Some n => _ | None => s end).
  assert (E1 : Reach P s s1) by (subst s1; destruct (c_count c); [apply count_loop_reach | apply reach_same; auto]).
  set (s2 := match c_dur c with Some d => _ | None => s1 end).
  assert (E2 : Reach P s1 s2) by (subst s2; destruct (c_dur c); [apply time_loop_reach | apply reach_same; auto]).
  eapply reach_trans; [exact E1|]. eapply reach_trans; [exact E2|].
  destruct (c_size c); [apply size_loop_reach | apply reach_same; auto].
Qed.
Lemma add_core_reach s p sz : Reach (eq p) s (add_core c s p sz).
Proof.
  unfold add_core. eapply reach_trans; [|apply expire_reach]. apply reach_sub; auto. simpl.
  rewrite add_to_queue_recs. simpl. intros x Hx. apply keys_rset_sub in Hx. destruct Hx; auto.
Qed.
Lemma modify_existing_reach s p sz old : Reach (eq p) s (with_h s (modify_existing c (h s) p sz old)).
Proof.
  apply reach_sub; auto. unfold modify_existing. destruct (has_size c); simpl; auto.
  intros x Hx. apply keys_rset_sub in Hx. destruct Hx; auto.
Qed.
Lemma add_record_reach s p sz : Reach (eq p) s (add_record c s p sz).
Proof.
  unfold add_record. destruct (err s); [apply reach_same; auto|].
  destruct (rget p (recs (h s))); [|apply add_core_reach].
  eapply reach_trans; [apply modify_existing_reach | apply add_core_reach].
Qed.
Lemma modify_record_reach s p sz : Reach (eq p) s (modify_record c s p sz).
Proof.
  unfold modify_record. destruct (err s); [apply reach_same; auto|].
  destruct (rget p (recs (h s))); [apply modify_existing_reach | apply add_core_reach].
Qed.
Lemma remove_record_reach P s p : Reach P s (remove_record c s p).
Proof.
  unfold remove_record. destruct (err s); [apply reach_same; auto|].
  destruct (rget p (recs (h s))) as [sz|]; [|apply reach_same; auto].
  destruct (remove_from_queue c _ p sz) as [h2|] eqn:Hq; [|apply reach_same; auto].
  apply remove_from_queue_recs in Hq. simpl in Hq. apply reach_sub; auto. simpl. rewrite Hq.
  intros x Hx. left. eapply keys_rdel_sub; eauto.
Qed.
Lemma add_recs_reach (Q : path -> Prop) l : forall s, (forall a, In a l -> Q (fst a)) -> Reach Q s (add_recs c s l).
Proof.
  unfold add_recs. induction l as [|a r IH]; intros s H; simpl; [apply reach_same; auto|].
  eapply reach_trans; [|apply IH; intros; apply H; simpl; auto].
  apply (reach_weaken (eq (fst a))); [intros x <-; apply H; simpl; auto | apply add_record_reach].
Qed.
Lemma modify_recs_reach (Q : path -> Prop) l : forall s, (forall a, In a l -> Q (fst a)) -> Reach Q s (modify_recs c s l).
Proof.
  unfold modify_recs. induction l as [|a r IH]; intros s H; simpl; [apply reach_same; auto|].
  eapply reach_trans; [|apply IH; intros; apply H; simpl; auto].
  apply (reach_weaken (eq (fst a))); [intros x <-; apply H; simpl; auto | apply modify_record_reach].
Qed.
Lemma add_lazy_reach (Q : path -> Prop) l : forall s, (forall p, In p l -> Q p) -> Reach Q s (add_lazy c s l).
Proof.
  induction l as [|p r IH]; intros s H; simpl; [apply reach_same; auto|].
  eapply reach_trans; [|apply IH; intros; apply H; simpl; auto].
  destruct (get_file_record s p); [|apply reach_same; auto].
  apply (reach_weaken (eq p)); [intros x <-; apply H; simpl; auto | apply add_record_reach].
Qed.
Lemma modify_lazy_reach (Q : path -> Prop) l : forall s, (forall p, In p l -> Q p) -> Reach Q s (modify_lazy c s l).
Proof.
  induction l as [|p r IH]; intros s H; simpl; [apply reach_same; auto|].
  eapply reach_trans; [|apply IH; intros; apply H; simpl; auto].
  destruct (get_file_record s p); [|apply reach_same; auto].
  apply (reach_weaken (eq p)); [intros x <-; apply H; simpl; auto | apply modify_record_reach].
Qed.
Lemma sorted_records_from s l a : In a (sort_recs (dedup_recs (get_records s l))) -> In (fst a) l.
Proof. intros H. apply (proj1 (sort_recs_In _ _)) in H. apply dedup_recs_In in H. apply get_records_In in H. tauto. Qed.
Lemma add_files_reach (Q : path -> Prop) s l b : (forall p, In p l -> Q p) -> Reach Q s (add_files c s l b).
Proof.
  intros H. unfold add_files. destruct b; [|apply add_lazy_reach; auto].
  apply add_recs_reach. intros a Ha. apply H. eapply sorted_records_from; eauto.
Qed.
Lemma modify_files_reach (Q : path -> Prop) s l b : (forall p, In p l -> Q p) -> Reach Q s (modify_files c s l b).
Proof.
  intros H. unfold modify_files. destruct b; [|apply modify_lazy_reach; auto].
  apply modify_recs_reach. intros a Ha. apply H. eapply sorted_records_from; eauto.
Qed.
Lemma remove_files_reach P l : forall s, Reach P s (remove_files c s l).
Proof.
  unfold remove_files. induction l as [|p r IH]; intros s; simpl; [apply reach_same; auto|].
  eapply reach_trans; [apply remove_record_reach | apply IH].
Qed.

(* the paths an operation reports to the handler (a re-scan reports what it finds on disk) *)
Definition op_paths (s : st) (o : op) : list path :=
  match o with
  | Created p | Modified p => [p]
  | Deleted _ | RemoveFiles _ | EnvWrite _ _ | EnvRemove _ => []
  | Moved _ q => [q]
  | AddFiles l _ | ModifyFiles l _ => l
  | Rescan l => l ++ keys (disk s)
  end.

Lemma step_reach s o : Reach (fun x => In x (op_paths s o)) s (step c s o).
Proof.
  destruct o; cbn [step op_paths].
  - apply add_files_reach; auto.
  - apply modify_files_reach; auto.
  - apply remove_files_reach.
  - eapply reach_trans; [apply remove_files_reach | apply add_files_reach; auto].
  - apply add_files_reach; auto.
  - apply modify_files_reach; auto.
  - apply remove_files_reach.
  - unfold rescan. eapply reach_trans; [apply remove_files_reach|].
    eapply reach_trans; [apply add_files_reach | apply modify_files_reach].
    + intros p Hp. apply filter_In in Hp. destruct Hp as [Hp _]. apply filter_In in Hp.
      apply in_or_app. right. tauto.
    + intros p Hp. apply filter_In in Hp. apply in_or_app. tauto.
  - apply reach_same; auto.
  - apply reach_same; auto.
Qed.

Fixpoint reported_from (s : st) (ops : list op) (x : path) : Prop :=
  match ops with
  | [] => False
  | o :: r => In x (op_paths s o) \/ reported_from (step c s o) r x
  end.

Lemma run_reach ops : forall s, Reach (reported_from s ops) s (fold_left (step c) ops s).
Proof.
  induction ops as [|o r IH]; intros s; simpl; [apply reach_same; auto|].
  eapply reach_trans.
  - apply (reach_weaken (fun x => In x (op_paths s o))); [intros x Hx; left; exact Hx | apply step_reach].
  - apply (reach_weaken (reported_from (step c s o) r)); [intros x Hx; right; exact Hx | apply IH].
Qed.

Lemma deletes_only_reported ops d : In d (dels (run_ops c ops)) -> reported_from init ops (d_path d).
Proof.
  intros H. destruct (run_reach ops init) as (_ & nd & E & F). unfold run_ops in H. rewrite E in H.
  simpl in H. destruct (F d H) as [[]|R]; auto.
Qed.
End Reported.

(* count limit n >= 1: a file deleted for the count leaves a tracked file of the same channel that is
   at least as new (with count = 1: the newest file of a channel is never deleted) *)
Lemma count_keeps_newer c ops d : c_dup c = CountOnce -> (forall n, c_count c = Some n -> 1 <= n) ->
  In d (dels (run_ops c ops)) -> d_why d = 1 ->
  exists x, In x (keys (recs (d_pre d))) /\ x <> d_path d /\ pg x = pg (d_path d) /\ pk (d_path d) <= pk x.
Proof.
  intros O Hc H W. pose proof (deletions_justified c ops O) as F. rewrite Forall_forall in F.
  destruct (F d H) as ((I1 & _) & Hp & Ho & R).
  destruct R as [(_ & n & Hn & Gc)|[(W2 & _)|(W3 & _)]]; [|lia|lia].
  specialize (Hc n Hn). unfold group_count in Gc.
  set (l := filter (fun x => pg x =? pg (d_path d)) (keys (recs (d_pre d)))) in *.
  assert (N : NoDup l) by (apply NoDup_filter; auto).
  assert (exists x, In x l /\ x <> d_path d) as (x & Hx & Ne).
  { destruct l as [|a [|b l']]; simpl in Gc; try lia.
    inversion N; subst. destruct (path_eq_dec a (d_path d)) as [->|Na].
    - exists b. split; [simpl; auto|]. intros ->. apply H2. simpl; auto.
    - exists a. split; [simpl; auto | auto]. }
  subst l. apply filter_In in Hx. destruct Hx as [Hx Hg]. apply Z.eqb_eq in Hg.
  exists x. repeat split; auto.
Qed.
