(* Proofs/ProtoReader.v -- full statements of the reader-side clauses of C02 / C09 on traces accepted
   by the publication protocol, their refutation for in-place creation of the properties file,
   schedules of reader probes, and concrete (non-vacuity) examples. *)
From Coq Require Import ZArith List Bool Lia String.
From DRF Require Import Base.Fs Model.WriterProto Proofs.ProtoSafety Proofs.WriterProtoProofs.
Import ListNotations.
Local Open Scope Z_scope.

(* ---------------------------------------------------------------- full statements, per variant *)
(* "whatever was in progress is confined to a tmp.-prefixed file" *)
Definition confined_full (pv : props_publication) : Prop :=
  forall t i p b, accepted pv t -> crash_state t i empty_fs p = Some (File (Partial b)) ->
                  is_tmp_name (basename p) = true.

(* "a reader opened on the tree after the kill succeeds": the channel opens whenever it exists *)
Definition opens_full (pv : props_publication) : Prop :=
  forall t i n, accepted pv t -> crash_state t i empty_fs (PProps false) = Some n ->
                open_channel (crash_state t i empty_fs) = true.

Lemma confined_staged : confined_full Staged.
Proof. intros t i p b A H. eapply in_progress_confined_staged; eauto. Qed.

Lemma opens_staged : opens_full Staged.
Proof. intros t i n A H. eapply channel_opens_staged; eauto. Qed.

(* in-place creation: the state after the O_CREAT of drf_properties.h5 *)
Definition direct_witness : list op := [Probe (PProps false); CreateExcl (PProps false)].

Lemma confined_direct_refuted : ~ confined_full Direct.
Proof.
  intros H.
  assert (A : accepted Direct direct_witness) by (eexists; reflexivity).
  specialize (H direct_witness 2%nat (PProps false) false A eq_refl). discriminate H.
Qed.

Lemma opens_direct_refuted : ~ opens_full Direct.
Proof.
  intros H.
  assert (A : accepted Direct direct_witness) by (eexists; reflexivity).
  specialize (H direct_witness 2%nat _ A eq_refl). discriminate H.
Qed.

(* the guard under which the clauses hold for in-place creation: the properties file is whole *)
Lemma opens_direct_partial t i :
  accepted Direct t -> open_channel (crash_state t i empty_fs) = true ->
  forall p b, crash_state t i empty_fs p = Some (File (Partial b)) -> is_tmp_name (basename p) = true.
Proof.
  intros A Ho p b Hp. eapply in_progress_confined_direct; eauto.
  intros ->. unfold open_channel, probe in Ho. rewrite Hp in Ho. discriminate.
Qed.

(* ---------------------------------------------------------------- listings and probes ignore tmp names *)
Lemma tmp_ignored s p :
  (listed s p = true -> is_tmp_name (basename p) = false /\ is_tmp_path p = false) /\
  (is_file_path p = true -> is_tmp_path p = true -> listed s p = false).
Proof.
  split.
  - intros H. split; [|eapply listed_not_tmp; eauto].
    unfold listed in H. apply andb_prop in H as [_ H]. now apply negb_true_iff in H.
  - intros Hf Ht. unfold listed. rewrite is_tmp_name_basename, Ht by auto. apply andb_false_r.
Qed.

(* ---------------------------------------------------------------- monotone visibility *)
Lemma fs_monotone pv t i j d k c :
  accepted pv t -> (i <= j)%nat ->
  crash_state t i empty_fs (PData d false k) = Some (File c) ->
  crash_state t j empty_fs (PData d false k) = Some (File c).
Proof. intros A Hij H. eapply final_names_complete; eauto. Qed.

Lemma crash_state_beyond t i s : (List.length t <= i)%nat -> crash_state t i s = state_after t s.
Proof. intros H. unfold crash_state. now rewrite firstn_all2. Qed.

(* a reader query under a schedule: candidate (d, k) is probed on the state after tau operations *)
Fixpoint read_sched (t : list op) (sched : list (nat * (Z * Z))) : option (list (Z * Z)) :=
  match sched with
  | [] => Some []
  | (tau, (d, k)) :: r =>
      match probe (crash_state t tau empty_fs) (PData d false k), read_sched t r with
      | Garbage, _ => None
      | _, None => None
      | Absent, Some l => Some l
      | Sees tg, Some l => Some ((k, tg) :: l)
      end
  end.

(* under ANY schedule the query does not fail and returns exactly, for each candidate, the image
   finalized at the time of its probe -- which is the image the file has for ever after *)
Lemma reader_sees_only_written pv t sched :
  accepted pv t ->
  exists l, read_sched t sched = Some l /\
    forall k tg, In (k, tg) l <->
      exists tau d, In (tau, (d, k)) sched /\
                    crash_state t tau empty_fs (PData d false k) = Some (File (Complete tg)).
Proof.
  intros A. induction sched as [|[tau [d k]] r (l & Hl & Hin)]; simpl.
  - exists []. split; auto. intros; split; [intros [] | intros (? & ? & [] & _)].
  - destruct A as [[ps' s'] H].
    destruct (prefix_inv _ _ _ _ tau H) as (psi & _ & [(F1 & _) _] & _).
    unfold probe. destruct (crash_state t tau empty_fs (PData d false k)) as [n|] eqn:E.
    + destruct (F1 _ _ _ E) as [tg ->]. rewrite Hl. exists ((k, tg) :: l). split; auto.
      intros k' tg'. simpl. rewrite Hin. split.
      * intros [Heq | (tau' & d' & Hd & Hs)]; [inversion Heq; subst; eauto | eauto].
      * intros (tau' & d' & [Heq | Hd] & Hs); [inversion Heq; subst; left; congruence | eauto].
    + rewrite Hl. exists l. split; auto. intros k' tg'. rewrite Hin. split.
      * intros (tau' & d' & Hd & Hs); eauto.
      * intros (tau' & d' & [Heq | Hd] & Hs); [inversion Heq; subst; congruence | eauto].
Qed.

(* what the query returns is what the recording finally holds (never a value that was not written) *)
Lemma reader_value_final pv t tau d k tg :
  accepted pv t -> crash_state t tau empty_fs (PData d false k) = Some (File (Complete tg)) ->
  state_after t empty_fs (PData d false k) = Some (File (Complete tg)).
Proof.
  intros A H. rewrite <- (crash_state_beyond t (Nat.max tau (List.length t)) empty_fs (Nat.le_max_r _ _)).
  eapply (fs_monotone pv t tau); [exact A | apply Nat.le_max_l | exact H].
Qed.

(* every candidate finalized when the query starts is returned, if probes are not scheduled earlier *)
Lemma reader_sees_all_finalized pv t sched tau0 l tau d k tg :
  accepted pv t -> read_sched t sched = Some l ->
  In (tau, (d, k)) sched -> (tau0 <= tau)%nat ->
  crash_state t tau0 empty_fs (PData d false k) = Some (File (Complete tg)) -> In (k, tg) l.
Proof.
  intros A Hr Hin Hle Hc.
  destruct (reader_sees_only_written pv t sched A) as (l' & Hl' & Hiff).
  rewrite Hr in Hl'. inversion Hl'; subst l'. apply Hiff. exists tau, d. split; auto.
  eapply fs_monotone; eauto.
Qed.

(* a query repeated later returns a superset with equal values *)
Lemma visibility_grows pv t i j cands l1 l2 :
  accepted pv t -> (i <= j)%nat ->
  read_pass (crash_state t i empty_fs) cands = Some l1 ->
  read_pass (crash_state t j empty_fs) cands = Some l2 -> incl l1 l2.
Proof.
  intros A Hij H1 H2 [k tg] Hin.
  destruct (reader_after_kill pv t i cands A) as (l1' & E1 & I1). rewrite H1 in E1. inversion E1; subst l1'.
  destruct (reader_after_kill pv t j cands A) as (l2' & E2 & I2). rewrite H2 in E2. inversion E2; subst l2'.
  apply I1 in Hin as (d & Hd & Hs). apply I2. exists d. split; auto. eapply fs_monotone; eauto.
Qed.

(* once the writer is closed the reader sees every file of an accepted recording *)
Lemma after_close_sees_all v rc cands d k tg :
  forallb (fun b => b) (rs_out (wrun no_fault v rc)) = true ->
  last_tag (all_parts rc) d k = Some tg -> In (d, k) cands ->
  exists l, read_pass (state_after (trace_of v rc) empty_fs) cands = Some l /\ In (k, tg) l.
Proof.
  intros Hall Hl Hin.
  assert (A : accepted (v_props v) (trace_of v rc)) by (eexists; apply writer_obeys).
  destruct (reader_after_kill _ _ (List.length (trace_of v rc)) cands A) as (l & Hr & Hiff).
  rewrite crash_state_all in Hr, Hiff. exists l. split; auto.
  apply Hiff. exists d. split; auto.
  rewrite <- writer_final_state. now apply (writer_publishes v rc).
Qed.

(* after a clean close no tmp file remains *)
Lemma clean_close_no_tmp v rc p :
  is_tmp_path p = true -> state_after (trace_of v rc) empty_fs p = None.
Proof.
  intros Hp. rewrite <- writer_final_state. eapply idle_no_tmp; [apply writer_obeys | exact Hp].
Qed.

(* ---------------------------------------------------------------- examples (non-vacuity) *)
(* two calls over three files, the second file extended by the second call; low-level
   operations as the real writer issues them (call-stack labels of a logged run) *)
Definition ex_close := [LW; LW; LW; LW].
Definition ex_rec : recording :=
  mkRec [LW] [LT; LW; LW]
    [ [ mkPart 1500000000 1500000000000 [(LW, PhCreate)] ex_close 100;
        mkPart 1500000000 1500000001000 [(LW, PhCreate)] ex_close 150 ];
      [ mkPart 1500000000 1500000001000 [] ex_close 200;
        mkPart 1500000002 1500000002000 [(LW, PhCreate); (LW, PhData)] ex_close 280 ] ].
Definition ex_v : variant := mkVar Staged Checked.
Definition ex_t : list op := trace_of ex_v ex_rec.

Example ex_length : List.length ex_t = 39%nat.
Proof. vm_compute. reflexivity. Qed.

Example ex_accepted : proto_ok Staged ex_t = true.
Proof. vm_compute. reflexivity. Qed.

(* a crash point with one finalized file and one file in progress: hypotheses of the theorems hold *)
Example ex_midpoint :
  crash_state ex_t 22 empty_fs (PData 1500000000 false 1500000000000) = Some (File (Complete 100)) /\
  crash_state ex_t 22 empty_fs (PData 1500000000 true 1500000001000) = Some (File (Partial false)) /\
  read_pass (crash_state ex_t 22 empty_fs) [(1500000000, 1500000000000); (1500000000, 1500000001000)]
    = Some [(1500000000000, 100)] /\
  open_channel (crash_state ex_t 22 empty_fs) = true.
Proof. vm_compute. repeat split; reflexivity. Qed.

Example ex_all_accepted : rs_out (wrun no_fault ex_v ex_rec) = [true; true].
Proof. vm_compute. reflexivity. Qed.

Example ex_final :
  read_pass (state_after ex_t empty_fs)
    [(1500000000, 1500000000000); (1500000000, 1500000001000); (1500000002, 1500000002000)]
  = Some [(1500000000000, 100); (1500000001000, 200); (1500000002000, 280)].
Proof. vm_compute. reflexivity. Qed.

(* the names the model prints *)
Example ex_names :
  basename (PData 1500000000 true 1500000001000) = "tmp.rf@1500000001.000.h5"%string /\
  basename (PData 1500000000 false 1500000001400) = "rf@1500000001.400.h5"%string.
Proof. vm_compute. split; reflexivity. Qed.
