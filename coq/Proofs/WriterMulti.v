(* The writer invariant and the refinement to the Spec for calls with SEVERAL blocks
   (rf_write_blocks, digital_rf_write_blocks_hdf5) in chunked mode.  The single-block development is
   Proofs/WriterInv.v; the index calculus is Proofs/WriterMultiIdx.v. *)
From Coq Require Import ZArith List Bool Lia.
From DRF Require Import Base.DivLemmas Model.LayoutSpec Model.IndexCalc Model.WriterCore
  Proofs.LayoutProofs Proofs.WriterBasics Proofs.WriterInv Proofs.WriterMultiIdx.
Import ListNotations.
Local Open Scope Z_scope.

(* ------------------------------------------------------------------ one per-file step, any rows *)

(* The file handling of write_samples_to_file (same open file, or finalize + create), for ANY group of
   rows (K,0) :: R' returned by the index helper.  WriterInv.step_chunked is the instance R' = []. *)
Lemma step_core c st g0 tl vec sw next R' stw :
  vcfg c -> c_chunk c = true -> Inv c st ->
  next = get_global_sample sw ((g0, 0) :: tl) -> 0 <= next -> w_gi st <= next ->
  let K := c_start c + next in
  let F := Fk c K in
  (forall fe, create_rf_data_index (c_start c) (w_gi st) true (c_cont c) sw (whi c F - K) (whi c F - wlo c F)
                ((g0, 0) :: tl) (zlen vec) next fe = Some ((next + c_start c, 0) :: R', stw)) ->
  0 <= sw -> 0 < stw -> sw + stw <= zlen vec ->
  rows_wf ((next + c_start c, 0) :: R') stw (whi c F) ->
  exists st',
    write_samples_to_file c st sw ((g0, 0) :: tl) vec = (Wrote stw, st') /\
    Inv c st' /\ w_gi st' = rows_end (next + c_start c) 0 R' stw - c_start c /\
    (map f_ms (all_files st') = map f_ms (all_files st) \/
     (map f_ms (all_files st') = map f_ms (all_files st) ++ [F] /\
      Forall (fun a => whi c (f_ms a) <= K) (all_files st))) /\
    forall k, lookup_st st' k =
      match lookup_st st k with
      | Some v => Some v
      | None => rows_lookup ((next + c_start c, 0) :: R') (slice vec sw stw) k
      end.
Proof.
  intros Hc Hch HI Hnext Hn0 Hgi K F Hcr Hsw Hstw Hfit HR.
  pose proof (Fk_window c K Hc) as HW. fold F in HW.
  assert (Hnew : zlen (slice vec sw stw) = stw) by (apply slice_length; lia).
  destruct (rows_wf_end _ _ _ _ _ HR) as (HRe & Hle).
  pose proof (wf_first _ _ _ _ _ HRe) as (_ & Hlo).
  set (gc := rows_end (next + c_start c) 0 R' stw) in *.
  destruct HI as [Hnf Hfiles Hopen].
  unfold write_samples_to_file. cbn [Z.eqb negb]. rewrite <- Hnext. fold K.
  change (F_of K (c_n c) (c_d c) (c_fc c)) with F.
  change (file_start (F + c_fc c) (c_n c) (c_d c)) with (whi c F).
  change (file_start F (c_n c) (c_d c)) with (wlo c F).
  set (fe := match w_cur st with Some f => (f =? F) && w_open st | None => false end).
  rewrite Hch. fold (zlen vec). rewrite (Hcr fe).
  destruct fe eqn:Efe; cbn [negb].
  - (* ---- the file is open: extend it *)
    unfold fe in Efe. destruct (w_cur st) as [f|] eqn:Ecur; [|discriminate].
    apply andb_true_iff in Efe as [Ef Eo]. apply Z.eqb_eq in Ef. subst f.
    unfold w_open in Eo. destruct (w_openf st) as [a|] eqn:Eopen; [|discriminate].
    destruct Hopen as (Hcur & Hfwf & Hdi & Hnia).
    assert (Hms : f_ms a = F) by congruence.
    destruct Hfwf as ((g1 & tl1 & Hidx & Hlo1) & Hwf & HK0).
    assert (Hnia0 : (w_nia st =? 0) = false).
    { apply Z.eqb_neq. rewrite Hnia, Hidx. unfold zlen. cbn [length]. lia. }
    rewrite Hnia0. rewrite Hdi.
    change (map (fun r : Z * Z => (fst r, snd r + zlen (f_data a))) ((next + c_start c, 0) :: R'))
      with (shift (zlen (f_data a)) ((next + c_start c, 0) :: R')).
    rewrite cursor_shift. fold gc.
    eexists. split; [reflexivity|]. split; [|split; [|split]].
    + (* invariant *)
      constructor; cbn [w_failed w_files w_openf w_cur w_di w_nia w_gi].
      * exact Hnf.
      * eapply Forall_impl; [|exact Hfiles]. intros x (Hx1 & Hx2). split; [|lia].
        eapply FWF_mono; [|exact Hx1]. lia.
      * split; [rewrite Ecur, Hms; reflexivity|]. split; [|split].
        -- repeat split; cbn [f_index f_data f_ms].
           ++ exists g1, (tl1 ++ shift (zlen (f_data a)) ((next + c_start c, 0) :: R')).
              rewrite Hidx. split; [reflexivity|exact Hlo1].
           ++ rewrite zlen_app, Hnew.
              eapply rows_wf_append; [exact Hwf|rewrite Hidx; discriminate| |].
              ** eapply rows_wf_mono; [|exact HRe]. rewrite Hms. lia.
              ** lia.
           ++ exact HK0.
        -- cbn [f_data]. rewrite zlen_app, Hnew. reflexivity.
        -- cbn [f_index]. rewrite zlen_app, Hnia. unfold zlen, shift. rewrite map_length. reflexivity.
    + cbn [w_gi]. reflexivity.
    + left. unfold all_files. cbn [w_files w_openf]. rewrite Eopen. rewrite !map_app. reflexivity.
    + (* lookup *)
      intros k. unfold lookup_st, all_files. cbn [w_files w_openf]. rewrite Eopen.
      rewrite !files_lookup_app. destruct (files_lookup (w_files st) k) as [v|]; [reflexivity|].
      unfold file_lookup. cbn [f_index f_data].
      apply (rows_lookup_append (f_index a) (f_data a) R' (slice vec sw stw) (next + c_start c) k _ gc Hwf).
      * rewrite Hidx. discriminate.
      * rewrite Hnew. exact HRe.
      * lia.
  - (* ---- another file: finalize the open one (if any) and create F *)
    assert (Hfin : Forall (fun a => FWF c (c_start c + w_gi st) a /\ whi c (f_ms a) <= K) (finalize st)).
    { unfold finalize. destruct (w_openf st) as [a|] eqn:Eopen.
      - rewrite Hnf. apply Forall_app. split.
        + eapply Forall_impl; [|exact Hfiles]. intros x (Hx1 & Hx2). split; [exact Hx1|unfold K; lia].
        + constructor; [|constructor]. destruct Hopen as (Hcur & Hfwf & _).
          split; [exact Hfwf|]. change (f_ms (set_final a)) with (f_ms a).
          apply (FWF_below c (c_start c + w_gi st) a K Hc Hfwf); [unfold K; lia|].
          unfold fe in Efe. rewrite Hcur in Efe. unfold w_open in Efe. rewrite Eopen in Efe.
          rewrite andb_true_r in Efe. apply Z.eqb_neq in Efe. exact Efe.
      - eapply Forall_impl; [|exact Hfiles]. intros x (Hx1 & Hx2). split; [exact Hx1|unfold K; lia]. }
    assert (Hnofinal : has_final F (finalize st) = false).
    { apply has_final_false. eapply Forall_impl; [|exact Hfin]. intros x (_ & Hx) E. rewrite E in Hx. lia. }
    rewrite Hnofinal.
    cbn [w_di w_nia w_gi w_cur w_seq w_failed w_files f_ms f_index f_data f_cap f_seq Z.eqb app].
    rewrite cursor_noshift. fold gc.
    eexists. split; [reflexivity|]. split; [|split; [|split]].
    + constructor; cbn [w_failed w_files w_openf w_cur w_di w_nia w_gi].
      * exact Hnf.
      * eapply Forall_impl; [|exact Hfin]. intros x (Hx1 & Hx2). split; [|unfold K in *; lia].
        eapply FWF_mono; [|exact Hx1]. lia.
      * split; [reflexivity|]. split; [|split].
        -- split; [|split]; cbn [f_index f_data f_ms app].
           ++ exists (next + c_start c), R'. split; [reflexivity|unfold K in *; lia].
           ++ rewrite Hnew. eapply rows_wf_mono; [|exact HRe]. lia.
           ++ exists K. split; [unfold K; destruct Hc as (_ & _ & _ & Hs0); lia|reflexivity].
        -- cbn [f_data app]. rewrite Hnew. lia.
        -- cbn [f_index app]. unfold zlen. cbn [length]. lia.
    + cbn [w_gi]. reflexivity.
    + right.
      assert (Hms : map f_ms (finalize st) = map f_ms (all_files st) /\ Forall (fun a => whi c (f_ms a) <= K) (all_files st)).
      { unfold finalize, all_files in *. destruct (w_openf st) as [a|].
        - rewrite Hnf in *. rewrite !map_app. cbn [map set_final f_ms]. split; [reflexivity|].
          apply Forall_app in Hfin as [H1 H2]. apply Forall_app. split.
          + eapply Forall_impl; [|exact H1]. intros x (_ & Hx). exact Hx.
          + inversion H2 as [|? ? (_ & Hx) _]; subst. constructor; [exact Hx|constructor].
        - rewrite app_nil_r. split; [reflexivity|]. eapply Forall_impl; [|exact Hfin]. intros x (_ & Hx). exact Hx. }
      destruct Hms as (Hms1 & Hms2). split; [|exact Hms2].
      unfold all_files at 1. cbn [w_files w_openf]. rewrite map_app, Hms1. reflexivity.
    + intros k. unfold lookup_st, all_files. cbn [w_files w_openf].
      rewrite files_lookup_app.
      assert (Hold : files_lookup (finalize st) k = files_lookup (w_files st ++ match w_openf st with Some a => [a] | None => [] end) k).
      { unfold finalize. destruct (w_openf st) as [a|]; [|rewrite app_nil_r; reflexivity].
        rewrite Hnf. rewrite !files_lookup_app. reflexivity. }
      rewrite Hold. clear Hold.
      destruct (files_lookup (w_files st ++ match w_openf st with Some a => [a] | None => [] end) k) as [v|]; reflexivity.
Qed.

(* ------------------------------------------------------------------ one per-file step of a multi-block call *)

(* The step writes exactly the part of the call that falls into the file window [next, last):
   next = the call's sample at data index sw, last = the end of next's file (relative to c_start),
   T = the data index of the first call sample at or beyond last. *)
Lemma step_blocks c st g0 tl vec sw top next last T :
  vcfg c -> c_chunk c = true -> Inv c st ->
  rows_wf ((g0, 0) :: tl) (zlen vec) top -> 0 <= g0 -> 0 <= sw < zlen vec ->
  next = get_global_sample sw ((g0, 0) :: tl) ->
  last = whi c (Fk c (c_start c + next)) - c_start c ->
  T = topidx last g0 0 tl (zlen vec) ->
  w_gi st <= next ->
  exists st',
    write_samples_to_file c st sw ((g0, 0) :: tl) vec = (Wrote (T - sw), st') /\
    sw < T <= zlen vec /\ Inv c st' /\ next < w_gi st' <= last /\
    (T = zlen vec -> w_gi st' = rows_end g0 0 tl (zlen vec)) /\
    (T < zlen vec -> last <= get_global_sample T ((g0, 0) :: tl) /\
       forall r, last <= r < get_global_sample T ((g0, 0) :: tl) -> rows_lookup ((g0, 0) :: tl) vec r = None) /\
    (T = zlen vec -> forall r, last <= r -> rows_lookup ((g0, 0) :: tl) vec r = None) /\
    (map f_ms (all_files st') = map f_ms (all_files st) \/
     (map f_ms (all_files st') = map f_ms (all_files st) ++ [Fk c (c_start c + next)] /\
      Forall (fun a => whi c (f_ms a) <= c_start c + next) (all_files st))) /\
    forall k, lookup_st st' k =
      match lookup_st st k with
      | Some v => Some v
      | None => if (next <=? k - c_start c) && (k - c_start c <? last)
                then rows_lookup ((g0, 0) :: tl) vec (k - c_start c) else None
      end.
Proof.
  intros Hc Hch HI Hwf Hg0 Hsw Hnext Hlast HT Hgi.
  set (K := c_start c + next) in *. set (F := Fk c K) in *.
  pose proof (Fk_window c K Hc) as HW. fold F in HW.
  destruct (step_index (c_start c) sw vec g0 tl top (whi c F - K) next last T Hwf Hsw ltac:(lia) Hnext
              ltac:(unfold K in *; lia) HT) as (X0 & X1 & X2 & X3 & X4 & X5).
  set (R' := map (tr (c_start c) sw) (keep last (post sw tl))) in *.
  replace (c_start c + last) with (whi c F) in X2 by lia.
  assert (Hcr : forall fe, create_rf_data_index (c_start c) (w_gi st) true (c_cont c) sw (whi c F - K)
                  (whi c F - wlo c F) ((g0, 0) :: tl) (zlen vec) next fe
                = Some ((next + c_start c, 0) :: R', T - sw)).
  { intros fe.
    assert (Hg : ((sw =? 0) && (g0 <? w_gi st)) = false).
    { destruct (Z.eqb_spec sw 0) as [E0|_]; [|reflexivity]. cbn [andb]. apply Z.ltb_ge.
      assert (next = g0); [|lia]. rewrite Hnext, E0. cbn [get_global_sample].
      rewrite (ggs_loop_stop (zlen vec) top 0 tl g0 0 _ Hwf) by lia. lia. }
    pose proof (crdi_blocks (c_start c) (w_gi st) (c_cont c) sw (whi c F - K) (whi c F - wlo c F) g0 tl
                  (zlen vec) fe top Hwf Hsw ltac:(lia) Hg) as H.
    cbv zeta in H. rewrite <- Hnext in H. unfold Rof in H.
    replace (next + (whi c F - K)) with last in H by (unfold K in *; lia).
    rewrite <- HT in H. exact H. }
  destruct (rows_wf_end _ _ _ _ _ X2) as (HRe & Hle).
  pose proof (wf_first _ _ _ _ _ HRe) as (_ & Hlo).
  destruct (step_core c st g0 tl vec sw next R' (T - sw) Hc Hch HI Hnext ltac:(lia) Hgi Hcr
              ltac:(lia) ltac:(lia) ltac:(lia) X2) as (st' & S1 & S2 & S3 & S4 & S5).
  exists st'. split; [exact S1|]. split; [lia|]. split; [exact S2|]. split; [lia|].
  split; [|split; [exact X4|split; [|split; [exact S4|]]]].
  - intros Heq. destruct (X5 Heq) as (_ & X6). lia.
  - intros Heq. exact (proj1 (X5 Heq)).
  - intros k. rewrite S5. destruct (lookup_st st k); [reflexivity|].
    specialize (X3 (k - c_start c)). replace (c_start c + (k - c_start c)) with k in X3 by lia. exact X3.
Qed.

(* ------------------------------------------------------------------ the per-file loop *)

Definition in_new_b (c : cfg) (bl : list (Z * Z)) (vec : list Z) (sw k : Z) : option Z :=
  if sw <? zlen vec then
    (if get_global_sample sw bl <=? k - c_start c then rows_lookup bl vec (k - c_start c) else None)
  else None.

Lemma all_files_Fk c st : Inv c st ->
  Forall (fun a => exists K0, 0 <= K0 /\ f_ms a = Fk c K0) (all_files st).
Proof.
  intros [_ Hf Ho]. unfold all_files. apply Forall_app. split.
  - eapply Forall_impl; [|exact Hf]. intros a ((_ & _ & H) & _). exact H.
  - destruct (w_openf st) as [a|]; [|constructor]. constructor; [|constructor].
    destruct Ho as (_ & (_ & _ & H) & _). exact H.
Qed.

Lemma loop_blocks c g0 tl vec top :
  vcfg c -> c_chunk c = true -> 0 <= g0 -> rows_wf ((g0, 0) :: tl) (zlen vec) top ->
  forall fuel st sw, Inv c st -> 0 <= sw <= zlen vec ->
  (sw < zlen vec -> w_gi st <= get_global_sample sw ((g0, 0) :: tl)) ->
  zlen vec - sw < Z.of_nat fuel ->
  exists st',
    write_loop fuel c st sw ((g0, 0) :: tl) vec = (0, st') /\ Inv c st' /\
    (sw < zlen vec -> w_gi st' = rows_end g0 0 tl (zlen vec)) /\ (sw = zlen vec -> st' = st) /\
    (ms_incr (map f_ms (all_files st)) -> ms_incr (map f_ms (all_files st'))) /\
    forall k, lookup_st st' k =
      match lookup_st st k with Some v => Some v | None => in_new_b c ((g0, 0) :: tl) vec sw k end.
Proof.
  intros Hc Hch Hg0 Hwf. set (bl := (g0, 0) :: tl) in *.
  induction fuel as [|fuel IH]; intros st sw HI Hsw Hgi Hfuel.
  - cbn in Hfuel. lia.
  - cbn [write_loop]. fold (zlen vec).
    destruct (sw <? zlen vec) eqn:El.
    + apply Z.ltb_lt in El.
      set (next := get_global_sample sw bl) in *.
      set (last := whi c (Fk c (c_start c + next)) - c_start c).
      set (T := topidx last g0 0 tl (zlen vec)).
      destruct (step_blocks c st g0 tl vec sw top next last T Hc Hch HI Hwf Hg0 ltac:(lia)
                  eq_refl eq_refl eq_refl (Hgi El))
        as (st1 & Hstep & HT & HI1 & Hgi1 & Hend & Hgap & Hbey & Hms1 & Hlk1).
      fold bl in Hstep, Hgap, Hbey, Hlk1. rewrite Hstep.
      assert (E0 : (T - sw =? 0) = false) by (apply Z.eqb_neq; lia). rewrite E0.
      replace (sw + (T - sw)) with T by lia.
      destruct (IH st1 T HI1 ltac:(lia) ltac:(intros HT'; destruct (Hgap HT'); lia)
                  ltac:(rewrite Nat2Z.inj_succ in Hfuel; lia))
        as (st2 & Hloop & HI2 & Hgi2 & Hsame & Hso2 & Hlk2).
      exists st2. split; [exact Hloop|]. split; [exact HI2|]. split; [|split; [|split]].
      * intros _. destruct (Z_lt_le_dec T (zlen vec)) as [Hlt|Hge].
        -- apply Hgi2. exact Hlt.
        -- assert (HTe : T = zlen vec) by lia. rewrite (Hsame HTe). apply Hend. exact HTe.
      * intros E. lia.
      * intros Hso. apply Hso2. destruct Hms1 as [E|(E & Hall)]; rewrite E; [exact Hso|].
        apply ms_incr_snoc; [exact Hso|]. apply Forall_map.
        pose proof (all_files_Fk c st HI) as HF.
        clear - Hall HF Hc. induction Hall as [|a l Ha _ IHl]; [constructor|].
        inversion HF as [|? ? (K0 & HK0 & EK0) HF']; subst. constructor; [|apply IHl; exact HF'].
        rewrite EK0 in *. apply Fk_lt_of_below; assumption.
      * intros k. rewrite Hlk2, Hlk1.
        destruct (lookup_st st k) as [v|]; [reflexivity|].
        unfold in_new_b. fold next. set (r := k - c_start c).
        rewrite (proj2 (Z.ltb_lt sw (zlen vec)) El).
        destruct (Z.leb_spec next r) as [Hn|Hn]; destruct (Z.ltb_spec r last) as [Hl|Hl]; cbn [andb].
        -- destruct (rows_lookup bl vec r) eqn:EL; [reflexivity|].
           destruct (Z.ltb_spec T (zlen vec)) as [HTl|HTl]; [|reflexivity].
           destruct (Hgap HTl) as (G1 & _).
           destruct (Z.leb_spec (get_global_sample T bl) r); [lia|reflexivity].
        -- destruct (Z.ltb_spec T (zlen vec)) as [HTl|HTl].
           ++ destruct (Hgap HTl) as (G1 & G2).
              destruct (Z.leb_spec (get_global_sample T bl) r); [reflexivity|].
              symmetry. apply G2. lia.
           ++ symmetry. apply Hbey; lia.
        -- destruct (Z.ltb_spec T (zlen vec)) as [HTl|HTl]; [|reflexivity].
           destruct (Hgap HTl) as (G1 & _).
           destruct (Z.leb_spec (get_global_sample T bl) r); [lia|reflexivity].
        -- lia.
    + apply Z.ltb_ge in El. assert (sw = zlen vec) by lia.
      exists st. split; [reflexivity|]. split; [exact HI|]. split; [lia|]. split; [reflexivity|]. split; [auto|].
      intros k. destruct (lookup_st st k); [reflexivity|].
      unfold in_new_b. rewrite (proj2 (Z.ltb_ge sw (zlen vec)) El). reflexivity.
Qed.

(* ------------------------------------------------------------------ one call *)

(* G_last + (vlen - D_last): one past the call's highest index *)
Definition blocks_end (bl : list (Z * Z)) (vlen : Z) : Z :=
  match bl with
  | [] => 0
  | (g, d) :: tl => rows_end g d tl vlen
  end.

Lemma blocks_end_last bl vlen : bl <> [] ->
  blocks_end bl vlen = fst (last bl (0, 0)) + (vlen - snd (last bl (0, 0))).
Proof.
  destruct bl as [|[g d] tl]; [congruence|]. intros _. cbn [blocks_end].
  revert g d. induction tl as [|[g' d'] tl IH]; intros g d; [reflexivity|].
  cbn [rows_end]. rewrite IH. reflexivity.
Qed.

Definition multi (bl : list (Z * Z)) : bool := match bl with _ :: _ :: _ => true | _ => false end.
Definition first_nonneg (bl : list (Z * Z)) : Prop := match bl with (g, _) :: _ => 0 <= g | [] => True end.

Lemma all_nonneg_first bl : Forall (fun b => 0 <= fst b) bl -> first_nonneg bl.
Proof. destruct bl as [|[g d] tl]; [exact (fun _ => I)|]. intros H. inversion H; subst. assumption. Qed.

(* an accepted call: valid arrays; several blocks only in gapped mode (the C library returns -4 otherwise) *)
Theorem write_blocks_chunked c st bl vec :
  vcfg c -> c_chunk c = true -> Inv c st ->
  valid_arrays (w_gi st) (zlen vec) bl = true -> c_cont c && multi bl = false -> first_nonneg bl ->
  exists st',
    write_blocks c st bl vec = (0, st') /\ Inv c st' /\
    w_gi st' = blocks_end bl (zlen vec) /\
    (ms_incr (map f_ms (all_files st)) -> ms_incr (map f_ms (all_files st'))) /\
    forall k, lookup_st st' k =
      match rows_lookup bl vec (k - c_start c) with
      | Some v => Some v
      | None => lookup_st st k
      end.
Proof.
  intros Hc Hch HI Hv Hm Hnn.
  destruct (valid_arrays_wf _ _ _ Hv) as (g0 & tl & -> & Hge & Hvl & Hwf).
  cbn [first_nonneg] in Hnn. unfold write_blocks. rewrite (inv_nf c st HI).
  assert (Eg : (g0 <? w_gi st) = false) by (apply Z.ltb_ge; lia). rewrite Eg.
  assert (Em : c_cont c && negb match tl with [] => true | _ :: _ => false end = false).
  { destruct tl; [apply andb_false_r|exact Hm]. }
  rewrite Em.
  assert (Hg0 : get_global_sample 0 ((g0, 0) :: tl) = g0).
  { cbn [get_global_sample]. rewrite (ggs_loop_stop (zlen vec) _ 0 tl g0 0 _ Hwf) by lia. lia. }
  destruct (loop_blocks c g0 tl vec _ Hc Hch Hnn Hwf (S (length vec)) st 0 HI ltac:(lia)
              ltac:(intros _; rewrite Hg0; exact Hge) ltac:(unfold zlen; lia))
    as (st' & Hl & HI' & Hgi' & _ & Hso & Hlk).
  exists st'. split; [exact Hl|]. split; [exact HI'|]. split; [exact (Hgi' Hvl)|]. split; [exact Hso|].
  intros k. rewrite Hlk. unfold in_new_b. rewrite Hg0.
  rewrite (proj2 (Z.ltb_lt 0 (zlen vec)) Hvl).
  destruct (lookup_st st k) as [v|] eqn:El.
  - pose proof (lookup_st_bound c st k v HI El).
    rewrite (rows_lookup_below tl g0 0 vec _ (k - c_start c) Hwf) by lia. reflexivity.
  - destruct (Z.leb_spec g0 (k - c_start c)).
    + destruct (rows_lookup ((g0, 0) :: tl) vec (k - c_start c)); reflexivity.
    + rewrite (rows_lookup_below tl g0 0 vec _ (k - c_start c) Hwf) by lia. reflexivity.
Qed.

(* a call that the C library refuses leaves everything unchanged *)
Lemma write_blocks_refused c st bl vec :
  w_failed st = false ->
  valid_arrays (w_gi st) (zlen vec) bl && negb (c_cont c && multi bl) = false ->
  snd (write_blocks c st bl vec) = st.
Proof.
  intros Hnf H. destruct (valid_arrays (w_gi st) (zlen vec) bl) eqn:Hv.
  - cbn [andb] in H. apply negb_false_iff in H.
    destruct (valid_arrays_wf _ _ _ Hv) as (g0 & tl & -> & Hge & Hvl & Hwf).
    unfold write_blocks. rewrite Hnf.
    assert (Eg : (g0 <? w_gi st) = false) by (apply Z.ltb_ge; lia). rewrite Eg.
    apply andb_true_iff in H as [H1 H2]. rewrite H1. destruct tl; [discriminate|]. reflexivity.
  - destruct (c_malformed_call_changes_nothing c st bl vec Hv) as (rc & [(_ & E)|(_ & E)]); rewrite E; reflexivity.
Qed.

(* ------------------------------------------------------------------ histories, Spec *)

Definition accepted (c : cfg) (cur : Z) (bl : list (Z * Z)) (vec : list Z) : bool :=
  valid_arrays cur (zlen vec) bl && negb (c_cont c && multi bl).

(* the Spec of a recording made of block calls: a valid call overrides the map with its own samples
   (the block description with the data is an index: rows_lookup bl vec) and moves the cursor one past
   its highest index; any other call changes nothing *)
Definition spec_step_blocks (c : cfg) (s : spec) (op : list (Z * Z) * list Z) : spec :=
  let '(bl, vec) := op in
  if accepted c (s_cur s) bl vec then
    mkSpec (blocks_end bl (zlen vec))
           (fun k => match rows_lookup bl vec (k - c_start c) with
                     | Some v => Some v
                     | None => s_map s k
                     end)
  else s.

(* in gapped mode the only rejection rule is the validity of the arrays *)
Lemma spec_step_blocks_gapped c s bl vec : c_cont c = false ->
  spec_step_blocks c s (bl, vec) =
  if valid_arrays (s_cur s) (zlen vec) bl then
    mkSpec (blocks_end bl (zlen vec))
           (fun k => match rows_lookup bl vec (k - c_start c) with Some v => Some v | None => s_map s k end)
  else s.
Proof. intros Hg. unfold spec_step_blocks, accepted. rewrite Hg. cbn [andb negb]. rewrite andb_true_r. reflexivity. Qed.

Definition model_step_blocks (c : cfg) (st : wstate) (op : list (Z * Z) * list Z) : wstate :=
  snd (write_blocks c st (fst op) (snd op)).

Lemma refines_step_blocks c st s op : vcfg c -> c_chunk c = true -> first_nonneg (fst op) ->
  refines c st s -> refines c (model_step_blocks c st op) (spec_step_blocks c s op).
Proof.
  intros Hc Hch Hnn (HI & Hgi & Hlk & Hso). destruct op as [bl vec]. cbn [fst snd] in *.
  unfold model_step_blocks, spec_step_blocks. cbn [fst snd].
  destruct (accepted c (s_cur s) bl vec) eqn:Ea.
  - unfold accepted in Ea. apply andb_true_iff in Ea as [Ev Em]. apply negb_true_iff in Em.
    rewrite <- Hgi in Ev.
    destruct (write_blocks_chunked c st bl vec Hc Hch HI Ev Em Hnn) as (st' & Hw & HI' & Hgi' & Hso' & Hlk').
    rewrite Hw. cbn [snd]. split; [exact HI'|]. split; [exact Hgi'|]. split; [|exact (Hso' Hso)].
    intros k. cbn [s_map]. rewrite Hlk', Hlk. reflexivity.
  - unfold accepted in Ea. rewrite <- Hgi in Ea.
    rewrite (write_blocks_refused c st bl vec (inv_nf c st HI) Ea).
    split; [exact HI|]. split; [exact Hgi|]. split; [exact Hlk|exact Hso].
Qed.

Theorem writer_refines_blocks_chunked c ops : vcfg c -> c_chunk c = true ->
  Forall (fun op => first_nonneg (fst op)) ops ->
  refines c (fold_left (model_step_blocks c) ops init_state) (fold_left (spec_step_blocks c) ops spec_init).
Proof.
  intros Hc Hch Hops.
  assert (G : forall st s, refines c st s ->
            refines c (fold_left (model_step_blocks c) ops st) (fold_left (spec_step_blocks c) ops s)).
  { induction Hops as [|op ops Hop _ IH]; intros st s HR; cbn [fold_left]; [exact HR|].
    apply IH. apply refines_step_blocks; assumption. }
  apply G. split; [apply Inv_init|]. split; [reflexivity|]. split; [reflexivity|exact I].
Qed.

(* the same with the hypothesis "every global index of every call is >= 0" *)
Corollary writer_refines_blocks_chunked_all c ops : vcfg c -> c_chunk c = true ->
  Forall (fun op => Forall (fun b => 0 <= fst b) (fst op)) ops ->
  refines c (fold_left (model_step_blocks c) ops init_state) (fold_left (spec_step_blocks c) ops spec_init).
Proof.
  intros Hc Hch Hops. apply writer_refines_blocks_chunked; try assumption.
  eapply Forall_impl; [|exact Hops]. intros op. apply all_nonneg_first.
Qed.

(* return code: 0 exactly for the accepted calls (of a non-empty vector) *)
Lemma write_blocks_rc_chunked c st bl vec : vcfg c -> c_chunk c = true -> Inv c st -> first_nonneg bl ->
  vec <> [] ->
  (fst (write_blocks c st bl vec) = 0 <-> accepted c (w_gi st) bl vec = true).
Proof.
  intros Hc Hch HI Hnn Hne. split.
  - intros Hrc. destruct (accepted c (w_gi st) bl vec) eqn:Ea; [reflexivity|exfalso].
    unfold accepted in Ea. destruct (valid_arrays (w_gi st) (zlen vec) bl) eqn:Hv.
    + cbn [andb] in Ea. apply negb_false_iff in Ea.
      destruct (valid_arrays_wf _ _ _ Hv) as (g0 & tl & -> & Hge & Hvl & Hwf).
      revert Hrc. unfold write_blocks. rewrite (inv_nf c st HI).
      assert (Eg : (g0 <? w_gi st) = false) by (apply Z.ltb_ge; lia). rewrite Eg.
      apply andb_true_iff in Ea as [H1 H2]. rewrite H1. destruct tl; [discriminate|]. cbn. discriminate.
    + destruct (c_malformed_call_changes_nothing c st bl vec Hv) as (rc & [(Hrc0 & E)|(Hv0 & E)]).
      * rewrite E in Hrc. cbn in Hrc. congruence.
      * congruence.
  - intros Ea. unfold accepted in Ea. apply andb_true_iff in Ea as [Ev Em]. apply negb_true_iff in Em.
    destruct (write_blocks_chunked c st bl vec Hc Hch HI Ev Em Hnn) as (st' & Hw & _). rewrite Hw. reflexivity.
Qed.

(* ------------------------------------------------------------------ corollaries *)

(* C06 for every file of every history of block calls *)
Theorem reachable_files_C06_blocks c ops : vcfg c -> c_chunk c = true ->
  Forall (fun op => first_nonneg (fst op)) ops ->
  Forall (C06_file c) (all_files (fold_left (model_step_blocks c) ops init_state)).
Proof.
  intros Hc Hch Hops. destruct (writer_refines_blocks_chunked c ops Hc Hch Hops) as ([_ Hf Ho] & _).
  unfold all_files. apply Forall_app. split.
  - eapply Forall_impl; [|exact Hf]. intros a (H & _). eapply FWF_C06; exact H.
  - destruct (w_openf _) as [a|]; [|constructor]. constructor; [|constructor].
    destruct Ho as (_ & H & _). eapply FWF_C06; exact H.
Qed.

(* rejected calls (invalid arrays) leave the state unchanged -- in the model and in the Spec *)
Theorem rejected_blocks_change_nothing c st s bl vec :
  refines c st s -> valid_arrays (w_gi st) (zlen vec) bl = false ->
  model_step_blocks c st (bl, vec) = st /\ spec_step_blocks c s (bl, vec) = s.
Proof.
  intros (HI & Hgi & _) Hv. split.
  - unfold model_step_blocks. cbn [fst snd].
    destruct (c_malformed_call_changes_nothing c st bl vec Hv) as (rc & [(_ & E)|(_ & E)]); rewrite E; reflexivity.
  - unfold spec_step_blocks, accepted. rewrite <- Hgi, Hv. reflexivity.
Qed.

(* the cursor is one past the highest index, for histories of block calls *)
Theorem cursor_one_past_highest_blocks c ops : vcfg c -> c_chunk c = true ->
  Forall (fun op => first_nonneg (fst op)) ops ->
  let st := fold_left (model_step_blocks c) ops init_state in
  forall k v, lookup_st st k = Some v -> k < c_start c + w_gi st.
Proof.
  intros Hc Hch Hops st k v H. destruct (writer_refines_blocks_chunked c ops Hc Hch Hops) as (HI & _).
  eapply lookup_st_bound; eassumption.
Qed.

(* single-block calls are the instance bl = [(g, 0)] *)
Lemma spec_step_blocks_single c s g vec : vec <> [] ->
  (forall k, s_map (spec_step_blocks c s ([(g, 0)], vec)) k = s_map (spec_step c s (g, vec)) k) /\
  s_cur (spec_step_blocks c s ([(g, 0)], vec)) = s_cur (spec_step c s (g, vec)).
Proof.
  intros Hne.
  assert (Hl : 0 < zlen vec) by (destruct vec; [congruence|unfold zlen; cbn [length]; lia]).
  unfold spec_step_blocks, spec_step, accepted, valid_arrays. cbn [multi bad_blocks Z.eqb andb orb negb].
  rewrite andb_false_r. cbn [negb]. rewrite andb_true_r, orb_false_r, Z.geb_leb.
  destruct (Z.leb_spec (zlen vec) 0); [lia|]. cbn [negb]. rewrite andb_true_r.
  destruct (g <? s_cur s); cbn [negb]; [split; reflexivity|]. cbn [s_map s_cur blocks_end rows_end]. split.
  - intros k. rewrite rl_one, Z.add_0_l.
    replace ((g <=? k - c_start c) && (k - c_start c <? g + (zlen vec - 0)))
      with ((c_start c + g <=? k) && (k <? c_start c + g + zlen vec)).
    + destruct ((c_start c + g <=? k) && (k <? c_start c + g + zlen vec)) eqn:E; [|reflexivity].
      apply andb_true_iff in E as [E1 E2]. apply Z.leb_le in E1. apply Z.ltb_lt in E2.
      destruct (nth_error vec (Z.to_nat (k - c_start c - g))) eqn:En; [reflexivity|].
      exfalso. revert En. apply nth_in_range. lia.
    + destruct (Z.leb_spec (c_start c + g) k), (Z.leb_spec g (k - c_start c)),
        (Z.ltb_spec k (c_start c + g + zlen vec)), (Z.ltb_spec (k - c_start c) (g + (zlen vec - 0)));
        try reflexivity; lia.
  - destruct (Z.eqb_spec (zlen vec) 0); lia.
Qed.

(* ------------------------------------------------------------------ non-vacuity *)

(* 100 Hz, 100 ms files = 10 samples per file.  The first call has three blocks and spans three files
   (one block straddles a file boundary, one starts exactly on one); the second call has invalid arrays
   (data index not increasing) and the third starts before the cursor: both change nothing; the fourth
   continues in the still-open file. *)
Example refinement_blocks_example :
  let c := mkCfg 150000000000 100 1 1 100 false true in
  let ops := [ ([(3, 0); (8, 3); (20, 7)], [1; 2; 3; 4; 5; 6; 7; 8; 9]);
               ([(30, 0); (40, 2); (50, 2)], [60; 61; 62; 63]);
               ([(21, 0)], [70; 71]);
               ([(23, 0); (27, 1)], [80; 81; 82]) ] in
  let st := fold_left (model_step_blocks c) ops init_state in
  let s := fold_left (spec_step_blocks c) ops spec_init in
  vcfg c /\ Forall (fun op => Forall (fun b => 0 <= fst b) (fst op)) ops /\
  w_gi st = 29 /\ s_cur s = 29 /\ length (all_files st) = 3%nat /\
  map (fun a => length (f_index a)) (all_files st) = [2; 1; 3]%nat /\
  lookup_st st 150000000005 = Some 3 /\ lookup_st st 150000000006 = None /\
  lookup_st st 150000000009 = Some 5 /\ lookup_st st 150000000011 = Some 7 /\
  lookup_st st 150000000021 = Some 9 /\ lookup_st st 150000000022 = None /\
  lookup_st st 150000000023 = Some 80 /\ lookup_st st 150000000028 = Some 82 /\
  s_map s 150000000011 = Some 7 /\ s_map s 150000000028 = Some 82 /\ s_map s 150000000030 = None.
Proof.
  vm_compute. repeat split; try reflexivity; try (intro; discriminate).
  repeat constructor; intro; discriminate.
Qed.

(* single-block calls (WriterInv.model_step) are block calls *)
Lemma model_step_blocks_single c st g vec : model_step c st (g, vec) = model_step_blocks c st ([(g, 0)], vec).
Proof. reflexivity. Qed.
