(* The writer invariant and the refinement to the Spec for calls with SEVERAL blocks
   (rf_write_blocks, digital_rf_write_blocks_hdf5) in chunked mode.  The single-block development is
   Proofs/WriterInv.v; the index calculus is Proofs/WriterMultiIdx.v. *)
From Coq Require Import ZArith List Bool Lia.
From DRF Require Import Base.DivLemmas Model.LayoutSpec Model.IndexCalc Model.WriterCore
  Proofs.LayoutProofs Proofs.WriterBasics Proofs.WriterInv Proofs.WriterMultiIdx.
Import ListNotations.
Local Open Scope Z_scope.

(* ------------------------------------------------------------------ one per-file step, any rows *)

(* The file handling of write_samples_to_file (same open file, or finalize + create), for ANY group of
   rows (K,0) :: R' returned by the index helper.  WriterInv.step_chunked is the instance R' = []. *)
Lemma step_core c st g0 tl vec sw next R' stw :
  vcfg c -> c_chunk c = true -> Inv c st ->
  next = get_global_sample sw ((g0, 0) :: tl) -> 0 <= next -> w_gi st <= next ->
  let K := c_start c + next in
  let F := Fk c K in
  (forall fe, create_rf_data_index (c_start c) (w_gi st) true (c_cont c) sw (whi c F - K) (whi c F - wlo c F)
                ((g0, 0) :: tl) (zlen vec) next fe = Some ((next + c_start c, 0) :: R', stw)) ->
  0 <= sw -> 0 < stw -> sw + stw <= zlen vec ->
  rows_wf ((next + c_start c, 0) :: R') stw (whi c F) ->
  exists st',
    write_samples_to_file c st sw ((g0, 0) :: tl) vec = (Wrote stw, st') /\
    Inv c st' /\ w_gi st' = rows_end (next + c_start c) 0 R' stw - c_start c /\
    (map f_ms (all_files st') = map f_ms (all_files st) \/
     (map f_ms (all_files st') = map f_ms (all_files st) ++ [F] /\
      Forall (fun a => whi c (f_ms a) <= K) (all_files st))) /\
    forall k, lookup_st st' k =
      match lookup_st st k with
      | Some v => Some v
      | None => rows_lookup ((next + c_start c, 0) :: R') (slice vec sw stw) k
      end.
Proof.
  intros Hc Hch HI Hnext Hn0 Hgi K F Hcr Hsw Hstw Hfit HR.
  pose proof (Fk_window c K Hc) as HW. fold F in HW.
  assert (Hnew : zlen (slice vec sw stw) = stw) by (apply slice_length; lia).
  destruct (rows_wf_end _ _ _ _ _ HR) as (HRe & Hle).
  pose proof (wf_first _ _ _ _ _ HRe) as (_ & Hlo).
  set (gc := rows_end (next + c_start c) 0 R' stw) in *.
  destruct HI as [Hnf Hfiles Hopen].
  unfold write_samples_to_file. cbn [Z.eqb negb]. rewrite <- Hnext. fold K.
  change (F_of K (c_n c) (c_d c) (c_fc c)) with F.
  change (file_start (F + c_fc c) (c_n c) (c_d c)) with (whi c F).
  change (file_start F (c_n c) (c_d c)) with (wlo c F).
  set (fe := match w_cur st with Some f => (f =? F) && w_open st | None => false end).
  rewrite Hch. fold (zlen vec). rewrite (Hcr fe).
  destruct fe eqn:Efe; cbn [negb].
  - (* ---- the file is open: extend it *)
    unfold fe in Efe. destruct (w_cur st) as [f|] eqn:Ecur; [|discriminate].
    apply andb_true_iff in Efe as [Ef Eo]. apply Z.eqb_eq in Ef. subst f.
    unfold w_open in Eo. destruct (w_openf st) as [a|] eqn:Eopen; [|discriminate].
    destruct Hopen as (Hcur & Hfwf & Hdi & Hnia).
    assert (Hms : f_ms a = F) by congruence.
    destruct Hfwf as ((g1 & tl1 & Hidx & Hlo1) & Hwf & HK0).
    assert (Hnia0 : (w_nia st =? 0) = false).
    { apply Z.eqb_neq. rewrite Hnia, Hidx. unfold zlen. cbn [length]. lia. }
    rewrite Hnia0. rewrite Hdi.
    change (map (fun r : Z * Z => (fst r, snd r + zlen (f_data a))) ((next + c_start c, 0) :: R'))
      with (shift (zlen (f_data a)) ((next + c_start c, 0) :: R')).
    rewrite cursor_shift. fold gc.
    eexists. split; [reflexivity|]. split; [|split; [|split]].
    + (* invariant *)
      constructor; cbn [w_failed w_files w_openf w_cur w_di w_nia w_gi].
      * exact Hnf.
      * eapply Forall_impl; [|exact Hfiles]. intros x (Hx1 & Hx2). split; [|lia].
        eapply FWF_mono; [|exact Hx1]. lia.
      * split; [rewrite Ecur, Hms; reflexivity|]. split; [|split].
        -- repeat split; cbn [f_index f_data f_ms].
           ++ exists g1, (tl1 ++ shift (zlen (f_data a)) ((next + c_start c, 0) :: R')).
              rewrite Hidx. split; [reflexivity|exact Hlo1].
           ++ rewrite zlen_app, Hnew.
              eapply rows_wf_append; [exact Hwf|rewrite Hidx; discriminate| |].
              ** eapply rows_wf_mono; [|exact HRe]. rewrite Hms. lia.
              ** lia.
           ++ exact HK0.
        -- cbn [f_data]. rewrite zlen_app, Hnew. reflexivity.
        -- cbn [f_index]. rewrite zlen_app, Hnia. unfold zlen, shift. rewrite map_length. reflexivity.
    + cbn [w_gi]. reflexivity.
    + left. unfold all_files. cbn [w_files w_openf]. rewrite Eopen. rewrite !map_app. reflexivity.
    + (* lookup *)
      intros k. unfold lookup_st, all_files. cbn [w_files w_openf]. rewrite Eopen.
      rewrite !files_lookup_app. destruct (files_lookup (w_files st) k) as [v|]; [reflexivity|].
      unfold file_lookup. cbn [f_index f_data].
      apply (rows_lookup_append (f_index a) (f_data a) R' (slice vec sw stw) (next + c_start c) k _ gc Hwf).
      * rewrite Hidx. discriminate.
      * rewrite Hnew. exact HRe.
      * lia.
  - (* ---- another file: finalize the open one (if any) and create F *)
    assert (Hfin : Forall (fun a => FWF c (c_start c + w_gi st) a /\ whi c (f_ms a) <= K) (finalize st)).
    { unfold finalize. destruct (w_openf st) as [a|] eqn:Eopen.
      - rewrite Hnf. apply Forall_app. split.
        + eapply Forall_impl; [|exact Hfiles]. intros x (Hx1 & Hx2). split; [exact Hx1|unfold K; lia].
        + constructor; [|constructor]. destruct Hopen as (Hcur & Hfwf & _).
          split; [exact Hfwf|]. change (f_ms (set_final a)) with (f_ms a).
          apply (FWF_below c (c_start c + w_gi st) a K Hc Hfwf); [unfold K; lia|].
          unfold fe in Efe. rewrite Hcur in Efe. unfold w_open in Efe. rewrite Eopen in Efe.
          rewrite andb_true_r in Efe. apply Z.eqb_neq in Efe. exact Efe.
      - eapply Forall_impl; [|exact Hfiles]. intros x (Hx1 & Hx2). split; [exact Hx1|unfold K; lia]. }
    assert (Hnofinal : has_final F (finalize st) = false).
    { apply has_final_false. eapply Forall_impl; [|exact Hfin]. intros x (_ & Hx) E. rewrite E in Hx. lia. }
    rewrite Hnofinal.
    cbn [w_di w_nia w_gi w_cur w_seq w_failed w_files f_ms f_index f_data f_cap f_seq Z.eqb app].
    rewrite cursor_noshift. fold gc.
    eexists. split; [reflexivity|]. split; [|split; [|split]].
    + constructor; cbn [w_failed w_files w_openf w_cur w_di w_nia w_gi].
      * exact Hnf.
      * eapply Forall_impl; [|exact Hfin]. intros x (Hx1 & Hx2). split; [|unfold K in *; lia].
        eapply FWF_mono; [|exact Hx1]. lia.
      * split; [reflexivity|]. split; [|split].
        -- split; [|split]; cbn [f_index f_data f_ms app].
           ++ exists (next + c_start c), R'. split; [reflexivity|unfold K in *; lia].
           ++ rewrite Hnew. eapply rows_wf_mono; [|exact HRe]. lia.
           ++ exists K. split; [unfold K; destruct Hc as (_ & _ & _ & Hs0); lia|reflexivity].
        -- cbn [f_data app]. rewrite Hnew. lia.
        -- cbn [f_index app]. unfold zlen. cbn [length]. lia.
    + cbn [w_gi]. reflexivity.
    + right.
      assert (Hms : map f_ms (finalize st) = map f_ms (all_files st) /\ Forall (fun a => whi c (f_ms a) <= K) (all_files st)).
      { unfold finalize, all_files in *. destruct (w_openf st) as [a|].
        - rewrite Hnf in *. rewrite !map_app. cbn [map set_final f_ms]. split; [reflexivity|].
          apply Forall_app in Hfin as [H1 H2]. apply Forall_app. split.
          + eapply Forall_impl; [|exact H1]. intros x (_ & Hx). exact Hx.
          + inversion H2 as [|? ? (_ & Hx) _]; subst. constructor; [exact Hx|constructor].
        - rewrite app_nil_r. split; [reflexivity|]. eapply Forall_impl; [|exact Hfin]. intros x (_ & Hx). exact Hx. }
      destruct Hms as (Hms1 & Hms2). split; [|exact Hms2].
      unfold all_files at 1. cbn [w_files w_openf]. rewrite map_app, Hms1. reflexivity.
    + intros k. unfold lookup_st, all_files. cbn [w_files w_openf].
      rewrite files_lookup_app.
      assert (Hold : files_lookup (finalize st) k = files_lookup (w_files st ++ match w_openf st with Some a => [a] | None => [] end) k).
      { unfold finalize. destruct (w_openf st) as [a|]; [|rewrite app_nil_r; reflexivity].
        rewrite Hnf. rewrite !files_lookup_app. reflexivity. }
      rewrite Hold. clear Hold.
      destruct (files_lookup (w_files st ++ match w_openf st with Some a => [a] | None => [] end) k) as [v|]; reflexivity.
Qed.

(* ------------------------------------------------------------------ one per-file step of a multi-block call *)

(* The step writes exactly the part of the call that falls into the file window [next, last):
   next = the call's sample at data index sw, last = the end of next's file (relative to c_start),
   T = the data index of the first call sample at or beyond last. *)
Lemma step_blocks c st g0 tl vec sw top next last T :
  vcfg c -> c_chunk c = true -> Inv c st ->
  rows_wf ((g0, 0) :: tl) (zlen vec) top -> 0 <= g0 -> 0 <= sw < zlen vec ->
  next = get_global_sample sw ((g0, 0) :: tl) ->
  last = whi c (Fk c (c_start c + next)) - c_start c ->
  T = topidx last g0 0 tl (zlen vec) ->
  w_gi st <= next ->
  exists st',
    write_samples_to_file c st sw ((g0, 0) :: tl) vec = (Wrote (T - sw), st') /\
    sw < T <= zlen vec /\ Inv c st' /\ next < w_gi st' <= last /\
    (T = zlen vec -> w_gi st' = rows_end g0 0 tl (zlen vec)) /\
    (T < zlen vec -> last <= get_global_sample T ((g0, 0) :: tl) /\
       forall r, last <= r < get_global_sample T ((g0, 0) :: tl) -> rows_lookup ((g0, 0) :: tl) vec r = None) /\
    (T = zlen vec -> forall r, last <= r -> rows_lookup ((g0, 0) :: tl) vec r = None) /\
    (map f_ms (all_files st') = map f_ms (all_files st) \/
     (map f_ms (all_files st') = map f_ms (all_files st) ++ [Fk c (c_start c + next)] /\
      Forall (fun a => whi c (f_ms a) <= c_start c + next) (all_files st))) /\
    forall k, lookup_st st' k =
      match lookup_st st k with
      | Some v => Some v
      | None => if (next <=? k - c_start c) && (k - c_start c <? last)
                then rows_lookup ((g0, 0) :: tl) vec (k - c_start c) else None
      end.
Proof.
  intros Hc Hch HI Hwf Hg0 Hsw Hnext Hlast HT Hgi.
  set (K := c_start c + next) in *. set (F := Fk c K) in *.
  pose proof (Fk_window c K Hc) as HW. fold F in HW.
  destruct (step_index (c_start c) sw vec g0 tl top (whi c F - K) next last T Hwf Hsw ltac:(lia) Hnext
              ltac:(unfold K in *; lia) HT) as (X0 & X1 & X2 & X3 & X4 & X5).
  set (R' := map (tr (c_start c) sw) (keep last (post sw tl))) in *.
  replace (c_start c + last) with (whi c F) in X2 by lia.
  assert (Hcr : forall fe, create_rf_data_index (c_start c) (w_gi st) true (c_cont c) sw (whi c F - K)
                  (whi c F - wlo c F) ((g0, 0) :: tl) (zlen vec) next fe
                = Some ((next + c_start c, 0) :: R', T - sw)).
  { intros fe.
    assert (Hg : ((sw =? 0) && (g0 <? w_gi st)) = false).
    { destruct (Z.eqb_spec sw 0) as [E0|_]; [|reflexivity]. cbn [andb]. apply Z.ltb_ge.
      assert (next = g0); [|lia]. rewrite Hnext, E0. cbn [get_global_sample].
      rewrite (ggs_loop_stop (zlen vec) top 0 tl g0 0 _ Hwf) by lia. lia. }
    pose proof (crdi_blocks (c_start c) (w_gi st) (c_cont c) sw (whi c F - K) (whi c F - wlo c F) g0 tl
                  (zlen vec) fe top Hwf Hsw ltac:(lia) Hg) as H.
    cbv zeta in H. rewrite <- Hnext in H. unfold Rof in H.
    replace (next + (whi c F - K)) with last in H by (unfold K in *; lia).
    rewrite <- HT in H. exact H. }
  destruct (rows_wf_end _ _ _ _ _ X2) as (HRe & Hle).
  pose proof (wf_first _ _ _ _ _ HRe) as (_ & Hlo).
  destruct (step_core c st g0 tl vec sw next R' (T - sw) Hc Hch HI Hnext ltac:(lia) Hgi Hcr
              ltac:(lia) ltac:(lia) ltac:(lia) X2) as (st' & S1 & S2 & S3 & S4 & S5).
  exists st'. split; [exact S1|]. split; [lia|]. split; [exact S2|]. split; [lia|].
  split; [|split; [exact X4|split; [|split; [exact S4|]]]].
  - intros Heq. destruct (X5 Heq) as (_ & X6). lia.
  - intros Heq. exact (proj1 (X5 Heq)).
  - intros k. rewrite S5. destruct (lookup_st st k); [reflexivity|].
    specialize (X3 (k - c_start c)). replace (c_start c + (k - c_start c)) with k in X3 by lia. exact X3.
Qed.

(* ------------------------------------------------------------------ the per-file loop *)

Definition in_new_b (c : cfg) (bl : list (Z * Z)) (vec : list Z) (sw k : Z) : option Z :=
  if sw <? zlen vec then
    (if get_global_sample sw bl <=? k - c_start c then rows_lookup bl vec (k - c_start c) else None)
  else None.

Lemma all_files_Fk c st : Inv c st ->
  Forall (fun a => exists K0, 0 <= K0 /\ f_ms a = Fk c K0) (all_files st).
Proof.
  intros [_ Hf Ho]. unfold all_files. apply Forall_app. split.
  - eapply Forall_impl; [|exact Hf]. intros a ((_ & _ & H) & _). exact H.
  - destruct (w_openf st) as [a|]; [|constructor]. constructor; [|constructor].
    destruct Ho as (_ & (_ & _ & H) & _). exact H.
Qed.

Lemma loop_blocks c g0 tl vec top :
  vcfg c -> c_chunk c = true -> 0 <= g0 -> rows_wf ((g0, 0) :: tl) (zlen vec) top ->
  forall fuel st sw, Inv c st -> 0 <= sw <= zlen vec ->
  (sw < zlen vec -> w_gi st <= get_global_sample sw ((g0, 0) :: tl)) ->
  zlen vec - sw < Z.of_nat fuel ->
  exists st',
    write_loop fuel c st sw ((g0, 0) :: tl) vec = (0, st') /\ Inv c st' /\
    (sw < zlen vec -> w_gi st' = rows_end g0 0 tl (zlen vec)) /\ (sw = zlen vec -> st' = st) /\
    (ms_incr (map f_ms (all_files st)) -> ms_incr (map f_ms (all_files st'))) /\
    forall k, lookup_st st' k =
      match lookup_st st k with Some v => Some v | None => in_new_b c ((g0, 0) :: tl) vec sw k end.
Proof.
  intros Hc Hch Hg0 Hwf. set (bl := (g0, 0) :: tl) in *.
  induction fuel as [|fuel IH]; intros st sw HI Hsw Hgi Hfuel.
  - cbn in Hfuel. lia.
  - cbn [write_loop]. fold (zlen vec).
    destruct (sw <? zlen vec) eqn:El.
    + apply Z.ltb_lt in El.
      set (next := get_global_sample sw bl) in *.
      set (last := whi c (Fk c (c_start c + next)) - c_start c).
      set (T := topidx last g0 0 tl (zlen vec)).
      destruct (step_blocks c st g0 tl vec sw top next last T Hc Hch HI Hwf Hg0 ltac:(lia)
                  eq_refl eq_refl eq_refl (Hgi El))
        as (st1 & Hstep & HT & HI1 & Hgi1 & Hend & Hgap & Hbey & Hms1 & Hlk1).
      fold bl in Hstep, Hgap, Hbey, Hlk1. rewrite Hstep.
      assert (E0 : (T - sw =? 0) = false) by (apply Z.eqb_neq; lia). rewrite E0.
      replace (sw + (T - sw)) with T by lia.
      destruct (IH st1 T HI1 ltac:(lia) ltac:(intros HT'; destruct (Hgap HT'); lia)
                  ltac:(rewrite Nat2Z.inj_succ in Hfuel; lia))
        as (st2 & Hloop & HI2 & Hgi2 & Hsame & Hso2 & Hlk2).
      exists st2. split; [exact Hloop|]. split; [exact HI2|]. split; [|split; [|split]].
      * intros _. destruct (Z_lt_le_dec T (zlen vec)) as [Hlt|Hge].
        -- apply Hgi2. exact Hlt.
        -- assert (HTe : T = zlen vec) by lia. rewrite (Hsame HTe). apply Hend. exact HTe.
      * intros E. lia.
      * intros Hso. apply Hso2. destruct Hms1 as [E|(E & Hall)]; rewrite E; [exact Hso|].
        apply ms_incr_snoc; [exact Hso|]. apply Forall_map.
        pose proof (all_files_Fk c st HI) as HF.
        clear - Hall HF Hc. induction Hall as [|a l Ha _ IHl]; [constructor|].
        inversion HF as [|? ? (K0 & HK0 & EK0) HF']; subst. constructor; [|apply IHl; exact HF'].
        rewrite EK0 in *. apply Fk_lt_of_below; assumption.
      * intros k. rewrite Hlk2, Hlk1.
        destruct (lookup_st st k) as [v|]; [reflexivity|].
        unfold in_new_b. fold next. set (r := k - c_start c).
        rewrite (proj2 (Z.ltb_lt sw (zlen vec)) El).
        destruct (Z.leb_spec next r) as [Hn|Hn]; destruct (Z.ltb_spec r last) as [Hl|Hl]; cbn [andb].
        -- destruct (rows_lookup bl vec r) eqn:EL; [reflexivity|].
           destruct (Z.ltb_spec T (zlen vec)) as [HTl|HTl]; [|reflexivity].
           destruct (Hgap HTl) as (G1 & _).
           destruct (Z.leb_spec (get_global_sample T bl) r); [lia|reflexivity].
        -- destruct (Z.ltb_spec T (zlen vec)) as [HTl|HTl].
           ++ destruct (Hgap HTl) as (G1 & G2).
              destruct (Z.leb_spec (get_global_sample T bl) r); [reflexivity|].
              symmetry. apply G2. lia.
           ++ symmetry. apply Hbey; lia.
        -- destruct (Z.ltb_spec T (zlen vec)) as [HTl|HTl]; [|reflexivity].
           destruct (Hgap HTl) as (G1 & _).
           destruct (Z.leb_spec (get_global_sample T bl) r); [lia|reflexivity].
        -- lia.
    + apply Z.ltb_ge in El. assert (sw = zlen vec) by lia.
      exists st. split; [reflexivity|]. split; [exact HI|]. split; [lia|]. split; [reflexivity|]. split; [auto|].
      intros k. destruct (lookup_st st k); [reflexivity|].
      unfold in_new_b. rewrite (proj2 (Z.ltb_ge sw (zlen vec)) El). reflexivity.
Qed.
