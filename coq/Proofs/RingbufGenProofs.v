(* C16: the expiry conditions, the queue duration and the order of the expirers regenerated from
   ringbuffer.py (Gen/RingbufGen.v, translator T10) are those of the hand model Model/Ringbuffer.v. *)
From Coq Require Import ZArith List Bool.
From DRF Require Import Model.Ringbuffer Gen.RingbufGen.
Import ListNotations.
Local Open Scope Z_scope.

Theorem loops_use_regenerated_conditions c lim f s g :
  count_loop c lim (S f) s g =
    (if err s then s else if gen_count_cond (qlen s g) lim then count_loop c lim f (expire_oldest_from_group c s g 1 g) g else s) /\
  time_loop c lim (S f) s g =
    (if err s then s else if gen_time_cond (queue_duration (qget g (qs (h s)))) lim
                          then time_loop c lim f (expire_oldest_from_group c s g 2 g) g else s) /\
  size_loop c lim (S f) s g =
    (if err s then s else if gen_size_cond (act (h s)) lim
                          then size_loop c lim f (expire_oldest_from_group c s (removal_group (h s) g) 3 g) g else s).
Proof. repeat split. Qed.

Theorem queue_duration_regen q :
  queue_duration q = match q with [] => gen_queue_duration_empty | x :: _ => gen_queue_duration (pk x) (pk (last q x)) end.
Proof. destruct q; reflexivity. Qed.

(* one expirer, by its code *)
Definition run_expirer (c : cfg) (g : Z) (s : st) (code : Z) : st :=
  if code =? 1 then match c_count c with Some n => count_loop c n (S (length (qget g (qs (h s))))) s g | None => s end
  else if code =? 2 then match c_dur c with Some d => time_loop c d (S (length (qget g (qs (h s))))) s g | None => s end
  else if code =? 3 then match c_size c with Some z => size_loop c z (S (length (recs (h s)))) s g | None => s end
  else s.

Theorem expire_order_regen c s g : expire c s g = fold_left (run_expirer c g) gen_mro s.
Proof. reflexivity. Qed.
