(* C11: several sessions on one channel directory.  A restart (close, then a new writer with a new start
   index) that begins after every file period already recorded keeps the refinement: the channel then
   denotes the union of all sessions' samples.  (That no session can ever touch a finalized file --
   whatever its start index -- is Proofs/WriterMono.v; that a write needing an existing final name is
   refused is existing_final_refused.)  Chunked layouts, block calls. *)
From Coq Require Import ZArith List Bool Lia.
From DRF Require Import Base.DivLemmas Model.LayoutSpec Model.IndexCalc Model.WriterCore
  Proofs.LayoutProofs Proofs.WriterBasics Proofs.WriterInv Proofs.WriterMultiIdx Proofs.WriterMulti.
Import ListNotations.
Local Open Scope Z_scope.

Definition with_start (c : cfg) (s : Z) : cfg :=
  mkCfg s (c_n c) (c_d c) (c_sc c) (c_fc c) (c_cont c) (c_chunk c).

Definition restart (st : wstate) : wstate :=
  mkW 0 None None 0 0 (-1) false (w_files (close_writer st)).

Lemma FWF_with_start c s B a : FWF (with_start c s) B a <-> FWF c B a.
Proof. unfold FWF, wlo, whi, Fk, with_start. cbn. tauto. Qed.

Lemma FWF_rebound c B B' a : whi c (f_ms a) <= B' -> FWF c B a -> FWF c B' a.
Proof.
  intros Hw (H1 & H2 & H3). split; [exact H1|]. split; [|exact H3].
  eapply rows_wf_mono; [|exact H2]. lia.
Qed.

Lemma all_files_restart st : w_failed st = false ->
  map f_ms (all_files (restart st)) = map f_ms (all_files st) /\
  forall k, files_lookup (all_files (restart st)) k = files_lookup (all_files st) k.
Proof.
  intros Hnf. unfold restart, close_writer, all_files, finalize. cbn [w_files w_openf].
  destruct (w_openf st) as [a|]; rewrite ?Hnf, ?app_nil_r.
  - split; [rewrite !map_app; reflexivity|]. intros k. rewrite !files_lookup_app. reflexivity.
  - split; reflexivity.
Qed.

(* every well-formed file holds a sample of its own window *)
Lemma FWF_has_sample c B a : vcfg c -> FWF c B a ->
  exists k v, file_lookup a k = Some v /\ Fk c k = f_ms a.
Proof.
  intros Hc ((g & tl & Hi & Hlo) & Hwf & (K0 & HK0 & EK0)).
  pose proof (rows_wf_first_lt_top tl _ _ g 0 ltac:(rewrite <- Hi; exact Hwf)) as Hlt.
  pose proof (rows_wf_offset_lt tl _ _ g 0 ltac:(rewrite <- Hi; exact Hwf)) as Hod.
  assert (Hl : exists v, file_lookup a g = Some v).
  { unfold file_lookup. rewrite Hi. cbn [rows_lookup].
    rewrite Hi in Hwf. cbn [rows_wf] in Hwf.
    destruct tl as [|[g' o'] tl'].
    - assert (E : (g <=? g) && (g <? g + (Z.of_nat (length (f_data a)) - 0)) = true).
      { apply andb_true_iff; split; [apply Z.leb_le|apply Z.ltb_lt]; unfold zlen in *; lia. }
      rewrite E. replace (0 + (g - g)) with 0 by lia.
      destruct (f_data a) as [|x l]; [unfold zlen in Hod; cbn in Hod; lia|]. exists x. reflexivity.
    - destruct Hwf as (H1 & H2 & H3).
      assert (E : (g <=? g) && (g <? g + (o' - 0)) = true).
      { apply andb_true_iff; split; [apply Z.leb_le|apply Z.ltb_lt]; lia. }
      rewrite E. replace (0 + (g - g)) with 0 by lia.
      destruct (f_data a) as [|x l]; [unfold zlen in Hod; cbn in Hod; lia|]. exists x. reflexivity. }
  destruct Hl as (v & Hv). exists g, v. split; [exact Hv|].
  rewrite EK0. apply (Fk_same c K0 g Hc). rewrite <- EK0. lia.
Qed.

Lemma files_lookup_in fs a k v : In a fs -> file_lookup a k = Some v -> exists w, files_lookup fs k = Some w.
Proof.
  induction fs as [|b fs IH]; intros Hin Hl; [destruct Hin|]. cbn [files_lookup].
  destruct (file_lookup b k) eqn:E; [eauto|].
  destruct Hin as [->|Hin]; [congruence|]. apply IH; assumption.
Qed.

(* a restart that begins after every recorded file period keeps the refinement (with the new start) *)
Lemma restart_refines c st s s' : vcfg c -> 0 <= s' -> refines c st s ->
  (forall k v, s_map s k = Some v -> whi c (Fk c k) <= s') ->
  refines (with_start c s') (restart st) (mkSpec 0 (s_map s)).
Proof.
  intros Hc Hs' (HI & Hgi & Hlk & Hso) Hafter.
  destruct (all_files_restart st (inv_nf c st HI)) as (Ems & Elk).
  assert (Hall : Forall (fun a => FWF c (c_start c + w_gi st) a /\ whi c (f_ms a) <= s') (all_files st)).
  { destruct HI as [_ Hf Ho].
    assert (HF : Forall (FWF c (c_start c + w_gi st)) (all_files st)).
    { unfold all_files. apply Forall_app. split.
      - eapply Forall_impl; [|exact Hf]. intros a (H & _). exact H.
      - destruct (w_openf st) as [a|]; [|constructor]. constructor; [|constructor]. tauto. }
    apply Forall_forall. intros a Ha. pose proof (proj1 (Forall_forall _ _) HF a Ha) as Hfa.
    split; [exact Hfa|].
    destruct (FWF_has_sample c _ a Hc Hfa) as (k & v & Hv & Ek).
    destruct (files_lookup_in _ a k v Ha Hv) as (w & Hw).
    unfold lookup_st in Hlk. rewrite Hlk in Hw. rewrite <- Ek. exact (Hafter k w Hw). }
  split; [|split; [reflexivity|split]].
  - constructor; cbn [w_failed w_files w_openf restart close_writer].
    + reflexivity.
    + cbn [w_gi c_start with_start]. rewrite Z.add_0_r.
      (* the finalized list of the restarted state is finalize st *)
      unfold finalize. destruct (w_openf st) as [a|] eqn:Eo.
      * rewrite (inv_nf c st HI). unfold all_files in Hall. rewrite Eo in Hall.
        apply Forall_app in Hall as [H1 H2]. apply Forall_app. split.
        -- eapply Forall_impl; [|exact H1]. intros x (Hx & Hw). split; [|exact Hw].
           apply FWF_with_start. eapply FWF_rebound; [exact Hw|exact Hx].
        -- inversion H2 as [|? ? (Hx & Hw) _]; subst. constructor; [|constructor].
           split; [|exact Hw]. apply FWF_with_start. eapply FWF_rebound; [exact Hw|exact Hx].
      * unfold all_files in Hall. rewrite Eo, app_nil_r in Hall.
        eapply Forall_impl; [|exact Hall]. intros x (Hx & Hw). split; [|exact Hw].
        apply FWF_with_start. eapply FWF_rebound; [exact Hw|exact Hx].
    + exact I.
  - intros k. unfold lookup_st. rewrite Elk. apply Hlk.
  - rewrite Ems. exact Hso.
Qed.

(* ---- histories of sessions *)
Inductive sop :=
| SBlocks (bl : list (Z * Z)) (vec : list Z)
| SRestart (new_start : Z).

Definition sstep_model (cs : cfg * wstate) (op : sop) : cfg * wstate :=
  let '(c, st) := cs in
  match op with
  | SBlocks bl vec => (c, model_step_blocks c st (bl, vec))
  | SRestart s' => (with_start c s', restart st)
  end.

Definition sstep_spec (cs : cfg * spec) (op : sop) : cfg * spec :=
  let '(c, s) := cs in
  match op with
  | SBlocks bl vec => (c, spec_step_blocks c s (bl, vec))
  | SRestart s' => (with_start c s', mkSpec 0 (s_map s))
  end.

(* side conditions, stated on the Spec: block calls start at non-negative indices; a restart begins at
   or after the end of every file period that holds a recorded sample *)
Fixpoint ok_history (cs : cfg * spec) (ops : list sop) : Prop :=
  match ops with
  | [] => True
  | op :: rest =>
    (match op with
     | SBlocks bl _ => first_nonneg bl
     | SRestart s' => 0 <= s' /\ forall k v, s_map (snd cs) k = Some v -> whi (fst cs) (Fk (fst cs) k) <= s'
     end) /\ ok_history (sstep_spec cs op) rest
  end.

Lemma vcfg_with_start c s : vcfg c -> 0 <= s -> vcfg (with_start c s).
Proof. unfold vcfg, with_start. cbn. tauto. Qed.

Theorem sessions_refine ops : forall c st s, vcfg c -> c_chunk c = true -> refines c st s ->
  ok_history (c, s) ops ->
  let '(c', st') := fold_left sstep_model ops (c, st) in
  let '(c'', s') := fold_left sstep_spec ops (c, s) in
  c'' = c' /\ vcfg c' /\ refines c' st' s'.
Proof.
  induction ops as [|op ops IH]; intros c st s Hc Hch HR Hok; cbn [fold_left].
  - auto.
  - cbn [ok_history fst snd] in Hok. destruct Hok as (Hop & Hrest).
    destruct op as [bl vec|s']; cbn [sstep_model sstep_spec] in *.
    + apply IH; try assumption. apply refines_step_blocks; assumption.
    + destruct Hop as (Hs' & Hafter).
      apply IH; [apply vcfg_with_start; assumption|exact Hch| |exact Hrest].
      apply restart_refines; assumption.
Qed.

(* from the empty directory: the channel denotes the union of all sessions' accepted samples *)
Corollary sessions_refine_init c ops : vcfg c -> c_chunk c = true -> ok_history (c, spec_init) ops ->
  let '(c', st') := fold_left sstep_model ops (c, init_state) in
  let '(c'', s') := fold_left sstep_spec ops (c, spec_init) in
  c'' = c' /\ refines c' st' s'.
Proof.
  intros Hc Hch Hok.
  pose proof (sessions_refine ops c init_state spec_init Hc Hch
                ltac:(split; [apply Inv_init|]; split; [reflexivity|]; split; [reflexivity|exact I]) Hok) as H.
  destruct (fold_left sstep_model ops (c, init_state)) as [c' st'].
  destruct (fold_left sstep_spec ops (c, spec_init)) as [c'' s'].
  tauto.
Qed.

(* non-vacuity: two sessions, the second starting exactly at the end of the first session's last file *)
Example sessions_example :
  let c := mkCfg 150000000000 100 1 1 100 false true in
  let ops := [SBlocks [(0, 0); (15, 5)] [1; 2; 3; 4; 5; 6; 7]; SRestart 150000000020; SBlocks [(3, 0)] [8; 9]] in
  let '(c', st') := fold_left sstep_model ops (c, init_state) in
  let '(_, s') := fold_left sstep_spec ops (c, spec_init) in
  c_start c' = 150000000020 /\ length (all_files st') = 3%nat /\ w_gi st' = 5 /\
  lookup_st st' 150000000016 = Some 7 /\ lookup_st st' 150000000024 = Some 9 /\
  s_map s' 150000000016 = Some 7 /\ s_map s' 150000000024 = Some 9 /\ s_map s' 150000000010 = None.
Proof. vm_compute. repeat split; reflexivity. Qed.
