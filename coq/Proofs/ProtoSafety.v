(* Proofs/ProtoSafety.v -- every trace accepted by the publication protocol (Model/WriterProto.v,
   [proto_run]) is kill-safe: at every prefix the invariant [Inv] holds, final data files are whole
   and never change, whatever is partial has a tmp. name, a reader pass cannot fail. *)
From Coq Require Import ZArith List Bool Lia String.
From DRF Require Import Base.Fs Model.WriterProto.
Import ListNotations.
Local Open Scope Z_scope.

(* ---------------------------------------------------------------- small tools *)
Ltac zb :=
  repeat match goal with
  | H : context [Z.eqb ?a ?b] |- _ => destruct (Z.eqb_spec a b); simpl in H
  | |- context [Z.eqb ?a ?b] => destruct (Z.eqb_spec a b); simpl
  | H : context [Bool.eqb ?a ?b] |- _ => destruct (Bool.eqb_spec a b); simpl in H
  | |- context [Bool.eqb ?a ?b] => destruct (Bool.eqb_spec a b); simpl
  end.

Lemma firstn_le_split {A} (l : list A) i j :
  (i <= j)%nat -> firstn j l = firstn i l ++ firstn (j - i) (skipn i l).
Proof.
  revert i j. induction l as [|a l IH]; intros i j Hij.
  - now rewrite !firstn_nil, skipn_nil, firstn_nil.
  - destruct i; simpl.
    + now rewrite Nat.sub_0_r.
    + destruct j; [lia|]. simpl. f_equal. apply IH. lia.
Qed.

(* ---------------------------------------------------------------- the invariant *)
Definition tmp_ok (ps : pstate) (d k : Z) (n : node) : Prop :=
  match ps with
  | PsOpen d' k' => d = d' /\ k = k' /\ n = File (Partial false)
  | PsClosed d' k' => d = d' /\ k = k' /\ exists t, n = File (Complete t)
  | _ => False
  end.

Definition cur_of (ps : pstate) : option (Z * Z) :=
  match ps with PsOpen d k | PsClosed d k => Some (d, k) | _ => None end.

Definition data_inv (ps : pstate) (s : fs) : Prop :=
  (forall d k n, s (PData d false k) = Some n -> exists t, n = File (Complete t)) /\
  (forall d k n, s (PData d true k) = Some n -> tmp_ok ps d k n) /\
  (forall d k, cur_of ps = Some (d, k) -> s (PData d false k) = None /\ s (PData d true k) <> None) /\
  (forall d n, s (PDir d) = Some n -> n = Dir).

Definition props_inv (pv : props_publication) (ps : pstate) (s : fs) : Prop :=
  match ps with
  | PsStart => s (PProps false) = None /\ s (PProps true) = None
  | PsProps t false =>
      t = is_staged pv /\ s (PProps t) = Some (File (Partial false)) /\ s (PProps (negb t)) = None
  | PsProps t true =>
      t = true /\ pv = Staged /\ (exists tg, s (PProps true) = Some (File (Complete tg))) /\ s (PProps false) = None
  | _ => (exists tg, s (PProps false) = Some (File (Complete tg))) /\ s (PProps true) = None
  end.

Definition Inv (pv : props_publication) (ps : pstate) (s : fs) : Prop := data_inv ps s /\ props_inv pv ps s.

Lemma Inv_start pv : Inv pv PsStart empty_fs.
Proof. repeat split; intros; try discriminate. Qed.

(* one protocol step keeps the invariant and never touches an existing final data file *)
Ltac upd_simpl :=
  repeat match goal with
  | H : context [upd _ _ _ _] |- _ => unfold upd in H; simpl in H
  | |- context [upd _ _ _ _] => unfold upd; simpl
  end.

Ltac fin :=
  intros; upd_simpl; zb; subst; simpl in *; try discriminate; try congruence; eauto.

Ltac split_if H :=
  repeat match type of H with
  | context [if ?b then _ else _] => let E := fresh "E" in destruct b eqn:E; simpl in H
  end; try discriminate.

Ltac start Hs :=
  simpl in Hs; split_if Hs; inversion Hs; subst; clear Hs.

(* break the goal [Inv pv ps' s'] into its clauses, with the path equalities decided *)
Ltac clauses :=
  split; [repeat split; intros; upd_simpl; zb; subst; simpl in *; try discriminate
         | simpl; upd_simpl; zb; subst; simpl in *; try discriminate ].

Ltac use F1 F2 F3 F4 :=
  repeat match goal with
  | H : _ (PData _ true _) = Some _ |- _ => apply F2 in H; simpl in H
  | H : _ (PData _ false _) = Some _ |- exists _, _ = File (Complete _) => apply F1 in H; exact H
  | H : _ (PDir _) = Some _ |- _ = Dir => apply F4 in H; exact H
  | H : Some _ = Some _ |- _ => inversion H; subst; clear H
  | H : False |- _ => destruct H
  | H : _ /\ _ |- _ => destruct H
  | H : exists _, _ |- _ => destruct H
  | H : cur_of ?x = Some _ |- _ => progress simpl in H; try discriminate
  | |- _ /\ _ => split
  end; subst; eauto; try congruence.

Lemma step_inv_mkdir pv ps s p ps' :
  Inv pv ps s -> pstep pv ps s (Mkdir p) = Some ps' -> Inv pv ps' (fst (apply (Mkdir p) s)).
Proof.
  intros I Hs. pose proof I as [(F1 & F2 & F3 & F4) P].
  destruct ps as [|t c| |d k|d k]; destruct p as [t'|d'|d' t' k']; start Hs.
  simpl. destruct (s (PDir d')) eqn:E; simpl; [exact I|].
  clauses; use F1 F2 F3 F4.
Qed.

Lemma step_inv_probe pv ps s p ps' :
  Inv pv ps s -> pstep pv ps s (Probe p) = Some ps' -> Inv pv ps' (fst (apply (Probe p) s)).
Proof.
  intros I Hs. simpl in Hs. destruct (exists_at s p); [discriminate|]. inversion Hs; subst.
  simpl. destruct (is_file s p); exact I.
Qed.

Lemma step_inv_create pv ps s p ps' :
  Inv pv ps s -> pstep pv ps s (CreateExcl p) = Some ps' -> Inv pv ps' (fst (apply (CreateExcl p) s)).
Proof.
  intros I Hs. pose proof I as [(F1 & F2 & F3 & F4) P].
  destruct ps as [|t c| |d k|d k]; destruct p as [[|]|d'|d' [|] k']; start Hs.
  - destruct pv; try discriminate. destruct P as [P1 P2]. simpl. rewrite P1. simpl.
    clauses; use F1 F2 F3 F4.
  - unfold exists_at in *. apply orb_false_elim in E as [E E3]. apply orb_false_elim in E as [E1 E2].
    destruct (s (PData d' false k')) eqn:Ef; [discriminate|].
    destruct (s (PData d' true k')) eqn:Et; [discriminate|].
    apply negb_false_iff in E3. simpl. rewrite Et. simpl in E3. rewrite E3. simpl.
    clauses; use F1 F2 F3 F4.
Qed.

Lemma step_inv_trunc pv ps s p ps' :
  Inv pv ps s -> pstep pv ps s (CreateTrunc p) = Some ps' -> Inv pv ps' (fst (apply (CreateTrunc p) s)).
Proof.
  intros I Hs. pose proof I as [(F1 & F2 & F3 & F4) P].
  destruct ps as [|t c| |d k|d k]; destruct p as [[|]|d'|d' [|] k']; start Hs.
  destruct pv; try discriminate. destruct P as [P1 P2]. simpl. rewrite P2. simpl.
  clauses; use F1 F2 F3 F4.
Qed.

(* write and truncate have the same effect *)
Lemma step_inv_write pv ps s p ps' o :
  o = Write p \/ o = Truncate p ->
  Inv pv ps s -> pstep pv ps s o = Some ps' -> Inv pv ps' (fst (apply o s)).
Proof.
  intros Ho I Hs. pose proof I as [(F1 & F2 & F3 & F4) P].
  assert (Ha : apply o s = apply (Write p) s) by (destruct Ho; subst; reflexivity).
  assert (Hp : pstep pv ps s o = pstep pv ps s (Write p)) by (destruct Ho; subst; reflexivity).
  rewrite Ha. rewrite Hp in Hs. clear Ha Hp Ho o.
  destruct ps as [|t [|]| |d k|d k]; destruct p as [t'|d'|d' [|] k']; start Hs.
  1, 2: destruct t'; try discriminate; destruct P as (Pt & Pc & Pn); simpl; simpl in Pc; rewrite Pc; exact I.
  - apply andb_prop in E as [E1 E2]. apply Z.eqb_eq in E1, E2. subst d' k'.
    destruct (F3 d k eq_refl) as [Hf Ht]. simpl.
    destruct (s (PData d true k)) as [n|] eqn:E; [|congruence].
    destruct (F2 _ _ _ E) as (_ & _ & ->). exact I.
Qed.

Lemma step_inv_close pv ps s p tag ps' :
  Inv pv ps s -> pstep pv ps s (CloseFd p tag) = Some ps' -> Inv pv ps' (fst (apply (CloseFd p tag) s)).
Proof.
  intros I Hs. pose proof I as [(F1 & F2 & F3 & F4) P].
  destruct ps as [|t [|]| |d k|d k]; destruct p as [t'|d'|d' [|] k']; start Hs.
  1, 2: destruct t'; try discriminate; destruct P as (Pt & Pc & Pn); simpl; simpl in Pc; rewrite Pc; simpl;
    destruct pv; try discriminate; clauses; use F1 F2 F3 F4.
  apply andb_prop in E as [E1 E2]. apply Z.eqb_eq in E1, E2. subst d' k'.
  destruct (F3 d k eq_refl) as [Hf Ht]. simpl.
  destruct (s (PData d true k)) as [n|] eqn:E; [|congruence].
  destruct (F2 _ _ _ E) as (_ & _ & ->). simpl.
  clauses; use F1 F2 F3 F4.
Qed.

Lemma step_inv_rename pv ps s p q ps' :
  Inv pv ps s -> pstep pv ps s (Rename p q) = Some ps' -> Inv pv ps' (fst (apply (Rename p q) s)).
Proof.
  intros I Hs. pose proof I as [(F1 & F2 & F3 & F4) P].
  destruct ps as [|t [|]| |d k|d k]; destruct p as [[|]|d'|d' [|] k']; destruct q as [[|]|d''|d'' [|] k'']; start Hs.
  - destruct P as (_ & _ & (tg & Pc) & Pn). simpl. rewrite Pc. simpl.
    clauses; use F1 F2 F3 F4.
  - repeat (apply andb_prop in E as [E ?]). apply Z.eqb_eq in E, H, H0, H1. subst.
    destruct (F3 d'' k'' eq_refl) as [Hf Ht]. simpl.
    destruct (s (PData d'' true k'')) as [n|] eqn:En; [|congruence].
    destruct (F2 _ _ _ En) as (_ & _ & tg & ->). simpl.
    clauses; use F1 F2 F3 F4.
Qed.

Lemma step_inv_unlink pv ps s p ps' :
  Inv pv ps s -> pstep pv ps s (Unlink p) = Some ps' -> Inv pv ps' (fst (apply (Unlink p) s)).
Proof.
  intros I Hs. pose proof I as [(F1 & F2 & F3 & F4) P].
  destruct ps as [|t [|]| |d k|d k]; destruct p as [[|]|d'|d' [|] k']; start Hs.
  apply andb_prop in E as [E1 E2]. apply Z.eqb_eq in E1, E2. subst d' k'.
  destruct (F3 d k eq_refl) as [Hf Ht]. simpl.
  destruct (s (PData d true k)) as [n|] eqn:E; [|congruence].
  destruct (F2 _ _ _ E) as (_ & _ & tg & ->). simpl.
  clauses; use F1 F2 F3 F4.
Qed.

Lemma step_inv pv ps s o ps' :
  Inv pv ps s -> pstep pv ps s o = Some ps' -> Inv pv ps' (fst (apply o s)).
Proof.
  destruct o.
  - apply step_inv_mkdir.
  - apply step_inv_probe.
  - apply step_inv_create.
  - apply step_inv_trunc.
  - apply step_inv_write with (p := p); auto.
  - apply step_inv_write with (p := p); auto.
  - apply step_inv_close.
  - apply step_inv_rename.
  - apply step_inv_unlink.
Qed.

(* operations only change the paths they name *)
Lemma apply_other o s p :
  op_target o <> p -> (forall q, o <> Rename p q) -> fst (apply o s) p = s p.
Proof.
  intros Ht Hr.
  destruct o as [a|a|a|a|a|a|a tag|a b|a]; simpl in *;
    repeat match goal with
    | |- context [match s ?x with _ => _ end] => destruct (s x) as [[|[[|]|?]]|]; simpl
    | |- context [if ?c then _ else _] => destruct c; simpl
    end; auto; try (rewrite upd_other; auto).
  all: rewrite upd_other; auto; intros ->; eapply Hr; reflexivity.
Qed.

Lemma pstep_final_target pv ps s o ps' d k :
  Inv pv ps s -> pstep pv ps s o = Some ps' -> op_target o = PData d false k -> s (PData d false k) = None.
Proof.
  intros [(F1 & F2 & F3 & F4) P] Hs Ht.
  destruct o as [a|a|a|a|a|a|a tag|a b|a]; simpl in Ht; subst;
    try (destruct ps as [|[|] [|]| |d1 k1|d1 k1]; simpl in Hs; discriminate).
  - simpl in Hs. unfold exists_at in Hs. destruct (s (PData d false k)); [discriminate|reflexivity].
  - destruct ps as [|[|] [|]| |d1 k1|d1 k1]; destruct a as [[|]|d'|d' [|] k']; start Hs.
    repeat (apply andb_prop in E as [E ?]). apply Z.eqb_eq in E, H, H0, H1. subst.
    apply (F3 d k eq_refl).
Qed.

Lemma pstep_final_source pv ps s ps' d k q : pstep pv ps s (Rename (PData d false k) q) = Some ps' -> False.
Proof. destruct ps as [|[|] [|]| |d1 k1|d1 k1]; simpl; discriminate. Qed.

(* a protocol step never modifies or removes an existing final data file *)
Lemma step_final_stable pv ps s o ps' d k n :
  Inv pv ps s -> pstep pv ps s o = Some ps' ->
  s (PData d false k) = Some n -> fst (apply o s) (PData d false k) = Some n.
Proof.
  intros I Hs Hn. rewrite apply_other; auto.
  - intros Ht. rewrite (pstep_final_target _ _ _ _ _ _ _ I Hs Ht) in Hn. discriminate.
  - intros q ->. eapply pstep_final_source; eauto.
Qed.

(* ---------------------------------------------------------------- runs *)
Lemma run_inv pv t : forall ps s ps' s',
  Inv pv ps s -> proto_run pv ps s t = Some (ps', s') -> Inv pv ps' s'.
Proof.
  induction t as [|o t IH]; simpl; intros ps s ps' s' I H.
  - inversion H; subst; auto.
  - destruct (pstep pv ps s o) eqn:E; [|discriminate]. eapply IH; [|eauto]. eapply step_inv; eauto.
Qed.

Lemma run_state pv t : forall ps s ps' s',
  proto_run pv ps s t = Some (ps', s') -> s' = state_after t s.
Proof.
  induction t as [|o t IH]; simpl; intros ps s ps' s' H.
  - inversion H; auto.
  - destruct (pstep pv ps s o); [|discriminate]. eauto.
Qed.

Lemma run_app pv t1 : forall t2 ps s r,
  proto_run pv ps s (t1 ++ t2) = Some r ->
  exists ps1, proto_run pv ps s t1 = Some (ps1, state_after t1 s) /\
              proto_run pv ps1 (state_after t1 s) t2 = Some r.
Proof.
  induction t1 as [|o t1 IH]; simpl; intros t2 ps s r H.
  - eauto.
  - destruct (pstep pv ps s o); [|discriminate]. eauto.
Qed.

Lemma run_final_stable pv t : forall ps s ps' s' d k n,
  Inv pv ps s -> proto_run pv ps s t = Some (ps', s') ->
  s (PData d false k) = Some n -> s' (PData d false k) = Some n.
Proof.
  induction t as [|o t IH]; simpl; intros ps s ps' s' d k n I H Hn.
  - inversion H; subst; auto.
  - destruct (pstep pv ps s o) eqn:E; [|discriminate].
    eapply IH; [eapply step_inv; eauto | eauto | eapply step_final_stable; eauto].
Qed.

(* acceptance is prefix closed, and every prefix leads to a state satisfying the invariant *)
Lemma prefix_inv pv t ps' s' i :
  proto_run pv PsStart empty_fs t = Some (ps', s') ->
  exists psi, proto_run pv PsStart empty_fs (firstn i t) = Some (psi, crash_state t i empty_fs) /\
              Inv pv psi (crash_state t i empty_fs) /\
              proto_run pv psi (crash_state t i empty_fs) (skipn i t) = Some (ps', s').
Proof.
  intros H. rewrite <- (firstn_skipn i t) in H at 1.
  destruct (run_app _ _ _ _ _ _ H) as (psi & H1 & H2).
  exists psi. unfold crash_state. split; [exact H1|]. split; [|exact H2].
  eapply run_inv; [apply Inv_start | eauto].
Qed.

Definition accepted (pv : props_publication) (t : list op) : Prop :=
  exists r, proto_run pv PsStart empty_fs t = Some r.

Lemma proto_ok_accepted pv t : proto_ok pv t = true <-> accepted pv t.
Proof.
  unfold proto_ok, accepted. destruct (proto_run pv PsStart empty_fs t); split; intros H; eauto; try discriminate.
  destruct H; discriminate.
Qed.

(* ---------------------------------------------------------------- the C02 statements on accepted traces *)
Lemma final_names_complete pv t i j d k c :
  accepted pv t -> (i <= j)%nat ->
  crash_state t i empty_fs (PData d false k) = Some (File c) ->
  (exists tag, c = Complete tag) /\ crash_state t j empty_fs (PData d false k) = Some (File c).
Proof.
  intros [[ps' s'] H] Hij Hc.
  destruct (prefix_inv _ _ _ _ i H) as (psi & H1 & I & H2).
  split.
  - destruct I as [(F1 & _) _]. destruct (F1 _ _ _ Hc) as [tg E]. inversion E; eauto.
  - unfold crash_state. rewrite (firstn_le_split t i j Hij), state_after_app.
    fold (crash_state t i empty_fs).
    rewrite <- (firstn_skipn (j - i) (skipn i t)) in H2.
    destruct (run_app _ _ _ _ _ _ H2) as (psj & H3 & _).
    eapply run_final_stable; eauto.
Qed.

Lemma in_progress_confined_staged t i p b :
  accepted Staged t -> crash_state t i empty_fs p = Some (File (Partial b)) ->
  is_tmp_name (basename p) = true.
Proof.
  intros [[ps' s'] H] Hp.
  destruct (prefix_inv _ _ _ _ i H) as (psi & _ & [(F1 & F2 & F3 & F4) P] & _).
  destruct p as [[|]|d|d [|] k]; try reflexivity.
  - destruct psi as [|t1 [|]| |d1 k1|d1 k1]; simpl in P.
    + destruct P; congruence.
    + destruct P as (_ & _ & _ & Pn). congruence.
    + destruct P as (-> & Pc & Pn). simpl in Pn. congruence.
    + destruct P as [(tg & Pc) _]. congruence.
    + destruct P as [(tg & Pc) _]. congruence.
    + destruct P as [(tg & Pc) _]. congruence.
  - apply F4 in Hp. discriminate.
  - apply F1 in Hp. destruct Hp as [tg E]. discriminate.
Qed.

(* under [Direct] the same holds for every path except the properties file itself *)
Lemma in_progress_confined_direct t i p b :
  accepted Direct t -> crash_state t i empty_fs p = Some (File (Partial b)) -> p <> PProps false ->
  is_tmp_name (basename p) = true.
Proof.
  intros [[ps' s'] H] Hp Hne.
  destruct (prefix_inv _ _ _ _ i H) as (psi & _ & [(F1 & F2 & F3 & F4) P] & _).
  destruct p as [[|]|d|d [|] k]; try reflexivity; try congruence.
  - apply F4 in Hp. discriminate.
  - apply F1 in Hp. destruct Hp as [tg E]. discriminate.
Qed.

(* a reader pass on any crash state cannot fail, and returns exactly the complete final files *)
Lemma read_pass_ok s cands :
  (forall d k n, s (PData d false k) = Some n -> exists t, n = File (Complete t)) ->
  exists l, read_pass s cands = Some l /\
            forall k t, In (k, t) l <-> exists d, In (d, k) cands /\ s (PData d false k) = Some (File (Complete t)).
Proof.
  intros F1. induction cands as [|[d k] r (l & Hl & Hin)]; simpl.
  - exists []. split; auto. intros; split; [intros [] | intros (d & [] & _)].
  - unfold probe. destruct (s (PData d false k)) as [n|] eqn:E.
    + destruct (F1 _ _ _ E) as [t ->]. rewrite Hl. exists ((k, t) :: l). split; auto.
      intros k' t'. simpl. rewrite Hin. split.
      * intros [Heq | (d' & Hd & Hs)]; [inversion Heq; subst; eauto | eauto].
      * intros (d' & [Heq | Hd] & Hs); [inversion Heq; subst; left; congruence | eauto].
    + rewrite Hl. exists l. split; auto. intros k' t'. rewrite Hin. split.
      * intros (d' & Hd & Hs); eauto.
      * intros (d' & [Heq | Hd] & Hs); [inversion Heq; subst; congruence | eauto].
Qed.

Lemma reader_after_kill pv t i cands :
  accepted pv t ->
  exists l, read_pass (crash_state t i empty_fs) cands = Some l /\
    forall k tg, In (k, tg) l <->
      exists d, In (d, k) cands /\ crash_state t i empty_fs (PData d false k) = Some (File (Complete tg)).
Proof.
  intros [[ps' s'] H].
  destruct (prefix_inv _ _ _ _ i H) as (psi & _ & [(F1 & _) _] & _).
  apply read_pass_ok; auto.
Qed.

(* the channel can be opened as soon as drf_properties.h5 exists (staged publication) *)
Lemma channel_opens_staged t i n :
  accepted Staged t -> crash_state t i empty_fs (PProps false) = Some n ->
  open_channel (crash_state t i empty_fs) = true.
Proof.
  intros [[ps' s'] H] Hn.
  destruct (prefix_inv _ _ _ _ i H) as (psi & _ & [_ P] & _).
  unfold open_channel, probe.
  destruct psi as [|t1 [|]| |d1 k1|d1 k1]; simpl in P.
  - destruct P; congruence.
  - destruct P as (_ & _ & _ & Pn). congruence.
  - destruct P as (-> & Pc & Pn). simpl in Pn. congruence.
  - destruct P as [(tg & ->) _]. reflexivity.
  - destruct P as [(tg & ->) _]. reflexivity.
  - destruct P as [(tg & ->) _]. reflexivity.
Qed.

(* when the protocol is back in its idle state no tmp file exists *)
Lemma idle_no_tmp pv t s' p :
  proto_run pv PsStart empty_fs t = Some (PsIdle, s') -> is_tmp_path p = true -> s' p = None.
Proof.
  intros H Hp. pose proof (run_inv _ _ _ _ _ _ (Inv_start pv) H) as [(F1 & F2 & F3 & F4) P].
  destruct p as [[|]|d|d [|] k]; try discriminate.
  - apply P.
  - destruct (s' (PData d true k)) eqn:E; auto. apply F2 in E. destruct E.
Qed.
