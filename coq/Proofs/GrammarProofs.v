(* Lemmas about the REGENERATED grammars (Gen/Grammar.v): re-proved against the current pattern
   text on every run.  From a successful match (the executable matcher, via rmatch_sound) they
   derive the shape of the subject and the captured pieces: a finalized data file name is never a
   `tmp.` name, and a match determines the captured timestamp digits, hence the file time. *)
From Coq Require Import ZArith List Bool Lia.
From DRF Require Import Base.Regex Base.RegexSound Base.WordLit Gen.Grammar Model.PathSpec.
Import ListNotations.
Local Open Scope Z_scope.

Ltac minv :=
  repeat match goal with
  | H : exists _, _ |- _ => destruct H
  | H : _ /\ _ |- _ => destruct H
  end.

Ltac norm := cbn [app W] in *; repeat (rewrite <- app_assoc in *; cbn [app] in * ).

Lemma chr_eq_false a x : chr_eq false a x = true -> x = a.
Proof. unfold chr_eq. intro H. apply Z.eqb_eq in H. auto. Qed.

Lemma starts_with_app p : forall s, starts_with p s = true -> exists r, s = p ++ r.
Proof.
  induction p as [|a p IH]; intros s H; cbn in H.
  - exists s. reflexivity.
  - destruct s as [|b s]; [discriminate|]. apply andb_true_iff in H as [Hab H].
    apply Z.eqb_eq in Hab. subst. apply IH in H as (r & ->). exists r. reflexivity.
Qed.

Lemma starts_with_app_l p : forall s t, starts_with p s = true -> starts_with p (s ++ t) = true.
Proof.
  induction p as [|a p IH]; intros s t H; cbn in *; [reflexivity|].
  destruct s as [|b s]; [discriminate|]. cbn. apply andb_true_iff in H as [-> H]. cbn. auto.
Qed.

(* the look-ahead (?!tmp\.) as the generated term spells it, case-sensitively *)
Definition tmp_ahead : re := Seq (Chr 116) (Seq (Chr 109) (Seq (Chr 112) (Chr 46))).

Lemma not_tmp_ahead n0 (s : word) (c : caps) :
  ~ (exists sa sb cx, s = sa ++ sb /\ M false n0 tmp_ahead sa sb c cx) ->
  starts_with (W "tmp.") s = false.
Proof.
  intro Hno. destruct (starts_with (W "tmp.") s) eqn:E; [|reflexivity].
  exfalso. apply Hno. apply starts_with_app in E as (r & ->).
  exists (W "tmp."), r, c. split; [reflexivity|]. cbn.
  exists [116], [109; 112; 46], c. split; [reflexivity|]. split; [exists 116; auto|].
  exists [109], [112; 46], c. split; [reflexivity|]. split; [exists 109; auto|].
  exists [112], [46], c. split; [reflexivity|]. split; [exists 112; auto|].
  exists 46. auto.
Qed.

Lemma forallb_in_cls_digit s : forallb (in_cls [(48, 57)]) s = forallb is_digit s.
Proof.
  induction s as [|x s IH]; cbn; [reflexivity|]. rewrite IH. unfold is_digit. cbn.
  rewrite orb_false_r. reflexivity.
Qed.

Lemma len_nonnil {A} (l : list A) n : length l = n -> (1 <= n)%nat -> l <> [].
Proof. intros <- H ->. cbn in H. lia. Qed.

Lemma int_of_digits w : w <> [] -> forallb is_digit w = true -> int_of w = Some (int_of_digits_acc 0 w).
Proof. intros Hne Hd. unfold int_of. destruct w; [congruence|]. rewrite Hd. reflexivity. Qed.

(* ---- _RE_DRFFILE: <name>@<secs>.<fff>.h5 *)
Lemma drffile_shape s c : rmatch false l_re_drffile s = Some c ->
  exists name secs frac tl,
    s = name ++ [64] ++ secs ++ [46] ++ frac ++ W ".h5" ++ tl /\ (tl = [] \/ tl = [10]) /\
    name <> [] /\ starts_with (W "tmp.") s = false /\
    secs <> [] /\ forallb is_digit secs = true /\ length frac = 3%nat /\ forallb is_digit frac = true /\
    group g_name c = Some name /\ group g_secs c = Some secs /\ group g_frac c = Some frac.
Proof.
  intro H. apply rmatch_sound in H as (s1 & s2 & -> & H).
  unfold l_re_drffile in H. cbn [M] in H. minv.
  repeat match goal with H : chr_eq false _ _ = true |- _ => apply chr_eq_false in H end.
  subst.
  repeat match goal with
  | H : Iter _ _ _ _ _ _ |- _ => first [apply (Iter_any false 0%nat) in H | apply (Iter_cls false 0%nat) in H]; destruct H as (? & ? & ?)
  end. subst.
  match goal with H : ~ _ |- _ => apply (not_tmp_ahead 0%nat) in H; rename H into Htmp end.
  rewrite !forallb_in_cls_digit in *.
  match goal with Hn : (1 <= length ?nm)%nat, Ht : starts_with _ (?nm ++ _) = false |- _ =>
    exists nm end.
  match goal with Hn : (3 <= length ?fr)%nat |- _ =>
    match goal with Hs : (1 <= length ?sc)%nat, Hd : forallb is_digit ?sc = true |- _ =>
      exists sc, fr, s2 end end.
  cbn [app] in *. unfold under in *.
  repeat split; auto; try (intros ->; cbn in *; lia); try lia.
  - norm. reflexivity.
  - norm. exact Htmp.
Qed.

(* ---- _RE_DMDFILE: <name>@<secs>.h5 *)
Lemma dmdfile_shape s c : rmatch false l_re_dmdfile s = Some c ->
  exists name secs tl,
    s = name ++ [64] ++ secs ++ W ".h5" ++ tl /\ (tl = [] \/ tl = [10]) /\
    name <> [] /\ starts_with (W "tmp.") s = false /\
    secs <> [] /\ forallb is_digit secs = true /\
    group g_name c = Some name /\ group g_secs c = Some secs /\ group g_frac c = None.
Proof.
  intro H. apply rmatch_sound in H as (s1 & s2 & -> & H).
  unfold l_re_dmdfile in H. cbn [M] in H. minv.
  repeat match goal with H : chr_eq false _ _ = true |- _ => apply chr_eq_false in H end.
  subst.
  repeat match goal with
  | H : Iter _ _ _ _ _ _ |- _ => first [apply (Iter_any false 0%nat) in H | apply (Iter_cls false 0%nat) in H]; destruct H as (? & ? & ?)
  end. subst.
  match goal with H : ~ _ |- _ => apply (not_tmp_ahead 0%nat) in H; rename H into Htmp end.
  rewrite !forallb_in_cls_digit in *.
  match goal with Hn : (1 <= length ?nm)%nat, Ht : starts_with _ (?nm ++ _) = false |- _ =>
    exists nm end.
  match goal with Hs : (1 <= length ?sc)%nat, Hd : forallb is_digit ?sc = true |- _ =>
      exists sc, s2 end.
  cbn [app] in *.
  repeat split; auto; try (intros ->; cbn in *; lia).
  - norm. reflexivity.
  - norm. exact Htmp.
Qed.

(* ---- _RE_FILE: either of the two *)
Lemma file_shape s c : rmatch false l_re_file s = Some c ->
  exists name secs tl,
    (tl = [] \/ tl = [10]) /\ name <> [] /\ starts_with (W "tmp.") s = false /\
    secs <> [] /\ forallb is_digit secs = true /\
    group g_name c = Some name /\ group g_secs c = Some secs /\
    ( (s = name ++ [64] ++ secs ++ W ".h5" ++ tl /\ group g_frac c = None) \/
      (exists frac, s = name ++ [64] ++ secs ++ [46] ++ frac ++ W ".h5" ++ tl /\
                    length frac = 3%nat /\ forallb is_digit frac = true /\ group g_frac c = Some frac) ).
Proof.
  intro H. apply rmatch_sound in H as (s1 & s2 & -> & H).
  unfold l_re_file in H. cbn [M] in H. minv.
  match goal with Hu : under (Some 1%nat) ?n, H : Iter _ ?n _ _ _ _ |- _ =>
    destruct n as [|[|n]]; [ | | cbn in Hu; lia]; cbn [Iter] in H end; minv;
  repeat match goal with H : chr_eq false _ _ = true |- _ => apply chr_eq_false in H end;
  subst;
  repeat match goal with
  | H : Iter _ _ _ _ _ _ |- _ => first [apply (Iter_any false 0%nat) in H | apply (Iter_cls false 0%nat) in H]; destruct H as (? & ? & ?)
  end; subst;
  match goal with H : ~ _ |- _ => apply (not_tmp_ahead 0%nat) in H; rename H into Htmp end;
  rewrite !forallb_in_cls_digit in *;
  match goal with Hn : (1 <= length ?nm)%nat, Ht : starts_with _ (?nm ++ _) = false |- _ =>
    exists nm end.
  - match goal with Hs : (1 <= length ?sc)%nat, Hd : forallb is_digit ?sc = true |- _ => exists sc, s2 end.
    repeat split; auto; try (intros ->; cbn in *; lia).
    + norm. exact Htmp.
    + left. split; [norm; reflexivity | reflexivity].
  - match goal with Hn : (3 <= length ?fr)%nat |- _ =>
      match goal with Hs : (1 <= length ?sc)%nat, Hd : forallb is_digit ?sc = true |- _ => exists sc, s2 end end.
    unfold under in *.
    repeat split; auto; try (intros ->; cbn in *; lia).
    + norm. exact Htmp.
    + right. match goal with Hn : (3 <= length ?fr)%nat |- _ => exists fr end.
      repeat split; auto; try lia. norm. reflexivity.
Qed.

(* ---- consequences: the file time a match determines; never BadInt / NoTime *)
Definition digits_val (w : word) : Z := int_of_digits_acc 0 w.

Lemma drffile_time s c : rmatch false l_re_drffile s = Some c ->
  exists name secs frac tl, s = name ++ [64] ++ secs ++ [46] ++ frac ++ W ".h5" ++ tl /\
    time_of c = Time (digits_val secs * 1000000 + digits_val frac * 1000).
Proof.
  intro H. apply drffile_shape in H as (name & secs & frac & tl & -> & _ & _ & _ & Hs & Hsd & Hf & Hfd & _ & Gs & Gf).
  exists name, secs, frac, tl. split; [reflexivity|]. unfold time_of. rewrite Gs, Gf.
  rewrite (int_of_digits secs Hs Hsd), (int_of_digits frac); auto.
  intros ->. discriminate.
Qed.

Lemma dmdfile_time s c : rmatch false l_re_dmdfile s = Some c ->
  exists name secs tl, s = name ++ [64] ++ secs ++ W ".h5" ++ tl /\
    time_of c = Time (digits_val secs * 1000000).
Proof.
  intro H. apply dmdfile_shape in H as (name & secs & tl & -> & _ & _ & _ & Hs & Hsd & _ & Gs & Gf).
  exists name, secs, tl. split; [reflexivity|]. unfold time_of. rewrite Gs, Gf.
  rewrite (int_of_digits secs Hs Hsd). reflexivity.
Qed.

Lemma file_time s c : rmatch false l_re_file s = Some c -> exists t, time_of c = Time t.
Proof.
  intro H. apply file_shape in H as (name & secs & tl & _ & _ & _ & Hs & Hsd & _ & Gs & [[_ Gf] | (frac & _ & Hf & Hfd & Gf)]);
    unfold time_of; rewrite Gs, Gf, (int_of_digits secs Hs Hsd).
  - eexists. reflexivity.
  - rewrite (int_of_digits frac); [eexists; reflexivity| |exact Hfd]. intros ->. discriminate.
Qed.

(* a finalized data file name never starts with tmp. -- for every name, whichever file pattern *)
Theorem data_file_never_tmp r s :
  r = l_re_drffile \/ r = l_re_dmdfile \/ r = l_re_file ->
  starts_with (W "tmp.") s = true -> rmatch false r s = None.
Proof.
  intros Hr Ht. destruct (rmatch false r s) as [c|] eqn:E; [|reflexivity]. exfalso.
  destruct Hr as [-> | [-> | ->]].
  - apply drffile_shape in E as (? & ? & ? & ? & _ & _ & _ & Hn & _). congruence.
  - apply dmdfile_shape in E as (? & ? & ? & _ & _ & _ & Hn & _). congruence.
  - apply file_shape in E as (? & ? & ? & _ & _ & Hn & _). congruence.
Qed.

Example data_file_match_example :
  option_map time_of (rmatch false l_re_file (W "rf@1500000000.123.h5")) = Some (Time 1500000000123000).
Proof. vm_compute. reflexivity. Qed.

(* ---- the properties-file patterns accept exactly the fixed names (plus Python's final \n) *)
Ltac minv_or :=
  repeat match goal with
  | H : exists _, _ |- _ => destruct H
  | H : _ /\ _ |- _ => destruct H
  | H : M _ _ (Alt _ _) _ _ _ _ |- _ => cbn [M] in H
  | H : _ \/ _ |- _ => destruct H
  end.

Ltac prop_shape H :=
  apply rmatch_sound in H; destruct H as (?s1 & ?s2 & -> & H);
  cbn [M] in H; minv_or;
  repeat match goal with H : chr_eq false _ _ = true |- _ => apply chr_eq_false in H end;
  subst; norm.

Lemma drfpropfile_shape s c : rmatch false l_re_drfpropfile s = Some c ->
  exists tl, (tl = [] \/ tl = [10]) /\ (s = W "drf_properties.h5" ++ tl \/ s = W "metadata.h5" ++ tl).
Proof.
  intro H. unfold l_re_drfpropfile in H. prop_shape H;
    first [ solve [exists (@nil Z); split; [auto | cbn; auto]] | solve [exists [10]; split; [auto | cbn; auto]] ].
Qed.

Lemma dmdpropfile_shape s c : rmatch false l_re_dmdpropfile s = Some c ->
  exists tl, (tl = [] \/ tl = [10]) /\ (s = W "dmd_properties.h5" ++ tl \/ s = W "metadata.h5" ++ tl).
Proof.
  intro H. unfold l_re_dmdpropfile in H. prop_shape H;
    first [ solve [exists (@nil Z); split; [auto | cbn; auto]] | solve [exists [10]; split; [auto | cbn; auto]] ].
Qed.

Lemma propfile_shape s c : rmatch false l_re_propfile s = Some c ->
  exists tl, (tl = [] \/ tl = [10]) /\
    (s = W "drf_properties.h5" ++ tl \/ s = W "dmd_properties.h5" ++ tl \/ s = W "metadata.h5" ++ tl).
Proof.
  intro H. unfold l_re_propfile in H. prop_shape H;
    first [ solve [exists (@nil Z); split; [auto | cbn; auto]] | solve [exists [10]; split; [auto | cbn; auto]] ].
Qed.

Theorem prop_file_never_tmp r s :
  r = l_re_drfpropfile \/ r = l_re_dmdpropfile \/ r = l_re_propfile ->
  starts_with (W "tmp.") s = true -> rmatch false r s = None.
Proof.
  intros Hr Ht. destruct (rmatch false r s) as [c|] eqn:E; [|reflexivity]. exfalso.
  destruct Hr as [-> | [-> | ->]].
  - apply drfpropfile_shape in E as (tl & _ & [-> | ->]); cbn in Ht; discriminate.
  - apply dmdpropfile_shape in E as (tl & _ & [-> | ->]); cbn in Ht; discriminate.
  - apply propfile_shape in E as (tl & _ & [-> | [-> | ->]]); cbn in Ht; discriminate.
Qed.
