(* Index calculus for write calls with SEVERAL blocks (gapped mode, chunked layout).
   Part A: appending a whole group of rows (with their data) to a file's index.
   Part B: what one call of digital_rf_create_rf_data_index (IndexCalc.create_rf_data_index, chunk = true)
           returns for valid arrays: the rows of the part of the call that falls into the file window
           [next, last), as a function of the block description bl, of the iteration offset sw and of last.
   Used by Proofs/WriterMulti.v.  A block description with its data IS an index in the sense of
   WriterCore.rows_lookup; validity of the arrays is WriterInv.rows_wf. *)
From Coq Require Import ZArith List Bool Lia.
From DRF Require Import Base.DivLemmas Model.LayoutSpec Model.IndexCalc Model.WriterCore
  Proofs.LayoutProofs Proofs.WriterBasics Proofs.WriterInv.
Import ListNotations.
Local Open Scope Z_scope.

(* ------------------------------------------------------------------ controlled unfolding *)

Lemma rows_wf_one g o dlen top :
  rows_wf [(g, o)] dlen top = (0 <= o < dlen /\ g + (dlen - o) <= top).
Proof. reflexivity. Qed.

Lemma rows_wf_two g o g' o' tl dlen top :
  rows_wf ((g, o) :: (g', o') :: tl) dlen top =
  (0 <= o < o' /\ g + (o' - o) <= g' /\ rows_wf ((g', o') :: tl) dlen top).
Proof. reflexivity. Qed.

Lemma rl_one g o data k :
  rows_lookup [(g, o)] data k =
  if (g <=? k) && (k <? g + (zlen data - o)) then nth_error data (Z.to_nat (o + (k - g))) else None.
Proof. reflexivity. Qed.

Lemma rl_two g o g' o' tl data k :
  rows_lookup ((g, o) :: (g', o') :: tl) data k =
  if (g <=? k) && (k <? g + (o' - o)) then nth_error data (Z.to_nat (o + (k - g)))
  else rows_lookup ((g', o') :: tl) data k.
Proof. reflexivity. Qed.

Lemma wf_two_inv g o g' o' tl dlen top :
  rows_wf ((g, o) :: (g', o') :: tl) dlen top ->
  0 <= o < o' /\ o' < dlen /\ g + (o' - o) <= g' /\ g < g' /\ rows_wf ((g', o') :: tl) dlen top.
Proof.
  rewrite rows_wf_two. intros (A & B & C).
  pose proof (rows_wf_offset_lt _ _ _ _ _ C). repeat split; try lia; exact C.
Qed.

Lemma wf_first g o tl dlen top : rows_wf ((g, o) :: tl) dlen top -> 0 <= o < dlen /\ g < top.
Proof.
  intros H. pose proof (rows_wf_offset_lt _ _ _ _ _ H). pose proof (rows_wf_first_lt_top _ _ _ _ _ H).
  destruct tl as [|[g' o'] tl]; [rewrite rows_wf_one in H|rewrite rows_wf_two in H]; lia.
Qed.

(* decide the integer comparisons in the goal *)
Ltac zb :=
  repeat match goal with
  | |- context [?a <=? ?b] => destruct (Z.leb_spec a b)
  | |- context [?a <? ?b] => destruct (Z.ltb_spec a b)
  end; cbn [andb orb negb].

Lemma nth_in_range (data : list Z) i : 0 <= i < zlen data -> nth_error data (Z.to_nat i) <> None.
Proof. intros Hi E. apply nth_error_None in E. unfold zlen in Hi. lia. Qed.

Lemma rows_lookup_below : forall tl g o data top k,
  rows_wf ((g, o) :: tl) (zlen data) top -> k < g -> rows_lookup ((g, o) :: tl) data k = None.
Proof.
  induction tl as [|[g' o'] tl IH]; intros g o data top k Hwf Hk.
  - rewrite rl_one. zb; try reflexivity; lia.
  - rewrite rl_two. apply wf_two_inv in Hwf as (A & B & C & D & E).
    rewrite (IH g' o' data top k E) by lia. zb; try reflexivity; lia.
Qed.

Lemma rows_lookup_beyond rows data top k :
  rows_wf rows (zlen data) top -> top <= k -> rows_lookup rows data k = None.
Proof.
  intros Hwf Hk. destruct (rows_lookup rows data k) eqn:E; [|reflexivity].
  pose proof (rows_lookup_bound _ _ _ _ _ Hwf E). lia.
Qed.

(* ================================================================== Part A: appending a group of rows *)

Definition shift (d : Z) (R : list (Z * Z)) : list (Z * Z) := map (fun r => (fst r, snd r + d)) R.

Lemma nth_app_shift (data new : list Z) i : 0 <= i ->
  nth_error (data ++ new) (Z.to_nat (i + zlen data)) = nth_error new (Z.to_nat i).
Proof.
  intros Hi. unfold zlen. rewrite nth_error_app2 by lia. f_equal. lia.
Qed.

Lemma nth_app_old (data new : list Z) i : 0 <= i < zlen data ->
  nth_error (data ++ new) (Z.to_nat i) = nth_error data (Z.to_nat i).
Proof. intros Hi. unfold zlen in Hi. apply nth_error_app1. lia. Qed.

Lemma zlen_app {A} (a b : list A) : zlen (a ++ b) = zlen a + zlen b.
Proof. unfold zlen. rewrite app_length. lia. Qed.

Lemma shift_lookup : forall R data new k top,
  rows_wf R (zlen new) top ->
  rows_lookup (shift (zlen data) R) (data ++ new) k = rows_lookup R new k.
Proof.
  induction R as [|[g o] tl IH]; intros data new k top Hwf; [reflexivity|].
  destruct tl as [|[g' o'] tl'].
  - cbn [shift map fst snd]. rewrite !rl_one. rewrite rows_wf_one in Hwf.
    rewrite zlen_app.
    replace (zlen data + zlen new - (o + zlen data)) with (zlen new - o) by lia.
    destruct ((g <=? k) && (k <? g + (zlen new - o))) eqn:E; [|reflexivity].
    apply andb_true_iff in E as [E1 E2]. apply Z.leb_le in E1.
    replace (o + zlen data + (k - g)) with (o + (k - g) + zlen data) by lia.
    apply nth_app_shift. lia.
  - apply wf_two_inv in Hwf as (A & B & C & D & E).
    change (shift (zlen data) ((g, o) :: (g', o') :: tl'))
      with ((g, o + zlen data) :: (g', o' + zlen data) :: shift (zlen data) tl').
    rewrite !rl_two.
    replace (o' + zlen data - (o + zlen data)) with (o' - o) by lia.
    change ((g', o' + zlen data) :: shift (zlen data) tl') with (shift (zlen data) ((g', o') :: tl')).
    rewrite (IH data new k top E).
    destruct ((g <=? k) && (k <? g + (o' - o))) eqn:E0; [|reflexivity].
    apply andb_true_iff in E0 as [E1 E2]. apply Z.leb_le in E1.
    replace (o + zlen data + (k - g)) with (o + (k - g) + zlen data) by lia.
    apply nth_app_shift. lia.
Qed.

Lemma rows_wf_shift : forall R d nlen top, 0 <= d ->
  rows_wf R nlen top -> rows_wf (shift d R) (d + nlen) top.
Proof.
  induction R as [|[g o] tl IH]; intros d nlen top Hd Hwf; [exact I|].
  destruct tl as [|[g' o'] tl'].
  - cbn [shift map fst snd]. rewrite rows_wf_one in *. lia.
  - change (shift d ((g, o) :: (g', o') :: tl')) with ((g, o + d) :: (g', o' + d) :: shift d tl').
    rewrite rows_wf_two in *. destruct Hwf as (A & B & C). split; [lia|]. split; [lia|].
    change ((g', o' + d) :: shift d tl') with (shift d ((g', o') :: tl')). apply IH; assumption.
Qed.

(* the generalisation of WriterInv.rows_lookup_snoc *)
Lemma rows_lookup_append : forall rows data R' new K0 k top top',
  rows_wf rows (zlen data) top -> rows <> [] ->
  rows_wf ((K0, 0) :: R') (zlen new) top' -> top <= K0 ->
  rows_lookup (rows ++ shift (zlen data) ((K0, 0) :: R')) (data ++ new) k =
    match rows_lookup rows data k with
    | Some v => Some v
    | None => rows_lookup ((K0, 0) :: R') new k
    end.
Proof.
  induction rows as [|[g o] tl IH]; intros data R' new K0 k top top' Hwf Hne HR Htop; [congruence|].
  destruct tl as [|[g' o'] tl'].
  - change ([(g, o)] ++ shift (zlen data) ((K0, 0) :: R'))
      with ((g, o) :: (K0, 0 + zlen data) :: shift (zlen data) R').
    rewrite rl_two, rl_one. rewrite rows_wf_one in Hwf.
    replace (0 + zlen data - o) with (zlen data - o) by lia.
    destruct ((g <=? k) && (k <? g + (zlen data - o))) eqn:E.
    + apply andb_true_iff in E as [E1 E2]. apply Z.leb_le in E1. apply Z.ltb_lt in E2.
      rewrite nth_app_old by lia.
      destruct (nth_error data (Z.to_nat (o + (k - g)))) eqn:En; [reflexivity|].
      exfalso. revert En. apply nth_in_range. lia.
    + change ((K0, 0 + zlen data) :: shift (zlen data) R') with (shift (zlen data) ((K0, 0) :: R')).
      apply (shift_lookup _ data new k top' HR).
  - change (((g, o) :: (g', o') :: tl') ++ shift (zlen data) ((K0, 0) :: R'))
      with ((g, o) :: (g', o') :: (tl' ++ shift (zlen data) ((K0, 0) :: R'))).
    rewrite !rl_two. apply wf_two_inv in Hwf as (A & B & C & D & E).
    change ((g', o') :: tl' ++ shift (zlen data) ((K0, 0) :: R'))
      with (((g', o') :: tl') ++ shift (zlen data) ((K0, 0) :: R')).
    rewrite (IH data R' new K0 k top top' E ltac:(discriminate) HR Htop).
    destruct ((g <=? k) && (k <? g + (o' - o))) eqn:E0; [|reflexivity].
    apply andb_true_iff in E0 as [E1 E2]. apply Z.leb_le in E1. apply Z.ltb_lt in E2.
    rewrite nth_app_old by lia.
    destruct (nth_error data (Z.to_nat (o + (k - g)))) eqn:En; [reflexivity|].
    exfalso. revert En. apply nth_in_range. lia.
Qed.

(* the generalisation of WriterInv.rows_wf_snoc *)
Lemma rows_wf_append : forall rows dlen R' nlen K0 top top',
  rows_wf rows dlen top -> rows <> [] ->
  rows_wf ((K0, 0) :: R') nlen top' -> top <= K0 ->
  rows_wf (rows ++ shift dlen ((K0, 0) :: R')) (dlen + nlen) top'.
Proof.
  induction rows as [|[g o] tl IH]; intros dlen R' nlen K0 top top' Hwf Hne HR Htop; [congruence|].
  destruct tl as [|[g' o'] tl'].
  - change ([(g, o)] ++ shift dlen ((K0, 0) :: R')) with ((g, o) :: (K0, 0 + dlen) :: shift dlen R').
    rewrite rows_wf_two. rewrite rows_wf_one in Hwf. split; [lia|]. split; [lia|].
    change ((K0, 0 + dlen) :: shift dlen R') with (shift dlen ((K0, 0) :: R')).
    apply rows_wf_shift; [lia|exact HR].
  - change (((g, o) :: (g', o') :: tl') ++ shift dlen ((K0, 0) :: R'))
      with ((g, o) :: (g', o') :: (tl' ++ shift dlen ((K0, 0) :: R'))).
    rewrite rows_wf_two in *. destruct Hwf as (A & B & C). split; [lia|]. split; [lia|].
    change ((g', o') :: tl' ++ shift dlen ((K0, 0) :: R')) with (((g', o') :: tl') ++ shift dlen ((K0, 0) :: R')).
    eapply IH; try eassumption. discriminate.
Qed.

(* the end of the last row: one past the highest index present *)
Fixpoint rows_end (g o : Z) (tl : list (Z * Z)) (dlen : Z) : Z :=
  match tl with
  | [] => g + (dlen - o)
  | (g', o') :: tl' => rows_end g' o' tl' dlen
  end.

Lemma rows_wf_end : forall tl g o dlen top,
  rows_wf ((g, o) :: tl) dlen top ->
  rows_wf ((g, o) :: tl) dlen (rows_end g o tl dlen) /\ rows_end g o tl dlen <= top.
Proof.
  induction tl as [|[g' o'] tl IH]; intros g o dlen top H.
  - cbn [rows_end]. rewrite rows_wf_one in *. lia.
  - cbn [rows_end]. rewrite rows_wf_two in *. destruct H as (A & B & C).
    destruct (IH g' o' dlen top C) as (I1 & I2). repeat split; try lia. exact I1.
Qed.

(* ================================================================== Part B: one call of create_rf_data_index *)

(* ---------- the three transformations: drop what lies before data index sw, cut at sample last, translate *)

Definition tr (start sw : Z) (b : Z * Z) : Z * Z := (fst b + start, snd b - sw).

(* the blocks that start after data index sw *)
Fixpoint post (sw : Z) (tl : list (Z * Z)) : list (Z * Z) :=
  match tl with
  | [] => []
  | (g', d') :: tl' => if sw <? d' then tl else post sw tl'
  end.

(* the leading blocks that start before sample last *)
Fixpoint keep (last : Z) (tl : list (Z * Z)) : list (Z * Z) :=
  match tl with
  | [] => []
  | (g, d) :: tl' => if g <? last then (g, d) :: keep last tl' else []
  end.

(* data index of the first sample whose index is >= last (dlen when there is none) *)
Fixpoint topidx (last g o : Z) (tl : list (Z * Z)) (dlen : Z) : Z :=
  match tl with
  | [] => o + Z.min (last - g) (dlen - o)
  | (g', o') :: tl' => if g' >? last then o + Z.min (last - g) (o' - o) else topidx last g' o' tl' dlen
  end.

(* the rows written by one per-file step *)
Definition Rof (start sw next last : Z) (tl : list (Z * Z)) : list (Z * Z) :=
  (next + start, 0) :: map (tr start sw) (keep last (post sw tl)).

(* ---------- get_global_sample is monotone along the blocks *)

Lemma ggs_loop_ge dlen top sw : forall tl g d,
  rows_wf ((g, d) :: tl) dlen top -> d <= sw -> g + (sw - d) <= ggs_loop sw tl (g + (sw - d)).
Proof.
  induction tl as [|[g' d'] tl IH]; intros g d Hwf Hsw; cbn [ggs_loop]; [lia|].
  apply wf_two_inv in Hwf as (A & B & C & D & E).
  destruct (Z.ltb_spec sw d'); [lia|]. specialize (IH g' d' E ltac:(lia)). lia.
Qed.

(* ---------- (1) drop *)

Lemma drop_lookup vec top sw : forall tl g d,
  rows_wf ((g, d) :: tl) (zlen vec) top -> d <= sw < zlen vec ->
  let next := ggs_loop sw tl (g + (sw - d)) in
  g + (sw - d) <= next /\
  rows_wf ((next, sw) :: post sw tl) (zlen vec) top /\
  forall r, next <= r -> rows_lookup ((g, d) :: tl) vec r = rows_lookup ((next, sw) :: post sw tl) vec r.
Proof.
  induction tl as [|[g' d'] tl IH]; intros g d Hwf Hsw; cbn [ggs_loop post].
  - rewrite rows_wf_one in *. split; [lia|]. split; [lia|]. intros r Hr. rewrite !rl_one.
    replace (sw + (r - (g + (sw - d)))) with (d + (r - g)) by lia.
    zb; try reflexivity; lia.
  - pose proof Hwf as Hwf0. apply wf_two_inv in Hwf as (A & B & C & D & E).
    destruct (Z.ltb_spec sw d') as [Hlt|Hge].
    + split; [lia|]. split.
      * rewrite rows_wf_two. split; [lia|]. split; [lia|exact E].
      * intros r Hr. rewrite !rl_two.
        replace (sw + (r - (g + (sw - d)))) with (d + (r - g)) by lia.
        zb; try reflexivity; lia.
    + destruct (IH g' d' E ltac:(lia)) as (I1 & I2 & I3).
      split; [lia|]. split; [exact I2|]. intros r Hr. rewrite rl_two.
      rewrite <- (I3 r Hr). zb; try reflexivity; lia.
Qed.

Lemma topidx_drop last dlen top sw : forall tl g d,
  rows_wf ((g, d) :: tl) dlen top -> d <= sw < dlen ->
  ggs_loop sw tl (g + (sw - d)) < last ->
  topidx last g d tl dlen = topidx last (ggs_loop sw tl (g + (sw - d))) sw (post sw tl) dlen.
Proof.
  induction tl as [|[g' d'] tl IH]; intros g d Hwf Hsw Hn; cbn [ggs_loop post topidx] in *.
  - lia.
  - pose proof Hwf as Hwf0. apply wf_two_inv in Hwf as (A & B & C & D & E).
    destruct (Z.ltb_spec sw d') as [Hlt|Hge].
    + cbn [topidx]. destruct (g' >? last); [lia|reflexivity].
    + pose proof (ggs_loop_ge dlen top sw tl g' d' E ltac:(lia)).
      assert (Eg : (g' >? last) = false) by (rewrite Z.gtb_ltb; apply Z.ltb_ge; lia).
      rewrite Eg. apply IH; [exact E|lia|exact Hn].
Qed.

Lemma rows_end_drop dlen top sw : forall tl g d,
  rows_wf ((g, d) :: tl) dlen top -> d <= sw < dlen ->
  rows_end (ggs_loop sw tl (g + (sw - d))) sw (post sw tl) dlen = rows_end g d tl dlen.
Proof.
  induction tl as [|[g' d'] tl IH]; intros g d Hwf Hsw; cbn [ggs_loop post rows_end].
  - lia.
  - apply wf_two_inv in Hwf as (A & B & C & D & E).
    destruct (Z.ltb_spec sw d') as [Hlt|Hge]; [reflexivity|].
    apply IH; [exact E|lia].
Qed.

(* ---------- (2) cut *)

Lemma topidx_at_last last dlen top : forall tl g o,
  rows_wf ((g, o) :: tl) dlen top -> g = last -> topidx last g o tl dlen = o.
Proof.
  intros tl g o Hwf ->. destruct tl as [|[g' o'] tl]; cbn [topidx].
  - rewrite rows_wf_one in Hwf. lia.
  - apply wf_two_inv in Hwf as (A & B & C & D & E).
    assert (Eg : (g' >? last) = true) by (rewrite Z.gtb_ltb; apply Z.ltb_lt; lia).
    rewrite Eg. lia.
Qed.

Lemma topidx_range last dlen top : forall tl g o,
  rows_wf ((g, o) :: tl) dlen top -> g < last ->
  o < topidx last g o tl dlen <= dlen.
Proof.
  induction tl as [|[g' o'] tl IH]; intros g o Hwf Hg; cbn [topidx].
  - rewrite rows_wf_one in Hwf. lia.
  - apply wf_two_inv in Hwf as (A & B & C & D & E).
    destruct (Z.ltb_spec last g') as [H1|H1].
    + assert (Eg : (g' >? last) = true) by (rewrite Z.gtb_ltb; apply Z.ltb_lt; lia). rewrite Eg. lia.
    + assert (Eg : (g' >? last) = false) by (rewrite Z.gtb_ltb; apply Z.ltb_ge; lia). rewrite Eg.
      destruct (Z.eq_dec g' last) as [E0|N0].
      * rewrite (topidx_at_last last dlen top tl g' o' E E0). lia.
      * specialize (IH g' o' E ltac:(lia)). lia.
Qed.

Lemma nth_firstn_lt (data : list Z) T i : 0 <= i < T ->
  nth_error (firstn (Z.to_nat T) data) (Z.to_nat i) = nth_error data (Z.to_nat i).
Proof. intros Hi. apply nth_error_firstn_lt. lia. Qed.

Lemma zlen_firstn (data : list Z) T : 0 <= T <= zlen data -> zlen (firstn (Z.to_nat T) data) = T.
Proof. intros H. unfold zlen in *. rewrite firstn_length. lia. Qed.

Lemma cut_lookup data last top : forall tl g o,
  rows_wf ((g, o) :: tl) (zlen data) top -> g < last ->
  let T := topidx last g o tl (zlen data) in
  rows_wf ((g, o) :: keep last tl) T last /\
  forall r, rows_lookup ((g, o) :: keep last tl) (firstn (Z.to_nat T) data) r =
            if r <? last then rows_lookup ((g, o) :: tl) data r else None.
Proof.
  induction tl as [|[g' o'] tl IH]; intros g o Hwf Hg.
  - cbn [topidx keep]. rewrite rows_wf_one in *. split; [lia|]. intros r. rewrite !rl_one.
    rewrite zlen_firstn by lia.
    destruct (Z.ltb_spec r last) as [Hr|Hr].
    + destruct ((g <=? r) && (r <? g + (zlen data - o))) eqn:E.
      * apply andb_true_iff in E as [E1 E2]. apply Z.leb_le in E1. apply Z.ltb_lt in E2.
        replace ((g <=? r) && (r <? g + (o + Z.min (last - g) (zlen data - o) - o))) with true
          by (symmetry; apply andb_true_iff; split; [apply Z.leb_le|apply Z.ltb_lt]; lia).
        apply nth_firstn_lt. lia.
      * replace ((g <=? r) && (r <? g + (o + Z.min (last - g) (zlen data - o) - o))) with false; [reflexivity|].
        symmetry. apply andb_false_iff. apply andb_false_iff in E as [E|E]; [left; exact E|right].
        apply Z.ltb_ge in E. apply Z.ltb_ge. lia.
    + replace ((g <=? r) && (r <? g + (o + Z.min (last - g) (zlen data - o) - o))) with false; [reflexivity|].
      symmetry. apply andb_false_iff. right. apply Z.ltb_ge. lia.
  - pose proof Hwf as Hwf0. apply wf_two_inv in Hwf as (A & B & C & D & E).
    destruct (Z.ltb_spec g' last) as [H1|H1].
    + (* the next block starts inside the window: keep it *)
      assert (Eg : (g' >? last) = false) by (rewrite Z.gtb_ltb; apply Z.ltb_ge; lia).
      cbn [topidx keep]. rewrite Eg. assert (Eg' : (g' <? last) = true) by (apply Z.ltb_lt; lia). rewrite Eg'.
      destruct (IH g' o' E H1) as (I1 & I2).
      pose proof (topidx_range last (zlen data) top tl g' o' E H1) as HT.
      split.
      * rewrite rows_wf_two. split; [lia|]. split; [lia|exact I1].
      * intros r. rewrite !rl_two. rewrite I2.
        destruct ((g <=? r) && (r <? g + (o' - o))) eqn:E0; [|reflexivity].
        apply andb_true_iff in E0 as [E1 E2]. apply Z.leb_le in E1. apply Z.ltb_lt in E2.
        assert (Er : (r <? last) = true) by (apply Z.ltb_lt; lia). rewrite Er.
        apply nth_firstn_lt. lia.
    + (* the next block starts at or after last: the cut ends inside this block *)
      assert (Eg' : (g' <? last) = false) by (apply Z.ltb_ge; lia).
      assert (ET : topidx last g o ((g', o') :: tl) (zlen data) = o + Z.min (last - g) (o' - o)).
      { cbn [topidx]. destruct (Z.eq_dec g' last) as [E0|N0].
        - assert (Eg : (g' >? last) = false) by (rewrite Z.gtb_ltb; apply Z.ltb_ge; lia). rewrite Eg.
          rewrite (topidx_at_last last (zlen data) top tl g' o' E E0). lia.
        - assert (Eg : (g' >? last) = true) by (rewrite Z.gtb_ltb; apply Z.ltb_lt; lia). rewrite Eg. reflexivity. }
      cbv zeta. rewrite ET. cbn [keep]. rewrite Eg'.
      split; [rewrite rows_wf_one; lia|]. intros r. rewrite rl_one, rl_two.
      rewrite zlen_firstn by lia.
      destruct (Z.ltb_spec r last) as [Hr|Hr].
      * rewrite (rows_lookup_below tl g' o' data top r E) by lia.
        destruct ((g <=? r) && (r <? g + (o' - o))) eqn:E0.
        -- apply andb_true_iff in E0 as [E1 E2]. apply Z.leb_le in E1. apply Z.ltb_lt in E2.
           replace ((g <=? r) && (r <? g + (o + Z.min (last - g) (o' - o) - o))) with true
             by (symmetry; apply andb_true_iff; split; [apply Z.leb_le|apply Z.ltb_lt]; lia).
           apply nth_firstn_lt. lia.
        -- replace ((g <=? r) && (r <? g + (o + Z.min (last - g) (o' - o) - o))) with false; [reflexivity|].
           symmetry. apply andb_false_iff. apply andb_false_iff in E0 as [E0|E0]; [left; exact E0|right].
           apply Z.ltb_ge in E0. apply Z.ltb_ge. lia.
      * replace ((g <=? r) && (r <? g + (o + Z.min (last - g) (o' - o) - o))) with false; [reflexivity|].
        symmetry. apply andb_false_iff. right. apply Z.ltb_ge. lia.
Qed.

(* when the cut keeps all the data, it keeps all the blocks *)
Lemma keep_all last dlen top : forall tl g o,
  rows_wf ((g, o) :: tl) dlen top -> g < last -> topidx last g o tl dlen = dlen -> keep last tl = tl.
Proof.
  induction tl as [|[g' o'] tl IH]; intros g o Hwf Hg HT; [reflexivity|].
  apply wf_two_inv in Hwf as (A & B & C & D & E). cbn [topidx keep] in *.
  destruct (Z.ltb_spec last g') as [H1|H1].
  - assert (Eg : (g' >? last) = true) by (rewrite Z.gtb_ltb; apply Z.ltb_lt; lia). rewrite Eg in HT. lia.
  - assert (Eg : (g' >? last) = false) by (rewrite Z.gtb_ltb; apply Z.ltb_ge; lia). rewrite Eg in HT.
    destruct (Z.eq_dec g' last) as [E0|N0].
    + rewrite (topidx_at_last last dlen top tl g' o' E E0) in HT. lia.
    + assert (Eg' : (g' <? last) = true) by (apply Z.ltb_lt; lia). rewrite Eg'.
      f_equal. apply (IH g' o' E); [lia|exact HT].
Qed.

(* ---------- what lies at and beyond the cut *)

Lemma ggs_loop_stop dlen top sw : forall tl g d acc,
  rows_wf ((g, d) :: tl) dlen top -> sw <= d -> ggs_loop sw tl acc = acc.
Proof.
  intros tl g d acc Hwf Hsw. destruct tl as [|[g' d'] tl]; [reflexivity|].
  apply wf_two_inv in Hwf as (A & B & C & D & E). cbn [ggs_loop].
  destruct (Z.ltb_spec sw d'); [reflexivity|lia].
Qed.

(* the sample at the cut index is at or beyond last; nothing lies between last and it *)
Lemma topidx_gap data last top : forall tl g o,
  rows_wf ((g, o) :: tl) (zlen data) top -> g < last ->
  let T := topidx last g o tl (zlen data) in
  (T < zlen data ->
     last <= ggs_loop T tl (g + (T - o)) /\
     forall r, last <= r < ggs_loop T tl (g + (T - o)) -> rows_lookup ((g, o) :: tl) data r = None) /\
  (T = zlen data -> forall r, last <= r -> rows_lookup ((g, o) :: tl) data r = None).
Proof.
  induction tl as [|[g' o'] tl IH]; intros g o Hwf Hg.
  - cbn [topidx ggs_loop]. rewrite rows_wf_one in Hwf. split.
    + intros HT. split; [lia|]. intros r Hr. lia.
    + intros HT r Hr. rewrite rl_one. zb; try reflexivity; lia.
  - pose proof Hwf as Hwf0. apply wf_two_inv in Hwf as (A & B & C & D & E).
    cbn [topidx]. destruct (Z.ltb_spec last g') as [H1|H1].
    + assert (Eg : (g' >? last) = true) by (rewrite Z.gtb_ltb; apply Z.ltb_lt; lia). rewrite Eg.
      cbv zeta. split; [|intros HT; lia]. intros _.
      set (T := o + Z.min (last - g) (o' - o)). cbn [ggs_loop].
      destruct (Z.ltb_spec T o') as [H2|H2].
      * split; [unfold T in *; lia|]. intros r Hr. unfold T in *. lia.
      * assert (HT : T = o') by (unfold T in *; lia). rewrite HT.
        replace (g' + (o' - o')) with g' by lia.
        rewrite (ggs_loop_stop (zlen data) top o' tl g' o' g' E) by lia.
        split; [lia|]. intros r Hr. rewrite rl_two.
        rewrite (rows_lookup_below tl g' o' data top r E) by lia.
        unfold T in *. zb; try reflexivity; lia.
    + assert (Eg : (g' >? last) = false) by (rewrite Z.gtb_ltb; apply Z.ltb_ge; lia). rewrite Eg.
      destruct (Z.eq_dec g' last) as [E0|N0].
      * (* the block starts exactly at last *)
        rewrite (topidx_at_last last (zlen data) top tl g' o' E E0). cbv zeta.
        split; [|intros HT; lia]. intros _. cbn [ggs_loop].
        destruct (Z.ltb_spec o' o'); [lia|]. replace (g' + (o' - o')) with g' by lia.
        rewrite (ggs_loop_stop (zlen data) top o' tl g' o' g' E) by lia.
        split; [lia|]. intros r Hr. lia.
      * destruct (IH g' o' E ltac:(lia)) as (I1 & I2).
        pose proof (topidx_range last (zlen data) top tl g' o' E ltac:(lia)) as HT.
        cbv zeta. split.
        -- intros Hlt. destruct (I1 Hlt) as (J1 & J2). cbn [ggs_loop].
           destruct (Z.ltb_spec (topidx last g' o' tl (zlen data)) o'); [lia|].
           split; [exact J1|]. intros r Hr. rewrite rl_two. rewrite (J2 r Hr).
           zb; try reflexivity; lia.
        -- intros Heq r Hr. rewrite rl_two. rewrite (I2 Heq r Hr). zb; try reflexivity; lia.
Qed.

(* ---------- (3) translate *)

Lemma skipn_nth (data : list Z) sw i : 0 <= sw -> 0 <= i ->
  nth_error (skipn (Z.to_nat sw) data) (Z.to_nat i) = nth_error data (Z.to_nat (sw + i)).
Proof. intros Hs Hi. rewrite nth_error_skipn_add. f_equal. lia. Qed.

Lemma zlen_skipn (data : list Z) sw : 0 <= sw <= zlen data -> zlen (skipn (Z.to_nat sw) data) = zlen data - sw.
Proof. intros H. unfold zlen in *. rewrite skipn_length. lia. Qed.

Lemma tr_lookup start sw data top : 0 <= sw -> forall tl g o,
  rows_wf ((g, o) :: tl) (zlen data) top -> sw <= o ->
  rows_wf (map (tr start sw) ((g, o) :: tl)) (zlen data - sw) (start + top) /\
  forall r, rows_lookup (map (tr start sw) ((g, o) :: tl)) (skipn (Z.to_nat sw) data) (start + r) =
            rows_lookup ((g, o) :: tl) data r.
Proof.
  intros Hsw0. induction tl as [|[g' o'] tl IH]; intros g o Hwf Hsw.
  - unfold tr. cbn [map fst snd]. rewrite rows_wf_one in *. split; [lia|]. intros r. rewrite !rl_one.
    rewrite zlen_skipn by lia.
    replace (zlen data - sw - (o - sw)) with (zlen data - o) by lia.
    replace (o - sw + (start + r - (g + start))) with (o - sw + (r - g)) by lia.
    zb; try reflexivity; try lia.
    rewrite skipn_nth by lia. f_equal. lia.
  - apply wf_two_inv in Hwf as (A & B & C & D & E).
    destruct (IH g' o' E ltac:(lia)) as (I1 & I2).
    change (map (tr start sw) ((g, o) :: (g', o') :: tl))
      with ((g + start, o - sw) :: map (tr start sw) ((g', o') :: tl)) in *.
    change (map (tr start sw) ((g', o') :: tl)) with ((g' + start, o' - sw) :: map (tr start sw) tl) in *.
    split.
    + rewrite rows_wf_two. split; [lia|]. split; [lia|exact I1].
    + intros r. rewrite !rl_two.
      change ((g' + start, o' - sw) :: map (tr start sw) tl) with (map (tr start sw) ((g', o') :: tl)).
      rewrite I2.
      replace (o' - sw - (o - sw)) with (o' - o) by lia.
      replace (o - sw + (start + r - (g + start))) with (o - sw + (r - g)) by lia.
      zb; try reflexivity; try lia.
      rewrite skipn_nth by lia. f_equal. lia.
Qed.

Lemma rows_end_tr start sw dlen : forall tl g o,
  rows_end (g + start) (o - sw) (map (tr start sw) tl) (dlen - sw) = start + rows_end g o tl dlen.
Proof.
  induction tl as [|[g' o'] tl IH]; intros g o; unfold tr; cbn [map fst snd rows_end]; [lia|apply IH].
Qed.

(* ---------- validity of the arrays is rows_wf *)

Lemma wf_not_bad vlen top : forall tl g d,
  rows_wf ((g, d) :: tl) vlen top -> bad_blocks false vlen d g tl = false.
Proof.
  induction tl as [|[g' d'] tl IH]; intros g d Hwf; cbn [bad_blocks]; [reflexivity|].
  apply wf_two_inv in Hwf as (A & B & C & D & E). rewrite (IH g' d' E). cbn [negb andb].
  rewrite !Z.geb_leb, Z.gtb_ltb.
  destruct (Z.leb_spec vlen d'); [lia|]. destruct (Z.leb_spec d' d); [lia|].
  destruct (Z.leb_spec g' g); [lia|]. destruct (Z.ltb_spec (g' - g) (d' - d)); [lia|]. reflexivity.
Qed.

Lemma not_bad_wf vlen : forall tl g d, 0 <= d < vlen ->
  bad_blocks false vlen d g tl = false -> rows_wf ((g, d) :: tl) vlen (rows_end g d tl vlen).
Proof.
  induction tl as [|[g' d'] tl IH]; intros g d Hd Hb; cbn [rows_end].
  - rewrite rows_wf_one. lia.
  - cbn [bad_blocks negb andb] in Hb. rewrite !Z.geb_leb, Z.gtb_ltb in Hb.
    apply orb_false_iff in Hb as [Hb Hb3]. apply orb_false_iff in Hb as [Hb0 Hb].
    apply orb_false_iff in Hb as [Hb Hb2]. apply orb_false_iff in Hb as [Hb1 Hb].
    apply Z.leb_gt in Hb0, Hb1, Hb. apply Z.ltb_ge in Hb2.
    rewrite rows_wf_two. split; [lia|]. split; [lia|]. apply IH; [lia|exact Hb3].
Qed.

Lemma valid_arrays_wf gi vlen bl : valid_arrays gi vlen bl = true ->
  exists g0 tl, bl = (g0, 0) :: tl /\ gi <= g0 /\ 0 < vlen /\
                rows_wf ((g0, 0) :: tl) vlen (rows_end g0 0 tl vlen).
Proof.
  unfold valid_arrays. destruct bl as [|[g0 d0] tl]; [discriminate|]. intros H.
  apply andb_true_iff in H as [H H3]. apply andb_true_iff in H as [H1 H2].
  apply Z.eqb_eq in H1. subst d0. apply negb_true_iff in H2, H3. apply Z.ltb_ge in H2.
  cbn [bad_blocks negb andb orb] in H3. rewrite Z.geb_leb in H3. rewrite orb_false_r in H3.
  apply orb_false_iff in H3 as [H3 H4]. apply Z.leb_gt in H3.
  exists g0, tl. split; [reflexivity|]. split; [exact H2|]. split; [lia|].
  apply not_bad_wf; [lia|exact H4].
Qed.

(* ---------- pass 1 *)

Definition p1_upd (first cf : bool) (next last g d : Z) (st : pass1) : pass1 :=
  {| p_err := false;
     p_rows := if first then (if cf then p_rows st + 1 else p_rows st)
               else if (next <? p_psmp st + (d - p_pidx st)) && (last >? g) then p_rows st + 1
               else p_rows st;
     p_bottom := if (g >? next) && (p_bottom st =? -1) then
                   (if first then 0
                    else if p_psmp st + (d - p_pidx st) <? next then d
                    else p_pidx st + (next - p_psmp st))
                 else p_bottom st;
     p_top := if (g >? last) && (p_top st =? -1) then
                (if last >? p_psmp st + (d - p_pidx st) then d
                 else p_pidx st + (last - p_psmp st))
              else p_top st;
     p_pidx := d; p_psmp := g |}.

Lemma pass1_cons first cf vlen next last g d tl st :
  d < vlen ->
  (first = false -> p_pidx st < d /\ p_psmp st < g /\ d - p_pidx st <= g - p_psmp st) ->
  pass1_loop first cf vlen next last ((g, d) :: tl) st =
  pass1_loop false cf vlen next last tl (p1_upd first cf next last g d st).
Proof.
  intros Hd Hc. cbn [pass1_loop].
  assert (E1 : (d >=? vlen) = false) by (rewrite Z.geb_leb; apply Z.leb_gt; lia). rewrite E1.
  destruct first; cbn [negb andb]; [reflexivity|].
  destruct (Hc eq_refl) as (C1 & C2 & C3).
  assert (E2 : (p_pidx st >=? d) = false) by (rewrite Z.geb_leb; apply Z.leb_gt; lia).
  assert (E3 : (p_psmp st >=? g) = false) by (rewrite Z.geb_leb; apply Z.leb_gt; lia).
  assert (E4 : (d - p_pidx st >? g - p_psmp st) = false) by (rewrite Z.gtb_ltb; apply Z.ltb_ge; lia).
  rewrite E2, E3, E4. reflexivity.
Qed.

Section Pass1.
Variables (cf : bool) (vlen next last sw top : Z).

Let run (tl : list (Z * Z)) (st : pass1) := pass1_loop false cf vlen next last tl st.

Lemma run_cons g d tl st : rows_wf ((p_psmp st, p_pidx st) :: (g, d) :: tl) vlen top ->
  run ((g, d) :: tl) st = run tl (p1_upd false cf next last g d st).
Proof.
  intros Hwf. apply wf_two_inv in Hwf as (A & B & C & D & E). unfold run.
  apply pass1_cons; [lia|]. intros _. lia.
Qed.

Lemma p1_rows : forall tl st, rows_wf ((p_psmp st, p_pidx st) :: tl) vlen top ->
  p_rows st <= p_rows (run tl st).
Proof.
  induction tl as [|[g d] tl IH]; intros st Hwf; [unfold run; cbn [pass1_loop]; lia|].
  rewrite (run_cons g d tl st Hwf). apply wf_two_inv in Hwf as (A & B & C & D & E).
  eapply Z.le_trans; [|apply IH; exact E].
  cbn [p1_upd p_rows]. destruct ((next <? p_psmp st + (d - p_pidx st)) && (last >? g)); lia.
Qed.

Lemma p1_bottom_keep : forall tl st, rows_wf ((p_psmp st, p_pidx st) :: tl) vlen top ->
  p_bottom st <> -1 -> p_bottom (run tl st) = p_bottom st.
Proof.
  induction tl as [|[g d] tl IH]; intros st Hwf Hb; [reflexivity|].
  rewrite (run_cons g d tl st Hwf). apply wf_two_inv in Hwf as (A & B & C & D & E).
  assert (Eb : (p_bottom st =? -1) = false) by (apply Z.eqb_neq; exact Hb).
  assert (Es : p_bottom (p1_upd false cf next last g d st) = p_bottom st).
  { cbn [p1_upd p_bottom]. rewrite Eb, andb_false_r. reflexivity. }
  rewrite IH; [exact Es|exact E|rewrite Es; exact Hb].
Qed.

Lemma p1_top_keep : forall tl st, rows_wf ((p_psmp st, p_pidx st) :: tl) vlen top ->
  p_top st <> -1 -> p_top (run tl st) = p_top st.
Proof.
  induction tl as [|[g d] tl IH]; intros st Hwf Hb; [reflexivity|].
  rewrite (run_cons g d tl st Hwf). apply wf_two_inv in Hwf as (A & B & C & D & E).
  assert (Eb : (p_top st =? -1) = false) by (apply Z.eqb_neq; exact Hb).
  assert (Es : p_top (p1_upd false cf next last g d st) = p_top st).
  { cbn [p1_upd p_top]. rewrite Eb, andb_false_r. reflexivity. }
  rewrite IH; [exact Es|exact E|rewrite Es; exact Hb].
Qed.

Definition bottom_of (st : pass1) : Z :=
  if p_bottom st =? -1 then p_pidx st + (next - p_psmp st) else p_bottom st.

Definition top_of (st : pass1) : Z :=
  if p_top st =? -1 then
    (if last <? p_psmp st + (vlen - p_pidx st) then p_pidx st + (last - p_psmp st)
     else p_pidx st + (p_psmp st + (vlen - p_pidx st) - p_psmp st))
  else p_top st.

(* bottom comes out as sw *)
Lemma p1_bottom : forall tl st, rows_wf ((p_psmp st, p_pidx st) :: tl) vlen top ->
  p_bottom st = -1 -> p_pidx st <= sw -> 0 <= sw ->
  next = ggs_loop sw tl (p_psmp st + (sw - p_pidx st)) ->
  bottom_of (run tl st) = sw.
Proof.
  induction tl as [|[g d] tl IH]; intros st Hwf Hb Hp Hsw Hn.
  - unfold run, bottom_of. cbn [pass1_loop ggs_loop] in *. rewrite Hb, Z.eqb_refl. lia.
  - rewrite (run_cons g d tl st Hwf). pose proof Hwf as Hwf0.
    apply wf_two_inv in Hwf as (A & B & C & D & E). cbn [ggs_loop] in Hn.
    revert Hn. destruct (Z.ltb_spec sw d) as [Hlt|Hge]; intros Hn.
    + (* sw lies in the previous block: bottom is found here *)
      assert (Es : p_bottom (p1_upd false cf next last g d st) = sw).
      { cbn [p1_upd p_bottom]. rewrite Hb, Z.eqb_refl. rewrite Z.gtb_ltb.
        destruct (Z.ltb_spec next g); [|lia]. cbn [andb].
        destruct (Z.ltb_spec (p_psmp st + (d - p_pidx st)) next); lia. }
      unfold bottom_of. rewrite p1_bottom_keep; [|exact E|rewrite Es; lia].
      rewrite Es. destruct (Z.eqb_spec sw (-1)); [lia|reflexivity].
    + pose proof (ggs_loop_ge vlen top sw tl g d E ltac:(lia)) as Hm.
      apply IH; try assumption.
      cbn [p1_upd p_bottom]. rewrite Z.gtb_ltb. destruct (Z.ltb_spec next g); [lia|]. exact Hb.
Qed.

(* top comes out as topidx *)
Lemma p1_top : forall tl st, rows_wf ((p_psmp st, p_pidx st) :: tl) vlen top ->
  p_top st = -1 -> p_psmp st <= last ->
  top_of (run tl st) = topidx last (p_psmp st) (p_pidx st) tl vlen.
Proof.
  induction tl as [|[g d] tl IH]; intros st Hwf Hb Hp.
  - unfold run, top_of. cbn [pass1_loop topidx]. rewrite Hb, Z.eqb_refl.
    rewrite rows_wf_one in Hwf.
    destruct (Z.ltb_spec last (p_psmp st + (vlen - p_pidx st))); lia.
  - rewrite (run_cons g d tl st Hwf). pose proof Hwf as Hwf0.
    apply wf_two_inv in Hwf as (A & B & C & D & E). cbn [topidx].
    destruct (Z.ltb_spec last g) as [Hlt|Hge].
    + assert (Eg : (g >? last) = true) by (rewrite Z.gtb_ltb; apply Z.ltb_lt; lia). rewrite Eg.
      assert (Es : p_top (p1_upd false cf next last g d st) =
                   p_pidx st + Z.min (last - p_psmp st) (d - p_pidx st)).
      { cbn [p1_upd p_top]. rewrite Hb, Eg, Z.eqb_refl. cbn [andb]. rewrite Z.gtb_ltb.
        destruct (Z.ltb_spec (p_psmp st + (d - p_pidx st)) last); lia. }
      unfold top_of. rewrite p1_top_keep; [|exact E|rewrite Es; lia].
      rewrite Es. destruct (Z.eqb_spec (p_pidx st + Z.min (last - p_psmp st) (d - p_pidx st)) (-1)); [lia|reflexivity].
    + assert (Eg : (g >? last) = false) by (rewrite Z.gtb_ltb; apply Z.ltb_ge; lia). rewrite Eg.
      apply (IH (p1_upd false cf next last g d st)); try assumption.
      cbn [p1_upd p_top]. rewrite Eg. exact Hb.
Qed.

End Pass1.

(* ---------- pass 2 *)

Section Pass2.
Variables (ef : bool) (fr : Z * Z) (start sw next last vlen top : Z).

Let run2 (tl : list (Z * Z)) (pidx psmp : Z) := pass2_loop false ef fr start sw next last tl pidx psmp.

(* beyond last nothing is emitted *)
Lemma p2_beyond : forall tl pidx psmp, rows_wf ((psmp, pidx) :: tl) vlen top ->
  last <= psmp -> run2 tl pidx psmp = [].
Proof.
  induction tl as [|[g d] tl IH]; intros pidx psmp Hwf Hl; [reflexivity|].
  apply wf_two_inv in Hwf as (A & B & C & D & E). unfold run2. cbn [pass2_loop].
  assert (Eg : (last >? g) = false) by (rewrite Z.gtb_ltb; apply Z.ltb_ge; lia).
  rewrite Eg, andb_false_r. cbn [app]. apply (IH d g E). lia.
Qed.

(* after the block that contains sw: the blocks that start before last *)
Lemma p2_after : forall tl pidx psmp, rows_wf ((psmp, pidx) :: tl) vlen top ->
  next - psmp <= sw - pidx -> match tl with (_, d) :: _ => sw < d | [] => True end ->
  run2 tl pidx psmp = map (tr start sw) (keep last tl).
Proof.
  induction tl as [|[g d] tl IH]; intros pidx psmp Hwf Hn Hd; [reflexivity|].
  pose proof Hwf as Hwf0. apply wf_two_inv in Hwf as (A & B & C & D & E).
  unfold run2. cbn [pass2_loop keep].
  assert (E1 : (next <? psmp + (d - pidx)) = true) by (apply Z.ltb_lt; lia). rewrite E1. cbn [andb].
  rewrite Z.gtb_ltb. destruct (Z.ltb_spec g last) as [Hlt|Hge].
  - cbn [map app]. unfold tr at 1. cbn [fst snd]. f_equal. apply (IH d g E); [lia|].
    destruct tl as [|[g2 d2] tl2]; [exact I|]. apply wf_two_inv in E. lia.
  - cbn [map app]. apply (p2_beyond tl d g E). lia.
Qed.

(* up to the block that contains sw: nothing *)
Lemma p2_before : forall tl pidx psmp, rows_wf ((psmp, pidx) :: tl) vlen top ->
  pidx <= sw -> next = ggs_loop sw tl (psmp + (sw - pidx)) ->
  run2 tl pidx psmp = map (tr start sw) (keep last (post sw tl)).
Proof.
  induction tl as [|[g d] tl IH]; intros pidx psmp Hwf Hp Hn; [reflexivity|].
  pose proof Hwf as Hwf0. apply wf_two_inv in Hwf as (A & B & C & D & E).
  cbn [ggs_loop post] in *. revert Hn. destruct (Z.ltb_spec sw d) as [Hlt|Hge]; intros Hn.
  - apply (p2_after ((g, d) :: tl) pidx psmp Hwf0); [lia|exact Hlt].
  - pose proof (ggs_loop_ge vlen top sw tl g d E ltac:(lia)) as Hm.
    unfold run2. cbn [pass2_loop].
    assert (E1 : (next <? psmp + (d - pidx)) = false) by (apply Z.ltb_ge; lia). rewrite E1.
    cbn [andb app]. apply (IH d g E); [lia|exact Hn].
Qed.

End Pass2.

(* ---------- the helper, for valid arrays in chunked mode *)

Theorem crdi_blocks start gi cont sw left cap g0 tl vlen fe top :
  rows_wf ((g0, 0) :: tl) vlen top -> 0 <= sw < vlen -> 0 < left ->
  ((sw =? 0) && (g0 <? gi)) = false ->
  let next := get_global_sample sw ((g0, 0) :: tl) in
  let last := next + left in
  create_rf_data_index start gi true cont sw left cap ((g0, 0) :: tl) vlen next fe =
    Some (Rof start sw next last tl, topidx last g0 0 tl vlen - sw).
Proof.
  intros Hwf Hsw Hl Hg next last.
  assert (Hnext : next = ggs_loop sw tl (g0 + (sw - 0))) by reflexivity.
  pose proof (ggs_loop_ge vlen top sw tl g0 0 Hwf ltac:(lia)) as Hmono. rewrite <- Hnext in Hmono.
  pose proof (wf_first _ _ _ _ _ Hwf) as (Hd0 & _).
  unfold create_rf_data_index. rewrite Hg. rewrite orb_true_r.
  fold last.
  rewrite (pass1_cons true true vlen next last g0 0 tl) by (try lia; discriminate).
  set (st1 := p1_upd true true next last g0 0 _).
  assert (S1 : p_psmp st1 = g0 /\ p_pidx st1 = 0 /\ p_rows st1 = 1 /\ p_bottom st1 = -1 /\ p_top st1 = -1
               /\ p_err st1 = false).
  { unfold st1. cbn [p1_upd p_psmp p_pidx p_rows p_bottom p_top p_err]. rewrite !Z.gtb_ltb.
    destruct (Z.ltb_spec next g0); [lia|]. destruct (Z.ltb_spec last g0); [unfold last in *; lia|].
    cbn [andb]. repeat split; reflexivity. }
  destruct S1 as (Sg & Sd & Sr & Sb & St & Se).
  assert (Hwf1 : rows_wf ((p_psmp st1, p_pidx st1) :: tl) vlen top) by (rewrite Sg, Sd; exact Hwf).
  set (fin := pass1_loop false true vlen next last tl st1).
  assert (Herr : p_err fin = false).
  { unfold fin. rewrite pass1_err by exact Se. rewrite Sg, Sd. apply (wf_not_bad vlen top). exact Hwf. }
  rewrite Herr. cbv zeta.
  change (if p_bottom fin =? -1 then p_pidx fin + (next - p_psmp fin) else p_bottom fin)
    with (bottom_of next fin).
  change (if p_top fin =? -1
          then if last <? p_psmp fin + (vlen - p_pidx fin) then p_pidx fin + (last - p_psmp fin)
               else p_pidx fin + (p_psmp fin + (vlen - p_pidx fin) - p_psmp fin)
          else p_top fin) with (top_of vlen last fin).
  assert (Eb : bottom_of next fin = sw).
  { apply (p1_bottom true vlen next last sw top tl st1 Hwf1 Sb); [rewrite Sd; lia|lia|].
    rewrite Sg, Sd. exact Hnext. }
  assert (Et : top_of vlen last fin = topidx last g0 0 tl vlen).
  { pose proof (p1_top true vlen next last top tl st1 Hwf1 St ltac:(rewrite Sg; unfold last; lia)) as Ht.
    cbv zeta in Ht. rewrite Sg, Sd in Ht. exact Ht. }
  rewrite Eb, Et.
  assert (Hr : 1 <= p_rows fin) by (rewrite <- Sr; exact (p1_rows true vlen next last top tl st1 Hwf1)).
  destruct (Z.eqb_spec (p_rows fin) 0) as [E0|_]; [lia|].
  rewrite andb_false_r. rewrite Z.sub_0_r.
  cbn [pass2_loop app]. unfold Rof. f_equal. f_equal. f_equal.
  apply (p2_before true (next + start, 0) start sw next last vlen top tl 0 g0 Hwf); [lia|exact Hnext].
Qed.

(* ---------- everything the writer needs to know about one per-file step *)

Lemma slice_as_skip_first (vec : list Z) sw T : 0 <= sw <= T ->
  slice vec sw (T - sw) = skipn (Z.to_nat sw) (firstn (Z.to_nat T) vec).
Proof. intros H. unfold slice. rewrite firstn_skipn_comm. f_equal. f_equal. lia. Qed.

Theorem step_index start sw vec g0 tl top left next last T :
  rows_wf ((g0, 0) :: tl) (zlen vec) top -> 0 <= sw < zlen vec -> 0 < left ->
  next = get_global_sample sw ((g0, 0) :: tl) -> last = next + left ->
  T = topidx last g0 0 tl (zlen vec) ->
  let bl := (g0, 0) :: tl in
  let R' := map (tr start sw) (keep last (post sw tl)) in
  g0 + sw <= next /\ sw < T <= zlen vec /\
  rows_wf ((next + start, 0) :: R') (T - sw) (start + last) /\
  (forall r, rows_lookup ((next + start, 0) :: R') (slice vec sw (T - sw)) (start + r) =
             if (next <=? r) && (r <? last) then rows_lookup bl vec r else None) /\
  (T < zlen vec -> last <= get_global_sample T bl /\
                   forall r, last <= r < get_global_sample T bl -> rows_lookup bl vec r = None) /\
  (T = zlen vec -> (forall r, last <= r -> rows_lookup bl vec r = None) /\
                   rows_end (next + start) 0 R' (T - sw) = start + rows_end g0 0 tl (zlen vec)).
Proof.
  intros Hwf Hsw Hl Hnext Hlast HT bl R'.
  assert (Hn' : next = ggs_loop sw tl (g0 + (sw - 0))) by exact Hnext.
  destruct (drop_lookup vec top sw tl g0 0 Hwf ltac:(lia)) as (D1 & D2 & D3).
  rewrite <- Hn' in D1, D2, D3.
  assert (Hnl : next < last) by lia.
  pose proof (topidx_drop last (zlen vec) top sw tl g0 0 Hwf ltac:(lia) ltac:(rewrite <- Hn'; exact Hnl)) as ET.
  rewrite <- Hn', <- HT in ET.
  destruct (cut_lookup vec last top (post sw tl) next sw D2 Hnl) as (C1 & C2).
  rewrite <- ET in C1, C2.
  pose proof (topidx_range last (zlen vec) top (post sw tl) next sw D2 Hnl) as HTr. rewrite <- ET in HTr.
  assert (ER : (next + start, 0) :: R' = map (tr start sw) ((next, sw) :: keep last (post sw tl))).
  { unfold R'. cbn [map]. unfold tr at 2. cbn [fst snd]. rewrite Z.sub_diag. reflexivity. }
  destruct (tr_lookup start sw (firstn (Z.to_nat T) vec) last ltac:(lia) (keep last (post sw tl)) next sw)
    as (X1 & X2); [rewrite zlen_firstn by lia; exact C1|lia|].
  rewrite zlen_firstn in X1 by lia.
  split; [lia|]. split; [lia|]. split; [rewrite ER; exact X1|]. split.
  - intros r. rewrite ER, slice_as_skip_first by lia. rewrite X2, C2.
    destruct (Z.ltb_spec r last); destruct (Z.leb_spec next r); cbn [andb]; try reflexivity.
    + symmetry. apply D3. lia.
    + apply (rows_lookup_below _ _ _ _ top); [exact D2|lia].
  - destruct (topidx_gap vec last top tl g0 0 Hwf ltac:(lia)) as (G1 & G2). rewrite <- HT in G1, G2.
    split.
    + intros Hlt. exact (G1 Hlt).
    + intros Heq. split; [exact (G2 Heq)|].
      unfold R'. rewrite (keep_all last (zlen vec) top (post sw tl) next sw D2 Hnl) by (rewrite <- ET; exact Heq).
      pose proof (rows_end_tr start sw (zlen vec) (post sw tl) next sw) as Hre.
      rewrite Z.sub_diag in Hre. rewrite Heq, Hre. f_equal. rewrite Hn'.
      exact (rows_end_drop (zlen vec) top sw tl g0 0 Hwf ltac:(lia)).
Qed.

(* the model computes the cursor from the last row *)
Lemma rev_rows_end : forall tl g o, exists g1 o1 rest,
  rev ((g, o) :: tl) = (g1, o1) :: rest /\ forall dlen, rows_end g o tl dlen = g1 + (dlen - o1).
Proof.
  induction tl as [|[g' o'] tl IH]; intros g o.
  - exists g, o, []. split; reflexivity.
  - destruct (IH g' o') as (g1 & o1 & rest & E1 & E2). exists g1, o1, (rest ++ [(g, o)]). split.
    + change (rev ((g, o) :: (g', o') :: tl)) with (rev ((g', o') :: tl) ++ [(g, o)]). rewrite E1. reflexivity.
    + intros dlen. cbn [rows_end]. apply E2.
Qed.

Lemma cursor_shift (X start di stw K0 : Z) R' :
  match rev (shift di ((K0, 0) :: R')) with
  | (g, o) :: _ => g - start + (di + stw - o)
  | [] => X
  end = rows_end K0 0 R' stw - start.
Proof.
  destruct (rev_rows_end R' K0 0) as (g1 & o1 & rest & E1 & E2).
  unfold shift. rewrite <- map_rev, E1. cbn [map fst snd]. rewrite E2. lia.
Qed.

Lemma cursor_noshift (X start stw K0 : Z) R' :
  match rev ((K0, 0) :: R') with
  | (g, o) :: _ => g - start + (0 + stw - o)
  | [] => X
  end = rows_end K0 0 R' stw - start.
Proof.
  destruct (rev_rows_end R' K0 0) as (g1 & o1 & rest & E1 & E2). rewrite E1, E2. lia.
Qed.

(* ---------- non-vacuity: the characterisation evaluated on a three-block call (one block of 3 samples,
   one of 1 sample, one of 5), for every iteration offset and a range of window sizes *)

Definition rows_eqb (a b : list (Z * Z)) : bool :=
  (Nat.eqb (length a) (length b)) &&
  forallb (fun p => (fst (fst p) =? fst (snd p)) && (snd (fst p) =? snd (snd p))) (combine a b).

Definition opt_eqb (a b : option Z) : bool :=
  match a, b with Some x, Some y => x =? y | None, None => true | _, _ => false end.

Example crdi_blocks_example :
  let tl := [(5, 3); (20, 4)] in
  let bl := (0, 0) :: tl in
  let vec := [100; 101; 102; 103; 104; 105; 106; 107; 108] in
  forallb (fun sw => forallb (fun left =>
    let next := get_global_sample sw bl in
    let last := next + left in
    let T := topidx last 0 0 tl 9 in
    match create_rf_data_index 1000 0 true false sw left 77 bl 9 next false with
    | Some (R, stw) =>
      rows_eqb R (Rof 1000 sw next last tl) && (stw =? T - sw) && (0 <? stw) &&
      forallb (fun r => opt_eqb (rows_lookup R (slice vec sw stw) (1000 + r))
                                (if (next <=? r) && (r <? last) then rows_lookup bl vec r else None))
              [-1; 0; 1; 2; 3; 4; 5; 6; 7; 19; 20; 21; 22; 23; 24; 25; 26]
    | None => false
    end) [1; 2; 3; 4; 5; 6; 15; 16; 17; 18; 19; 20; 21; 30]) [0; 1; 2; 3; 4; 5; 6; 7; 8] = true.
Proof. vm_compute. reflexivity. Qed.
