(* C08 / C01: the candidate-file arithmetic of DigitalRFReader._get_file_list regenerated from the
   source (Gen/RfLookupGen.v, translator T8) produces exactly the list of the hand model
   (Model/ReaderCore.v, get_file_list ExactRational): the model's closed form -- first and last
   qualifying position of the arithmetic progression of a subdirectory -- is the filter the code
   applies to np.arange. *)
From Coq Require Import ZArith List Bool Lia.
From DRF Require Import Base.DivLemmas Model.Ld80 Model.ReaderCore Proofs.ReaderProofs Gen.RfLookupGen.
Import ListNotations.
Local Open Scope Z_scope.

(* ---- arithmetic progressions *)
Lemma zseq_nil a len : len <= 0 -> zseq a len = [].
Proof. intros H. unfold zseq. replace (Z.to_nat len) with 0%nat by lia. reflexivity. Qed.

Lemma zseq_cons a len : 0 < len -> zseq a len = a :: zseq (a + 1) (len - 1).
Proof.
  intros H. unfold zseq. replace (Z.to_nat len) with (S (Z.to_nat (len - 1))) by lia.
  cbn [seq map]. f_equal; [lia|]. rewrite <- seq_shift, map_map. apply map_ext. intros i. lia.
Qed.

Lemma zseq_shift a len : zseq a len = map (fun j => a + j) (zseq 0 len).
Proof. unfold zseq. rewrite map_map. apply map_ext. intros i. lia. Qed.

Lemma filter_interval_zseq lo hi : forall n a len, Z.to_nat len = n ->
  filter (fun j => (lo <=? j) && (j <=? hi)) (zseq a len) =
  zseq (Z.max a lo) (Z.min (a + len - 1) hi - Z.max a lo + 1).
Proof.
  induction n as [|n IH]; intros a len Hn.
  - rewrite (zseq_nil a len) by lia. rewrite zseq_nil by lia. reflexivity.
  - rewrite (zseq_cons a len) by lia. cbn [filter].
    rewrite (IH (a + 1) (len - 1)) by lia.
    destruct ((lo <=? a) && (a <=? hi)) eqn:E.
    + apply andb_true_iff in E as [E1 E2]. apply Z.leb_le in E1, E2.
      rewrite (zseq_cons (Z.max a lo)) by lia.
      replace (Z.max a lo) with a by lia. f_equal. f_equal; lia.
    + apply andb_false_iff in E as [E|E]; [apply Z.leb_gt in E|apply Z.leb_gt in E].
      * f_equal; lia.
      * rewrite zseq_nil by lia. rewrite zseq_nil by lia. reflexivity.
Qed.

Lemma filter_map_comm {A B} (f : A -> B) (p : B -> bool) l : filter p (map f l) = map f (filter (fun x => p (f x)) l).
Proof. induction l as [|x l IH]; [reflexivity|]. cbn [map filter]. destruct (p (f x)); cbn [map]; rewrite IH; reflexivity. Qed.

Lemma cdiv_le_iff a b j : 0 < b -> (cdiv a b <= j <-> a <= j * b).
Proof.
  intros Hb. unfold cdiv. pose proof (div_bounds (a + b - 1) b Hb) as (H1 & H2).
  set (q := (a + b - 1) / b) in *. split; intros H; nia.
Qed.

Lemma le_div_iff a b j : 0 < b -> (j <= a / b <-> j * b <= a).
Proof.
  intros Hb. pose proof (div_bounds a b Hb) as (H1 & H2). set (q := a / b) in *. split; intros H; nia.
Qed.

(* np.arange(lo, hi, step) for step > 0 *)
Definition arange (lo hi step : Z) : list Z := map (fun j => lo + j * step) (zseq 0 (cdiv (hi - lo) step)).

Definition gen_file_list (c : cfg) (s e : Z) : list (Z * Z) :=
  let n := rn c in let d := rd c in let scv := scad c in let fcv := fcad c in
  let start_ms := gen_start_ms n d scv fcv s in
  let end_ms := gen_end_ms n d scv fcv e in
  let '(lo, hi, step) := gen_sub_range scv fcv (gen_start_sub n d scv fcv s) (gen_end_sub n d scv fcv e) in
  flat_map (fun sub =>
      let '(l2, h2, s2) := gen_file_range scv fcv sub in
      map (fun ms => (sub, ms)) (filter (gen_valid scv fcv start_ms end_ms) (arange l2 h2 s2)))
    (arange lo hi step).

Lemma subdir_regen c start_ms end_ms sub : 0 < fcad c ->
  map (fun ms => (sub, ms))
      (filter (gen_valid (scad c) (fcad c) start_ms end_ms) (arange (sub * 1000) ((sub + scad c) * 1000) (fcad c)))
  = subdir_files c start_ms end_ms sub.
Proof.
  intros Hf. unfold arange, subdir_files. rewrite filter_map_comm, map_map.
  replace ((sub + scad c) * 1000 - sub * 1000) with (scad c * 1000) by lia.
  set (q := cdiv (scad c * 1000) (fcad c)).
  set (jl := cdiv (start_ms - (fcad c - 1) - sub * 1000) (fcad c)).
  set (jh := (end_ms - sub * 1000) / fcad c).
  rewrite (filter_ext _ (fun j => (jl <=? j) && (j <=? jh))).
  2:{ intros j. unfold gen_valid. rewrite Z.geb_leb.
      assert (E1 : (start_ms <=? sub * 1000 + j * fcad c + fcad c - 1) = (jl <=? j)).
      { apply eq_true_iff_eq. rewrite !Z.leb_le. unfold jl. rewrite (cdiv_le_iff _ _ j Hf). lia. }
      assert (E2 : (sub * 1000 + j * fcad c <=? end_ms) = (j <=? jh)).
      { apply eq_true_iff_eq. rewrite !Z.leb_le. unfold jh. rewrite (le_div_iff _ _ j Hf). lia. }
      rewrite E1, E2. reflexivity. }
  rewrite (filter_interval_zseq jl jh (Z.to_nat q) 0 q eq_refl).
  replace (0 + q - 1) with (q - 1) by lia. apply map_ext. intros j. reflexivity.
Qed.

Theorem get_file_list_regen c s e : 0 < fcad c -> 0 < scad c ->
  gen_file_list c s e = get_file_list ExactRational c s e.
Proof.
  intros Hf Hs. unfold gen_file_list, get_file_list, gen_sub_range, gen_file_range,
    gen_start_ms, gen_end_ms, gen_start_sub, gen_end_sub, sample_secs, sample_ms. cbv zeta.
  set (i0 := s * rd c / rn c / scad c). set (i1 := (e * rd c / rn c + 1) / scad c).
  assert (Eo : arange (i0 * scad c) (i1 * scad c + scad c) (scad c) = map (fun i => i * scad c) (zseq i0 (i1 - i0 + 1))).
  { unfold arange.
    replace (i1 * scad c + scad c - i0 * scad c) with ((i1 - i0 + 1) * scad c) by lia.
    assert (Ec : cdiv ((i1 - i0 + 1) * scad c) (scad c) = i1 - i0 + 1).
    { unfold cdiv. replace ((i1 - i0 + 1) * scad c + scad c - 1) with ((scad c - 1) + (i1 - i0 + 1) * scad c) by lia.
      rewrite Z.div_add by lia. rewrite Z.div_small by lia. lia. }
    rewrite Ec, (zseq_shift i0), map_map. apply map_ext. intros j. lia. }
  rewrite Eo. rewrite !flat_map_concat_map, map_map. f_equal.
  apply map_ext. intros i. apply subdir_regen. exact Hf.
Qed.
