From Coq Require Import ZArith List Bool.
From DRF Require Import Model.FillValue.
Import ListNotations.
Local Open Scope Z_scope.

(* complete enumeration of the finite domain, by computation *)
Lemma all_cells_ok : forallb cell_ok all_cells = true.
Proof. vm_compute. reflexivity. Qed.

Lemma fill_decodes_to_missing c : In c all_cells -> cell_ok c = true.
Proof. intros H. exact (proj1 (forallb_forall cell_ok all_cells) all_cells_ok c H). Qed.

Lemma all_cells_complete k sz be cx :
  In (k, sz) [(KI, 1); (KI, 2); (KI, 4); (KI, 8); (KU, 1); (KU, 2); (KU, 4); (KU, 8); (KF, 4); (KF, 8)] ->
  In (mkCell k sz be cx) all_cells.
Proof.
  intros H. unfold all_cells. apply in_flat_map. exists (k, sz). split; [exact H|].
  apply in_flat_map. exists be. split; [destruct be; simpl; auto|].
  apply in_map_iff. exists cx. split; [reflexivity|destruct cx; simpl; auto].
Qed.

(* the variant that passes native NaN bytes for every float is wrong exactly on big-endian floats *)
Lemma native_nan_refuted :
  exists c, In c all_cells /\
    forallb (fun comp => is_missing c (raw_value c comp)) (components c (component_image_native_nan c)) = false.
Proof. exists (mkCell KF 4 true false). split; [apply all_cells_complete; simpl; auto 20|vm_compute; reflexivity]. Qed.
