(* The reader model's first_sample / last_sample (Model/ReaderCore.v) are the code regenerated from
   _top_level_dir_properties._get_first_sample / _get_last_sample (Gen/BoundsGen.v, translator T16), and hence
   get_bounds of a channel is computed from the regenerated functions. *)
From Coq Require Import ZArith List Lia.
From DRF Require Import Model.ReaderCore Gen.BoundsGen.
Import ListNotations.
Local Open Scope Z_scope.

Lemma last_map_some_nonempty {A} (x : A) l : exists r, last (map Some (x :: l)) None = Some r.
Proof.
  revert x; induction l as [|y l IH]; intro x; cbn [map last].
  - eexists; reflexivity.
  - destruct (IH y) as [r Hr]. exists r. cbn [map] in Hr.
    destruct (map Some l) eqn:E; cbn [last] in *; exact Hr.
Qed.

Section B.
Context {V : Type}.
Implicit Type f : @rfile V.

Theorem first_sample_regen : forall f, first_sample f = gen_get_first_sample (findex f) (dlen f).
Proof.
  intro f. unfold first_sample, gen_get_first_sample. destruct (findex f) as [|[g o] l]; [reflexivity|].
  destruct (last_map_some_nonempty (g, o) l) as [r Hr]. rewrite Hr. reflexivity.
Qed.

Theorem last_sample_regen : forall f, last_sample f = gen_get_last_sample (findex f) (dlen f).
Proof.
  intro f. unfold last_sample, gen_get_last_sample. destruct (findex f) as [|[g o] l]; [reflexivity|].
  destruct (last_map_some_nonempty (g, o) l) as [[g' o'] Hr]. rewrite Hr. reflexivity.
Qed.

Theorem get_bounds_regen : forall fs : list (@rfile V),
  get_bounds fs = (first_some (fun f => gen_get_first_sample (findex f) (dlen f)) fs,
                   last_some (fun f => gen_get_last_sample (findex f) (dlen f)) fs).
Proof.
  intro fs. unfold get_bounds. f_equal.
  - induction fs as [|f fs IH]; cbn [first_some]; [reflexivity|]. rewrite first_sample_regen, IH. reflexivity.
  - induction fs as [|f fs IH]; cbn [last_some]; [reflexivity|]. rewrite last_sample_regen, IH. reflexivity.
Qed.
End B.

Example bounds_regen_example :
  gen_get_last_sample [(100, 0); (150, 20)] 30 = Some 159 /\ gen_get_first_sample [(100, 0); (150, 20)] 30 = Some 100
  /\ gen_get_last_sample [] 0 = None.
Proof. repeat split. Qed.
