(* The writer invariant and the refinement to the Spec `index -> written value`, for single-block
   calls (rf_write, digital_rf_write_hdf5, every continuous-mode call) in chunked mode
   (gapped, or continuous with compression/checksum).  See Properties/C01.v, C06.v, C19.v. *)
From Coq Require Import ZArith List Bool Lia.
From DRF Require Import Base.DivLemmas Model.LayoutSpec Model.IndexCalc Model.WriterCore
  Proofs.LayoutProofs Proofs.WriterBasics.
Import ListNotations.
Local Open Scope Z_scope.

Definition vcfg (c : cfg) : Prop := 0 < c_n c /\ 0 < c_d c /\ 0 < c_fc c /\ 0 <= c_start c.
Definition Fk (c : cfg) (K : Z) : Z := F_of K (c_n c) (c_d c) (c_fc c).
Definition wlo (c : cfg) (F : Z) : Z := file_start F (c_n c) (c_d c).
Definition whi (c : cfg) (F : Z) : Z := file_start (F + c_fc c) (c_n c) (c_d c).

Lemma Fk_window c K : vcfg c -> wlo c (Fk c K) <= K < whi c (Fk c K).
Proof. intros (Hn & Hd & Hf & _). apply window; assumption. Qed.

Lemma Fk_same c K K' : vcfg c -> (Fk c K' = Fk c K <-> wlo c (Fk c K) <= K' < whi c (Fk c K)).
Proof. intros (Hn & Hd & Hf & _). apply same_file_iff; assumption. Qed.

(* ------------------------------------------------------------------ rows *)

Definition zlen {A} (l : list A) : Z := Z.of_nat (length l).

Fixpoint rows_wf (rows : list (Z * Z)) (dlen top : Z) : Prop :=
  match rows with
  | [] => True
  | (g, o) :: tl =>
    match tl with
    | [] => 0 <= o < dlen /\ g + (dlen - o) <= top
    | (g', o') :: _ => 0 <= o < o' /\ g + (o' - o) <= g' /\ rows_wf tl dlen top
    end
  end.

Lemma rows_lookup_bound rows : forall data k v top,
  rows_wf rows (zlen data) top -> rows_lookup rows data k = Some v -> k < top.
Proof.
  induction rows as [|[g o] tl IH]; intros data k v top Hwf Hl; cbn [rows_lookup] in Hl; [discriminate|].
  cbn [rows_wf] in Hwf. destruct tl as [|[g' o'] tl'].
  - destruct ((g <=? k) && (k <? g + (Z.of_nat (length data) - o))) eqn:E; [|discriminate].
    apply andb_true_iff in E as [E1 E2]. apply Z.ltb_lt in E2. unfold zlen in Hwf. lia.
  - destruct Hwf as (Ho & Hg & Hwf).
    destruct ((g <=? k) && (k <? g + (o' - o))) eqn:E.
    + apply andb_true_iff in E as [E1 E2]. apply Z.ltb_lt in E2.
      assert (Hb := fun v => IH data g' v top Hwf). clear IH.
      (* g' itself is below top: first row of a wf tail *)
      assert (g' < top).
      { clear - Hwf. cbn [rows_wf] in Hwf. destruct tl' as [|[g2 o2] t2].
        - lia.
        - destruct Hwf as (H1 & H2 & H3). revert g' o' H1 H2.
          (* chain down the list *)
          assert (G : forall rs d t g o, rows_wf ((g, o) :: rs) d t -> g < t).
          { induction rs as [|[ga oa] rs IHr]; intros d t g o H; cbn [rows_wf] in H.
            - lia.
            - destruct H as (Ha & Hb & Hc). specialize (IHr d t ga oa Hc). lia. }
          intros g' o' H1 H2. specialize (G t2 (zlen data) top g2 o2 H3). lia. }
      lia.
    + eapply IH; eassumption.
Qed.

Lemma rows_wf_first_lt_top rs : forall d t g o, rows_wf ((g, o) :: rs) d t -> g < t.
Proof.
  induction rs as [|[ga oa] rs IHr]; intros d t g o H; cbn [rows_wf] in H.
  - lia.
  - destruct H as (Ha & Hb & Hc). specialize (IHr d t ga oa Hc). lia.
Qed.

(* appending one row (K, old data length) together with its data *)
Lemma rows_lookup_snoc rows : forall data new K k top,
  rows_wf rows (zlen data) top -> (rows <> [] \/ data = []) -> top <= K ->
  rows_lookup (rows ++ [(K, zlen data)]) (data ++ new) k =
    match rows_lookup rows data k with
    | Some v => Some v
    | None => if (K <=? k) && (k <? K + zlen new) then nth_error new (Z.to_nat (k - K)) else None
    end.
Proof.
  induction rows as [|[g o] tl IH]; intros data new K k top Hwf Hne Htop.
  - destruct Hne as [Hne|Hd]; [congruence|]. subst data. cbn [app rows_lookup].
    change (zlen (@nil Z)) with 0. rewrite Z.sub_0_r, Z.add_0_l. fold (zlen new).
    destruct ((K <=? k) && (k <? K + zlen new)); reflexivity.
  - cbn [app rows_lookup]. cbn [rows_wf] in Hwf. destruct tl as [|[g' o'] tl'].
    + cbn [app rows_lookup]. destruct Hwf as (Ho & Hg).
      destruct ((g <=? k) && (k <? g + (zlen data - o))) eqn:E.
      * unfold zlen in E. rewrite E.
        apply andb_true_iff in E as [E1 E2]. apply Z.leb_le in E1. apply Z.ltb_lt in E2.
        rewrite nth_error_app1 by (apply Nat2Z.inj_lt; rewrite Z2Nat.id by lia; unfold zlen in *; lia).
        destruct (nth_error data (Z.to_nat (o + (k - g)))) eqn:En; [reflexivity|].
        exfalso. apply nth_error_None in En. apply Nat2Z.inj_le in En. rewrite Z2Nat.id in En by lia. lia.
      * unfold zlen in E. rewrite E. unfold zlen.
        rewrite app_length, Nat2Z.inj_add.
        replace (Z.of_nat (length data) + Z.of_nat (length new) - Z.of_nat (length data))
          with (Z.of_nat (length new)) by lia.
        destruct ((K <=? k) && (k <? K + Z.of_nat (length new))) eqn:E2; [|reflexivity].
        apply andb_true_iff in E2 as [E3 E4]. apply Z.leb_le in E3.
        rewrite nth_error_app2 by (apply Nat2Z.inj_le; rewrite Z2Nat.id by lia; lia).
        f_equal. apply Nat2Z.inj. rewrite Nat2Z.inj_sub by (apply Nat2Z.inj_le; rewrite Z2Nat.id by lia; lia).
        rewrite !Z2Nat.id by lia. lia.
    + destruct Hwf as (Ho & Hg & Hwf).
      change (((g', o') :: tl') ++ [(K, zlen data)]) with ((g', o') :: (tl' ++ [(K, zlen data)])).
      cbn [rows_lookup].
      change ((g', o') :: tl' ++ [(K, zlen data)]) with (((g', o') :: tl') ++ [(K, zlen data)]).
      destruct ((g <=? k) && (k <? g + (o' - o))) eqn:E.
      * apply andb_true_iff in E as [E1 E2]. apply Z.leb_le in E1. apply Z.ltb_lt in E2.
        (* o' <= dlen since the tail is wf *)
        assert (Ho' : o' < zlen data).
        { clear - Hwf. cbn [rows_wf] in Hwf. destruct tl' as [|[g2 o2] t2]; [lia|].
          destruct Hwf as (H1 & _ & H3).
          assert (G : forall rs d t g o, rows_wf ((g, o) :: rs) d t -> o < d).
          { induction rs as [|[ga oa] rs IHr]; intros d t g o H; cbn [rows_wf] in H; [lia|].
            destruct H as (Ha & Hb & Hc). specialize (IHr d t ga oa Hc). lia. }
          specialize (G t2 (zlen data) top g2 o2 H3). lia. }
        rewrite nth_error_app1 by (apply Nat2Z.inj_lt; rewrite Z2Nat.id by lia; unfold zlen in *; lia).
        destruct (nth_error data (Z.to_nat (o + (k - g)))) eqn:En; [reflexivity|].
        exfalso. apply nth_error_None in En. apply Nat2Z.inj_le in En. rewrite Z2Nat.id in En by lia.
        unfold zlen in *. lia.
      * apply (IH data new K k top Hwf); [left; discriminate|exact Htop].
Qed.

Lemma rows_wf_mono rows : forall d t t', t <= t' -> rows_wf rows d t -> rows_wf rows d t'.
Proof.
  induction rows as [|[g o] tl IH]; intros d t t' Ht H; [exact I|].
  cbn [rows_wf] in *. destruct tl as [|[g' o'] tl'].
  - lia.
  - destruct H as (H1 & H2 & H3). repeat split; try lia. eapply IH; eassumption.
Qed.

Lemma rows_wf_snoc rows : forall dlen top K nlen top',
  rows_wf rows dlen top -> (rows <> [] \/ dlen = 0) -> top <= K -> 0 < nlen -> K + nlen <= top' ->
  rows_wf (rows ++ [(K, dlen)]) (dlen + nlen) top'.
Proof.
  induction rows as [|[g o] tl IH]; intros dlen top K nlen top' Hwf Hne Htop Hn Htop'.
  - destruct Hne as [Hne|Hd]; [congruence|]. subst dlen. cbn [app rows_wf]. lia.
  - cbn [app]. cbn [rows_wf] in Hwf. destruct tl as [|[g' o'] tl'].
    + cbn [app rows_wf]. lia.
    + destruct Hwf as (H1 & H2 & H3).
      change (((g', o') :: tl') ++ [(K, dlen)]) with ((g', o') :: (tl' ++ [(K, dlen)])).
      cbn [rows_wf].
      change ((g', o') :: tl' ++ [(K, dlen)]) with (((g', o') :: tl') ++ [(K, dlen)]).
      repeat split; try lia. eapply IH; try eassumption. left; discriminate.
Qed.

(* ------------------------------------------------------------------ one block: the index helper *)

Lemma ggs_single sw g : get_global_sample sw [(g, 0)] = g + sw.
Proof. cbn. lia. Qed.

Lemma crdi_single start gi chunk cont sw left cap g vlen fe :
  0 <= sw < vlen -> 0 < left -> ((sw =? 0) && (g <? gi)) = false ->
  create_rf_data_index start gi chunk cont sw left cap [(g, 0)] vlen (g + sw) fe =
    Some ((if negb fe || chunk
           then [(g + sw + start - (if cont && negb chunk then cap - left else 0), 0)] else []),
          Z.min left (vlen - sw)).
Proof.
  intros Hsw Hl Hg. unfold create_rf_data_index. rewrite Hg.
  cbn [pass1_loop p_pidx p_psmp p_rows p_bottom p_top p_err negb andb].
  assert (E1 : (0 >=? vlen) = false) by (rewrite Z.geb_leb; apply Z.leb_gt; lia).
  rewrite E1.
  assert (E2 : (g >? g + sw) = false) by (rewrite Z.gtb_ltb; apply Z.ltb_ge; lia).
  assert (E3 : (g >? g + sw + left) = false) by (rewrite Z.gtb_ltb; apply Z.ltb_ge; lia).
  rewrite E2, E3. cbn [andb p_err p_rows p_bottom p_top p_pidx p_psmp Z.eqb].
  change ((1 =? 1)%positive) with true. cbn iota.
  assert (Estw : (if g + sw + left <? g + (vlen - 0) then 0 + (g + sw + left - g) else 0 + (g + (vlen - 0) - g))
                 - (0 + (g + sw - g)) = Z.min left (vlen - sw)).
  { destruct (g + sw + left <? g + (vlen - 0)) eqn:E; [apply Z.ltb_lt in E|apply Z.ltb_ge in E]; lia. }
  destruct (negb fe || chunk) eqn:Ecf.
  - change (0 + 1 =? 0) with false. cbn iota. cbn [pass2_loop app].
    rewrite Estw. reflexivity.
  - change (0 =? 0) with true. cbn iota. rewrite Estw. reflexivity.
Qed.

(* ------------------------------------------------------------------ helpers on files *)

Lemma files_lookup_app fs x k :
  files_lookup (fs ++ [x]) k =
    match files_lookup fs k with Some v => Some v | None => file_lookup x k end.
Proof.
  induction fs as [|a fs IH]; cbn [app files_lookup].
  - destruct (file_lookup x k); reflexivity.
  - destruct (file_lookup a k); [reflexivity|exact IH].
Qed.

Lemma slice_length vec sw n : 0 <= sw -> 0 <= n -> sw + n <= zlen vec -> zlen (slice vec sw n) = n.
Proof.
  intros Hs Hn Hl. unfold slice, zlen in *. rewrite firstn_length, skipn_length.
  rewrite Nat2Z.inj_min, Nat2Z.inj_sub by (apply Nat2Z.inj_le; rewrite Z2Nat.id by lia; lia).
  rewrite !Z2Nat.id by lia. lia.
Qed.

Lemma has_final_false F fs : Forall (fun a => f_ms a <> F) fs -> has_final F fs = false.
Proof.
  unfold has_final. induction 1 as [|a fs Ha _ IH]; cbn [existsb]; [reflexivity|].
  rewrite IH. apply Z.eqb_neq in Ha. rewrite Ha. reflexivity.
Qed.

(* ------------------------------------------------------------------ the invariant *)

Definition FWF (c : cfg) (B : Z) (a : afile) : Prop :=
  (exists g tl, f_index a = (g, 0) :: tl /\ wlo c (f_ms a) <= g) /\
  rows_wf (f_index a) (zlen (f_data a)) (Z.min B (whi c (f_ms a))) /\
  (exists K0, 0 <= K0 /\ f_ms a = Fk c K0).

Record Inv (c : cfg) (st : wstate) : Prop := mkInv {
  inv_nf : w_failed st = false;
  inv_files : Forall (fun a => FWF c (c_start c + w_gi st) a /\ whi c (f_ms a) <= c_start c + w_gi st) (w_files st);
  inv_open : match w_openf st with
             | Some a => w_cur st = Some (f_ms a) /\ FWF c (c_start c + w_gi st) a /\
                         w_di st = zlen (f_data a) /\ w_nia st = zlen (f_index a)
             | None => True
             end
}.

Lemma Inv_init c : Inv c init_state.
Proof. constructor; cbn; auto. Qed.

Lemma FWF_mono c B B' a : B <= B' -> FWF c B a -> FWF c B' a.
Proof.
  intros HB (H1 & H2 & H3). repeat split; try assumption.
  eapply rows_wf_mono; [|exact H2]. lia.
Qed.

Lemma FWF_set_final c B a : FWF c B a -> FWF c B (set_final a).
Proof. intros H. exact H. Qed.

(* a well-formed file lies below K and is not K's file: its whole window lies below K *)
Lemma FWF_below c B a K : vcfg c -> FWF c B a -> B <= K -> f_ms a <> Fk c K -> whi c (f_ms a) <= K.
Proof.
  intros Hc ((g & tl & Hi & Hlo) & Hwf & (K0 & HK0n & HK0)) HB Hne.
  rewrite Hi in Hwf. apply rows_wf_first_lt_top in Hwf.
  destruct (Z_lt_le_dec K (whi c (f_ms a))) as [Hlt|Hge]; [|exact Hge].
  exfalso. apply Hne. rewrite HK0. symmetry. apply (Fk_same c K0 K Hc). rewrite <- HK0. lia.
Qed.

Definition lookup_st (st : wstate) (k : Z) : option Z := files_lookup (all_files st) k.

(* every stored index is below the cursor *)
Lemma FWF_lookup_bound c B a k v : FWF c B a -> file_lookup a k = Some v -> k < B.
Proof.
  intros (_ & Hwf & _) Hl. unfold file_lookup in Hl.
  pose proof (rows_lookup_bound _ _ _ _ _ Hwf Hl). lia.
Qed.

(* ------------------------------------------------------------------ one per-file step, chunked mode *)

Lemma step_chunked c st g vec sw :
  vcfg c -> c_chunk c = true -> Inv c st ->
  0 <= sw < zlen vec -> w_gi st <= g + sw -> 0 <= g ->
  let K := c_start c + (g + sw) in
  let stw := Z.min (whi c (Fk c K) - K) (zlen vec - sw) in
  exists st',
    write_samples_to_file c st sw [(g, 0)] vec = (Wrote stw, st') /\ 0 < stw /\
    Inv c st' /\ w_gi st' = g + sw + stw /\
    (map f_ms (all_files st') = map f_ms (all_files st) \/
     (map f_ms (all_files st') = map f_ms (all_files st) ++ [Fk c K] /\
      Forall (fun a => whi c (f_ms a) <= K) (all_files st))) /\
    forall k, lookup_st st' k =
      match lookup_st st k with
      | Some v => Some v
      | None => if (K <=? k) && (k <? K + stw) then nth_error (slice vec sw stw) (Z.to_nat (k - K)) else None
      end.
Proof.
  intros Hc Hch HI Hsw Hgi Hg0 K stw.
  pose proof (Fk_window c K Hc) as HW.
  set (F := Fk c K) in *.
  assert (Hstw : 0 < stw) by (unfold stw; lia).
  assert (Hnew : zlen (slice vec sw stw) = stw) by (apply slice_length; unfold stw; lia).
  destruct HI as [Hnf Hfiles Hopen].
  unfold write_samples_to_file. cbn [Z.eqb negb]. rewrite ggs_single.
  fold K. unfold zlen in Hsw.
  change (F_of K (c_n c) (c_d c) (c_fc c)) with F.
  change (file_start (F + c_fc c) (c_n c) (c_d c)) with (whi c F).
  change (file_start F (c_n c) (c_d c)) with (wlo c F).
  set (fe := match w_cur st with Some f => (f =? F) && w_open st | None => false end).
  rewrite (crdi_single (c_start c) (w_gi st) (c_chunk c) (c_cont c) sw (whi c F - K) (whi c F - wlo c F) g
             (Z.of_nat (length vec)) fe); try lia.
  rewrite Hch. rewrite orb_true_r. cbn [negb andb].
  replace (c_cont c && false) with false by (destruct (c_cont c); reflexivity).
  rewrite Z.sub_0_r. fold (zlen vec). fold stw.
  replace (g + sw + c_start c) with K by (unfold K; lia).
  destruct fe eqn:Efe; cbn [negb].
  - (* ---- the file is open: extend it *)
    unfold fe in Efe. destruct (w_cur st) as [f|] eqn:Ecur; [|discriminate].
    apply andb_true_iff in Efe as [Ef Eo]. apply Z.eqb_eq in Ef. subst f.
    unfold w_open in Eo. destruct (w_openf st) as [a|] eqn:Eopen; [|discriminate].
    destruct Hopen as (Hcur & Hfwf & Hdi & Hnia).
    assert (Hms : f_ms a = F) by congruence.
    destruct Hfwf as ((g1 & tl1 & Hidx & Hlo1) & Hwf & HK0).
    assert (Hnia0 : (w_nia st =? 0) = false).
    { apply Z.eqb_neq. rewrite Hnia, Hidx. unfold zlen. cbn [length]. lia. }
    rewrite Hnia0. cbn [map fst snd rev app]. rewrite Hdi.
    eexists. split; [reflexivity|]. split; [exact Hstw|]. split; [|split; [|split]].
    + (* invariant *)
      constructor; cbn [w_failed w_files w_openf w_cur w_di w_nia w_gi].
      * exact Hnf.
      * eapply Forall_impl; [|exact Hfiles]. intros x (Hx1 & Hx2). split; [|lia].
        eapply FWF_mono; [|exact Hx1]. lia.
      * split; [rewrite Ecur, Hms; reflexivity|]. split; [|split].
        -- repeat split; cbn [f_index f_data f_ms].
           ++ exists g1, (tl1 ++ [(K, 0 + zlen (f_data a))]). rewrite Hidx. split; [reflexivity|exact Hlo1].
           ++ replace (0 + zlen (f_data a)) with (zlen (f_data a)) by lia.
              replace (zlen (f_data a ++ slice vec sw stw)) with (zlen (f_data a) + stw)
                by (unfold zlen in *; rewrite app_length; lia).
              eapply rows_wf_snoc; [exact Hwf| left; rewrite Hidx; discriminate | | exact Hstw |]; rewrite Hms; unfold stw; lia.
           ++ exact HK0.
        -- cbn [f_data]. unfold zlen in *. rewrite app_length. lia.
        -- cbn [f_index]. unfold zlen in *. rewrite app_length. cbn [length]. lia.
    + cbn [w_gi]. unfold K. lia.
    + left. unfold all_files. cbn [w_files w_openf]. rewrite Eopen. rewrite !map_app. reflexivity.
    + (* lookup *)
      intros k. unfold lookup_st, all_files. cbn [w_files w_openf]. rewrite Eopen.
      rewrite !files_lookup_app. destruct (files_lookup (w_files st) k) as [v|]; [reflexivity|].
      unfold file_lookup. cbn [f_index f_data].
      replace (0 + zlen (f_data a)) with (zlen (f_data a)) by lia.
      rewrite (rows_lookup_snoc (f_index a) (f_data a) (slice vec sw stw) K k _ Hwf);
        [ | left; rewrite Hidx; discriminate | lia ].
      rewrite Hnew. reflexivity.
  - (* ---- another file: finalize the open one (if any) and create F *)
    assert (Hfin : Forall (fun a => FWF c (c_start c + w_gi st) a /\ whi c (f_ms a) <= K) (finalize st)).
    { unfold finalize. destruct (w_openf st) as [a|] eqn:Eopen.
      - rewrite Hnf. apply Forall_app. split.
        + eapply Forall_impl; [|exact Hfiles]. intros x (Hx1 & Hx2). split; [exact Hx1|lia].
        + constructor; [|constructor]. destruct Hopen as (Hcur & Hfwf & _).
          split; [exact Hfwf|]. change (f_ms (set_final a)) with (f_ms a).
          apply (FWF_below c (c_start c + w_gi st) a K Hc Hfwf); [unfold K; lia|].
          unfold fe in Efe. rewrite Hcur in Efe. unfold w_open in Efe. rewrite Eopen in Efe.
          rewrite andb_true_r in Efe. apply Z.eqb_neq in Efe. exact Efe.
      - eapply Forall_impl; [|exact Hfiles]. intros x (Hx1 & Hx2). split; [exact Hx1|lia]. }
    assert (Hnofinal : has_final F (finalize st) = false).
    { apply has_final_false. eapply Forall_impl; [|exact Hfin]. intros x (_ & Hx) E. rewrite E in Hx. lia. }
    rewrite Hnofinal. cbn [w_di w_nia w_gi w_cur w_seq w_failed w_files f_ms f_index f_data f_cap f_seq Z.eqb app map rev].
    eexists. split; [reflexivity|]. split; [exact Hstw|]. split; [|split; [|split]].
    + constructor; cbn [w_failed w_files w_openf w_cur w_di w_nia w_gi].
      * exact Hnf.
      * eapply Forall_impl; [|exact Hfin]. intros x (Hx1 & Hx2). split; [|lia].
        eapply FWF_mono; [|exact Hx1]. lia.
      * split; [reflexivity|]. split; [|split].
        -- split; [|split]; cbn [f_index f_data f_ms app].
           ++ exists K, []. split; [reflexivity|lia].
           ++ cbn [rows_wf]. rewrite Hnew. unfold stw. lia.
           ++ exists K. split; [unfold K; destruct Hc as (_ & _ & _ & Hs0); lia|reflexivity].
        -- cbn [f_data app]. lia.
        -- cbn [f_index app]. reflexivity.
    + cbn [w_gi]. unfold K. lia.
    + right.
      assert (Hms : map f_ms (finalize st) = map f_ms (all_files st) /\ Forall (fun a => whi c (f_ms a) <= K) (all_files st)).
      { unfold finalize, all_files in *. destruct (w_openf st) as [a|].
        - rewrite Hnf in *. rewrite !map_app. cbn [map set_final f_ms]. split; [reflexivity|].
          apply Forall_app in Hfin as [H1 H2]. apply Forall_app. split.
          + eapply Forall_impl; [|exact H1]. intros x (_ & Hx). exact Hx.
          + inversion H2 as [|? ? (_ & Hx) _]; subst. constructor; [exact Hx|constructor].
        - rewrite app_nil_r. split; [reflexivity|]. eapply Forall_impl; [|exact Hfin]. intros x (_ & Hx). exact Hx. }
      destruct Hms as (Hms1 & Hms2). split; [|exact Hms2].
      unfold all_files at 1. cbn [w_files w_openf]. rewrite map_app, Hms1. reflexivity.
    + intros k. unfold lookup_st, all_files. cbn [w_files w_openf].
      rewrite files_lookup_app.
      assert (Hold : files_lookup (finalize st) k = files_lookup (w_files st ++ match w_openf st with Some a => [a] | None => [] end) k).
      { unfold finalize. destruct (w_openf st) as [a|]; [|rewrite app_nil_r; reflexivity].
        rewrite Hnf. rewrite !files_lookup_app. reflexivity. }
      rewrite Hold. clear Hold.
      destruct (files_lookup (w_files st ++ match w_openf st with Some a => [a] | None => [] end) k) as [v|]; [reflexivity|].
      unfold file_lookup. cbn [f_index f_data app rows_lookup].
      rewrite Z.sub_0_r, Z.add_0_l. fold (zlen (slice vec sw stw)). rewrite Hnew. reflexivity.
Qed.


(* ------------------------------------------------------------------ files are created in increasing time order *)

Fixpoint ms_incr (l : list Z) : Prop :=
  match l with
  | [] => True
  | x :: r => match r with [] => True | y :: _ => x < y end /\ ms_incr r
  end.

Lemma ms_incr_snoc l F : ms_incr l -> Forall (fun x => x < F) l -> ms_incr (l ++ [F]).
Proof.
  induction l as [|x r IH]; intros Hs Hf; cbn [app ms_incr]; [auto|].
  inversion Hf as [|? ? Hx Hr]; subst. cbn [ms_incr] in Hs. destruct Hs as (H1 & H2).
  split; [|apply IH; assumption].
  destruct r as [|y r']; cbn [app]; [exact Hx|exact H1].
Qed.

Lemma Fk_mono c K0 K : vcfg c -> 0 <= K0 <= K -> Fk c K0 <= Fk c K.
Proof.
  intros (Hn & Hd & Hf & _) HK. unfold Fk, F_of, ms_of.
  apply Z.mul_le_mono_nonneg_l; [lia|]. apply Z.div_le_mono; [lia|]. apply Z.div_le_mono; [lia|]. nia.
Qed.

Lemma Fk_lt_of_below c K0 K : vcfg c -> 0 <= K0 -> whi c (Fk c K0) <= K -> Fk c K0 < Fk c K.
Proof.
  intros Hc H0 Hw. pose proof (Fk_window c K0 Hc) as W0.
  pose proof (Fk_mono c K0 K Hc ltac:(lia)) as Hle.
  destruct (Z.eq_dec (Fk c K0) (Fk c K)) as [E|NE]; [|lia].
  exfalso. symmetry in E. apply (Fk_same c K0 K Hc) in E. lia.
Qed.

(* ------------------------------------------------------------------ the per-file loop, one block *)

Lemma nth_error_firstn_lt {A} : forall (n : nat) (l : list A) (i : nat), (i < n)%nat -> nth_error (firstn n l) i = nth_error l i.
Proof.
  induction n as [|n IH]; intros l i Hi; [lia|].
  destruct l as [|x l]; [reflexivity|]. destruct i as [|i]; [reflexivity|].
  cbn [firstn nth_error]. apply IH. lia.
Qed.

Lemma nth_error_skipn_add {A} : forall (n : nat) (l : list A) (i : nat), nth_error (skipn n l) i = nth_error l (n + i).
Proof.
  induction n as [|n IH]; intros l i; [reflexivity|].
  destruct l as [|x l]; [destruct i; reflexivity|]. cbn [skipn Nat.add nth_error]. apply IH.
Qed.

Lemma slice_nth vec sw n i : 0 <= sw -> 0 <= i < n -> sw + n <= zlen vec ->
  nth_error (slice vec sw n) (Z.to_nat i) = nth_error vec (Z.to_nat (sw + i)).
Proof.
  intros Hs Hi Hl. unfold slice.
  rewrite nth_error_firstn_lt by (apply Nat2Z.inj_lt; rewrite !Z2Nat.id by lia; lia).
  rewrite nth_error_skipn_add. f_equal. rewrite Z2Nat.inj_add by lia. reflexivity.
Qed.

Lemma nth_error_in_range (vec : list Z) i : 0 <= i < zlen vec -> exists v, nth_error vec (Z.to_nat i) = Some v.
Proof.
  intros Hi. destruct (nth_error vec (Z.to_nat i)) eqn:E; [eauto|].
  apply nth_error_None in E. apply Nat2Z.inj_le in E. rewrite Z2Nat.id in E by lia. unfold zlen in Hi. lia.
Qed.

Definition in_new (c : cfg) (g : Z) (vec : list Z) (lo k : Z) : option Z :=
  if (c_start c + g + lo <=? k) && (k <? c_start c + g + zlen vec)
  then nth_error vec (Z.to_nat (k - c_start c - g)) else None.

Lemma loop_chunked c g vec : vcfg c -> c_chunk c = true -> 0 <= g ->
  forall fuel st sw, Inv c st -> 0 <= sw <= zlen vec -> (sw < zlen vec -> w_gi st <= g + sw) ->
  zlen vec - sw < Z.of_nat fuel ->
  exists st',
    write_loop fuel c st sw [(g, 0)] vec = (0, st') /\ Inv c st' /\
    (sw < zlen vec -> w_gi st' = g + zlen vec) /\ (sw = zlen vec -> st' = st) /\
    (ms_incr (map f_ms (all_files st)) -> ms_incr (map f_ms (all_files st'))) /\
    forall k, lookup_st st' k =
      match lookup_st st k with Some v => Some v | None => in_new c g vec sw k end.
Proof.
  intros Hc Hch Hg0. induction fuel as [|fuel IH]; intros st sw HI Hsw Hgi Hfuel.
  - cbn in Hfuel. lia.
  - cbn [write_loop]. fold (zlen vec).
    destruct (sw <? zlen vec) eqn:El.
    + apply Z.ltb_lt in El.
      destruct (step_chunked c st g vec sw Hc Hch HI ltac:(lia) (Hgi El) Hg0)
        as (st1 & Hstep & Hpos & HI1 & Hgi1 & Hms1 & Hlk1).
      rewrite Hstep.
      set (K := c_start c + (g + sw)) in *.
      set (stw := Z.min (whi c (Fk c K) - K) (zlen vec - sw)) in *.
      assert (E0 : (stw =? 0) = false) by (apply Z.eqb_neq; lia). rewrite E0.
      destruct (IH st1 (sw + stw) HI1 ltac:(unfold stw; lia) ltac:(intros _; lia)
                  ltac:(rewrite Nat2Z.inj_succ in Hfuel; lia))
        as (st2 & Hloop & HI2 & Hgi2 & Hsame & Hso2 & Hlk2).
      exists st2. split; [exact Hloop|]. split; [exact HI2|]. split; [|split; [|split]].
      * intros _. destruct (Z_lt_le_dec (sw + stw) (zlen vec)) as [Hlt|Hge].
        -- apply Hgi2. exact Hlt.
        -- assert (sw + stw = zlen vec) by (unfold stw in *; lia).
           rewrite (Hsame H). lia.
      * intros E. lia.
      * intros Hso. apply Hso2. destruct Hms1 as [E|(E & Hall)]; rewrite E; [exact Hso|].
        apply ms_incr_snoc; [exact Hso|]. apply Forall_map.
        assert (HF : Forall (fun a => exists K0, 0 <= K0 /\ f_ms a = Fk c K0) (all_files st)).
        { destruct HI as [_ Hf Ho]. unfold all_files. apply Forall_app. split.
          - eapply Forall_impl; [|exact Hf]. intros a ((_ & _ & H) & _). exact H.
          - destruct (w_openf st) as [a|]; [|constructor]. constructor; [|constructor].
            destruct Ho as (_ & (_ & _ & H) & _). exact H. }
        clear - Hall HF Hc. induction Hall as [|a l Ha _ IHl]; [constructor|].
        inversion HF as [|? ? (K0 & HK0 & EK0) HF']; subst. constructor; [|apply IHl; exact HF'].
        rewrite EK0 in *. apply Fk_lt_of_below; assumption.
      * intros k. rewrite Hlk2, Hlk1.
        destruct (lookup_st st k) as [v|]; [reflexivity|].
        unfold in_new.
        destruct ((K <=? k) && (k <? K + stw)) eqn:E1.
        -- apply andb_true_iff in E1 as [E1a E1b]. apply Z.leb_le in E1a. apply Z.ltb_lt in E1b.
           rewrite (slice_nth vec sw stw (k - K)) by (unfold stw in *; lia).
           replace (sw + (k - K)) with (k - c_start c - g) by (unfold K; lia).
           destruct (nth_error_in_range vec (k - c_start c - g)) as (v & Hv); [unfold K, stw in *; lia|].
           rewrite Hv.
           assert (E2 : (c_start c + g + sw <=? k) && (k <? c_start c + g + zlen vec) = true).
           { apply andb_true_iff. split; [apply Z.leb_le|apply Z.ltb_lt]; unfold K, stw in *; lia. }
           rewrite E2. reflexivity.
        -- assert (E3 : (c_start c + g + (sw + stw) <=? k) && (k <? c_start c + g + zlen vec)
                       = (c_start c + g + sw <=? k) && (k <? c_start c + g + zlen vec)).
           { apply andb_false_iff in E1 as [E1|E1]; [apply Z.leb_gt in E1|apply Z.ltb_ge in E1].
             - assert (A : (c_start c + g + (sw + stw) <=? k) = false) by (apply Z.leb_gt; unfold K in *; lia).
               assert (B : (c_start c + g + sw <=? k) = false) by (apply Z.leb_gt; unfold K in *; lia).
               rewrite A, B. reflexivity.
             - assert (A : (c_start c + g + (sw + stw) <=? k) = true) by (apply Z.leb_le; unfold K in *; lia).
               assert (B : (c_start c + g + sw <=? k) = true) by (apply Z.leb_le; unfold K in *; lia).
               rewrite A, B. reflexivity. }
           rewrite E3. reflexivity.
    + apply Z.ltb_ge in El. assert (sw = zlen vec) by lia.
      exists st. split; [reflexivity|]. split; [exact HI|]. split; [lia|]. split; [reflexivity|]. split; [auto|].
      intros k. destruct (lookup_st st k); [reflexivity|].
      unfold in_new.
      assert (E : (c_start c + g + sw <=? k) && (k <? c_start c + g + zlen vec) = false).
      { apply andb_false_iff. destruct (Z_lt_le_dec k (c_start c + g + sw)); [left; apply Z.leb_gt; lia|right; apply Z.ltb_ge; lia]. }
      rewrite E. reflexivity.
Qed.

(* ------------------------------------------------------------------ one call, histories, Spec *)

Lemma files_lookup_bound c B fs k v :
  Forall (FWF c B) fs -> files_lookup fs k = Some v -> k < B.
Proof.
  induction 1 as [|a fs Ha _ IH]; cbn [files_lookup]; [discriminate|].
  destruct (file_lookup a k) eqn:E.
  - intros Hs. inversion Hs; subst. exact (FWF_lookup_bound c B a k v Ha E).
  - exact IH.
Qed.

Lemma lookup_st_bound c st k v : Inv c st -> lookup_st st k = Some v -> k < c_start c + w_gi st.
Proof.
  intros [_ Hf Ho]. unfold lookup_st, all_files. apply (files_lookup_bound c).
  apply Forall_app. split.
  - eapply Forall_impl; [|exact Hf]. intros a (H & _). exact H.
  - destruct (w_openf st) as [a|]; [|constructor]. constructor; [|constructor]. tauto.
Qed.

Lemma write_one_chunked c st g vec : vcfg c -> c_chunk c = true -> Inv c st -> 0 <= g ->
  if g <? w_gi st then write_one c st g vec = (-3, st)
  else exists st', write_one c st g vec = (0, st') /\ Inv c st' /\
         w_gi st' = (if zlen vec =? 0 then w_gi st else g + zlen vec) /\
         (ms_incr (map f_ms (all_files st)) -> ms_incr (map f_ms (all_files st'))) /\
         forall k, lookup_st st' k =
           if (c_start c + g <=? k) && (k <? c_start c + g + zlen vec)
           then nth_error vec (Z.to_nat (k - c_start c - g)) else lookup_st st k.
Proof.
  intros Hc Hch HI Hg. unfold write_one, write_blocks. rewrite (inv_nf c st HI).
  destruct (g <? w_gi st) eqn:Eg; [reflexivity|]. apply Z.ltb_ge in Eg.
  rewrite andb_false_r.
  destruct (loop_chunked c g vec Hc Hch Hg (S (length vec)) st 0 HI ltac:(unfold zlen; lia) ltac:(lia)
              ltac:(unfold zlen; lia)) as (st' & Hl & HI' & Hgi' & Hsame & Hso & Hlk).
  exists st'. split; [exact Hl|]. split; [exact HI'|]. split; [|split; [exact Hso|]].
  - destruct (zlen vec =? 0) eqn:E0.
    + apply Z.eqb_eq in E0. rewrite (Hsame (eq_sym E0)). reflexivity.
    + apply Z.eqb_neq in E0. apply Hgi'. unfold zlen in *. lia.
  - intros k. rewrite Hlk. unfold in_new. rewrite Z.add_0_r.
    destruct (lookup_st st k) as [v|] eqn:El.
    + pose proof (lookup_st_bound c st k v HI El).
      assert (E : (c_start c + g <=? k) = false) by (apply Z.leb_gt; lia). rewrite E. reflexivity.
    + destruct ((c_start c + g <=? k) && (k <? c_start c + g + zlen vec)); reflexivity.
Qed.

(* the Spec of a recording made of single-block calls *)
Record spec := mkSpec { s_cur : Z; s_map : Z -> option Z }.
Definition spec_init : spec := mkSpec 0 (fun _ => None).

Definition spec_step (c : cfg) (s : spec) (op : Z * list Z) : spec :=
  let '(g, vec) := op in
  if g <? s_cur s then s        (* at or before a written index: rejected, nothing changes *)
  else mkSpec (if zlen vec =? 0 then s_cur s else g + zlen vec)
              (fun k => if (c_start c + g <=? k) && (k <? c_start c + g + zlen vec)
                        then nth_error vec (Z.to_nat (k - c_start c - g)) else s_map s k).

Definition model_step (c : cfg) (st : wstate) (op : Z * list Z) : wstate :=
  snd (write_one c st (fst op) (snd op)).

Definition refines (c : cfg) (st : wstate) (s : spec) : Prop :=
  Inv c st /\ w_gi st = s_cur s /\ (forall k, lookup_st st k = s_map s k) /\
  ms_incr (map f_ms (all_files st)).

Lemma refines_step c st s op : vcfg c -> c_chunk c = true -> 0 <= fst op ->
  refines c st s -> refines c (model_step c st op) (spec_step c s op).
Proof.
  intros Hc Hch Hg (HI & Hgi & Hlk & Hso). destruct op as [g vec]. cbn [fst snd] in *.
  unfold model_step, spec_step. cbn [fst snd].
  pose proof (write_one_chunked c st g vec Hc Hch HI Hg) as H.
  rewrite Hgi in H.
  destruct (g <? s_cur s).
  - rewrite H. cbn [snd]. split; [exact HI|]. split; [exact Hgi|]. split; [exact Hlk|exact Hso].
  - destruct H as (st' & Hw & HI' & Hgi' & Hso' & Hlk'). rewrite Hw. cbn [snd].
    split; [exact HI'|]. split; [cbn [s_cur]; exact Hgi'|]. split; [|exact (Hso' Hso)].
    intros k. cbn [s_map]. rewrite Hlk', Hlk. reflexivity.
Qed.

Theorem writer_refines_single_chunked c ops : vcfg c -> c_chunk c = true ->
  Forall (fun op => 0 <= fst op) ops ->
  refines c (fold_left (model_step c) ops init_state) (fold_left (spec_step c) ops spec_init).
Proof.
  intros Hc Hch Hops.
  assert (G : forall st s, refines c st s ->
            refines c (fold_left (model_step c) ops st) (fold_left (spec_step c) ops s)).
  { induction Hops as [|op ops Hop _ IH]; intros st s HR; cbn [fold_left]; [exact HR|].
    apply IH. apply refines_step; assumption. }
  apply G. split; [apply Inv_init|]. split; [reflexivity|]. split; [reflexivity|exact I].
Qed.

(* return codes: 0 exactly for the accepted calls *)
Lemma write_one_rc_chunked c st g vec : vcfg c -> c_chunk c = true -> Inv c st -> 0 <= g ->
  fst (write_one c st g vec) = if g <? w_gi st then -3 else 0.
Proof.
  intros Hc Hch HI Hg. pose proof (write_one_chunked c st g vec Hc Hch HI Hg) as H.
  destruct (g <? w_gi st); [rewrite H; reflexivity|].
  destruct H as (st' & Hw & _). rewrite Hw. reflexivity.
Qed.

(* ------------------------------------------------------------------ C06: what every file looks like *)

Fixpoint C06_rows (rows : list (Z * Z)) (dlen hi : Z) : Prop :=
  match rows with
  | [] => True
  | (g, o) :: tl =>
    0 <= o < dlen /\
    match tl with
    | [] => g + (dlen - o) <= hi                       (* the last block ends inside the window *)
    | (g', o') :: _ => g < g' /\ o < o' /\ o' - o <= g' - g    (* increasing, no overlap *)
    end /\
    C06_rows tl dlen hi
  end.

Lemma rows_wf_offset_lt rs : forall d t g o, rows_wf ((g, o) :: rs) d t -> o < d.
Proof.
  induction rs as [|[ga oa] rs IHr]; intros d t g o H; cbn [rows_wf] in H; [lia|].
  destruct H as (Ha & Hb & Hc). specialize (IHr d t ga oa Hc). lia.
Qed.

Lemma rows_wf_C06 rows : forall dlen top hi, rows_wf rows dlen top -> top <= hi -> C06_rows rows dlen hi.
Proof.
  induction rows as [|[g o] tl IH]; intros dlen top hi Hwf Hle; [exact I|].
  pose proof (rows_wf_offset_lt tl dlen top g o Hwf) as Ho.
  cbn [rows_wf] in Hwf. cbn [C06_rows]. destruct tl as [|[g' o'] tl'].
  - repeat split; try lia.
  - destruct Hwf as (H1 & H2 & H3). split; [lia|]. split; [lia|]. eapply IH; eassumption.
Qed.

Definition C06_file (c : cfg) (a : afile) : Prop :=
  (exists g tl, f_index a = (g, 0) :: tl /\ wlo c (f_ms a) <= g) /\
  C06_rows (f_index a) (zlen (f_data a)) (whi c (f_ms a)) /\
  zlen (f_data a) <= whi c (f_ms a) - wlo c (f_ms a).

Lemma C06_rows_span rows : forall dlen hi g o tl, rows = (g, o) :: tl -> C06_rows rows dlen hi -> g + (dlen - o) <= hi.
Proof.
  induction rows as [|[g0 o0] tl0 IH]; intros dlen hi g o tl E H; [discriminate|].
  inversion E; subst. cbn [C06_rows] in H. destruct tl as [|[g' o'] tl'].
  - lia.
  - destruct H as (H1 & (H2 & H3 & H4) & H5). specialize (IH dlen hi g' o' tl' eq_refl H5). lia.
Qed.

Lemma FWF_C06 c B a : FWF c B a -> C06_file c a.
Proof.
  intros ((g & tl & Hi & Hlo) & Hwf & HK).
  assert (HC : C06_rows (f_index a) (zlen (f_data a)) (whi c (f_ms a))) by (eapply rows_wf_C06; [exact Hwf|lia]).
  split; [exists g, tl; auto|]. split; [exact HC|].
  pose proof (C06_rows_span _ _ _ g 0 tl Hi HC). lia.
Qed.

Theorem reachable_files_C06 c ops : vcfg c -> c_chunk c = true -> Forall (fun op => 0 <= fst op) ops ->
  Forall (C06_file c) (all_files (fold_left (model_step c) ops init_state)).
Proof.
  intros Hc Hch Hops. destruct (writer_refines_single_chunked c ops Hc Hch Hops) as ([_ Hf Ho] & _).
  unfold all_files. apply Forall_app. split.
  - eapply Forall_impl; [|exact Hf]. intros a (H & _). eapply FWF_C06; exact H.
  - destruct (w_openf _) as [a|]; [|constructor]. constructor; [|constructor].
    destruct Ho as (_ & H & _). eapply FWF_C06; exact H.
Qed.

(* ------------------------------------------------------------------ C19: the cursor is one past the highest index *)

Lemma spec_dom_below c ops : forall s, (forall k v, s_map s k = Some v -> k < c_start c + s_cur s) -> 0 <= s_cur s ->
  Forall (fun op => 0 <= fst op) ops ->
  let s' := fold_left (spec_step c) ops s in
  (forall k v, s_map s' k = Some v -> k < c_start c + s_cur s') /\ s_cur s <= s_cur s'.
Proof.
  induction ops as [|[g vec] ops IH]; intros s Hd H0 Hops; cbn [fold_left]; [split; [exact Hd|lia]|].
  inversion Hops as [|? ? Hg Hops']; subst. cbn [fst] in Hg.
  assert (Hstep : (forall k v, s_map (spec_step c s (g, vec)) k = Some v -> k < c_start c + s_cur (spec_step c s (g, vec)))
                  /\ s_cur s <= s_cur (spec_step c s (g, vec))).
  { unfold spec_step. destruct (g <? s_cur s) eqn:Eg; [split; [exact Hd|lia]|]. apply Z.ltb_ge in Eg.
    cbn [s_map s_cur]. split.
    - intros k v. destruct ((c_start c + g <=? k) && (k <? c_start c + g + zlen vec)) eqn:E.
      + apply andb_true_iff in E as [E1 E2]. apply Z.ltb_lt in E2. apply Z.leb_le in E1. intros _.
        destruct (zlen vec =? 0) eqn:E0; [apply Z.eqb_eq in E0; lia|lia].
      + intros Hs. specialize (Hd k v Hs). destruct (zlen vec =? 0); [lia|]. unfold zlen. lia.
    - destruct (zlen vec =? 0); [lia|]. unfold zlen. lia. }
  destruct Hstep as (Hd1 & Hle1).
  destruct (IH (spec_step c s (g, vec)) Hd1 ltac:(lia) Hops') as (Hd2 & Hle2).
  split; [exact Hd2|lia].
Qed.

Theorem cursor_one_past_highest c ops : vcfg c -> c_chunk c = true -> Forall (fun op => 0 <= fst op) ops ->
  let st := fold_left (model_step c) ops init_state in
  forall k v, lookup_st st k = Some v -> k < c_start c + w_gi st.
Proof.
  intros Hc Hch Hops st k v H. destruct (writer_refines_single_chunked c ops Hc Hch Hops) as (HI & _).
  eapply lookup_st_bound; eassumption.
Qed.

(* ------------------------------------------------------------------ non-vacuity *)

Example refinement_example :
  let c := mkCfg 150000000000 100 1 1 100 false true in     (* 100 Hz, 100 ms files = 10 samples per file *)
  let ops := [(3, [1; 2; 3; 4; 5; 6; 7; 8; 9; 10; 11; 12]); (2, [99]); (20, [13; 14])] in
  let st := fold_left (model_step c) ops init_state in
  vcfg c /\ w_gi st = 22 /\ length (all_files st) = 3%nat /\
  lookup_st st 150000000014 = Some 12 /\ lookup_st st 150000000015 = None /\ lookup_st st 150000000021 = Some 14.
Proof. vm_compute. repeat split; try reflexivity; try (intro; discriminate). Qed.

(* ------------------------------------------------------------------ C11: refusal of an existing final name *)

Lemma existing_final_refused c st sw g vec :
  c_chunk c = true -> vcfg c ->
  let K := c_start c + (g + sw) in
  let F := Fk c K in
  0 <= sw < zlen vec -> ((sw =? 0) && (g <? w_gi st)) = false ->
  (match w_cur st with Some f => (f =? F) && w_open st | None => false end) = false ->
  has_final F (finalize st) = true ->
  exists st', write_samples_to_file c st sw [(g, 0)] vec = (Fail, st') /\
              w_files st' = finalize st /\ w_openf st' = None /\ w_failed st' = w_failed st /\ w_gi st' = w_gi st.
Proof.
  intros Hch Hc K F Hsw Hg Hfe Hfin.
  pose proof (Fk_window c K Hc) as HW. fold F in HW.
  unfold write_samples_to_file. cbn [Z.eqb negb]. rewrite ggs_single. fold K. unfold zlen in Hsw.
  change (F_of K (c_n c) (c_d c) (c_fc c)) with F.
  change (file_start (F + c_fc c) (c_n c) (c_d c)) with (whi c F).
  change (file_start F (c_n c) (c_d c)) with (wlo c F).
  rewrite Hfe.
  rewrite (crdi_single (c_start c) (w_gi st) (c_chunk c) (c_cont c) sw (whi c F - K) (whi c F - wlo c F) g
             (Z.of_nat (length vec)) false); try lia; try assumption.
  cbn [negb]. rewrite Hfin. eexists. split; [reflexivity|]. cbn. auto.
Qed.
