(* T21: how a DigitalRFWriter is let go (close, __enter__, __exit__ as regenerated from digital_rf_hdf5.py):
   the with statement never swallows an exception, closes the writer on every path, and close remembers what the
   getters report afterwards BEFORE it frees the C object; a second close does nothing. *)
From Coq Require Import List Bool.
From DRF Require Import Gen.CtxMgrGen.
Import ListNotations.

(* an exception raised inside `with DigitalRFWriter(...) as w:` reaches the caller: __exit__ returns a false value *)
Theorem exit_never_swallows : forall open exc, snd (gen_exit open exc) = false.
Proof. intros [|] [|]; reflexivity. Qed.

(* leaving the block, normally or by an exception, does exactly what close() does *)
Theorem exit_closes_on_every_path : forall open exc, fst (gen_exit open exc) = gen_close_actions open.
Proof. intros [|] [|]; reflexivity. Qed.

(* close on an open writer: the last file, directory and timestamp are remembered, each before the C object is freed;
   the C object is freed exactly once, last *)
Definition is_free (a : cact) : bool := match a with Free => true | _ => false end.
Fixpoint before_free (l : list cact) : list cact :=
  match l with [] => [] | Free :: _ => [] | a :: r => a :: before_free r end.

Theorem close_remembers_before_it_frees :
  In CacheFile (before_free (gen_close_actions true)) /\
  In CacheDir (before_free (gen_close_actions true)) /\
  In CacheTimestamp (before_free (gen_close_actions true)) /\
  length (filter is_free (gen_close_actions true)) = 1%nat /\
  exists l, gen_close_actions true = l ++ [Free].
Proof.
  cbn. repeat split; auto.
  exists [CacheFile; CacheDir; CacheTimestamp]. reflexivity.
Qed.

(* a closed writer: close (and therefore __exit__) does nothing -- closing twice is harmless *)
Theorem second_close_is_a_no_op : gen_close_actions false = [] /\ forall exc, fst (gen_exit false exc) = [].
Proof. split; [reflexivity|]. intros [|]; reflexivity. Qed.

Theorem enter_returns_the_writer : gen_enter_returns_self = true.
Proof. reflexivity. Qed.
