(* C08 / C01: the per-row clipping of _read regenerated from the source (Gen/RfReadGen.v, translator T9)
   is the step of the model's row loop (Model/ReaderCore.v, read_rows_gen). *)
From Coq Require Import ZArith List Bool Lia.
From DRF Require Import Model.Ld80 Model.ReaderCore Gen.RfReadGen.
Import ListNotations.
Local Open Scope Z_scope.

Theorem read_rows_step_regen {P} (mk : Z -> Z -> P) bss bsi rest dlen s e :
  read_rows_gen mk ((bss, bsi) :: rest) dlen s e =
  let bstop := match rest with [] => dlen | (_, o') :: _ => o' end in
  let tail := read_rows_gen mk rest dlen s e in
  match gen_row_clip bss bsi bstop s e with
  | Some (rss, rsi, rstop) => (rss, mk rsi rstop) :: tail
  | None => tail
  end.
Proof.
  cbn [read_rows_gen]. cbv zeta. unfold gen_row_clip.
  set (bstop := match rest with [] => dlen | (_, o') :: _ => o' end).
  set (tail := read_rows_gen mk rest dlen s e).
  rewrite !Z.geb_leb.
  destruct (s <=? bss); [|destruct (s <? bss + (bstop - bsi))];
    try reflexivity;
    destruct (bss + (bstop - bsi) <=? e + 1);
    match goal with |- context [if ?a <=? ?b then tail else _] => destruct (a <=? b) end; reflexivity.
Qed.
