(* C15 -- proofs about the event-filter model.
   (1) unbounded facts about dispatch that do not depend on the patterns (what a directory event,
       a finalizing rename, a rename away, the window do, given how the paths classify);
   (2) the complete enumeration of the property's bounded universe (Model/EventsUniverse.v)
       inside Coq: forallb ... = true by vm_compute, lifted with forallb_forall. *)
From Coq Require Import ZArith List Bool Lia.
From DRF Require Import Base.Regex Base.WordLit Gen.Grammar Model.PathSpec Model.Events Model.EventsUniverse
  Proofs.GrammarProofs Proofs.PathSpecProofs.
Import ListNotations.
Local Open Scope Z_scope.

(* ---------------------------------------------------------------- decidable equalities *)
Lemma word_eqb_eq a : forall b, word_eqb a b = true -> a = b.
Proof.
  induction a as [|x a IH]; destruct b as [|y b]; cbn; intro H; try discriminate; auto.
  apply andb_true_iff in H as [Hx Hab]. apply Z.eqb_eq in Hx. f_equal; auto.
Qed.

Definition kind_eqb (a b : kind) : bool :=
  match a, b with
  | Created, Created | Modified, Modified | Deleted, Deleted | Moved, Moved => true
  | _, _ => false
  end.

Definition outcome_eqb (a b : outcome) : bool :=
  match a, b with
  | Dropped, Dropped => true
  | Raises, Raises => true
  | Deliver k s d, Deliver k' s' d' => kind_eqb k k' && word_eqb s s' && word_eqb d d'
  | _, _ => false
  end.

Lemma outcome_eqb_eq a b : outcome_eqb a b = true -> a = b.
Proof.
  destruct a as [|k s d|], b as [|k' s' d'|]; cbn; intro H; try discriminate; auto.
  apply andb_true_iff in H as [H Hd]. apply andb_true_iff in H as [Hk Hs].
  apply word_eqb_eq in Hd, Hs. subst. destruct k, k'; try discriminate; reflexivity.
Qed.

(* ---------------------------------------------------------------- (1) pattern-independent facts *)
Definition moved (p q : word) : event := mkEvent Moved false p q.

Definition window_ok (st en : option Z) (ti : tinfo) : bool :=
  match ti with NoTime => true | Time t => in_window st en t | BadInt => false end.

Lemma dir_event_dropped rs st en mt ev : ev_dir ev = true -> dispatch_rs rs st en mt ev = Dropped.
Proof. unfold dispatch_rs, dispatch_core, decide. intros ->. reflexivity. Qed.

Lemma in_window_cases st en t :
  in_window st en t =
  negb (match st with Some s => t <? s | None => false end) &&
  negb (match en with Some e => e <? t | None => false end).
Proof.
  unfold in_window. destruct st as [s|], en as [e|]; cbn;
    rewrite ?Z.leb_antisym, ?andb_true_r; reflexivity.
Qed.

(* created / modified / deleted of a path: delivered unchanged iff some selected pattern matches
   and the captured time lies in the inclusive window (no time -> no window check) *)
Lemma single_event rs st en k p :
  dispatch_rs rs st en true (file_event k p) =
  match classify rs p with
  | None => Dropped
  | Some BadInt => Raises
  | Some ti => if window_ok st en ti then Deliver k p [] else Dropped
  end.
Proof.
  unfold dispatch_rs, dispatch_core, decide, render, file_event. cbn.
  destruct (classify rs p) as [[|t|]|]; cbn; try reflexivity.
  rewrite in_window_cases.
  destruct st as [s|], en as [e|]; cbn; repeat (match goal with |- context [?a <? ?b] => destruct (a <? b) end; cbn); reflexivity.
Qed.

(* the writer's finalizing rename: source matches no pattern, destination does *)
Lemma finalize_is_creation_core rs st en p q ti :
  q <> [] -> classify rs p = None -> classify rs q = Some ti -> ti <> BadInt ->
  dispatch_rs rs st en true (moved p q) = if window_ok st en ti then Deliver Created q [] else Dropped.
Proof.
  intros Hq Hp Hc Hb. unfold dispatch_rs, dispatch_core, decide, render, moved. cbn. rewrite Hp, Hc.
  destruct q as [|x q]; [congruence|]. cbn.
  destruct ti as [|t|]; cbn; try reflexivity; [|congruence].
  rewrite in_window_cases.
  destruct st as [s|], en as [e|]; cbn; repeat (match goal with |- context [?a <? ?b] => destruct (a <? b) end; cbn); reflexivity.
Qed.

(* a rename of a tracked file to a name no pattern matches *)
Lemma rename_away_is_deletion_core rs st en p q ti :
  q <> [] -> classify rs p = Some ti -> classify rs q = None -> ti <> BadInt ->
  dispatch_rs rs st en true (moved p q) = if window_ok st en ti then Deliver Deleted p [] else Dropped.
Proof.
  intros Hq Hp Hc Hb. unfold dispatch_rs, dispatch_core, decide, render, moved. cbn. rewrite Hp, Hc.
  destruct q as [|x q]; [congruence|]. cbn.
  destruct ti as [|t|]; cbn; try reflexivity; [|congruence].
  rewrite in_window_cases.
  destruct st as [s|], en as [e|]; cbn; repeat (match goal with |- context [?a <? ?b] => destruct (a <? b) end; cbn); reflexivity.
Qed.

(* documented behaviour outside the property statement: when both names match, the event stays a
   move and only the DESTINATION's time is compared with the window *)
Lemma moved_both_match_uses_dest_time rs st en p q tp tq :
  q <> [] -> classify rs p = Some tp -> classify rs q = Some tq -> tq <> BadInt ->
  dispatch_rs rs st en true (moved p q) = if window_ok st en tq then Deliver Moved p q else Dropped.
Proof.
  intros Hq Hp Hc Hb. unfold dispatch_rs, dispatch_core, decide, render, moved. cbn. rewrite Hp, Hc.
  destruct q as [|x q]; [congruence|]. cbn.
  destruct tq as [|t|]; cbn; try reflexivity; [|congruence].
  rewrite in_window_cases.
  destruct st as [s|], en as [e|]; cbn; repeat (match goal with |- context [?a <? ?b] => destruct (a <? b) end; cbn); reflexivity.
Qed.

(* the constructor raises exactly when nothing is included *)
Lemma select_empty_iff f :
  select_regexes f = [] <-> (inc_drf f || inc_dmd f || eff_drfp f || eff_dmdp f) = false.
Proof.
  unfold select_regexes, select.
  destruct (inc_drf f), (inc_dmd f), (eff_drfp f), (eff_dmdp f); cbn; split; intro H; try reflexivity; discriminate.
Qed.

(* ---------------------------------------------------------------- (2) bounded enumeration *)
(* the six path patterns are matched once per path; the flag loop reads the table *)
Record rtable := mkTable { t1 : option tinfo; t2 : option tinfo; t3 : option tinfo;
                           t4 : option tinfo; t5 : option tinfo; t6 : option tinfo }.

Definition entry (p : word) (x : rx) : option tinfo :=
  match p with [] => None | _ => option_map time_of (rmatch events_ci (re_of x) p) end.

Definition table_of (p : word) : rtable :=
  mkTable (entry p RxDrfDmd) (entry p RxDrf) (entry p RxDmd)
          (entry p RxDrfDmdProp) (entry p RxDrfProp) (entry p RxDmdProp).

Definition lookup (tb : rtable) (x : rx) : option tinfo :=
  match x with
  | RxDrfDmd => t1 tb | RxDrf => t2 tb | RxDmd => t3 tb
  | RxDrfDmdProp => t4 tb | RxDrfProp => t5 tb | RxDmdProp => t6 tb
  end.

Fixpoint last_some (tb : rtable) (sel : list rx) (acc : option tinfo) : option tinfo :=
  match sel with
  | [] => acc
  | x :: sel' => last_some tb sel' (match lookup tb x with Some t => Some t | None => acc end)
  end.

Lemma lookup_table p x : lookup (table_of p) x = entry p x.
Proof. destruct x; reflexivity. Qed.

Lemma classify_table sel p :
  classify (map re_of sel) p = last_some (table_of p) sel None.
Proof.
  unfold classify. destruct p as [|a p].
  - induction sel as [|x sel IH]; cbn; [reflexivity|]. rewrite lookup_table. cbn. exact IH.
  - assert (H : forall acc, option_map time_of (match_last (map re_of sel) (a :: p) acc)
                            = last_some (table_of (a :: p)) sel (option_map time_of acc)).
    { induction sel as [|x sel IH]; intro acc; cbn [map match_last last_some]; [reflexivity|].
      rewrite IH, lookup_table. unfold entry.
      destruct (rmatch events_ci (re_of x) (a :: p)); reflexivity. }
    apply (H None).
Qed.

(* what the property demands, as decisions.  G = listable without a window, A = inside it *)
Definition expected_single (f : flags) (st en : option Z) (lp : linfo) : decision :=
  if listable_core f st en lp then DKeep else DDrop.

Definition expected_moved (f : flags) (st en : option Z) (lp lq : linfo) : decision :=
  let gp := listable_core f None None lp in
  let gq := listable_core f None None lq in
  if gp && gq then (if listable_core f st en lq then DKeep else DDrop)     (* documented, see above *)
  else if gp then (if listable_core f st en lp then DDeleted else DDrop)   (* rename away *)
  else if gq then (if listable_core f st en lq then DCreated else DDrop)   (* finalizing rename *)
  else DDrop.

Definition decision_eqb (a b : decision) : bool :=
  match a, b with
  | DDrop, DDrop | DKeep, DKeep | DDeleted, DDeleted | DCreated, DCreated | DRaise, DRaise => true
  | _, _ => false
  end.

Lemma decision_eqb_eq a b : decision_eqb a b = true -> a = b.
Proof. destruct a, b; cbn; intro; try discriminate; reflexivity. Qed.

Definition nothing_included (f : flags) : bool :=
  negb (inc_drf f || inc_dmd f || eff_drfp f || eff_dmdp f).

Definition check_window (f : flags) (claim : bool) (lp : linfo) (ip : option tinfo)
    (iqs : list (linfo * option tinfo)) (w : option Z * option Z) : bool :=
  let st := fst w in let en := snd w in
  (if claim then decision_eqb (decide st en true false false ip None) (expected_single f st en lp)
   else negb (decision_eqb (decide st en true false false ip None) DRaise)) &&
  forallb (fun qi : linfo * option tinfo =>
    let d := decide st en true false true ip (snd qi) in
    if claim then decision_eqb d (expected_moved f st en lp (fst qi))
    else negb (decision_eqb d DRaise)) iqs.

Definition check_flags (claim : bool) (lp : linfo) (tp : rtable) (qs : list (linfo * rtable)) (f : flags) : bool :=
  match select f with
  | [] => nothing_included f
  | sel =>
    negb (nothing_included f) &&
    let ip := last_some tp sel None in
    let iqs := map (fun q : linfo * rtable => (fst q, last_some (snd q) sel None)) qs in
    forallb (check_window f claim lp ip iqs) u_windows
  end.

Definition check_path (pb : word * bool) : bool :=
  let p := fst pb in
  let lp := linfo_of p in
  let tp := table_of p in
  let qs := map (fun qb : word * bool => (linfo_of (fst qb), table_of (fst qb))) (u_moves p) in
  forallb (fun qb : word * bool => nonempty (fst qb)) (u_moves p) &&
  forallb (check_flags (snd pb) lp tp qs) u_flags.

Lemma check_all_true : forallb check_path u_paths = true.
Proof. vm_cast_no_check (eq_refl true). Qed.

(* ---- lifting the enumeration to statements about dispatch *)
Lemma select_nil_dispatch f st en ev : select f = [] -> dispatch f st en ev = None.
Proof. unfold dispatch, select_regexes. intros ->. reflexivity. Qed.

Lemma select_cons_dispatch f st en ev : select f <> [] ->
  dispatch f st en ev = Some (dispatch_rs (map re_of (select f)) st en true ev).
Proof.
  unfold dispatch, select_regexes. destruct (select f) as [|x sel]; [congruence|]. reflexivity.
Qed.

Lemma classify_nil rs : classify rs [] = None.
Proof. reflexivity. Qed.

Section Lift.
  Variables (p : word) (claim : bool) (f : flags) (w : option Z * option Z).
  Hypothesis Hp : In (p, claim) u_paths.
  Hypothesis Hf : In f u_flags.
  Hypothesis Hw : In w u_windows.

  Lemma lift_path : check_path (p, claim) = true.
  Proof. exact (proj1 (forallb_forall _ _) check_all_true _ Hp). Qed.

  Lemma lift_flags :
    check_flags claim (linfo_of p) (table_of p)
      (map (fun qb : word * bool => (linfo_of (fst qb), table_of (fst qb))) (u_moves p)) f = true.
  Proof.
    pose proof lift_path as H. unfold check_path in H. cbn [fst snd] in H.
    apply andb_true_iff in H as [_ H]. exact (proj1 (forallb_forall _ _) H _ Hf).
  Qed.

  Lemma lift_raises : select f = [] <-> nothing_included f = true.
  Proof.
    pose proof lift_flags as H. unfold check_flags in H. split.
    - intro E. rewrite E in H. exact H.
    - intro E. destruct (select f); [reflexivity|]. rewrite E in H. discriminate.
  Qed.

  Lemma lift_window : select f <> [] ->
    check_window f claim (linfo_of p) (last_some (table_of p) (select f) None)
      (map (fun q : linfo * rtable => (fst q, last_some (snd q) (select f) None))
           (map (fun qb : word * bool => (linfo_of (fst qb), table_of (fst qb))) (u_moves p))) w = true.
  Proof.
    intro Hs. pose proof lift_flags as H. unfold check_flags in H.
    destruct (select f) as [|x sel] eqn:E; [congruence|].
    apply andb_true_iff in H as [_ H]. exact (proj1 (forallb_forall _ _) H _ Hw).
  Qed.

  Lemma lift_moves_nonempty q c : In (q, c) (u_moves p) -> nonempty q = true.
  Proof.
    intro Hq. pose proof lift_path as H. unfold check_path in H. cbn [fst snd] in H.
    apply andb_true_iff in H as [H _]. exact (proj1 (forallb_forall _ _) H _ Hq).
  Qed.
End Lift.

(* created / modified / deleted of a path inside the claim: accepted exactly when listable *)
Theorem accept_iff_listed_bounded p f w k :
  In (p, true) u_paths -> In f u_flags -> In w u_windows ->
  dispatch f (fst w) (snd w) (file_event k p) =
    if nothing_included f then None
    else Some (if listable f (fst w) (snd w) p then Deliver k p [] else Dropped).
Proof.
  intros Hp Hf Hw. destruct (nothing_included f) eqn:En.
  - apply select_nil_dispatch. apply (lift_raises p true f Hp Hf). exact En.
  - assert (Hs : select f <> []).
    { intro E. apply (lift_raises p true f Hp Hf) in E. congruence. }
    rewrite (select_cons_dispatch _ _ _ _ Hs). f_equal.
    pose proof (lift_window p true f w Hp Hf Hw Hs) as H. unfold check_window in H.
    apply andb_true_iff in H as [H _]. apply decision_eqb_eq in H.
    unfold dispatch_rs, dispatch_core, file_event. cbn [ev_dir ev_dest ev_src ev_kind nonempty].
    rewrite classify_table, classify_nil, H. unfold expected_single, listable.
    destruct (listable_core f (fst w) (snd w) (linfo_of p)); reflexivity.
Qed.

(* a move between two paths of the universe *)
Theorem moved_bounded p q c f w :
  In (p, true) u_paths -> In (q, c) (u_moves p) -> In f u_flags -> In w u_windows ->
  dispatch f (fst w) (snd w) (moved p q) =
    if nothing_included f then None
    else Some (render (moved p q) (expected_moved f (fst w) (snd w) (linfo_of p) (linfo_of q))).
Proof.
  intros Hp Hq Hf Hw. destruct (nothing_included f) eqn:En.
  - apply select_nil_dispatch. apply (lift_raises p true f Hp Hf). exact En.
  - assert (Hs : select f <> []).
    { intro E. apply (lift_raises p true f Hp Hf) in E. congruence. }
    rewrite (select_cons_dispatch _ _ _ _ Hs). f_equal.
    pose proof (lift_window p true f w Hp Hf Hw Hs) as H. unfold check_window in H.
    apply andb_true_iff in H as [_ H]. rewrite forallb_forall in H.
    specialize (H (linfo_of q, last_some (table_of q) (select f) None)).
    cbn [fst snd] in H.
    assert (Hin : In (linfo_of q, last_some (table_of q) (select f) None)
                     (map (fun q0 : linfo * rtable => (fst q0, last_some (snd q0) (select f) None))
                        (map (fun qb : word * bool => (linfo_of (fst qb), table_of (fst qb))) (u_moves p)))).
    { rewrite map_map. apply in_map_iff. exists (q, c). split; [reflexivity|exact Hq]. }
    apply H in Hin. apply decision_eqb_eq in Hin.
    unfold dispatch_rs, dispatch_core, moved. cbn [ev_dir ev_dest ev_src ev_kind].
    rewrite (lift_moves_nonempty p true Hp q c Hq), !classify_table, Hin. reflexivity.
Qed.

(* ---- named consequences inside the universe, combining the enumeration with the unbounded
   "a tmp. name is never listable" *)
Theorem never_tmp_bounded d base f w k :
  In (d ++ sep :: base, true) u_paths -> ~ In sep base -> starts_with (W "tmp.") base = true ->
  In f u_flags -> In w u_windows -> nothing_included f = false ->
  dispatch f (fst w) (snd w) (file_event k (d ++ sep :: base)) = Some Dropped.
Proof.
  intros Hp Hn Ht Hf Hw Hi. rewrite (accept_iff_listed_bounded _ f w k Hp Hf Hw), Hi.
  rewrite (listable_never_tmp f (fst w) (snd w) d base Hn Ht). reflexivity.
Qed.

Lemma u_moves_first d base : ~ In sep base ->
  In (d ++ sep :: strip_tmp base, true) (u_moves (d ++ sep :: base)).
Proof. intro Hn. unfold u_moves. rewrite (split_last_join d base Hn). left. reflexivity. Qed.

Lemma strip_tmp_tmp b : strip_tmp (W "tmp." ++ b) = b.
Proof. reflexivity. Qed.

(* the writer's finalizing rename  d/tmp.b -> d/b : delivered as the creation of d/b exactly when
   d/b is listable in the window (and dropped otherwise) *)
Theorem finalize_is_creation_bounded d b f w :
  In (d ++ sep :: W "tmp." ++ b, true) u_paths -> ~ In sep b ->
  In f u_flags -> In w u_windows -> nothing_included f = false ->
  dispatch f (fst w) (snd w) (moved (d ++ sep :: W "tmp." ++ b) (d ++ sep :: b)) =
    Some (if listable f (fst w) (snd w) (d ++ sep :: b) then Deliver Created (d ++ sep :: b) [] else Dropped).
Proof.
  intros Hp Hn Hf Hw Hi.
  assert (Hn' : ~ In sep (W "tmp." ++ b)).
  { intros [H|[H|[H|[H|H]]]]; try discriminate. exact (Hn H). }
  pose proof (u_moves_first d (W "tmp." ++ b) Hn') as Hq. rewrite strip_tmp_tmp in Hq.
  rewrite (moved_bounded _ _ _ f w Hp Hq Hf Hw), Hi. f_equal.
  unfold expected_moved.
  change (listable_core f None None (linfo_of (d ++ sep :: W "tmp." ++ b)))
    with (listable f None None (d ++ sep :: W "tmp." ++ b)).
  rewrite (listable_never_tmp f None None d (W "tmp." ++ b) Hn' eq_refl). cbn [andb].
  change (listable_core f (fst w) (snd w) (linfo_of (d ++ sep :: b))) with (listable f (fst w) (snd w) (d ++ sep :: b)).
  change (listable_core f None None (linfo_of (d ++ sep :: b))) with (listable f None None (d ++ sep :: b)).
  destruct (listable f None None (d ++ sep :: b)) eqn:G.
  - destruct (listable f (fst w) (snd w) (d ++ sep :: b)); reflexivity.
  - rewrite (listable_mono f (fst w) (snd w) _ G). reflexivity.
Qed.

(* outside the claim (case variants, impossible dates) the model at least never raises *)
Theorem never_raises_bounded p claim f w k :
  In (p, claim) u_paths -> In f u_flags -> In w u_windows ->
  dispatch f (fst w) (snd w) (file_event k p) <> Some Raises.
Proof.
  intros Hp Hf Hw. destruct (nothing_included f) eqn:En.
  - rewrite select_nil_dispatch; [discriminate|]. apply (lift_raises p claim f Hp Hf). exact En.
  - assert (Hs : select f <> []).
    { intro E. apply (lift_raises p claim f Hp Hf) in E. congruence. }
    rewrite (select_cons_dispatch _ _ _ _ Hs).
    pose proof (lift_window p claim f w Hp Hf Hw Hs) as H. unfold check_window in H.
    apply andb_true_iff in H as [H _].
    unfold dispatch_rs, dispatch_core, file_event. cbn [ev_dir ev_dest ev_src ev_kind nonempty].
    rewrite classify_table, classify_nil.
    destruct claim.
    + apply decision_eqb_eq in H. rewrite H. unfold expected_single.
      destruct (listable_core f (fst w) (snd w) (linfo_of p)); discriminate.
    + destruct (decide (fst w) (snd w) true false false (last_some (table_of p) (select f) None) None);
        cbn in H; try discriminate; cbn; discriminate.
Qed.

(* the universe is not trivial: sizes, and both outcomes occur *)
Example universe_sizes :
  (length u_paths, length u_flags, length u_windows) = (783%nat, 36%nat, 81%nat).
Proof. vm_compute. reflexivity. Qed.

Example accepted_example :
  dispatch (mkFlags true true None None) (Some T0) (Some T0) (file_event Created (W "/w/ch0/2017-07-14T02-00-00/rf@1500000000.000.h5"))
  = Some (Deliver Created (W "/w/ch0/2017-07-14T02-00-00/rf@1500000000.000.h5") []).
Proof. vm_compute. reflexivity. Qed.

Example window_is_inclusive_and_exact :
  dispatch (mkFlags true true None None) (Some (T0 + 1000)) None
           (file_event Created (W "/w/ch0/2017-07-14T02-00-00/rf@1500000000.000.h5")) = Some Dropped.
Proof. vm_compute. reflexivity. Qed.

Example finalize_example :
  dispatch (mkFlags true false None None) None None
    (moved (W "/w/ch0/2017-07-14T02-00-00/tmp.rf@1500000000.000.h5") (W "/w/ch0/2017-07-14T02-00-00/rf@1500000000.000.h5"))
  = Some (Deliver Created (W "/w/ch0/2017-07-14T02-00-00/rf@1500000000.000.h5") []).
Proof. vm_compute. reflexivity. Qed.

(* documented, outside the claim: the filter is case-insensitive, the listing is not *)
Example case_insensitive_filter :
  accepts (mkFlags true true None None) None None Created (W "/w/ch0/2017-07-14T02-00-00/RF@1500000000.000.H5") = true /\
  listable (mkFlags true true None None) None None (W "/w/ch0/2017-07-14T02-00-00/RF@1500000000.000.H5") = false.
Proof. vm_compute. auto. Qed.
