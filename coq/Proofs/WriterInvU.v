(* The writer invariant and refinement for the un-chunked continuous layout (continuous mode without
   compression or checksums): every file is one full-size block over its window, pre-filled with the
   missing-data value.  In this mode the C library accepts single-block calls only and the Python
   extension splits rf_write_blocks into single-block calls, so single-block histories are ALL
   histories of this mode.  See Properties/C07.v. *)
From Coq Require Import ZArith List Bool Lia.
From DRF Require Import Base.DivLemmas Model.LayoutSpec Model.IndexCalc Model.WriterCore
  Proofs.LayoutProofs Proofs.WriterBasics Proofs.WriterInv.
Import ListNotations.
Local Open Scope Z_scope.

(* ------------------------------------------------------------------ overwrite *)

Lemma overwrite_length (l new : list Z) a : 0 <= a -> a + zlen new <= zlen l -> zlen (overwrite l a new) = zlen l.
Proof.
  intros Ha Hl. unfold overwrite, zlen in *. rewrite !app_length, firstn_length, skipn_length.
  rewrite Nat.min_l by (apply Nat2Z.inj_le; rewrite Z2Nat.id by lia; lia).
  rewrite !Nat2Z.inj_add, Nat2Z.inj_sub by (apply Nat2Z.inj_le; rewrite Nat2Z.inj_add, Z2Nat.id by lia; lia).
  rewrite Nat2Z.inj_add, Z2Nat.id by lia. lia.
Qed.

Lemma overwrite_nth (l new : list Z) a i : 0 <= a -> a + zlen new <= zlen l -> 0 <= i ->
  nth_error (overwrite l a new) (Z.to_nat i) =
    if (a <=? i) && (i <? a + zlen new) then nth_error new (Z.to_nat (i - a)) else nth_error l (Z.to_nat i).
Proof.
  intros Ha Hl Hi. unfold overwrite, zlen in *.
  assert (Hfl : length (firstn (Z.to_nat a) l) = Z.to_nat a).
  { rewrite firstn_length. apply Nat.min_l. apply Nat2Z.inj_le. rewrite Z2Nat.id by lia. lia. }
  destruct (a <=? i) eqn:E1; cbn [andb].
  - apply Z.leb_le in E1.
    rewrite nth_error_app2 by (rewrite Hfl; apply Z2Nat.inj_le; lia).
    rewrite Hfl. rewrite <- Z2Nat.inj_sub by lia.
    destruct (i <? a + Z.of_nat (length new)) eqn:E2.
    + apply Z.ltb_lt in E2. rewrite nth_error_app1; [reflexivity|].
      apply Nat2Z.inj_lt. rewrite Z2Nat.id by lia. lia.
    + apply Z.ltb_ge in E2.
      rewrite nth_error_app2 by (apply Nat2Z.inj_le; rewrite Z2Nat.id by lia; lia).
      rewrite nth_error_skipn_add. f_equal.
      apply Nat2Z.inj. rewrite Nat2Z.inj_add, Nat2Z.inj_add, Nat2Z.inj_sub
        by (apply Nat2Z.inj_le; rewrite Z2Nat.id by lia; lia).
      rewrite !Z2Nat.id by lia. lia.
  - apply Z.leb_gt in E1.
    rewrite nth_error_app1 by (rewrite Hfl; apply Z2Nat.inj_lt; lia).
    apply nth_error_firstn_lt. apply Z2Nat.inj_lt; lia.
Qed.

Lemma repeat_nth (x : Z) n i : (i < n)%nat -> nth_error (repeat x n) i = Some x.
Proof.
  revert i. induction n as [|n IH]; intros i Hi; [lia|]. destruct i; [reflexivity|]. cbn. apply IH. lia.
Qed.

(* ------------------------------------------------------------------ windows are ordered *)

Lemma window_after c K1 K2 : vcfg c -> whi c (Fk c K1) <= K2 -> whi c (Fk c K1) <= wlo c (Fk c K2).
Proof.
  intros Hc H.
  pose proof (Fk_window c K1 Hc) as W1. pose proof (Fk_window c K2 Hc) as W2.
  destruct (Z_lt_le_dec (wlo c (Fk c K2)) (whi c (Fk c K1))) as [Hlt|Hge]; [|exact Hge].
  exfalso.
  set (x := whi c (Fk c K1) - 1).
  assert (Hx1 : Fk c x = Fk c K1) by (apply (Fk_same c K1 x Hc); unfold x; lia).
  assert (Hx2 : Fk c x = Fk c K2) by (apply (Fk_same c K2 x Hc); unfold x; lia).
  assert (E : Fk c K2 = Fk c K1) by congruence.
  rewrite E in W2. lia.
Qed.

(* ------------------------------------------------------------------ the invariant *)

(* one full-size block over the window *)
Definition FWFu (c : cfg) (a : afile) : Prop :=
  f_index a = [(wlo c (f_ms a), 0)] /\ zlen (f_data a) = whi c (f_ms a) - wlo c (f_ms a) /\
  (exists K0, 0 <= K0 /\ f_ms a = Fk c K0).

Record InvU (c : cfg) (st : wstate) : Prop := mkInvU {
  invu_nf : w_failed st = false;
  invu_files : Forall (fun a => FWFu c a /\ whi c (f_ms a) <= c_start c + w_gi st) (w_files st);
  invu_open : match w_openf st with
              | Some a => w_cur st = Some (f_ms a) /\ FWFu c a /\ w_nia st = 1 /\
                          wlo c (f_ms a) < c_start c + w_gi st <= whi c (f_ms a) /\
                          Forall (fun b => FWFu c b /\ whi c (f_ms b) <= wlo c (f_ms a)) (w_files st)
              | None => True
              end
}.

Lemma InvU_init c : InvU c init_state.
Proof. constructor; cbn; auto. Qed.

Lemma file_lookup_u c a k : FWFu c a ->
  file_lookup a k = if (wlo c (f_ms a) <=? k) && (k <? whi c (f_ms a))
                    then nth_error (f_data a) (Z.to_nat (k - wlo c (f_ms a))) else None.
Proof.
  intros (Hi & Hl & _). unfold file_lookup. rewrite Hi. cbn [rows_lookup].
  rewrite Z.sub_0_r, Z.add_0_l. fold (zlen (f_data a)). rewrite Hl.
  replace (wlo c (f_ms a) + (whi c (f_ms a) - wlo c (f_ms a))) with (whi c (f_ms a)) by lia.
  reflexivity.
Qed.

Lemma files_lookup_none_below c fs k B :
  Forall (fun a => FWFu c a /\ whi c (f_ms a) <= B) fs -> B <= k -> files_lookup fs k = None.
Proof.
  induction 1 as [|a fs (Ha & Hw) _ IH]; intros Hk; cbn [files_lookup]; [reflexivity|].
  rewrite (file_lookup_u c a k Ha).
  assert (E : (k <? whi c (f_ms a)) = false) by (apply Z.ltb_ge; lia).
  rewrite E, andb_false_r. apply IH. exact Hk.
Qed.

(* ------------------------------------------------------------------ one per-file step *)

Lemma step_u c st g vec sw :
  vcfg c -> c_chunk c = false -> c_cont c = true -> InvU c st ->
  0 <= sw < zlen vec -> w_gi st <= g + sw -> 0 <= g ->
  let K := c_start c + (g + sw) in
  let F := Fk c K in
  let stw := Z.min (whi c F - K) (zlen vec - sw) in
  exists st',
    write_samples_to_file c st sw [(g, 0)] vec = (Wrote stw, st') /\ 0 < stw /\
    InvU c st' /\ w_gi st' = g + sw + stw /\
    (forall a, In a (all_files st') -> (exists a0, In a0 (all_files st) /\ f_ms a0 = f_ms a) \/ f_ms a = F) /\
    (map f_ms (all_files st') = map f_ms (all_files st) \/
     (map f_ms (all_files st') = map f_ms (all_files st) ++ [F] /\
      Forall (fun a => whi c (f_ms a) <= K) (all_files st))) /\
    forall k, lookup_st st' k =
      if (K <=? k) && (k <? K + stw) then nth_error (slice vec sw stw) (Z.to_nat (k - K))
      else match lookup_st st k with
           | Some v => Some v
           | None => if (wlo c F <=? k) && (k <? whi c F) then Some Fill else None
           end.
Proof.
  intros Hc Hch Hcont HI Hsw Hgi Hg0 K F stw.
  pose proof (Fk_window c K Hc) as HW. fold F in HW.
  assert (Hstw : 0 < stw) by (unfold stw; lia).
  assert (Hnew : zlen (slice vec sw stw) = stw) by (apply slice_length; unfold stw; lia).
  destruct HI as [Hnf Hfiles Hopen].
  unfold write_samples_to_file. cbn [Z.eqb negb]. rewrite ggs_single.
  fold K. unfold zlen in Hsw.
  change (F_of K (c_n c) (c_d c) (c_fc c)) with F.
  change (file_start (F + c_fc c) (c_n c) (c_d c)) with (whi c F).
  change (file_start F (c_n c) (c_d c)) with (wlo c F).
  set (fe := match w_cur st with Some f => (f =? F) && w_open st | None => false end).
  rewrite (crdi_single (c_start c) (w_gi st) (c_chunk c) (c_cont c) sw (whi c F - K) (whi c F - wlo c F) g
             (Z.of_nat (length vec)) fe); try lia.
  rewrite Hch, Hcont. rewrite orb_false_r. cbn [negb andb].
  fold (zlen vec). fold stw.
  replace (g + sw + c_start c - (whi c F - wlo c F - (whi c F - K))) with (wlo c F) by (unfold K; lia).
  replace (whi c F - wlo c F - (whi c F - K)) with (K - wlo c F) by lia.
  destruct fe eqn:Efe; cbn [negb].
  - (* ---- same open file *)
    unfold fe in Efe. destruct (w_cur st) as [f|] eqn:Ecur; [|discriminate].
    apply andb_true_iff in Efe as [Ef Eo]. apply Z.eqb_eq in Ef. subst f.
    unfold w_open in Eo. destruct (w_openf st) as [a|] eqn:Eopen; [|discriminate].
    destruct Hopen as (Hcur & Hfwf & Hnia & Hwin & Hbelow).
    assert (Hms : f_ms a = F) by congruence.
    destruct Hfwf as (Hidx & Hlen & HK0).
    cbn [w_di w_nia w_gi w_cur w_seq w_failed w_files w_openf].
    rewrite Hnia. cbn [Z.eqb map app rev].
    assert (Hdl : K - wlo c F + zlen (slice vec sw stw) <= zlen (f_data a)) by (rewrite Hnew, Hlen, Hms; unfold stw; lia).
    eexists. split; [reflexivity|]. split; [exact Hstw|]. split; [|split; [|split; [|split]]].
    + constructor; cbn [w_failed w_files w_openf w_cur w_di w_nia w_gi].
      * exact Hnf.
      * eapply Forall_impl; [|exact Hfiles]. intros x (Hx1 & Hx2). split; [exact Hx1|lia].
      * split; [cbn [f_ms]; congruence|]. split; [|split; [|split]].
        -- split; [|split]; cbn [f_index f_data f_ms].
           ++ rewrite app_nil_r. exact Hidx.
           ++ rewrite overwrite_length by lia. exact Hlen.
           ++ exact HK0.
        -- reflexivity.
        -- cbn [f_ms]. rewrite Hms in *. unfold stw. lia.
        -- exact Hbelow.
    + cbn [w_gi]. lia.
    + intros x. unfold all_files. cbn [w_files w_openf]. rewrite Eopen. intros Hin.
      apply in_app_or in Hin as [Hin|Hin].
      * left. exists x. split; [apply in_or_app; left; exact Hin|reflexivity].
      * destruct Hin as [<-|[]]. left. exists a. split; [apply in_or_app; right; left; reflexivity|reflexivity].
    + left. unfold all_files. cbn [w_files w_openf]. rewrite Eopen. rewrite !map_app. reflexivity.
    + intros k. unfold lookup_st, all_files. cbn [w_files w_openf]. rewrite Eopen.
      rewrite !files_lookup_app.
      assert (Hfa' : FWFu c {| f_ms := f_ms a; f_tmp := true; f_index := f_index a ++ [];
                               f_data := overwrite (f_data a) (K - wlo c F) (slice vec sw stw);
                               f_cap := f_cap a; f_seq := f_seq a |}).
      { split; [|split]; cbn [f_index f_data f_ms]; [rewrite app_nil_r; exact Hidx|rewrite overwrite_length by lia; exact Hlen|exact HK0]. }
      rewrite (file_lookup_u c _ k Hfa'). rewrite (file_lookup_u c a k (conj Hidx (conj Hlen HK0))).
      cbn [f_ms f_data]. rewrite Hms.
      destruct ((K <=? k) && (k <? K + stw)) eqn:Ein.
      * apply andb_true_iff in Ein as [E1 E2]. apply Z.leb_le in E1. apply Z.ltb_lt in E2.
        rewrite (files_lookup_none_below c (w_files st) k (wlo c (f_ms a)) Hbelow) by (rewrite Hms; lia).
        assert (Ew : (wlo c F <=? k) && (k <? whi c F) = true).
        { apply andb_true_iff; split; [apply Z.leb_le|apply Z.ltb_lt]; unfold stw in *; lia. }
        rewrite Ew. rewrite overwrite_nth by lia. rewrite Hnew.
        assert (Eo2 : (K - wlo c F <=? k - wlo c F) && (k - wlo c F <? K - wlo c F + stw) = true).
        { apply andb_true_iff; split; [apply Z.leb_le|apply Z.ltb_lt]; lia. }
        rewrite Eo2. f_equal. f_equal. lia.
      * destruct (files_lookup (w_files st) k) as [v|]; [reflexivity|].
        destruct ((wlo c F <=? k) && (k <? whi c F)) eqn:Ew; [|reflexivity].
        apply andb_true_iff in Ew as [E1 E2]. apply Z.leb_le in E1. apply Z.ltb_lt in E2.
        rewrite overwrite_nth by lia. rewrite Hnew.
        assert (Eo2 : (K - wlo c F <=? k - wlo c F) && (k - wlo c F <? K - wlo c F + stw) = false).
        { apply andb_false_iff in Ein as [E|E]; [apply Z.leb_gt in E|apply Z.ltb_ge in E];
            apply andb_false_iff; [left; apply Z.leb_gt|right; apply Z.ltb_ge]; lia. }
        rewrite Eo2.
        destruct (nth_error_in_range (f_data a) (k - wlo c F)) as (v & Hv); [rewrite Hlen, Hms; lia|].
        rewrite Hv. reflexivity.
  - (* ---- another file: finalize the open one (if any), create F pre-filled *)
    assert (Hfin : Forall (fun a => FWFu c a /\ whi c (f_ms a) <= wlo c F) (finalize st)).
    { unfold finalize. destruct (w_openf st) as [a|] eqn:Eopen.
      - rewrite Hnf. destruct Hopen as (Hcur & Hfwf & Hnia & Hwin & Hbelow).
        assert (Hne : f_ms a <> F).
        { unfold fe in Efe. rewrite Hcur in Efe. unfold w_open in Efe. rewrite Eopen in Efe.
          rewrite andb_true_r in Efe. apply Z.eqb_neq in Efe. exact Efe. }
        destruct Hfwf as (Hidx & Hlen & (K0 & HK0n & HK0)).
        assert (HwK : whi c (f_ms a) <= K).
        { destruct (Z_lt_le_dec K (whi c (f_ms a))) as [Hlt|Hge]; [|exact Hge].
          exfalso. apply Hne. rewrite HK0. symmetry. apply (Fk_same c K0 K Hc). rewrite <- HK0. unfold K in *. lia. }
        assert (Hwa : whi c (f_ms a) <= wlo c F) by (rewrite HK0 in *; apply window_after; assumption).
        apply Forall_app. split.
        + eapply Forall_impl; [|exact Hbelow]. intros x (Hx1 & Hx2). split; [exact Hx1|].
          pose proof (Fk_window c K0 Hc) as W0. rewrite <- HK0 in W0. lia.
        + constructor; [|constructor]. split; [exact (conj Hidx (conj Hlen (ex_intro _ K0 (conj HK0n HK0))))|exact Hwa].
      - eapply Forall_impl; [|exact Hfiles]. intros x ((Hx1 & Hx2 & (K0 & HK0n & HK0)) & Hx3).
        split; [exact (conj Hx1 (conj Hx2 (ex_intro _ K0 (conj HK0n HK0))))|].
        rewrite HK0 in *. apply window_after; [assumption|unfold K; lia]. }
    assert (Hnofinal : has_final F (finalize st) = false).
    { apply has_final_false. eapply Forall_impl; [|exact Hfin]. intros x (_ & Hx) E. rewrite E in Hx. lia. }
    rewrite Hnofinal.
    cbn [w_di w_nia w_gi w_cur w_seq w_failed w_files w_openf f_ms f_index f_data f_cap f_seq Z.eqb app map rev].
    set (cap := whi c F - wlo c F).
    assert (Hcap0 : zlen (repeat Fill (Z.to_nat cap)) = cap) by (unfold zlen; rewrite repeat_length, Z2Nat.id; unfold cap; lia).
    assert (Hdl : K - wlo c F + zlen (slice vec sw stw) <= zlen (repeat Fill (Z.to_nat cap))) by (rewrite Hnew, Hcap0; unfold cap, stw; lia).
    eexists. split; [reflexivity|]. split; [exact Hstw|]. split; [|split; [|split; [|split]]].
    + constructor; cbn [w_failed w_files w_openf w_cur w_di w_nia w_gi].
      * exact Hnf.
      * eapply Forall_impl; [|exact Hfin]. intros x (Hx1 & Hx2). split; [exact Hx1|lia].
      * split; [reflexivity|]. split; [|split; [|split]].
        -- split; [|split]; cbn [f_index f_data f_ms app].
           ++ reflexivity.
           ++ rewrite overwrite_length by lia. exact Hcap0.
           ++ exists K. split; [unfold K; destruct Hc as (_ & _ & _ & Hs0); lia|reflexivity].
        -- reflexivity.
        -- cbn [f_ms]. unfold stw. lia.
        -- exact Hfin.
    + cbn [w_gi]. lia.
    + intros x. unfold all_files. cbn [w_files w_openf]. intros Hin.
      apply in_app_or in Hin as [Hin|Hin].
      * left. unfold finalize in Hin. destruct (w_openf st) as [a|] eqn:Eopen.
        -- rewrite Hnf in Hin. apply in_app_or in Hin as [Hin|Hin].
           ++ exists x. split; [apply in_or_app; left; exact Hin|reflexivity].
           ++ destruct Hin as [<-|[]]. exists a. split; [apply in_or_app; right; left; reflexivity|reflexivity].
        -- exists x. split; [apply in_or_app; left; exact Hin|reflexivity].
      * destruct Hin as [<-|[]]. right. reflexivity.
    + right.
      assert (Hms : map f_ms (finalize st) = map f_ms (all_files st) /\ Forall (fun a => whi c (f_ms a) <= K) (all_files st)).
      { unfold finalize, all_files in *. destruct (w_openf st) as [a|].
        - rewrite Hnf in *. rewrite !map_app. cbn [map set_final f_ms]. split; [reflexivity|].
          apply Forall_app in Hfin as [H1 H2]. apply Forall_app. split.
          + eapply Forall_impl; [|exact H1]. intros x (_ & Hx). lia.
          + inversion H2 as [|? ? (_ & Hx) _]; subst. constructor; [cbn [f_ms set_final] in Hx; lia|constructor].
        - rewrite app_nil_r. split; [reflexivity|]. eapply Forall_impl; [|exact Hfin]. intros x (_ & Hx). lia. }
      destruct Hms as (Hms1 & Hms2). split; [|exact Hms2].
      unfold all_files at 1. cbn [w_files w_openf]. rewrite map_app, Hms1. reflexivity.
    + intros k. unfold lookup_st, all_files. cbn [w_files w_openf].
      rewrite files_lookup_app.
      assert (Hold : files_lookup (finalize st) k = files_lookup (w_files st ++ match w_openf st with Some a => [a] | None => [] end) k).
      { unfold finalize. destruct (w_openf st) as [a|]; [|rewrite app_nil_r; reflexivity].
        rewrite Hnf. rewrite !files_lookup_app. reflexivity. }
      assert (Hfa' : FWFu c {| f_ms := F; f_tmp := true; f_index := [(wlo c F, 0)];
                               f_data := overwrite (repeat Fill (Z.to_nat cap)) (K - wlo c F) (slice vec sw stw);
                               f_cap := cap; f_seq := w_seq st + 1 |}).
      { split; [|split]; cbn [f_index f_data f_ms]; [reflexivity|rewrite overwrite_length by lia; exact Hcap0|exists K; split; [unfold K; destruct Hc as (_ & _ & _ & Hs0); lia|reflexivity]]. }
      rewrite (file_lookup_u c _ k Hfa'). cbn [f_ms f_data].
      destruct ((wlo c F <=? k) && (k <? whi c F)) eqn:Ew.
      * apply andb_true_iff in Ew as [E1 E2]. apply Z.leb_le in E1. apply Z.ltb_lt in E2.
        rewrite <- Hold. rewrite (files_lookup_none_below c (finalize st) k (wlo c F) Hfin) by lia.
        rewrite overwrite_nth by lia. rewrite Hnew.
        destruct ((K <=? k) && (k <? K + stw)) eqn:Ein.
        -- apply andb_true_iff in Ein as [E3 E4]. apply Z.leb_le in E3. apply Z.ltb_lt in E4.
           assert (Eo2 : (K - wlo c F <=? k - wlo c F) && (k - wlo c F <? K - wlo c F + stw) = true).
           { apply andb_true_iff; split; [apply Z.leb_le|apply Z.ltb_lt]; lia. }
           rewrite Eo2. f_equal. f_equal. lia.
        -- assert (Eo2 : (K - wlo c F <=? k - wlo c F) && (k - wlo c F <? K - wlo c F + stw) = false).
           { apply andb_false_iff in Ein as [E|E]; [apply Z.leb_gt in E|apply Z.ltb_ge in E];
               apply andb_false_iff; [left; apply Z.leb_gt|right; apply Z.ltb_ge]; lia. }
           rewrite Eo2. apply repeat_nth. apply Nat2Z.inj_lt. rewrite !Z2Nat.id by (unfold cap; lia). unfold cap. lia.
      * assert (Ein : (K <=? k) && (k <? K + stw) = false).
        { apply andb_false_iff in Ew as [E|E]; [apply Z.leb_gt in E|apply Z.ltb_ge in E];
            apply andb_false_iff; [left; apply Z.leb_gt|right; apply Z.ltb_ge]; unfold stw in *; lia. }
        rewrite Ein. rewrite Hold.
        destruct (files_lookup (w_files st ++ match w_openf st with Some a => [a] | None => [] end) k); reflexivity.
Qed.

(* ------------------------------------------------------------------ relation between two states across new samples [lo, hi) *)

Record StepRel (c : cfg) (st st' : wstate) (lo hi : Z) (newval : Z -> option Z) : Prop := mkRel {
  r_new : forall k, lo <= k < hi -> lookup_st st' k = newval k;
  r_keep : forall k v, ~ (lo <= k < hi) -> lookup_st st k = Some v -> lookup_st st' k = Some v;
  r_only : forall k v, ~ (lo <= k < hi) -> lookup_st st' k = Some v ->
             lookup_st st k = Some v \/ (lookup_st st k = None /\ v = Fill);
  r_files : forall a, In a (all_files st') ->
             (exists a0, In a0 (all_files st) /\ f_ms a0 = f_ms a) \/ (exists k, lo <= k < hi /\ wlo c (f_ms a) <= k < whi c (f_ms a))
}.

Lemma StepRel_refl c st lo newval : StepRel c st st lo lo newval.
Proof.
  constructor; try (intros; lia); auto.
  intros a Ha. left. exists a. auto.
Qed.

Lemma StepRel_trans c st st1 st2 lo mid hi newval : lo <= mid <= hi ->
  (forall k, lo <= k < mid -> exists v, newval k = Some v) ->
  StepRel c st st1 lo mid newval -> StepRel c st1 st2 mid hi newval -> StepRel c st st2 lo hi newval.
Proof.
  intros Hm Hnv [A1 A2 A3 A4] [B1 B2 B3 B4]. constructor.
  - intros k Hk. destruct (Z_lt_le_dec k mid) as [Hlt|Hge].
    + destruct (Hnv k ltac:(lia)) as (v & En). rewrite En.
      apply B2; [lia|]. rewrite A1 by lia. exact En.
    + apply B1. lia.
  - intros k v Hk Hs. apply B2; [lia|]. apply A2; [lia|exact Hs].
  - intros k v Hk H2. destruct (B3 k v ltac:(lia) H2) as [H1|(H1 & Hv)].
    + apply A3; [lia|exact H1].
    + right. split; [|exact Hv]. destruct (lookup_st st k) as [w|] eqn:E; [|reflexivity].
      rewrite (A2 k w ltac:(lia) E) in H1. discriminate.
  - intros a Ha. destruct (B4 a Ha) as [(a1 & Ha1 & E1)|(k & Hk & Hw)].
    + destruct (A4 a1 Ha1) as [(a0 & Ha0 & E0)|(k & Hk & Hw)].
      * left. exists a0. split; [exact Ha0|congruence].
      * right. exists k. rewrite <- E1. split; [lia|exact Hw].
    + right. exists k. split; [lia|exact Hw].
Qed.

Lemma files_lookup_lt c fs k w B :
  Forall (fun a => FWFu c a /\ whi c (f_ms a) <= B) fs -> files_lookup fs k = Some w -> k < B.
Proof.
  induction 1 as [|b fs (Hb & Hw) _ IH]; cbn [files_lookup]; [discriminate|].
  rewrite (file_lookup_u c b k Hb). destruct ((wlo c (f_ms b) <=? k) && (k <? whi c (f_ms b))) eqn:Ew.
  - intros _. apply andb_true_iff in Ew as [_ E2]. apply Z.ltb_lt in E2. lia.
  - exact IH.
Qed.

Lemma lookup_u_bound c st k v : InvU c st -> lookup_st st k = Some v -> k < c_start c + w_gi st \/
  (exists a, w_openf st = Some a /\ k < whi c (f_ms a)).
Proof.
  intros [_ Hf Ho] H. unfold lookup_st, all_files in H.
  destruct (w_openf st) as [a|] eqn:Eo.
  - rewrite files_lookup_app in H. destruct (files_lookup (w_files st) k) as [w|] eqn:E.
    + left. eapply files_lookup_lt; eassumption.
    + right. exists a. split; [reflexivity|]. destruct Ho as (_ & Ha & _).
      rewrite (file_lookup_u c a k Ha) in H. destruct ((wlo c (f_ms a) <=? k) && (k <? whi c (f_ms a))) eqn:Ew; [|discriminate].
      apply andb_true_iff in Ew as [_ E2]. apply Z.ltb_lt in E2. exact E2.
  - left. rewrite app_nil_r in H. eapply files_lookup_lt; eassumption.
Qed.

Definition newval_of (c : cfg) (g : Z) (vec : list Z) (k : Z) : option Z :=
  nth_error vec (Z.to_nat (k - c_start c - g)).

Lemma step_u_rel c st g vec sw :
  vcfg c -> c_chunk c = false -> c_cont c = true -> InvU c st ->
  0 <= sw < zlen vec -> w_gi st <= g + sw -> 0 <= g ->
  let K := c_start c + (g + sw) in
  let stw := Z.min (whi c (Fk c K) - K) (zlen vec - sw) in
  exists st',
    write_samples_to_file c st sw [(g, 0)] vec = (Wrote stw, st') /\ 0 < stw /\
    InvU c st' /\ w_gi st' = g + sw + stw /\ StepRel c st st' K (K + stw) (newval_of c g vec) /\
    (ms_incr (map f_ms (all_files st)) -> ms_incr (map f_ms (all_files st'))).
Proof.
  intros Hc Hch Hco HI Hsw Hgi Hg K stw.
  destruct (step_u c st g vec sw Hc Hch Hco HI Hsw Hgi Hg) as (st' & Hw & Hpos & HI' & Hgi' & Hfs & Hms & Hlk).
  fold K in Hw, Hlk, Hfs, Hms. fold stw in Hw, Hpos, Hgi', Hlk.
  exists st'. split; [exact Hw|]. split; [exact Hpos|]. split; [exact HI'|]. split; [exact Hgi'|].
  split; [|
    intros Hso; destruct Hms as [E|(E & Hall)]; rewrite E; [exact Hso|];
    apply ms_incr_snoc; [exact Hso|]; apply Forall_map;
    assert (HF : Forall (fun a => exists K0, 0 <= K0 /\ f_ms a = Fk c K0) (all_files st));
    [ destruct HI as [_ Hf Ho]; unfold all_files; apply Forall_app; split;
      [ eapply Forall_impl; [|exact Hf]; intros a ((_ & _ & H) & _); exact H
      | destruct (w_openf st) as [a|]; [|constructor]; constructor; [|constructor];
        destruct Ho as (_ & (_ & _ & H) & _); exact H ]
    | clear - Hall HF Hc; induction Hall as [|a l Ha _ IHl]; [constructor|];
      inversion HF as [|? ? (K0 & HK0 & EK0) HF']; subst; constructor; [|apply IHl; exact HF'];
      rewrite EK0 in *; apply Fk_lt_of_below; assumption ] ].
  pose proof (Fk_window c K Hc) as HW.
  constructor.
  - intros k Hk. rewrite Hlk.
    assert (E : (K <=? k) && (k <? K + stw) = true) by (apply andb_true_iff; split; [apply Z.leb_le|apply Z.ltb_lt]; lia).
    rewrite E. rewrite (slice_nth vec sw stw (k - K)) by (unfold stw in *; lia).
    unfold newval_of. f_equal. f_equal. unfold K. lia.
  - intros k v Hk Hs. rewrite Hlk.
    assert (E : (K <=? k) && (k <? K + stw) = false).
    { apply andb_false_iff. destruct (Z_lt_le_dec k K); [left; apply Z.leb_gt; lia|right; apply Z.ltb_ge; lia]. }
    rewrite E, Hs. reflexivity.
  - intros k v Hk Hs. rewrite Hlk in Hs.
    assert (E : (K <=? k) && (k <? K + stw) = false).
    { apply andb_false_iff. destruct (Z_lt_le_dec k K); [left; apply Z.leb_gt; lia|right; apply Z.ltb_ge; lia]. }
    rewrite E in Hs. destruct (lookup_st st k) as [w|]; [left; exact Hs|].
    right. split; [reflexivity|]. destruct ((wlo c (Fk c K) <=? k) && (k <? whi c (Fk c K))); congruence.
  - intros a Ha. destruct (Hfs a Ha) as [H|H]; [left; exact H|].
    right. exists K. rewrite H. split; [lia|exact HW].
Qed.

Lemma loop_u c g vec : vcfg c -> c_chunk c = false -> c_cont c = true -> 0 <= g ->
  forall fuel st sw, InvU c st -> 0 <= sw <= zlen vec -> (sw < zlen vec -> w_gi st <= g + sw) ->
  zlen vec - sw < Z.of_nat fuel ->
  exists st',
    write_loop fuel c st sw [(g, 0)] vec = (0, st') /\ InvU c st' /\
    (sw < zlen vec -> w_gi st' = g + zlen vec) /\ (sw = zlen vec -> st' = st) /\
    StepRel c st st' (c_start c + g + sw) (c_start c + g + zlen vec) (newval_of c g vec) /\
    (ms_incr (map f_ms (all_files st)) -> ms_incr (map f_ms (all_files st'))).
Proof.
  intros Hc Hch Hco Hg0. induction fuel as [|fuel IH]; intros st sw HI Hsw Hgi Hfuel.
  - cbn in Hfuel. lia.
  - cbn [write_loop]. fold (zlen vec).
    destruct (sw <? zlen vec) eqn:El.
    + apply Z.ltb_lt in El.
      destruct (step_u_rel c st g vec sw Hc Hch Hco HI ltac:(lia) (Hgi El) Hg0)
        as (st1 & Hstep & Hpos & HI1 & Hgi1 & Hrel1 & Hso1).
      rewrite Hstep.
      set (K := c_start c + (g + sw)) in *.
      set (stw := Z.min (whi c (Fk c K) - K) (zlen vec - sw)) in *.
      assert (E0 : (stw =? 0) = false) by (apply Z.eqb_neq; lia). rewrite E0.
      destruct (IH st1 (sw + stw) HI1 ltac:(unfold stw; lia) ltac:(intros _; lia)
                  ltac:(rewrite Nat2Z.inj_succ in Hfuel; lia))
        as (st2 & Hloop & HI2 & Hgi2 & Hsame & Hrel2 & Hso2).
      exists st2. split; [exact Hloop|]. split; [exact HI2|]. split; [|split; [|split]].
      * intros _. destruct (Z_lt_le_dec (sw + stw) (zlen vec)) as [Hlt|Hge].
        -- apply Hgi2. exact Hlt.
        -- assert (sw + stw = zlen vec) by (unfold stw in *; lia).
           rewrite (Hsame H). lia.
      * intros E. lia.
      * apply (StepRel_trans c st st1 st2 _ (K + stw) _ (newval_of c g vec)).
        -- unfold K, stw. lia.
        -- intros k Hk. unfold newval_of. apply nth_error_in_range. unfold K, stw in *. lia.
        -- replace (c_start c + g + sw) with K by (unfold K; lia). exact Hrel1.
        -- replace (K + stw) with (c_start c + g + (sw + stw)) by (unfold K; lia). exact Hrel2.
      * intros Hso. exact (Hso2 (Hso1 Hso)).
    + apply Z.ltb_ge in El. assert (E : sw = zlen vec) by lia.
      exists st. split; [reflexivity|]. split; [exact HI|]. split; [lia|]. split; [reflexivity|].
      split; [rewrite E; apply StepRel_refl|auto].
Qed.

(* ------------------------------------------------------------------ one call, histories *)

Lemma write_one_u c st g vec : vcfg c -> c_chunk c = false -> c_cont c = true -> InvU c st -> 0 <= g ->
  if g <? w_gi st then write_one c st g vec = (-3, st)
  else exists st', write_one c st g vec = (0, st') /\ InvU c st' /\
         w_gi st' = (if zlen vec =? 0 then w_gi st else g + zlen vec) /\
         StepRel c st st' (c_start c + g) (c_start c + g + zlen vec) (newval_of c g vec) /\
         (ms_incr (map f_ms (all_files st)) -> ms_incr (map f_ms (all_files st'))).
Proof.
  intros Hc Hch Hco HI Hg. unfold write_one, write_blocks. rewrite (invu_nf c st HI).
  destruct (g <? w_gi st) eqn:Eg; [reflexivity|]. apply Z.ltb_ge in Eg.
  rewrite andb_false_r.
  destruct (loop_u c g vec Hc Hch Hco Hg (S (length vec)) st 0 HI ltac:(unfold zlen; lia) ltac:(lia)
              ltac:(unfold zlen; lia)) as (st' & Hl & HI' & Hgi' & Hsame & Hrel & Hso).
  exists st'. split; [exact Hl|]. split; [exact HI'|]. split; [|split; [|exact Hso]].
  - destruct (zlen vec =? 0) eqn:E0.
    + apply Z.eqb_eq in E0. rewrite (Hsame (eq_sym E0)). reflexivity.
    + apply Z.eqb_neq in E0. apply Hgi'. unfold zlen in *. lia.
  - rewrite Z.add_0_r in Hrel. exact Hrel.
Qed.

(* st refines the Spec map s (which records written samples only):
   written samples are stored with their values, everything else that is exposed is the fill value,
   every file is one full block over its window and holds at least one written sample *)
Record refines_u (c : cfg) (st : wstate) (s : spec) : Prop := mkRefU {
  ru_inv : InvU c st;
  ru_cur : w_gi st = s_cur s;
  ru_written : forall k v, s_map s k = Some v -> lookup_st st k = Some v;
  ru_only : forall k v, lookup_st st k = Some v -> s_map s k = Some v \/ (s_map s k = None /\ v = Fill);
  ru_files : forall a, In a (all_files st) -> exists k v, wlo c (f_ms a) <= k < whi c (f_ms a) /\ s_map s k = Some v;
  ru_sorted : ms_incr (map f_ms (all_files st))
}.

Lemma refines_u_step c st s op : vcfg c -> c_chunk c = false -> c_cont c = true -> 0 <= fst op ->
  refines_u c st s -> refines_u c (model_step c st op) (spec_step c s op).
Proof.
  intros Hc Hch Hco Hg [HI Hgi Hwr Hon Hfs Hsorted]. destruct op as [g vec]. cbn [fst snd] in *.
  unfold model_step, spec_step. cbn [fst snd].
  pose proof (write_one_u c st g vec Hc Hch Hco HI Hg) as H. rewrite Hgi in H.
  destruct (g <? s_cur s) eqn:Eg.
  - rewrite H. cbn [snd]. constructor; assumption.
  - destruct H as (st' & Hw & HI' & Hgi' & [R1 R2 R3 R4] & Hso'). rewrite Hw. cbn [snd].
    assert (Hrange : forall k, (c_start c + g <=? k) && (k <? c_start c + g + zlen vec) = true <->
                               c_start c + g <= k < c_start c + g + zlen vec).
    { intros k. rewrite andb_true_iff, Z.leb_le, Z.ltb_lt. tauto. }
    constructor; cbn [s_cur s_map].
    + exact HI'.
    + exact Hgi'.
    + intros k v. destruct ((c_start c + g <=? k) && (k <? c_start c + g + zlen vec)) eqn:E.
      * apply Hrange in E. intros Hv. rewrite (R1 k E). exact Hv.
      * intros Hv. apply R2; [rewrite <- Hrange; congruence|]. apply Hwr. exact Hv.
    + intros k v Hl. destruct ((c_start c + g <=? k) && (k <? c_start c + g + zlen vec)) eqn:E.
      * apply Hrange in E. left. change (newval_of c g vec k = Some v). rewrite <- (R1 k E). exact Hl.
      * assert (Hn : ~ (c_start c + g <= k < c_start c + g + zlen vec)) by (rewrite <- Hrange; congruence).
        destruct (R3 k v Hn Hl) as [Ho|(Ho & Hv)].
        -- apply Hon. exact Ho.
        -- right. split; [|exact Hv]. destruct (s_map s k) as [w|] eqn:Es; [|reflexivity].
           rewrite (Hwr k w Es) in Ho. discriminate.
    + intros a Ha. destruct (R4 a Ha) as [(a0 & Ha0 & E0)|(k & Hk & Hw')].
      * destruct (Hfs a0 Ha0) as (k & v & Hk & Hv). rewrite E0 in Hk.
        destruct ((c_start c + g <=? k) && (k <? c_start c + g + zlen vec)) eqn:E.
        -- apply Hrange in E. destruct (nth_error_in_range vec (k - c_start c - g) ltac:(lia)) as (w & Hw2).
           exists k, w. split; [exact Hk|]. apply Hrange in E. rewrite E. exact Hw2.
        -- exists k, v. split; [exact Hk|]. rewrite E. exact Hv.
      * destruct (nth_error_in_range vec (k - c_start c - g) ltac:(lia)) as (w & Hw2).
        exists k, w. split; [exact Hw'|]. apply Hrange in Hk. rewrite Hk. exact Hw2.
    + exact (Hso' Hsorted).
Qed.

Theorem writer_refines_unchunked c ops : vcfg c -> c_chunk c = false -> c_cont c = true ->
  Forall (fun op => 0 <= fst op) ops ->
  refines_u c (fold_left (model_step c) ops init_state) (fold_left (spec_step c) ops spec_init).
Proof.
  intros Hc Hch Hco Hops.
  assert (G : forall st s, refines_u c st s ->
            refines_u c (fold_left (model_step c) ops st) (fold_left (spec_step c) ops s)).
  { induction Hops as [|op ops Hop _ IH]; intros st s HR; cbn [fold_left]; [exact HR|].
    apply IH. apply refines_u_step; assumption. }
  apply G. constructor; cbn.
  - apply InvU_init.
  - reflexivity.
  - discriminate.
  - discriminate.
  - intros a [].
  - exact I.
Qed.

(* every file of every reachable state: a single block exposing every slot of its window *)
Theorem unchunked_files_full_block c ops : vcfg c -> c_chunk c = false -> c_cont c = true ->
  Forall (fun op => 0 <= fst op) ops ->
  Forall (fun a => f_index a = [(wlo c (f_ms a), 0)] /\ zlen (f_data a) = whi c (f_ms a) - wlo c (f_ms a))
         (all_files (fold_left (model_step c) ops init_state)).
Proof.
  intros Hc Hch Hco Hops. destruct (writer_refines_unchunked c ops Hc Hch Hco Hops) as [[_ Hf Ho] _ _ _ _ _].
  unfold all_files. apply Forall_app. split.
  - eapply Forall_impl; [|exact Hf]. intros a ((H1 & H2 & _) & _). auto.
  - destruct (w_openf _) as [a|]; [|constructor]. constructor; [|constructor].
    destruct Ho as (_ & (H1 & H2 & _) & _). auto.
Qed.

Example unchunked_example :
  let c := mkCfg 150000000003 100 1 1 100 true false in     (* starts 3 samples into a 10-sample file *)
  let ops := [(0, [1; 2]); (4, [3]); (30, [4; 5])] in
  let st := fold_left (model_step c) ops init_state in
  vcfg c /\ w_gi st = 32 /\ length (all_files st) = 2%nat /\
  lookup_st st 150000000000 = Some Fill /\ lookup_st st 150000000004 = Some 2 /\
  lookup_st st 150000000005 = Some Fill /\ lookup_st st 150000000007 = Some 3 /\
  lookup_st st 150000000015 = None /\ lookup_st st 150000000033 = Some 4.
Proof. vm_compute. repeat split; try reflexivity; try (intro; discriminate). Qed.
