(* C20: live visibility and non-destructive reading, over Model/MdLive.v. *)
From Coq Require Import ZArith List Bool Lia Sorted.
From DRF Require Import Base.DivLemmas Model.Ld80 Model.MdPlace Model.MdStore Model.MdLive
  Proofs.MdPlaceProofs Proofs.MdStoreProofs.
Import ListNotations.
Local Open Scope Z_scope.

(* ------------------------------------------------------------------ on a valid tree the reader is pure *)
Section Valid.
  Variable fs : fsys.
  Hypothesis Hv : valid_tree fs.

  Lemma is_bad_false p : is_bad fs p = false.
  Proof. unfold is_bad. rewrite Hv. reflexivity. Qed.

  Lemma file_list_fs_eq c s0 s1 : file_list_fs c fs s0 s1 = file_list Exact c (f_ents fs) s0 s1.
  Proof.
    unfold file_list_fs, file_list. apply filter_ext. intros p.
    unfold file_exists_fs. rewrite is_bad_false. apply orb_false_r.
  Qed.

  Lemma add_metadata_fs_eq acc p s0 s1 e :
    add_metadata_fs fs acc p s0 s1 e = (add_metadata acc (groups (f_ents fs) p) s0 s1 e, fs).
  Proof. unfold add_metadata_fs. rewrite is_bad_false. reflexivity. Qed.

  Lemma fold_add_fs (f : Z * Z -> bool) s0 s1 l : forall acc,
    fold_left (fun st p => add_metadata_fs (snd st) (fst st) p s0 s1 (f p)) l (acc, fs) =
    (fold_left (fun acc p => add_metadata acc (groups (f_ents fs) p) s0 s1 (f p)) l acc, fs).
  Proof.
    induction l as [|p l IH]; intros acc; [reflexivity|].
    cbn [fold_left fst snd]. rewrite add_metadata_fs_eq. apply IH.
  Qed.

  Lemma read_range_fs_eq c acc s0 s1 :
    read_range_fs c fs acc s0 s1 = (read_range Exact c (f_ents fs) acc s0 s1, fs).
  Proof.
    unfold read_range_fs, read_range. rewrite file_list_fs_eq.
    apply (fold_add_fs (fun p => is_edge_file p (file_list Exact c (f_ents fs) s0 s1))).
  Qed.

  Lemma listing_fs_eq : listing_fs fs = listing (f_ents fs).
  Proof. unfold listing_fs, listing. rewrite Hv. cbn [map]. rewrite app_nil_r. reflexivity. Qed.

  Lemma first_sample_fs_eq ps : first_sample_fs fs ps = first_sample IntSort (f_ents fs) ps.
  Proof.
    induction ps as [|p r IH]; [reflexivity|]. cbn [first_sample_fs first_sample].
    rewrite is_bad_false. change (name_leb IntSort) with key_leb.
    destruct (isort key_leb (groups (f_ents fs) p)); [exact IH|reflexivity].
  Qed.

  Lemma last_sample_fs_eq ps : last_sample_fs fs ps = last_sample IntSort (f_ents fs) ps.
  Proof.
    induction ps as [|p r IH]; [reflexivity|]. cbn [last_sample_fs last_sample].
    rewrite is_bad_false. change (name_leb IntSort) with key_leb.
    destruct (rev (isort key_leb (groups (f_ents fs) p))); [exact IH|reflexivity].
  Qed.

  Lemma get_bounds_fs_eq : get_bounds_fs fs = get_bounds fixed_code (f_ents fs).
  Proof.
    unfold get_bounds_fs, get_bounds. cbn [v_gsort fixed_code].
    rewrite listing_fs_eq, first_sample_fs_eq, last_sample_fs_eq. reflexivity.
  Qed.

  Lemma ffill_scan_fs_eq l sb s0 : ffill_scan_fs fs l sb s0 = (ffill_scan (f_ents fs) l sb s0 true, fs).
  Proof.
    induction l as [|p r IH]; [reflexivity|]. cbn [ffill_scan_fs ffill_scan].
    rewrite add_metadata_fs_eq.
    destruct (rev (add_metadata [] (groups (f_ents fs) p) sb s0 true)); [exact IH|reflexivity].
  Qed.

  Lemma read_fs_eq c a b ff : read_fs c fs a b ff = (read fixed_code c (f_ents fs) a b ff, fs).
  Proof.
    unfold read_fs, read. cbn [v_arith v_ffedge fixed_code]. rewrite get_bounds_fs_eq.
    destruct (match a with Some s => Some s | None => option_map snd (get_bounds fixed_code (f_ents fs)) end)
      as [s0|]; [|reflexivity].
    destruct (match b with Some e => e | None => s0 end <? s0); [reflexivity|].
    destruct ff.
    - destruct (get_bounds fixed_code (f_ents fs)) as [[sb hi]|]; [|reflexivity].
      rewrite file_list_fs_eq, ffill_scan_fs_eq, read_range_fs_eq. reflexivity.
    - rewrite read_range_fs_eq. reflexivity.
  Qed.

  Lemma read_latest_fs_eq c : read_latest_fs c fs = (read_latest fixed_code c (f_ents fs), fs).
  Proof.
    unfold read_latest_fs, read_latest. rewrite get_bounds_fs_eq.
    destruct (get_bounds fixed_code (f_ents fs)) as [[lo hi]|]; [apply read_fs_eq|reflexivity].
  Qed.
End Valid.

(* ------------------------------------------------------------------ reads do not mutate *)
Definition read_only (o : op) : Prop := match o with OWrite _ => False | _ => True end.

Theorem reads_do_not_mutate fs rs o : valid_tree fs -> read_only o -> fst (fst (step (fs, rs) o)) = fs.
Proof.
  intros Hv Hr. destruct o as [l| |r|r s0 s1 ff|r]; cbn [step]; try contradiction; try reflexivity.
  - destruct (nth_error rs r); reflexivity.
  - destruct (nth_error rs r) as [c|]; [|reflexivity]. rewrite (read_fs_eq fs Hv). reflexivity.
  - destruct (nth_error rs r) as [c|]; [|reflexivity]. rewrite (read_latest_fs_eq fs Hv). reflexivity.
Qed.

(* the deleting branch exists in the model: on a tree with an old unopenable file a read removes it *)
Example delete_branch_reachable_on_invalid_tree :
  let c := mkCfg 1 1 3600 3600 in
  let fs := mkFs c [] [((1499997600, 1499997600), true)] in
  snd (read_fs c fs (Some 1500000000) (Some 1500000001) false) = mkFs c [] [].
Proof. vm_compute. reflexivity. Qed.

(* ------------------------------------------------------------------ reachable states *)
Definition readers_in (ops : list op) : nat :=
  length (filter (fun o => match o with ONewReader => true | _ => false end) ops).

(* what a query must observe, as a function of the write calls that have returned *)
Definition pure_obs (c : cfg) (h : list (list sample)) (nreaders : nat) (o : op) : obs :=
  let st := run_writes Exact c h in
  match o with
  | OWrite l => ObsWrite (snd (write_call Exact c st l))
  | ONewReader => ObsReader
  | OBounds r => if (r <? nreaders)%nat then ObsBounds (get_bounds fixed_code st) else ObsNoReader
  | ORead r s0 s1 ff =>
      if (r <? nreaders)%nat then ObsRead (read fixed_code c st (Some s0) (Some s1) ff) else ObsNoReader
  | OLatest r => if (r <? nreaders)%nat then ObsRead (read_latest fixed_code c st) else ObsNoReader
  end.

Definition Inv (c : cfg) (h : list (list sample)) (m : nat) (s : state) : Prop :=
  fst s = mkFs c (run_writes Exact c h) [] /\ snd s = repeat c m.

Lemma run_writes_snoc a c h l :
  run_writes a c (h ++ [l]) = fst (write_call a c (run_writes a c h) l).
Proof. unfold run_writes. rewrite fold_left_app. reflexivity. Qed.

Lemma nth_error_repeat {A} (x : A) m r :
  nth_error (repeat x m) r = if (r <? m)%nat then Some x else None.
Proof.
  revert r. induction m as [|m IH]; intros r; cbn.
  - destruct r; reflexivity.
  - destruct r as [|r]; [reflexivity|]. cbn. rewrite IH.
    change (S r <? S m)%nat with (r <? m)%nat. reflexivity.
Qed.

Lemma step_inv c h m s o : Inv c h m s ->
  Inv c (h ++ writes_of [o]) (m + readers_in [o]) (fst (step s o)) /\ snd (step s o) = pure_obs c h m o.
Proof.
  destruct s as [fs rs]. intros [Hfs Hrs]. cbn [fst snd] in Hfs, Hrs. subst fs rs.
  assert (Hv : valid_tree (mkFs c (run_writes Exact c h) [])) by reflexivity.
  destruct o as [l| |r|r s0 s1 ff|r]; unfold Inv;
    cbn [step pure_obs writes_of flat_map readers_in filter length app f_props f_ents f_bad].
  - rewrite run_writes_snoc.
    destruct (write_call Exact c (run_writes Exact c h) l) as [st' ok]. cbn [fst snd].
    split; [split; [reflexivity|rewrite Nat.add_0_r; reflexivity]|reflexivity].
  - rewrite app_nil_r. split; [|reflexivity]. split; [reflexivity|]. cbn [snd fst].
    rewrite Nat.add_1_r. change (c :: repeat c m) with (repeat c (S m)). symmetry.
    rewrite <- repeat_cons. reflexivity.
  - rewrite app_nil_r, Nat.add_0_r, nth_error_repeat.
    destruct (r <? m)%nat; cbn [fst snd]; (split; [split; reflexivity|]);
      [rewrite (get_bounds_fs_eq _ Hv); reflexivity|reflexivity].
  - rewrite app_nil_r, Nat.add_0_r, nth_error_repeat.
    destruct (r <? m)%nat; [|split; [split; reflexivity|reflexivity]].
    rewrite (read_fs_eq _ Hv). cbn [fst snd f_ents]. split; [split; reflexivity|reflexivity].
  - rewrite app_nil_r, Nat.add_0_r, nth_error_repeat.
    destruct (r <? m)%nat; [|split; [split; reflexivity|reflexivity]].
    rewrite (read_latest_fs_eq _ Hv). cbn [fst snd f_ents]. split; [split; reflexivity|reflexivity].
Qed.

Lemma writes_of_app a b : writes_of (a ++ b) = writes_of a ++ writes_of b.
Proof. unfold writes_of. apply flat_map_app. Qed.

Lemma readers_in_app a b : readers_in (a ++ b) = (readers_in a + readers_in b)%nat.
Proof. unfold readers_in. rewrite filter_app, app_length. reflexivity. Qed.

Lemma exec_inv c ops : forall h m s, Inv c h m s ->
  Inv c (h ++ writes_of ops) (m + readers_in ops) (fst (exec s ops)).
Proof.
  induction ops as [|o ops IH]; intros h m s Hi; cbn [exec].
  - cbn. rewrite app_nil_r, Nat.add_0_r. exact Hi.
  - destruct (step_inv c h m s o Hi) as [Hi' _].
    destruct (step s o) as [s' ob]. cbn [fst] in Hi'.
    specialize (IH _ _ _ Hi'). destruct (exec s' ops) as [s'' obs']. cbn [fst] in *.
    change (o :: ops) with ([o] ++ ops). rewrite writes_of_app, readers_in_app, app_assoc, Nat.add_assoc.
    exact IH.
Qed.

Lemma exec_obs_at c pre : forall h m s o rest, Inv c h m s ->
  nth_error (snd (exec s (pre ++ o :: rest))) (length pre) =
  Some (pure_obs c (h ++ writes_of pre) (m + readers_in pre) o).
Proof.
  induction pre as [|p pre IH]; intros h m s o rest Hi.
  - cbn [app length exec]. destruct (step_inv c h m s o Hi) as [_ Hob].
    destruct (step s o) as [s' ob]. cbn [snd] in Hob. destruct (exec s' rest) as [s'' obs'].
    cbn. rewrite app_nil_r, Nat.add_0_r. rewrite Hob. reflexivity.
  - cbn [app length exec]. destruct (step_inv c h m s p Hi) as [Hi' _].
    destruct (step s p) as [s' ob]. cbn [fst] in Hi'.
    specialize (IH _ _ _ o rest Hi'). destruct (exec s' (pre ++ o :: rest)) as [s'' obs'].
    cbn [snd nth_error] in *. rewrite IH.
    change (p :: pre) with ([p] ++ pre). rewrite writes_of_app, readers_in_app, app_assoc, Nat.add_assoc.
    reflexivity.
Qed.

Lemma Inv_init c : Inv c [] 0 (init c).
Proof. split; reflexivity. Qed.

(* every observation of an interleaved history is the pure function of the writes that returned
   before it -- whichever reader (created at any earlier point) is asked *)
Theorem visible_on_return c pre o rest :
  nth_error (snd (exec (init c) (pre ++ o :: rest))) (length pre) =
  Some (pure_obs c (writes_of pre) (readers_in pre) o).
Proof. apply (exec_obs_at c pre [] 0%nat (init c) o rest (Inv_init c)). Qed.

(* and the tree stays valid and is exactly the Spec of the writes *)
Theorem reachable_valid c ops :
  let s := fst (exec (init c) ops) in
  valid_tree (fst s) /\ f_ents (fst s) = run_writes Exact c (writes_of ops) /\ f_props (fst s) = c /\
  snd s = repeat c (readers_in ops).
Proof.
  cbn zeta. destruct (exec_inv c ops [] 0%nat (init c) (Inv_init c)) as [H1 H2].
  cbn [app] in H1. rewrite H1. cbn. split; [reflexivity|]. split; [reflexivity|]. split; [reflexivity|].
  exact H2.
Qed.

(* ---- the three clauses of the statement ---- *)
Theorem visible_bounds c pre r rest : cfg_ok c -> hist_ok (writes_of pre) -> (r < readers_in pre)%nat ->
  spec_of (writes_of pre) <> [] ->
  exists lo hi,
    nth_error (snd (exec (init c) (pre ++ OBounds r :: rest))) (length pre) = Some (ObsBounds (Some (lo, hi))) /\
    forall k v, In (k, v) (spec_of (writes_of pre)) -> lo <= k <= hi.
Proof.
  intros Hc Hh Hr Hne. rewrite visible_on_return. cbn [pure_obs].
  apply Nat.ltb_lt in Hr. rewrite Hr.
  destruct (md_bounds c _ Hc Hh) as [_ H]. destruct (H Hne) as (lo & hi & Eb & _ & _ & Hb).
  exists lo, hi. rewrite Eb. split; [reflexivity|exact Hb].
Qed.

Theorem visible_read c pre r rest k v s0 s1 : cfg_ok c -> hist_ok (writes_of pre) -> (r < readers_in pre)%nat ->
  In (k, v) (spec_of (writes_of pre)) -> s0 <= k <= s1 ->
  exists res,
    nth_error (snd (exec (init c) (pre ++ ORead r s0 s1 false :: rest))) (length pre) = Some (ObsRead (ROk res)) /\
    In (k, v) res.
Proof.
  intros Hc Hh Hr Hin Hrange. rewrite visible_on_return. cbn [pure_obs].
  apply Nat.ltb_lt in Hr. rewrite Hr.
  destruct (md_roundtrip c _ k v s0 s1 Hc Hh Hin Hrange) as (res & E & Hres).
  exists res. rewrite E. split; [reflexivity|exact Hres].
Qed.

Theorem latest_is_max c pre r rest : cfg_ok c -> hist_ok (writes_of pre) -> (r < readers_in pre)%nat ->
  spec_of (writes_of pre) <> [] ->
  exists z,
    nth_error (snd (exec (init c) (pre ++ OLatest r :: rest))) (length pre) = Some (ObsRead (ROk [z])) /\
    In z (spec_of (writes_of pre)) /\ forall y, In y (spec_of (writes_of pre)) -> fst y <= fst z.
Proof.
  intros Hc Hh Hr Hne. rewrite visible_on_return. cbn [pure_obs].
  apply Nat.ltb_lt in Hr. rewrite Hr.
  destruct (md_latest c _ Hc Hh Hne) as (z & E & Hz & Hmax).
  exists z. rewrite E. split; [reflexivity|]. split; [exact Hz|exact Hmax].
Qed.

(* no read-only call of any interleaved history changes the tree *)
Theorem history_reads_do_not_mutate c pre o : read_only o ->
  fst (fst (step (fst (exec (init c) pre)) o)) = fst (fst (exec (init c) pre)).
Proof.
  intros Hr. destruct (reachable_valid c pre) as [Hv _].
  destruct (fst (exec (init c) pre)) as [fs rs]. cbn [fst] in *.
  apply reads_do_not_mutate; assumption.
Qed.

(* non-vacuity: a concrete interleaving with an early reader *)
Example live_example :
  let c := mkCfg 200 3 3 3600 in
  snd (exec (init c) [ONewReader; OBounds 0; OWrite [(100000000001, 1)]; OLatest 0; ONewReader;
                      OWrite [(100000000400, 2); (100000000401, 3)]; OBounds 0; OLatest 1;
                      ORead 0 100000000001 100000000400 false; OWrite [(100000000400, 9)]; OLatest 0]) =
  [ObsReader; ObsBounds None; ObsWrite true; ObsRead (ROk [(100000000001, 1)]); ObsReader; ObsWrite true;
   ObsBounds (Some (100000000001, 100000000401)); ObsRead (ROk [(100000000401, 3)]);
   ObsRead (ROk [(100000000001, 1); (100000000400, 2)]); ObsWrite false; ObsRead (ROk [(100000000401, 3)])].
Proof. vm_compute. reflexivity. Qed.

(* ------------------------------------------------------------------ writer sessions *)
Lemma run_writes_app a c h1 h2 :
  run_writes a c (h1 ++ h2) = fold_left (fun st l => fst (write_call a c st l)) h2 (run_writes a c h1).
Proof. unfold run_writes. apply fold_left_app. Qed.

Lemma run_sessions_gen c ss : forall h bad,
  run_sessions (mkFs c (run_writes Exact c h) bad) ss =
  mkFs c (run_writes Exact c (h ++ accepted_calls c ss)) bad.
Proof.
  induction ss as [|[c' calls] ss IH]; intros h bad; cbn [run_sessions accepted_calls flat_map fst snd].
  - rewrite app_nil_r. reflexivity.
  - unfold open_writer. cbn [f_props f_ents f_bad].
    destruct (cfg_eqb c c').
    + rewrite <- run_writes_app. rewrite IH. rewrite <- app_assoc. reflexivity.
    + cbn [app]. apply IH.
Qed.

(* whatever parameters later sessions are opened with, the channel keeps the parameters it was
   created with and its directory is the result of the calls of the sessions that were accepted
   (those opened with identical parameters), all placed by the one rule of those parameters *)
Theorem sessions_keep_one_rule c ss :
  run_sessions (mkFs c [] []) ss = mkFs c (run_writes Exact c (accepted_calls c ss)) [].
Proof. apply (run_sessions_gen c ss [] []). Qed.

Lemma cfg_eqb_eq a b : cfg_eqb a b = true <-> a = b.
Proof.
  destruct a as [n1 d1 f1 s1], b as [n2 d2 f2 s2]. unfold cfg_eqb. cbn.
  rewrite !andb_true_iff, !Z.eqb_eq. split.
  - intros [[[-> ->] ->] ->]. reflexivity.
  - intros H. inversion H. auto.
Qed.

(* a session opened with any different parameter is refused and leaves the tree untouched *)
Theorem mismatched_session_refused fs c' calls :
  c' <> f_props fs -> open_writer fs c' = None /\ run_sessions fs [(c', calls)] = fs.
Proof.
  intros Hne. unfold open_writer. cbn [run_sessions]. unfold open_writer.
  destruct (cfg_eqb (f_props fs) c') eqn:E.
  - apply cfg_eqb_eq in E. congruence.
  - split; reflexivity.
Qed.
