(* C14 -- from the channel level to the tree walk: what _decorate_drf_files keeps, what
   _yield_matching_files returns for a channel directory, and soundness of the whole walk for EVERY
   variant (a listed path is a selected properties file of a directory holding it, or
   sub/name with sub a timestamped subdirectory of a directory holding a properties file and name
   a finalized file of a kind the flags and that directory's properties files select; never tmp.). *)
From Coq Require Import ZArith List Bool Lia Permutation Sorted.
From DRF Require Import Base.Regex Base.RegexSound Base.WordLit Gen.Grammar Model.PathSpec Model.Listing
  Proofs.GrammarProofs Proofs.ListingProofs.
Import ListNotations.
Local Open Scope Z_scope.

(* ---- the file patterns: every match has a time, and it is not negative *)
Lemma digits_acc_nonneg : forall w acc, 0 <= acc -> forallb is_digit w = true -> 0 <= int_of_digits_acc acc w.
Proof.
  induction w as [|x w IH]; intros acc Ha Hd; cbn in *; [exact Ha|].
  apply andb_true_iff in Hd as [Hx Hd]. unfold is_digit in Hx. apply andb_true_iff in Hx as [H1 H2].
  apply Z.leb_le in H1, H2. apply IH; [lia|exact Hd].
Qed.

Lemma digits_val_nonneg w : forallb is_digit w = true -> 0 <= digits_val w.
Proof. apply digits_acc_nonneg. lia. Qed.

Definition file_re (r : re) : Prop := r = l_re_file \/ r = l_re_drffile \/ r = l_re_dmdfile.

Lemma match_time_total r nm ti : file_re r -> match_time r nm = Some ti -> exists t, ti = Time t /\ 0 <= t.
Proof.
  unfold match_time, listing_ci. intros Hr H. destruct (rmatch false r nm) as [c|] eqn:E; [|discriminate].
  cbn in H. inversion H; subst ti. clear H. destruct Hr as [-> | [-> | ->]].
  - apply file_shape in E as (name & secs & tl & _ & _ & _ & Hs & Hsd & _ & Gs & [[_ Gf] | (frac & _ & Hf & Hfd & Gf)]);
      unfold time_of; rewrite Gs, Gf, (int_of_digits secs Hs Hsd).
    + eexists. split; [reflexivity|]. pose proof (digits_val_nonneg secs Hsd). unfold digits_val in H. lia.
    + rewrite (int_of_digits frac); [|intros Hnil; rewrite Hnil in Hf; discriminate|exact Hfd].
      eexists. split; [reflexivity|].
      pose proof (digits_val_nonneg secs Hsd). pose proof (digits_val_nonneg frac Hfd). unfold digits_val in *. lia.
  - apply drffile_shape in E as (name & secs & frac & tl & _ & _ & _ & _ & Hs & Hsd & Hf & Hfd & _ & Gs & Gf).
    unfold time_of. rewrite Gs, Gf, (int_of_digits secs Hs Hsd), (int_of_digits frac); [|intros Hnil; rewrite Hnil in Hf; discriminate|exact Hfd].
    eexists. split; [reflexivity|].
    pose proof (digits_val_nonneg secs Hsd). pose proof (digits_val_nonneg frac Hfd). unfold digits_val in *. lia.
  - apply dmdfile_shape in E as (name & secs & tl & _ & _ & _ & _ & Hs & Hsd & _ & Gs & Gf).
    unfold time_of. rewrite Gs, Gf, (int_of_digits secs Hs Hsd).
    eexists. split; [reflexivity|]. pose proof (digits_val_nonneg secs Hsd). unfold digits_val in H. lia.
Qed.

Lemma file_regex_cases a b f r y : file_regex a b f = Some (r, y) -> file_re r.
Proof.
  unfold file_regex, file_sel, file_re.
  destruct (a && inc_drf f), (b && inc_dmd f); cbn; intro H; inversion H; auto.
Qed.

Lemma match_time_not_tmp r nm ti : file_re r -> match_time r nm = Some ti -> starts_with (W "tmp.") nm = false.
Proof.
  intros Hr H. destruct (starts_with (W "tmp.") nm) eqn:E; [|reflexivity].
  unfold match_time, listing_ci in H. rewrite (data_file_never_tmp r nm) in H; [discriminate| |exact E].
  destruct Hr as [-> | [-> | ->]]; auto.
Qed.

(* ---- _decorate_drf_files *)
Lemma decorate_in r sub names t p :
  In (t, p) (decorate r sub names) <->
  exists nm, In nm names /\ p = join2 sub nm /\ match_time r nm = Some (Time t).
Proof.
  unfold decorate. rewrite in_flat_map. split.
  - intros (nm & Hnm & H). exists nm. destruct (match_time r nm) as [[|t'|]|]; try contradiction.
    destruct H as [H|[]]. inversion H; subst. auto.
  - intros (nm & Hnm & -> & Hm). exists nm. split; [exact Hnm|]. rewrite Hm. left. reflexivity.
Qed.

(* a name the file pattern matches is never dropped by the defaulted branch *)
Lemma decorate_complete r sub names nm : file_re r -> In nm names -> rmatch listing_ci r nm <> None ->
  exists t, In (t, join2 sub nm) (decorate r sub names).
Proof.
  intros Hr Hnm Hm. destruct (match_time r nm) as [ti|] eqn:E.
  - destruct (match_time_total r nm ti Hr E) as (t & -> & _). exists t. apply decorate_in. exists nm. auto.
  - unfold match_time in E. destruct (rmatch listing_ci r nm); [discriminate|congruence].
Qed.

(* ---- the loop over dirs *)
Lemma classify_dirs_cons r d n rest :
  classify_dirs r ((d, n) :: rest) =
    match rmatch listing_ci l_re_subdir d with
    | Some c =>
      match subdir_time c with
      | None => None
      | Some t =>
        match classify_dirs r rest with
        | None => None
        | Some (subs, others) =>
          Some (mkSub t d (match n with
                           | Dir es => Some (decorate r d (map fst es))
                           | _ => None
                           end) :: subs, others)
        end
      end
    | None =>
      match classify_dirs r rest with
      | None => None
      | Some (subs, others) => Some (subs, (d, n) :: others)
      end
    end.
Proof. reflexivity. Qed.

Lemma classify_dirs_in r : forall dirs subs others, classify_dirs r dirs = Some (subs, others) ->
  (forall d, In d subs -> exists dn n c,
      In (dn, n) dirs /\ rmatch listing_ci l_re_subdir dn = Some c /\ subdir_time c = Some (s_time d) /\
      s_name d = dn /\ s_files d = match n with Dir es => Some (decorate r dn (map fst es)) | _ => None end) /\
  (forall e, In e others -> In e dirs).
Proof.
  induction dirs as [|[dn n] rest IH]; intros subs others H.
  - cbn in H. inversion H; subst. split; intros ? [].
  - rewrite classify_dirs_cons in H. destruct (rmatch listing_ci l_re_subdir dn) as [c|] eqn:Em.
    + destruct (subdir_time c) as [t|] eqn:Et; [|discriminate].
      destruct (classify_dirs r rest) as [[subs' others']|] eqn:Ec; [|discriminate].
      inversion H; subst. destruct (IH _ _ eq_refl) as [IH1 IH2]. split.
      * intros d [<-|Hd].
        -- exists dn, n, c. cbn. repeat split; auto.
        -- destruct (IH1 d Hd) as (dn' & n' & c' & Hin & Hrest). exists dn', n', c'. split; [right; exact Hin|exact Hrest].
      * intros e He. right. apply IH2. exact He.
    + destruct (classify_dirs r rest) as [[subs' others']|] eqn:Ec; [|discriminate].
      inversion H; subst. destruct (IH _ _ eq_refl) as [IH1 IH2]. split.
      * intros d Hd. destruct (IH1 d Hd) as (dn' & n' & c' & Hin & Hrest). exists dn', n', c'. split; [right; exact Hin|exact Hrest].
      * intros e [<-|He]; [left; reflexivity|right; apply IH2; exact He].
Qed.

(* ---- _yield_matching_files for a channel directory, repaired code, against the Spec *)
Theorem yield_matching_spec o dirs props r ydmd subs others :
  file_regex (existsb (matches listing_ci l_re_drfpropfile) props)
             (existsb (matches listing_ci l_re_dmdpropfile) props) (o_flags o) = Some (r, ydmd) ->
  classify_dirs r dirs = Some (subs, others) ->
  let D := isort sub_leb subs in
  strict_sorted D -> all_listed D -> consistent D -> window_wf (o_start o) (o_end o) ->
  yield_matching fixed o dirs props =
    (map snd (spec_channel ydmd (o_start o) (o_end o) (o_reverse o) D), None, others).
Proof.
  intros Hr Hc D Hss Hal Hco Hw. unfold yield_matching. rewrite Hr, Hc. fold D.
  assert (Hnn : nonneg D).
  { intros d x Hd Hx. unfold D in Hd. apply (proj1 (isort_in sub_leb d subs)) in Hd.
    destruct (classify_dirs_in r dirs subs others Hc) as [H1 _].
    destruct (H1 d Hd) as (dn & n & c & _ & _ & _ & _ & Hf). unfold F in Hx. rewrite Hf in Hx.
    destruct n as [|es|]; try contradiction. destruct x as [t p]. apply decorate_in in Hx as (nm & _ & _ & Hm).
    destruct (match_time_total r nm (Time t) (file_regex_cases _ _ _ _ _ Hr) Hm) as (t' & Ht & Hge).
    inversion Ht; subst. exact Hge. }
  destruct (o_reverse o).
  - rewrite reverse_is_rev, (channel_spec ydmd (o_start o) (o_end o) D Hss Hal Hco Hnn Hw). reflexivity.
  - rewrite (channel_spec ydmd (o_start o) (o_end o) D Hss Hal Hco Hnn Hw). reflexivity.
Qed.

(* ---- the walk: soundness for every variant *)
Definition files_of (es : list (word * node)) : list word :=
  map fst (filter (fun e : word * node => negb (is_dir (snd e))) es).
Definition props_of (es : list (word * node)) : list word :=
  filter (matches listing_ci l_re_propfile) (files_of es).

(* what may be listed below a node, as a path relative to it *)
Inductive listed_ok (o : opts) : node -> word -> Prop :=
| ok_prop es f pr :
    In (f, File) es -> matches listing_ci l_re_propfile f = true ->
    prop_regex (o_flags o) = Some pr -> matches listing_ci pr f = true ->
    listed_ok o (Dir es) f
| ok_data es r ydmd sub ses nm t :
    props_of es <> [] ->
    file_regex (existsb (matches listing_ci l_re_drfpropfile) (props_of es))
               (existsb (matches listing_ci l_re_dmdpropfile) (props_of es)) (o_flags o) = Some (r, ydmd) ->
    In (sub, Dir ses) es -> matches listing_ci l_re_subdir sub = true ->
    In nm (map fst ses) -> match_time r nm = Some (Time t) ->
    listed_ok o (Dir es) (join2 sub nm)
| ok_below es d c p :
    In (d, c) es -> listed_ok o c p -> listed_ok o (Dir es) (join2 d p).

Fixpoint node_ind2 (P : node -> Prop) (Hf : P File) (Hg : P Gone)
    (Hd : forall es, (forall nm c, In (nm, c) es -> P c) -> P (Dir es)) (t : node) : P t :=
  match t with
  | File => Hf
  | Gone => Hg
  | Dir es =>
    Hd es ((fix go (l : list (word * node)) : forall nm c, In (nm, c) l -> P c :=
              match l with
              | [] => fun nm c (H : In (nm, c) []) => match H with end
              | (nm0, c0) :: l' => fun nm c (H : In (nm, c) ((nm0, c0) :: l')) =>
                  match H with
                  | or_introl Heq => eq_ind c0 P (node_ind2 P Hf Hg Hd c0) c (f_equal snd Heq)
                  | or_intror Hin => go l' nm c Hin
                  end
              end) es)
  end.

Lemma sort_words_in rv l x : In x (sort_words rv l) <-> In x l.
Proof.
  unfold sort_words. destruct rv; [rewrite <- in_rev|]; apply isort_in.
Qed.

Lemma files_of_in es f : In f (files_of es) <-> In (f, File) es.
Proof.
  unfold files_of. rewrite in_map_iff. split.
  - intros ([f' n] & <- & H). apply filter_In in H as [H Hn]. destruct n; cbn in Hn; try discriminate. exact H.
  - intro H. exists (f, File). split; [reflexivity|]. apply filter_In. split; [exact H|reflexivity].
Qed.

Lemma word_eqb_true a : forall b, word_eqb a b = true -> a = b.
Proof.
  induction a as [|x a IH]; destruct b as [|y b]; cbn; intro H; try discriminate; auto.
  apply andb_true_iff in H as [Hx Hab]. apply Z.eqb_eq in Hx. f_equal; auto.
Qed.

Lemma assoc_in {B} k (l : list (word * B)) x : assoc k l = Some x -> In (k, x) l.
Proof.
  induction l as [|[k' y] l IH]; cbn; [discriminate|].
  destruct (word_eqb k k') eqn:E; intro H.
  - apply word_eqb_true in E. inversion H; subst. left. reflexivity.
  - right. apply IH. exact H.
Qed.

Lemma seq_named_in l p : In p (fst (seq_named l)) ->
  exists nm out e p', In (nm, (out, e)) l /\ In p' out /\ p = join2 nm p'.
Proof.
  induction l as [|[nm [out e]] l IH]; cbn; [intros []|].
  destruct e as [e|]; cbn.
  - intro H. apply in_map_iff in H as (p' & <- & Hp'). exists nm, out, (Some e), p'. auto.
  - intro H. apply in_app_or in H as [H|H].
    + apply in_map_iff in H as (p' & <- & Hp'). exists nm, out, None, p'. auto.
    + destruct (IH H) as (nm' & out' & e' & p' & Hin & Hp' & ->). exists nm', out', e', p'. auto.
Qed.

Lemma yield_matching_in v o dirs props p :
  In p (fst (fst (yield_matching v o dirs props))) ->
  exists r ydmd sub ses nm t,
    file_regex (existsb (matches listing_ci l_re_drfpropfile) props)
               (existsb (matches listing_ci l_re_dmdpropfile) props) (o_flags o) = Some (r, ydmd) /\
    In (sub, Dir ses) dirs /\ matches listing_ci l_re_subdir sub = true /\
    In nm (map fst ses) /\ match_time r nm = Some (Time t) /\ p = join2 sub nm.
Proof.
  unfold yield_matching.
  destruct (file_regex _ _ (o_flags o)) as [[r ydmd]|] eqn:Er; [|intros []].
  destruct (classify_dirs r dirs) as [[subs others]|] eqn:Ec; [|intros []].
  cbn [fst]. intro H. apply in_map_iff in H as ([t q] & <- & H). cbn [snd].
  apply yield_channel_subset in H as (d & Hd & Hx).
  apply (proj1 (isort_in sub_leb d subs)) in Hd.
  destruct (classify_dirs_in r dirs subs others Ec) as [H1 _].
  destruct (H1 d Hd) as (dn & n & c & Hin & Hm & _ & _ & Hf).
  unfold F in Hx. rewrite Hf in Hx. destruct n as [|ses|]; try contradiction.
  apply decorate_in in Hx as (nm & Hnm & -> & Hmt).
  exists r, ydmd, dn, ses, nm, t. repeat split; auto. unfold matches. rewrite Hm. reflexivity.
Qed.

Lemma yield_matching_dirs v o dirs props e : In e (snd (yield_matching v o dirs props)) -> In e dirs.
Proof.
  unfold yield_matching.
  destruct (file_regex _ _ (o_flags o)) as [[r ydmd]|]; [|auto].
  destruct (classify_dirs r dirs) as [[subs others]|] eqn:Ec; [|auto].
  cbn [snd]. apply (classify_dirs_in r dirs subs others Ec).
Qed.

Lemma walk_dir v o es :
  walk v o (Dir es) =
    let files := files_of es in
    let dirs := filter (fun e : word * node => is_dir (snd e)) es in
    let children := map (fun e : word * node => (fst e, walk v o (snd e))) es in
    let any_props := props_of es in
    let f := o_flags o in
    let '(here, e, dirs') :=
      match any_props with
      | [] => ([], None, dirs)
      | _ =>
        let props := match prop_regex f with
                     | Some pr => sort_words (o_reverse o) (filter (matches listing_ci pr) any_props)
                     | None => []
                     end in
        if inc_drf f || inc_dmd f then
          let '(out, e, dirs') := yield_matching v o dirs any_props in (props ++ out, e, dirs')
        else (props, None, dirs)
      end in
    match e with
    | Some x => (here, Some x)
    | None =>
      let names := if o_recursive o then sort_words (o_reverse o) (map fst dirs') else [] in
      let r := seq_named (flat_map (fun nm => match assoc nm children with
                                              | Some res => [(nm, res)]
                                              | None => []
                                              end) names) in
      (here ++ fst r, snd r)
    end.
Proof.
  cbn [walk]. unfold files_of, props_of.
  assert (Hch : (fix go (l : list (word * node)) : list (word * (list word * option err)) :=
                   match l with [] => [] | (nm, c) :: l' => (nm, walk v o c) :: go l' end) es
                = map (fun e : word * node => (fst e, walk v o (snd e))) es).
  { induction es as [|[nm c] es IH]; [reflexivity|]. cbn [map fst snd]. rewrite <- IH. reflexivity. }
  rewrite Hch. reflexivity.
Qed.

Theorem walk_sound v o : forall t p, In p (fst (walk v o t)) -> listed_ok o t p.
Proof.
  intro t. induction t as [| |es IH] using node_ind2; intros p Hp; try (cbn in Hp; contradiction).
  rewrite walk_dir in Hp. cbn zeta in Hp.
  set (dirs := filter (fun e : word * node => is_dir (snd e)) es) in *.
  set (children := map (fun e : word * node => (fst e, walk v o (snd e))) es) in *.
  (* the three sources of a listed path *)
  assert (Hprops : forall pr q, prop_regex (o_flags o) = Some pr ->
            In q (sort_words (o_reverse o) (filter (matches listing_ci pr) (props_of es))) -> listed_ok o (Dir es) q).
  { intros pr q Hpr Hq. apply sort_words_in, filter_In in Hq as [Hq Hm].
    unfold props_of in Hq. apply filter_In in Hq as [Hq Hm2]. apply files_of_in in Hq.
    eapply ok_prop; eauto. }
  assert (Hdata : props_of es <> [] -> forall q, In q (fst (fst (yield_matching v o dirs (props_of es)))) -> listed_ok o (Dir es) q).
  { intros Hne q Hq. apply yield_matching_in in Hq as (r & ydmd & sub & ses & nm & t & Hr & Hin & Hm & Hnm & Hmt & ->).
    unfold dirs in Hin. apply filter_In in Hin as [Hin _]. eapply ok_data; eauto. }
  assert (Hchild : forall names q,
            In q (fst (seq_named (flat_map (fun nm => match assoc nm children with Some res => [(nm, res)] | None => [] end) names))) ->
            listed_ok o (Dir es) q).
  { intros names q Hq. apply seq_named_in in Hq as (nm & out & e & p' & Hin & Hp' & ->).
    apply in_flat_map in Hin as (nm' & _ & Hin). destruct (assoc nm' children) as [res|] eqn:Ea; [|contradiction].
    destruct Hin as [Hin|[]]. injection Hin as Hn Hres. subst nm' res. apply assoc_in in Ea. unfold children in Ea.
    apply in_map_iff in Ea as ([nm0 c] & Heq & Hc). cbn [fst snd] in Heq. injection Heq as Hn Hw. subst nm0.
    eapply ok_below; [exact Hc|]. eapply IH; [exact Hc|]. rewrite Hw. exact Hp'. }
  destruct (props_of es) as [|pf0 pfs] eqn:Eprops.
  - (* not a channel directory *)
    cbn [fst snd app] in Hp. eapply Hchild. exact Hp.
  - assert (Hne : pf0 :: pfs <> []) by discriminate.
    destruct (inc_drf (o_flags o) || inc_dmd (o_flags o)).
    + destruct (yield_matching v o dirs (pf0 :: pfs)) as [[out e] dirs'] eqn:Ey.
      assert (Hout : forall q, In q out -> listed_ok o (Dir es) q).
      { intros q Hq. apply (Hdata Hne). exact Hq. }
      assert (Hhere : forall q, In q (match prop_regex (o_flags o) with
                                      | Some pr => sort_words (o_reverse o) (filter (matches listing_ci pr) (pf0 :: pfs))
                                      | None => [] end ++ out) -> listed_ok o (Dir es) q).
      { intros q Hq. apply in_app_or in Hq as [Hq|Hq]; [|auto].
        destruct (prop_regex (o_flags o)) as [pr|] eqn:Epr; [|contradiction]. eapply Hprops; eauto. }
      destruct e as [x|]; cbn [fst] in Hp; [auto|].
      apply in_app_or in Hp as [Hp|Hp]; [auto|]. eapply Hchild. exact Hp.
    + assert (Hhere : forall q, In q (match prop_regex (o_flags o) with
                                      | Some pr => sort_words (o_reverse o) (filter (matches listing_ci pr) (pf0 :: pfs))
                                      | None => [] end) -> listed_ok o (Dir es) q).
      { intros q Hq. destruct (prop_regex (o_flags o)) as [pr|] eqn:Epr; [|contradiction]. eapply Hprops; eauto. }
      cbn [fst] in Hp. apply in_app_or in Hp as [Hp|Hp]; [auto|]. eapply Hchild. exact Hp.
Qed.

(* ---- never a tmp. file: the last component of every listed path *)
Definition has_basename (p base : word) : Prop := p = base \/ exists d, p = join2 d base.

Lemma has_basename_below d p base : has_basename p base -> has_basename (join2 d p) base.
Proof.
  intros [->|(d' & ->)]; right; [exists d; reflexivity|].
  exists (join2 d d'). unfold join2. rewrite <- app_assoc. reflexivity.
Qed.

Lemma prop_regex_cases f pr : prop_regex f = Some pr ->
  pr = l_re_drfpropfile \/ pr = l_re_dmdpropfile \/ pr = l_re_propfile.
Proof.
  unfold prop_regex. destruct (eff_drfp f && eff_dmdp f), (eff_drfp f), (eff_dmdp f); intro H; inversion H; auto.
Qed.

Theorem listed_never_tmp o t p : listed_ok o t p ->
  exists base, has_basename p base /\ starts_with (W "tmp.") base = false.
Proof.
  induction 1 as [es f pr Hin Hm Hpr Hm2 | es r ydmd sub ses nm t Hne Hr Hin Hm Hnm Hmt | es d c p Hin Hok IH].
  - exists f. split; [left; reflexivity|].
    destruct (starts_with (W "tmp.") f) eqn:E; [|reflexivity].
    unfold matches, listing_ci in Hm2.
    rewrite (prop_file_never_tmp pr f (prop_regex_cases _ _ Hpr) E) in Hm2. discriminate.
  - exists nm. split; [right; exists sub; reflexivity|].
    eapply match_time_not_tmp; [eapply file_regex_cases; eauto|eauto].
  - destruct IH as (base & Hb & Ht). exists base. split; [apply has_basename_below; exact Hb|exact Ht].
Qed.

Corollary lsdrf_never_tmp v o t p : In p (fst (lsdrf v o t)) ->
  exists base, has_basename p base /\ starts_with (W "tmp.") base = false.
Proof.
  unfold lsdrf, ilsdrf. cbn [fst snd app]. intro H. eapply listed_never_tmp. eapply walk_sound. exact H.
Qed.

(* ---- properties files by their own flags: the head of a channel directory's listing *)
Theorem props_by_flags v o es : props_of es <> [] ->
  exists rest, fst (walk v o (Dir es)) =
    match prop_regex (o_flags o) with
    | Some pr => sort_words (o_reverse o) (filter (matches listing_ci pr) (props_of es))
    | None => []
    end ++ rest.
Proof.
  intro Hne. rewrite walk_dir. cbn zeta.
  destruct (props_of es) as [|pf0 pfs] eqn:E; [congruence|].
  destruct (inc_drf (o_flags o) || inc_dmd (o_flags o)).
  - destruct (yield_matching v o _ (pf0 :: pfs)) as [[out e] dirs'].
    destruct e as [x|]; cbn [fst]; [exists out; reflexivity|].
    rewrite <- app_assoc. eexists. reflexivity.
  - cbn [fst]. eexists. reflexivity.
Qed.

(* ---- the whole walk never fails on empty or vanishing directories: the repaired code can only
   raise the ValueError of an impossible calendar date in a subdirectory name *)
Definition benign (e : option err) : Prop := e = None \/ e = Some ValueErrorE.

Lemma yield_matching_benign o dirs props : benign (snd (fst (yield_matching fixed o dirs props))).
Proof.
  unfold yield_matching, benign.
  destruct (file_regex _ _ (o_flags o)) as [[r ydmd]|]; [|left; reflexivity].
  destruct (classify_dirs r dirs) as [[subs others]|]; [|right; reflexivity].
  cbn [fst snd]. left. apply never_fails.
Qed.

Lemma seq_named_benign l : (forall nm out e, In (nm, (out, e)) l -> benign e) -> benign (snd (seq_named l)).
Proof.
  induction l as [|[nm [out e]] l IH]; intro H; cbn; [left; reflexivity|].
  destruct e as [e|]; cbn.
  - exact (H nm out (Some e) (or_introl eq_refl)).
  - apply IH. intros nm' out' e' Hin. eapply H. right. exact Hin.
Qed.

Theorem walk_never_fails o : forall t, benign (snd (walk fixed o t)).
Proof.
  intro t. induction t as [| |es IH] using node_ind2; try (left; reflexivity).
  rewrite walk_dir. cbn zeta.
  set (dirs := filter (fun e : word * node => is_dir (snd e)) es).
  set (children := map (fun e : word * node => (fst e, walk fixed o (snd e))) es).
  assert (Hchild : forall names,
            benign (snd (seq_named (flat_map (fun nm => match assoc nm children with Some res => [(nm, res)] | None => [] end) names)))).
  { intro names. apply seq_named_benign. intros nm out e Hin.
    apply in_flat_map in Hin as (nm' & _ & Hin). destruct (assoc nm' children) as [res|] eqn:Ea; [|contradiction].
    destruct Hin as [Hin|[]]. injection Hin as Hn Hres. subst nm' res. apply assoc_in in Ea. unfold children in Ea.
    apply in_map_iff in Ea as ([nm0 c] & Heq & Hc). cbn [fst snd] in Heq. injection Heq as Hn Hw. subst nm0.
    pose proof (IH nm c Hc) as Hb. rewrite Hw in Hb. exact Hb. }
  destruct (props_of es) as [|pf0 pfs] eqn:Eprops.
  - cbn [snd]. apply Hchild.
  - destruct (inc_drf (o_flags o) || inc_dmd (o_flags o)).
    + pose proof (yield_matching_benign o dirs (pf0 :: pfs)) as Hy.
      destruct (yield_matching fixed o dirs (pf0 :: pfs)) as [[out e] dirs']. cbn [fst snd] in Hy.
      destruct e as [x|]; cbn [snd]; [exact Hy|apply Hchild].
    + cbn [snd]. apply Hchild.
Qed.
