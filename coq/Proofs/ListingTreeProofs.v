(* C14 -- from the channel level to the tree walk: what _decorate_drf_files keeps, what
   _yield_matching_files returns for a channel directory, and soundness of the whole walk for EVERY
   variant (a listed path is a selected properties file of a directory holding it, or
   sub/name with sub a timestamped subdirectory of a directory holding a properties file and name
   a finalized file of a kind the flags and that directory's properties files select; never tmp.). *)
From Coq Require Import ZArith List Bool Lia Permutation Sorted.
From DRF Require Import Base.Regex Base.RegexSound Base.WordLit Gen.Grammar Model.PathSpec Model.Listing
  Proofs.GrammarProofs Proofs.ListingProofs.
Import ListNotations.
Local Open Scope Z_scope.

(* ---- the file patterns: every match has a time, and it is not negative *)
Lemma digits_acc_nonneg : forall w acc, 0 <= acc -> forallb is_digit w = true -> 0 <= int_of_digits_acc acc w.
Proof.
  induction w as [|x w IH]; intros acc Ha Hd; cbn in *; [exact Ha|].
  apply andb_true_iff in Hd as [Hx Hd]. unfold is_digit in Hx. apply andb_true_iff in Hx as [H1 H2].
  apply Z.leb_le in H1, H2. apply IH; [lia|exact Hd].
Qed.

Lemma digits_val_nonneg w : forallb is_digit w = true -> 0 <= digits_val w.
Proof. apply digits_acc_nonneg. lia. Qed.

Definition file_re (r : re) : Prop := r = l_re_file \/ r = l_re_drffile \/ r = l_re_dmdfile.

Lemma match_time_total r nm ti : file_re r -> match_time r nm = Some ti -> exists t, ti = Time t /\ 0 <= t.
Proof.
  unfold match_time, listing_ci. intros Hr H. destruct (rmatch false r nm) as [c|] eqn:E; [|discriminate].
  cbn in H. inversion H; subst ti. clear H. destruct Hr as [-> | [-> | ->]].
  - apply file_shape in E as (name & secs & tl & _ & _ & _ & Hs & Hsd & _ & Gs & [[_ Gf] | (frac & _ & Hf & Hfd & Gf)]);
      unfold time_of; rewrite Gs, Gf, (int_of_digits secs Hs Hsd).
    + eexists. split; [reflexivity|]. pose proof (digits_val_nonneg secs Hsd). unfold digits_val in H. lia.
    + rewrite (int_of_digits frac); [|intros Hnil; rewrite Hnil in Hf; discriminate|exact Hfd].
      eexists. split; [reflexivity|].
      pose proof (digits_val_nonneg secs Hsd). pose proof (digits_val_nonneg frac Hfd). unfold digits_val in *. lia.
  - apply drffile_shape in E as (name & secs & frac & tl & _ & _ & _ & _ & Hs & Hsd & Hf & Hfd & _ & Gs & Gf).
    unfold time_of. rewrite Gs, Gf, (int_of_digits secs Hs Hsd), (int_of_digits frac); [|intros Hnil; rewrite Hnil in Hf; discriminate|exact Hfd].
    eexists. split; [reflexivity|].
    pose proof (digits_val_nonneg secs Hsd). pose proof (digits_val_nonneg frac Hfd). unfold digits_val in *. lia.
  - apply dmdfile_shape in E as (name & secs & tl & _ & _ & _ & _ & Hs & Hsd & _ & Gs & Gf).
    unfold time_of. rewrite Gs, Gf, (int_of_digits secs Hs Hsd).
    eexists. split; [reflexivity|]. pose proof (digits_val_nonneg secs Hsd). unfold digits_val in H. lia.
Qed.

Lemma file_regex_cases a b f r y : file_regex a b f = Some (r, y) -> file_re r.
Proof.
  unfold file_regex, file_sel, file_re.
  destruct (a && inc_drf f), (b && inc_dmd f); cbn; intro H; inversion H; auto.
Qed.

Lemma match_time_not_tmp r nm ti : file_re r -> match_time r nm = Some ti -> starts_with (W "tmp.") nm = false.
Proof.
  intros Hr H. destruct (starts_with (W "tmp.") nm) eqn:E; [|reflexivity].
  unfold match_time, listing_ci in H. rewrite (data_file_never_tmp r nm) in H; [discriminate| |exact E].
  destruct Hr as [-> | [-> | ->]]; auto.
Qed.

(* ---- _decorate_drf_files *)
Lemma decorate_in r sub names t p :
  In (t, p) (decorate r sub names) <->
  exists nm, In nm names /\ p = join2 sub nm /\ match_time r nm = Some (Time t).
Proof.
  unfold decorate. rewrite in_flat_map. split.
  - intros (nm & Hnm & H). exists nm. destruct (match_time r nm) as [[|t'|]|]; try contradiction.
    destruct H as [H|[]]. inversion H; subst. auto.
  - intros (nm & Hnm & -> & Hm). exists nm. split; [exact Hnm|]. rewrite Hm. left. reflexivity.
Qed.

(* a name the file pattern matches is never dropped by the defaulted branch *)
Lemma decorate_complete r sub names nm : file_re r -> In nm names -> rmatch listing_ci r nm <> None ->
  exists t, In (t, join2 sub nm) (decorate r sub names).
Proof.
  intros Hr Hnm Hm. destruct (match_time r nm) as [ti|] eqn:E.
  - destruct (match_time_total r nm ti Hr E) as (t & -> & _). exists t. apply decorate_in. exists nm. auto.
  - unfold match_time in E. destruct (rmatch listing_ci r nm); [discriminate|congruence].
Qed.

(* ---- the loop over dirs *)
Lemma classify_dirs_cons r d n rest :
  classify_dirs r ((d, n) :: rest) =
    match rmatch listing_ci l_re_subdir d with
    | Some c =>
      match subdir_time c with
      | None => None
      | Some t =>
        match classify_dirs r rest with
        | None => None
        | Some (subs, others) =>
          Some (mkSub t d (match n with
                           | Dir es => Some (decorate r d (map fst es))
                           | _ => None
                           end) :: subs, others)
        end
      end
    | None =>
      match classify_dirs r rest with
      | None => None
      | Some (subs, others) => Some (subs, (d, n) :: others)
      end
    end.
Proof. reflexivity. Qed.

Lemma classify_dirs_in r : forall dirs subs others, classify_dirs r dirs = Some (subs, others) ->
  (forall d, In d subs -> exists dn n c,
      In (dn, n) dirs /\ rmatch listing_ci l_re_subdir dn = Some c /\ subdir_time c = Some (s_time d) /\
      s_name d = dn /\ s_files d = match n with Dir es => Some (decorate r dn (map fst es)) | _ => None end) /\
  (forall e, In e others -> In e dirs).
Proof.
  induction dirs as [|[dn n] rest IH]; intros subs others H.
  - cbn in H. inversion H; subst. split; intros ? [].
  - rewrite classify_dirs_cons in H. destruct (rmatch listing_ci l_re_subdir dn) as [c|] eqn:Em.
    + destruct (subdir_time c) as [t|] eqn:Et; [|discriminate].
      destruct (classify_dirs r rest) as [[subs' others']|] eqn:Ec; [|discriminate].
      inversion H; subst. destruct (IH _ _ eq_refl) as [IH1 IH2]. split.
      * intros d [<-|Hd].
        -- exists dn, n, c. cbn. repeat split; auto.
        -- destruct (IH1 d Hd) as (dn' & n' & c' & Hin & Hrest). exists dn', n', c'. split; [right; exact Hin|exact Hrest].
      * intros e He. right. apply IH2. exact He.
    + destruct (classify_dirs r rest) as [[subs' others']|] eqn:Ec; [|discriminate].
      inversion H; subst. destruct (IH _ _ eq_refl) as [IH1 IH2]. split.
      * intros d Hd. destruct (IH1 d Hd) as (dn' & n' & c' & Hin & Hrest). exists dn', n', c'. split; [right; exact Hin|exact Hrest].
      * intros e [<-|He]; [left; reflexivity|right; apply IH2; exact He].
Qed.

(* ---- _yield_matching_files for a channel directory, repaired code, against the Spec *)
Theorem yield_matching_spec o dirs props r ydmd subs others :
  file_regex (existsb (matches listing_ci l_re_drfpropfile) props)
             (existsb (matches listing_ci l_re_dmdpropfile) props) (o_flags o) = Some (r, ydmd) ->
  classify_dirs r dirs = Some (subs, others) ->
  let D := isort sub_leb subs in
  strict_sorted D -> all_listed D -> consistent D -> window_wf (o_start o) (o_end o) ->
  yield_matching fixed o dirs props =
    (map snd (spec_channel ydmd (o_start o) (o_end o) (o_reverse o) D), None, others).
Proof.
  intros Hr Hc D Hss Hal Hco Hw. unfold yield_matching. rewrite Hr, Hc. fold D.
  assert (Hnn : nonneg D).
  { intros d x Hd Hx. unfold D in Hd. apply (proj1 (isort_in sub_leb d subs)) in Hd.
    destruct (classify_dirs_in r dirs subs others Hc) as [H1 _].
    destruct (H1 d Hd) as (dn & n & c & _ & _ & _ & _ & Hf). unfold F in Hx. rewrite Hf in Hx.
    destruct n as [|es|]; try contradiction. destruct x as [t p]. apply decorate_in in Hx as (nm & _ & _ & Hm).
    destruct (match_time_total r nm (Time t) (file_regex_cases _ _ _ _ _ Hr) Hm) as (t' & Ht & Hge).
    inversion Ht; subst. exact Hge. }
  destruct (o_reverse o).
  - rewrite reverse_is_rev, (channel_spec ydmd (o_start o) (o_end o) D Hss Hal Hco Hnn Hw). reflexivity.
  - rewrite (channel_spec ydmd (o_start o) (o_end o) D Hss Hal Hco Hnn Hw). reflexivity.
Qed.
