(* The public Python API as a whole: ANY history of rf_write and rf_write_blocks calls, in any mix,
   accepted or refused, keeps the writer in the refinement relation with the Spec obtained by folding
   the per-call Spec steps -- so after every call the next available sample is the Spec cursor and the
   stored samples are exactly the Spec map.  Gapped mode; continuous mode (either layout). *)
From Coq Require Import ZArith List Bool Lia.
From DRF Require Import Model.IndexCalc Model.WriterCore Model.PyWriter
  Proofs.WriterBasics Proofs.WriterInv Proofs.WriterInvU Proofs.WriterMultiIdx Proofs.WriterMulti Proofs.PyWriterProofs.
Import ListNotations.
Local Open Scope Z_scope.

Inductive apiop :=
| AWrite (ns : option Z) (vec : list Z)          (* rf_write(arr, next_sample=ns) *)
| ABlocks (G D : list Z) (vec : list Z).         (* rf_write_blocks(arr, G, D) *)

Definition api_call (c : cfg) (ps : pystate) (op : apiop) : (Z * Z) * pystate :=
  match op with
  | AWrite ns vec => py_rf_write FromCursor c ps ns vec
  | ABlocks G D vec => py_rf_write_blocks c ps G D vec
  end.
Definition api_state (c : cfg) (ps : pystate) (op : apiop) : pystate := snd (api_call c ps op).

(* the arguments the claim is about: sample indices are not negative *)
Definition api_arg_ok (op : apiop) : Prop :=
  match op with
  | AWrite (Some x) _ => 0 <= x
  | AWrite None _ => True
  | ABlocks G D _ => first_nonneg (combine G D)
  end.

Lemma spec_step_cur_mono c s op : s_cur s <= s_cur (spec_step c s op) \/ s_cur (spec_step c s op) = s_cur s.
Proof.
  destruct op as [g vec]. unfold spec_step. destruct (g <? s_cur s) eqn:E; [right; reflexivity|].
  apply Z.ltb_ge in E. cbn [s_cur]. destruct (zlen vec =? 0); [right; reflexivity|left; unfold zlen; lia].
Qed.

Lemma spec_steps_cur_mono c bs : forall s, s_cur s <= s_cur (fold_left (spec_step c) bs s).
Proof.
  induction bs as [|b bs IH]; intros s; cbn [fold_left]; [lia|].
  specialize (IH (spec_step c s b)). destruct (spec_step_cur_mono c s b); lia.
Qed.

(* ------------------------------------------------------------------ gapped mode *)
Definition api_spec_gapped (c : cfg) (s : spec) (op : apiop) : spec :=
  match op with
  | AWrite ns vec => spec_step c s (resolve s ns, vec)
  | ABlocks G D vec => if py_arrays_ok (s_cur s) (zlen vec) G D then spec_step_blocks c s (combine G D, vec) else s
  end.

Lemma api_step_gapped c ps s op : vcfg c -> c_chunk c = true -> c_cont c = false ->
  PyInv (refines c) ps s -> api_arg_ok op ->
  PyInv (refines c) (api_state c ps op) (api_spec_gapped c s op) /\
  (fst (fst (api_call c ps op)) = OK -> snd (fst (api_call c ps op)) = s_cur (api_spec_gapped c s op)).
Proof.
  intros Hc Hch Hco HI Hop. destruct op as [ns vec|G D vec]; unfold api_state, api_call, api_spec_gapped.
  - assert (Hg : 0 <= resolve s ns).
    { destruct ns; cbn; [exact Hop|destruct HI as (_ & _ & _ & H); exact H]. }
    pose proof (py_write_step c (refines c) (fun st s0 H => proj1 (proj2 H)) (chunked_R_call c Hc Hch) ps s ns vec HI Hg) as H.
    destruct (py_rf_write FromCursor c ps ns vec) as [[cls ret] ps']. cbv beta iota zeta in H. cbn [fst snd].
    destruct (resolve s ns <? s_cur s) eqn:El.
    + destruct H as (Hcls & ->). unfold spec_step. rewrite El. split; [exact HI|].
      intros Hok. rewrite Hcls in Hok. discriminate.
    + destruct H as (_ & Hret & H). split; [exact H|intros _; exact Hret].
  - cbn [api_arg_ok] in Hop.
    pose proof (py_rf_write_blocks_gapped c ps s G D vec Hc Hch Hco HI Hop) as H.
    destruct (py_arrays_ok (s_cur s) (zlen vec) G D) eqn:Eok.
    + destruct H as (Hr & HI'). split; [exact HI'|]. intros _. rewrite Hr. cbn [snd].
      unfold spec_step_blocks.
      destruct HI as (Hcl & HR & Hn & H0). destruct HR as (HInv & Hgi & _).
      assert (Ha : accepted c (s_cur s) (combine G D) vec = true).
      { unfold accepted. rewrite Hco. cbn [andb negb]. rewrite andb_true_r.
        rewrite <- Hn in Eok. pose proof (py_valid_implies_c_valid _ _ _ _ Eok) as Hv. rewrite Hn in Hv. exact Hv. }
      rewrite Ha. reflexivity.
    + destruct H as (code & ->). cbn [fst snd]. split; [exact HI|]. intros Hok. discriminate.
Qed.

Theorem api_history_gapped c ops : vcfg c -> c_chunk c = true -> c_cont c = false ->
  Forall api_arg_ok ops ->
  PyInv (refines c) (fold_left (api_state c) ops py_init) (fold_left (api_spec_gapped c) ops spec_init).
Proof.
  intros Hc Hch Hco.
  assert (H0 : PyInv (refines c) py_init spec_init).
  { unfold PyInv. cbn. split; [reflexivity|]. split; [|split; [reflexivity|lia]].
    split; [apply Inv_init|]. split; [reflexivity|]. split; [reflexivity|exact I]. }
  revert H0. generalize py_init spec_init.
  induction ops as [|op ops IH]; intros ps s HI Hops; cbn [fold_left]; [exact HI|].
  inversion Hops as [|? ? Hop Hops']; subst.
  apply IH; [|exact Hops']. exact (proj1 (api_step_gapped c ps s op Hc Hch Hco HI Hop)).
Qed.

(* ------------------------------------------------------------------ continuous mode, either layout *)
Lemma slice_all vec : slice vec 0 (zlen vec - 0) = vec.
Proof.
  unfold slice, zlen. rewrite Z.sub_0_r, Nat2Z.id. cbn [Z.to_nat skipn]. apply firstn_all.
Qed.

Definition api_spec_cont (c : cfg) (s : spec) (op : apiop) : spec :=
  match op with
  | AWrite ns vec => spec_step c s (resolve s ns, vec)
  | ABlocks G D vec =>
      if py_arrays_ok (s_cur s) (zlen vec) G D then fold_left (spec_step c) (blocks_of G D vec (zlen vec)) s else s
  end.

Section Cont.
  Variable c : cfg.
  Variable R : wstate -> spec -> Prop.
  Hypothesis R_cur : forall st s, R st s -> w_gi st = s_cur s.
  Hypothesis R_call : forall st s g vec, 0 <= g -> R st s ->
    if g <? w_gi st then write_one c st g vec = (-3, st)
    else exists st', write_one c st g vec = (0, st') /\ R st' (spec_step c s (g, vec)).
  Hypothesis Hco : c_cont c = true.

  (* rf_write_blocks with any number of blocks (one block: no split, the C call itself) *)
  Lemma blocks_call ps s G D vec : PyInv R ps s -> first_nonneg (combine G D) ->
    if py_arrays_ok (s_cur s) (zlen vec) G D
    then fst (fst (py_rf_write_blocks c ps G D vec)) = OK /\
         snd (fst (py_rf_write_blocks c ps G D vec)) = s_cur (fold_left (spec_step c) (blocks_of G D vec (zlen vec)) s) /\
         PyInv R (snd (py_rf_write_blocks c ps G D vec)) (fold_left (spec_step c) (blocks_of G D vec (zlen vec)) s)
    else (exists code, py_rf_write_blocks c ps G D vec = ((ValueError, code), ps)).
  Proof.
    intros HI Hnn.
    destruct (Nat.ltb 1 (length G)) eqn:Elen.
    - apply Nat.ltb_lt in Elen.
      pose proof (py_rf_write_blocks_continuous c R ps s G D vec R_cur R_call Hco Elen HI Hnn) as H.
      destruct (py_arrays_ok (s_cur s) (zlen vec) G D); [|exact H].
      destruct H as (st' & Hs & Hf & HR'). rewrite Hf, Hs. cbn [fst snd].
      pose proof (R_cur _ _ HR') as Hcur. split; [reflexivity|]. split; [exact Hcur|].
      unfold PyInv. cbn [p_closed p_w p_next]. split; [reflexivity|]. split; [exact HR'|]. split; [exact Hcur|].
      destruct HI as (_ & _ & _ & H0). pose proof (spec_steps_cur_mono c (blocks_of G D vec (zlen vec)) s). lia.
    - apply Nat.ltb_ge in Elen.
      destruct (py_arrays_ok (s_cur s) (zlen vec) G D) eqn:Eok.
      + destruct HI as (Hcl & HR & Hn & H0).
        rewrite <- Hn in Eok. rewrite (py_blocks_accepted c ps G D vec Eok Hcl).
        unfold py_arrays_ok in Eok. destruct G as [|g0 G']; [discriminate|]. destruct D as [|d0 D']; [discriminate|].
        destruct G' as [|? ?]; [|cbn in Elen; lia].
        repeat (apply andb_true_iff in Eok as [Eok ?]).
        match goal with Hx : Nat.eqb _ _ = true |- _ => apply Nat.eqb_eq in Hx; rename Hx into Hl end.
        destruct D' as [|? ?]; [|cbn in Hl; discriminate].
        match goal with Hx : (d0 =? 0) = true |- _ => apply Z.eqb_eq in Hx; subst d0 end.
        apply negb_true_iff, Z.ltb_ge in Eok.
        cbn [length Z.of_nat]. replace (1 <? Z.of_nat 1) with false by reflexivity. rewrite andb_false_r.
        cbn [combine]. change (write_blocks c (p_w ps) [(g0, 0)] vec) with (write_one c (p_w ps) g0 vec).
        cbn [combine first_nonneg] in Hnn.
        pose proof (R_call (p_w ps) s g0 vec Hnn HR) as Hc. rewrite (R_cur _ _ HR) in Hc.
        assert (El : (g0 <? s_cur s) = false) by (apply Z.ltb_ge; lia). rewrite El in Hc.
        destruct Hc as (st' & Hw & HR'). rewrite Hw. cbn [Z.eqb negb fst snd].
        cbn [blocks_of fold_left]. rewrite slice_all.
        pose proof (R_cur _ _ HR') as Hcur. split; [reflexivity|]. split; [exact Hcur|].
        unfold PyInv. cbn [p_closed p_w p_next]. split; [reflexivity|]. split; [exact HR'|]. split; [exact Hcur|].
        destruct (spec_step_cur_mono c s (g0, vec)); lia.
      + destruct HI as (Hcl & HR & Hn & H0). rewrite <- Hn in Eok. exact (py_blocks_validation c ps G D vec Eok).
  Qed.

  Lemma api_step_cont ps s op : PyInv R ps s -> api_arg_ok op ->
    PyInv R (api_state c ps op) (api_spec_cont c s op) /\
    (fst (fst (api_call c ps op)) = OK -> snd (fst (api_call c ps op)) = s_cur (api_spec_cont c s op)).
  Proof.
    intros HI Hop. destruct op as [ns vec|G D vec]; unfold api_state, api_call, api_spec_cont.
    - assert (Hg : 0 <= resolve s ns).
      { destruct ns; cbn; [exact Hop|destruct HI as (_ & _ & _ & H); exact H]. }
      pose proof (py_write_step c R R_cur R_call ps s ns vec HI Hg) as H.
      destruct (py_rf_write FromCursor c ps ns vec) as [[cls ret] ps']. cbv beta iota zeta in H. cbn [fst snd].
      destruct (resolve s ns <? s_cur s) eqn:El.
      + destruct H as (Hcls & ->). unfold spec_step. rewrite El. split; [exact HI|].
        intros Hok. rewrite Hcls in Hok. discriminate.
      + destruct H as (_ & Hret & H). split; [exact H|intros _; exact Hret].
    - cbn [api_arg_ok] in Hop. pose proof (blocks_call ps s G D vec HI Hop) as H.
      destruct (py_arrays_ok (s_cur s) (zlen vec) G D).
      + destruct H as (_ & Hret & HI'). split; [exact HI'|intros _; exact Hret].
      + destruct H as (code & ->). cbn [fst snd]. split; [exact HI|]. intros Hok. discriminate.
  Qed.

  Theorem api_history_cont ops : forall ps s, PyInv R ps s -> Forall api_arg_ok ops ->
    PyInv R (fold_left (api_state c) ops ps) (fold_left (api_spec_cont c) ops s).
  Proof.
    induction ops as [|op ops IH]; intros ps s HI Hops; cbn [fold_left]; [exact HI|].
    inversion Hops as [|? ? Hop Hops']; subst.
    apply IH; [|exact Hops']. exact (proj1 (api_step_cont ps s op HI Hop)).
  Qed.
End Cont.

Theorem api_history_continuous_unchunked c ops : vcfg c -> c_chunk c = false -> c_cont c = true ->
  Forall api_arg_ok ops ->
  PyInv (refines_u c) (fold_left (api_state c) ops py_init) (fold_left (api_spec_cont c) ops spec_init).
Proof.
  intros Hc Hch Hco Hops. apply (api_history_cont c (refines_u c)).
  - intros st s H. exact (ru_cur _ _ _ H).
  - apply unchunked_R_call; assumption.
  - exact Hco.
  - unfold PyInv. cbn. split; [reflexivity|]. split; [|split; [reflexivity|lia]].
    constructor; cbn; try discriminate; [apply InvU_init|reflexivity|intros a []|exact I].
  - exact Hops.
Qed.

Theorem api_history_continuous_chunked c ops : vcfg c -> c_chunk c = true -> c_cont c = true ->
  Forall api_arg_ok ops ->
  PyInv (refines c) (fold_left (api_state c) ops py_init) (fold_left (api_spec_cont c) ops spec_init).
Proof.
  intros Hc Hch Hco Hops. apply (api_history_cont c (refines c)).
  - intros st s (_ & H & _). exact H.
  - apply chunked_R_call; assumption.
  - exact Hco.
  - unfold PyInv. cbn. split; [reflexivity|]. split; [|split; [reflexivity|lia]].
    split; [apply Inv_init|]. split; [reflexivity|]. split; [reflexivity|exact I].
  - exact Hops.
Qed.

(* non-vacuity: a mixed history in gapped mode *)
Example api_example :
  let c := mkCfg 150000000003 100 1 1 100 false true in
  let ops := [AWrite None [1; 2]; ABlocks [5; 20] [0; 2] [3; 4; 5]; AWrite (Some 1) [9]; AWrite (Some 30) [6]] in
  Forall api_arg_ok ops /\
  p_next (fold_left (api_state c) ops py_init) = 31 /\ p_written (fold_left (api_state c) ops py_init) = 6.
Proof.
  cbv zeta. split.
  - repeat (apply Forall_cons || apply Forall_nil); cbn [api_arg_ok combine first_nonneg]; try exact I; lia.
  - vm_compute. split; reflexivity.
Qed.

(* ------------------------------------------------------------------ refused calls leave no trace (C05)
   A call answered with ValueError or IOError changes nothing, so a history behaves exactly like the
   history with its refused calls removed: same final state, and every remaining call gets the same
   answer.  Every mode and layout, no hypothesis on the arguments. *)
Definition refusedb (r : (Z * Z) * pystate) : bool :=
  (fst (fst r) =? ValueError) || (fst (fst r) =? IOError).

Fixpoint drop_refused (c : cfg) (ps : pystate) (ops : list apiop) : list apiop :=
  match ops with
  | [] => []
  | op :: tl => if refusedb (api_call c ps op) then drop_refused c ps tl
                else op :: drop_refused c (api_state c ps op) tl
  end.

Fixpoint answers (c : cfg) (ps : pystate) (ops : list apiop) : list (Z * Z) :=
  match ops with
  | [] => []
  | op :: tl => fst (api_call c ps op) :: answers c (api_state c ps op) tl
  end.

Lemma refused_noop c ps op : refusedb (api_call c ps op) = true -> api_state c ps op = ps.
Proof.
  unfold refusedb, api_state. intros H.
  assert (Hc : fst (fst (api_call c ps op)) = ValueError \/ fst (fst (api_call c ps op)) = IOError).
  { apply orb_true_iff in H as [H|H]; apply Z.eqb_eq in H; auto. }
  destruct op as [ns vec|G D vec]; cbn [api_call] in *.
  - destruct (py_rf_write FromCursor c ps ns vec) as [[cls ret] ps'] eqn:E. cbn [fst snd] in *.
    exact (py_rf_write_reject_noop _ _ _ _ _ _ _ _ E Hc).
  - destruct (py_rf_write_blocks c ps G D vec) as [[cls ret] ps'] eqn:E. cbn [fst snd] in *.
    exact (py_rf_write_blocks_reject_noop _ _ _ _ _ _ _ _ E Hc).
Qed.

Theorem refused_calls_leave_no_trace c ops : forall ps,
  fold_left (api_state c) (drop_refused c ps ops) ps = fold_left (api_state c) ops ps /\
  answers c ps (drop_refused c ps ops) = filter (fun r => negb ((fst r =? ValueError) || (fst r =? IOError))) (answers c ps ops).
Proof.
  induction ops as [|op tl IH]; intros ps; cbn [drop_refused fold_left answers filter]; [split; reflexivity|].
  destruct (refusedb (api_call c ps op)) eqn:Er.
  - rewrite (refused_noop c ps op Er). unfold refusedb in Er. rewrite Er. cbn [negb]. apply IH.
  - unfold refusedb in Er. rewrite Er. cbn [negb fold_left answers].
    destruct (IH (api_state c ps op)) as (H1 & H2). split; [exact H1|]. f_equal. exact H2.
Qed.

(* ------------------------------------------------------------------ the files after any API history (C06, C07) *)
Lemma Inv_C06 c st : Inv c st -> Forall (C06_file c) (all_files st).
Proof.
  intros [_ Hf Ho]. unfold all_files. apply Forall_app. split.
  - eapply Forall_impl; [|exact Hf]. intros a (H & _). eapply FWF_C06; exact H.
  - destruct (w_openf st) as [a|]; [|constructor]. constructor; [|constructor].
    destruct Ho as (_ & H & _). eapply FWF_C06; exact H.
Qed.

Lemma InvU_full_block c st : InvU c st ->
  Forall (fun a => f_index a = [(wlo c (f_ms a), 0)] /\ zlen (f_data a) = whi c (f_ms a) - wlo c (f_ms a)) (all_files st).
Proof.
  intros [_ Hf Ho]. unfold all_files. apply Forall_app. split.
  - eapply Forall_impl; [|exact Hf]. intros a ((H1 & H2 & _) & _). auto.
  - destruct (w_openf st) as [a|]; [|constructor]. constructor; [|constructor].
    destruct Ho as (_ & (H1 & H2 & _) & _). auto.
Qed.

(* chunked layouts (gapped mode; continuous with compression or checksums): every file the writer
   holds after any API history satisfies the index invariants of C06 *)
Theorem api_files_C06_gapped c ops : vcfg c -> c_chunk c = true -> c_cont c = false ->
  Forall api_arg_ok ops ->
  Forall (C06_file c) (all_files (p_w (fold_left (api_state c) ops py_init))).
Proof.
  intros Hc Hch Hco Hops. destruct (api_history_gapped c ops Hc Hch Hco Hops) as (_ & (HI & _) & _).
  apply Inv_C06. exact HI.
Qed.

Theorem api_files_C06_continuous_chunked c ops : vcfg c -> c_chunk c = true -> c_cont c = true ->
  Forall api_arg_ok ops ->
  Forall (C06_file c) (all_files (p_w (fold_left (api_state c) ops py_init))).
Proof.
  intros Hc Hch Hco Hops. destruct (api_history_continuous_chunked c ops Hc Hch Hco Hops) as (_ & (HI & _) & _).
  apply Inv_C06. exact HI.
Qed.

(* un-chunked continuous layout: every file is one block exposing every slot of its window *)
Theorem api_files_full_block c ops : vcfg c -> c_chunk c = false -> c_cont c = true ->
  Forall api_arg_ok ops ->
  Forall (fun a => f_index a = [(wlo c (f_ms a), 0)] /\ zlen (f_data a) = whi c (f_ms a) - wlo c (f_ms a))
         (all_files (p_w (fold_left (api_state c) ops py_init))).
Proof.
  intros Hc Hch Hco Hops. destruct (api_history_continuous_unchunked c ops Hc Hch Hco Hops) as (_ & HR & _).
  apply InvU_full_block. exact (ru_inv _ _ _ HR).
Qed.

(* ------------------------------------------------------------------ the counters (C19)
   total_samples_written is the number of samples of the accepted calls -- every history, every mode,
   no hypothesis; with counters_sum_all_histories (written + gap = next) the gap counter is the number
   of indices below the cursor that no accepted call covered. *)
Definition accepted_len (c : cfg) (ps : pystate) (op : apiop) : Z :=
  if fst (fst (api_call c ps op)) =? OK
  then match op with AWrite _ vec => zlen vec | ABlocks _ _ vec => zlen vec end
  else 0.

Fixpoint accepted_total (c : cfg) (ps : pystate) (ops : list apiop) : Z :=
  match ops with
  | [] => 0
  | op :: tl => accepted_len c ps op + accepted_total c (api_state c ps op) tl
  end.

Lemma api_written_step c ps op : p_written (api_state c ps op) = p_written ps + accepted_len c ps op.
Proof.
  unfold api_state, accepted_len. destruct op as [ns vec|G D vec]; cbn [api_call].
  - unfold py_rf_write.
    destruct (_ <? p_next ps); [cbn; lia|]. destruct (p_closed ps); [cbn; lia|].
    destruct (write_one c (p_w ps) _ vec) as [rc w']. destruct (negb (rc =? 0)); cbn; unfold zlen; lia.
  - unfold py_rf_write_blocks.
    destruct G as [|g0 G']; [cbn; lia|]. destruct D as [|d0 D']; [cbn; lia|].
    repeat match goal with
           | |- context [if ?b then _ else _] =>
             lazymatch b with
             | negb (_ =? 0) && _ => fail
             | _ => destruct b; [cbn; lia|]
             end
           end.
    all: try (cbn; lia).
    destruct (if c_cont c && (1 <? Z.of_nat (length (g0 :: G'))) then _ else _) as [rc w'].
    destruct (negb (rc =? 0)); cbn; unfold zlen; lia.
Qed.

Theorem written_is_accepted_total c ops : forall ps,
  p_written (fold_left (api_state c) ops ps) = p_written ps + accepted_total c ps ops.
Proof.
  induction ops as [|op tl IH]; intros ps; cbn [fold_left accepted_total]; [lia|].
  rewrite IH, api_written_step. lia.
Qed.

(* ------------------------------------------------------------------ sequence numbers (C06): along the files
   of a session in creation order the sequence numbers strictly increase -- after ANY history of public
   API calls and closes, every mode and layout, no hypothesis on the arguments *)
From DRF Require Import Proofs.WriterMono.

Lemma split_blocks_seq c : forall G D vec vlen w, SeqInv w -> SeqInv (snd (split_blocks c w G D vec vlen)).
Proof.
  induction G as [|g G IH]; intros D vec vlen w HS; [exact HS|].
  destruct D as [|dx D]; [exact HS|]. cbn [split_blocks].
  pose proof (sequence_numbers_increase c w [(g, 0)] (slice vec dx ((match D with d' :: _ => d' | [] => vlen end) - dx)) HS) as H1.
  change (write_blocks c w [(g, 0)] ?v) with (write_one c w g v) in H1.
  destruct (write_one c w g _) as [rc w'] eqn:E. cbn [snd] in H1.
  destruct (negb (rc =? 0)); [exact H1|]. apply IH. exact H1.
Qed.

Lemma api_state_seq c ps op : SeqInv (p_w ps) -> SeqInv (p_w (api_state c ps op)).
Proof.
  intros HS. unfold api_state. destruct op as [ns vec|G D vec]; cbn [api_call].
  - unfold py_rf_write.
    destruct (_ <? p_next ps); [exact HS|]. destruct (p_closed ps); [exact HS|].
    pose proof (sequence_numbers_increase c (p_w ps) [(match ns with Some x => x | None => p_next ps end, 0)] vec HS) as H1.
    change (write_blocks c (p_w ps) [(?g, 0)] vec) with (write_one c (p_w ps) g vec) in H1.
    destruct (write_one c (p_w ps) _ vec) as [rc w']. cbn [snd] in H1. destruct (negb (rc =? 0)); exact H1.
  - unfold py_rf_write_blocks.
    destruct G as [|g0 G']; [exact HS|]. destruct D as [|d0 D']; [exact HS|].
    repeat match goal with
           | |- context [if ?b then _ else _] =>
             lazymatch b with
             | negb (_ =? 0) && _ => fail
             | c_cont c && _ => fail
             | _ => destruct b; [exact HS|]
             end
           end.
    all: try exact HS.
    assert (H1 : SeqInv (snd (if c_cont c && (1 <? Z.of_nat (length (g0 :: G')))
                              then split_blocks c (p_w ps) (g0 :: G') (d0 :: D') vec (Z.of_nat (length vec))
                              else write_blocks c (p_w ps) (combine (g0 :: G') (d0 :: D')) vec))).
    { destruct (c_cont c && _); [apply split_blocks_seq; exact HS|apply sequence_numbers_increase; exact HS]. }
    destruct (if c_cont c && _ then _ else _) as [rc w']. cbn [snd] in H1. destruct (negb (rc =? 0)); exact H1.
Qed.

Theorem api_sequence_numbers c ops : SeqInv (p_w (fold_left (api_state c) ops py_init)).
Proof.
  assert (G : forall ps, SeqInv (p_w ps) -> SeqInv (p_w (fold_left (api_state c) ops ps))).
  { induction ops as [|op ops IH]; intros ps HS; cbn [fold_left]; [exact HS|]. apply IH. apply api_state_seq. exact HS. }
  apply G. exact I.
Qed.
