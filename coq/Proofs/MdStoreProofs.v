(* C12: the Digital Metadata writer/reader model (Model/MdStore.v, fixed-code variant) against the
   Spec "finite map of accepted writes": round trip, order, nothing else, bounds, forward fill,
   latest, duplicate refusal.  The pre-fix variants are refuted on concrete witnesses. *)
From Coq Require Import ZArith List Bool Lia Sorted Permutation.
From DRF Require Import Base.DivLemmas Model.Ld80 Model.MdPlace Model.MdStore Proofs.MdPlaceProofs.
Import ListNotations.
Local Open Scope Z_scope.

(* ------------------------------------------------------------------ insertion sort *)
Section ISort.
  Context {A : Type} (leb : A -> A -> bool).
  Hypothesis leb_total : forall x y, leb x y = true \/ leb y x = true.
  Hypothesis leb_trans : forall x y z, leb x y = true -> leb y z = true -> leb x z = true.
  Definition le_of (x y : A) : Prop := leb x y = true.

  Lemma insert_perm x l : Permutation (insert_by leb x l) (x :: l).
  Proof.
    induction l as [|y r IH]; cbn; [reflexivity|].
    destruct (leb x y); [reflexivity|].
    rewrite IH. apply perm_swap.
  Qed.

  Lemma isort_perm l : Permutation (isort leb l) l.
  Proof.
    induction l as [|x l IH]; cbn; [reflexivity|].
    rewrite insert_perm. constructor. exact IH.
  Qed.

  Lemma isort_in x l : In x (isort leb l) <-> In x l.
  Proof.
    split; intros H.
    - eapply Permutation_in; [apply isort_perm|exact H].
    - eapply Permutation_in; [apply Permutation_sym, isort_perm|exact H].
  Qed.

  Lemma insert_sorted x l : StronglySorted le_of l -> StronglySorted le_of (insert_by leb x l).
  Proof.
    induction 1 as [|y r Hs IH Hf]; cbn.
    - constructor; constructor.
    - destruct (leb x y) eqn:E.
      + constructor; [constructor; assumption|].
        constructor; [exact E|].
        rewrite Forall_forall in *. intros z Hz. eapply leb_trans; [exact E|apply Hf, Hz].
      + constructor; [exact IH|].
        rewrite Forall_forall in *. intros z Hz.
        apply (Permutation_in _ (insert_perm x r)) in Hz. destruct Hz as [<-|Hz].
        * destruct (leb_total x y) as [H|H]; [congruence|exact H].
        * apply Hf, Hz.
  Qed.

  Lemma isort_sorted l : StronglySorted le_of (isort leb l).
  Proof. induction l as [|x l IH]; cbn; [constructor|]. apply insert_sorted, IH. Qed.
End ISort.

Lemma sorted_app_last {A} (R : A -> A -> Prop) l x :
  StronglySorted R (l ++ [x]) -> forall y, In y l -> R y x.
Proof.
  induction l as [|a l IH]; cbn; intros Hs y Hy; [contradiction|].
  inversion Hs as [|? ? Hs' Hf]; subst. destruct Hy as [<-|Hy].
  - rewrite Forall_forall in Hf. apply Hf. apply in_or_app. right. left. reflexivity.
  - apply IH; assumption.
Qed.

Lemma sorted_rev_head {A} (R : A -> A -> Prop) l x r :
  StronglySorted R l -> rev l = x :: r -> forall y, In y r -> R y x.
Proof.
  intros Hs Hr y Hy.
  assert (E : l = rev r ++ [x]).
  { rewrite <- (rev_involutive l), Hr. reflexivity. }
  rewrite E in Hs. apply (sorted_app_last R (rev r) x Hs). apply in_rev in Hy. exact Hy.
Qed.

Lemma sorted_app_l {A} (R : A -> A -> Prop) l1 l2 :
  StronglySorted R (l1 ++ l2) -> StronglySorted R l1.
Proof.
  induction l1 as [|a l1 IH]; cbn; intros Hs; [constructor|].
  inversion Hs as [|? ? Hs' Hf]; subst. constructor; [apply IH, Hs'|].
  rewrite Forall_forall in *. intros y Hy. apply Hf. apply in_or_app. left. exact Hy.
Qed.

Lemma sorted_app_r {A} (R : A -> A -> Prop) l1 l2 :
  StronglySorted R (l1 ++ l2) -> StronglySorted R l2.
Proof.
  induction l1 as [|a l1 IH]; cbn; intros Hs; [exact Hs|].
  inversion Hs; subst. apply IH. assumption.
Qed.

Lemma sorted_app_cross {A} (R : A -> A -> Prop) l1 l2 :
  StronglySorted R (l1 ++ l2) -> forall a b, In a l1 -> In b l2 -> R a b.
Proof.
  induction l1 as [|x l1 IH]; cbn; intros Hs a b Ha Hb; [contradiction|].
  inversion Hs as [|? ? Hs' Hf]; subst. destruct Ha as [<-|Ha].
  - rewrite Forall_forall in Hf. apply Hf. apply in_or_app. right. exact Hb.
  - apply IH; assumption.
Qed.

(* ------------------------------------------------------------------ basic facts *)
Definition key_lt (x y : sample) : Prop := fst x < fst y.
Definition key_le (x y : sample) : Prop := fst x <= fst y.

Lemma key_leb_total x y : key_leb x y = true \/ key_leb y x = true.
Proof. unfold key_leb. destruct (Z.leb_spec (fst x) (fst y)); [left; reflexivity|right; apply Z.leb_le; lia]. Qed.
Lemma key_leb_trans x y z : key_leb x y = true -> key_leb y z = true -> key_leb x z = true.
Proof. unfold key_leb. rewrite !Z.leb_le. lia. Qed.

Lemma path_eqb_eq p q : path_eqb p q = true <-> p = q.
Proof.
  destruct p as [a b], q as [a' b']. unfold path_eqb. cbn.
  rewrite andb_true_iff, !Z.eqb_eq. split; [intros [-> ->]; reflexivity|intros H; inversion H; auto].
Qed.

Lemma path_eqb_refl p : path_eqb p p = true.
Proof. apply path_eqb_eq. reflexivity. Qed.

Lemma path_eqb_neq p q : path_eqb p q = false <-> p <> q.
Proof.
  split.
  - intros H E. apply path_eqb_eq in E. congruence.
  - intros H. destruct (path_eqb p q) eqn:E; [|reflexivity]. apply path_eqb_eq in E. contradiction.
Qed.

Lemma map_fst_kv l : map fst (map e_kv l) = map e_key l.
Proof. rewrite map_map. apply map_ext. intros [[[s t] k] v]. reflexivity. Qed.

Lemma has_key_in k sp : has_key k sp = true <-> In k (map fst sp).
Proof.
  unfold has_key. rewrite existsb_exists, in_map_iff. split.
  - intros (x & Hx & E). apply Z.eqb_eq in E. exists x. auto.
  - intros (x & E & Hx). exists x. split; [exact Hx|]. apply Z.eqb_eq. exact E.
Qed.

(* ------------------------------------------------------------------ writer vs Spec *)
(* every group sits in the file the (exact) writer computes for its index, indices are
   non-negative and stored once *)
Definition WF (c : cfg) (st : store) : Prop :=
  (forall e, In e st -> 0 <= e_key e /\ w_path Exact c (e_key e) = e_path e) /\
  NoDup (map e_key st).

Lemma group_exists_wf c st k :
  (forall e, In e st -> w_path Exact c (e_key e) = e_path e) ->
  group_exists (w_path Exact c k) k st = has_key k (map e_kv st).
Proof.
  induction st as [|e st IH]; intros H; [reflexivity|].
  unfold group_exists, has_key in *. cbn [existsb map].
  rewrite IH by (intros; apply H; right; assumption). f_equal.
  assert (He := H e (or_introl eq_refl)).
  destruct e as [[[s t] k'] v]. cbn in *.
  destruct (Z.eqb_spec k' k) as [->|Hne].
  - rewrite He. rewrite path_eqb_refl. reflexivity.
  - apply andb_false_r.
Qed.

Lemma write_one_wf c st k v : WF c st -> 0 <= k ->
  match write_one Exact c st k v with
  | None => has_key k (map e_kv st) = true
  | Some st' => has_key k (map e_kv st) = false /\ WF c st' /\ map e_kv st' = map e_kv st ++ [(k, v)]
  end.
Proof.
  intros [Hw Hn] Hk. unfold write_one.
  rewrite group_exists_wf by (intros; apply Hw; assumption).
  destruct (has_key k (map e_kv st)) eqn:E; [reflexivity|].
  split; [reflexivity|]. split; [|rewrite map_app; reflexivity].
  split.
  - intros e He. apply in_app_or in He. destruct He as [He|[<-|[]]]; [apply Hw, He|].
    unfold e_key, e_path. split; [exact Hk|]. apply surjective_pairing.
  - rewrite map_app. cbn.
    assert (Hnot : ~ In k (map e_key st)).
    { intros Hin. rewrite <- map_fst_kv in Hin. apply has_key_in in Hin. congruence. }
    clear - Hn Hnot. induction st as [|e st IH]; cbn in *; [constructor; [intros []|constructor]|].
    inversion Hn; subst. constructor.
    + intros Hin. apply in_app_or in Hin. destruct Hin as [Hin|[Hin|[]]]; [contradiction|].
      apply Hnot. left. symmetry. exact Hin.
    + apply IH; [assumption|]. intros Hin. apply Hnot. right. exact Hin.
Qed.

Lemma write_call_sim c l : forall st, WF c st -> (forall x, In x l -> 0 <= fst x) ->
  WF c (fst (write_call Exact c st l)) /\
  map e_kv (fst (write_call Exact c st l)) = fst (spec_call (map e_kv st) l) /\
  snd (write_call Exact c st l) = snd (spec_call (map e_kv st) l).
Proof.
  induction l as [|[k v] l IH]; intros st Hwf Hl; cbn [write_call spec_call].
  - auto.
  - pose proof (write_one_wf c st k v Hwf (Hl (k, v) (or_introl eq_refl))) as H.
    destruct (write_one Exact c st k v) as [st'|].
    + destruct H as (E & Hwf' & Hm). rewrite E. rewrite <- Hm.
      apply IH; [assumption|]. intros; apply Hl; right; assumption.
    + rewrite H. cbn. auto.
Qed.

Definition hist_ok (h : list (list sample)) : Prop := forall l x, In l h -> In x l -> 0 <= fst x.

Lemma run_writes_sim_gen c h : forall st, WF c st -> hist_ok h ->
  WF c (fold_left (fun st l => fst (write_call Exact c st l)) h st) /\
  map e_kv (fold_left (fun st l => fst (write_call Exact c st l)) h st) =
    fold_left (fun sp l => fst (spec_call sp l)) h (map e_kv st).
Proof.
  induction h as [|l h IH]; intros st Hwf Hh; cbn [fold_left]; [auto|].
  destruct (write_call_sim c l st Hwf) as (Hwf' & Hm & _).
  { intros x Hx. apply (Hh l x); [left; reflexivity|exact Hx]. }
  rewrite <- Hm. apply IH; [exact Hwf'|]. intros l' x Hl'. apply Hh. right. exact Hl'.
Qed.

Lemma WF_nil c : WF c [].
Proof. split; [intros e []|constructor]. Qed.

Lemma run_writes_sim c h : hist_ok h ->
  WF c (run_writes Exact c h) /\ map e_kv (run_writes Exact c h) = spec_of h.
Proof. intros Hh. apply (run_writes_sim_gen c h [] (WF_nil c) Hh). Qed.

(* ------------------------------------------------------------------ reader: files and blocks *)
Lemma file_exists_iff st p : file_exists st p = true <-> exists e, In e st /\ e_path e = p.
Proof.
  unfold file_exists. rewrite existsb_exists. split; intros (e & He & E); exists e; split; auto;
    apply path_eqb_eq; exact E.
Qed.

Lemma groups_in st p x : In x (groups st p) <-> exists e, In e st /\ e_path e = p /\ e_kv e = x.
Proof.
  unfold groups. rewrite in_map_iff. split.
  - intros (e & E & He). apply filter_In in He. destruct He as [He Hp]. apply path_eqb_eq in Hp.
    exists e. auto.
  - intros (e & He & Hp & E). exists e. split; [exact E|]. apply filter_In. split; [exact He|].
    apply path_eqb_eq. exact Hp.
Qed.

Lemma NoDup_map_filter {A B} (f : A -> B) (p : A -> bool) l :
  NoDup (map f l) -> NoDup (map f (filter p l)).
Proof.
  induction l as [|a l IH]; cbn; intros H; [constructor|].
  inversion H; subst. destruct (p a); [|apply IH; assumption].
  cbn. constructor; [|apply IH; assumption].
  intros Hin. apply in_map_iff in Hin. destruct Hin as (x & E & Hx). apply filter_In in Hx.
  match goal with Hn : ~ In (f a) (map f l) |- _ => apply Hn end.
  rewrite <- E. apply in_map. apply Hx.
Qed.

Lemma groups_nodup c st p : WF c st -> NoDup (map fst (groups st p)).
Proof.
  intros [_ Hn]. unfold groups. rewrite map_fst_kv. apply NoDup_map_filter. exact Hn.
Qed.

Lemma le_nodup_lt (l : list sample) :
  StronglySorted (le_of key_leb) l -> NoDup (map fst l) -> StronglySorted key_lt l.
Proof.
  induction 1 as [|a l Hs IH Hf]; cbn; intros Hn; [constructor|].
  inversion Hn as [|? ? Hnot Hn']; subst. constructor; [apply IH, Hn'|].
  rewrite Forall_forall in *. intros y Hy. specialize (Hf y Hy).
  unfold le_of, key_leb in Hf. apply Z.leb_le in Hf. unfold key_lt.
  assert (fst a <> fst y). { intros E. apply Hnot. rewrite E. apply in_map. exact Hy. }
  lia.
Qed.

Lemma sorted_groups_lt c st p : WF c st -> StronglySorted key_lt (isort key_leb (groups st p)).
Proof.
  intros Hwf. apply le_nodup_lt.
  - apply isort_sorted; [apply key_leb_total|apply key_leb_trans].
  - eapply Permutation_NoDup; [|apply (groups_nodup c st p Hwf)].
    apply Permutation_map, Permutation_sym, isort_perm.
Qed.

(* the clipped, index-sorted samples of one file *)
Definition block (st : store) (s0 s1 : Z) (p : Z * Z) : list sample :=
  filter (in_range s0 s1) (isort key_leb (groups st p)).

Lemma block_sorted c st s0 s1 p : WF c st -> StronglySorted key_lt (block st s0 s1 p).
Proof. intros Hwf. apply filter_sorted. apply (sorted_groups_lt c); exact Hwf. Qed.

Lemma block_in st s0 s1 p x :
  In x (block st s0 s1 p) <->
  (exists e, In e st /\ e_path e = p /\ e_kv e = x) /\ s0 <= fst x <= s1.
Proof.
  unfold block. rewrite filter_In, isort_in, groups_in. unfold in_range.
  rewrite andb_true_iff, !Z.leb_le. reflexivity.
Qed.

(* entries of a later file have larger indices *)
Lemma keys_follow_files c st e e' : cfg_ok c -> WF c st -> In e st -> In e' st ->
  snd (e_path e) < snd (e_path e') -> e_key e < e_key e'.
Proof.
  intros Hc [Hw _] He He' Hlt.
  destruct (Hw e He) as [_ E]. destruct (Hw e' He') as [_ E'].
  rewrite <- E, <- E' in Hlt. unfold w_path in Hlt. cbn [snd] in Hlt.
  destruct (Z.lt_ge_cases (e_key e) (e_key e')) as [H|H]; [exact H|].
  pose proof (w_file_ts_mono c _ _ Hc H). lia.
Qed.

Lemma e_kv_key e : fst (e_kv e) = e_key e.
Proof. destruct e as [[[s t] k] v]. reflexivity. Qed.

Lemma file_list_sorted c st s0 s1 : cfg_ok c -> StronglySorted lt_ts (file_list Exact c st s0 s1).
Proof. intros Hc. apply filter_sorted, candidates_sorted, Hc. Qed.

Lemma file_list_in c st s0 s1 p :
  In p (file_list Exact c st s0 s1) <->
  In p (candidates Exact c s0 s1) /\ exists e, In e st /\ e_path e = p.
Proof. unfold file_list. rewrite filter_In, file_exists_iff. reflexivity. Qed.

(* all blocks of a read, concatenated: ascending ... *)
Lemma blocks_sorted c st s0 s1 a b : cfg_ok c -> WF c st ->
  StronglySorted key_lt (flat_map (block st a b) (file_list Exact c st s0 s1)).
Proof.
  intros Hc Hwf. apply flat_map_sorted with (R' := lt_ts).
  - apply file_list_sorted, Hc.
  - intros p _. apply (block_sorted c), Hwf.
  - intros p p' x y _ _ Hlt Hx Hy.
    apply block_in in Hx. destruct Hx as ((e & He & Hp & Ex) & _).
    apply block_in in Hy. destruct Hy as ((e' & He' & Hp' & Ey) & _).
    unfold key_lt. rewrite <- Ex, <- Ey, !e_kv_key.
    apply (keys_follow_files c st); try assumption. rewrite Hp, Hp'. exact Hlt.
Qed.

(* ... and exactly the stored samples of the range *)
Lemma blocks_in c st s0 s1 x : cfg_ok c -> WF c st ->
  (In x (flat_map (block st s0 s1) (file_list Exact c st s0 s1)) <->
   In x (map e_kv st) /\ s0 <= fst x <= s1).
Proof.
  intros Hc Hwf. rewrite in_flat_map. split.
  - intros (p & _ & Hx). apply block_in in Hx. destruct Hx as ((e & He & _ & E) & Hr).
    split; [|exact Hr]. rewrite <- E. apply in_map, He.
  - intros (Hx & Hr). apply in_map_iff in Hx. destruct Hx as (e & E & He).
    exists (e_path e). split.
    + apply file_list_in. split; [|exists e; auto].
      destruct Hwf as [Hw _]. destruct (Hw e He) as [_ Ep]. rewrite <- Ep.
      apply writer_in_candidates; [exact Hc|]. rewrite <- E, e_kv_key in Hr. exact Hr.
    + apply block_in. split; [exists e; auto|exact Hr].
Qed.

(* ------------------------------------------------------------------ OrderedDict insertion *)
Definition od_step (acc : list sample) (x : sample) : list sample := od_set acc (fst x) (snd x).

Lemma od_set_fresh acc k v : (forall y, In y acc -> fst y <> k) -> od_set acc k v = acc ++ [(k, v)].
Proof.
  induction acc as [|[k' v'] acc IH]; cbn; intros H; [reflexivity|].
  destruct (Z.eqb_spec k' k) as [E|_].
  - exfalso. apply (H (k', v')); [left; reflexivity|exact E].
  - f_equal. apply IH. intros y Hy. apply H. right. exact Hy.
Qed.

Lemma fold_od_sorted l : forall acc, StronglySorted key_lt (acc ++ l) -> fold_left od_step l acc = acc ++ l.
Proof.
  induction l as [|x l IH]; intros acc Hs; cbn [fold_left]; [rewrite app_nil_r; reflexivity|].
  unfold od_step at 2. rewrite od_set_fresh.
  - rewrite <- surjective_pairing. rewrite IH; rewrite <- app_assoc; [reflexivity|exact Hs].
  - intros y Hy E.
    pose proof (sorted_app_cross key_lt acc (x :: l) Hs y x Hy (or_introl eq_refl)) as H.
    unfold key_lt in H. lia.
Qed.

Lemma add_metadata_edge acc st p s0 s1 :
  add_metadata acc (groups st p) s0 s1 true = fold_left od_step (block st s0 s1 p) acc.
Proof. reflexivity. Qed.

Lemma filter_all {A} (f : A -> bool) l : (forall x, In x l -> f x = true) -> filter f l = l.
Proof.
  induction l as [|a l IH]; cbn; intros H; [reflexivity|].
  rewrite (H a (or_introl eq_refl)). f_equal. apply IH. intros; apply H; right; assumption.
Qed.

Lemma sorted_before_last {A} (R : A -> A -> Prop) l d x :
  StronglySorted R l -> In x l -> x <> last l d -> R x (last l d).
Proof.
  induction l as [|a l IH]; intros Hs Hx Hne; [contradiction|].
  inversion Hs as [|? ? Hs' Hf]; subst. rewrite Forall_forall in Hf.
  destruct l as [|b l].
  - cbn in *. destruct Hx as [<-|[]]. contradiction.
  - change (last (a :: b :: l) d) with (last (b :: l) d) in *.
    destruct Hx as [<-|Hx].
    + apply Hf. clear. generalize b. induction l as [|c l IH]; intros b'; [left; reflexivity|].
      change (last (b' :: c :: l) d) with (last (c :: l) d). right. apply IH.
    + apply IH; assumption.
Qed.

Lemma last_in {A} (l : list A) d : l <> [] -> In (last l d) l.
Proof.
  induction l as [|a l IH]; intros H; [contradiction|].
  destruct l as [|b l]; [left; reflexivity|]. right. apply IH. discriminate.
Qed.

(* a file that is neither the first nor the last of the list lies strictly inside the range, so
   reading it whole (is_edge = False) is the same as clipping it *)
Lemma add_metadata_block c st s0 s1 acc p : cfg_ok c -> WF c st ->
  In p (file_list Exact c st s0 s1) ->
  add_metadata acc (groups st p) s0 s1 (is_edge_file p (file_list Exact c st s0 s1)) =
  fold_left od_step (block st s0 s1 p) acc.
Proof.
  intros Hc Hwf Hp.
  destruct (is_edge_file p (file_list Exact c st s0 s1)) eqn:Eedge; [apply add_metadata_edge|].
  unfold add_metadata, block. fold od_step.
  rewrite (filter_all (in_range s0 s1)); [reflexivity|].
  intros x Hx. apply isort_in, groups_in in Hx. destruct Hx as (e & He & Ep & Ex).
  pose proof (file_list_sorted c st s0 s1 Hc) as Hs.
  set (fl := file_list Exact c st s0 s1) in *.
  destruct fl as [|p0 fl'] eqn:Efl; [contradiction|].
  unfold is_edge_file in Eedge. apply orb_false_iff in Eedge. destruct Eedge as [E0 EL].
  apply path_eqb_neq in E0. apply path_eqb_neq in EL.
  assert (H0 : lt_ts p0 p).
  { inversion Hs as [|? ? _ Hf]; subst. rewrite Forall_forall in Hf. apply Hf.
    destruct Hp as [Hp|Hp]; [congruence|exact Hp]. }
  assert (HL : lt_ts p (last (p0 :: fl') p0)) by (apply sorted_before_last; assumption).
  assert (Hin0 : In p0 (candidates Exact c s0 s1)).
  { apply (proj1 (file_list_in c st s0 s1 p0)). fold fl. rewrite Efl. left; reflexivity. }
  assert (HinL : In (last (p0 :: fl') p0) (candidates Exact c s0 s1)).
  { apply (proj1 (file_list_in c st s0 s1 _)). fold fl. rewrite Efl. apply last_in. discriminate. }
  set (pL := last (p0 :: fl') p0) in *.
  rewrite (surjective_pairing p0) in Hin0. rewrite (surjective_pairing pL) in HinL.
  apply candidates_in in Hin0; [|exact Hc]. apply candidates_in in HinL; [|exact Hc].
  destruct Hin0 as (_ & [Hlo _] & _). destruct HinL as (_ & [_ Hhi] & _).
  unfold lt_ts in H0, HL.
  destruct Hwf as [Hw _]. destruct (Hw e He) as [_ Epath].
  rewrite !reader_ts_is_writer_ts in *.
  assert (Ets : w_file_ts Exact c (e_key e) = snd p).
  { rewrite <- Ep, <- Epath. reflexivity. }
  unfold in_range. rewrite <- Ex, e_kv_key. apply andb_true_iff. rewrite !Z.leb_le. split.
  - destruct (Z.le_gt_cases s0 (e_key e)) as [H|H]; [exact H|].
    pose proof (w_file_ts_mono c (e_key e) s0 Hc ltac:(lia)). lia.
  - destruct (Z.le_gt_cases (e_key e) s1) as [H|H]; [exact H|].
    pose proof (w_file_ts_mono c s1 (e_key e) Hc ltac:(lia)). lia.
Qed.

Lemma fold_left_ext_in {A B} (f g : A -> B -> A) l :
  (forall acc x, In x l -> f acc x = g acc x) -> forall acc, fold_left f l acc = fold_left g l acc.
Proof.
  induction l as [|x l IH]; intros H acc; [reflexivity|]. cbn.
  rewrite H by (left; reflexivity). apply IH. intros; apply H; right; assumption.
Qed.

Lemma fold_blocks st s0 s1 l : forall acc,
  StronglySorted key_lt (acc ++ flat_map (block st s0 s1) l) ->
  fold_left (fun acc p => fold_left od_step (block st s0 s1 p) acc) l acc =
  acc ++ flat_map (block st s0 s1) l.
Proof.
  induction l as [|p l IH]; intros acc Hs; cbn [fold_left flat_map]; [rewrite app_nil_r; reflexivity|].
  cbn [flat_map] in Hs. rewrite app_assoc in Hs.
  rewrite fold_od_sorted by (apply (sorted_app_l _ _ _ Hs)).
  rewrite IH by exact Hs. rewrite app_assoc. reflexivity.
Qed.

(* read of one range, started from an accumulator whose keys are all smaller *)
Lemma read_range_eq c st acc s0 s1 : cfg_ok c -> WF c st ->
  StronglySorted key_lt (acc ++ flat_map (block st s0 s1) (file_list Exact c st s0 s1)) ->
  read_range Exact c st acc s0 s1 = acc ++ flat_map (block st s0 s1) (file_list Exact c st s0 s1).
Proof.
  intros Hc Hwf Hs. unfold read_range.
  rewrite (fold_left_ext_in _ (fun acc p => fold_left od_step (block st s0 s1 p) acc)).
  - apply fold_blocks, Hs.
  - intros a p Hp. apply (add_metadata_block c); assumption.
Qed.

(* ------------------------------------------------------------------ get_bounds *)
Lemma path_leb_total p q : path_leb p q = true \/ path_leb q p = true.
Proof.
  unfold path_leb.
  destruct (Z.ltb_spec (fst p) (fst q)); [left; reflexivity|].
  destruct (Z.ltb_spec (fst q) (fst p)); [right; reflexivity|].
  assert (E : fst p = fst q) by lia. rewrite E, Z.eqb_refl. cbn.
  destruct (Z.leb_spec (snd p) (snd q)); [left; reflexivity|right; apply Z.leb_le; lia].
Qed.

Lemma path_leb_iff p q : path_leb p q = true <-> fst p < fst q \/ (fst p = fst q /\ snd p <= snd q).
Proof.
  unfold path_leb. rewrite orb_true_iff, andb_true_iff, Z.ltb_lt, Z.eqb_eq, Z.leb_le. reflexivity.
Qed.

Lemma path_leb_trans p q r : path_leb p q = true -> path_leb q r = true -> path_leb p r = true.
Proof. rewrite !path_leb_iff. lia. Qed.

Lemma dedup_in p l : In p (dedup l) <-> In p l.
Proof.
  induction l as [|q l IH]; cbn; [reflexivity|].
  destruct (existsb (path_eqb q) l) eqn:E.
  - rewrite IH. split; [auto|]. intros [<-|H]; [|exact H].
    apply existsb_exists in E. destruct E as (x & Hx & E). apply path_eqb_eq in E. subst x. exact Hx.
  - cbn. rewrite IH. reflexivity.
Qed.

Lemma listing_in st p : In p (listing st) <-> exists e, In e st /\ e_path e = p.
Proof.
  unfold listing. rewrite isort_in, dedup_in, in_map_iff. split; intros (e & H1 & H2); exists e; auto.
Qed.

Lemma listing_sorted st : StronglySorted (le_of path_leb) (listing st).
Proof. apply isort_sorted; [apply path_leb_total|apply path_leb_trans]. Qed.

(* the path of an entry with a smaller index is not later *)
Lemma path_le_of_key_le c st e e' : cfg_ok c -> WF c st -> In e st -> In e' st ->
  e_key e <= e_key e' -> path_leb (e_path e) (e_path e') = true.
Proof.
  intros Hc [Hw _] He He' Hle.
  destruct (Hw e He) as [_ E]. destruct (Hw e' He') as [_ E'].
  rewrite <- E, <- E'. apply path_leb_iff. unfold w_path. cbn [fst snd].
  pose proof (w_file_ts_mono c _ _ Hc Hle) as Ht.
  pose proof (sub_of_mono c _ _ Hc Ht). lia.
Qed.

Lemma path_leb_antisym p q : path_leb p q = true -> path_leb q p = true -> p = q.
Proof. rewrite !path_leb_iff. destruct p, q; cbn. intros. f_equal; lia. Qed.

Lemma groups_nonempty st p : In p (listing st) -> groups st p <> [].
Proof.
  intros H. apply listing_in in H. destruct H as (e & He & Ep).
  intros E. assert (Hin : In (e_kv e) (groups st p)) by (apply groups_in; exists e; auto).
  rewrite E in Hin. contradiction.
Qed.

Lemma isort_nonempty {A} (leb : A -> A -> bool) l : l <> [] -> isort leb l <> [].
Proof.
  intros H E. destruct l as [|a l]; [contradiction|].
  assert (Hin : In a (isort leb (a :: l))) by (apply isort_in; left; reflexivity).
  rewrite E in Hin. contradiction.
Qed.

Lemma first_sample_spec c st : cfg_ok c -> WF c st -> st <> [] ->
  exists lo, first_sample IntSort st (listing st) = Some lo /\
    In lo (map e_key st) /\ forall e, In e st -> lo <= e_key e.
Proof.
  intros Hc Hwf Hne.
  pose proof (listing_sorted st) as Hs.
  destruct (listing st) as [|p0 r] eqn:El.
  { exfalso. destruct st as [|e st]; [contradiction|].
    assert (Hin : In (e_path e) (listing (e :: st))) by (apply listing_in; exists e; split; [left|]; reflexivity).
    rewrite El in Hin. contradiction. }
  cbn [first_sample].
  assert (Hp0 : In p0 (listing st)) by (rewrite El; left; reflexivity).
  pose proof (isort_nonempty (name_leb IntSort) _ (groups_nonempty st p0 Hp0)) as Hnon.
  pose proof (isort_sorted key_leb key_leb_total key_leb_trans (groups st p0)) as Hsg.
  change (name_leb IntSort) with key_leb in *.
  destruct (isort key_leb (groups st p0)) as [|x xs] eqn:Eg; [contradiction|].
  exists (fst x). split; [reflexivity|].
  assert (Hx : In x (groups st p0)) by (apply (isort_in key_leb); rewrite Eg; left; reflexivity).
  apply groups_in in Hx. destruct Hx as (e0 & He0 & Ep0 & Ex).
  split.
  - rewrite <- Ex, e_kv_key. apply in_map, He0.
  - intros e He. rewrite <- Ex, e_kv_key.
    destruct (Z.le_gt_cases (e_key e0) (e_key e)) as [H|H]; [exact H|]. exfalso.
    (* e has a smaller index, so its file is not later than p0; p0 is the first file: same file *)
    assert (H1 : path_leb (e_path e) (e_path e0) = true) by (apply (path_le_of_key_le c st); try assumption; lia).
    assert (H2 : path_leb p0 (e_path e) = true).
    { assert (Hin : In (e_path e) (listing st)) by (apply listing_in; exists e; auto).
      rewrite El in Hin. destruct Hin as [<-|Hin].
      - destruct (path_leb_total p0 p0); assumption.
      - apply StronglySorted_inv in Hs. destruct Hs as [_ Hf].
        rewrite Forall_forall in Hf. apply Hf, Hin. }
    rewrite Ep0 in H1. pose proof (path_leb_antisym _ _ H1 H2) as Esame.
    (* then e is in the group list of p0, whose sorted head is e0 *)
    assert (Hin : In (e_kv e) (isort key_leb (groups st p0))).
    { apply isort_in, groups_in. exists e. auto. }
    rewrite Eg in Hin. destruct Hin as [E|Hin].
    + rewrite E in Ex. apply (f_equal fst) in Ex. rewrite !e_kv_key in Ex. lia.
    + apply StronglySorted_inv in Hsg. destruct Hsg as [_ Hf].
      rewrite Forall_forall in Hf. specialize (Hf _ Hin).
      unfold le_of, key_leb in Hf. apply Z.leb_le in Hf. rewrite <- Ex, !e_kv_key in Hf. lia.
Qed.

Lemma last_sample_spec c st : cfg_ok c -> WF c st -> st <> [] ->
  exists hi, last_sample IntSort st (rev (listing st)) = Some hi /\
    In hi (map e_key st) /\ forall e, In e st -> e_key e <= hi.
Proof.
  intros Hc Hwf Hne.
  pose proof (listing_sorted st) as Hs.
  destruct (rev (listing st)) as [|pL r] eqn:El.
  { exfalso. destruct st as [|e st]; [contradiction|].
    assert (Hin : In (e_path e) (listing (e :: st))) by (apply listing_in; exists e; split; [left|]; reflexivity).
    apply in_rev in Hin. rewrite El in Hin. contradiction. }
  cbn [last_sample].
  assert (HpL : In pL (listing st)) by (apply in_rev; rewrite El; left; reflexivity).
  pose proof (isort_nonempty (name_leb IntSort) _ (groups_nonempty st pL HpL)) as Hnon.
  pose proof (isort_sorted key_leb key_leb_total key_leb_trans (groups st pL)) as Hsg.
  change (name_leb IntSort) with key_leb in *.
  destruct (rev (isort key_leb (groups st pL))) as [|x xs] eqn:Eg.
  { exfalso. apply Hnon. rewrite <- (rev_involutive (isort key_leb (groups st pL))), Eg. reflexivity. }
  exists (fst x). split; [reflexivity|].
  assert (Hx : In x (groups st pL)).
  { apply (isort_in key_leb). apply in_rev. rewrite Eg. left; reflexivity. }
  apply groups_in in Hx. destruct Hx as (e0 & He0 & Ep0 & Ex).
  split.
  - rewrite <- Ex, e_kv_key. apply in_map, He0.
  - intros e He. rewrite <- Ex, e_kv_key.
    destruct (Z.le_gt_cases (e_key e) (e_key e0)) as [H|H]; [exact H|]. exfalso.
    assert (H1 : path_leb (e_path e0) (e_path e) = true) by (apply (path_le_of_key_le c st); try assumption; lia).
    assert (H2 : path_leb (e_path e) pL = true).
    { assert (Hin : In (e_path e) (rev (listing st))) by (apply -> in_rev; apply listing_in; exists e; auto).
      rewrite El in Hin. destruct Hin as [<-|Hin].
      - destruct (path_leb_total pL pL); assumption.
      - apply (sorted_rev_head (le_of path_leb) (listing st) pL r Hs El _ Hin). }
    rewrite Ep0 in H1. pose proof (path_leb_antisym _ _ H1 H2) as Esame.
    assert (Hin : In (e_kv e) (rev (isort key_leb (groups st pL)))).
    { apply -> in_rev. apply isort_in, groups_in. exists e. auto. }
    rewrite Eg in Hin. destruct Hin as [E|Hin].
    + rewrite E in Ex. apply (f_equal fst) in Ex. rewrite !e_kv_key in Ex. lia.
    + pose proof (sorted_rev_head (le_of key_leb) _ x xs Hsg Eg _ Hin) as Hf.
      unfold le_of, key_leb in Hf. apply Z.leb_le in Hf. rewrite <- Ex, !e_kv_key in Hf. lia.
Qed.

Lemma get_bounds_spec c st : cfg_ok c -> WF c st -> st <> [] ->
  exists lo hi, get_bounds fixed_code st = Some (lo, hi) /\
    In lo (map e_key st) /\ In hi (map e_key st) /\ forall e, In e st -> lo <= e_key e <= hi.
Proof.
  intros Hc Hwf Hne.
  destruct (first_sample_spec c st Hc Hwf Hne) as (lo & E1 & Hlo & Hmin).
  destruct (last_sample_spec c st Hc Hwf Hne) as (hi & E2 & Hhi & Hmax).
  exists lo, hi. unfold get_bounds. cbn [v_gsort fixed_code]. rewrite E1, E2.
  split; [reflexivity|]. split; [exact Hlo|]. split; [exact Hhi|].
  intros e He. split; [apply Hmin, He|apply Hmax, He].
Qed.

Lemma get_bounds_empty va : get_bounds va [] = None.
Proof. reflexivity. Qed.

(* ------------------------------------------------------------------ forward fill *)
Lemma ffill_scan_eq c st sb s0 l : WF c st ->
  ffill_scan st (rev l) sb s0 true =
  match rev (flat_map (block st sb s0) l) with x :: _ => [x] | [] => [] end.
Proof.
  intros Hwf. induction l as [|p l IH] using rev_ind; [reflexivity|].
  rewrite rev_app_distr. cbn [rev app ffill_scan].
  rewrite add_metadata_edge.
  rewrite fold_od_sorted by (cbn; apply (block_sorted c), Hwf). cbn [app].
  rewrite flat_map_app. cbn [flat_map]. rewrite app_nil_r, rev_app_distr.
  destruct (rev (block st sb s0 p)) as [|x xs]; [exact IH|reflexivity].
Qed.

(* ------------------------------------------------------------------ read, on a well-formed store *)
Lemma no_members_nil {A} (l : list A) : (forall x, ~ In x l) -> l = [].
Proof. destruct l as [|a l]; [reflexivity|]. intros H. exfalso. apply (H a). left; reflexivity. Qed.

Lemma read_plain_eq c st s0 s1 : cfg_ok c -> WF c st -> s0 <= s1 ->
  read fixed_code c st (Some s0) (Some s1) false =
  ROk (flat_map (block st s0 s1) (file_list Exact c st s0 s1)).
Proof.
  intros Hc Hwf Hle. unfold read. cbn [v_arith fixed_code].
  destruct (Z.ltb_spec s1 s0); [lia|].
  rewrite read_range_eq; [reflexivity|exact Hc|exact Hwf|]. cbn [app]. apply blocks_sorted; assumption.
Qed.

Definition is_latest_le (sp : list sample) (s0 : Z) (z : sample) : Prop :=
  fst z <= s0 /\ forall y, In y sp -> fst y <= s0 -> fst y <= fst z.

Lemma read_ffill_spec c st s0 s1 : cfg_ok c -> WF c st -> st <> [] -> s0 <= s1 ->
  exists r, read fixed_code c st (Some s0) (Some s1) true = ROk r /\
    StronglySorted key_lt r /\
    forall z, In z r <->
      (In z (map e_kv st) /\ (s0 < fst z <= s1 \/ is_latest_le (map e_kv st) s0 z)).
Proof.
  intros Hc Hwf Hne Hle.
  destruct (get_bounds_spec c st Hc Hwf Hne) as (lo & hi & Eb & Hlo & Hhi & Hb).
  unfold read. cbn [v_arith v_ffedge fixed_code].
  destruct (Z.ltb_spec s1 s0); [lia|]. rewrite Eb.
  rewrite (ffill_scan_eq c) by exact Hwf.
  set (Rf := flat_map (block st lo s0) (file_list Exact c st lo s0)).
  set (R' := flat_map (block st (s0 + 1) s1) (file_list Exact c st (s0 + 1) s1)).
  assert (HRf_s : StronglySorted key_lt Rf) by (apply blocks_sorted; assumption).
  assert (HR'_s : StronglySorted key_lt R') by (apply blocks_sorted; assumption).
  assert (HRf_in : forall x, In x Rf <-> In x (map e_kv st) /\ fst x <= s0).
  { intros x. unfold Rf. rewrite blocks_in by assumption. split; [intros (H1 & H2); split; [exact H1|lia]|].
    intros (H1 & H2). split; [exact H1|]. split; [|exact H2].
    apply in_map_iff in H1. destruct H1 as (e & E & He). rewrite <- E, e_kv_key. apply Hb, He. }
  assert (HR'_in : forall x, In x R' <-> In x (map e_kv st) /\ s0 + 1 <= fst x <= s1).
  { intros x. unfold R'. apply blocks_in; assumption. }
  set (acc := match rev Rf with x :: _ => [x] | [] => [] end).
  assert (Hacc : forall z, In z acc <-> In z (map e_kv st) /\ is_latest_le (map e_kv st) s0 z).
  { intros z. unfold acc. destruct (rev Rf) as [|x xs] eqn:Er.
    - split; [intros []|]. intros (Hz & Hz0 & _).
      assert (In z Rf) by (apply HRf_in; auto).
      apply in_rev in H0. rewrite Er in H0. contradiction.
    - assert (Hx : In x Rf) by (apply in_rev; rewrite Er; left; reflexivity).
      pose proof (sorted_rev_head key_lt Rf x xs HRf_s Er) as Hmax.
      split.
      + intros [<-|[]]. apply HRf_in in Hx. destruct Hx as [Hx1 Hx2].
        split; [exact Hx1|]. split; [exact Hx2|].
        intros y Hy Hy0. assert (Hyr : In y (rev Rf)) by (apply -> in_rev; apply HRf_in; auto).
        rewrite Er in Hyr. destruct Hyr as [<-|Hyr]; [lia|]. specialize (Hmax y Hyr). unfold key_lt in Hmax. lia.
      + intros (Hz & Hz0 & Hzmax). left.
        assert (Hzr : In z (rev Rf)) by (apply -> in_rev; apply HRf_in; auto).
        rewrite Er in Hzr. destruct Hzr as [E|Hzr]; [exact E|]. exfalso.
        specialize (Hmax z Hzr). unfold key_lt in Hmax.
        apply HRf_in in Hx. destruct Hx as [Hx1 Hx2]. specialize (Hzmax x Hx1 Hx2). lia. }
  assert (Hs : StronglySorted key_lt (acc ++ R')).
  { apply app_sorted; [|exact HR'_s|].
    - unfold acc. destruct (rev Rf); repeat constructor.
    - intros a b Ha Hb'. apply Hacc in Ha. destruct Ha as (_ & Ha & _).
      apply HR'_in in Hb'. unfold key_lt. lia. }
  exists (acc ++ R'). split; [|split; [exact Hs|]].
  - f_equal. apply read_range_eq; assumption.
  - intros z. rewrite in_app_iff, Hacc, HR'_in. split.
    + intros [(H1 & H2)|(H1 & H2)]; (split; [exact H1|]); [right; exact H2|left; lia].
    + intros (H1 & [H2|H2]); [right; split; [exact H1|lia]|left; auto].
Qed.

Lemma sp_nodup c st : WF c st -> NoDup (map fst (map e_kv st)).
Proof. intros [_ Hn]. rewrite map_fst_kv. exact Hn. Qed.

Lemma nodup_fst_inj (sp : list sample) x y : NoDup (map fst sp) -> In x sp -> In y sp -> fst x = fst y -> x = y.
Proof.
  induction sp as [|a sp IH]; cbn; intros Hn Hx Hy E; [contradiction|].
  inversion Hn as [|? ? Hnot Hn']; subst.
  destruct Hx as [<-|Hx], Hy as [<-|Hy]; [reflexivity| | |apply IH; assumption].
  - exfalso. apply Hnot. rewrite E. apply in_map, Hy.
  - exfalso. apply Hnot. rewrite <- E. apply in_map, Hx.
Qed.

Lemma read_latest_spec c st : cfg_ok c -> WF c st -> st <> [] ->
  exists z, read_latest fixed_code c st = ROk [z] /\ In z (map e_kv st) /\
    forall y, In y (map e_kv st) -> fst y <= fst z.
Proof.
  intros Hc Hwf Hne.
  destruct (get_bounds_spec c st Hc Hwf Hne) as (lo & hi & Eb & Hlo & Hhi & Hb).
  unfold read_latest. rewrite Eb.
  change (read fixed_code c st (Some hi) None true) with (read fixed_code c st (Some hi) (Some hi) true).
  destruct (read_ffill_spec c st hi hi Hc Hwf Hne (Z.le_refl hi)) as (r & Er & Hs & Hin).
  rewrite Er.
  apply in_map_iff in Hhi. destruct Hhi as (e & Ek & He).
  assert (Hz : In (e_kv e) (map e_kv st)) by (apply in_map, He).
  assert (Hzmax : forall y, In y (map e_kv st) -> fst y <= fst (e_kv e)).
  { intros y Hy. apply in_map_iff in Hy. destruct Hy as (e' & E' & He'). rewrite <- E', !e_kv_key, Ek. apply Hb, He'. }
  exists (e_kv e). split; [|split; [exact Hz|exact Hzmax]].
  f_equal. apply (sorted_singleton key_lt).
  - intros a. unfold key_lt. lia.
  - exact Hs.
  - intros y. rewrite Hin. split.
    + intros (Hy & [H|(H1 & H2)]); [lia|].
      apply (nodup_fst_inj (map e_kv st)); [apply (sp_nodup c), Hwf|exact Hy|exact Hz|].
      specialize (H2 _ Hz). specialize (Hzmax _ Hy).
      rewrite e_kv_key in *. rewrite Ek in *. lia.
    + intros ->. split; [exact Hz|]. right. split; [rewrite e_kv_key, Ek; lia|].
      intros y Hy _. apply Hzmax, Hy.
Qed.

(* ------------------------------------------------------------------ the C12 statements, over write histories *)
Lemma spec_nonempty c h : hist_ok h -> (spec_of h <> [] <-> run_writes Exact c h <> []).
Proof.
  intros Hh. destruct (run_writes_sim c h Hh) as [_ E]. rewrite <- E.
  destruct (run_writes Exact c h); cbn; split; intros H; try contradiction; discriminate.
Qed.

Theorem md_roundtrip c h k v s0 s1 : cfg_ok c -> hist_ok h ->
  In (k, v) (spec_of h) -> s0 <= k <= s1 ->
  exists r, read fixed_code c (run_writes Exact c h) (Some s0) (Some s1) false = ROk r /\ In (k, v) r.
Proof.
  intros Hc Hh Hin Hr. destruct (run_writes_sim c h Hh) as [Hwf E].
  eexists. split; [apply read_plain_eq; [exact Hc|exact Hwf|lia]|].
  apply blocks_in; [exact Hc|exact Hwf|]. rewrite E. split; [exact Hin|exact Hr].
Qed.

Theorem md_nothing_else c h k v s0 s1 r : cfg_ok c -> hist_ok h ->
  read fixed_code c (run_writes Exact c h) (Some s0) (Some s1) false = ROk r -> In (k, v) r ->
  In (k, v) (spec_of h) /\ s0 <= k <= s1.
Proof.
  intros Hc Hh Er Hin. destruct (run_writes_sim c h Hh) as [Hwf E].
  destruct (Z.le_gt_cases s0 s1) as [Hle|Hgt].
  - rewrite read_plain_eq in Er by assumption. inversion Er; subst r.
    apply blocks_in in Hin; [|exact Hc|exact Hwf]. rewrite E in Hin. exact Hin.
  - unfold read in Er. destruct (Z.ltb_spec s1 s0); [discriminate|lia].
Qed.

Theorem md_ascending c h s0 s1 ff r : cfg_ok c -> hist_ok h ->
  read fixed_code c (run_writes Exact c h) (Some s0) (Some s1) ff = ROk r -> StronglySorted key_lt r.
Proof.
  intros Hc Hh Er. destruct (run_writes_sim c h Hh) as [Hwf E].
  destruct (Z.le_gt_cases s0 s1) as [Hle|Hgt].
  2:{ unfold read in Er. destruct (Z.ltb_spec s1 s0); [discriminate|lia]. }
  destruct ff.
  - destruct (run_writes Exact c h) as [|e0 st0] eqn:Est.
    + unfold read in Er. destruct (Z.ltb_spec s1 s0); [lia|]. cbn in Er. discriminate.
    + rewrite <- Est in *.
      destruct (read_ffill_spec c _ s0 s1 Hc Hwf ltac:(rewrite Est; discriminate) Hle) as (r' & Er' & Hs & _).
      rewrite Er in Er'. inversion Er'; subst. exact Hs.
  - rewrite read_plain_eq in Er by assumption. inversion Er; subst r. apply blocks_sorted; assumption.
Qed.

Theorem md_bounds c h : cfg_ok c -> hist_ok h ->
  (spec_of h = [] -> get_bounds fixed_code (run_writes Exact c h) = None) /\
  (spec_of h <> [] -> exists lo hi,
     get_bounds fixed_code (run_writes Exact c h) = Some (lo, hi) /\
     In lo (map fst (spec_of h)) /\ In hi (map fst (spec_of h)) /\
     forall k v, In (k, v) (spec_of h) -> lo <= k <= hi).
Proof.
  intros Hc Hh. destruct (run_writes_sim c h Hh) as [Hwf E]. split.
  - intros Hnil. rewrite <- E in Hnil. destruct (run_writes Exact c h); [reflexivity|discriminate].
  - intros Hne. apply (spec_nonempty c h Hh) in Hne.
    destruct (get_bounds_spec c _ Hc Hwf Hne) as (lo & hi & Eb & Hlo & Hhi & Hb).
    exists lo, hi. rewrite <- E, map_fst_kv. split; [exact Eb|]. split; [exact Hlo|]. split; [exact Hhi|].
    intros k v Hin. apply in_map_iff in Hin. destruct Hin as (e & Ee & He).
    specialize (Hb e He). rewrite <- e_kv_key, Ee in Hb. exact Hb.
Qed.

Theorem md_ffill c h s0 s1 : cfg_ok c -> hist_ok h -> spec_of h <> [] -> s0 <= s1 ->
  exists r, read fixed_code c (run_writes Exact c h) (Some s0) (Some s1) true = ROk r /\
    forall z, In z r <->
      (In z (spec_of h) /\ (s0 < fst z <= s1 \/ is_latest_le (spec_of h) s0 z)).
Proof.
  intros Hc Hh Hne Hle. destruct (run_writes_sim c h Hh) as [Hwf E].
  apply (spec_nonempty c h Hh) in Hne.
  destruct (read_ffill_spec c _ s0 s1 Hc Hwf Hne Hle) as (r & Er & _ & Hin).
  exists r. split; [exact Er|]. rewrite <- E. exact Hin.
Qed.

Theorem md_latest c h : cfg_ok c -> hist_ok h -> spec_of h <> [] ->
  exists z, read_latest fixed_code c (run_writes Exact c h) = ROk [z] /\ In z (spec_of h) /\
    forall y, In y (spec_of h) -> fst y <= fst z.
Proof.
  intros Hc Hh Hne. destruct (run_writes_sim c h Hh) as [Hwf E].
  apply (spec_nonempty c h Hh) in Hne. rewrite <- E. apply read_latest_spec; assumption.
Qed.

(* a write of an index that already exists is refused and changes nothing; each index is stored once *)
Theorem md_duplicate_refused_unchanged c h k v v' : cfg_ok c -> hist_ok h -> 0 <= k ->
  In (k, v) (spec_of h) ->
  write_call Exact c (run_writes Exact c h) [(k, v')] = (run_writes Exact c h, false) /\
  spec_of (h ++ [[(k, v')]]) = spec_of h /\
  NoDup (map fst (spec_of h)).
Proof.
  intros Hc Hh Hk Hin. destruct (run_writes_sim c h Hh) as [Hwf E].
  assert (Hhas : has_key k (spec_of h) = true).
  { apply has_key_in. change k with (fst (k, v)). apply in_map, Hin. }
  split; [|split].
  - cbn [write_call]. pose proof (write_one_wf c _ k v' Hwf Hk) as H.
    destruct (write_one Exact c (run_writes Exact c h) k v'); [|reflexivity].
    destruct H as (H & _). rewrite E in H. congruence.
  - unfold spec_of. rewrite fold_left_app. cbn [fold_left spec_call].
    fold (spec_of h). rewrite Hhas. reflexivity.
  - rewrite <- E. apply (sp_nodup c), Hwf.
Qed.

(* the write call reports refusal exactly when the Spec does (any batch) *)
Theorem md_refusal_iff_duplicate c h l : cfg_ok c -> hist_ok h -> (forall x, In x l -> 0 <= fst x) ->
  snd (write_call Exact c (run_writes Exact c h) l) = snd (spec_call (spec_of h) l).
Proof.
  intros Hc Hh Hl. destruct (run_writes_sim c h Hh) as [Hwf E].
  rewrite <- E. apply write_call_sim; assumption.
Qed.

(* ------------------------------------------------------------------ non-vacuity and the pre-fix variants *)
Definition ex_cfg : cfg := mkCfg 200 3 3 3600.
Definition ex_hist : list (list sample) :=
  [[(100000000001, 1)]; [(100000000003, 2); (100000000005, 3); (100000000400, 4)]; [(100000000003, 9)];
   [(99999999999, 5)]].

Example ex_ok : cfg_ok ex_cfg /\ hist_ok ex_hist /\
  spec_of ex_hist = [(100000000001, 1); (100000000003, 2); (100000000005, 3); (100000000400, 4); (99999999999, 5)] /\
  read fixed_code ex_cfg (run_writes Exact ex_cfg ex_hist) (Some 100000000002) (Some 100000000400) true =
    ROk [(100000000001, 1); (100000000003, 2); (100000000005, 3); (100000000400, 4)] /\
  get_bounds fixed_code (run_writes Exact ex_cfg ex_hist) = Some (99999999999, 100000000400).
Proof.
  split; [unfold cfg_ok; cbn; lia|]. split.
  - intros l x Hl Hx. cbn in Hl.
    repeat (destruct Hl as [<-|Hl]; [cbn in Hx; repeat (destruct Hx as [<-|Hx]; [cbn; lia|]); contradiction|]).
    contradiction.
  - vm_compute. repeat split.
Qed.

Definition T0 : Z := 1500000000.
Definition wf_cfg : cfg := mkCfg 1 1 3600 3600.

(* is_edge=False in the forward-fill pass: the LAST sample of the file is returned although it is
   later than the start of the range *)
Lemma ffill_wholefile_refuted :
  exists c h s0 s1 r, cfg_ok c /\ hist_ok h /\ s0 <= s1 /\
    read (mkVar Exact IntSort WholeFile) c (run_writes Exact c h) (Some s0) (Some s1) true = ROk r /\
    ~ (forall z, In z r -> In z (spec_of h) /\ (s0 < fst z <= s1 \/ is_latest_le (spec_of h) s0 z)).
Proof.
  exists wf_cfg, [[(T0 + 1, 1); (T0 + 3, 3); (T0 + 5, 5)]], (T0 + 2), (T0 + 4).
  eexists. split; [unfold cfg_ok; cbn; lia|]. split.
  { intros l x [<-|[]] Hx. cbn in Hx. repeat (destruct Hx as [<-|Hx]; [cbn; lia|]). contradiction. }
  split; [unfold T0; lia|]. split; [vm_compute; reflexivity|].
  intros H. specialize (H (T0 + 5, 5) (or_introl eq_refl)). destruct H as [_ [H|[H _]]]; cbn in H; unfold T0 in H; lia.
Qed.

(* group names ordered as strings: wrong bounds when a file holds indices of different lengths *)
Lemma bounds_strsort_refuted :
  exists c h lo hi, cfg_ok c /\ hist_ok h /\
    get_bounds (mkVar Exact StrSort Clipped) (run_writes Exact c h) = Some (lo, hi) /\
    ~ (forall k v, In (k, v) (spec_of h) -> lo <= k <= hi).
Proof.
  exists wf_cfg, [[(5, 1); (9, 2); (10, 3); (11, 4)]], 10, 9.
  split; [unfold cfg_ok; cbn; lia|]. split.
  { intros l x [<-|[]] Hx. cbn in Hx. repeat (destruct Hx as [<-|Hx]; [cbn; lia|]). contradiction. }
  split; [vm_compute; reflexivity|].
  intros H. specialize (H 5 1 (or_introl eq_refl)). lia.
Qed.
