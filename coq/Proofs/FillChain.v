(* C07: from the numpy type a writer is created with to the bytes HDF5 stores for a never-written
   slot, through two tables regenerated from the source: the extension's get_hdf5_data_type (T4) and
   the C library's digital_rf_set_fill_value (T5). *)
From Coq Require Import ZArith List Bool String.
From DRF Require Import Model.FillValue Model.Dtype Gen.DtypeTable Gen.FillTable Proofs.DtypeProofs Proofs.FillTableProofs.
Import ListNotations.
Local Open Scope Z_scope.

Theorem requested_type_to_stored_fill : forall k sz be cx,
  In (k, sz) [(KI, 1); (KI, 2); (KI, 4); (KI, 8); (KU, 1); (KU, 2); (KU, 4); (KU, 8); (KF, 4); (KF, 8)] ->
  exists name k' sz' be' img,
    get_hdf5_data_type (byteorder_char (mkNp k sz be)) (kind_char (mkNp k sz be)) sz = Some name /\
    h5_predef name = Some (k', sz', be') /\ k' = k /\ sz' = sz /\ (sz = 1 \/ be' = be) /\
    table_lookup (mkCell k' sz' be' cx) = Some (0, [(cx, img)]) /\
    Z.of_nat (List.length img) = (if cx then 2 * sz' else sz') /\
    forallb (fun comp => is_missing (mkCell k' sz' be' cx) (raw_value (mkCell k' sz' be' cx) comp))
            (components (mkCell k' sz' be' cx) img) = true.
Proof.
  intros k sz be cx H.
  destruct (dtype_table_faithful k sz be H) as (name & k' & sz' & be' & Hg & Hp & Hk & Hs & Ho).
  subst k' sz'.
  destruct (regenerated_fill_decodes_to_missing k sz be' cx H) as (img & Hl & Hn & Hm).
  exists name, k, sz, be', img. repeat split; assumption.
Qed.
