(* T20: facts about DigitalRFMirrorHandler.mirror_to_dest as regenerated from mirror.py (Gen/MirrorDestGen.v), for
   EVERY outcome of the primitives it calls, and the tie to the hand model's mirror_plan (Model/Mirror.v). *)
From Coq Require Import ZArith List Bool Lia.
From DRF Require Import Model.Ringbuffer Model.Mirror Model.MirrorDestBase Gen.MirrorDestGen.
Import ListNotations.

(* ---- staged publication: a rename to the final name directly follows a COMPLETED staging call *)
Definition is_publish (a : mact) : bool := match a with APublish _ => true | _ => false end.
Definition staged_ok (a : mact) : bool := match a with AStage true => true | _ => false end.
(* prev = the action before the head of l was a completed staging call *)
Fixpoint publish_after_stage (prev : bool) (l : list mact) : bool :=
  match l with
  | [] => true
  | a :: r => (if is_publish a then prev else true) && publish_after_stage (staged_ok a) r
  end.

Definition is_publish_ok (a : mact) : bool := match a with APublish true => true | _ => false end.
Definition is_stage (a : mact) : bool := match a with AStage _ => true | _ => false end.

Ltac all_prims pr :=
  destruct pr as [de mk ex cmp stg ren isf];
  destruct de, mk, ex, cmp as [[|]|], stg, ren, isf.

Lemma staged_publication_b : forall pr, publish_after_stage false (gen_mirror_to_dest pr) = true.
Proof. intros pr. all_prims pr; reflexivity. Qed.

(* the declarative reading of the checker *)
Lemma publish_after_stage_spec : forall l1 l prev ok l2,
  publish_after_stage prev l = true -> l = l1 ++ APublish ok :: l2 ->
  (l1 = [] /\ prev = true) \/ exists l0, l1 = l0 ++ [AStage true].
Proof.
  induction l1 as [|b l1 IH]; intros l prev ok l2 H E; subst l.
  - left. split; [reflexivity|]. cbn in H. apply andb_prop in H. destruct H as [H _]. exact H.
  - right. cbn [app publish_after_stage] in H. apply andb_prop in H. destruct H as [_ H].
    destruct (IH _ _ ok l2 H eq_refl) as [[E1 E2]|[l0 E0]].
    + subst l1. exists []. cbn [app]. destruct b as [ok0|ok0|ok0| |]; cbn in E2; try discriminate. destruct ok0; [reflexivity|discriminate].
    + exists (b :: l0). cbn [app]. rewrite E0. reflexivity.
Qed.

Theorem staged_publication : forall pr l1 ok l2,
  gen_mirror_to_dest pr = l1 ++ APublish ok :: l2 -> exists l0, l1 = l0 ++ [AStage true].
Proof.
  intros pr l1 ok l2 E.
  destruct (publish_after_stage_spec l1 _ false ok l2 (staged_publication_b pr) E) as [[_ F]|X]; [discriminate|exact X].
Qed.

(* ---- one staging and one publication at most; the source directory clean-up is always attempted, last *)
Lemma at_most_one_publish : forall pr, (length (filter is_publish (gen_mirror_to_dest pr)) <= 1)%nat.
Proof. intros pr. all_prims pr; cbn; lia. Qed.
Lemma at_most_one_stage : forall pr, (length (filter is_stage (gen_mirror_to_dest pr)) <= 1)%nat.
Proof. intros pr. all_prims pr; cbn; lia. Qed.
Lemma cleanup_is_last : forall pr, exists l, gen_mirror_to_dest pr = l ++ [ARmdirSrc].
Proof. intros pr. unfold gen_mirror_to_dest. eexists. rewrite app_assoc. reflexivity. Qed.

(* ---- exactly when the file is published *)
Definition needs_mirroring (pr : mprims) : bool :=
  negb (p_dest_exists pr) || match p_cmp pr with Some false => true | _ => false end.
Theorem published_iff : forall pr,
  existsb is_publish_ok (gen_mirror_to_dest pr) =
  (p_dest_dir_exists pr || p_makedirs_ok pr) && needs_mirroring pr && p_stage_ok pr && p_rename_ok pr.
Proof. intros pr. all_prims pr; reflexivity. Qed.

(* an up-to-date destination is left alone: nothing is staged, nothing renamed *)
Theorem equal_destination_untouched : forall pr,
  p_dest_exists pr = true -> p_cmp pr = Some true ->
  existsb is_stage (gen_mirror_to_dest pr) = false /\ existsb is_publish (gen_mirror_to_dest pr) = false.
Proof. intros pr H1 H2. all_prims pr; try discriminate; split; reflexivity. Qed.

(* a vanished source is not reported; any other failure is *)
Definition is_report (a : mact) : bool := match a with AReport => true | _ => false end.
Theorem failure_reported_iff_source_still_there : forall pr,
  snd (gen_try_body pr) = false -> existsb is_report (gen_mirror_to_dest pr) = p_src_isfile pr.
Proof. intros pr H. all_prims pr; cbn in H; try discriminate; reflexivity. Qed.

(* ---- the hand model's plan, read as outcomes of the primitives *)
Definition is_some {A} (o : option A) : bool := match o with Some _ => true | None => false end.
Definition prims_of (s : mst) (p : path) (dir_exists : bool) : mprims :=
  mkPr dir_exists true
       (is_some (dget (Fin p) (dst s)))
       (match rget p (src s), dget (Fin p) (dst s) with
        | Some c, Some d => Some ((dc d =? c)%Z && dok d)
        | _, _ => None
        end)
       (is_some (rget p (src s))) true (is_some (rget p (src s))).

Definition is_final_rename (f : fop) : bool := match f with FRename _ _ => true | _ => false end.

Lemma stage_has_no_rename : forall mc m s p, existsb is_final_rename (stage mc m s p) = false.
Proof.
  intros mc m s p. unfold stage.
  destruct m; [reflexivity| |].
  - destruct (m_same_fs mc); reflexivity.
  - destruct (dir_mem (dir_of p) (nolink s)); [reflexivity|]. destruct (m_linkable mc); reflexivity.
Qed.

(* the model publishes exactly when the regenerated code does, given the model's reading of the primitives *)
Theorem mirror_plan_publishes_as_the_code : forall mc m s p dir_exists,
  existsb is_final_rename (mirror_plan mc m s p) =
  existsb is_publish_ok (gen_mirror_to_dest (prims_of s p dir_exists)).
Proof.
  intros mc m s p de. rewrite published_iff. unfold mirror_plan, prims_of, needs_mirroring, up_to_date.
  cbn [p_dest_dir_exists p_makedirs_ok p_dest_exists p_cmp p_stage_ok p_rename_ok].
  destruct (rget p (src s)) as [c|].
  - destruct (dget (Fin p) (dst s)) as [d|]; cbn [is_some negb orb andb].
    + destruct ((dc d =? c)%Z && dok d).
      * destruct de; reflexivity.
      * rewrite existsb_app, stage_has_no_rename. destruct de; reflexivity.
    + rewrite existsb_app, stage_has_no_rename. destruct de; reflexivity.
  - cbn [is_some]. rewrite !andb_false_r.
    destruct m; try reflexivity.
    destruct (dget (Fin p) (dst s)); [reflexivity|].
    destruct (dir_mem (dir_of p) (nolink s)); reflexivity.
Qed.

(* in a fault-free run (makedirs and rename succeed, files vanish at most) the mirror prints no traceback *)
Theorem no_traceback_without_faults : forall s p dir_exists,
  existsb is_report (gen_mirror_to_dest (prims_of s p dir_exists)) = false.
Proof.
  intros s p de. unfold prims_of.
  destruct (rget p (src s)) as [c|]; destruct (dget (Fin p) (dst s)) as [d|]; cbn [is_some];
    try destruct ((dc d =? c)%Z && dok d); destruct de; reflexivity.
Qed.

Example publishes_somewhere :
  gen_mirror_to_dest (mkPr false true false None true true true) = [AMakedirs true; AStage true; APublish true; ARmdirSrc]
  /\ gen_mirror_to_dest (mkPr true true true (Some true) true true true) = [ARmdirSrc]
  /\ gen_mirror_to_dest (mkPr true true true None false true false) = [ARmdirSrc]
  /\ gen_mirror_to_dest (mkPr true true false None true false true) = [AStage true; APublish false; AReport; ARmdirSrc].
Proof. repeat split. Qed.
