(* Proofs/WriterFaultProofs.v -- the writer of Model/WriterProto.v under an arbitrary fault oracle
   (C10): has_failure and the ghost flag "a fault hit an unexamined operation" only grow; a set
   has_failure refuses everything; files finalized earlier are never touched again. *)
From Coq Require Import ZArith List Bool Lia.
From DRF Require Import Base.Fs Model.WriterProto Proofs.ProtoSafety Proofs.WriterProtoProofs.
Import ListNotations.
Local Open Scope Z_scope.

Lemma issue_fs F o w : w_fs (fst (issue F o w)) = fst (exec F (S (w_n w)) o (w_fs w)).
Proof. Transparent issue. reflexivity. Opaque issue. Qed.
Lemma issue_res F o w : snd (issue F o w) = snd (exec F (S (w_n w)) o (w_fs w)).
Proof. Transparent issue. reflexivity. Opaque issue. Qed.

Lemma mark_hf v w : w_hf w = true -> w_hf (mark v w) = true.
Proof. unfold mark. destruct (v_close v); simpl; auto. Qed.
Lemma mark_ud v w : w_ud w = true -> w_ud (mark v w) = true.
Proof. unfold mark. destruct (v_close v); simpl; auto. Qed.
Lemma mark_fs v w : w_fs (mark v w) = w_fs w.
Proof. unfold mark. destruct (v_close v); reflexivity. Qed.
Lemma mark_name v w : w_name (mark v w) = w_name w.
Proof. unfold mark. destruct (v_close v); reflexivity. Qed.
Lemma mark_cur v w : w_cur (mark v w) = w_cur w.
Proof. unfold mark. destruct (v_close v); reflexivity. Qed.
Lemma mark_bad v w : w_hf (mark v w) = true \/ w_ud (mark v w) = true.
Proof. unfold mark. destruct (v_close v); simpl; auto. Qed.

(* ---------------------------------------------------------------- monotone flags *)
(* [Grows w w']: neither flag is ever reset *)
Definition Grows (w w' : W) : Prop :=
  (w_hf w = true -> w_hf w' = true) /\ (w_ud w = true -> w_ud w' = true).

Lemma grows_refl w : Grows w w. Proof. split; auto. Qed.
Lemma grows_trans a b c : Grows a b -> Grows b c -> Grows a c.
Proof. intros [H1 H2] [H3 H4]. split; auto. Qed.
Lemma grows_issue F o w : Grows w (fst (issue F o w)).
Proof. split; auto. Qed.
Lemma grows_mark v w : Grows w (mark v w).
Proof. split; [apply mark_hf | apply mark_ud]. Qed.
Lemma grows_set_hf w : Grows w (set_hf true w). Proof. split; auto. Qed.
Lemma grows_set_ud w : Grows w (set_ud true w). Proof. split; auto. Qed.
Lemma grows_set_cur x w : Grows w (set_cur x w). Proof. split; auto. Qed.
Lemma grows_set_name x w : Grows w (set_name x w). Proof. split; auto. Qed.

Ltac gtrans :=
  repeat first [ apply grows_refl | eapply grows_trans; [ | first [apply grows_set_hf | apply grows_set_ud
                 | apply grows_set_cur | apply grows_set_name | apply grows_mark ] ] | apply grows_issue ].

Lemma grows_do_lows F p l : forall w w' st, do_lows F p l w = (w', st) -> Grows w w'.
Proof.
  induction l as [|[kd ph] l IH]; simpl; intros w w' st H.
  - inversion H; subst. apply grows_refl.
  - rewrite (surjective_pairing (issue F (low_op kd p) w)) in H.
    destruct (res_ok (snd (issue F (low_op kd p) w))).
    + eapply grows_trans; [apply grows_issue | eapply IH; eauto].
    + destruct ph; try (inversion H; subst; gtrans; fail).
      eapply grows_trans; [|eapply IH; eauto]. gtrans.
Qed.

Lemma grows_close_lows F v p l : forall w, Grows w (close_lows F v p l w).
Proof.
  induction l as [|kd l IH]; simpl; intros w.
  - apply grows_refl.
  - rewrite (surjective_pairing (issue F (low_op kd p) w)).
    eapply grows_trans; [|apply IH].
    destruct (res_ok _); gtrans.
Qed.

Lemma grows_close_handles F v w : Grows w (close_handles F v w).
Proof.
  unfold close_handles. destruct (w_cur w) as [o|]; [|apply grows_refl].
  destruct (w_name w) as [[d k]|]; [|apply grows_refl].
  rewrite (surjective_pairing (issue F _ _)).
  eapply grows_trans; [apply grows_close_lows|].
  destruct (res_ok _); gtrans.
Qed.

Lemma grows_publish F v w : Grows w (publish F v w).
Proof.
  unfold publish. destruct (w_name w) as [[d k]|]; [|apply grows_refl].
  destruct (exists_at _ _); [|apply grows_refl].
  destruct (w_hf w); [apply grows_issue|].
  rewrite (surjective_pairing (issue F _ _)). destruct (res_ok _); gtrans.
Qed.

Lemma grows_part F v fp w w' st : part F v fp w = (w', st) -> Grows w w'.
Proof.
  unfold part. destruct (same_name _ _ _).
  - destruct (w_cur w); intros H.
    + eapply grows_trans; [|eapply grows_do_lows; eauto]. gtrans.
    + inversion H; subst. gtrans.
  - set (w1 := match w_cur w with Some _ => publish F v (close_handles F v w) | None => w end).
    assert (G1 : Grows w w1).
    { unfold w1. destruct (w_cur w); [|apply grows_refl].
      eapply grows_trans; [apply grows_close_handles | apply grows_publish]. }
    destruct (w_hf w1); [intros H; inversion H; subst; exact G1|].
    rewrite (surjective_pairing (issue F (Mkdir _) w1)).
    destruct (mkdir_failed _); [intros H; inversion H; subst; eapply grows_trans; [exact G1|gtrans]|].
    destruct (exists_at _ _); [intros H; inversion H; subst; eapply grows_trans; [exact G1|gtrans]|].
    rewrite (surjective_pairing (issue F (Probe _) _)).
    destruct (res_ok _); [intros H; inversion H; subst; eapply grows_trans; [exact G1|gtrans]|].
    rewrite (surjective_pairing (issue F (CreateExcl _) _)).
    destruct (res_ok _); intros H.
    + eapply grows_trans; [exact G1|]. eapply grows_trans; [|eapply grows_do_lows; eauto]. gtrans.
    + inversion H; subst. eapply grows_trans; [exact G1|gtrans].
Qed.

Lemma grows_parts F v l : forall w w' st, parts F v l w = (w', st) -> Grows w w'.
Proof.
  induction l as [|fp l IH]; simpl; intros w w' st H.
  - inversion H; subst. apply grows_refl.
  - destruct (part F v fp w) as [w1 st1] eqn:E. apply grows_part in E.
    destruct st1; [eapply grows_trans; eauto | inversion H; subst; auto].
Qed.

Lemma grows_call F v l w w' ok : call F v l w = (w', ok) -> Grows w w'.
Proof.
  unfold call. destruct (w_hf w); [intros H; inversion H; subst; apply grows_refl|].
  destruct (parts F v l w) as [w1 st] eqn:E. intros H; inversion H; subst. eapply grows_parts; eauto.
Qed.

Lemma grows_calls F v cs : forall w w' outs, calls F v cs w = (w', outs) -> Grows w w'.
Proof.
  induction cs as [|c cs IH]; simpl; intros w w' outs H.
  - inversion H; subst. apply grows_refl.
  - destruct (call F v c w) as [w1 ok] eqn:E. destruct (calls F v cs w1) as [w2 oks] eqn:E2.
    inversion H; subst. eapply grows_trans; [eapply grows_call; eauto | eapply IH; eauto].
Qed.

Lemma grows_close_call F v w : Grows w (close_call F v w).
Proof. eapply grows_trans; [apply grows_close_handles | apply grows_publish]. Qed.

(* ---------------------------------------------------------------- sticky failure *)
Lemma calls_refused F v cs w : w_hf w = true -> calls F v cs w = (w, map (fun _ => false) cs).
Proof.
  intros Hh. induction cs as [|c cs IH]; simpl; auto.
  unfold call. rewrite Hh, IH. reflexivity.
Qed.

Lemma calls_app F v cs1 : forall cs2 w,
  calls F v (cs1 ++ cs2) w =
  let '(w1, o1) := calls F v cs1 w in let '(w2, o2) := calls F v cs2 w1 in (w2, o1 ++ o2).
Proof.
  induction cs1 as [|c cs1 IH]; simpl; intros cs2 w.
  - destruct (calls F v cs2 w); reflexivity.
  - destruct (call F v c w) as [w1 ok]. rewrite IH.
    destruct (calls F v cs1 w1) as [w2 o1]. destruct (calls F v cs2 w2) as [w3 o2]. reflexivity.
Qed.

(* once has_failure is set, every later write call is refused and issues no operation *)
Lemma sticky_failure F v cs1 cs2 w w1 o1 :
  calls F v cs1 w = (w1, o1) -> w_hf w1 = true ->
  calls F v (cs1 ++ cs2) w = (w1, o1 ++ map (fun _ => false) cs2).
Proof. intros H Hh. rewrite calls_app, H, (calls_refused _ _ _ _ Hh). reflexivity. Qed.

(* a piece that completes leaves has_failure as it was: the flag is only set together with an abort *)
Lemma do_lows_go_hf F p l : forall w w', do_lows F p l w = (w', Go) -> w_hf w' = w_hf w.
Proof.
  induction l as [|[kd ph] l IH]; simpl; intros w w' H.
  - now inversion H.
  - rewrite (surjective_pairing (issue F (low_op kd p) w)) in H.
    destruct (res_ok _); [apply IH in H; rewrite H; reflexivity|].
    destruct ph; try discriminate. apply IH in H. rewrite H. reflexivity.
Qed.

Lemma part_go_hf F v fp w w' : part F v fp w = (w', Go) -> w_hf w = false -> w_hf w' = false.
Proof.
  unfold part. destruct (same_name _ _ _).
  - destruct (w_cur w); [|discriminate]. intros H Hh. apply do_lows_go_hf in H. now rewrite H.
  - set (w1 := match w_cur w with Some _ => publish F v (close_handles F v w) | None => w end).
    destruct (w_hf w1) eqn:E1; [discriminate|].
    rewrite (surjective_pairing (issue F (Mkdir _) w1)).
    destruct (mkdir_failed _); [discriminate|].
    destruct (exists_at _ _); [discriminate|].
    rewrite (surjective_pairing (issue F (Probe _) _)).
    destruct (res_ok _); [discriminate|].
    rewrite (surjective_pairing (issue F (CreateExcl _) _)).
    destruct (res_ok _); [|discriminate].
    intros H _. apply do_lows_go_hf in H. rewrite H. simpl. rewrite !issue_hf. exact E1.
Qed.

Lemma parts_go_hf F v l : forall w w', parts F v l w = (w', Go) -> w_hf w = false -> w_hf w' = false.
Proof.
  induction l as [|fp l IH]; simpl; intros w w' H Hh.
  - inversion H; subst; auto.
  - destruct (part F v fp w) as [w1 st1] eqn:E. destruct st1; [|discriminate].
    eapply IH; eauto. eapply part_go_hf; eauto.
Qed.

(* a failure the code examines is reported by the very call during which it occurs *)
Lemma checked_fault_reported F v l w w' ok :
  call F v l w = (w', ok) -> w_hf w = false -> w_hf w' = true -> ok = false.
Proof.
  unfold call. intros H Hh Hh'. rewrite Hh in H.
  destruct (parts F v l w) as [w1 st] eqn:E. inversion H; subst.
  destruct st; auto. apply parts_go_hf in E; auto. congruence.
Qed.

(* ---------------------------------------------------------------- earlier files stay intact *)
Definition NoBoth (s : fs) : Prop :=
  forall d k, s (PData d true k) <> None -> s (PData d false k) = None.
Definition Keeps (s s' : fs) : Prop :=
  forall d k n, s (PData d false k) = Some n -> s' (PData d false k) = Some n.
Definition Safe (w w' : W) : Prop :=
  NoBoth (w_fs w) -> NoBoth (w_fs w') /\ Keeps (w_fs w) (w_fs w').

Lemma safe_refl w : Safe w w. Proof. intros H. split; auto. intros d k n E; exact E. Qed.
Lemma safe_trans a b c : Safe a b -> Safe b c -> Safe a c.
Proof.
  intros H1 H2 N. destruct (H1 N) as [N1 K1]. destruct (H2 N1) as [N2 K2]. split; auto.
  intros d k n E. apply K2, K1, E.
Qed.
Lemma safe_same_fs w w' : w_fs w' = w_fs w -> Safe w w'.
Proof. intros E N. rewrite E. split; auto. intros d k n H; exact H. Qed.

Lemma apply_fault_other o s p : op_target o <> p -> apply_fault o s p = s p.
Proof.
  intros H. destruct o; simpl in *; auto;
    match goal with |- context [s ?x] => destruct (s x) as [[|?]|] end; auto;
    apply upd_other; intros E; apply H; symmetry; exact E.
Qed.

Lemma exec_other F n o s p :
  op_target o <> p -> (forall q, o <> Rename p q) -> fst (exec F n o s) p = s p.
Proof.
  intros H1 H2. unfold exec. destruct (faulted F n); simpl.
  - now apply apply_fault_other.
  - now apply apply_other.
Qed.

(* operations that never create their target *)
Definition no_create (o : op) : bool :=
  match o with Write _ | Truncate _ | CloseFd _ _ | Unlink _ | Probe _ => true | _ => false end.

Lemma exec_no_create F n o s :
  no_create o = true -> s (op_target o) = None -> fst (exec F n o s) (op_target o) = None.
Proof.
  intros Hc Hn. unfold exec. destruct (faulted F n); destruct o; simpl in *; try discriminate;
    unfold is_file; rewrite ?Hn; simpl; auto.
Qed.

Lemma safe_issue_tmp F o w d k :
  no_create o = true -> op_target o = PData d true k -> Safe w (fst (issue F o w)).
Proof.
  intros Hc Ht N. rewrite issue_fs.
  assert (Hr : forall p q, o <> Rename p q) by (intros p q ->; discriminate).
  split.
  - intros d' k' Hx. rewrite exec_other by (try rewrite Ht; try discriminate; auto).
    apply N. intros Hn. apply Hx.
    destruct (path_eqb_spec (PData d' true k') (PData d true k)) as [E|E].
    + rewrite E in *. rewrite <- Ht in *. apply exec_no_create; auto.
    + rewrite exec_other; auto. rewrite Ht. intros E'. apply E. now rewrite E'.
  - intros d' k' n E. rewrite exec_other; auto. rewrite Ht. discriminate.
Qed.

Lemma low_op_no_create kd p : no_create (low_op kd p) = true /\ op_target (low_op kd p) = p.
Proof. destruct kd; split; reflexivity. Qed.

Lemma safe_low F kd d k w : Safe w (fst (issue F (low_op kd (PData d true k)) w)).
Proof. destruct (low_op_no_create kd (PData d true k)). eapply safe_issue_tmp; eauto. Qed.

Lemma safe_do_lows F d k l : forall w w' st, do_lows F (PData d true k) l w = (w', st) -> Safe w w'.
Proof.
  induction l as [|[kd ph] l IH]; simpl; intros w w' st H.
  - inversion H; subst. apply safe_refl.
  - rewrite (surjective_pairing (issue F (low_op kd _) w)) in H.
    pose proof (safe_low F kd d k w) as S1.
    destruct (res_ok _).
    + eapply safe_trans; [exact S1 | eapply IH; eauto].
    + destruct ph; try (inversion H; subst; eapply safe_trans; [exact S1 | apply safe_same_fs; reflexivity]; fail).
      eapply safe_trans; [exact S1|]. eapply safe_trans; [|eapply IH; eauto]. apply safe_same_fs; reflexivity.
Qed.

Lemma safe_close_lows F v d k l : forall w, Safe w (close_lows F v (PData d true k) l w).
Proof.
  induction l as [|kd l IH]; simpl; intros w.
  - apply safe_refl.
  - rewrite (surjective_pairing (issue F (low_op kd _) w)).
    eapply safe_trans; [apply (safe_low F kd d k w)|].
    eapply safe_trans; [|apply IH].
    destruct (res_ok _); apply safe_same_fs; [reflexivity | apply mark_fs].
Qed.

Lemma safe_close_handles F v w : Safe w (close_handles F v w).
Proof.
  unfold close_handles. destruct (w_cur w) as [o|]; [|apply safe_refl].
  destruct (w_name w) as [[d k]|]; [|apply safe_refl].
  rewrite (surjective_pairing (issue F _ _)).
  eapply safe_trans; [apply safe_close_lows|].
  eapply safe_trans; [eapply (safe_issue_tmp F (CloseFd (PData d true k) (of_tag o))); reflexivity|].
  destruct (res_ok _); apply safe_same_fs; simpl; [reflexivity | apply mark_fs].
Qed.

Lemma exists_at_true s p : exists_at s p = true -> s p <> None.
Proof. unfold exists_at. destruct (s p); [discriminate | discriminate]. Qed.

(* the rename to the final name happens only when that name is free *)
Lemma safe_rename F w d k :
  exists_at (w_fs w) (PData d true k) = true ->
  Safe w (fst (issue F (Rename (PData d true k) (PData d false k)) w)).
Proof.
  intros Hx N. apply exists_at_true in Hx. pose proof (N d k Hx) as Hf.
  rewrite issue_fs. unfold exec. destruct (faulted F _); simpl; [split; auto; intros ? ? ? E; exact E|].
  destruct (w_fs w (PData d true k)) as [[|c]|] eqn:Et; simpl; try (split; auto; intros ? ? ? E; exact E).
  split.
  - intros d' k' Hx'.
    destruct (path_eqb_spec (PData d' true k') (PData d true k)) as [E|E].
    + exfalso. apply Hx'. rewrite E, upd_other by discriminate. apply upd_same.
    + rewrite upd_other in Hx' by discriminate. rewrite upd_other in Hx' by exact E.
      destruct (path_eqb_spec (PData d' false k') (PData d false k)) as [E2|E2].
      * exfalso. apply E. inversion E2; reflexivity.
      * rewrite upd_other by exact E2. rewrite upd_other by discriminate. auto.
  - intros d' k' n E.
    destruct (path_eqb_spec (PData d' false k') (PData d false k)) as [E2|E2].
    + rewrite E2 in E. congruence.
    + rewrite upd_other by exact E2. rewrite upd_other by discriminate. exact E.
Qed.

Lemma safe_publish F v w : Safe w (publish F v w).
Proof.
  unfold publish. destruct (w_name w) as [[d k]|]; [|apply safe_refl].
  destruct (exists_at _ _) eqn:Ex; [|apply safe_refl].
  destruct (w_hf w).
  - eapply (safe_issue_tmp F (Unlink (PData d true k))); reflexivity.
  - rewrite (surjective_pairing (issue F _ _)).
    eapply safe_trans; [apply safe_rename; exact Ex|].
    destruct (res_ok _); apply safe_same_fs; [reflexivity | apply mark_fs].
Qed.

Lemma safe_mkdir F w d : Safe w (fst (issue F (Mkdir (PDir d)) w)).
Proof.
  intros N. rewrite issue_fs. split.
  - intros d' k' Hx. rewrite exec_other in * by (simpl; try discriminate; intros; discriminate). auto.
  - intros d' k' n E. rewrite exec_other by (simpl; try discriminate; intros; discriminate). exact E.
Qed.

Lemma safe_create F w d k :
  w_fs w (PData d false k) = None -> Safe w (fst (issue F (CreateExcl (PData d true k)) w)).
Proof.
  intros Hf N. rewrite issue_fs. split.
  - intros d' k' Hx.
    rewrite exec_other by (simpl; try discriminate; intros; discriminate).
    destruct (path_eqb_spec (PData d' true k') (PData d true k)) as [E|E].
    + inversion E; subst. exact Hf.
    + rewrite exec_other in Hx by (simpl; auto; intros; discriminate). auto.
  - intros d' k' n E. rewrite exec_other by (simpl; try discriminate; intros; discriminate). exact E.
Qed.

Lemma safe_part F v fp w w' st : part F v fp w = (w', st) -> Safe w w'.
Proof.
  unfold part. destruct (same_name _ _ _).
  - destruct (w_cur w); intros H.
    + eapply safe_trans; [|eapply safe_do_lows; eauto]. apply safe_same_fs; reflexivity.
    + inversion H; subst. apply safe_same_fs; reflexivity.
  - set (w1 := match w_cur w with Some _ => publish F v (close_handles F v w) | None => w end).
    assert (G1 : Safe w w1).
    { unfold w1. destruct (w_cur w); [|apply safe_refl].
      eapply safe_trans; [apply safe_close_handles | apply safe_publish]. }
    destruct (w_hf w1); [intros H; inversion H; subst; exact G1|].
    rewrite (surjective_pairing (issue F (Mkdir _) w1)).
    pose proof (safe_mkdir F w1 (fp_d fp)) as S2.
    set (w2 := fst (issue F (Mkdir (PDir (fp_d fp))) w1)) in *.
    destruct (mkdir_failed _);
      [intros H; inversion H; subst; eapply safe_trans; [exact G1|]; eapply safe_trans; [exact S2|];
       apply safe_same_fs; reflexivity|].
    destruct (exists_at _ _) eqn:Ef;
      [intros H; inversion H; subst; eapply safe_trans; [exact G1|]; eapply safe_trans; [exact S2|];
       apply safe_same_fs; reflexivity|].
    apply exists_at_false in Ef.
    rewrite (surjective_pairing (issue F (Probe _) _)).
    set (w3 := set_name (Some (fp_d fp, fp_k fp)) w2) in *.
    assert (S3 : Safe w2 w3) by (apply safe_same_fs; reflexivity).
    assert (S4 : Safe w3 (fst (issue F (Probe (PData (fp_d fp) true (fp_k fp))) w3)))
      by (eapply safe_issue_tmp; reflexivity).
    set (w4 := fst (issue F (Probe (PData (fp_d fp) true (fp_k fp))) w3)) in *.
    assert (S04 : Safe w w4) by (repeat (eapply safe_trans; [eassumption|]); apply safe_refl).
    destruct (res_ok _);
      [intros H; inversion H; subst; eapply safe_trans; [exact S04|]; apply safe_same_fs; reflexivity|].
    rewrite (surjective_pairing (issue F (CreateExcl _) _)).
    assert (Hf4 : w_fs w4 (PData (fp_d fp) false (fp_k fp)) = None).
    { unfold w4. rewrite issue_fs, exec_other by (simpl; try discriminate; intros; discriminate). exact Ef. }
    pose proof (safe_create F w4 _ _ Hf4) as S5.
    destruct (res_ok _); intros H.
    + eapply safe_trans; [exact S04|]. eapply safe_trans; [exact S5|].
      eapply safe_trans; [|eapply safe_do_lows; eauto]. apply safe_same_fs; reflexivity.
    + inversion H; subst. eapply safe_trans; [exact S04|]. eapply safe_trans; [exact S5|].
      apply safe_same_fs; reflexivity.
Qed.

Lemma safe_parts F v l : forall w w' st, parts F v l w = (w', st) -> Safe w w'.
Proof.
  induction l as [|fp l IH]; simpl; intros w w' st H.
  - inversion H; subst. apply safe_refl.
  - destruct (part F v fp w) as [w1 st1] eqn:E. apply safe_part in E.
    destruct st1; [eapply safe_trans; eauto | inversion H; subst; auto].
Qed.

Lemma safe_call F v l w w' ok : call F v l w = (w', ok) -> Safe w w'.
Proof.
  unfold call. destruct (w_hf w); [intros H; inversion H; subst; apply safe_refl|].
  destruct (parts F v l w) as [w1 st] eqn:E. intros H; inversion H; subst. eapply safe_parts; eauto.
Qed.

Lemma safe_calls F v cs : forall w w' outs, calls F v cs w = (w', outs) -> Safe w w'.
Proof.
  induction cs as [|c cs IH]; simpl; intros w w' outs H.
  - inversion H; subst. apply safe_refl.
  - destruct (call F v c w) as [w1 ok] eqn:E. destruct (calls F v cs w1) as [w2 oks] eqn:E2.
    inversion H; subst. eapply safe_trans; [eapply safe_call; eauto | eapply IH; eauto].
Qed.

Lemma safe_close_call F v w : Safe w (close_call F v w).
Proof. eapply safe_trans; [apply safe_close_handles | apply safe_publish]. Qed.

(* channel creation touches only the properties file *)
Definition DataSame (w w' : W) : Prop := forall d t k, w_fs w' (PData d t k) = w_fs w (PData d t k).
Lemma ds_refl w : DataSame w w. Proof. intros d t k; reflexivity. Qed.
Lemma ds_trans a b c : DataSame a b -> DataSame b c -> DataSame a c.
Proof. intros H1 H2 d t k. now rewrite H2, H1. Qed.

Lemma ds_issue_props F o w :
  (exists t, op_target o = PProps t) -> (forall p q, o = Rename p q -> exists t, p = PProps t) ->
  DataSame w (fst (issue F o w)).
Proof.
  intros [t Ht] Hr d t' k. rewrite issue_fs. apply exec_other.
  - rewrite Ht. discriminate.
  - intros q ->. destruct (Hr _ _ eq_refl) as [t0 E]. discriminate.
Qed.

Ltac ds_props := apply ds_issue_props; [eexists; reflexivity | intros ? ? E; inversion E; eexists; reflexivity].
Ltac ds_low kd := apply ds_issue_props; [destruct kd; eexists; reflexivity | intros ? ? E; destruct kd; discriminate].

Lemma ds_props_create F t l : forall w w' st, props_create_lows F (PProps t) l w = (w', st) -> DataSame w w'.
Proof.
  induction l as [|kd l IH]; simpl; intros w w' st H.
  - inversion H; subst. apply ds_refl.
  - rewrite (surjective_pairing (issue F _ w)) in H.
    assert (D : DataSame w (fst (issue F (low_op kd (PProps t)) w))) by ds_low kd.
    destruct (res_ok _); [eapply ds_trans; [exact D | eapply IH; eauto] | inversion H; subst; exact D].
Qed.

Lemma ds_props_close F t l : forall w w' ok, props_close_lows F (PProps t) l w = (w', ok) -> DataSame w w'.
Proof.
  induction l as [|kd l IH]; simpl; intros w w' ok H.
  - inversion H; subst. apply ds_refl.
  - rewrite (surjective_pairing (issue F _ w)) in H.
    assert (D : DataSame w (fst (issue F (low_op kd (PProps t)) w))) by ds_low kd.
    destruct (props_close_lows F (PProps t) l _) as [w2 ok2] eqn:E. inversion H; subst.
    eapply ds_trans; [exact D | eapply IH; eauto].
Qed.

Lemma ds_init F v rc w w' ok : init F v rc w = (w', ok) -> DataSame w w'.
Proof.
  unfold init. destruct (probe _ _); try (intros H; inversion H; subst; apply ds_refl).
  destruct (v_props v).
  - set (p := PProps false).
    rewrite (surjective_pairing (issue F (Probe p) w)).
    set (w1 := fst (issue F (Probe p) w)). assert (D1 : DataSame w w1) by (unfold w1, p; ds_props).
    rewrite (surjective_pairing (issue F (CreateExcl p) w1)).
    set (w2 := fst (issue F (CreateExcl p) w1)). assert (D2 : DataSame w1 w2) by (unfold w2, p; ds_props).
    destruct (negb _); [intros H; inversion H; subst; eapply ds_trans; eauto|].
    destruct (props_create_lows F p (r_props_create rc) w2) as [w3 st] eqn:E3. apply ds_props_create in E3.
    destruct st; [|intros H; inversion H; subst; repeat (eapply ds_trans; [eassumption|]); apply ds_refl].
    destruct (props_close_lows F p (r_props_close rc) w3) as [w4 ok4] eqn:E4. apply ds_props_close in E4.
    rewrite (surjective_pairing (issue F (CloseFd p 0) w4)).
    set (w5 := fst (issue F (CloseFd p 0) w4)). assert (D5 : DataSame w4 w5) by (unfold w5, p; ds_props).
    assert (D05 : DataSame w w5) by (repeat (eapply ds_trans; [eassumption|]); apply ds_refl).
    destruct (ok4 && _); [intros H; inversion H; subst; exact D05|].
    destruct (v_close v); intros H; inversion H; subst.
    + exact D05.
    + eapply ds_trans; [exact D05 | unfold p; ds_props].
  - set (p := PProps true).
    rewrite (surjective_pairing (issue F (Probe p) w)).
    set (w1 := fst (issue F (Probe p) w)). assert (D1 : DataSame w w1) by (unfold w1, p; ds_props).
    rewrite (surjective_pairing (issue F (CreateTrunc p) w1)).
    set (w2 := fst (issue F (CreateTrunc p) w1)). assert (D2 : DataSame w1 w2) by (unfold w2, p; ds_props).
    destruct (negb _); [intros H; inversion H; subst; eapply ds_trans; eauto|].
    destruct (props_create_lows F p (r_props_create rc) w2) as [w3 st] eqn:E3. apply ds_props_create in E3.
    assert (D03 : DataSame w w3) by (repeat (eapply ds_trans; [eassumption|]); apply ds_refl).
    destruct st; [|intros H; inversion H; subst; eapply ds_trans; [exact D03 | unfold p; ds_props]].
    destruct (props_close_lows F p (r_props_close rc) w3) as [w4 ok4] eqn:E4. apply ds_props_close in E4.
    rewrite (surjective_pairing (issue F (CloseFd p 0) w4)).
    set (w5 := fst (issue F (CloseFd p 0) w4)). assert (D5 : DataSame w4 w5) by (unfold w5, p; ds_props).
    assert (D05 : DataSame w w5) by (repeat (eapply ds_trans; [eassumption|]); apply ds_refl).
    destruct (ok4 && _); [|intros H; inversion H; subst; eapply ds_trans; [exact D05 | unfold p; ds_props]].
    rewrite (surjective_pairing (issue F (Rename p (PProps false)) w5)).
    set (w6 := fst (issue F (Rename p (PProps false)) w5)). assert (D6 : DataSame w5 w6) by (unfold w6, p; ds_props).
    destruct (res_ok _); intros H; inversion H; subst.
    + eapply ds_trans; eauto.
    + eapply ds_trans; [exact D05|]. eapply ds_trans; [exact D6 | unfold p; ds_props].
Qed.

Lemma noboth_after_init F v rc w ok : init F v rc W0 = (w, ok) -> NoBoth (w_fs w).
Proof. intros H d k Hx. apply ds_init in H. rewrite H in *. reflexivity. Qed.

(* the state after channel creation and the first m write calls *)
Definition after_calls (F : fault) (v : variant) (rc : recording) (m : nat) : option W :=
  let '(w1, ok) := init F v rc W0 in
  if ok then Some (fst (calls F v (firstn m (r_calls rc)) w1)) else None.

(* under ANY fault oracle and variant: a data file that is under its final name after m calls is
   there, unchanged, at the end of the recording *)
Theorem earlier_files_intact F v rc m w d k n :
  after_calls F v rc m = Some w -> w_fs w (PData d false k) = Some n ->
  w_fs (rs_w (wrun F v rc)) (PData d false k) = Some n.
Proof.
  unfold after_calls, wrun. destruct (init F v rc W0) as [w1 ok] eqn:Ei.
  destruct ok; [|discriminate]. intros H Hn. inversion H; subst w. clear H.
  pose proof (noboth_after_init _ _ _ _ _ Ei) as N1.
  rewrite <- (firstn_skipn m (r_calls rc)) at 1. rewrite calls_app.
  destruct (calls F v (firstn m (r_calls rc)) w1) as [wa oa] eqn:Ea.
  destruct (calls F v (skipn m (r_calls rc)) wa) as [wb ob] eqn:Eb. simpl in *.
  destruct (safe_calls _ _ _ _ _ _ Ea N1) as [Na _].
  destruct (safe_calls _ _ _ _ _ _ Eb Na) as [Nb Kb].
  destruct (safe_close_call F v wb Nb) as [_ Kc].
  apply Kc, Kb, Hn.
Qed.

(* ---------------------------------------------------------------- no bad final file *)
Lemma issue_cases F o w :
  (w_fs (fst (issue F o w)) = fst (apply o (w_fs w)) /\ snd (issue F o w) = snd (apply o (w_fs w))) \/
  (w_fs (fst (issue F o w)) = apply_fault o (w_fs w) /\ snd (issue F o w) = Err EINJ).
Proof. rewrite issue_fs, issue_res. unfold exec. destruct (faulted F _); simpl; auto. Qed.

Definition FinalsOK (s : fs) : Prop :=
  forall d k n, s (PData d false k) = Some n -> exists t, n = File (Complete t).
Definition OnlyTmp (s : fs) (x : option (Z * Z)) : Prop :=
  forall d k, s (PData d true k) <> None -> x = Some (d, k).
Definition TmpOK (w : W) : Prop :=
  match w_cur w with
  | Some _ => exists d k, w_name w = Some (d, k) /\ w_fs w (PData d true k) = Some (File (Partial false)) /\
                          OnlyTmp (w_fs w) (Some (d, k))
  | None => OnlyTmp (w_fs w) None
  end.
(* as long as no fault hit an unexamined operation: final files are whole; and while has_failure is
   clear the only tmp file is the open one, intact *)
Definition KI (w : W) : Prop := w_ud w = false -> FinalsOK (w_fs w) /\ (w_hf w = false -> TmpOK w).

Definition FinSame (w w' : W) : Prop := forall d k, w_fs w' (PData d false k) = w_fs w (PData d false k).
Lemma fsame_refl w : FinSame w w. Proof. intros d k; reflexivity. Qed.
Lemma fsame_trans a b c : FinSame a b -> FinSame b c -> FinSame a c.
Proof. intros H1 H2 d k. now rewrite H2, H1. Qed.
Lemma fsame_fs w w' : w_fs w' = w_fs w -> FinSame w w'.
Proof. intros E d k. now rewrite E. Qed.
Lemma fsame_finals w w' : FinSame w w' -> FinalsOK (w_fs w) -> FinalsOK (w_fs w').
Proof. intros H F d k n E. rewrite H in E. eauto. Qed.

Lemma fsame_issue_tmp F o w d k :
  op_target o = PData d true k -> (forall p q, o <> Rename p q) -> FinSame w (fst (issue F o w)).
Proof. intros Ht Hr d' k'. rewrite issue_fs. apply exec_other; [rewrite Ht; discriminate | auto]. Qed.

Lemma fsame_low F kd d k w : FinSame w (fst (issue F (low_op kd (PData d true k)) w)).
Proof. eapply fsame_issue_tmp; [apply low_op_no_create | intros p q E; destruct kd; discriminate]. Qed.

Lemma fsame_do_lows F d k l : forall w w' st, do_lows F (PData d true k) l w = (w', st) -> FinSame w w'.
Proof.
  induction l as [|[kd ph] l IH]; simpl; intros w w' st H.
  - inversion H; subst. apply fsame_refl.
  - rewrite (surjective_pairing (issue F (low_op kd _) w)) in H.
    pose proof (fsame_low F kd d k w) as S1.
    destruct (res_ok _).
    + eapply fsame_trans; [exact S1 | eapply IH; eauto].
    + destruct ph; try (inversion H; subst; eapply fsame_trans; [exact S1 | apply fsame_fs; reflexivity]; fail).
      eapply fsame_trans; [exact S1|]. eapply fsame_trans; [|eapply IH; eauto]. apply fsame_fs; reflexivity.
Qed.

Lemma fsame_close_lows F v d k l : forall w, FinSame w (close_lows F v (PData d true k) l w).
Proof.
  induction l as [|kd l IH]; simpl; intros w.
  - apply fsame_refl.
  - rewrite (surjective_pairing (issue F (low_op kd _) w)).
    eapply fsame_trans; [apply (fsame_low F kd d k w)|].
    eapply fsame_trans; [|apply IH].
    destruct (res_ok _); apply fsame_fs; [reflexivity | apply mark_fs].
Qed.

Lemma fsame_close_handles F v w : FinSame w (close_handles F v w).
Proof.
  unfold close_handles. destruct (w_cur w) as [o|]; [|apply fsame_refl].
  destruct (w_name w) as [[d k]|]; [|apply fsame_refl].
  rewrite (surjective_pairing (issue F _ _)).
  eapply fsame_trans; [apply fsame_close_lows|].
  eapply fsame_trans; [eapply (fsame_issue_tmp F (CloseFd (PData d true k) (of_tag o))); [reflexivity | intros; discriminate]|].
  destruct (res_ok _); apply fsame_fs; simpl; [reflexivity | apply mark_fs].
Qed.

(* in a run that ends with both flags clear nothing was faulted: the low-level operations on an
   intact open file leave the file system as it was *)
Lemma do_lows_good F d k l : forall w w' st,
  do_lows F (PData d true k) l w = (w', st) -> w_hf w' = false -> w_ud w' = false ->
  w_fs w (PData d true k) = Some (File (Partial false)) ->
  w_fs w' = w_fs w /\ w_cur w' = w_cur w /\ w_name w' = w_name w /\ st = Go.
Proof.
  induction l as [|[kd ph] l IH]; simpl; intros w w' st H Hh Hu Ht.
  - inversion H; subst. auto.
  - rewrite (surjective_pairing (issue F (low_op kd _) w)) in H.
    destruct (issue_cases F (low_op kd (PData d true k)) w) as [[Ef Er] | [Ef Er]].
    + rewrite Er, (apply_low_partial _ _ kd Ht) in H. simpl in H.
      rewrite (apply_low_partial _ _ kd Ht) in Ef. simpl in Ef.
      destruct (IH _ _ _ H Hh Hu) as (A & B & C & D); [now rewrite Ef|].
      rewrite A, B, C. auto.
    + rewrite Er in H. simpl in H. exfalso.
      destruct ph.
      * inversion H; subst. simpl in Hh. discriminate.
      * apply grows_do_lows in H. destruct H as [_ H]. simpl in H. rewrite H in Hu; auto. discriminate.
      * inversion H; subst. simpl in Hh. discriminate.
      * inversion H; subst. simpl in Hu. discriminate.
Qed.

Lemma close_lows_good F v d k l : forall w,
  w_hf (close_lows F v (PData d true k) l w) = false -> w_ud (close_lows F v (PData d true k) l w) = false ->
  w_fs w (PData d true k) = Some (File (Partial false)) ->
  w_fs (close_lows F v (PData d true k) l w) = w_fs w /\
  w_cur (close_lows F v (PData d true k) l w) = w_cur w /\ w_name (close_lows F v (PData d true k) l w) = w_name w.
Proof.
  induction l as [|kd l IH]; simpl; intros w Hh Hu Ht; auto.
  rewrite (surjective_pairing (issue F (low_op kd _) w)) in *.
  destruct (issue_cases F (low_op kd (PData d true k)) w) as [[Ef Er] | [Ef Er]].
  - rewrite Er, (apply_low_partial _ _ kd Ht) in *. simpl in *.
    destruct (IH _ Hh Hu) as (A & B & C); [now rewrite Ef|]. rewrite A, B, C. auto.
  - rewrite Er in *. simpl in *. exfalso.
    pose proof (grows_close_lows F v (PData d true k) l (mark v (fst (issue F (low_op kd (PData d true k)) w)))) as [G1 G2].
    destruct (mark_bad v (fst (issue F (low_op kd (PData d true k)) w))) as [B|B].
    + rewrite (G1 B) in Hh. discriminate.
    + rewrite (G2 B) in Hu. discriminate.
Qed.

Lemma close_handles_good F v w o d k :
  w_cur w = Some o -> w_name w = Some (d, k) ->
  w_hf (close_handles F v w) = false -> w_ud (close_handles F v w) = false ->
  w_fs w (PData d true k) = Some (File (Partial false)) ->
  w_fs (close_handles F v w) = upd (PData d true k) (Some (File (Complete (of_tag o)))) (w_fs w) /\
  w_cur (close_handles F v w) = None /\ w_name (close_handles F v w) = Some (d, k).
Proof.
  unfold close_handles. intros Hc Hn. rewrite Hc, Hn.
  set (w1 := close_lows F v (PData d true k) (of_close o) w).
  rewrite (surjective_pairing (issue F (CloseFd (PData d true k) (of_tag o)) w1)).
  intros Hh Hu Ht.
  assert (G : Grows w1 (set_cur None (if res_ok (snd (issue F (CloseFd (PData d true k) (of_tag o)) w1))
              then fst (issue F (CloseFd (PData d true k) (of_tag o)) w1)
              else mark v (fst (issue F (CloseFd (PData d true k) (of_tag o)) w1))))).
  { destruct (res_ok _); gtrans. }
  destruct G as [G1 G2].
  assert (Hh1 : w_hf w1 = false) by (destruct (w_hf w1); auto; rewrite G1 in Hh; auto).
  assert (Hu1 : w_ud w1 = false) by (destruct (w_ud w1); auto; rewrite G2 in Hu; auto).
  destruct (close_lows_good F v d k (of_close o) w Hh1 Hu1 Ht) as (A & B & C). fold w1 in A, B, C.
  assert (Ht1 : w_fs w1 (PData d true k) = Some (File (Partial false))) by now rewrite A.
  destruct (issue_cases F (CloseFd (PData d true k) (of_tag o)) w1) as [[Ef Er] | [Ef Er]].
  - rewrite Er in *. simpl apply in *. rewrite Ht1 in *. simpl in *.
    split; [now rewrite Ef, A|]. split; [reflexivity|]. now rewrite issue_name, C.
  - rewrite Er in *. simpl in Hh, Hu. exfalso.
    destruct (mark_bad v (fst (issue F (CloseFd (PData d true k) (of_tag o)) w1))); congruence.
Qed.

Lemma publish_cur F v w : w_cur (publish F v w) = w_cur w /\ w_name (publish F v w) = w_name w.
Proof.
  unfold publish. destruct (w_name w) as [[d k]|] eqn:En; auto.
  destruct (exists_at _ _); auto. destruct (w_hf w); [rewrite issue_cur, issue_name; auto|].
  rewrite (surjective_pairing (issue F _ _)).
  destruct (res_ok _); rewrite ?mark_cur, ?mark_name, issue_cur, issue_name; auto.
Qed.

Lemma not_true_false b : (b = true -> False) -> b = false.
Proof. destruct b; auto. intros H; exfalso; auto. Qed.

Definition roll (F : fault) (v : variant) (w : W) : W := publish F v (close_handles F v w).

Lemma grows_roll F v w : Grows w (roll F v w).
Proof. eapply grows_trans; [apply grows_close_handles | apply grows_publish]. Qed.

(* closing the handles and publishing keeps the invariant, whatever fails *)
Lemma roll_KI F v w :
  KI w -> KI (roll F v w) /\ (w_ud (roll F v w) = false -> w_hf (roll F v w) = false -> w_cur (roll F v w) = None).
Proof.
  intros K.
  pose proof (grows_roll F v w) as [Gh Gu].
  pose proof (grows_close_handles F v w) as [Gha Gua].
  pose proof (grows_publish F v (close_handles F v w)) as [Ghp Gup].
  pose proof (fsame_close_handles F v w) as FS.
  unfold roll in *. set (wa := close_handles F v w) in *.
  assert (Main : w_ud (publish F v wa) = false ->
                 FinalsOK (w_fs (publish F v wa)) /\
                 (w_hf (publish F v wa) = false -> TmpOK (publish F v wa) /\ w_cur (publish F v wa) = None)).
  { intros Hu'.
    assert (Hu : w_ud w = false) by (apply not_true_false; intros E; rewrite (Gu E) in Hu'; discriminate).
    assert (Hua : w_ud wa = false) by (apply not_true_false; intros E; rewrite (Gup E) in Hu'; discriminate).
    destruct (K Hu) as [FO TO].
    pose proof (fsame_finals _ _ FS FO) as FOa.
    (* what close_handles did when everything is intact *)
    assert (CH : w_hf wa = false ->
                 match w_cur w with
                 | Some o => exists d k, w_name wa = Some (d, k) /\ w_cur wa = None /\
                                w_fs wa = upd (PData d true k) (Some (File (Complete (of_tag o)))) (w_fs w) /\
                                OnlyTmp (w_fs w) (Some (d, k))
                 | None => wa = w /\ OnlyTmp (w_fs w) None
                 end).
    { intros Hha.
      assert (Hh : w_hf w = false) by (apply not_true_false; intros E; rewrite (Gha E) in Hha; discriminate).
      specialize (TO Hh). unfold TmpOK in TO. destruct (w_cur w) as [o|] eqn:Ec.
      - destruct TO as (d & k & Hn & Ht & Ho).
        destruct (close_handles_good F v w o d k Ec Hn Hha Hua Ht) as (A & B & C).
        exists d, k. auto.
      - split; auto. unfold wa, close_handles. now rewrite Ec. }
    unfold publish in *.
    destruct (w_name wa) as [[d k]|] eqn:Ena.
    2:{ split; auto. intros Hha. specialize (CH Hha). destruct (w_cur w) as [o|] eqn:Ec.
        - destruct CH as (d & k & E & _). congruence.
        - destruct CH as [E O]. rewrite E. unfold TmpOK. rewrite Ec. auto. }
    destruct (exists_at (w_fs wa) (PData d true k)) eqn:Ex.
    2:{ split; auto. intros Hha. specialize (CH Hha). destruct (w_cur w) as [o|] eqn:Ec.
        - destruct CH as (d' & k' & E & _ & Ef & _). inversion E; subst d' k'.
          unfold exists_at in Ex. rewrite Ef, upd_same in Ex. discriminate.
        - destruct CH as [E O]. rewrite E. unfold TmpOK. rewrite Ec. auto. }
    destruct (w_hf wa) eqn:Hha.
    - (* has_failure: the tmp file is removed *)
      split.
      + eapply fsame_finals; [|exact FOa].
        eapply (fsame_issue_tmp F (Unlink (PData d true k))); [reflexivity | intros; discriminate].
      + rewrite issue_hf, Hha. discriminate.
    - specialize (CH eq_refl).
      rewrite (surjective_pairing (issue F (Rename (PData d true k) (PData d false k)) wa)) in *.
      destruct (w_cur w) as [o|] eqn:Ec.
      2:{ destruct CH as [E O]. exfalso. rewrite E in Ex. apply exists_at_true in Ex. apply O in Ex. discriminate. }
      destruct CH as (d' & k' & E & Eca & Ef & Oo). inversion E; subst d' k'. clear E.
      destruct (issue_cases F (Rename (PData d true k) (PData d false k)) wa) as [[Eff Er] | [Eff Er]].
      + (* renamed *)
        rewrite Er in *. simpl apply in *. rewrite Ef, upd_same in *. simpl in *.
        assert (FO' : FinalsOK (w_fs (fst (issue F (Rename (PData d true k) (PData d false k)) wa)))).
        { rewrite Eff. intros d' k' n En.
          destruct (path_eqb_spec (PData d' false k') (PData d false k)) as [E2|E2].
          - rewrite E2, upd_same in En. inversion En; eauto.
          - rewrite upd_other in En by exact E2. rewrite upd_other in En by discriminate.
            rewrite upd_other in En by discriminate. eauto. }
        split; [exact FO'|]. intros _. split; [|now rewrite issue_cur].
        unfold TmpOK. rewrite issue_cur, Eca. rewrite Eff.
        intros d' k' Hx.
        destruct (path_eqb_spec (PData d' true k') (PData d true k)) as [E2|E2].
        * exfalso. apply Hx. rewrite E2. rewrite upd_other by discriminate. apply upd_same.
        * exfalso. rewrite upd_other in Hx by discriminate. rewrite upd_other in Hx by exact E2.
          rewrite upd_other in Hx by exact E2. apply Oo in Hx. inversion Hx; subst. apply E2; reflexivity.
      + (* the rename failed *)
        rewrite Er in *. simpl res_ok in *. cbv iota in *.
        split.
        * rewrite mark_fs, Eff. simpl. exact FOa.
        * intros Hh'. exfalso.
          destruct (mark_bad v (fst (issue F (Rename (PData d true k) (PData d false k)) wa))); congruence. }
  split.
  - intros Hu'. destruct (Main Hu') as [A B]. split; auto. intros Hh'. apply B; auto.
  - intros Hu' Hh'. destruct (Main Hu') as [A B]. apply B; auto.
Qed.

Lemma KI_datasame w w' :
  DataSame w w' -> w_cur w' = w_cur w -> w_name w' = w_name w -> w_hf w' = w_hf w -> w_ud w' = w_ud w ->
  KI w -> KI w'.
Proof.
  intros D Ec En Eh Eu K Hu. rewrite Eu in Hu. destruct (K Hu) as [FO TO]. split.
  - intros d k n E. rewrite D in E. eauto.
  - rewrite Eh. intros Hh. specialize (TO Hh). unfold TmpOK in *. rewrite Ec, En.
    destruct (w_cur w).
    + destruct TO as (d & k & A & B & C). exists d, k. rewrite D. repeat split; auto.
      intros d' k' Hx. rewrite D in Hx. auto.
    + intros d' k' Hx. rewrite D in Hx. auto.
Qed.

Lemma KI_set_hf w : KI w -> KI (set_hf true w).
Proof. intros K Hu. destruct (K Hu) as [FO _]. split; auto. simpl. discriminate. Qed.

Lemma KI_set_name x w : w_cur w = None -> KI w -> KI (set_name x w).
Proof.
  intros Ec K Hu. destruct (K Hu) as [FO TO]. split; auto. intros Hh. specialize (TO Hh).
  unfold TmpOK in *. simpl. now rewrite Ec in *.
Qed.

Lemma KI_set_ud w : KI (set_ud true w).
Proof. intros Hu. discriminate. Qed.

Lemma ds_issue_nodata F o w :
  (forall d t k, op_target o <> PData d t k) -> (forall p q, o <> Rename p q) -> DataSame w (fst (issue F o w)).
Proof. intros Ht Hr d t k. rewrite issue_fs. apply exec_other; auto. Qed.

Lemma ds_probe F p w : DataSame w (fst (issue F (Probe p) w)).
Proof.
  intros d t k. rewrite issue_fs. unfold exec. destruct (faulted F _); simpl; auto.
  destruct (is_file _ _); reflexivity.
Qed.

Lemma do_lows_KI F d k l w w' st :
  KI w -> (exists o, w_cur w = Some o) -> w_name w = Some (d, k) ->
  do_lows F (PData d true k) l w = (w', st) -> KI w'.
Proof.
  intros K [o Ec] En H Hu'.
  pose proof (grows_do_lows _ _ _ _ _ _ H) as [Gh Gu].
  assert (Hu : w_ud w = false) by (apply not_true_false; intros E; rewrite (Gu E) in Hu'; discriminate).
  destruct (K Hu) as [FO TO]. split.
  - eapply fsame_finals; [eapply fsame_do_lows; eauto | exact FO].
  - intros Hh'.
    assert (Hh : w_hf w = false) by (apply not_true_false; intros E; rewrite (Gh E) in Hh'; discriminate).
    specialize (TO Hh). unfold TmpOK in TO. rewrite Ec in TO. destruct TO as (d' & k' & A & B & C).
    rewrite En in A. inversion A; subst d' k'.
    destruct (do_lows_good _ _ _ _ _ _ _ H Hh' Hu' B) as (E1 & E2 & E3 & _).
    unfold TmpOK. rewrite E2, Ec, E3, E1. exists d, k. auto.
Qed.

Lemma apply_create_noparent s p :
  s p = None -> parent_ok s p = false -> apply (CreateExcl p) s = (s, Err ENOENT).
Proof. intros H1 H2. simpl. now rewrite H1, H2. Qed.

Lemma roll_part_eq F v w : w_cur w <> None ->
  match w_cur w with Some _ => publish F v (close_handles F v w) | None => w end = roll F v w.
Proof. destruct (w_cur w); [reflexivity | congruence]. Qed.

(* one per-file piece keeps the invariant, under any fault oracle *)
Lemma part_KI F v fp w w' st : KI w -> part F v fp w = (w', st) -> KI w'.
Proof.
  intros K. unfold part. set (d := fp_d fp). set (k := fp_k fp).
  destruct (same_name (w_name w) d k) eqn:Esn.
  - apply same_name_true in Esn.
    destruct (w_cur w) as [o0|] eqn:Ec; intros H.
    + eapply (do_lows_KI F d k (fp_pre fp) (set_cur (Some (mkOpen (fp_close fp) (fp_tag fp))) w)); eauto.
      * intros Hu. destruct (K Hu) as [FO TO]. split; auto. intros Hh. specialize (TO Hh).
        unfold TmpOK in *. simpl. now rewrite Ec in TO.
      * simpl. eauto.
    + inversion H; subst. now apply KI_set_hf.
  - set (w1 := match w_cur w with Some _ => publish F v (close_handles F v w) | None => w end).
    assert (K1 : KI w1 /\ (w_ud w1 = false -> w_hf w1 = false -> w_cur w1 = None)).
    { unfold w1. destruct (w_cur w) eqn:Ec.
      - apply (roll_KI F v w K).
      - split; auto. }
    destruct K1 as [K1 C1].
    destruct (w_hf w1) eqn:Hh1; [intros H; inversion H; subst; exact K1|].
    rewrite (surjective_pairing (issue F (Mkdir (PDir d)) w1)).
    set (w2 := fst (issue F (Mkdir (PDir d)) w1)).
    assert (K2 : KI w2).
    { eapply KI_datasame; [| | | | |exact K1]; try reflexivity.
      apply ds_issue_nodata; simpl; intros; discriminate. }
    destruct (mkdir_failed _); [intros H; inversion H; subst; now apply KI_set_hf|].
    set (w3 := set_name (Some (d, k)) w2).
    (* from here on we may assume the unexamined-fault flag is clear, else KI is trivial *)
    destruct (w_ud w1) eqn:Hu1.
    { intros H. intros Hu'. exfalso.
      assert (G : Grows w1 w').
      { revert H. destruct (exists_at _ _); [intros H; inversion H; subst; unfold w3, w2; gtrans|].
        rewrite (surjective_pairing (issue F (Probe _) w3)).
        destruct (res_ok _); [intros H; inversion H; subst; unfold w3, w2; gtrans|].
        rewrite (surjective_pairing (issue F (CreateExcl _) _)).
        destruct (res_ok _); intros H.
        - eapply grows_trans; [|eapply grows_do_lows; eauto]. unfold w3, w2. gtrans.
        - inversion H; subst. unfold w3, w2. gtrans. }
      destruct G as [_ G]. rewrite (G Hu1) in Hu'. discriminate. }
    assert (Ec1 : w_cur w1 = None) by (apply C1; auto).
    assert (K3 : KI w3) by (apply KI_set_name; [unfold w2; now rewrite issue_cur | exact K2]).
    destruct (exists_at _ _) eqn:Ef; [intros H; inversion H; subst; exact K3|].
    rewrite (surjective_pairing (issue F (Probe (PData d true k)) w3)).
    set (w4 := fst (issue F (Probe (PData d true k)) w3)).
    assert (K4 : KI w4) by (eapply KI_datasame; [apply ds_probe | | | | | exact K3]; reflexivity).
    destruct (res_ok _); [intros H; inversion H; subst; now apply KI_set_hf|].
    rewrite (surjective_pairing (issue F (CreateExcl (PData d true k)) w4)).
    set (w5 := fst (issue F (CreateExcl (PData d true k)) w4)).
    assert (Ec4 : w_cur w4 = None) by (unfold w4, w3, w2; now rewrite issue_cur; simpl; rewrite issue_cur).
    assert (Hh4 : w_hf w4 = false) by (unfold w4, w3, w2; now rewrite issue_hf; simpl; rewrite issue_hf).
    assert (Hu4 : w_ud w4 = false) by (unfold w4, w3, w2; now rewrite issue_ud; simpl; rewrite issue_ud).
    destruct (K4 Hu4) as [FO4 TO4]. specialize (TO4 Hh4). unfold TmpOK in TO4. rewrite Ec4 in TO4.
    assert (Ht4 : w_fs w4 (PData d true k) = None).
    { destruct (w_fs w4 (PData d true k)) eqn:E; auto. exfalso.
      assert (Hx : w_fs w4 (PData d true k) <> None) by congruence. apply TO4 in Hx. discriminate. }
    destruct (issue_cases F (CreateExcl (PData d true k)) w4) as [[Eff Er] | [Eff Er]].
    + rewrite Er. fold w5 in Eff.
      destruct (parent_ok (w_fs w4) (PData d true k)) eqn:Ep.
      * (* created *)
        rewrite (apply_create_ok _ _ Ht4 Ep) in *. simpl fst in Eff. simpl snd. simpl res_ok. cbv iota.
        intros H.
        eapply (do_lows_KI F d k (fp_pre fp) (set_cur (Some (mkOpen (fp_close fp) (fp_tag fp))) w5));
          [ | | | exact H].
        -- intros _. split.
           ++ simpl. rewrite Eff. intros d' k' n E. rewrite upd_other in E by discriminate. eauto.
           ++ intros _. unfold TmpOK. simpl. exists d, k.
              split; [reflexivity|].
              rewrite Eff. split; [apply upd_same|].
              intros d' k' Hx.
              destruct (path_eqb_spec (PData d' true k') (PData d true k)) as [E2|E2].
              ** inversion E2; reflexivity.
              ** rewrite upd_other in Hx by exact E2. apply TO4 in Hx. discriminate.
        -- simpl. eauto.
        -- reflexivity.
      * rewrite (apply_create_noparent _ _ Ht4 Ep) in *. simpl fst in Eff. simpl snd. simpl res_ok. cbv iota.
        intros H. inversion H; subst. apply KI_set_hf.
        eapply KI_datasame; [| | | | |exact K4]; try reflexivity. intros d' t' k'. exact (f_equal (fun s => s (PData d' t' k')) Eff).
    + rewrite Er. simpl. intros H. inversion H; subst. apply KI_set_hf.
      eapply KI_datasame; [| | | | |exact K4]; try reflexivity. intros d' t' k'. exact (f_equal (fun s => s (PData d' t' k')) Eff).
Qed.

Lemma parts_KI F v l : forall w w' st, KI w -> parts F v l w = (w', st) -> KI w'.
Proof.
  induction l as [|fp l IH]; simpl; intros w w' st K H.
  - inversion H; subst; auto.
  - destruct (part F v fp w) as [w1 st1] eqn:E. apply part_KI in E; auto.
    destruct st1; [eapply IH; eauto | inversion H; subst; auto].
Qed.

Lemma call_KI F v l w w' ok : KI w -> call F v l w = (w', ok) -> KI w'.
Proof.
  unfold call. intros K. destruct (w_hf w); [intros H; inversion H; subst; auto|].
  destruct (parts F v l w) as [w1 st] eqn:E. intros H; inversion H; subst. eapply parts_KI; eauto.
Qed.

Lemma calls_KI F v cs : forall w w' outs, KI w -> calls F v cs w = (w', outs) -> KI w'.
Proof.
  induction cs as [|c cs IH]; simpl; intros w w' outs K H.
  - inversion H; subst; auto.
  - destruct (call F v c w) as [w1 ok] eqn:E. destruct (calls F v cs w1) as [w2 oks] eqn:E2.
    inversion H; subst. eapply IH; [|eauto]. eapply call_KI; eauto.
Qed.

Lemma close_call_KI F v w : KI w -> KI (close_call F v w).
Proof. intros K. apply (roll_KI F v w K). Qed.

Lemma init_KI F v rc w ok : init F v rc W0 = (w, ok) -> ok = true -> KI w.
Proof.
  intros H Hok Hu. pose proof (ds_init _ _ _ _ _ _ H) as D.
  assert (Ec : w_cur w = None /\ w_hf w = false).
  { (* init never touches these fields *)
    clear D Hu. revert H. unfold init.
    assert (Z1 : w_cur W0 = None) by reflexivity. assert (Z2 : w_hf W0 = false) by reflexivity.
    destruct (probe _ _); try (intros H; inversion H; subst; auto; fail).
    assert (PC : forall p l w0 w1 st, props_create_lows F p l w0 = (w1, st) -> w_cur w1 = w_cur w0 /\ w_hf w1 = w_hf w0).
    { induction l as [|kd l IH]; simpl; intros w0 w1 st E; [inversion E; auto|].
      rewrite (surjective_pairing (issue F _ w0)) in E. destruct (res_ok _).
      - apply IH in E. now rewrite issue_cur, issue_hf in E.
      - inversion E; subst. now rewrite issue_cur, issue_hf. }
    assert (PL : forall p l w0 w1 b, props_close_lows F p l w0 = (w1, b) -> w_cur w1 = w_cur w0 /\ w_hf w1 = w_hf w0).
    { induction l as [|kd l IH]; simpl; intros w0 w1 b E; [inversion E; auto|].
      rewrite (surjective_pairing (issue F _ w0)) in E.
      destruct (props_close_lows F p l _) as [w2 b2] eqn:E2. inversion E; subst.
      apply IH in E2. now rewrite issue_cur, issue_hf in E2. }
    destruct (v_props v).
    - rewrite (surjective_pairing (issue F (Probe _) W0)).
      rewrite (surjective_pairing (issue F (CreateExcl _) _)).
      destruct (negb _); [intros H; inversion H; subst; auto|].
      destruct (props_create_lows F _ _ _) as [w3 st] eqn:E3. apply PC in E3. rewrite !issue_cur, !issue_hf in E3.
      destruct st; [|intros H; inversion H; subst; auto].
      destruct (props_close_lows F _ _ w3) as [w4 ok4] eqn:E4. apply PL in E4.
      rewrite (surjective_pairing (issue F (CloseFd _ 0) w4)).
      destruct (ok4 && _); [intros H; inversion H; subst; rewrite issue_cur, issue_hf; destruct E4 as [A1 A2], E3 as [B1 B2]; split; congruence|].
      destruct (v_close v); intros H; inversion H; subst; simpl; rewrite ?issue_cur, ?issue_hf;
        destruct E4 as [A1 A2], E3 as [B1 B2]; split; congruence.
    - rewrite (surjective_pairing (issue F (Probe _) W0)).
      rewrite (surjective_pairing (issue F (CreateTrunc _) _)).
      destruct (negb _); [intros H; inversion H; subst; auto|].
      destruct (props_create_lows F _ _ _) as [w3 st] eqn:E3. apply PC in E3. rewrite !issue_cur, !issue_hf in E3.
      destruct st; [|intros H; inversion H; subst; rewrite issue_cur, issue_hf; auto].
      destruct (props_close_lows F _ _ w3) as [w4 ok4] eqn:E4. apply PL in E4.
      rewrite (surjective_pairing (issue F (CloseFd _ 0) w4)).
      destruct (ok4 && _).
      + rewrite (surjective_pairing (issue F (Rename _ _) _)).
        destruct (res_ok _); intros H; inversion H; subst; rewrite ?issue_cur, ?issue_hf;
          destruct E4 as [A1 A2], E3 as [B1 B2]; split; congruence.
      + intros H; inversion H; subst; rewrite ?issue_cur, ?issue_hf; destruct E4 as [A1 A2], E3 as [B1 B2]; split; congruence. }
  destruct Ec as [Ec Eh]. split.
  - intros d k n E. rewrite D in E. discriminate.
  - intros _. unfold TmpOK. rewrite Ec. intros d k Hx. rewrite D in Hx. exfalso; apply Hx; reflexivity.
Qed.

(* under ANY fault oracle: unless a fault hit an operation whose result the code does not examine
   (ghost flag w_ud), every data file under a final name at the end is a whole file *)
Theorem no_bad_final_file F v rc :
  w_ud (rs_w (wrun F v rc)) = false -> FinalsOK (w_fs (rs_w (wrun F v rc))).
Proof.
  unfold wrun. destruct (init F v rc W0) as [w1 ok] eqn:Ei. destruct ok.
  - destruct (calls F v (r_calls rc) w1) as [w2 outs] eqn:Ec. simpl. intros Hu.
    pose proof (init_KI _ _ _ _ _ Ei eq_refl) as K1.
    pose proof (calls_KI _ _ _ _ _ _ K1 Ec) as K2.
    apply (close_call_KI F v w2 K2 Hu).
  - simpl. intros _ d k n E. rewrite (ds_init _ _ _ _ _ _ Ei) in E. discriminate.
Qed.

(* ---------------------------------------------------------------- refutations (witnesses) *)
(* one call, one file; HDF5 issues one write inside the close *)
Definition wit_rec : recording :=
  mkRec [LW] [LW] [[mkPart 10 10000 [(LW, PhCreate)] [LW] 7]; [mkPart 10 11000 [(LW, PhCreate)] [LW] 8]].
(* operations: 1-8 properties file (probe, create, write, write, close, rename = 6) ... *)
Definition wit_fault_rollover : fault := Build_fault 11 false.   (* the write inside the close of the first file *)
Definition wit_fault_final : fault := Build_fault 18 false.      (* the write inside the final close *)

Definition silent_loss_free (v : variant) : Prop :=
  forall F rc, let r := wrun F v rc in
  rs_init r = true -> forallb (fun b => b) (rs_out r) = true ->
  forall d k t, last_tag (all_parts rc) d k = Some t ->
                w_fs (rs_w r) (PData d false k) = Some (File (Complete t)).

Definition no_bad_final_full (v : variant) : Prop :=
  forall F rc, FinalsOK (w_fs (rs_w (wrun F v rc))).

Example wit_ops : List.length (trace_of (mkVar Staged Checked) wit_rec) = 20%nat.
Proof. vm_compute. reflexivity. Qed.

Example wit_op11 : nth 10 (trace_of (mkVar Staged Checked) wit_rec) (Mkdir (PDir 0)) = Write (PData 10 true 10000)
                /\ nth 17 (trace_of (mkVar Staged Checked) wit_rec) (Mkdir (PDir 0)) = Write (PData 10 true 11000).
Proof. vm_compute. split; reflexivity. Qed.

(* results of the close path ignored: the damaged file is published and nobody is told *)
Lemma no_bad_final_ignored_refuted : ~ no_bad_final_full (mkVar Staged Ignored).
Proof.
  intros H. specialize (H wit_fault_rollover wit_rec 10 10000 (File (Partial true))).
  assert (E : w_fs (rs_w (wrun wit_fault_rollover (mkVar Staged Ignored) wit_rec)) (PData 10 false 10000)
              = Some (File (Partial true))) by (vm_compute; reflexivity).
  destruct (H E) as [t Ht]. discriminate Ht.
Qed.

Lemma silent_loss_ignored_refuted : ~ silent_loss_free (mkVar Staged Ignored).
Proof.
  intros H. specialize (H wit_fault_rollover wit_rec). cbv zeta in H.
  assert (A : rs_init (wrun wit_fault_rollover (mkVar Staged Ignored) wit_rec) = true) by (vm_compute; reflexivity).
  assert (B : forallb (fun b => b) (rs_out (wrun wit_fault_rollover (mkVar Staged Ignored) wit_rec)) = true)
    by (vm_compute; reflexivity).
  assert (E : w_fs (rs_w (wrun wit_fault_rollover (mkVar Staged Ignored) wit_rec)) (PData 10 false 10000)
              = Some (File (Partial true))) by (vm_compute; reflexivity).
  assert (L : last_tag (all_parts wit_rec) 10 10000 = Some 7) by (vm_compute; reflexivity).
  specialize (H A B 10 10000 7 L). rewrite E in H. discriminate H.
Qed.

(* results examined: no bad file, but a failure inside the final close is still silent *)
Lemma silent_loss_checked_refuted : ~ silent_loss_free (mkVar Staged Checked).
Proof.
  intros H. specialize (H wit_fault_final wit_rec). cbv zeta in H.
  assert (A : rs_init (wrun wit_fault_final (mkVar Staged Checked) wit_rec) = true) by (vm_compute; reflexivity).
  assert (B : forallb (fun b => b) (rs_out (wrun wit_fault_final (mkVar Staged Checked) wit_rec)) = true)
    by (vm_compute; reflexivity).
  assert (E : w_fs (rs_w (wrun wit_fault_final (mkVar Staged Checked) wit_rec)) (PData 10 false 11000) = None)
    by (vm_compute; reflexivity).
  assert (L : last_tag (all_parts wit_rec) 10 11000 = Some 8) by (vm_compute; reflexivity).
  specialize (H A B 10 11000 8 L). rewrite E in H. discriminate H.
Qed.

(* the same fault at a roll-over is reported by the call, later calls are refused, nothing bad is published *)
Example checked_rollover_reported :
  rs_out (wrun wit_fault_rollover (mkVar Staged Checked) wit_rec) = [true; false] /\
  w_fs (rs_w (wrun wit_fault_rollover (mkVar Staged Checked) wit_rec)) (PData 10 false 10000) = None /\
  w_fs (rs_w (wrun wit_fault_rollover (mkVar Staged Checked) wit_rec)) (PData 10 true 10000) = None /\
  w_ud (rs_w (wrun wit_fault_rollover (mkVar Staged Checked) wit_rec)) = false.
Proof. vm_compute. repeat split; reflexivity. Qed.

(* ---------------------------------------------------------------- a fault that is neither reported nor
   unexamined has no effect: everything accepted is published *)
Definition Good (w : W) : Prop := w_hf w = false /\ w_ud w = false.

Lemma good_back w w' : Grows w w' -> Good w' -> Good w.
Proof.
  intros [Gh Gu] [Hh Hu]. split; apply not_true_false; intros E.
  - rewrite (Gh E) in Hh. discriminate.
  - rewrite (Gu E) in Hu. discriminate.
Qed.

Lemma roll_good F v w o d k :
  w_cur w = Some o -> w_name w = Some (d, k) -> w_fs w (PData d true k) = Some (File (Partial false)) ->
  Good (roll F v w) ->
  w_cur (roll F v w) = None /\ w_name (roll F v w) = Some (d, k) /\
  w_fs (roll F v w) (PData d false k) = Some (File (Complete (of_tag o))) /\
  (forall d' k', (d', k') <> (d, k) -> w_fs (roll F v w) (PData d' false k') = w_fs w (PData d' false k')).
Proof.
  intros Ec En Ht G. unfold roll in *.
  pose proof (good_back _ _ (grows_publish F v (close_handles F v w)) G) as [Hha Hua].
  destruct (close_handles_good F v w o d k Ec En Hha Hua Ht) as (Ef & Eca & Ena).
  set (wa := close_handles F v w) in *.
  destruct G as [Hh Hu]. unfold publish in *. rewrite Ena in *.
  assert (Ex : exists_at (w_fs wa) (PData d true k) = true) by (unfold exists_at; now rewrite Ef, upd_same).
  rewrite Ex, Hha in *.
  rewrite (surjective_pairing (issue F (Rename (PData d true k) (PData d false k)) wa)) in *.
  destruct (issue_cases F (Rename (PData d true k) (PData d false k)) wa) as [[Eff Er] | [Eff Er]].
  - rewrite Er in *. simpl apply in *. rewrite Ef, upd_same in *. simpl in *.
    rewrite issue_cur, issue_name, Eca, Ena. repeat split; auto.
    + rewrite Eff. apply upd_same.
    + intros d' k' Hne. rewrite Eff.
      rewrite upd_other by (intros E; inversion E; subst; apply Hne; reflexivity).
      rewrite upd_other by discriminate. rewrite upd_other by discriminate. reflexivity.
  - rewrite Er in *. simpl res_ok in *. cbv iota in *. exfalso.
    destruct (mark_bad v (fst (issue F (Rename (PData d true k) (PData d false k)) wa))); congruence.
Qed.

(* a piece that completes in a run whose flags stay clear does what the fault-free piece does *)
Lemma part_pub F v fp w w' done :
  KI w -> Pub done w -> part F v fp w = (w', Go) -> Good w' -> Pub (done ++ [fp]) w'.
Proof.
  intros K HP H G.
  pose proof (good_back _ _ (grows_part _ _ _ _ _ _ H) G) as [Hh Hu].
  destruct (K Hu) as [FO TO]. specialize (TO Hh).
  revert H. unfold part. set (d := fp_d fp). set (k := fp_k fp).
  destruct (same_name (w_name w) d k) eqn:Esn.
  - apply same_name_true in Esn.
    destruct (w_cur w) as [o0|] eqn:Ec; [|discriminate]. intros H.
    unfold TmpOK in TO. rewrite Ec in TO. destruct TO as (d0 & k0 & Hn & Ht & _).
    rewrite Esn in Hn. inversion Hn; subst d0 k0.
    destruct G as [Hh' Hu'].
    destruct (do_lows_good _ _ _ _ _ _ _ H Hh' Hu' Ht) as (E1 & E2 & E3 & _).
    intros d' k' tg Hl. rewrite last_tag_snoc in Hl. fold d k in Hl.
    unfold is_cur. rewrite E2, E3. simpl. rewrite Esn.
    destruct ((d =? d') && (k =? k')) eqn:E.
    + inversion Hl; subst. eexists; split; reflexivity.
    + specialize (HP d' k' tg Hl). unfold is_cur in HP. rewrite Ec, Esn, E in HP. now rewrite E1.
  - set (w1 := match w_cur w with Some _ => publish F v (close_handles F v w) | None => w end).
    destruct (w_hf w1) eqn:Hh1; [discriminate|].
    rewrite (surjective_pairing (issue F (Mkdir (PDir d)) w1)).
    destruct (mkdir_failed _); [discriminate|].
    set (w2 := fst (issue F (Mkdir (PDir d)) w1)).
    set (w3 := set_name (Some (d, k)) w2).
    destruct (exists_at (w_fs w3) (PData d false k)) eqn:Ef; [discriminate|].
    rewrite (surjective_pairing (issue F (Probe (PData d true k)) w3)).
    destruct (res_ok (snd (issue F (Probe (PData d true k)) w3))); [discriminate|].
    set (w4 := fst (issue F (Probe (PData d true k)) w3)).
    rewrite (surjective_pairing (issue F (CreateExcl (PData d true k)) w4)).
    destruct (res_ok (snd (issue F (CreateExcl (PData d true k)) w4))) eqn:Er5; [|discriminate].
    set (w5 := fst (issue F (CreateExcl (PData d true k)) w4)).
    set (w6 := set_cur (Some (mkOpen (fp_close fp) (fp_tag fp))) w5).
    intros H.
    (* the created file is intact, so the low-level operations leave the file system alone *)
    assert (Ht6 : w_fs w6 (PData d true k) = Some (File (Partial false)) /\
                  forall d' k', w_fs w6 (PData d' false k') = w_fs w4 (PData d' false k')).
    { change (w_fs w6) with (w_fs w5). unfold w5.
      destruct (issue_cases F (CreateExcl (PData d true k)) w4) as [[Eff Er] | [Eff Er]]; rewrite Er in Er5.
      - rewrite Eff. simpl in *. destruct (w_fs w4 (PData d true k)); [discriminate|].
        destruct (match w_fs w4 (PDir d) with Some Dir => true | _ => false end); [|discriminate].
        simpl. split; [apply upd_same|]. intros d' k'. now rewrite upd_other by discriminate.
      - discriminate. }
    destruct Ht6 as [Ht6 Hf6]. destruct G as [Hh' Hu'].
    destruct (do_lows_good _ _ _ _ _ _ _ H Hh' Hu' Ht6) as (E1 & E2 & E3 & _).
    assert (Hf4 : forall d' k', w_fs w4 (PData d' false k') = w_fs w1 (PData d' false k')).
    { intros d' k'. unfold w4. rewrite (ds_probe F _ w3). change (w_fs w3) with (w_fs w2).
      unfold w2. apply ds_issue_nodata; simpl; intros; discriminate. }
    (* the roll-over published the previous file *)
    assert (HP1 : forall d' k' tg, last_tag done d' k' = Some tg ->
                                   w_fs w1 (PData d' false k') = Some (File (Complete tg))).
    { intros d' k' tg Hl. specialize (HP d' k' tg Hl). unfold is_cur in HP.
      destruct (w_cur w) as [o0|] eqn:Ec.
      - unfold TmpOK in TO. rewrite Ec in TO. destruct TO as (d0 & k0 & Hn & Ht & _).
        rewrite Hn in HP.
        assert (G1 : Good (roll F v w)).
        { fold (roll F v w) in w1. split; [exact Hh1|]. apply not_true_false. intros E.
          assert (Gr : Grows w1 w').
          { eapply grows_trans; [|eapply grows_do_lows; eauto]. unfold w6, w5, w4, w3, w2. gtrans. }
          destruct Gr as [_ Gr]. rewrite (Gr E) in Hu'. discriminate. }
        destruct (roll_good F v w o0 d0 k0 Ec Hn Ht G1) as (_ & _ & Efin & Eoth).
        unfold w1. fold (roll F v w).
        destruct ((d0 =? d') && (k0 =? k')) eqn:E.
        + apply andb_prop in E as [A B]. apply Z.eqb_eq in A, B. subst d' k'.
          destruct HP as (o & Ho & Htg). inversion Ho; subst o. now rewrite Efin, Htg.
        + rewrite Eoth; auto. intros E'. inversion E'; subst. now rewrite !Z.eqb_refl in E.
      - exact HP. }
    intros d' k' tg Hl. rewrite last_tag_snoc in Hl. fold d k in Hl.
    unfold is_cur. rewrite E2, E3. change (w_cur w6) with (Some (mkOpen (fp_close fp) (fp_tag fp))).
    assert (En6 : w_name w6 = Some (d, k)) by reflexivity. rewrite En6.
    destruct ((d =? d') && (k =? k')) eqn:E.
    + inversion Hl; subst. eexists; split; reflexivity.
    + rewrite E1, Hf6, Hf4. apply HP1; auto.
Qed.

Lemma parts_pub F v l : forall w w' done,
  KI w -> Pub done w -> parts F v l w = (w', Go) -> Good w' -> Pub (done ++ l) w'.
Proof.
  induction l as [|fp l IH]; simpl; intros w w' done K HP H G.
  - inversion H; subst. now rewrite app_nil_r.
  - destruct (part F v fp w) as [w1 st1] eqn:E. destruct st1; [|discriminate].
    pose proof (part_KI _ _ _ _ _ _ K E) as K1.
    pose proof (good_back _ _ (grows_parts _ _ _ _ _ _ H) G) as G1.
    pose proof (part_pub _ _ _ _ _ _ K HP E G1) as HP1.
    specialize (IH _ _ _ K1 HP1 H G). now rewrite <- app_assoc in IH.
Qed.

Lemma call_pub F v l w w' done :
  KI w -> Pub done w -> call F v l w = (w', true) -> Good w' -> Pub (done ++ l) w'.
Proof.
  unfold call. intros K HP. destruct (w_hf w); [discriminate|].
  destruct (parts F v l w) as [w1 st] eqn:E. destruct st; [|discriminate].
  intros H G. inversion H; subst. eapply parts_pub; eauto.
Qed.

Lemma calls_pub F v cs : forall w w' outs done,
  KI w -> Pub done w -> calls F v cs w = (w', outs) -> forallb (fun b => b) outs = true -> Good w' ->
  Pub (done ++ concat cs) w'.
Proof.
  induction cs as [|c cs IH]; simpl; intros w w' outs done K HP H Hall G.
  - inversion H; subst. now rewrite app_nil_r.
  - destruct (call F v c w) as [w1 ok] eqn:E. destruct (calls F v cs w1) as [w2 oks] eqn:E2.
    inversion H; subst. simpl in Hall. apply andb_prop in Hall as [Hok Hall]. subst ok.
    pose proof (call_KI _ _ _ _ _ _ K E) as K1.
    pose proof (good_back _ _ (grows_calls _ _ _ _ _ _ E2) G) as G1.
    pose proof (call_pub _ _ _ _ _ _ K HP E G1) as HP1.
    specialize (IH _ _ _ _ K1 HP1 E2 Hall G). now rewrite <- app_assoc in IH.
Qed.

Lemma close_pub F v w done :
  KI w -> Pub done w -> Good (close_call F v w) ->
  forall d k t, last_tag done d k = Some t ->
                w_fs (close_call F v w) (PData d false k) = Some (File (Complete t)).
Proof.
  intros K HP G d k t Hl. change (close_call F v w) with (roll F v w) in *.
  pose proof (good_back _ _ (grows_roll F v w) G) as [Hh Hu].
  destruct (K Hu) as [FO TO]. specialize (TO Hh). specialize (HP d k t Hl). unfold is_cur in HP.
  unfold TmpOK in TO. destruct (w_cur w) as [o|] eqn:Ec.
  - destruct TO as (d0 & k0 & Hn & Ht & _). rewrite Hn in HP.
    destruct (roll_good F v w o d0 k0 Ec Hn Ht G) as (_ & _ & Efin & Eoth).
    destruct ((d0 =? d) && (k0 =? k)) eqn:E.
    + apply andb_prop in E as [A B]. apply Z.eqb_eq in A, B. subst d k.
      destruct HP as (o' & Ho & Htg). inversion Ho; subst o'. now rewrite Efin, Htg.
    + rewrite Eoth; auto. intros E'. inversion E'; subst. now rewrite !Z.eqb_refl in E.
  - assert (Er : roll F v w = w).
    { unfold roll, close_handles. rewrite Ec. unfold publish. destruct (w_name w) as [[d1 k1]|]; auto.
      destruct (exists_at (w_fs w) (PData d1 true k1)) eqn:Ex; auto.
      apply exists_at_true in Ex. apply TO in Ex. discriminate. }
    rewrite Er. exact HP.
Qed.

(* under ANY fault oracle and variant: if the channel was created, no write call reported an error,
   has_failure is clear at the end and no fault hit an unexamined operation, then every file
   addressed is under its final name, complete, with its last image -- the fault had no effect *)
Theorem fault_noop_or_reported F v rc :
  let r := wrun F v rc in
  rs_init r = true -> forallb (fun b => b) (rs_out r) = true ->
  w_hf (rs_w r) = false -> w_ud (rs_w r) = false ->
  forall d k t, last_tag (all_parts rc) d k = Some t ->
                w_fs (rs_w r) (PData d false k) = Some (File (Complete t)).
Proof.
  unfold wrun. destruct (init F v rc W0) as [w1 ok] eqn:Ei. destruct ok; [|simpl; discriminate].
  destruct (calls F v (r_calls rc) w1) as [w2 outs] eqn:Ec. simpl.
  intros _ Hall Hh Hu.
  pose proof (init_KI _ _ _ _ _ Ei eq_refl) as K1.
  pose proof (calls_KI _ _ _ _ _ _ K1 Ec) as K2.
  assert (G : Good (close_call F v w2)) by (split; auto).
  pose proof (good_back _ _ (grows_close_call F v w2) G) as G2.
  assert (HP1 : Pub [] w1) by (intros d k t Hl; discriminate).
  pose proof (calls_pub _ _ _ _ _ _ _ K1 HP1 Ec Hall G2) as HP2.
  apply (close_pub F v w2 _ K2 HP2 G).
Qed.

(* non-vacuity: a fault on a no-op operation (the O_RDWR probe of H5Fcreate) satisfies the hypotheses *)
Example noop_fault_example :
  let r := wrun (Build_fault 8 false) (mkVar Staged Checked) wit_rec in
  rs_init r = true /\ rs_out r = [true; true] /\ w_hf (rs_w r) = false /\ w_ud (rs_w r) = false /\
  snd (nth 7 (rev (w_trace (rs_w r))) (Mkdir (PDir 0), Ok)) = Err EINJ.
Proof. vm_compute. repeat split; reflexivity. Qed.

(* ---------------------------------------------------------------- when is the guard [w_ud = false] met?
   With the close path examined (Checked) and the properties file staged, the ghost flag can only be
   set by a fault inside an HDF5 call whose status the code does not look at (H5Dcreate2, attribute
   writes, H5Dset_extent: phase PhMeta) or does not make sticky (index H5Dwrite: PhIndex).  For
   recordings in which HDF5 issues no low-level operation there -- all logged runs -- it stays clear. *)
Definition examined_only (fp : filepart) : Prop :=
  Forall (fun x => snd x = PhCreate \/ snd x = PhData) (fp_pre fp).

Lemma ud_mark_checked v w : v_close v = Checked -> w_ud (mark v w) = w_ud w.
Proof. unfold mark. now intros ->. Qed.

Lemma ud_do_lows F p l : forall w w' st,
  Forall (fun x => snd x = PhCreate \/ snd x = PhData) l -> do_lows F p l w = (w', st) -> w_ud w' = w_ud w.
Proof.
  induction l as [|[kd ph] l IH]; simpl; intros w w' st Hf H.
  - now inversion H.
  - inversion Hf as [|x y Hx Hl]; subst. simpl in Hx.
    rewrite (surjective_pairing (issue F (low_op kd p) w)) in H.
    destruct (res_ok _); [apply (IH _ _ _ Hl) in H; now rewrite H, issue_ud|].
    destruct Hx as [-> | ->]; inversion H; subst; simpl; now rewrite issue_ud.
Qed.

Lemma ud_close_lows F v p l : v_close v = Checked -> forall w, w_ud (close_lows F v p l w) = w_ud w.
Proof.
  intros Hv. induction l as [|kd l IH]; simpl; intros w; auto.
  rewrite (surjective_pairing (issue F (low_op kd p) w)). rewrite IH.
  destruct (res_ok _); rewrite ?ud_mark_checked, issue_ud; auto.
Qed.

Lemma ud_close_handles F v w : v_close v = Checked -> w_ud (close_handles F v w) = w_ud w.
Proof.
  intros Hv. unfold close_handles. destruct (w_cur w); auto. destruct (w_name w) as [[d k]|]; auto.
  rewrite (surjective_pairing (issue F _ _)). simpl.
  destruct (res_ok _); rewrite ?ud_mark_checked, issue_ud, ud_close_lows; auto.
Qed.

Lemma ud_publish F v w : v_close v = Checked -> w_ud (publish F v w) = w_ud w.
Proof.
  intros Hv. unfold publish. destruct (w_name w) as [[d k]|]; auto. destruct (exists_at _ _); auto.
  destruct (w_hf w); [now rewrite issue_ud|].
  rewrite (surjective_pairing (issue F _ _)). destruct (res_ok _); rewrite ?ud_mark_checked, issue_ud; auto.
Qed.

Lemma ud_part F v fp w w' st :
  v_close v = Checked -> examined_only fp -> part F v fp w = (w', st) -> w_ud w' = w_ud w.
Proof.
  intros Hv He. unfold part. destruct (same_name _ _ _).
  - destruct (w_cur w); intros H; [apply (ud_do_lows _ _ _ _ _ _ He) in H; now rewrite H | now inversion H].
  - set (w1 := match w_cur w with Some _ => publish F v (close_handles F v w) | None => w end).
    assert (U1 : w_ud w1 = w_ud w)
      by (unfold w1; destruct (w_cur w); auto; now rewrite ud_publish, ud_close_handles).
    destruct (w_hf w1); [intros H; now inversion H; subst|].
    rewrite (surjective_pairing (issue F (Mkdir _) w1)).
    destruct (mkdir_failed _); [intros H; inversion H; subst; simpl; now rewrite issue_ud|].
    destruct (exists_at _ _); [intros H; inversion H; subst; simpl; now rewrite issue_ud|].
    rewrite (surjective_pairing (issue F (Probe _) _)).
    destruct (res_ok _); [intros H; inversion H; subst; simpl; now rewrite !issue_ud|].
    rewrite (surjective_pairing (issue F (CreateExcl _) _)).
    destruct (res_ok _); intros H.
    + apply (ud_do_lows _ _ _ _ _ _ He) in H. rewrite H. simpl. now rewrite !issue_ud.
    + inversion H; subst. simpl. now rewrite !issue_ud.
Qed.

Lemma ud_parts F v l : v_close v = Checked -> Forall examined_only l ->
  forall w w' st, parts F v l w = (w', st) -> w_ud w' = w_ud w.
Proof.
  intros Hv. induction l as [|fp l IH]; simpl; intros Hf w w' st H.
  - now inversion H.
  - inversion Hf; subst. destruct (part F v fp w) as [w1 st1] eqn:E.
    apply ud_part in E; auto. destruct st1; [rewrite (IH H3 _ _ _ H); auto | inversion H; subst; auto].
Qed.

Lemma ud_calls F v cs : v_close v = Checked -> Forall (Forall examined_only) cs ->
  forall w w' outs, calls F v cs w = (w', outs) -> w_ud w' = w_ud w.
Proof.
  intros Hv. induction cs as [|c cs IH]; simpl; intros Hf w w' outs H.
  - now inversion H.
  - inversion Hf; subst. unfold call in H. destruct (w_hf w).
    + destruct (calls F v cs w) as [w2 oks] eqn:E2. inversion H; subst. eapply IH; eauto.
    + destruct (parts F v c w) as [w1 st] eqn:E1. destruct (calls F v cs w1) as [w2 oks] eqn:E2.
      inversion H; subst. rewrite (IH H3 _ _ _ E2). eapply ud_parts; eauto.
Qed.

Lemma ud_init_staged F v rc w ok : v_props v = Staged -> init F v rc W0 = (w, ok) -> w_ud w = false.
Proof.
  intros Hv. unfold init. rewrite Hv. assert (Z0 : w_ud W0 = false) by reflexivity.
  assert (PC : forall p l w0 w1 st, props_create_lows F p l w0 = (w1, st) -> w_ud w1 = w_ud w0).
  { induction l as [|kd l IH]; simpl; intros w0 w1 st E; [now inversion E|].
    rewrite (surjective_pairing (issue F _ w0)) in E. destruct (res_ok _).
    - apply IH in E. now rewrite issue_ud in E.
    - inversion E; subst. now rewrite issue_ud. }
  assert (PL : forall p l w0 w1 b, props_close_lows F p l w0 = (w1, b) -> w_ud w1 = w_ud w0).
  { induction l as [|kd l IH]; simpl; intros w0 w1 b E; [now inversion E|].
    rewrite (surjective_pairing (issue F _ w0)) in E.
    destruct (props_close_lows F p l _) as [w2 b2] eqn:E2. inversion E; subst.
    apply IH in E2. now rewrite issue_ud in E2. }
  destruct (probe _ _); try (intros H; inversion H; subst; reflexivity).
  rewrite (surjective_pairing (issue F (Probe _) W0)).
  rewrite (surjective_pairing (issue F (CreateTrunc _) _)).
  destruct (negb _); [intros H; inversion H; subst; now rewrite !issue_ud|].
  destruct (props_create_lows F _ _ _) as [w3 st] eqn:E3. apply PC in E3. rewrite !issue_ud in E3.
  destruct st; [|intros H; inversion H; subst; now rewrite issue_ud].
  destruct (props_close_lows F _ _ w3) as [w4 ok4] eqn:E4. apply PL in E4.
  rewrite (surjective_pairing (issue F (CloseFd _ 0) w4)).
  destruct (ok4 && _).
  - rewrite (surjective_pairing (issue F (Rename _ _) _)).
    destruct (res_ok _); intros H; inversion H; subst; rewrite ?issue_ud; congruence.
  - intros H; inversion H; subst; rewrite ?issue_ud; congruence.
Qed.

Theorem checked_staged_guard F rc :
  Forall (Forall examined_only) (r_calls rc) -> w_ud (rs_w (wrun F (mkVar Staged Checked) rc)) = false.
Proof.
  intros Hf. unfold wrun. destruct (init F _ rc W0) as [w1 ok] eqn:Ei.
  pose proof (ud_init_staged F (mkVar Staged Checked) rc w1 ok eq_refl Ei) as U1.
  destruct ok; [|exact U1].
  destruct (calls F _ (r_calls rc) w1) as [w2 outs] eqn:Ec. simpl.
  unfold close_call. rewrite ud_publish, ud_close_handles by reflexivity.
  rewrite (ud_calls F (mkVar Staged Checked) _ eq_refl Hf _ _ _ Ec). exact U1.
Qed.
