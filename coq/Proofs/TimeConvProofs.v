(* C03: exactness of the regenerated (wrap-around) transcriptions of
   digital_rf_get_timestamp_floor and digital_rf_get_sample_ceil. *)
From Coq Require Import ZArith Lia Bool.
From DRF Require Import Base.U64 Base.DivLemmas Gen.TimeConvGen.
Local Open Scope Z_scope.

(* the property's domain *)
Definition Dom (k n d : Z) : Prop :=
  0 <= k < H64 /\ 0 < n < W32 /\ 0 < d <= 1000000000 /\ k * d / n < 253402300800.

Definition PS : Z := 1000000000000.

Definition floor_sec (k n d : Z) : Z := k * d / n.
Definition floor_ps (k n d : Z) : Z := ((k * d) mod n) * PS / n.

Ltac u64s := unfold u64_add, u64_mul, u64_sub, u64_div, u64_rem, cast_u64 in *.

Lemma mod_small_iff x : 0 <= x < W64 -> x mod W64 = x.
Proof. apply u64_small. Qed.

Lemma ts_floor_exact k n d : Dom k n d ->
  digital_rf_get_timestamp_floor k n d = (0, floor_sec k n d, floor_ps k n d).
Proof.
  intros (Hk & Hn & Hd & Hy).
  unfold digital_rf_get_timestamp_floor, floor_sec, floor_ps, PS. u64s.
  unfold W64, H64, W32 in *.
  pose proof (muldiv_split k n d ltac:(lia)) as Hsplit.
  pose proof (mulmod_split k n d ltac:(lia)) as Hmod.
  pose proof (Z.mod_pos_bound k n ltac:(lia)) as Hkm.
  pose proof (div_bounds k n ltac:(lia)) as Hkd.
  set (q := k / n) in *. set (r := k mod n) in *.
  assert (Hq0 : 0 <= q) by (apply Z.div_pos; lia).
  assert (Hrd : 0 <= r * d < 18446744073709551616) by nia.
  pose proof (Z.mod_pos_bound (r * d) n ltac:(lia)) as Hrm.
  pose proof (div_bounds (r * d) n ltac:(lia)) as Hrq.
  assert (Hrq0 : 0 <= r * d / n) by (apply Z.div_pos; lia).
  assert (Hqd : 0 <= q * d) by nia.
  assert (Hsum : q * d + r * d / n = k * d / n) by exact Hsplit.
  assert (Hqd2 : q * d < 18446744073709551616) by lia.
  rewrite (Z.mod_small (q * d)) by lia.
  rewrite (Z.mod_small (r * d)) by lia.
  rewrite (Z.mod_small (q * d + r * d / n)) by lia.
  rewrite Hsum, Hmod.
  set (m := (k * d) mod n) in *.
  rewrite (Z.mod_small 1000000000000) by lia.
  pose proof (Z.mod_pos_bound 1000000000000 n ltac:(lia)) as Hpm.
  pose proof (div_bounds 1000000000000 n ltac:(lia)) as Hpq.
  assert (Hpq0 : 0 <= 1000000000000 / n) by (apply Z.div_pos; lia).
  set (pq := 1000000000000 / n) in *. set (pr := 1000000000000 mod n) in *.
  assert (Hm1 : 0 <= m * pq < 18446744073709551616) by nia.
  assert (Hm2 : 0 <= m * pr < 18446744073709551616) by nia.
  rewrite (Z.mod_small (m * pq)) by lia.
  rewrite (Z.mod_small (m * pr)) by lia.
  assert (Hfin : m * pq + m * pr / n = m * 1000000000000 / n).
  { pose proof (muldiv_split 1000000000000 n m ltac:(lia)) as H.
    fold pq pr in H. rewrite (Z.mul_comm m 1000000000000).
    rewrite <- H. rewrite (Z.mul_comm pq m), (Z.mul_comm pr m). reflexivity. }
  pose proof (div_bounds (m * 1000000000000) n ltac:(lia)) as Hf.
  assert (0 <= m * 1000000000000 / n) by (apply Z.div_pos; lia).
  rewrite (Z.mod_small (m * pq + m * pr / n)) by nia.
  rewrite Hfin. reflexivity.
Qed.

(* ------------------------------------------------------------------ sample_ceil *)

Ltac stepn y :=
  lazymatch goal with
  | |- (let x := ?e in @?b x) = ?r => pose (y := e); change (b y = r); cbv beta
  end.
Tactic Notation "steps" ident(a) := stepn a.
Tactic Notation "steps" ident(a) ident(b) := stepn a; stepn b.
Tactic Notation "steps" ident(a) ident(b) ident(c) ident(d) ident(e) ident(f) :=
  stepn a; stepn b; stepn c; stepn d; stepn e; stepn f.

Lemma block a n d : 0 <= a -> 0 < n < W32 -> 0 < d <= 1000000000 -> a * n / d < W64 ->
  u64_add (u64_mul (u64_div a d) n) (u64_div (u64_mul (u64_rem a d) n) d) = a * n / d /\
  u64_rem (u64_mul (u64_rem a d) n) d = (a * n) mod d.
Proof.
  intros Ha Hn Hd Hb. u64s. unfold W64, W32 in *.
  pose proof (muldiv_split a d n ltac:(lia)) as Hs.
  pose proof (mulmod_split a d n ltac:(lia)) as Hm.
  pose proof (Z.mod_pos_bound a d ltac:(lia)) as Hr.
  assert (0 <= a / d) by (apply Z.div_pos; lia).
  assert (0 <= (a mod d) * n / d) by (apply Z.div_pos; nia).
  assert (0 <= a / d * n) by nia.
  rewrite (Z.mod_small (a / d * n)) by lia.
  rewrite (Z.mod_small (a mod d * n)) by nia.
  rewrite (Z.mod_small (a / d * n + a mod d * n / d)) by lia.
  split; assumption.
Qed.

Lemma ceil_step x c : 0 < c -> 0 <= x ->
  x / c + b2z (neqb (x mod c) 0) = cdiv x c.
Proof.
  intros Hc Hx. rewrite cdiv_exact_or_up by lia. unfold neqb, b2z.
  destruct (Z.eqb (x mod c) 0); reflexivity.
Qed.

Definition ceil_spec (s p n d : Z) : Z := cdiv ((s * PS + p) * n) (d * PS).

Lemma sample_ceil_exact s p n d : 0 <= s -> 0 <= p < PS -> 0 < n < W32 -> 0 < d <= 1000000000 ->
  ceil_spec s p n d < W64 ->
  digital_rf_get_sample_ceil s p n d = (0, ceil_spec s p n d).
Proof.
  unfold ceil_spec. intros Hs Hp Hn Hd Hres.
  unfold PS in *.
  cbv beta delta [digital_rf_get_sample_ceil].
  change (cast_u64 1000) with 1000. change (cast_u64 1000000000) with 1000000000.
  change (cast_u64 0) with 0.
  steps nanosecond picosecond.
  assert (Ens : nanosecond = p / 1000) by reflexivity.
  assert (Epp : picosecond = p mod 1000) by reflexivity.
  pose proof (Z.mod_pos_bound p 1000 ltac:(lia)) as Hpp.
  pose proof (div_bounds p 1000 ltac:(lia)) as Hns.
  assert (Hns0 : 0 <= p / 1000) by (apply Z.div_pos; lia).
  clearbody nanosecond picosecond. subst nanosecond picosecond.
  set (ns := p / 1000) in *. set (pp := p mod 1000) in *.
  steps b1a b1b b1c b1d tmp_div1 tmp_mod1. steps quotient remainder.
  (* block 1: picosecond part *)
  assert (Hb1 : pp * n / d < W64).
  { unfold W64, W32 in *. apply Z.div_lt_upper_bound; nia. }
  destruct (block pp n d ltac:(lia) Hn Hd Hb1) as [EQ1 ER1].
  change (tmp_div1 = pp * n / d) in EQ1. change (tmp_mod1 = (pp * n) mod d) in ER1.
  assert (EQ : quotient = pp * n / d) by exact EQ1.
  assert (ER : remainder = (pp * n) mod d) by exact ER1.
  clearbody quotient remainder tmp_div1 tmp_mod1.
  steps b2a b2b b2c b2d tmp_div4 tmp_mod4.
  assert (Hb2 : ns * n / d < W64).
  { unfold W64, W32 in *. apply Z.div_lt_upper_bound; nia. }
  destruct (block ns n d ltac:(lia) Hn Hd Hb2) as [ET2 EM2].
  change (tmp_div4 = ns * n / d) in ET2. change (tmp_mod4 = (ns * n) mod d) in EM2.
  clearbody tmp_div4 tmp_mod4.
  (* facts about the pieces *)
  pose proof (Z.mod_pos_bound (pp * n) d ltac:(lia)) as HR1.
  pose proof (Z.div_mod (pp * n) d ltac:(lia)) as HD1.
  pose proof (Z.mod_pos_bound (ns * n) d ltac:(lia)) as HM2.
  pose proof (Z.div_mod (ns * n) d ltac:(lia)) as HD2.
  assert (HQ1 : 0 <= pp * n / d) by (apply Z.div_pos; nia).
  assert (HT2 : 0 <= ns * n / d) by (apply Z.div_pos; nia).
  rewrite <- EQ in HQ1, HD1, Hb1. rewrite <- ER in HR1, HD1.
  rewrite <- ET2 in HT2, HD2, Hb2. rewrite <- EM2 in HM2, HD2.
  clear EQ ER ET2 EM2.
  assert (HQ1u : quotient < 1000 * W32).
  { pose proof (div_bounds (pp * n) d ltac:(lia)). unfold W32 in *. nia. }
  assert (HT2u : tmp_div4 < 1000000000 * W32).
  { pose proof (div_bounds (ns * n) d ltac:(lia)). unfold W32 in *. nia. }
  unfold W32, W64 in * |-.
  stepn remainder0.
  assert (E0 : remainder0 = remainder + tmp_mod4 * 1000).
  { subst remainder0. u64s. rewrite (Z.mod_small (tmp_mod4 * 1000)) by (unfold W64; lia).
    apply Z.mod_small. unfold W64; lia. }
  clearbody remainder0.
  stepn quotient0.
  pose proof (div_bounds remainder0 d ltac:(lia)) as Hr0.
  assert (Hr0q : 0 <= remainder0 / d <= 1000).
  { split; [apply Z.div_pos; lia|]. apply Z.lt_succ_r. apply Z.div_lt_upper_bound; nia. }
  assert (E1 : quotient0 = quotient + remainder0 / d).
  { subst quotient0. u64s. apply Z.mod_small. unfold W64; lia. }
  clearbody quotient0.
  stepn remainder1.
  assert (E2 : remainder1 = remainder0 mod d) by reflexivity.
  pose proof (Z.mod_pos_bound remainder0 d ltac:(lia)) as Hr1.
  pose proof (Z.div_mod remainder0 d ltac:(lia)) as Hr1d.
  rewrite <- E2 in Hr1, Hr1d. clearbody remainder1. clear E2.
  stepn tmp_div5.
  pose proof (div_bounds quotient0 1000 ltac:(lia)) as Hq0.
  assert (Hq0q : 0 <= quotient0 / 1000) by (apply Z.div_pos; lia).
  assert (E3 : tmp_div5 = tmp_div4 + quotient0 / 1000).
  { subst tmp_div5. u64s. apply Z.mod_small. unfold W64; lia. }
  clearbody tmp_div5.
  stepn quotient1.
  assert (E4 : quotient1 = quotient0 mod 1000) by reflexivity.
  pose proof (Z.mod_pos_bound quotient0 1000 ltac:(lia)) as Hq1.
  pose proof (Z.div_mod quotient0 1000 ltac:(lia)) as Hq1d.
  rewrite <- E4 in Hq1, Hq1d. clearbody quotient1. clear E4.
  stepn remainder2.
  assert (Hq1dd : 0 <= quotient1 * d <= 999 * d) by (clear - Hq1 Hd; nia).
  assert (E5 : remainder2 = remainder1 + quotient1 * d).
  { subst remainder2. u64s. rewrite (Z.mod_small (quotient1 * d)) by (unfold W64; lia).
    apply Z.mod_small. unfold W64; lia. }
  clearbody remainder2.
  stepn quotient2.
  assert (Hr2 : 0 <= remainder2 < 1000 * d) by lia.
  (* identity I1 *)
  assert (I1 : p * n = 1000 * (tmp_div5 * d) + remainder2).
  { assert (p = 1000 * ns + pp) by (subst ns pp; apply Z.div_mod; lia). nia. }
  stepn remainder3.
  assert (E6 : remainder3 = cdiv remainder2 1000).
  { subst remainder3. u64s.
    rewrite (Z.mod_small (b2z _)) by (pose proof (b2z_range (neqb (remainder2 mod 1000) 0)); unfold W64; lia).
    rewrite ceil_step by lia.
    apply Z.mod_small.
    assert (cdiv remainder2 1000 <= d).
    { assert (H := proj1 (cdiv_spec remainder2 1000 (cdiv remainder2 1000) ltac:(lia)) eq_refl). lia. }
    assert (0 <= cdiv remainder2 1000) by (unfold cdiv; apply Z.div_pos; lia).
    unfold W64; lia. }
  assert (Hr3 := proj1 (cdiv_spec remainder2 1000 remainder3 ltac:(lia)) (eq_sym E6)).
  clearbody remainder3.
  assert (Hr3b : 0 <= remainder3 <= d) by lia.
  (* cdiv (p*n) 1000 = quotient2*d + remainder3 *)
  assert (C1 : cdiv (p * n) 1000 = quotient2 * d + remainder3).
  { apply cdiv_spec; [lia|]. subst quotient2. lia. }
  (* second part *)
  assert (HX : cdiv ((s * 1000000000000 + p) * n) (d * 1000000000000)
               = cdiv (s * n * 1000000000 + (quotient2 * d + remainder3)) (1000000000 * d)).
  { rewrite <- C1. rewrite cdiv_cdiv by lia. f_equal; ring. }
  rewrite HX in *. clear HX.
  assert (Hq2 : 0 <= quotient2 < 1000001000 * 4294967296) by (subst quotient2; lia).
  clearbody quotient2.
  clear - Hs Hn Hd Hres Hr3b Hq2.
  set (A := quotient2 * d + remainder3) in *.
  steps b3a b3b b3c b3d tmp_div8 tmp_mod7.
  assert (Hb3 : s * n / d < 18446744073709551616).
  { set (R := cdiv (s * n * 1000000000 + A) (1000000000 * d)) in *.
    assert (H := proj1 (cdiv_spec (s * n * 1000000000 + A) (1000000000 * d) R ltac:(lia)) eq_refl).
    apply Z.div_lt_upper_bound; [lia|]. nia. }
  destruct (block s n d ltac:(lia) ltac:(unfold W32; lia) Hd Hb3) as [ET3 EM3].
  change (tmp_div8 = s * n / d) in ET3. change (tmp_mod7 = (s * n) mod d) in EM3.
  clearbody tmp_div8 tmp_mod7.
  pose proof (Z.mod_pos_bound (s * n) d ltac:(lia)) as HM3.
  pose proof (Z.div_mod (s * n) d ltac:(lia)) as HD3.
  assert (HT3 : 0 <= s * n / d) by (apply Z.div_pos; nia).
  rewrite <- ET3 in HT3, HD3, Hb3. rewrite <- EM3 in HM3, HD3. clear ET3 EM3.
  stepn remainder4.
  assert (E0 : remainder4 = remainder3 + tmp_mod7 * 1000000000).
  { subst remainder4. u64s. rewrite (Z.mod_small (tmp_mod7 * 1000000000)) by (unfold W64; lia).
    apply Z.mod_small. unfold W64; lia. }
  clearbody remainder4.
  stepn quotient3.
  pose proof (div_bounds remainder4 d ltac:(lia)) as Hr4.
  assert (Hr4q : 0 <= remainder4 / d <= 1000000000).
  { split; [apply Z.div_pos; lia|]. apply Z.lt_succ_r. apply Z.div_lt_upper_bound; nia. }
  assert (E1 : quotient3 = quotient2 + remainder4 / d).
  { subst quotient3. u64s. apply Z.mod_small. unfold W64; lia. }
  clearbody quotient3.
  stepn remainder5.
  assert (E2 : remainder5 = remainder4 mod d) by reflexivity.
  pose proof (Z.mod_pos_bound remainder4 d ltac:(lia)) as Hr5.
  pose proof (Z.div_mod remainder4 d ltac:(lia)) as Hr5d.
  rewrite <- E2 in Hr5, Hr5d. clearbody remainder5. clear E2.
  stepn tmp_div9.
  pose proof (Z.mod_pos_bound quotient3 1000000000 ltac:(lia)) as Hq4.
  pose proof (Z.div_mod quotient3 1000000000 ltac:(lia)) as Hq4d.
  assert (Hq3q : 0 <= quotient3 / 1000000000) by (apply Z.div_pos; lia).
  set (R := cdiv (s * n * 1000000000 + A) (1000000000 * d)) in *.
  assert (HR := proj1 (cdiv_spec (s * n * 1000000000 + A) (1000000000 * d) R ltac:(lia)) eq_refl).
  (* the un-wrapped values *)
  set (T9 := tmp_div8 + quotient3 / 1000000000).
  set (R6 := remainder5 + (quotient3 mod 1000000000) * d).
  assert (I2 : s * n * 1000000000 + A = 1000000000 * d * T9 + R6).
  { subst T9 R6 A. nia. }
  assert (Hq4dd : 0 <= (quotient3 mod 1000000000) * d <= 999999999 * d) by (clear - Hq4 Hd; nia).
  assert (HR6 : 0 <= R6 < 1000000000 * d) by (subst R6; lia).
  assert (HT9 : 0 <= T9 <= R).
  { split; [subst T9; lia|].
    apply (Z.mul_le_mono_pos_l _ _ (1000000000 * d)); lia. }
  assert (E3 : tmp_div9 = T9).
  { subst tmp_div9. u64s. apply Z.mod_small. unfold W64; lia. }
  clearbody tmp_div9.
  stepn quotient4.
  assert (E4 : quotient4 = quotient3 mod 1000000000) by reflexivity.
  clearbody quotient4.
  stepn remainder6.
  assert (E5 : remainder6 = R6).
  { subst remainder6 R6. u64s. rewrite E4.
    rewrite (Z.mod_small (_ * d)) by (unfold W64; lia).
    apply Z.mod_small. unfold W64; lia. }
  clearbody remainder6.
  stepn quotient5. stepn remainder7.
  assert (E6 : remainder7 = cdiv R6 1000000000).
  { subst remainder7. u64s. rewrite E5.
    rewrite (Z.mod_small (b2z _)) by (pose proof (b2z_range (neqb (R6 mod 1000000000) 0)); unfold W64; lia).
    rewrite ceil_step by lia.
    apply Z.mod_small.
    assert (H := proj1 (cdiv_spec R6 1000000000 (cdiv R6 1000000000) ltac:(lia)) eq_refl).
    unfold W64; lia. }
  assert (Hr7 := proj1 (cdiv_spec R6 1000000000 remainder7 ltac:(lia)) (eq_sym E6)).
  clearbody remainder7.
  stepn quotient6. stepn sample_index_out.
  subst sample_index_out quotient6 quotient5. u64s. f_equal.
  rewrite E3.
  destruct (Z.eqb_spec remainder7 0) as [Hz|Hnz]; unfold neqb.
  - rewrite (proj2 (Z.eqb_eq remainder7 0) Hz). cbn [negb b2z].
    rewrite (Z.mod_small 0) by (unfold W64; lia). rewrite Z.add_0_r.
    rewrite Z.mod_small by (unfold W64; lia).
    symmetry. apply cdiv_spec; [lia|]. rewrite I2. lia.
  - rewrite (proj2 (Z.eqb_neq remainder7 0) Hnz). cbn [negb b2z].
    rewrite (Z.mod_small 1) by (unfold W64; lia).
    assert (R = T9 + 1). { apply cdiv_spec; [lia|]. rewrite I2. lia. }
    rewrite Z.mod_small by (unfold W64; lia). lia.
Qed.

(* ------------------------------------------------------------------ round trip, monotonicity *)

Definition total_ps (k n d : Z) : Z := k * d * PS / n.

Lemma floor_total k n d : 0 < n -> 0 <= k -> 0 < d ->
  floor_sec k n d * PS + floor_ps k n d = total_ps k n d /\ 0 <= floor_ps k n d < PS.
Proof.
  intros Hn Hk Hd. unfold floor_sec, floor_ps, total_ps, PS.
  pose proof (Z.div_mod (k * d) n ltac:(lia)) as E.
  pose proof (Z.mod_pos_bound (k * d) n ltac:(lia)) as Hm.
  set (q := k * d / n) in *. set (m := (k * d) mod n) in *.
  split.
  - replace (k * d * 1000000000000) with (m * 1000000000000 + (q * 1000000000000) * n) by (rewrite E; ring).
    rewrite Z.div_add by lia. ring.
  - split; [apply Z.div_pos; nia|]. apply Z.div_lt_upper_bound; nia.
Qed.

Lemma ceil_of_floor k n d : 0 < n -> 0 <= k -> 0 < d -> n <= d * PS ->
  ceil_spec (floor_sec k n d) (floor_ps k n d) n d = k.
Proof.
  intros Hn Hk Hd Hp. unfold ceil_spec.
  destruct (floor_total k n d Hn Hk Hd) as [E _]. rewrite E. unfold total_ps.
  pose proof (div_bounds (k * d * PS) n Hn) as Hb.
  set (T := k * d * PS / n) in *.
  apply cdiv_spec; [unfold PS; lia|]. unfold PS in *. nia.
Qed.

Lemma ceil_floor_roundtrip k n d : Dom k n d -> n <= d * PS ->
  let '(_, s, p) := digital_rf_get_timestamp_floor k n d in
  digital_rf_get_sample_ceil s p n d = (0, k).
Proof.
  intros HD Hp. rewrite (ts_floor_exact k n d HD).
  destruct HD as (Hk & Hn & Hd & Hy).
  destruct (floor_total k n d ltac:(lia) ltac:(lia) ltac:(lia)) as [_ Hps].
  assert (Hc := ceil_of_floor k n d ltac:(lia) ltac:(lia) ltac:(lia) Hp).
  rewrite sample_ceil_exact; try assumption.
  - rewrite Hc. reflexivity.
  - unfold floor_sec. apply Z.div_pos; nia.
  - rewrite Hc. unfold H64, W64 in *. lia.
Qed.

Definition lex_le (a b : Z * Z) : Prop := fst a < fst b \/ (fst a = fst b /\ snd a <= snd b).

Lemma ts_floor_monotone k k' n d : Dom k n d -> Dom k' n d -> k <= k' ->
  let '(_, s, p) := digital_rf_get_timestamp_floor k n d in
  let '(_, s', p') := digital_rf_get_timestamp_floor k' n d in
  lex_le (s, p) (s', p').
Proof.
  intros HD HD' Hle. rewrite (ts_floor_exact _ _ _ HD), (ts_floor_exact _ _ _ HD').
  destruct HD as (Hk & Hn & Hd & _). destruct HD' as (Hk' & _ & _ & _).
  destruct (floor_total k n d ltac:(lia) ltac:(lia) ltac:(lia)) as [E Hp].
  destruct (floor_total k' n d ltac:(lia) ltac:(lia) ltac:(lia)) as [E' Hp'].
  assert (HT : total_ps k n d <= total_ps k' n d).
  { unfold total_ps. apply Z.div_le_mono; [lia|]. unfold PS. nia. }
  unfold lex_le; cbn [fst snd]. unfold PS in *. nia.
Qed.

(* non-vacuity: the suite's own rate and a 2017 index *)
Example dom_example : Dom 100000000000 200 3.
Proof. unfold Dom, H64, W32. repeat split; try lia; vm_compute; reflexivity. Qed.

(* ------------------------------------------------------------------ calendar wrapper *)
From DRF Require Import Base.Civil Model.TimeParts.

Lemma unix_time_rational_exact k n d : Dom k n d ->
  digital_rf_get_unix_time_rational k n d =
    (let '(y, mo, dd, hh, mi, ss) := time_parts (floor_sec k n d) in
     (0, y, mo, dd, hh, mi, ss, floor_ps k n d)).
Proof.
  intros HD. unfold digital_rf_get_unix_time_rational.
  rewrite (ts_floor_exact k n d HD). cbn [Z.eqb negb].
  destruct HD as (Hk & Hn & Hd & Hy).
  assert (0 <= floor_sec k n d) by (unfold floor_sec; apply Z.div_pos; nia).
  rewrite cast_i64_small by (unfold floor_sec, H64 in *; lia).
  unfold digital_rf_get_time_parts.
  destruct (time_parts (floor_sec k n d)) as [[[[[y mo] dd] hh] mi] ss].
  reflexivity.
Qed.
