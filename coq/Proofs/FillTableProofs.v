(* C07: the fill table regenerated from digital_rf_set_fill_value (Gen/FillTable.v, translator T5:
   the function's AST executed once per cell) -- every cell returns 0, makes exactly one
   H5Pset_fill_value call, under the complex type id iff the channel is complex, and the bytes passed
   decode -- as the stored type, in the file's byte order, in both components -- to the missing value.
   It also coincides with the hand model Model/FillValue.v (kept for the refuted pre-fix variant). *)
From Coq Require Import ZArith List Bool.
From DRF Require Import Model.FillValue Proofs.FillProofs Gen.FillTable.
Import ListNotations.
Local Open Scope Z_scope.

Definition kindb (a b : kind) : bool := match a, b with KI, KI | KU, KU | KF, KF => true | _, _ => false end.
Definition cell_eqb (a b : cell) : bool :=
  kindb (ck a) (ck b) && (csz a =? csz b) && Bool.eqb (cbe a) (cbe b) && Bool.eqb (ccx a) (ccx b).

Lemma cell_eqb_eq a b : cell_eqb a b = true -> a = b.
Proof.
  destruct a as [k s be cx], b as [k' s' be' cx']. unfold cell_eqb. cbn [ck csz cbe ccx]. intros H.
  apply andb_true_iff in H as [H Hc]. apply andb_true_iff in H as [H Hb]. apply andb_true_iff in H as [Hk Hs].
  apply Z.eqb_eq in Hs. apply Bool.eqb_prop in Hb, Hc. destruct k, k'; try discriminate; congruence.
Qed.

Definition table_lookup (c : cell) : option (Z * list (bool * list Z)) :=
  match find (fun e => cell_eqb (fst e) c) fill_table with Some e => Some (snd e) | None => None end.

(* what the property needs of one entry *)
Definition entry_ok (c : cell) (e : Z * list (bool * list Z)) : bool :=
  match e with
  | (0, [(cxid, img)]) =>
      Bool.eqb cxid (ccx c) &&
      (Z.of_nat (List.length img) =? (if ccx c then 2 * csz c else csz c)) &&
      forallb (fun comp => is_missing c (raw_value c comp)) (components c img)
  | _ => false
  end.

Definition table_cell_ok (c : cell) : bool :=
  match table_lookup c with Some e => entry_ok c e | None => false end.

Lemma regenerated_table_all_ok : forallb table_cell_ok all_cells = true.
Proof. vm_compute. reflexivity. Qed.

Theorem regenerated_fill_decodes_to_missing : forall k sz be cx,
  In (k, sz) [(KI, 1); (KI, 2); (KI, 4); (KI, 8); (KU, 1); (KU, 2); (KU, 4); (KU, 8); (KF, 4); (KF, 8)] ->
  exists img, table_lookup (mkCell k sz be cx) = Some (0, [(cx, img)]) /\
              Z.of_nat (List.length img) = (if cx then 2 * sz else sz) /\
              forallb (fun comp => is_missing (mkCell k sz be cx) (raw_value (mkCell k sz be cx) comp))
                      (components (mkCell k sz be cx) img) = true.
Proof.
  intros k sz be cx H.
  pose proof regenerated_table_all_ok as Hall. rewrite forallb_forall in Hall.
  specialize (Hall _ (all_cells_complete k sz be cx H)). unfold table_cell_ok in Hall.
  destruct (table_lookup (mkCell k sz be cx)) as [[r calls]|]; [|discriminate].
  unfold entry_ok in Hall. cbn [ccx csz] in Hall.
  destruct r; try discriminate. destruct calls as [|[cxid img] [|]]; try discriminate.
  apply andb_true_iff in Hall as [Hall Hm]. apply andb_true_iff in Hall as [Hc Hl].
  apply Bool.eqb_prop in Hc. subst cxid. apply Z.eqb_eq in Hl.
  exists img. auto.
Qed.

(* the regenerated table is the hand model *)
Theorem regenerated_table_is_hand_model :
  forallb (fun c => match table_lookup c with
                    | Some (0, [(cxid, img)]) => Bool.eqb cxid (ccx c) && (if list_eq_dec Z.eq_dec img (fill_image c) then true else false)
                    | _ => false end) all_cells = true.
Proof. vm_compute. reflexivity. Qed.

(* nothing but the forty cells is in the table, each once *)
Theorem regenerated_table_domain : map fst fill_table = all_cells.
Proof. vm_compute. reflexivity. Qed.
