(* The element-type table regenerated from the extension is faithful, and composed with the
   fill-value table (Model/FillValue.v) gives the missing value of the REQUESTED numpy type. *)
From Coq Require Import ZArith List Bool String.
From DRF Require Import Model.FillValue Proofs.FillProofs Model.Dtype Gen.DtypeTable.
Import ListNotations.
Local Open Scope Z_scope.

Definition table_ok (d : npdt) : bool :=
  match get_hdf5_data_type (byteorder_char d) (kind_char d) (nsz d) with
  | Some name => match h5_predef name with Some h => faithful d h | None => false end
  | None => false
  end.

Lemma table_all_ok : forallb table_ok all_npdt = true.
Proof. vm_compute. reflexivity. Qed.

Lemma all_npdt_complete k sz be :
  In (k, sz) [(KI, 1); (KI, 2); (KI, 4); (KI, 8); (KU, 1); (KU, 2); (KU, 4); (KU, 8); (KF, 4); (KF, 8)] ->
  In (mkNp k sz be) all_npdt.
Proof.
  intros H. unfold all_npdt. apply in_flat_map. exists (k, sz). split; [exact H|].
  cbn [fst snd map]. destruct be; cbn; auto.
Qed.

Lemma kind_eqb_eq a b : kind_eqb a b = true -> a = b.
Proof. destruct a, b; simpl; congruence. Qed.

(* every dtype the writer accepts is stored as an HDF5 type of the same class, signedness, size and
   (beyond one byte) byte order *)
Theorem dtype_table_faithful : forall k sz be,
  In (k, sz) [(KI, 1); (KI, 2); (KI, 4); (KI, 8); (KU, 1); (KU, 2); (KU, 4); (KU, 8); (KF, 4); (KF, 8)] ->
  exists name k' sz' be',
    get_hdf5_data_type (byteorder_char (mkNp k sz be)) (kind_char (mkNp k sz be)) sz = Some name /\
    h5_predef name = Some (k', sz', be') /\ k' = k /\ sz' = sz /\ (sz = 1 \/ be' = be).
Proof.
  intros k sz be H.
  pose proof table_all_ok as Hall. rewrite forallb_forall in Hall.
  specialize (Hall _ (all_npdt_complete k sz be H)). unfold table_ok in Hall. cbn [nsz] in Hall.
  destruct (get_hdf5_data_type _ _ sz) as [name|] eqn:Eg; [|discriminate].
  destruct (h5_predef name) as [[[k' sz'] be']|] eqn:Ep; [|discriminate].
  exists name, k', sz', be'. split; [reflexivity|]. split; [exact Ep|].
  unfold faithful in Hall. cbn [nk nsz nbe] in Hall.
  apply andb_true_iff in Hall as [Hall Ho]. apply andb_true_iff in Hall as [Hk Hs].
  split; [apply kind_eqb_eq, Hk|]. split; [apply Z.eqb_eq, Hs|].
  apply orb_true_iff in Ho as [Ho|Ho]; [left; apply Z.eqb_eq, Ho|right; apply Bool.eqb_prop, Ho].
Qed.

(* composition with the fill table: whatever numpy type was requested, real or complex, the never
   written slots of a continuous file decode to the missing value OF THAT TYPE (the cell the C library
   sees is the one of the HDF5 type the table chose) *)
Theorem requested_type_fill_is_missing : forall k sz be cx,
  In (k, sz) [(KI, 1); (KI, 2); (KI, 4); (KI, 8); (KU, 1); (KU, 2); (KU, 4); (KU, 8); (KF, 4); (KF, 8)] ->
  exists name k' sz' be',
    get_hdf5_data_type (byteorder_char (mkNp k sz be)) (kind_char (mkNp k sz be)) sz = Some name /\
    h5_predef name = Some (k', sz', be') /\ k' = k /\ sz' = sz /\ (sz = 1 \/ be' = be) /\
    cell_ok (mkCell k' sz' be' cx) = true.
Proof.
  intros k sz be cx H.
  destruct (dtype_table_faithful k sz be H) as (name & k' & sz' & be' & Hg & Hp & Hk & Hs & Ho).
  exists name, k', sz', be'. repeat split; try assumption.
  subst k' sz'. apply fill_decodes_to_missing. apply all_cells_complete. exact H.
Qed.

(* anything else is refused: an unknown kind character yields no type (RuntimeError in init) *)
Example unknown_kind_refused : get_hdf5_data_type 60 99 4 = None /\ get_hdf5_data_type 60 105 3 = None.
Proof. vm_compute. split; reflexivity. Qed.
