(* The Python front end of the writer as regenerated from the source (Gen/PyFront.v, translator T6)
   coincides with the hand model Model/PyWriter.v on every input: the resolution of next_sample and the
   not-in-the-past test of rf_write, the validation chain of rf_write_blocks, and the counter updates
   after the extension call.  So the theorems about PyWriter are theorems about what the current source
   says. *)
From Coq Require Import ZArith List Bool Lia.
From DRF Require Import Model.IndexCalc Model.WriterCore Model.PyWriter Proofs.WriterBasics Proofs.WriterInv Gen.PyFront.
Import ListNotations.
Local Open Scope Z_scope.

Lemma resolve_regen next ns : gen_resolve next ns = match ns with Some x => x | None => next end.
Proof. destruct ns; reflexivity. Qed.

(* rf_write, as a whole, in terms of the regenerated pieces *)
Theorem py_rf_write_regen c ps ns vec :
  py_rf_write FromCursor c ps ns vec =
  let ns' := gen_resolve (p_next ps) ns in
  if gen_write_in_past (p_next ps) ns' then ((ValueError, 0), ps)
  else if p_closed ps then ((IOError, 0), ps)
  else let '(rc, w') := write_one c (p_w ps) ns' vec in
       if negb (rc =? 0) then ((RuntimeError, 0), mkPy (p_next ps) (p_written ps) (p_gap ps) false w')
       else let '(nx, wr, gp, ret) := gen_write_counters (p_next ps) (p_written ps) (p_gap ps) (w_gi w') (zlen vec) in
            ((OK, ret), mkPy nx wr gp false w').
Proof.
  unfold py_rf_write, gen_write_in_past, gen_write_counters. rewrite resolve_regen. cbv zeta.
  destruct (_ <? p_next ps); [reflexivity|]. destruct (p_closed ps); [reflexivity|].
  destruct (write_one c (p_w ps) _ vec) as [rc w']. destruct (negb (rc =? 0)); reflexivity.
Qed.

(* the validation chain of rf_write_blocks raises exactly when the hand model's predicate is false *)
Theorem blocks_checks_regen next vlen G D : G <> [] -> D <> [] ->
  py_arrays_ok next vlen G D = negb (existsb (fun b => b) (gen_blocks_checks next vlen G D)).
Proof.
  intros HG HD. destruct G as [|g0 G']; [congruence|]. destruct D as [|d0 D']; [congruence|].
  unfold py_arrays_ok, gen_blocks_checks. cbn [hd existsb].
  destruct (g0 <? next); cbn [negb andb orb]; [reflexivity|].
  destruct (d0 =? 0); cbn [negb andb orb]; [|reflexivity].
  destruct (Nat.eqb (length (g0 :: G')) (length (d0 :: D'))); cbn [negb andb orb]; [|reflexivity].
  destruct (existsb (fun x => x <? 1) (diffs (d0 :: D'))); cbn [negb andb orb]; [reflexivity|].
  destruct (existsb (fun x => x <? 1) (diffs (g0 :: G'))); cbn [negb andb orb]; [reflexivity|].
  destruct (last (d0 :: D') 0 >=? vlen); cbn [negb andb orb]; [reflexivity|].
  destruct (any2 Z.gtb (diffs (d0 :: D')) (diffs (g0 :: G'))); reflexivity.
Qed.

(* the first check that fires is the one the model reports (same order): codes 1..7 *)
Fixpoint first_true (l : list bool) (i : Z) : Z :=
  match l with [] => 0 | b :: tl => if b then i else first_true tl (i + 1) end.

Theorem blocks_first_failure_regen c ps G D vec : G <> [] -> D <> [] ->
  py_arrays_ok (p_next ps) (zlen vec) G D = false ->
  py_rf_write_blocks c ps G D vec = ((ValueError, first_true (gen_blocks_checks (p_next ps) (zlen vec) G D) 1), ps).
Proof.
  intros HG HD. destruct G as [|g0 G']; [congruence|]. destruct D as [|d0 D']; [congruence|].
  unfold py_arrays_ok, py_rf_write_blocks, gen_blocks_checks. fold (zlen vec). cbn [hd first_true].
  destruct (g0 <? p_next ps); cbn [negb andb]; [reflexivity|].
  destruct (d0 =? 0); cbn [negb andb]; [|reflexivity].
  destruct (Nat.eqb (length (g0 :: G')) (length (d0 :: D'))); cbn [negb andb]; [|reflexivity].
  destruct (existsb (fun x => x <? 1) (diffs (d0 :: D'))); cbn [negb andb]; [reflexivity|].
  destruct (existsb (fun x => x <? 1) (diffs (g0 :: G'))); cbn [negb andb]; [reflexivity|].
  destruct (last (d0 :: D') 0 >=? zlen vec); cbn [negb andb]; [reflexivity|].
  destruct (any2 Z.gtb (diffs (d0 :: D')) (diffs (g0 :: G'))); cbn [negb]; [reflexivity|discriminate].
Qed.

(* the counter update of an accepted rf_write_blocks call is the regenerated one *)
Theorem blocks_counters_regen c ps G D vec :
  py_arrays_ok (p_next ps) (zlen vec) G D = true -> p_closed ps = false ->
  py_rf_write_blocks c ps G D vec =
    (let '(rc, w') := if c_cont c && (1 <? Z.of_nat (length G)) then split_blocks c (p_w ps) G D vec (zlen vec)
                      else write_blocks c (p_w ps) (combine G D) vec in
     if negb (rc =? 0) then ((RuntimeError, 0), mkPy (p_next ps) (p_written ps) (p_gap ps) false w')
     else let '(nx, wr, gp, ret) := gen_blocks_counters (p_next ps) (p_written ps) (p_gap ps) (w_gi w') (zlen vec) in
          ((OK, ret), mkPy nx wr gp false w')).
Proof.
  intros Hok Hcl. unfold gen_blocks_counters.
  unfold py_arrays_ok, py_rf_write_blocks in *. fold (zlen vec).
  destruct G as [|g0 G']; [discriminate|]. destruct D as [|d0 D']; [discriminate|].
  repeat (apply andb_true_iff in Hok as [Hok ?]).
  repeat match goal with Hx : negb _ = true |- _ => apply negb_true_iff in Hx end.
  repeat match goal with Hx : _ = false |- _ => rewrite Hx end.
  repeat match goal with Hx : _ = true |- _ => rewrite Hx end.
  cbn [negb]. reflexivity.
Qed.
