(* C01 at the level of the public API: what DigitalRFReader.read (the reader model of C08) returns on
   the files the writer holds after ANY history of rf_write / rf_write_blocks calls is the canonical
   block list of the Spec map -- every accepted sample at its index with its value, contiguous samples
   as one block across files and subdirectories, split exactly at the gaps. *)
From Coq Require Import ZArith List Bool Lia.
From DRF Require Import Base.DivLemmas Base.Runs Model.LayoutSpec Model.Ld80 Model.ReaderCore Proofs.ReaderProofs
  Model.IndexCalc Model.WriterCore Model.PyWriter Proofs.WriterBasics Proofs.WriterInv Proofs.WriterInvU
  Proofs.WriterMultiIdx Proofs.WriterMulti Proofs.PyWriterProofs Proofs.RoundTrip Proofs.PyApiHistory.
Import ListNotations.
Local Open Scope Z_scope.

(* any writer state in the refinement relation reads back as the Spec map (chunked layouts) *)
Lemma roundtrip_of_refines c st sp s e : vcfg c -> 0 < c_sc c -> (c_sc c * 1000) mod c_fc c = 0 ->
  refines c st sp ->
  read ExactRational (rc_of c) (map (to_rfile c) (all_files st)) s e = runs (s_map sp) s e.
Proof.
  intros Hc Hsc Hrule (HI & Hgi & Hlk & Hso).
  rewrite (reader_refines (rc_of c) _ s e (Inv_FilesInv c _ Hc Hsc Hrule HI Hso)).
  apply runs_ext. intros k _. rewrite files_abs_lookup. apply Hlk.
Qed.

(* un-chunked continuous layout: the reader returns the canonical blocks of what the files expose,
   which by refines_u is every written sample and the fill value in every other slot of every file
   that holds a written sample *)
Lemma roundtrip_of_refines_u c st sp s e : vcfg c -> 0 < c_sc c -> (c_sc c * 1000) mod c_fc c = 0 ->
  refines_u c st sp ->
  read ExactRational (rc_of c) (map (to_rfile c) (all_files st)) s e = runs (lookup_st st) s e.
Proof.
  intros Hc Hsc Hrule [[_ Hf Ho] _ _ _ _ Hso].
  assert (HFI : FilesInv (rc_of c) (map (to_rfile c) (all_files st))).
  { destruct Hc as (Hn & Hd & Hfc & Hs0). split; [|split].
    - unfold cfg_ok. cbn [rn rd fcad scad rc_of]. auto.
    - apply Forall_map. unfold all_files. apply Forall_app. split.
      + eapply Forall_impl; [|exact Hf]. intros a (H & _). apply FWFu_file_ok; [repeat split; assumption|assumption|exact H].
      + destruct (w_openf st) as [a|]; [|constructor]. constructor; [|constructor].
        destruct Ho as (_ & H & _). apply FWFu_file_ok; [repeat split; assumption|assumption|exact H].
    - apply ms_incr_sorted. exact Hso. }
  rewrite (reader_refines (rc_of c) _ s e HFI).
  apply runs_ext. intros k _. rewrite files_abs_lookup. reflexivity.
Qed.

Theorem api_roundtrip_gapped c ops s e : vcfg c -> 0 < c_sc c -> (c_sc c * 1000) mod c_fc c = 0 ->
  c_chunk c = true -> c_cont c = false -> Forall api_arg_ok ops ->
  read ExactRational (rc_of c) (map (to_rfile c) (all_files (p_w (fold_left (api_state c) ops py_init)))) s e
  = runs (s_map (fold_left (api_spec_gapped c) ops spec_init)) s e.
Proof.
  intros Hc Hsc Hrule Hch Hco Hops.
  destruct (api_history_gapped c ops Hc Hch Hco Hops) as (_ & HR & _).
  apply roundtrip_of_refines; assumption.
Qed.

Theorem api_roundtrip_continuous_chunked c ops s e : vcfg c -> 0 < c_sc c -> (c_sc c * 1000) mod c_fc c = 0 ->
  c_chunk c = true -> c_cont c = true -> Forall api_arg_ok ops ->
  read ExactRational (rc_of c) (map (to_rfile c) (all_files (p_w (fold_left (api_state c) ops py_init)))) s e
  = runs (s_map (fold_left (api_spec_cont c) ops spec_init)) s e.
Proof.
  intros Hc Hsc Hrule Hch Hco Hops.
  destruct (api_history_continuous_chunked c ops Hc Hch Hco Hops) as (_ & HR & _).
  apply roundtrip_of_refines; assumption.
Qed.

Theorem api_roundtrip_continuous_unchunked c ops s e : vcfg c -> 0 < c_sc c -> (c_sc c * 1000) mod c_fc c = 0 ->
  c_chunk c = false -> c_cont c = true -> Forall api_arg_ok ops ->
  let st := p_w (fold_left (api_state c) ops py_init) in
  read ExactRational (rc_of c) (map (to_rfile c) (all_files st)) s e = runs (lookup_st st) s e /\
  refines_u c st (fold_left (api_spec_cont c) ops spec_init).
Proof.
  intros Hc Hsc Hrule Hch Hco Hops st.
  destruct (api_history_continuous_unchunked c ops Hc Hch Hco Hops) as (_ & HR & _). fold st in HR.
  split; [|exact HR]. apply (roundtrip_of_refines_u c st _ s e Hc Hsc Hrule HR).
Qed.

(* ---------- several sessions (C11): a channel recorded by restarting the writer reads back as the
   union of all sessions' samples.  Histories of block calls and forward restarts (each new session
   begins at or after the end of every file period holding a recorded sample). *)
From DRF Require Import Proofs.WriterSessions.

Lemma sessions_keep_rate ops : forall c st,
  let c' := fst (fold_left sstep_model ops (c, st)) in
  c_n c' = c_n c /\ c_d c' = c_d c /\ c_fc c' = c_fc c /\ c_sc c' = c_sc c.
Proof.
  induction ops as [|op ops IH]; intros c st; cbn [fold_left fst]; [auto|].
  destruct op as [bl vec|s']; cbn [sstep_model].
  - apply IH.
  - specialize (IH (with_start c s') (restart st)). cbn zeta in IH. cbn [with_start c_n c_d c_fc c_sc] in IH. exact IH.
Qed.

Theorem sessions_roundtrip c ops s e : vcfg c -> 0 < c_sc c -> (c_sc c * 1000) mod c_fc c = 0 ->
  c_chunk c = true -> ok_history (c, spec_init) ops ->
  let '(c', st') := fold_left sstep_model ops (c, init_state) in
  let '(_, s') := fold_left sstep_spec ops (c, spec_init) in
  read ExactRational (rc_of c') (map (to_rfile c') (all_files st')) s e = runs (s_map s') s e.
Proof.
  intros Hc Hsc Hrule Hch Hok.
  pose proof (sessions_refine ops c init_state spec_init Hc Hch
                ltac:(split; [apply Inv_init|]; split; [reflexivity|]; split; [reflexivity|exact I]) Hok) as H.
  pose proof (sessions_keep_rate ops c init_state) as Hk. cbn zeta in Hk.
  destruct (fold_left sstep_model ops (c, init_state)) as [c' st'].
  destruct (fold_left sstep_spec ops (c, spec_init)) as [c'' s'].
  destruct H as (_ & Hc' & HR). cbn [fst] in Hk. destruct Hk as (Hn & Hd & Hf & Hs).
  apply roundtrip_of_refines; try assumption; [rewrite Hs; exact Hsc|rewrite Hs, Hf; exact Hrule].
Qed.

(* ---------- every channel the writer produces satisfies the reader's invariant (C08): the hypothesis
   FilesInv of all reader-coherence theorems holds for the files after ANY public-API history *)
Lemma InvU_FilesInv c st : vcfg c -> 0 < c_sc c -> (c_sc c * 1000) mod c_fc c = 0 ->
  InvU c st -> ms_incr (map f_ms (all_files st)) ->
  FilesInv (rc_of c) (map (to_rfile c) (all_files st)).
Proof.
  intros Hc Hsc Hrule [_ Hf Ho] Hso. destruct Hc as (Hn & Hd & Hfc & Hs0).
  split; [|split].
  - unfold cfg_ok. cbn [rn rd fcad scad rc_of]. auto.
  - apply Forall_map. unfold all_files. apply Forall_app. split.
    + eapply Forall_impl; [|exact Hf]. intros a (H & _). apply FWFu_file_ok; [repeat split; assumption|assumption|exact H].
    + destruct (w_openf st) as [a|]; [|constructor]. constructor; [|constructor].
      destruct Ho as (_ & H & _). apply FWFu_file_ok; [repeat split; assumption|assumption|exact H].
  - apply ms_incr_sorted. exact Hso.
Qed.

Theorem api_files_reader_invariant c ops : vcfg c -> 0 < c_sc c -> (c_sc c * 1000) mod c_fc c = 0 ->
  Forall api_arg_ok ops ->
  (c_chunk c = true \/ c_cont c = true) ->
  FilesInv (rc_of c) (map (to_rfile c) (all_files (p_w (fold_left (api_state c) ops py_init)))).
Proof.
  intros Hc Hsc Hrule Hops Hmode.
  destruct (c_chunk c) eqn:Hch.
  - destruct (c_cont c) eqn:Hco.
    + destruct (api_history_continuous_chunked c ops Hc Hch Hco Hops) as (_ & (HI & _ & _ & Hso) & _).
      apply Inv_FilesInv; assumption.
    + destruct (api_history_gapped c ops Hc Hch Hco Hops) as (_ & (HI & _ & _ & Hso) & _).
      apply Inv_FilesInv; assumption.
  - destruct Hmode as [Hx|Hco]; [discriminate|].
    destruct (api_history_continuous_unchunked c ops Hc Hch Hco Hops) as (_ & HR & _).
    apply InvU_FilesInv; try assumption; [exact (ru_inv _ _ _ HR)|exact (ru_sorted _ _ _ HR)].
Qed.
