(* C13: exactness of the Digital Metadata file placement (writer) and of the reader's candidate
   file list, and their agreement.  Exact variant = the integer arithmetic of the current code;
   the LongDouble variant (pre-fix code) is refuted on a concrete witness. *)
From Coq Require Import ZArith List Bool Lia Sorted.
From DRF Require Import Base.DivLemmas Model.Ld80 Model.MdPlace.
Import ListNotations.
Local Open Scope Z_scope.

Definition cfg_ok (c : cfg) : Prop :=
  0 < rn c /\ 0 < rd c /\ 0 < fc c /\ 0 < sc c /\ sc c mod fc c = 0.

(* x rounded down to a multiple of m *)
Definition round_down (x m : Z) : Z := m * (x / m).

Lemma round_down_spec x m r : 0 < m ->
  (r = round_down x m <-> (exists j, r = m * j) /\ r <= x < r + m).
Proof.
  intros Hm. unfold round_down. split.
  - intros ->. split; [eexists; reflexivity|]. pose proof (div_bounds x m Hm). lia.
  - intros [[j ->] H]. f_equal. symmetry. apply div_unique_pos; lia.
Qed.

Lemma round_down_mono x y m : 0 < m -> x <= y -> round_down x m <= round_down y m.
Proof. intros Hm H. unfold round_down. pose proof (Z.div_le_mono x y m Hm H). nia. Qed.

Lemma round_down_le x m : 0 < m -> round_down x m <= x < round_down x m + m.
Proof. intros Hm. unfold round_down. pose proof (div_bounds x m Hm). lia. Qed.

Definition sec_of (c : cfg) (k : Z) : Z := k * rd c / rn c.

Lemma sec_of_nonneg c k : cfg_ok c -> 0 <= k -> 0 <= sec_of c k.
Proof. intros (Hn & Hd & _) Hk. unfold sec_of. apply Z.div_pos; nia. Qed.

Lemma sec_of_mono c k k' : cfg_ok c -> k <= k' -> sec_of c k <= sec_of c k'.
Proof. intros (Hn & Hd & _) H. unfold sec_of. apply Z.div_le_mono; nia. Qed.

(* ---- writer ---- *)
Lemma writer_file_exact c k : w_file_ts Exact c k = round_down (k * rd c / rn c) (fc c).
Proof. unfold w_file_ts, w_file_idx, round_down. ring. Qed.

Lemma reader_ts_exact c k : r_ts Exact c k = round_down (k * rd c / rn c) (fc c).
Proof. unfold r_ts, r_sec, round_down. ring. Qed.

Lemma reader_ts_is_writer_ts c k : r_ts Exact c k = w_file_ts Exact c k.
Proof. rewrite writer_file_exact, reader_ts_exact. reflexivity. Qed.

Lemma w_file_ts_mono c k k' : cfg_ok c -> k <= k' -> w_file_ts Exact c k <= w_file_ts Exact c k'.
Proof.
  intros Hc H. rewrite !writer_file_exact. apply round_down_mono; [apply Hc|].
  apply (sec_of_mono c k k' Hc H).
Qed.

Lemma sub_of_round c x : cfg_ok c -> sub_of c (round_down x (fc c)) = round_down x (sc c).
Proof.
  intros (Hn & Hd & Hf & Hs & Hm). unfold sub_of, round_down.
  assert (E : sc c = fc c * (sc c / fc c)).
  { pose proof (Z.div_mod (sc c) (fc c) ltac:(lia)). lia. }
  set (m := sc c / fc c) in *.
  assert (0 < m) by nia.
  rewrite E at 1.
  rewrite Z.div_mul_cancel_l by lia.
  rewrite Z.div_div by lia.
  rewrite <- E. ring.
Qed.

Lemma subdir_exact c k : cfg_ok c ->
  fst (w_path Exact c k) = round_down (w_file_ts Exact c k) (sc c) /\
  fst (w_path Exact c k) = round_down (k * rd c / rn c) (sc c).
Proof.
  intros Hc. unfold w_path. cbn [fst]. split.
  - unfold sub_of, round_down. ring.
  - rewrite writer_file_exact. apply sub_of_round; assumption.
Qed.

Lemma sub_of_mono c x y : cfg_ok c -> x <= y -> sub_of c x <= sub_of c y.
Proof.
  intros (Hn & Hd & Hf & Hs & Hm) H. unfold sub_of.
  pose proof (Z.div_le_mono x y (sc c) Hs H). nia.
Qed.

(* the samples of file T (a multiple of the cadence) are exactly the index window
   ceil(T*n/d) <= k < ceil((T+cadence)*n/d): boundary samples included on the right side *)
Lemma file_window c k j : cfg_ok c ->
  (w_file_ts Exact c k = j * fc c <->
   cdiv (j * fc c * rn c) (rd c) <= k < cdiv ((j * fc c + fc c) * rn c) (rd c)).
Proof.
  intros (Hn & Hd & Hf & Hs & Hm).
  rewrite (window_iff k (rn c) (rd c) (j * fc c) (fc c)) by assumption.
  rewrite writer_file_exact.
  split.
  - intros H. symmetry in H. apply round_down_spec in H; [|assumption].
    destruct H as [_ H]. lia.
  - intros H. symmetry. apply round_down_spec; [assumption|].
    split; [exists j; ring | lia].
Qed.

(* ---- pyrange ---- *)
Lemma nsteps_lt lo hi step i : 0 < step ->
  ((i < nsteps lo hi step)%nat <-> lo + Z.of_nat i * step < hi).
Proof.
  intros Hs. unfold nsteps.
  set (q := cdiv (hi - lo) step).
  assert (Hq : step * (q - 1) < hi - lo <= step * q) by (apply cdiv_spec; auto).
  split; intros H.
  - assert (Z.of_nat i < q) by lia. nia.
  - assert (Z.of_nat i < q) by nia. lia.
Qed.

Lemma zrange_from_eq x step n :
  zrange_from x step n = map (fun i => x + Z.of_nat i * step) (seq 0 n).
Proof.
  revert x. induction n as [|n IH]; intros x; [reflexivity|].
  cbn [zrange_from]. rewrite IH. cbn [seq map]. f_equal; [lia|].
  rewrite <- seq_shift, map_map. apply map_ext. intros i. lia.
Qed.

Lemma in_pyrange lo hi step x : 0 < step ->
  (In x (pyrange lo hi step) <-> exists i, 0 <= i /\ x = lo + i * step /\ x < hi).
Proof.
  intros Hs. unfold pyrange. rewrite zrange_from_eq, in_map_iff. split.
  - intros (i & <- & Hi). apply in_seq in Hi. exists (Z.of_nat i). split; [lia|]. split; [reflexivity|].
    apply nsteps_lt; [assumption|lia].
  - intros (i & Hi & -> & Hlt). exists (Z.to_nat i). rewrite Z2Nat.id by lia. split; [reflexivity|].
    apply in_seq. split; [lia|]. cbn. apply nsteps_lt; [assumption|]. rewrite Z2Nat.id by lia. assumption.
Qed.

Lemma map_seq_sorted (f : nat -> Z) a n :
  (forall i j, (i < j)%nat -> f i < f j) -> StronglySorted Z.lt (map f (seq a n)).
Proof.
  intros Hf. revert a. induction n as [|n IH]; intros a; cbn; constructor.
  - apply IH.
  - apply Forall_forall. intros y Hy. apply in_map_iff in Hy. destruct Hy as (j & <- & Hj).
    apply in_seq in Hj. apply Hf. lia.
Qed.

Lemma pyrange_sorted lo hi step : 0 < step -> StronglySorted Z.lt (pyrange lo hi step).
Proof. intros Hs. unfold pyrange. rewrite zrange_from_eq. apply map_seq_sorted. intros i j Hij. nia. Qed.

Lemma filter_sorted {A} (R : A -> A -> Prop) p l :
  StronglySorted R l -> StronglySorted R (filter p l).
Proof.
  induction 1 as [|a l Hs IH Hf]; cbn; [constructor|].
  destruct (p a); [|assumption]. constructor; [assumption|].
  rewrite Forall_forall in *. intros y Hy. apply filter_In in Hy. apply Hf, Hy.
Qed.

Lemma map_sorted {A B} (R : A -> A -> Prop) (R' : B -> B -> Prop) (f : A -> B) l :
  (forall a b, R a b -> R' (f a) (f b)) -> StronglySorted R l -> StronglySorted R' (map f l).
Proof.
  intros Hf. induction 1 as [|a l Hs IH Hfa]; cbn; constructor; [assumption|].
  rewrite Forall_forall in *. intros y Hy. apply in_map_iff in Hy. destruct Hy as (x & <- & Hx).
  apply Hf, Hfa, Hx.
Qed.

Lemma app_sorted {A} (R : A -> A -> Prop) l1 l2 :
  StronglySorted R l1 -> StronglySorted R l2 ->
  (forall a b, In a l1 -> In b l2 -> R a b) -> StronglySorted R (l1 ++ l2).
Proof.
  induction 1 as [|a l Hs IH Hfa]; intros H2 Hx; cbn; [assumption|].
  constructor.
  - apply IH; [assumption|]. intros; apply Hx; [right|]; assumption.
  - rewrite Forall_forall in *. intros y Hy. apply in_app_or in Hy. destruct Hy.
    + apply Hfa; assumption.
    + apply Hx; [left; reflexivity|assumption].
Qed.

Lemma flat_map_sorted {A B} (R' : A -> A -> Prop) (R : B -> B -> Prop) (f : A -> list B) xs :
  StronglySorted R' xs ->
  (forall x, In x xs -> StronglySorted R (f x)) ->
  (forall x x' a b, In x xs -> In x' xs -> R' x x' -> In a (f x) -> In b (f x') -> R a b) ->
  StronglySorted R (flat_map f xs).
Proof.
  induction 1 as [|x xs Hs IH Hfx]; intros Hin Hcross; cbn; [constructor|].
  apply app_sorted.
  - apply Hin. left; reflexivity.
  - apply IH.
    + intros; apply Hin; right; assumption.
    + intros x1 x2 a b H1 H2. apply Hcross; right; assumption.
  - intros a b Ha Hb. apply in_flat_map in Hb. destruct Hb as (x' & Hx' & Hb).
    rewrite Forall_forall in Hfx.
    apply (Hcross x x'); [left; reflexivity|right; assumption|apply Hfx; assumption|assumption|assumption].
Qed.

(* a strictly sorted list is determined by its elements *)
Lemma sorted_singleton {A} (R : A -> A -> Prop) l x :
  (forall a, ~ R a a) -> StronglySorted R l -> (forall y, In y l <-> y = x) -> l = [x].
Proof.
  intros Hirr Hs Hin. destruct l as [|a l].
  - exfalso. apply (proj2 (Hin x) eq_refl).
  - assert (a = x) by (apply Hin; left; reflexivity). subst a.
    destruct l as [|b l]; [reflexivity|].
    assert (b = x) by (apply Hin; right; left; reflexivity). subst b.
    inversion Hs as [|? ? _ Hf]; subst. inversion Hf; subst. exfalso. eapply Hirr; eassumption.
Qed.

(* ---- reader: the candidate list ---- *)
Definition lt_ts (a b : Z * Z) : Prop := snd a < snd b.

Lemma candidates_in c s0 s1 sub ts : cfg_ok c ->
  (In (sub, ts) (candidates Exact c s0 s1) <->
   (exists j, ts = fc c * j) /\ r_ts Exact c s0 <= ts <= r_ts Exact c s1 /\ sub = sub_of c ts).
Proof.
  intros (Hn & Hd & Hf & Hs & Hm).
  assert (E : sc c = fc c * (sc c / fc c)).
  { pose proof (Z.div_mod (sc c) (fc c) ltac:(lia)). lia. }
  set (m := sc c / fc c) in *.
  assert (Hm0 : 0 < m) by nia.
  unfold candidates.
  assert (EA : r_ts Exact c s0 = fc c * (r_sec Exact c s0 / fc c)) by (unfold r_ts; ring).
  assert (EB : r_ts Exact c s1 = fc c * (r_sec Exact c s1 / fc c)) by (unfold r_ts; ring).
  set (A := r_ts Exact c s0) in *. set (B := r_ts Exact c s1) in *.
  set (a := r_sec Exact c s0 / fc c) in *. set (b := r_sec Exact c s1 / fc c) in *.
  unfold sub_of.
  set (f := fc c) in *. set (s := sc c) in *.
  rewrite in_flat_map. split.
  - intros (sub' & Hsub' & Hin).
    apply in_map_iff in Hin. destruct Hin as (ts' & Heq & Hin). inversion Heq; subst sub' ts'; clear Heq.
    apply filter_In in Hin. destruct Hin as (Hin & Hcond).
    apply andb_true_iff in Hcond. destruct Hcond as (C1 & C2).
    apply Z.leb_le in C1. apply Z.leb_le in C2.
    apply in_pyrange in Hsub'; [|assumption]. destruct Hsub' as (i & Hi & Hsub & Hlt).
    apply in_pyrange in Hin; [|assumption]. destruct Hin as (j & Hj & Hts & Hlt2).
    set (qa := A / s) in *.
    assert (Ets : ts = f * (m * qa + m * i + j)) by (rewrite Hts, Hsub, E; ring).
    split; [eexists; exact Ets|].
    split.
    + split; [|assumption].
      set (t := m * qa + m * i + j) in *.
      assert (f * a <= f * t + f - 1) by (rewrite <- EA, <- Ets; exact C1).
      assert (a <= t) by nia.
      rewrite EA, Ets. nia.
    + assert (ts / s = qa + i); [|nia].
      apply div_unique_pos; [assumption|]. nia.
  - intros ((j & Ets) & (HA & HB) & Hsub).
    exists sub. split.
    + apply in_pyrange; [assumption|]. exists (ts / s - A / s).
      pose proof (Z.div_le_mono A ts s Hs HA). pose proof (Z.div_le_mono ts B s Hs HB).
      split; [lia|]. split; [rewrite Hsub; ring|]. rewrite Hsub. nia.
    + apply in_map_iff. exists ts. split; [reflexivity|].
      apply filter_In. split.
      * apply in_pyrange; [assumption|]. pose proof (div_bounds ts s Hs) as Hb.
        exists (j - m * (ts / s)). rewrite Hsub.
        set (q := ts / s) in *.
        assert (Hb' : f * (m * q) <= f * j) by (rewrite <- Ets; rewrite E in Hb; lia).
        split; [|split].
        -- nia.
        -- rewrite E. rewrite Ets at 1. ring.
        -- lia.
      * apply andb_true_iff. split; apply Z.leb_le; lia.
Qed.

Lemma candidates_sorted c s0 s1 : cfg_ok c -> StronglySorted lt_ts (candidates Exact c s0 s1).
Proof.
  intros Hc. pose proof Hc as (Hn & Hd & Hf & Hs & Hm).
  unfold candidates.
  apply flat_map_sorted with (R' := Z.lt).
  - apply pyrange_sorted; assumption.
  - intros sub _. apply map_sorted with (R := Z.lt); [intros; assumption|].
    apply filter_sorted, pyrange_sorted; assumption.
  - intros x x' p q Hx Hx' Hlt Hp Hq.
    apply in_map_iff in Hp. destruct Hp as (t & <- & Ht). apply filter_In in Ht. destruct Ht as (Ht & _).
    apply in_map_iff in Hq. destruct Hq as (t' & <- & Ht'). apply filter_In in Ht'. destruct Ht' as (Ht' & _).
    apply in_pyrange in Ht; [|assumption]. apply in_pyrange in Ht'; [|assumption].
    apply in_pyrange in Hx; [|assumption]. apply in_pyrange in Hx'; [|assumption].
    destruct Ht as (i & Hi & -> & Hl). destruct Ht' as (i' & Hi' & -> & Hl').
    destruct Hx as (u & Hu & Ex & _). destruct Hx' as (u' & Hu' & Ex' & _).
    unfold lt_ts; cbn [snd].
    assert (u < u') by nia. nia.
Qed.

Lemma lt_ts_irrefl a : ~ lt_ts a a.
Proof. unfold lt_ts. lia. Qed.

(* the reader looks for sample k in exactly the file the writer put it in *)
Lemma writer_reader_agree c k : cfg_ok c -> candidates Exact c k k = [w_path Exact c k].
Proof.
  intros Hc. apply (sorted_singleton lt_ts).
  - apply lt_ts_irrefl.
  - apply candidates_sorted; assumption.
  - intros [sub ts]. rewrite candidates_in by assumption. unfold w_path.
    rewrite <- reader_ts_is_writer_ts. split.
    + intros (_ & H & ->). assert (ts = r_ts Exact c k) by lia. subst ts. reflexivity.
    + intros H. inversion H; subst. split; [|split; [lia|reflexivity]].
      exists (r_sec Exact c k / fc c). unfold r_ts. ring.
Qed.

(* ... and a range read [s0, s1] containing k visits that file *)
Lemma writer_in_candidates c s0 s1 k : cfg_ok c -> s0 <= k <= s1 ->
  In (w_path Exact c k) (candidates Exact c s0 s1).
Proof.
  intros Hc [H0 H1]. unfold w_path. apply candidates_in; [assumption|].
  split; [|split; [|reflexivity]].
  - exists (w_file_idx Exact c k). unfold w_file_ts. ring.
  - rewrite !reader_ts_is_writer_ts. split; apply w_file_ts_mono; assumption.
Qed.

(* ---- the pre-fix floating-point variant is not exact ---- *)
Definition wit_cfg : cfg := mkCfg 100000000 7 3 3600.
Definition wit_k : Z := 21428571600000000.

Lemma ld_writer_refuted :
  exists c k, cfg_ok c /\ 0 <= k /\
    w_file_ts LongDouble c k <> round_down (k * rd c / rn c) (fc c) /\
    ~ In (w_path LongDouble c k) (candidates LongDouble c k k).
Proof.
  exists wit_cfg, wit_k. split; [|split; [|split]].
  - unfold cfg_ok; cbn. lia.
  - unfold wit_k; lia.
  - vm_compute. discriminate.
  - vm_compute. intros [H|[]]. discriminate.
Qed.

(* the same formula in 64-bit unsigned arithmetic is not exact either once k*d >= 2^64
   (100 MHz * 1000/1001, present-day index) *)
Lemma u64_writer_refuted :
  exists c k, cfg_ok c /\ 0 <= k < 2 ^ 63 /\
    w_file_ts U64Wrap c k <> round_down (k * rd c / rn c) (fc c) /\
    ~ In (w_path U64Wrap c k) (candidates Exact c k k).
Proof.
  exists (mkCfg 100000000000 1001 60 3600), 169830173826173834. split; [|split; [|split]].
  - unfold cfg_ok; cbn. lia.
  - lia.
  - vm_compute. discriminate.
  - vm_compute. intros [H|[]]. discriminate.
Qed.

(* non-vacuity: the witness under the exact arithmetic *)
Example exact_on_witness :
  w_path Exact wit_cfg wit_k = (1499997600, 1500000012) /\
  candidates Exact wit_cfg wit_k wit_k = [(1499997600, 1500000012)] /\
  w_path Exact wit_cfg (wit_k - 1) = (1499997600, 1500000009).
Proof. vm_compute. repeat split. Qed.
