(* C13: the placement arithmetic regenerated from digital_metadata.py (Gen/MdPlaceGen.v, translator T7)
   is the Exact variant of the hand model Model/MdPlace.v -- writer side (file index, file time,
   subdirectory time) and reader side (the whole candidate list). *)
From Coq Require Import ZArith List Bool Lia.
From DRF Require Import Base.DivLemmas Model.MdPlace Gen.MdPlaceGen.
Import ListNotations.
Local Open Scope Z_scope.

Theorem writer_placement_regen c k :
  gen_w_file_idx (rn c) (rd c) (fc c) (sc c) k = w_file_idx Exact c k /\
  gen_w_file_ts (rn c) (rd c) (fc c) (sc c) (w_file_idx Exact c k) = w_file_ts Exact c k /\
  gen_w_sub_ts (rn c) (rd c) (fc c) (sc c) (w_file_ts Exact c k) = fst (w_path Exact c k).
Proof. repeat split. Qed.

Lemma reader_ends_regen c k :
  gen_r_start_ts (rn c) (rd c) (fc c) (sc c) k = r_ts Exact c k /\
  gen_r_end_ts (rn c) (rd c) (fc c) (sc c) k = r_ts Exact c k /\
  gen_r_start_sub (rn c) (rd c) (fc c) (sc c) k = sub_of c (r_ts Exact c k) /\
  gen_r_end_sub (rn c) (rd c) (fc c) (sc c) k = sub_of c (r_ts Exact c k).
Proof. repeat split. Qed.

Lemma valid_regen c st en ts :
  gen_r_valid (fc c) (sc c) st en ts = ((st <=? ts + fc c - 1) && (ts <=? en)).
Proof. unfold gen_r_valid. rewrite Z.geb_leb. reflexivity. Qed.

(* the reader's candidate list, written with the regenerated pieces only *)
Definition gen_candidates (c : cfg) (s0 s1 : Z) : list (Z * Z) :=
  let st := gen_r_start_ts (rn c) (rd c) (fc c) (sc c) s0 in
  let en := gen_r_end_ts (rn c) (rd c) (fc c) (sc c) s1 in
  let '(lo, hi, step) := gen_r_sub_range (fc c) (sc c) (gen_r_start_sub (rn c) (rd c) (fc c) (sc c) s0)
                                         (gen_r_end_sub (rn c) (rd c) (fc c) (sc c) s1) in
  flat_map (fun sub =>
      let '(l2, h2, s2) := gen_r_file_range (fc c) (sc c) sub in
      map (fun ts => (sub, ts)) (filter (gen_r_valid (fc c) (sc c) st en) (pyrange l2 h2 s2)))
    (pyrange lo hi step).

Theorem reader_candidates_regen c s0 s1 : gen_candidates c s0 s1 = candidates Exact c s0 s1.
Proof.
  unfold gen_candidates, candidates, gen_r_sub_range, gen_r_file_range.
  destruct (reader_ends_regen c s0) as (E1 & _ & E3 & _). destruct (reader_ends_regen c s1) as (_ & E2 & _ & E4).
  rewrite E1, E2, E3, E4. cbv zeta.
  apply flat_map_ext. intros sub. f_equal. apply filter_ext. intros ts. apply valid_regen.
Qed.
