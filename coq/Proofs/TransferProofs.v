(* C18 -- cp / mv / ln transfer exactly the listed set. *)
From Coq Require Import ZArith List Bool Lia.
From DRF Require Import Base.Regex Model.PathSpec Model.Listing Model.Transfer Proofs.ListingTreeProofs.
Import ListNotations.
Local Open Scope Z_scope.

Lemma word_eqb_refl a : word_eqb a a = true.
Proof. induction a as [|x a IH]; cbn; [reflexivity|]. rewrite Z.eqb_refl. exact IH. Qed.

Lemma word_eqb_spec a b : word_eqb a b = true <-> a = b.
Proof. split; [apply word_eqb_true|intros ->; apply word_eqb_refl]. Qed.

Lemma word_eqb_neq a b : a <> b -> word_eqb a b = false.
Proof. intro H. destruct (word_eqb a b) eqn:E; [|reflexivity]. apply word_eqb_true in E. contradiction. Qed.

Lemma lookup_remove p q s : lookup q (remove p s) = if word_eqb q p then None else lookup q s.
Proof.
  induction s as [|[r c] s IH]; cbn; [destruct (word_eqb q p); reflexivity|].
  destruct (word_eqb p r) eqn:Epr.
  - apply word_eqb_true in Epr. subst r. rewrite IH. destruct (word_eqb q p); reflexivity.
  - cbn. rewrite IH. destruct (word_eqb q r) eqn:Eqr; [|reflexivity].
    apply word_eqb_true in Eqr. subst r.
    destruct (word_eqb q p) eqn:Eqp; [|reflexivity]. apply word_eqb_true in Eqp. subst q.
    rewrite word_eqb_refl in Epr. discriminate.
Qed.

Lemma lookup_put p c q s : lookup q (put p c s) = if word_eqb q p then Some c else lookup q s.
Proof. unfold put. cbn. rewrite lookup_remove. destruct (word_eqb q p); reflexivity. Qed.

Definition inb (q : word) (l : list word) : bool := existsb (word_eqb q) l.

Lemma inb_In q l : inb q l = true <-> In q l.
Proof.
  unfold inb. rewrite existsb_exists. split.
  - intros (x & Hx & E). apply word_eqb_true in E. subst. exact Hx.
  - intro H. exists q. split; [exact H|apply word_eqb_refl].
Qed.

(* ---- cp and mv never fail when every listed path is in the source and listed once *)
Section CpMv.
  Variable o : op.
  Hypothesis Ho : o = Cp \/ o = Mv.

  Lemma run_cpmv : forall listed src dst,
    NoDup listed -> (forall p, In p listed -> lookup p src <> None) ->
    exists src' dst', run_steps o listed (src, dst) = ((src', dst'), None) /\
      (forall q, lookup q dst' = if inb q listed then lookup q src else lookup q dst) /\
      (forall q, lookup q src' = if (match o with Mv => true | _ => false end) && inb q listed then None
                                 else lookup q src).
  Proof.
    induction listed as [|p rest IH]; intros src dst Hnd Hin.
    - exists src, dst. cbn. rewrite andb_false_r. auto.
    - inversion Hnd as [|? ? Hnotin Hnd']; subst. cbn [run_steps step].
      destruct (lookup p src) as [c|] eqn:Ep; [|exfalso; apply (Hin p (or_introl eq_refl)); exact Ep].
      assert (Hrest : forall src0, (forall q, q <> p -> lookup q src0 = lookup q src) ->
                forall q, In q rest -> lookup q src0 <> None).
      { intros src0 Hs q Hq. rewrite Hs; [apply Hin; right; exact Hq|]. intros ->. contradiction. }
      destruct Ho as [-> | ->].
      + destruct (IH src (put p c dst) Hnd' (Hrest src (fun _ _ => eq_refl))) as (src' & dst' & Hr & Hd & Hs).
        exists src', dst'. split; [exact Hr|]. split.
        * intro q. rewrite Hd. cbn [inb existsb]. fold (inb q rest). rewrite lookup_put.
          destruct (word_eqb q p) eqn:E; cbn.
          -- apply word_eqb_true in E. subst q.
             assert (inb p rest = false) as -> by (destruct (inb p rest) eqn:Ei; [apply inb_In in Ei; contradiction|reflexivity]).
             symmetry. exact Ep.
          -- reflexivity.
        * intro q. rewrite Hs. reflexivity.
      + assert (Hsrc0 : forall q, q <> p -> lookup q (remove p src) = lookup q src).
        { intros q Hq. rewrite lookup_remove, word_eqb_neq by exact Hq. reflexivity. }
        destruct (IH (remove p src) (put p c dst) Hnd' (Hrest _ Hsrc0)) as (src' & dst' & Hr & Hd & Hs).
        exists src', dst'. split; [exact Hr|]. split.
        * intro q. rewrite Hd. cbn [inb existsb]. fold (inb q rest). rewrite lookup_put, lookup_remove.
          destruct (word_eqb q p) eqn:E; cbn.
          -- apply word_eqb_true in E. subst q.
             assert (inb p rest = false) as -> by (destruct (inb p rest) eqn:Ei; [apply inb_In in Ei; contradiction|reflexivity]).
             symmetry. exact Ep.
          -- reflexivity.
        * intro q. rewrite Hs. cbn [andb inb existsb]. fold (inb q rest). rewrite lookup_remove.
          destruct (word_eqb q p); cbn; [destruct (inb q rest); reflexivity|reflexivity].
  Qed.
End CpMv.

(* ---- ln: the same mapping when no listed path exists at the destination; source untouched *)
Lemma run_ln o : is_ln o = true -> forall listed src dst,
  NoDup listed -> (forall p, In p listed -> lookup p src <> None) -> (forall p, In p listed -> lookup p dst = None) ->
  exists dst', run_steps o listed (src, dst) = ((src, dst'), None) /\
    (forall q, lookup q dst' = if inb q listed then lookup q src else lookup q dst).
Proof.
  intros Ho. induction listed as [|p rest IH]; intros src dst Hnd Hin Hfree.
  - exists dst. cbn. auto.
  - inversion Hnd as [|? ? Hnotin Hnd']; subst. cbn [run_steps step].
    destruct (lookup p src) as [c|] eqn:Ep; [|exfalso; apply (Hin p (or_introl eq_refl)); exact Ep].
    rewrite (Hfree p (or_introl eq_refl)).
    assert (Hfree' : forall q, In q rest -> lookup q (put p c dst) = None).
    { intros q Hq. rewrite lookup_put, word_eqb_neq; [apply Hfree; right; exact Hq|]. intros ->. contradiction. }
    destruct (IH src (put p c dst) Hnd' (fun q Hq => Hin q (or_intror Hq)) Hfree') as (dst' & Hr & Hd).
    exists dst'. split; [destruct o; try discriminate; exact Hr|].
    intro q. rewrite Hd. cbn [inb existsb]. fold (inb q rest). rewrite lookup_put.
    destruct (word_eqb q p) eqn:E; cbn; [|reflexivity].
    apply word_eqb_true in E. subst q.
    assert (inb p rest = false) as -> by (destruct (inb p rest) eqn:Ei; [apply inb_In in Ei; contradiction|reflexivity]).
    symmetry. exact Ep.
Qed.

(* ---- and linking onto an existing destination stops there *)
Lemma ln_existing_fails o p c c' src dst rest : is_ln o = true -> lookup p src = Some c -> lookup p dst = Some c' ->
  run_steps o (p :: rest) (src, dst) = ((src, dst), Some FileExists).
Proof. intros Ho Hs Hd. destruct o; try discriminate; cbn; rewrite Hs, Hd; reflexivity. Qed.

(* ---- cp / ln never touch the source, whatever happens *)
Lemma run_source_unchanged o : o <> Mv -> forall listed src dst,
  fst (fst (run_steps o listed (src, dst))) = src.
Proof.
  intros Ho. induction listed as [|p rest IH]; intros src dst; [reflexivity|].
  cbn [run_steps step]. destruct (lookup p src) as [c|]; [|reflexivity].
  destruct o; try congruence; try apply IH; destruct (lookup p dst); cbn; solve [reflexivity|apply IH].
Qed.

(* ---- the statements for the whole command *)
Definition no_terr (listing : list word * option err) : Prop := snd listing = None.

Theorem transfer_set o listing src dst :
  o = Cp \/ o = Mv -> no_terr listing -> NoDup (fst listing) -> (forall p, In p (fst listing) -> lookup p src <> None) ->
  exists src' dst', transfer o listing src dst = ((src', dst'), None) /\
    (forall q, lookup q dst' = if inb q (fst listing) then lookup q src else lookup q dst) /\
    (forall q, lookup q src' = if (match o with Mv => true | _ => false end) && inb q (fst listing) then None
                               else lookup q src).
Proof.
  intros Ho He Hnd Hin. destruct (run_cpmv o Ho (fst listing) src dst Hnd Hin) as (src' & dst' & Hr & Hd & Hs).
  exists src', dst'. split; [|split; assumption]. unfold transfer. rewrite Hr, He. reflexivity.
Qed.

Theorem transfer_ln o listing src dst :
  is_ln o = true -> no_terr listing -> NoDup (fst listing) -> (forall p, In p (fst listing) -> lookup p src <> None) ->
  (forall p, In p (fst listing) -> lookup p dst = None) ->
  exists dst', transfer o listing src dst = ((src, dst'), None) /\
    (forall q, lookup q dst' = if inb q (fst listing) then lookup q src else lookup q dst).
Proof.
  intros Ho He Hnd Hin Hfree. destruct (run_ln o Ho (fst listing) src dst Hnd Hin Hfree) as (dst' & Hr & Hd).
  exists dst'. split; [|assumption]. unfold transfer. rewrite Hr, He. reflexivity.
Qed.

Theorem cp_ln_source_unchanged o listing src dst : o <> Mv -> fst (fst (transfer o listing src dst)) = src.
Proof.
  intro Ho. unfold transfer. pose proof (run_source_unchanged o Ho (fst listing) src dst) as H.
  destruct (run_steps o (fst listing) (src, dst)) as [[s d] [e|]]; exact H.
Qed.

(* a small non-trivial instance *)
Example transfer_example :
  transfer Mv ([[97]; [98]], None) [([97], 1); ([98], 2); ([99], 3)] [([98], 9); ([100], 4)]
  = (([([99], 3)], [([98], 2); ([97], 1); ([100], 4)]), None).
Proof. vm_compute. reflexivity. Qed.
