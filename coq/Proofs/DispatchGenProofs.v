(* T19: the hand model of DigitalRFEventHandler (Model/Events.v: select_regexes, classify, decide, dispatch_rs,
   dispatch) equals the code regenerated from watchdog_drf.py (Gen/DispatchGen.v). *)
From Coq Require Import ZArith List Bool Lia.
From DRF Require Import Base.Regex Gen.Grammar Model.PathSpec Model.Events Gen.DispatchGen.
Import ListNotations.
Local Open Scope Z_scope.

(* int(match.group("secs")), int(match.group("frac")), timedelta(seconds=, milliseconds=) *)
Lemma gen_time_of_regen : forall c, gen_time_of c = time_of c.
Proof.
  intros c. unfold gen_time_of, time_of.
  destruct (group g_secs c) as [w|]; [|reflexivity].
  destruct (int_of w) as [s|]; [|reflexivity].
  destruct (group g_frac c) as [fw|].
  - destruct (int_of fw) as [f|]; reflexivity.
  - f_equal. lia.
Qed.

(* the loop keeps the last matching pattern *)
Lemma fold_is_match_last : forall rs p acc,
  fold_left (fun acc r => match rmatch events_ci r p with Some c => Some c | None => acc end) rs acc = match_last rs p acc.
Proof.
  induction rs as [|r rs IH]; intros p acc; cbn [fold_left match_last]; [reflexivity|].
  apply IH.
Qed.

Lemma gen_lookup_regen : forall rs p,
  option_map time_of (if nonempty p then gen_lookup rs gen_ignore_default p else None) = classify rs p.
Proof.
  intros rs p. unfold classify, gen_lookup, gen_ignore_default.
  destruct p as [|a p]; cbn [nonempty existsb negb]; [reflexivity|].
  rewrite fold_is_match_last. reflexivity.
Qed.

(* the constructor's pattern list *)
Lemma gen_select_regen : forall f,
  gen_select_regexes (inc_drf f) (inc_dmd f) (inc_drfp f) (inc_dmdp f) = select_regexes f.
Proof.
  intros [drf dmd drfp dmdp]. unfold gen_select_regexes, select_regexes, select, eff_drfp, eff_dmdp, eff.
  cbn [inc_drf inc_dmd inc_drfp inc_dmdp].
  destruct drf, dmd, drfp as [[|]|], dmdp as [[|]|]; reflexivity.
Qed.

(* the body of dispatch *)
Lemma gen_decide_regen : forall st en mt d hs hd sm dm,
  gen_decide st en mt d hs hd sm dm =
  decide st en mt d hd (option_map time_of (if hs then sm else None)) (option_map time_of dm).
Proof.
  intros st en mt d hs hd sm dm. unfold gen_decide, decide, gen_ignore_directories, gen_window_drop.
  destruct d; [reflexivity|]. cbn [andb].
  destruct hs, hd, sm as [cs|], dm as [cd|], mt; cbn [option_map andb negb orb]; try reflexivity;
    rewrite ?gen_time_of_regen;
    match goal with
    | |- context [time_of ?c] => destruct (time_of c) as [|t|]; try reflexivity
    end;
    destruct st as [s|], en as [e|]; cbn [orb]; rewrite ?Z.gtb_ltb;
    repeat match goal with |- context [?a <? ?b] => destruct (a <? b); cbn [orb] end; reflexivity.
Qed.

Theorem dispatch_rs_regen : forall rs st en mt ev,
  gen_dispatch_rs rs st en mt ev = dispatch_rs rs st en mt ev.
Proof.
  intros rs st en mt ev. unfold gen_dispatch_rs, dispatch_rs, dispatch_core.
  rewrite gen_decide_regen. rewrite gen_lookup_regen.
  assert (Hd : (if nonempty (ev_dest ev) then option_map time_of (gen_lookup rs gen_ignore_default (ev_dest ev)) else None)
               = (if nonempty (ev_dest ev) then classify rs (ev_dest ev) else None)).
  { rewrite <- gen_lookup_regen. destruct (nonempty (ev_dest ev)); reflexivity. }
  f_equal. unfold decide. destruct (ev_dir ev); [reflexivity|]. cbv zeta. rewrite Hd. reflexivity.
Qed.

Theorem handler_regen : forall f st en ev,
  gen_handler (inc_drf f) (inc_dmd f) (inc_drfp f) (inc_dmdp f) st en ev = dispatch f st en ev.
Proof.
  intros f st en ev. unfold gen_handler, dispatch. rewrite gen_select_regen.
  destruct (select_regexes f); [reflexivity|]. rewrite dispatch_rs_regen. reflexivity.
Qed.

(* what the regenerated code says about the millisecond part: it counts *)
Example gen_window_uses_milliseconds :
  gen_window_drop (Some 1500000000250000) None 1500000000000000 = true /\
  gen_window_drop (Some 1500000000250000) None 1500000000250000 = false /\
  gen_window_drop None (Some 1500000000250000) 1500000000500000 = true.
Proof. repeat split. Qed.
