(* Finalized files are never touched again (C11, and the model-level core of C02/C09):
   in every mode, for every block layout, across any number of sessions, the list of finalized
   files only grows at its end. *)
From Coq Require Import ZArith List Bool Lia.
From DRF Require Import Model.LayoutSpec Model.IndexCalc Model.WriterCore.
Import ListNotations.
Local Open Scope Z_scope.

Definition extends (l l' : list afile) : Prop := exists t, l' = l ++ t.

Lemma extends_refl l : extends l l. Proof. exists []. rewrite app_nil_r. reflexivity. Qed.
Lemma extends_trans a b c : extends a b -> extends b c -> extends a c.
Proof. intros [t ->] [u ->]. exists (t ++ u). rewrite app_assoc. reflexivity. Qed.

Lemma finalize_extends st : extends (w_files st) (finalize st).
Proof.
  unfold finalize. destruct (w_openf st); [|apply extends_refl].
  destruct (w_failed st); [apply extends_refl|]. eexists; reflexivity.
Qed.

Lemma wstf_extends c st sw bl vec :
  extends (w_files st) (w_files (snd (write_samples_to_file c st sw bl vec))).
Proof.
  unfold write_samples_to_file.
  destruct bl as [|[g0 d0] tl]; [apply extends_refl|].
  destruct (negb (d0 =? 0)); [apply extends_refl|].
  destruct (create_rf_data_index _ _ _ _ _ _ _ _ _ _ _) as [[rows stw]|]; [|apply extends_refl].
  destruct (negb _).
  - destruct (has_final _ _); cbn [snd w_files]; apply finalize_extends.
  - destruct (w_openf st); [|apply extends_refl].
    destruct (c_chunk c); cbn [snd w_files]; apply extends_refl.
Qed.

Lemma write_loop_extends c bl vec : forall fuel st sw,
  extends (w_files st) (w_files (snd (write_loop fuel c st sw bl vec))).
Proof.
  induction fuel as [|fuel IH]; intros st sw; cbn [write_loop].
  - destruct (sw <? _); apply extends_refl.
  - destruct (sw <? _); [|apply extends_refl].
    pose proof (wstf_extends c st sw bl vec) as H.
    destruct (write_samples_to_file c st sw bl vec) as [[k|] st1]; cbn [snd] in *; [|exact H].
    destruct (k =? 0); [exact H|]. eapply extends_trans; [exact H|apply IH].
Qed.

Lemma write_blocks_extends c st bl vec : extends (w_files st) (w_files (snd (write_blocks c st bl vec))).
Proof.
  unfold write_blocks. destruct (w_failed st); [apply extends_refl|].
  destruct bl as [|[g0 d0] tl]; [apply extends_refl|].
  destruct (g0 <? w_gi st); [apply extends_refl|].
  destruct (c_cont c && _); [apply extends_refl|]. apply write_loop_extends.
Qed.

Lemma close_extends st : extends (w_files st) (w_files (close_writer st)).
Proof. unfold close_writer. cbn [w_files]. apply finalize_extends. Qed.

(* a recording: write calls with arbitrary arrays, closes, and restarts (new sessions with any
   start index) on the same channel directory *)
Inductive wop :=
| WBlocks (bl : list (Z * Z)) (vec : list Z)
| WRestart (new_start : Z).

Definition wstep (cs : cfg * wstate) (op : wop) : cfg * wstate :=
  let '(c, st) := cs in
  match op with
  | WBlocks bl vec => (c, snd (write_blocks c st bl vec))
  | WRestart s =>
    (mkCfg s (c_n c) (c_d c) (c_sc c) (c_fc c) (c_cont c) (c_chunk c),
     mkW 0 None None 0 0 (-1) false (w_files (close_writer st)))
  end.

Lemma wstep_extends cs op : extends (w_files (snd cs)) (w_files (snd (wstep cs op))).
Proof.
  destruct cs as [c st]. destruct op as [bl vec|s]; cbn [wstep snd w_files].
  - apply write_blocks_extends.
  - apply close_extends.
Qed.

Theorem finalized_never_touched ops : forall cs,
  extends (w_files (snd cs)) (w_files (snd (fold_left wstep ops cs))).
Proof.
  induction ops as [|op ops IH]; intros cs; cbn [fold_left]; [apply extends_refl|].
  eapply extends_trans; [apply wstep_extends|apply IH].
Qed.

(* in particular: the i-th finalized file is the same record in every later state *)
Corollary finalized_file_stable ops cs i a :
  nth_error (w_files (snd cs)) i = Some a ->
  nth_error (w_files (snd (fold_left wstep ops cs))) i = Some a.
Proof.
  intros H. destruct (finalized_never_touched ops cs) as [t ->].
  rewrite nth_error_app1; [exact H|]. apply nth_error_Some. congruence.
Qed.


(* ------------------------------------------------------------------ sequence numbers (C06)
   Every file created in a session gets the next sequence number: along the list of files in creation
   order (finalized files, then the open one) the numbers are strictly increasing and bounded by the
   writer's counter.  All modes, all block layouts; no other invariant is needed. *)

Fixpoint seq_incr (l : list Z) (bound : Z) : Prop :=
  match l with
  | [] => True
  | x :: r => x <= bound /\ match r with [] => True | y :: _ => x < y end /\ seq_incr r bound
  end.

Definition SeqInv (st : wstate) : Prop := seq_incr (map f_seq (all_files st)) (w_seq st).

Lemma seq_incr_mono l b b' : b <= b' -> seq_incr l b -> seq_incr l b'.
Proof.
  intros Hb. induction l as [|x r IH]; cbn [seq_incr]; [auto|].
  intros (H1 & H2 & H3). repeat split; [lia|exact H2|apply IH; exact H3].
Qed.

Lemma seq_incr_snoc l b : seq_incr l b -> seq_incr (l ++ [b + 1]) (b + 1).
Proof.
  induction l as [|x r IH]; cbn [app seq_incr]; [intros _; repeat split; lia|].
  intros (H1 & H2 & H3). split; [lia|]. split; [|apply IH; exact H3].
  destruct r as [|y r']; cbn [app]; [lia|exact H2].
Qed.

Lemma all_files_finalize_seq st : w_failed st = false ->
  map f_seq (finalize st) = map f_seq (all_files st).
Proof.
  intros Hnf. unfold finalize, all_files. destruct (w_openf st) as [a|]; [|rewrite app_nil_r; reflexivity].
  rewrite Hnf. rewrite !map_app. reflexivity.
Qed.

Lemma wstf_seq c st sw bl vec : w_failed st = false -> SeqInv st ->
  SeqInv (snd (write_samples_to_file c st sw bl vec)) /\
  w_failed (snd (write_samples_to_file c st sw bl vec)) = false.
Proof.
  intros Hnf HS. unfold write_samples_to_file.
  destruct bl as [|[g0 d0] tl]; [split; assumption|].
  destruct (negb (d0 =? 0)); [split; assumption|].
  destruct (create_rf_data_index _ _ _ _ _ _ _ _ _ _ _) as [[rows stw]|]; [|split; assumption].
  unfold SeqInv in *.
  destruct (negb _).
  - destruct (has_final _ _); cbn [snd w_failed].
    + split; [|exact Hnf]. unfold all_files. cbn [w_files w_openf w_seq]. rewrite app_nil_r.
      rewrite (all_files_finalize_seq st Hnf). eapply seq_incr_mono; [|exact HS]. lia.
    + split; [|exact Hnf]. unfold all_files at 1. cbn [w_files w_openf w_seq map f_seq].
      rewrite map_app, (all_files_finalize_seq st Hnf). cbn [map f_seq]. apply seq_incr_snoc. exact HS.
  - destruct (w_openf st) as [a|] eqn:Eo; [|split; assumption].
    destruct (c_chunk c); cbn [snd w_failed]; (split; [|exact Hnf]);
      unfold all_files in *; cbn [w_files w_openf w_seq]; rewrite Eo in HS;
      rewrite map_app in *; cbn [map f_seq] in *; exact HS.
Qed.

Lemma write_loop_seq c bl vec : forall fuel st sw, w_failed st = false -> SeqInv st ->
  SeqInv (snd (write_loop fuel c st sw bl vec)) /\ w_failed (snd (write_loop fuel c st sw bl vec)) = false.
Proof.
  induction fuel as [|fuel IH]; intros st sw Hnf HS; cbn [write_loop].
  - destruct (sw <? _); split; assumption.
  - destruct (sw <? _); [|split; assumption].
    pose proof (wstf_seq c st sw bl vec Hnf HS) as (H1 & H2).
    destruct (write_samples_to_file c st sw bl vec) as [[k|] st1]; cbn [snd] in *; [|split; assumption].
    destruct (k =? 0); [split; assumption|]. apply IH; assumption.
Qed.

Theorem sequence_numbers_increase c st bl vec : SeqInv st -> SeqInv (snd (write_blocks c st bl vec)).
Proof.
  intros HS. unfold write_blocks. destruct (w_failed st) eqn:Hnf; [exact HS|].
  destruct bl as [|[g0 d0] tl]; [exact HS|].
  destruct (g0 <? w_gi st); [exact HS|].
  destruct (c_cont c && _); [exact HS|]. apply (write_loop_seq c _ vec _ st 0 Hnf HS).
Qed.

Theorem sequence_numbers_history c ops :
  SeqInv (fold_left (fun st op => snd (write_blocks c st (fst op) (snd op))) ops init_state).
Proof.
  assert (G : forall st, SeqInv st ->
            SeqInv (fold_left (fun st op => snd (write_blocks c st (fst op) (snd op))) ops st)).
  { induction ops as [|op ops IH]; intros st HS; cbn [fold_left]; [exact HS|].
    apply IH. apply sequence_numbers_increase. exact HS. }
  apply G. exact I.
Qed.

(* ------------------------------------------------------------------ C07: chunked continuous = gapped
   With compression or checksums (needs_chunking) the continuous flag is consulted in exactly two
   places: the rejection of multi-block calls and the un-chunked rebasing of row 0, which is switched
   off.  So every single-block call -- the only kind continuous mode accepts -- does exactly what it
   does in gapped mode: same return code, same files, same cursor. *)

Definition flip_cont (c : cfg) : cfg :=
  mkCfg (c_start c) (c_n c) (c_d c) (c_sc c) (c_fc c) (negb (c_cont c)) (c_chunk c).

Lemma crdi_cont_irrelevant start gi cont cont' sw left cap bl vlen next fe :
  create_rf_data_index start gi true cont sw left cap bl vlen next fe =
  create_rf_data_index start gi true cont' sw left cap bl vlen next fe.
Proof.
  unfold create_rf_data_index. destruct bl as [|[g0 d0] tl]; [reflexivity|].
  cbn [negb]. rewrite !andb_false_r. reflexivity.
Qed.

Lemma wstf_cont_irrelevant c st sw bl vec : c_chunk c = true ->
  write_samples_to_file (flip_cont c) st sw bl vec = write_samples_to_file c st sw bl vec.
Proof.
  intros Hch. unfold write_samples_to_file, flip_cont. cbn [c_start c_n c_d c_sc c_fc c_cont c_chunk].
  rewrite Hch. destruct bl as [|[g0 d0] tl]; [reflexivity|].
  destruct (negb (d0 =? 0)); [reflexivity|].
  rewrite (crdi_cont_irrelevant _ _ (negb (c_cont c)) (c_cont c)). reflexivity.
Qed.

Lemma write_loop_cont_irrelevant c bl vec : c_chunk c = true -> forall fuel st sw,
  write_loop fuel (flip_cont c) st sw bl vec = write_loop fuel c st sw bl vec.
Proof.
  intros Hch. induction fuel as [|fuel IH]; intros st sw; cbn [write_loop]; [reflexivity|].
  destruct (sw <? _); [|reflexivity]. rewrite (wstf_cont_irrelevant c st sw bl vec Hch).
  destruct (write_samples_to_file c st sw bl vec) as [[k|] st1]; [|reflexivity].
  destruct (k =? 0); [reflexivity|apply IH].
Qed.

Theorem chunked_continuous_equals_gapped c st g vec : c_chunk c = true ->
  write_one (flip_cont c) st g vec = write_one c st g vec.
Proof.
  intros Hch. unfold write_one, write_blocks. destruct (w_failed st); [reflexivity|].
  destruct (g <? w_gi st); [reflexivity|]. rewrite !andb_false_r.
  apply write_loop_cont_irrelevant. exact Hch.
Qed.
