(* Finalized files are never touched again (C11, and the model-level core of C02/C09):
   in every mode, for every block layout, across any number of sessions, the list of finalized
   files only grows at its end. *)
From Coq Require Import ZArith List Bool Lia.
From DRF Require Import Model.LayoutSpec Model.IndexCalc Model.WriterCore.
Import ListNotations.
Local Open Scope Z_scope.

Definition extends (l l' : list afile) : Prop := exists t, l' = l ++ t.

Lemma extends_refl l : extends l l. Proof. exists []. rewrite app_nil_r. reflexivity. Qed.
Lemma extends_trans a b c : extends a b -> extends b c -> extends a c.
Proof. intros [t ->] [u ->]. exists (t ++ u). rewrite app_assoc. reflexivity. Qed.

Lemma finalize_extends st : extends (w_files st) (finalize st).
Proof.
  unfold finalize. destruct (w_openf st); [|apply extends_refl].
  destruct (w_failed st); [apply extends_refl|]. eexists; reflexivity.
Qed.

Lemma wstf_extends c st sw bl vec :
  extends (w_files st) (w_files (snd (write_samples_to_file c st sw bl vec))).
Proof.
  unfold write_samples_to_file.
  destruct bl as [|[g0 d0] tl]; [apply extends_refl|].
  destruct (negb (d0 =? 0)); [apply extends_refl|].
  destruct (create_rf_data_index _ _ _ _ _ _ _ _ _ _ _) as [[rows stw]|]; [|apply extends_refl].
  destruct (negb _).
  - destruct (has_final _ _); cbn [snd w_files]; apply finalize_extends.
  - destruct (w_openf st); [|apply extends_refl].
    destruct (c_chunk c); cbn [snd w_files]; apply extends_refl.
Qed.

Lemma write_loop_extends c bl vec : forall fuel st sw,
  extends (w_files st) (w_files (snd (write_loop fuel c st sw bl vec))).
Proof.
  induction fuel as [|fuel IH]; intros st sw; cbn [write_loop].
  - destruct (sw <? _); apply extends_refl.
  - destruct (sw <? _); [|apply extends_refl].
    pose proof (wstf_extends c st sw bl vec) as H.
    destruct (write_samples_to_file c st sw bl vec) as [[k|] st1]; cbn [snd] in *; [|exact H].
    destruct (k =? 0); [exact H|]. eapply extends_trans; [exact H|apply IH].
Qed.

Lemma write_blocks_extends c st bl vec : extends (w_files st) (w_files (snd (write_blocks c st bl vec))).
Proof.
  unfold write_blocks. destruct (w_failed st); [apply extends_refl|].
  destruct bl as [|[g0 d0] tl]; [apply extends_refl|].
  destruct (g0 <? w_gi st); [apply extends_refl|].
  destruct (c_cont c && _); [apply extends_refl|]. apply write_loop_extends.
Qed.

Lemma close_extends st : extends (w_files st) (w_files (close_writer st)).
Proof. unfold close_writer. cbn [w_files]. apply finalize_extends. Qed.

(* a recording: write calls with arbitrary arrays, closes, and restarts (new sessions with any
   start index) on the same channel directory *)
Inductive wop :=
| WBlocks (bl : list (Z * Z)) (vec : list Z)
| WRestart (new_start : Z).

Definition wstep (cs : cfg * wstate) (op : wop) : cfg * wstate :=
  let '(c, st) := cs in
  match op with
  | WBlocks bl vec => (c, snd (write_blocks c st bl vec))
  | WRestart s =>
    (mkCfg s (c_n c) (c_d c) (c_sc c) (c_fc c) (c_cont c) (c_chunk c),
     mkW 0 None None 0 0 (-1) false (w_files (close_writer st)))
  end.

Lemma wstep_extends cs op : extends (w_files (snd cs)) (w_files (snd (wstep cs op))).
Proof.
  destruct cs as [c st]. destruct op as [bl vec|s]; cbn [wstep snd w_files].
  - apply write_blocks_extends.
  - apply close_extends.
Qed.

Theorem finalized_never_touched ops : forall cs,
  extends (w_files (snd cs)) (w_files (snd (fold_left wstep ops cs))).
Proof.
  induction ops as [|op ops IH]; intros cs; cbn [fold_left]; [apply extends_refl|].
  eapply extends_trans; [apply wstep_extends|apply IH].
Qed.

(* in particular: the i-th finalized file is the same record in every later state *)
Corollary finalized_file_stable ops cs i a :
  nth_error (w_files (snd cs)) i = Some a ->
  nth_error (w_files (snd (fold_left wstep ops cs))) i = Some a.
Proof.
  intros H. destruct (finalized_never_touched ops cs) as [t ->].
  rewrite nth_error_app1; [exact H|]. apply nth_error_Some. congruence.
Qed.

