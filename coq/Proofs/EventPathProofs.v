(* C15 -- unbounded facts about the full-path event patterns e_re_* (regenerated): for ALL
   directories d without a timestamped ancestor and ALL names, a path d/base whose base starts with
   tmp. matches none of the six path patterns; hence the filter never accepts it and the writer's
   finalizing rename is classified "source unmatched". *)
From Coq Require Import ZArith List Bool Lia.
From DRF Require Import Base.Regex Base.RegexSound Base.WordLit Gen.Grammar Model.PathSpec Model.Events
  Proofs.GrammarProofs Proofs.PathSpecProofs Proofs.EventsProofs.
Import ListNotations.
Local Open Scope Z_scope.

(* ---- regexes that can only match separator-free text *)
Fixpoint nosep (r : re) : bool :=
  match r with
  | Eps | NotAhead _ | Bol | Eol => true
  | Chr c => negb (c =? sep)
  | Any => false
  | Cls items => negb (in_cls items sep)
  | Seq a b | Alt a b => nosep a && nosep b
  | Rep _ _ _ r' | Group _ r' => nosep r'
  end.

Lemma chr_eq_sep ci a x : chr_eq ci a x = true -> a <> sep -> x <> sep.
Proof.
  unfold chr_eq, sep, lower. destruct ci.
  - intros H Ha ->. apply Z.eqb_eq in H. cbn in H.
    destruct ((65 <=? a) && (a <=? 90)) eqn:E; [apply andb_true_iff in E as [E1 E2]; apply Z.leb_le in E1, E2; lia|lia].
  - intros H Ha ->. apply Z.eqb_eq in H. lia.
Qed.

Lemma nosep_sound ci n0 : forall r, nosep r = true ->
  forall s1 s2 c c', M ci n0 r s1 s2 c c' -> ~ In sep s1.
Proof.
  induction r as [ | a | | items | a IHa b IHb | a IHa b IHb | g mn mx r' IH | nm r' IH | r' IH | | ];
    intros Hn s1 s2 c c' Hm; cbn in Hn, Hm.
  - destruct Hm as [-> _]. intros [].
  - destruct Hm as (x & -> & Hx & _). apply negb_true_iff, Z.eqb_neq in Hn.
    intros [H|[]]. eapply chr_eq_sep; eauto.
  - discriminate.
  - destruct Hm as (x & -> & Hx & _). apply negb_true_iff in Hn. intros [H|[]]. subst x. congruence.
  - apply andb_true_iff in Hn as [Ha Hb]. destruct Hm as (sa & sb & cm & -> & Hma & Hmb).
    intro H. apply in_app_or in H as [H|H]; [eapply IHa|eapply IHb]; eauto.
  - apply andb_true_iff in Hn as [Ha Hb]. destruct Hm as [Hm|Hm]; [eapply IHa|eapply IHb]; eauto.
  - destruct Hm as (n & _ & _ & Hit). revert s1 s2 c c' Hit.
    induction n as [|n IHn]; intros s1 s2 c c' Hit; cbn in Hit.
    + destruct Hit as [-> _]. intros [].
    + destruct Hit as (sa & sb & cm & -> & _ & Hma & Hit). intro H.
      apply in_app_or in H as [H|H]; [eapply IH; eauto|eapply IHn; eauto].
  - destruct Hm as (cm & Hm & _). eapply IH; eauto.
  - destruct Hm as [-> _]. intros [].
  - destruct Hm as [-> _]. intros [].
  - destruct Hm as [-> _]. intros [].
Qed.

(* ---- regexes that end with $ *)
Fixpoint ends_eol (r : re) : bool :=
  match r with Eol => true | Seq _ b => ends_eol b | _ => false end.

Lemma ends_eol_sound ci n0 : forall r, ends_eol r = true ->
  forall s1 s2 c c', M ci n0 r s1 s2 c c' -> s2 = [] \/ s2 = [10].
Proof.
  induction r; intros Hn s1 s2 cc cc' Hm; cbn in Hn; try discriminate.
  - cbn in Hm. destruct Hm as (sa & sb & cm & -> & _ & Hmb). eapply IHr2; eauto.
  - cbn in Hm. tauto.
Qed.

(* ---- the last separator of a word *)
Lemma last_sep_cases (y : word) : ~ In sep y \/ exists u w, y = u ++ sep :: w /\ ~ In sep w.
Proof.
  induction y as [|x y IH]; [left; intros []|].
  destruct IH as [Hn | (u & w & -> & Hw)].
  - destruct (Z.eq_dec x sep) as [->|Hx].
    + right. exists [], y. auto.
    + left. intros [H|H]; [congruence|auto].
  - right. exists (x :: u), w. auto.
Qed.

Lemma split_last_inj d base d' base' : ~ In sep base -> ~ In sep base' ->
  d ++ sep :: base = d' ++ sep :: base' -> d = d' /\ base = base'.
Proof.
  intros Hb Hb' E. pose proof (split_last_join d base Hb) as H1. rewrite E in H1.
  rewrite (split_last_join d' base' Hb') in H1. inversion H1. auto.
Qed.

(* ---- the shape of a timestamped directory name as the path patterns see it (IGNORECASE) *)
Definition ts_like (w : word) : bool :=
  match w with
  | [y1; y2; y3; y4; h1; m1; m2; h2; d1; d2; t; hh1; hh2; h3; mi1; mi2; h4; s1; s2] =>
    forallb is_digit [y1; y2; y3; y4; m1; m2; d1; d2; hh1; hh2; mi1; mi2; s1; s2] &&
    (h1 =? 45) && (h2 =? 45) && (h3 =? 45) && (h4 =? 45) && ((t =? 84) || (t =? 116))
  | _ => false
  end.

(* the common frame of RE_DRF / RE_DMD / RE_DRFDMD: chpath / subdir / name @ tail *)
Definition digits (n : nat) (g : Z) : re := Group g (Rep true n (Some n) (Cls [(48, 57)])).

Definition path_re (tail : re) : re :=
  Seq (Group g_chpath (Rep false 0%nat None Any)) (Seq (Chr 47)
  (Seq (digits 4 g_year) (Seq (Chr 45) (Seq (digits 2 g_month) (Seq (Chr 45) (Seq (digits 2 g_day)
  (Seq (Chr 84) (Seq (digits 2 g_hour) (Seq (Chr 45) (Seq (digits 2 g_minute) (Seq (Chr 45)
  (Seq (digits 2 g_second) (Seq (Chr 47)
  (Seq (Group g_name (Seq (NotAhead tmp_ahead) (Rep false 1%nat None Any))) (Seq (Chr 64) tail))))))))))))))).

Definition tail_drf : re :=
  Seq (Group g_secs (Rep true 1%nat None (Cls [(48, 57)]))) (Seq (Chr 46)
  (Seq (Group g_frac (Rep true 3%nat (Some 3%nat) (Cls [(48, 57)]))) (Seq (Chr 46) (Seq (Chr 104) (Seq (Chr 53) Eol))))).
Definition tail_dmd : re :=
  Seq (Group g_secs (Rep true 1%nat None (Cls [(48, 57)]))) (Seq (Chr 46) (Seq (Chr 104) (Seq (Chr 53) Eol))).
Definition tail_file : re :=
  Seq (Group g_secs (Rep true 1%nat None (Cls [(48, 57)])))
  (Seq (Rep true 0%nat (Some 1%nat) (Seq (Chr 46) (Group g_frac (Rep true 3%nat (Some 3%nat) (Cls [(48, 57)])))))
  (Seq (Chr 46) (Seq (Chr 104) (Seq (Chr 53) Eol)))).

(* the regenerated path patterns ARE this frame (re-checked against the source on every run) *)
Lemma e_re_drf_frame : e_re_drf = path_re tail_drf.
Proof. reflexivity. Qed.
Lemma e_re_dmd_frame : e_re_dmd = path_re tail_dmd.
Proof. reflexivity. Qed.
Lemma e_re_drfdmd_frame : e_re_drfdmd = path_re tail_file.
Proof. reflexivity. Qed.

Lemma not_tmp_ahead_ci n0 (s : word) (c : caps) :
  ~ (exists sa sb cx, s = sa ++ sb /\ M true n0 tmp_ahead sa sb c cx) ->
  starts_with (W "tmp.") s = false.
Proof.
  intro Hno. destruct (starts_with (W "tmp.") s) eqn:E; [|reflexivity].
  exfalso. apply Hno. apply starts_with_app in E as (r & ->).
  exists (W "tmp."), r, c. split; [reflexivity|]. cbn.
  exists [116], [109; 112; 46], c. split; [reflexivity|]. split; [exists 116; auto|].
  exists [109], [112; 46], c. split; [reflexivity|]. split; [exists 109; auto|].
  exists [112], [46], c. split; [reflexivity|]. split; [exists 112; auto|].
  exists 46. auto.
Qed.

Lemma chr_eq_true_cases a x : chr_eq true a x = true -> lower x = lower a.
Proof. unfold chr_eq. intro H. apply Z.eqb_eq in H. auto. Qed.

Lemma len4 {A} (l : list A) : length l = 4%nat -> exists a b c d, l = [a; b; c; d].
Proof. destruct l as [|a [|b [|c [|d [|e l]]]]]; try discriminate. intros _. eauto. Qed.
Lemma len2 {A} (l : list A) : length l = 2%nat -> exists a b, l = [a; b].
Proof. destruct l as [|a [|b [|c l]]]; try discriminate. intros _. eauto. Qed.

(* what a match of the frame says about the subject *)
Lemma path_re_shape tail p c : nosep tail = true -> ends_eol tail = true -> rmatch true (path_re tail) p = Some c ->
  exists chpath sub y,
    p = chpath ++ sep :: sub ++ sep :: y /\ ts_like sub = true /\ starts_with (W "tmp.") y = false /\
    exists name rest, y = name ++ 64 :: rest /\ ~ In sep rest.
Proof.
  intros Hns Hee H. apply rmatch_sound in H as (s1 & s2 & -> & H).
  unfold path_re, digits in H. cbn [M] in H. minv.
  repeat match goal with H : chr_eq true _ _ = true |- _ => apply chr_eq_true_cases in H end.
  subst.
  repeat match goal with
  | H : Iter (fun _ _ _ _ => exists x, _ = [x] /\ in_cls _ x = true /\ _) _ _ _ _ _ |- _ =>
      apply (Iter_cls true 0%nat) in H; destruct H as (? & ? & ?)
  | H : Iter (fun _ _ _ _ => exists x, _ = [x] /\ x <> 10 /\ _) _ _ _ _ _ |- _ =>
      apply (Iter_any true 0%nat) in H; destruct H as (? & ? & ?)
  end. subst.
  match goal with H : ~ _ |- _ => apply not_tmp_ahead_ci in H; rename H into Htmp end.
  match goal with Hm : M true _ tail ?t ?s2' _ _ |- _ =>
    pose proof (nosep_sound true _ tail Hns _ _ _ _ Hm) as Htail;
    pose proof (ends_eol_sound true _ tail Hee _ _ _ _ Hm) as Hs2; rename t into tl end.
  repeat match goal with
  | H : lower ?x = lower ?k |- _ =>
      first [ constr_eq k 84; fail 1
            | assert (x = k) by (unfold lower in H; cbn in H; destruct ((65 <=? x) && (x <=? 90)) eqn:E;
                                   [apply andb_true_iff in E as [E1 E2]; apply Z.leb_le in E1, E2; lia|lia]);
              subst x; clear H ]
  end.
  unfold under in *.
  (* name the pieces *)
  repeat match goal with
  | H1 : (4 <= length ?w)%nat, H2 : (length ?w <= 4)%nat |- _ =>
      let E := fresh in assert (E : length w = 4%nat) by lia; apply len4 in E; destruct E as (? & ? & ? & ? & ->); clear H1 H2
  | H1 : (2 <= length ?w)%nat, H2 : (length ?w <= 2)%nat |- _ =>
      let E := fresh in assert (E : length w = 2%nat) by lia; apply len2 in E; destruct E as (? & ? & ->); clear H1 H2
  end.
  match goal with Hn : (1 <= length ?nm)%nat, Ht : starts_with _ (?nm ++ _) = false |- _ => rename nm into name end.
  match goal with |- context [(?cp ++ ?a) ++ s2] => idtac end.
  norm.
  match goal with |- exists _ _ _, ?cp ++ 47 :: ?rest = _ /\ _ => idtac end.
  eexists _, [_; _; _; _; _; _; _; _; _; _; _; _; _; _; _; _; _; _; _], (name ++ 64 :: tl ++ s2).
  split; [unfold sep; cbn [app]; reflexivity|].
  split.
  - cbn [ts_like forallb]. rewrite !forallb_in_cls_digit in *. cbn [forallb] in *.
    repeat match goal with H : _ && _ = true |- _ => apply andb_true_iff in H; destruct H end.
    repeat match goal with H : is_digit _ = true |- _ => rewrite H end.
    repeat match goal with
    | H : lower ?x = lower 45 |- _ =>
        assert (x = 45) by (unfold lower in H; cbn in H; destruct ((65 <=? x) && (x <=? 90)) eqn:E;
                              [apply andb_true_iff in E as [E1 E2]; apply Z.leb_le in E1, E2; lia|lia]); subst x; clear H
    end.
    match goal with H : lower ?x = lower 84 |- _ =>
      assert (x = 84 \/ x = 116) as [-> | ->] by (unfold lower in H; cbn in H; destruct ((65 <=? x) && (x <=? 90)) eqn:E;
                              [apply andb_true_iff in E as [E1 E2]; apply Z.leb_le in E1, E2; lia|lia]) end; reflexivity.
  - split; [exact Htmp|]. exists name, (tl ++ s2). split; [reflexivity|].
    intro Hin. apply in_app_or in Hin as [Hin|Hin]; [exact (Htail Hin)|].
    match goal with H : s2 = [] \/ s2 = [10] |- _ => destruct H as [-> | ->] end; [destruct Hin|destruct Hin as [Hin|[]]; discriminate].
Qed.

(* ---- tmp. names at the format's depth never match the data path patterns *)
Definition no_ts_ancestor (d : word) : Prop :=
  forall a ts u, d = a ++ sep :: ts ++ sep :: u -> ts_like ts = false.

Lemma data_frame_never_tmp tail d base :
  nosep tail = true -> ends_eol tail = true ->
  ~ In sep base -> starts_with (W "tmp.") base = true -> no_ts_ancestor d ->
  rmatch true (path_re tail) (d ++ sep :: base) = None.
Proof.
  intros Hns Hee Hb Ht Hd. destruct (rmatch true (path_re tail) (d ++ sep :: base)) as [c|] eqn:E; [|reflexivity].
  exfalso. apply path_re_shape in E as (chpath & sub & y & Hp & Hts & Hy & name & rest & -> & Hrest); auto.
  destruct (last_sep_cases name) as [Hn | (u & w & -> & Hw)].
  - assert (Hyf : ~ In sep (name ++ 64 :: rest)).
    { intro H. apply in_app_or in H as [H|[H|H]]; auto. discriminate. }
    change (chpath ++ sep :: sub ++ sep :: name ++ 64 :: rest)
      with (chpath ++ (sep :: sub) ++ sep :: name ++ 64 :: rest) in Hp.
    rewrite app_assoc in Hp. apply split_last_inj in Hp as [_ Hbase]; auto. subst base. congruence.
  - assert (Hwf : ~ In sep (w ++ 64 :: rest)).
    { intro H. apply in_app_or in H as [H|[H|H]]; auto. discriminate. }
    assert (Hp' : d ++ sep :: base = (chpath ++ sep :: sub ++ sep :: u) ++ sep :: w ++ 64 :: rest).
    { rewrite Hp. rewrite <- !app_assoc. cbn [app]. rewrite <- !app_assoc. reflexivity. }
    apply split_last_inj in Hp' as [Hd' _]; auto.
    rewrite (Hd chpath sub u Hd') in Hts. discriminate.
Qed.

(* ---- the properties path patterns: chpath / fixed-name, whose first letter is never t *)
Fixpoint not_first (k : Z) (r : re) : bool :=
  match r with
  | Chr a => negb (lower a =? k)
  | Seq a _ => not_first k a
  | Alt a b => not_first k a && not_first k b
  | Group _ r' => not_first k r'
  | _ => false
  end.

Lemma not_first_sound k n0 : forall r, not_first k r = true ->
  forall s1 s2 c c', M true n0 r s1 s2 c c' -> exists x s1', s1 = x :: s1' /\ lower x <> k.
Proof.
  induction r; intros Hn s1 s2 cc cc' Hm; cbn in Hn; try discriminate.
  - cbn in Hm. destruct Hm as (x & -> & Hx & _). apply chr_eq_true_cases in Hx.
    apply negb_true_iff, Z.eqb_neq in Hn. exists x, []. split; [reflexivity|]. congruence.
  - cbn in Hm. destruct Hm as (sa & sb & cm & -> & Hma & _).
    destruct (IHr1 Hn _ _ _ _ Hma) as (x & s1' & -> & Hx). exists x, (s1' ++ sb). auto.
  - apply andb_true_iff in Hn as [Ha Hb]. cbn in Hm. destruct Hm as [Hm|Hm]; eauto.
  - cbn in Hm. destruct Hm as (cm & Hm & _). eauto.
Qed.

Definition prop_path_re (body : re) : re :=
  Seq (Group g_chpath (Rep false 0%nat None Any)) (Seq (Chr 47) body).

Definition body_of (r : re) : re := match r with Seq _ (Seq _ b) => b | _ => Eps end.

Lemma e_re_drfprop_frame : e_re_drfprop = prop_path_re (body_of e_re_drfprop).
Proof. reflexivity. Qed.
Lemma e_re_dmdprop_frame : e_re_dmdprop = prop_path_re (body_of e_re_dmdprop).
Proof. reflexivity. Qed.
Lemma e_re_drfdmdprop_frame : e_re_drfdmdprop = prop_path_re (body_of e_re_drfdmdprop).
Proof. reflexivity. Qed.

Lemma prop_frame_never_tmp body d base :
  nosep body = true -> ends_eol body = true -> not_first 116 body = true ->
  ~ In sep base -> starts_with (W "tmp.") base = true ->
  rmatch true (prop_path_re body) (d ++ sep :: base) = None.
Proof.
  intros Hns Hee Hnf Hb Ht.
  destruct (rmatch true (prop_path_re body) (d ++ sep :: base)) as [c|] eqn:E; [|reflexivity].
  exfalso. apply rmatch_sound in E as (s1 & s2 & Hp & H).
  unfold prop_path_re in H. cbn [M] in H. minv.
  match goal with H : chr_eq true 47 ?x = true |- _ => apply chr_eq_true_cases in H; rename H into Hsep end.
  match type of Hsep with lower ?x = _ =>
    assert (x = sep) by (unfold lower in Hsep; cbn in Hsep; unfold sep;
                         destruct ((65 <=? x) && (x <=? 90)) eqn:E0;
                           [apply andb_true_iff in E0 as [E1 E2]; apply Z.leb_le in E1, E2; lia|lia]) end.
  subst.
  match goal with Hm : M true _ body ?t ?s2' _ _ |- _ =>
    pose proof (nosep_sound true _ body Hns _ _ _ _ Hm) as Hbody;
    pose proof (ends_eol_sound true _ body Hee _ _ _ _ Hm) as Hs2;
    destruct (not_first_sound 116 _ body Hnf _ _ _ _ Hm) as (fc & t' & -> & Hx) end.
  match goal with H : d ++ sep :: base = _ |- _ => rename H into Hp' end.
  assert (Hfree : ~ In sep ((fc :: t') ++ s2)).
  { intro H. apply in_app_or in H as [H|H]; [exact (Hbody H)|].
    destruct Hs2 as [-> | ->]; [destruct H|destruct H as [H|[]]; discriminate]. }
  norm.
  change (fc :: t' ++ s2) with ((fc :: t') ++ s2) in Hp'.
  apply split_last_inj in Hp' as [_ Hbase]; auto.
  subst base. cbn [starts_with W app] in Ht. apply andb_true_iff in Ht as [Hx1 _]. apply Z.eqb_eq in Hx1. subst fc.
  apply Hx. reflexivity.
Qed.

(* ---- the six regenerated patterns *)
Theorem event_patterns_never_tmp x d base :
  ~ In sep base -> starts_with (W "tmp.") base = true -> no_ts_ancestor d ->
  rmatch events_ci (re_of x) (d ++ sep :: base) = None.
Proof.
  intros Hb Ht Hd. unfold events_ci. destruct x; cbn [re_of].
  - rewrite e_re_drfdmd_frame. apply data_frame_never_tmp; auto.
  - rewrite e_re_drf_frame. apply data_frame_never_tmp; auto.
  - rewrite e_re_dmd_frame. apply data_frame_never_tmp; auto.
  - rewrite e_re_drfdmdprop_frame. apply prop_frame_never_tmp; auto.
  - rewrite e_re_drfprop_frame. apply prop_frame_never_tmp; auto.
  - rewrite e_re_dmdprop_frame. apply prop_frame_never_tmp; auto.
Qed.

Lemma match_last_none rs p : (forall r, In r rs -> rmatch events_ci r p = None) -> match_last rs p None = None.
Proof.
  induction rs as [|r rs IH]; intro H; cbn; [reflexivity|].
  rewrite (H r (or_introl eq_refl)). apply IH. intros; apply H; right; assumption.
Qed.

(* for ALL flags: a tmp. file at the format's depth is classified "matches nothing" ... *)
Theorem classify_tmp_none f d base :
  ~ In sep base -> starts_with (W "tmp.") base = true -> no_ts_ancestor d ->
  classify (select_regexes f) (d ++ sep :: base) = None.
Proof.
  intros Hb Ht Hd. unfold classify. destruct (d ++ sep :: base) eqn:E; [reflexivity|]. rewrite <- E.
  rewrite match_last_none; [reflexivity|].
  intros r Hr. unfold select_regexes in Hr. apply in_map_iff in Hr as (x & <- & _).
  apply event_patterns_never_tmp; assumption.
Qed.

(* ... hence never accepted, for ALL flags, windows and event kinds ... *)
Theorem never_tmp_unbounded f st en k d base :
  ~ In sep base -> starts_with (W "tmp.") base = true -> no_ts_ancestor d ->
  accepts f st en k (d ++ sep :: base) = false.
Proof.
  intros Hb Ht Hd. unfold accepts, dispatch.
  destruct (select_regexes f) as [|r rs] eqn:Es; [reflexivity|]. rewrite <- Es.
  rewrite single_event, (classify_tmp_none f d base Hb Ht Hd). reflexivity.
Qed.

(* ... and the writer's finalizing rename d/tmp.b -> d/b is delivered as the creation of d/b exactly
   when the filter accepts d/b, for ALL such paths *)
Theorem finalize_is_creation_unbounded f st en d b ti :
  ~ In sep b -> no_ts_ancestor d -> select_regexes f <> [] ->
  classify (select_regexes f) (d ++ sep :: b) = Some ti -> ti <> BadInt ->
  dispatch f st en (moved (d ++ sep :: W "tmp." ++ b) (d ++ sep :: b)) =
    Some (if window_ok st en ti then Deliver Created (d ++ sep :: b) [] else Dropped).
Proof.
  intros Hb Hd Hs Hc Hti. unfold dispatch. destruct (select_regexes f) as [|r rs] eqn:Es; [congruence|]. rewrite <- Es in *.
  f_equal. apply finalize_is_creation_core; auto.
  - destruct d; discriminate.
  - apply classify_tmp_none; auto. intros [H|[H|[H|[H|H]]]]; try discriminate. exact (Hb H).
Qed.

(* ---- the hypothesis is decidable, and holds for the paths of the format *)
Definition no_ts_ancestor_b (d : word) : bool :=
  forallb (fun i => negb ((nth i d 0 =? sep) && ts_like (firstn 19 (skipn (S i) d)) && (nth (i + 20) d 0 =? sep)))
          (seq 0 (length d)).

Lemma ts_like_length ts : ts_like ts = true -> length ts = 19%nat.
Proof.
  unfold ts_like. do 19 (destruct ts as [|? ts]; [discriminate|]). destruct ts; [reflexivity|discriminate].
Qed.

Lemma no_ts_ancestor_b_sound d : no_ts_ancestor_b d = true -> no_ts_ancestor d.
Proof.
  unfold no_ts_ancestor_b, no_ts_ancestor. intros H a ts u ->.
  destruct (ts_like ts) eqn:Ets; [|reflexivity]. exfalso.
  pose proof (ts_like_length ts Ets) as Hlen.
  rewrite forallb_forall in H. specialize (H (length a)).
  assert (Hin : In (length a) (seq 0 (length (a ++ sep :: ts ++ sep :: u)))).
  { apply in_seq. rewrite app_length. cbn. lia. }
  apply H in Hin. apply negb_true_iff in Hin.
  assert (E1 : nth (length a) (a ++ sep :: ts ++ sep :: u) 0 = sep).
  { rewrite app_nth2 by lia. rewrite Nat.sub_diag. reflexivity. }
  assert (E2 : skipn (S (length a)) (a ++ sep :: ts ++ sep :: u) = ts ++ sep :: u).
  { replace (S (length a)) with (length (a ++ [sep])) by (rewrite app_length; cbn; lia).
    replace (a ++ sep :: ts ++ sep :: u) with ((a ++ [sep]) ++ ts ++ sep :: u) by (rewrite <- app_assoc; reflexivity).
    rewrite skipn_app, skipn_all, Nat.sub_diag. reflexivity. }
  assert (E3 : nth (length a + 20) (a ++ sep :: ts ++ sep :: u) 0 = sep).
  { rewrite app_nth2 by lia. replace (length a + 20 - length a)%nat with 20%nat by lia.
    change (nth 20 (sep :: ts ++ sep :: u) 0) with (nth 19 (ts ++ sep :: u) 0).
    rewrite app_nth2 by lia. rewrite Hlen. reflexivity. }
  rewrite E1, E2, E3, Z.eqb_refl in Hin. rewrite <- Hlen, firstn_app, firstn_all, Nat.sub_diag in Hin.
  cbn [firstn] in Hin. rewrite app_nil_r, Ets in Hin. discriminate.
Qed.

Example never_tmp_unbounded_example :
  no_ts_ancestor (W "/data/ringbuffer/ch0/2017-07-14T02-00-00") /\
  accepts (mkFlags true true None None) None None Created
          (W "/data/ringbuffer/ch0/2017-07-14T02-00-00" ++ sep :: W "rf@1500000000.000.h5") = true /\
  ~ no_ts_ancestor (W "/w/2017-07-14T02-00-00/x/2017-07-14T02-00-00").
Proof.
  split; [apply no_ts_ancestor_b_sound; vm_compute; reflexivity|]. split; [vm_compute; reflexivity|].
  intro H. specialize (H (W "/w") (W "2017-07-14T02-00-00") (W "x/2017-07-14T02-00-00") eq_refl). discriminate.
Qed.
