(* C04 for the writer as a whole: after ANY history of public API calls every stored sample index lies
   in the file the exact layout names for it (and nowhere else): if file a of the writer's state holds
   index k then a is the file of k, f_ms a = F_of k -- floor(k*d*1000/n) rounded down to the file
   cadence -- whose name and subdirectory are the pure functions of (k, rate, cadences) proved in
   Properties/C04.v.  Chunked layouts and the un-chunked continuous layout. *)
From Coq Require Import ZArith List Bool Lia.
From DRF Require Import Base.DivLemmas Model.LayoutSpec Model.IndexCalc Model.WriterCore Model.PyWriter
  Proofs.LayoutProofs Proofs.WriterBasics Proofs.WriterInv Proofs.WriterInvU Proofs.WriterMultiIdx Proofs.WriterMulti
  Proofs.PyWriterProofs Proofs.PyApiHistory.
Import ListNotations.
Local Open Scope Z_scope.

Lemma FWF_index_in_window c B a k v : vcfg c -> FWF c B a -> file_lookup a k = Some v -> Fk c k = f_ms a.
Proof.
  intros Hc ((g & tl & Hi & Hlo) & Hwf & (K0 & HK0 & EK0)) Hl. unfold file_lookup in Hl.
  pose proof (rows_lookup_bound _ _ _ _ _ Hwf Hl) as Hhi.
  assert (Hge : g <= k).
  { destruct (Z_lt_le_dec k g) as [Hlt|]; [|assumption].
    rewrite Hi in Hl, Hwf. rewrite (rows_lookup_below tl g 0 (f_data a) _ k Hwf Hlt) in Hl. discriminate. }
  rewrite EK0. apply (Fk_same c K0 k Hc). rewrite <- EK0. lia.
Qed.

Lemma FWFu_index_in_window c a k v : vcfg c -> FWFu c a -> file_lookup a k = Some v -> Fk c k = f_ms a.
Proof.
  intros Hc (Hi & Hl & (K0 & HK0 & EK0)) Hk. unfold file_lookup in Hk. rewrite Hi, rl_one in Hk.
  destruct ((wlo c (f_ms a) <=? k) && (k <? wlo c (f_ms a) + (zlen (f_data a) - 0))) eqn:E; [|discriminate].
  apply andb_true_iff in E as [E1 E2]. apply Z.leb_le in E1. apply Z.ltb_lt in E2.
  rewrite EK0. apply (Fk_same c K0 k Hc). rewrite <- EK0. lia.
Qed.

Lemma Inv_index_in_file c st a k v : vcfg c -> Inv c st -> In a (all_files st) -> file_lookup a k = Some v ->
  Fk c k = f_ms a.
Proof.
  intros Hc [_ Hf Ho] Hin Hl. unfold all_files in Hin. apply in_app_or in Hin as [Hin|Hin].
  - rewrite Forall_forall in Hf. destruct (Hf a Hin) as (H & _). eapply FWF_index_in_window; eassumption.
  - destruct (w_openf st) as [b|]; [|destruct Hin]. destruct Hin as [<-|[]].
    destruct Ho as (_ & H & _). eapply FWF_index_in_window; eassumption.
Qed.

Lemma InvU_index_in_file c st a k v : vcfg c -> InvU c st -> In a (all_files st) -> file_lookup a k = Some v ->
  Fk c k = f_ms a.
Proof.
  intros Hc [_ Hf Ho] Hin Hl. unfold all_files in Hin. apply in_app_or in Hin as [Hin|Hin].
  - rewrite Forall_forall in Hf. destruct (Hf a Hin) as (H & _). eapply FWFu_index_in_window; eassumption.
  - destruct (w_openf st) as [b|]; [|destruct Hin]. destruct Hin as [<-|[]].
    destruct Ho as (_ & H & _). eapply FWFu_index_in_window; eassumption.
Qed.

Theorem api_index_in_named_file_gapped c ops a k v : vcfg c -> c_chunk c = true -> c_cont c = false ->
  Forall api_arg_ok ops ->
  In a (all_files (p_w (fold_left (api_state c) ops py_init))) -> file_lookup a k = Some v ->
  f_ms a = F_of k (c_n c) (c_d c) (c_fc c).
Proof.
  intros Hc Hch Hco Hops Hin Hl. destruct (api_history_gapped c ops Hc Hch Hco Hops) as (_ & (HI & _) & _).
  symmetry. exact (Inv_index_in_file c _ a k v Hc HI Hin Hl).
Qed.

Theorem api_index_in_named_file_continuous_chunked c ops a k v : vcfg c -> c_chunk c = true -> c_cont c = true ->
  Forall api_arg_ok ops ->
  In a (all_files (p_w (fold_left (api_state c) ops py_init))) -> file_lookup a k = Some v ->
  f_ms a = F_of k (c_n c) (c_d c) (c_fc c).
Proof.
  intros Hc Hch Hco Hops Hin Hl. destruct (api_history_continuous_chunked c ops Hc Hch Hco Hops) as (_ & (HI & _) & _).
  symmetry. exact (Inv_index_in_file c _ a k v Hc HI Hin Hl).
Qed.

Theorem api_index_in_named_file_continuous_unchunked c ops a k v : vcfg c -> c_chunk c = false -> c_cont c = true ->
  Forall api_arg_ok ops ->
  In a (all_files (p_w (fold_left (api_state c) ops py_init))) -> file_lookup a k = Some v ->
  f_ms a = F_of k (c_n c) (c_d c) (c_fc c).
Proof.
  intros Hc Hch Hco Hops Hin Hl. destruct (api_history_continuous_unchunked c ops Hc Hch Hco Hops) as (_ & HR & _).
  symmetry. exact (InvU_index_in_file c _ a k v Hc (ru_inv _ _ _ HR) Hin Hl).
Qed.

(* ---- no two files of a channel hold the same index *)
Lemma ms_incr_head_lt l : forall x, ms_incr (x :: l) -> Forall (fun y => x < y) l.
Proof.
  induction l as [|y r IH]; intros x H; [constructor|].
  cbn [ms_incr] in H. destruct H as (Hxy & Hr). constructor; [exact Hxy|].
  specialize (IH y Hr). eapply Forall_impl; [|exact IH]. intros z Hz. cbn beta in *. lia.
Qed.

Lemma ms_incr_nth_inj l : ms_incr l -> forall i j x, nth_error l i = Some x -> nth_error l j = Some x -> i = j.
Proof.
  induction l as [|y r IH]; intros H i j x Hi Hj; [destruct i; discriminate|].
  pose proof (ms_incr_head_lt r y H) as Hlt. rewrite Forall_forall in Hlt.
  cbn [ms_incr] in H. destruct H as (_ & Hr).
  destruct i as [|i], j as [|j]; cbn [nth_error] in *.
  - reflexivity.
  - inversion Hi; subst. apply nth_error_In in Hj. specialize (Hlt _ Hj). lia.
  - inversion Hj; subst. apply nth_error_In in Hi. specialize (Hlt _ Hi). lia.
  - f_equal. eapply IH; eassumption.
Qed.

Lemma no_index_in_two_files (fs : list afile) (F : Z -> Z) :
  ms_incr (map f_ms fs) -> (forall a k v, In a fs -> file_lookup a k = Some v -> f_ms a = F k) ->
  forall i j a b k v w, nth_error fs i = Some a -> nth_error fs j = Some b ->
    file_lookup a k = Some v -> file_lookup b k = Some w -> i = j.
Proof.
  intros Hso HF i j a b k v w Hi Hj Ha Hb.
  apply (ms_incr_nth_inj (map f_ms fs) Hso i j (F k)).
  - rewrite nth_error_map, Hi. cbn. f_equal. eapply HF; [eapply nth_error_In; exact Hi|exact Ha].
  - rewrite nth_error_map, Hj. cbn. f_equal. eapply HF; [eapply nth_error_In; exact Hj|exact Hb].
Qed.

Theorem api_no_index_in_two_files_gapped c ops i j a b k v w : vcfg c -> c_chunk c = true -> c_cont c = false ->
  Forall api_arg_ok ops ->
  let fs := all_files (p_w (fold_left (api_state c) ops py_init)) in
  nth_error fs i = Some a -> nth_error fs j = Some b ->
  file_lookup a k = Some v -> file_lookup b k = Some w -> i = j.
Proof.
  intros Hc Hch Hco Hops fs. destruct (api_history_gapped c ops Hc Hch Hco Hops) as (_ & (HI & _ & _ & Hso) & _).
  apply (no_index_in_two_files fs (fun k => F_of k (c_n c) (c_d c) (c_fc c)) Hso).
  intros a0 k0 v0 Hin Hl. symmetry. exact (Inv_index_in_file c _ a0 k0 v0 Hc HI Hin Hl).
Qed.

Theorem api_no_index_in_two_files_continuous_unchunked c ops i j a b k v w :
  vcfg c -> c_chunk c = false -> c_cont c = true -> Forall api_arg_ok ops ->
  let fs := all_files (p_w (fold_left (api_state c) ops py_init)) in
  nth_error fs i = Some a -> nth_error fs j = Some b ->
  file_lookup a k = Some v -> file_lookup b k = Some w -> i = j.
Proof.
  intros Hc Hch Hco Hops fs. destruct (api_history_continuous_unchunked c ops Hc Hch Hco Hops) as (_ & HR & _).
  apply (no_index_in_two_files fs (fun k => F_of k (c_n c) (c_d c) (c_fc c)) (ru_sorted _ _ _ HR)).
  intros a0 k0 v0 Hin Hl. symmetry. exact (InvU_index_in_file c _ a0 k0 v0 Hc (ru_inv _ _ _ HR) Hin Hl).
Qed.
