(* Names are injective in the file time F and the directory time S (C04): two different file
   times never print to the same rf@<sec>.<ms>.h5, and two different directory times (years
   1000..9999) never print to the same YYYY-MM-DDTHH-MM-SS. *)
From Coq Require Import ZArith String Ascii List Bool Lia DecimalString.
From DRF Require Import Base.Dec Base.Civil.
Import ListNotations.
Local Open Scope Z_scope.

(* ---- strings *)
Lemma append_inj_length (a b c d : string) :
  String.length a = String.length c -> append a b = append c d -> a = c /\ b = d.
Proof.
  revert c. induction a as [|x a IH]; intros c Hl H; destruct c as [|y c]; cbn in *; try discriminate.
  - auto.
  - injection H as Hx H. injection Hl as Hl. destruct (IH c Hl H) as [-> ->]. subst. auto.
Qed.

Lemma append_inj_l (a b d : string) : append a b = append a d -> b = d.
Proof. induction a as [|x a IH]; cbn; [auto|]. intros H. injection H as H. auto. Qed.

(* ---- fixed-width zero padding: decoded back by position *)
Definition digit_val (c : ascii) : Z := Z.of_nat (nat_of_ascii c) - 48.

Fixpoint decode_digits (s : string) (acc : Z) : Z :=
  match s with EmptyString => acc | String c s' => decode_digits s' (acc * 10 + digit_val c) end.

Definition pad_ok (w : nat) (n : Z) : bool :=
  (Nat.eqb (String.length (pad0 w n)) w) && (decode_digits (pad0 w n) 0 =? n).

Lemma pad2_sweep : snd (sweep (pad_ok 2) 100) = true.
Proof. vm_cast_no_check (eq_refl true). Qed.
Lemma pad3_sweep : snd (sweep (pad_ok 3) 1000) = true.
Proof. vm_cast_no_check (eq_refl true). Qed.
Lemma pad4_sweep : snd (sweep (pad_ok 4) 10000) = true.
Proof. vm_cast_no_check (eq_refl true). Qed.

Lemma pad_ok_spec w n : pad_ok w n = true -> String.length (pad0 w n) = w /\ decode_digits (pad0 w n) 0 = n.
Proof.
  unfold pad_ok. intros H. apply andb_true_iff in H as [H1 H2].
  apply Nat.eqb_eq in H1. apply Z.eqb_eq in H2. auto.
Qed.

Lemma pad2_ok n : 0 <= n < 100 -> String.length (pad0 2 n) = 2%nat /\ decode_digits (pad0 2 n) 0 = n.
Proof. intros H. apply pad_ok_spec. exact (sweep_sound (pad_ok 2) 100 pad2_sweep n H). Qed.
Lemma pad3_ok n : 0 <= n < 1000 -> String.length (pad0 3 n) = 3%nat /\ decode_digits (pad0 3 n) 0 = n.
Proof. intros H. apply pad_ok_spec. exact (sweep_sound (pad_ok 3) 1000 pad3_sweep n H). Qed.
Lemma pad4_ok n : 0 <= n < 10000 -> String.length (pad0 4 n) = 4%nat /\ decode_digits (pad0 4 n) 0 = n.
Proof. intros H. apply pad_ok_spec. exact (sweep_sound (pad_ok 4) 10000 pad4_sweep n H). Qed.

Lemma pad_inj w a b :
  String.length (pad0 w a) = w /\ decode_digits (pad0 w a) 0 = a ->
  String.length (pad0 w b) = w /\ decode_digits (pad0 w b) 0 = b ->
  pad0 w a = pad0 w b -> a = b.
Proof. intros [_ Ha] [_ Hb] E. rewrite <- Ha, <- Hb, E. reflexivity. Qed.

(* ---- the directory name *)
Definition subdir_fmt := "%04i-%02i-%02iT%02i-%02i-%02i"%string.

Lemma subdir_shape y mo dd hh mi ss :
  snprintf subdir_fmt [y; mo; dd; hh; mi; ss] =
  append (pad0 4 y) (String "-" (append (pad0 2 mo) (String "-" (append (pad0 2 dd) (String "T"
    (append (pad0 2 hh) (String "-" (append (pad0 2 mi) (String "-" (append (pad0 2 ss) EmptyString)))))))))).
Proof. reflexivity. Qed.

Lemma subdir_fields_inj y mo dd hh mi ss y' mo' dd' hh' mi' ss' :
  0 <= y < 10000 -> 0 <= mo < 100 -> 0 <= dd < 100 -> 0 <= hh < 100 -> 0 <= mi < 100 -> 0 <= ss < 100 ->
  0 <= y' < 10000 -> 0 <= mo' < 100 -> 0 <= dd' < 100 -> 0 <= hh' < 100 -> 0 <= mi' < 100 -> 0 <= ss' < 100 ->
  snprintf subdir_fmt [y; mo; dd; hh; mi; ss] = snprintf subdir_fmt [y'; mo'; dd'; hh'; mi'; ss'] ->
  y = y' /\ mo = mo' /\ dd = dd' /\ hh = hh' /\ mi = mi' /\ ss = ss'.
Proof.
  intros Hy Hmo Hdd Hhh Hmi Hss Hy' Hmo' Hdd' Hhh' Hmi' Hss' E.
  rewrite !subdir_shape in E.
  pose proof (pad4_ok y Hy) as Py. pose proof (pad4_ok y' Hy') as Py'.
  pose proof (pad2_ok mo Hmo) as Pmo. pose proof (pad2_ok mo' Hmo') as Pmo'.
  pose proof (pad2_ok dd Hdd) as Pdd. pose proof (pad2_ok dd' Hdd') as Pdd'.
  pose proof (pad2_ok hh Hhh) as Phh. pose proof (pad2_ok hh' Hhh') as Phh'.
  pose proof (pad2_ok mi Hmi) as Pmi. pose proof (pad2_ok mi' Hmi') as Pmi'.
  pose proof (pad2_ok ss Hss) as Pss. pose proof (pad2_ok ss' Hss') as Pss'.
  apply append_inj_length in E as [E1 E]; [|destruct Py, Py'; congruence]. injection E as E.
  apply append_inj_length in E as [E2 E]; [|destruct Pmo, Pmo'; congruence]. injection E as E.
  apply append_inj_length in E as [E3 E]; [|destruct Pdd, Pdd'; congruence]. injection E as E.
  apply append_inj_length in E as [E4 E]; [|destruct Phh, Phh'; congruence]. injection E as E.
  apply append_inj_length in E as [E5 E]; [|destruct Pmi, Pmi'; congruence]. injection E as E.
  apply append_inj_length in E as [E6 _]; [|destruct Pss, Pss'; congruence].
  repeat split; eapply pad_inj; eassumption.
Qed.

(* directory names are injective in the directory time, for years up to 9999 *)
Theorem subdir_name_injective S S' : 0 <= S < 253402300800 -> 0 <= S' < 253402300800 ->
  (let '(y, mo, dd, hh, mi, ss) := time_parts S in snprintf subdir_fmt [y; mo; dd; hh; mi; ss]) =
  (let '(y, mo, dd, hh, mi, ss) := time_parts S' in snprintf subdir_fmt [y; mo; dd; hh; mi; ss]) ->
  S = S'.
Proof.
  intros HS HS' E.
  pose proof (time_parts_ranges S ltac:(lia)) as R. pose proof (time_parts_ranges S' ltac:(lia)) as R'.
  pose proof (civil_roundtrip S ltac:(lia)) as RT. pose proof (civil_roundtrip S' ltac:(lia)) as RT'.
  destruct (time_parts S) as [[[[[y mo] dd] hh] mi] ss] eqn:ES.
  destruct (time_parts S') as [[[[[y' mo'] dd'] hh'] mi'] ss'] eqn:ES'.
  destruct R as (R1 & R2 & R3 & R4 & R5 & R6). destruct R' as (R1' & R2' & R3' & R4' & R5' & R6').
  (* year < 10000: otherwise the round trip would exceed the bound *)
  assert (Yb : forall yy mm d2, 10000 <= yy -> 1 <= mm <= 12 -> 1 <= d2 -> 2932897 <= days_from_civil yy mm d2).
  { clear. intros yy mm d2 Hy Hm Hd. unfold days_from_civil, doe_of_ymd.
    set (y1 := if mm <=? 2 then yy - 1 else yy).
    assert (Hy1 : 9999 <= y1 /\ (2 < mm -> 10000 <= y1)).
    { unfold y1. destruct (mm <=? 2) eqn:E; [apply Z.leb_le in E|apply Z.leb_gt in E]; lia. }
    pose proof (Z.div_mod y1 400 ltac:(lia)) as Hdm. pose proof (Z.mod_pos_bound y1 400 ltac:(lia)) as Hmb.
    set (era := y1 / 400) in *. set (yoe := y1 mod 400) in *.
    assert (Hq4 : 0 <= yoe / 4) by (apply Z.div_pos; lia).
    assert (Hq100 : yoe / 100 <= yoe / 4).
    { apply Z.div_le_lower_bound; [lia|]. pose proof (Z.div_mod yoe 4 ltac:(lia)). pose proof (Z.mod_pos_bound yoe 4 ltac:(lia)).
      pose proof (Z.div_mod yoe 100 ltac:(lia)). pose proof (Z.mod_pos_bound yoe 100 ltac:(lia)). lia. }
    assert (Hdoy : 0 <= (153 * (if 2 <? mm then mm - 3 else mm + 9) + 2) / 5).
    { apply Z.div_pos; [|lia]. destruct (2 <? mm) eqn:E; [apply Z.ltb_lt in E|apply Z.ltb_ge in E]; lia. }
    destruct (Z_lt_le_dec era 25) as [Hlt|Hge]; [|nia].
    assert (era = 24) by lia. assert (Hyoe : yoe = y1 - 9600) by lia.
    assert (yoe = 399) by lia.
    assert (Hm2 : mm <= 2) by (destruct (Z_lt_le_dec 2 mm) as [H2|H2]; [destruct Hy1 as [_ Hb]; specialize (Hb H2); lia|lia]).
    assert (E2 : (2 <? mm) = false) by (apply Z.ltb_ge; lia). rewrite E2 in *.
    assert (306 <= (153 * (mm + 9) + 2) / 5) by (apply Z.div_le_lower_bound; lia).
    replace (yoe / 4) with 99 by (subst yoe; rewrite H0; reflexivity).
    replace (yoe / 100) with 3 by (subst yoe; rewrite H0; reflexivity).
    lia. }
  assert (Yc : forall T yy mm d2 h2 m2 s2, 0 <= T < 253402300800 -> time_parts T = (yy, mm, d2, h2, m2, s2) ->
               1 <= mm <= 12 -> 1 <= d2 -> 0 <= h2 -> 0 <= m2 -> 0 <= s2 -> yy < 10000).
  { intros T yy mm d2 h2 m2 s2 HT Etp Hm Hd Hh Hmi Hs.
    destruct (Z_lt_le_dec yy 10000) as [Hlt|Hge]; [exact Hlt|]. exfalso.
    pose proof (civil_roundtrip T ltac:(lia)) as RTT. rewrite Etp in RTT. unfold unix_of_parts in RTT.
    pose proof (Yb yy mm d2 Hge Hm Hd). lia. }
  pose proof (Yc S y mo dd hh mi ss HS ES ltac:(lia) ltac:(lia) ltac:(lia) ltac:(lia) ltac:(lia)) as Hy.
  pose proof (Yc S' y' mo' dd' hh' mi' ss' HS' ES' ltac:(lia) ltac:(lia) ltac:(lia) ltac:(lia) ltac:(lia)) as Hy'.
  assert (F : y = y' /\ mo = mo' /\ dd = dd' /\ hh = hh' /\ mi = mi' /\ ss = ss').
  { apply subdir_fields_inj; try lia. exact E. }
  destruct F as (-> & -> & -> & -> & -> & ->).
  rewrite <- RT, <- RT'. reflexivity.
Qed.

(* ---- the file name *)
Definition file_fmt := "tmp.rf@%lu.%03lu.h5"%string.

Lemma file_shape a b :
  snprintf file_fmt [a; b] =
  append "tmp.rf@" (append (padsp 0 a) (String "." (append (pad0 3 b) ".h5"))).
Proof. reflexivity. Qed.

(* decimal strings contain no '.' *)
Fixpoint no_dot (s : string) : Prop :=
  match s with EmptyString => True | String c s' => c <> "."%char /\ no_dot s' end.

Lemma nilempty_no_dot d : no_dot (NilEmpty.string_of_uint d).
Proof. induction d; cbn; try exact I; (split; [discriminate|assumption]). Qed.

Lemma dec_no_dot a : 0 <= a -> no_dot (dec a).
Proof.
  intros Ha. unfold dec. destruct a as [|p|p]; [cbn; split; [discriminate|exact I]| |lia].
  cbn [Z.to_int NilZero.string_of_int]. unfold NilZero.string_of_uint.
  destruct (Pos.to_uint p); try (cbn; split; [discriminate|exact I]); apply nilempty_no_dot.
Qed.

Lemma split_at_dot a b c d : no_dot a -> no_dot c ->
  append a (String "." b) = append c (String "." d) -> a = c /\ b = d.
Proof.
  revert c. induction a as [|x a IH]; intros c Ha Hc E; destruct c as [|y c]; cbn in *.
  - injection E as E. auto.
  - injection E as E1 E2. destruct Hc as [Hy _]. congruence.
  - injection E as E1 E2. destruct Ha as [Hx _]. congruence.
  - injection E as E1 E2. destruct Ha as [_ Ha]. destruct Hc as [_ Hc].
    destruct (IH c Ha Hc E2) as [-> ->]. subst. auto.
Qed.

(* file names are injective in the file time F (seconds part and millisecond part) *)
Theorem file_name_injective F F' : 0 <= F -> 0 <= F' ->
  snprintf file_fmt [F / 1000; F mod 1000] = snprintf file_fmt [F' / 1000; F' mod 1000] -> F = F'.
Proof.
  intros HF HF' E. rewrite !file_shape in E.
  apply append_inj_l in E.
  assert (Hq : 0 <= F / 1000) by (apply Z.div_pos; lia).
  assert (Hq' : 0 <= F' / 1000) by (apply Z.div_pos; lia).
  unfold padsp in E. cbn [Nat.sub] in E.
  change (append EmptyString ?x) with x in E.
  apply split_at_dot in E as [E1 E2]; [|apply dec_no_dot; assumption|apply dec_no_dot; assumption].
  apply dec_inj in E1.
  pose proof (Z.mod_pos_bound F 1000 ltac:(lia)) as Hm. pose proof (Z.mod_pos_bound F' 1000 ltac:(lia)) as Hm'.
  apply append_inj_length in E2 as [E2 _]; [|destruct (pad3_ok _ Hm), (pad3_ok _ Hm'); congruence].
  apply (pad_inj 3 _ _ (pad3_ok _ Hm) (pad3_ok _ Hm')) in E2.
  rewrite (Z.div_mod F 1000), (Z.div_mod F' 1000) by lia. rewrite E1, E2. reflexivity.
Qed.
