(* The hand model of list_drf._decorated_list_slice (Model/Listing.v: start_split / end_take / slice,
   variant `fixed`) denotes exactly the indices computed by the code regenerated from the source
   (Gen/ListSliceGen.v, translator T14):  slice l = (l[:ks], l[ks:ke]). *)
From Coq Require Import ZArith List Bool Arith Lia.
From DRF Require Import Model.ListSliceBase Model.Listing Gen.ListSliceGen.
Import ListNotations.

Section S.
Context {A : Type} (time : A -> Z).

Lemma span_take_while (p : A -> bool) l :
  fst (span p l) = take_while p l.
Proof. induction l as [|x l IH]; cbn; [reflexivity|]. destruct (p x); cbn; [f_equal; exact IH | reflexivity]. Qed.

Lemma span_app (p : A -> bool) l : fst (span p l) ++ snd (span p l) = l.
Proof. induction l as [|x l IH]; cbn; [reflexivity|]. destruct (p x); cbn; [f_equal; exact IH | reflexivity]. Qed.

Lemma span_snd_skipn (p : A -> bool) l : snd (span p l) = skipn (length (fst (span p l))) l.
Proof. induction l as [|x l IH]; cbn; [reflexivity|]. destruct (p x); cbn; [exact IH | reflexivity]. Qed.

Lemma span_fst_firstn (p : A -> bool) l : fst (span p l) = firstn (length (fst (span p l))) l.
Proof. induction l as [|x l IH]; cbn; [reflexivity|]. destruct (p x); cbn; [f_equal; exact IH | reflexivity]. Qed.

Lemma take_while_map (p : Z -> bool) l :
  length (take_while p (map time l)) = length (take_while (fun x => p (time x)) l).
Proof. induction l as [|x l IH]; cbn; [reflexivity|]. destruct (p (time x)); cbn; [f_equal; exact IH | reflexivity]. Qed.

Lemma take_while_le (p : A -> bool) l : length (take_while p l) <= length l.
Proof. induction l as [|x l IH]; cbn; [lia|]. destruct (p x); cbn; lia. Qed.

(* the entry after the leading run does not satisfy the predicate *)
Lemma take_while_stop (p : A -> bool) l d :
  length (take_while p l) < length l -> p (nth (length (take_while p l)) l d) = false.
Proof.
  induction l as [|x l IH]; cbn; [lia|]. destruct (p x) eqn:E; cbn; [intro H; apply IH; lia | intros _; exact E].
Qed.

Lemma skipn_map n (l : list A) : skipn n (map time l) = map time (skipn n l).
Proof. revert l; induction n as [|n IH]; intros [|x l]; cbn; auto. Qed.

Lemma nth_time_map l i d : i < length l -> nth_time (map time l) i = time (nth i l d).
Proof. intro H. unfold nth_time. rewrite (nth_indep _ 0%Z (time d)) by (rewrite map_length; exact H). apply map_nth. Qed.

Lemma skipn_cons_nth {B} (l : list B) n d : n < length l -> skipn n l = nth n l d :: skipn (S n) l.
Proof. revert n; induction l as [|x l IH]; intros [|n] H; cbn in *; try lia; auto. apply IH; lia. Qed.

Lemma skipn_add {B} (l : list B) a b : skipn (a + b) l = skipn b (skipn a l).
Proof. revert l; induction a as [|a IH]; intros [|x l]; cbn; auto. destruct b; reflexivity. Qed.

(* ---------------------------------------------------------------- the while loop *)
Lemma while_count (t : list Z) (e : Z) : forall fuel k,
  k <= length t -> length t - k < fuel ->
  while_nat (fun ke => (ke <? length t)%nat && (nth_time t ke =? e)%Z) (fun ke => ke + 1) fuel k
  = k + length (take_while (fun y => (y =? e)%Z) (skipn k t)).
Proof.
  induction fuel as [|fuel IH]; intros k Hk Hf; [lia|].
  cbn [while_nat]. destruct (Nat.ltb_spec k (length t)) as [Hlt|Hge].
  - cbn [andb]. unfold nth_time at 1.
    rewrite (skipn_cons_nth t k 0%Z Hlt). cbn [take_while]. destruct (nth k t 0%Z =? e)%Z.
    + rewrite IH by lia. cbn [length]. replace (k + 1) with (S k) by lia. lia.
    + cbn. lia.
  - cbn [andb]. rewrite skipn_all2 by lia. cbn. lia.
Qed.

(* ---------------------------------------------------------------- the statement *)
Definition cut (l : list A) (k : nat * nat) : list A * list A :=
  (firstn (fst k) l, firstn (snd k - fst k) (skipn (fst k) l)).

Lemma rev_last_split (l : list A) : l <> [] ->
  exists x, rev l = x :: rev (firstn (length l - 1) l) /\ skipn (length l - 1) l = [x].
Proof.
  intro H. destruct (exists_last H) as [l' [x E]]. subst l. exists x.
  rewrite rev_app_distr. cbn [rev app]. rewrite app_length. cbn [length].
  replace (length l' + 1 - 1) with (length l') by lia.
  rewrite firstn_app, Nat.sub_diag, firstn_all. cbn [firstn]. rewrite app_nil_r.
  rewrite skipn_app, Nat.sub_diag, skipn_all. cbn. auto.
Qed.

Lemma start_split_regen l st ffill :
  let ks := fst (gen_decorated_list_slice (map time l) st None ffill) in
  start_split time l st ffill = (firstn ks l, skipn ks l) /\ ks <= length l.
Proof.
  unfold gen_decorated_list_slice, start_split. destruct st as [s|]; cbn [fst]; [|cbn; split; [reflexivity | lia]].
  unfold bisect_left. cbn [skipn Nat.add]. rewrite take_while_map.
  set (p := fun x => (time x <? s)%Z).
  pose proof (span_take_while p l) as Ht. pose proof (span_snd_skipn p l) as Hs. pose proof (span_fst_firstn p l) as Hf.
  pose proof (take_while_le p l) as Hle. rewrite <- Ht in *. set (n := length (fst (span p l))) in *.
  rewrite map_length.
  assert (Hcond : (match snd (span p l) with [] => true | y :: _ => (time y >? s)%Z end)
                  = ((n =? length l)%nat || (nth_time (map time l) n >? s)%Z)).
  { rewrite Hs. destruct (Nat.eqb_spec n (length l)) as [E|E].
    - rewrite E, skipn_all. reflexivity.
    - cbn [orb]. assert (Hn : n < length l) by lia.
      assert (Hd : exists d : A, True) by (destruct l; [cbn in Hn; lia | eauto]).
      destruct Hd as [d _]. rewrite (skipn_cons_nth l n d Hn), (nth_time_map l n d Hn). reflexivity. }
  rewrite Hcond. destruct (ffill && _) eqn:Ec.
  - rewrite Nat.max_0_r. destruct (rev (fst (span p l))) as [|x rlo] eqn:Er.
    + assert (E0 : fst (span p l) = []) by (apply (f_equal (@rev A)) in Er; rewrite rev_involutive in Er; exact Er).
      unfold n. rewrite E0. cbn. rewrite Hs. unfold n. rewrite E0. cbn. split; [reflexivity | lia].
    + assert (Hne : fst (span p l) <> []) by (intro E0; rewrite E0 in Er; discriminate).
      destruct (rev_last_split _ Hne) as [x' [E1 E2]]. rewrite Er in E1. injection E1 as -> ->.
      rewrite rev_involutive. fold n in E2 |- *.
      assert (Hn1 : n >= 1) by (unfold n; destruct (fst (span p l)); [congruence | cbn; lia]).
      split; [|lia]. f_equal.
      * rewrite Hf. rewrite firstn_firstn. f_equal. lia.
      * transitivity (skipn (n - 1) (firstn n l ++ skipn n l)); [|rewrite firstn_skipn; reflexivity].
        rewrite skipn_app, firstn_length, Nat.min_l by lia. replace (n - 1 - n) with 0 by lia.
        cbn [skipn]. rewrite <- Hf, E2, Hs. reflexivity.
  - split; [|exact Hle]. rewrite (surjective_pairing (span p l)). f_equal; [exact Hf | exact Hs].
Qed.

Lemma end_take_regen (r : list A) (t : list Z) en ks :
  ks <= length t -> skipn ks t = map time r ->
  let ke := match en with
            | Some e => while_nat (fun ke => (ke <? length t)%nat && (nth_time t ke =? e)%Z) (fun ke => ke + 1)
                          (S (length t)) (bisect_left t e ks)
            | None => length t
            end in
  end_take fixed time r en = firstn (ke - ks) r /\ ks <= ke <= length t.
Proof.
  intros Hk Hr ke. unfold end_take. subst ke.
  assert (Hlen : length r = length t - ks) by (rewrite <- (map_length time r), <- Hr, skipn_length; reflexivity).
  destruct en as [e|].
  - unfold bisect_left. rewrite Hr, take_while_map.
    set (p := fun x => (time x <? e)%Z). set (q := fun x => (time x =? e)%Z).
    pose proof (span_take_while p r) as Ht. pose proof (take_while_le p r) as Hle. rewrite <- Ht in *.
    set (n := length (fst (span p r))) in *.
    rewrite while_count by lia.
    assert (Hsk : skipn (ks + n) t = map time (snd (span p r))).
    { rewrite skipn_add, Hr, skipn_map. f_equal. symmetry. apply span_snd_skipn. }
    rewrite Hsk, take_while_map. fold q.
    pose proof (span_take_while q (snd (span p r))) as Htq. rewrite <- Htq.
    set (m := length (fst (span q (snd (span p r))))).
    pose proof (take_while_le q (snd (span p r))) as Hlq. rewrite <- Htq in Hlq. fold m in Hlq.
    assert (Hsl : length (snd (span p r)) = length r - n).
    { rewrite span_snd_skipn, skipn_length. reflexivity. }
    cbn [v_end_all fixed]. split; [|lia].
    replace (ks + n + m - ks) with (n + m) by lia.
    transitivity (firstn (n + m) (fst (span p r) ++ snd (span p r))); [|rewrite span_app; reflexivity].
    unfold n. rewrite firstn_app_2. f_equal. apply span_fst_firstn.
  - split; [|lia]. rewrite <- Hlen, firstn_all. reflexivity.
Qed.

Theorem decorated_list_slice_regen l st en ffill :
  slice fixed time l st en ffill = cut l (gen_decorated_list_slice (map time l) st en ffill)
  /\ fst (gen_decorated_list_slice (map time l) st en ffill) <= snd (gen_decorated_list_slice (map time l) st en ffill)
     <= length l.
Proof.
  unfold slice, cut.
  destruct (start_split_regen l st ffill) as [E Hk]. cbn zeta in E, Hk.
  set (ks := fst (gen_decorated_list_slice (map time l) st None ffill)) in *.
  assert (Eks : fst (gen_decorated_list_slice (map time l) st en ffill) = ks) by reflexivity.
  assert (Eke : snd (gen_decorated_list_slice (map time l) st en ffill) =
                match en with
                | Some e => while_nat (fun ke => (ke <? length (map time l))%nat && (nth_time (map time l) ke =? e)%Z)
                              (fun ke => ke + 1) (S (length (map time l))) (bisect_left (map time l) e ks)
                | None => length (map time l)
                end) by (destruct en; reflexivity).
  rewrite E. cbn [fst snd]. rewrite Eks, Eke.
  assert (Hk' : ks <= length (map time l)) by (rewrite map_length; exact Hk).
  destruct (end_take_regen (skipn ks l) (map time l) en ks Hk' (skipn_map ks l)) as [E2 Hb].
  cbn zeta in E2, Hb. rewrite E2. rewrite map_length in Hb. rewrite map_length. split; [reflexivity | exact Hb].
Qed.
End S.

(* non-vacuity: a list with two entries at the end time, forward fill onto the entry before the start *)
Example slice_regen_example :
  gen_decorated_list_slice [1; 3; 5; 5; 9]%Z (Some 4%Z) (Some 5%Z) true = (1, 4)
  /\ gen_decorated_list_slice [1; 3; 5; 5; 9]%Z (Some 4%Z) (Some 5%Z) false = (2, 4)
  /\ gen_decorated_list_slice [1; 3; 5; 5; 9]%Z None (Some 0%Z) false = (0, 0)
  /\ gen_decorated_list_slice [0; 0; 5]%Z None (Some 0%Z) false = (0, 2).
Proof. vm_compute. repeat split. Qed.

(* ---------------------------------------------------------------- consequence for the regenerated code itself *)
From DRF Require Import Proofs.ListingProofs.

(* On a list in ascending time order the indices computed by the code regenerated from list_drf.py select exactly
   the entries inside the window, preceded (forward fill) by the last entry before the start when no entry is
   stamped with the start time itself. *)
Theorem regenerated_slice_window_exact : forall (A : Type) (time : A -> Z) l st en ff,
  tsorted time l -> window_wf st en ->
  snd (cut l (gen_decorated_list_slice (map time l) st en ff)) = ffpre time ff st l ++ filter (wok time st en) l.
Proof.
  intros A time l st en ff Hs Hw.
  rewrite <- (proj1 (decorated_list_slice_regen time l st en ff)).
  apply slice_sorted; assumption.
Qed.
