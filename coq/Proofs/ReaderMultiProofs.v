(* Several top-level directories holding the same channel (C11's reading side, C08's queries):
   `read_multi`, `get_continuous_blocks_multi`, `get_bounds_multi` of Model/ReaderCore.v.
   Every directory adds its per-file pieces to ONE dict, which is then sorted by key and merged by
   `_combine_blocks`; so, unlike the single-directory case, the pieces do not arrive in ascending
   order and the dict really sorts.  Under `dirs_ok` (every directory satisfies FilesInv and no
   file period is recorded in two directories) the result is again the canonical `runs` of the
   union recording `dirs_abs`, blocks that are adjacent across directories ARE merged, and nothing
   depends on the order in which the directories are listed. *)
From Coq Require Import ZArith List Lia Bool Sorted Permutation.
From DRF Require Import Base.DivLemmas Base.Runs Model.Ld80 Model.ReaderCore Proofs.ReaderProofs.
Import ListNotations.
Local Open Scope Z_scope.

(* ------------------------------------------------------------------ generic *)

Lemma option_ext {A} (x y : option A) : (forall v, x = Some v <-> y = Some v) -> x = y.
Proof.
  destruct x as [a|], y as [b|]; intros H; auto.
  - symmetry. apply (proj1 (H a)). reflexivity.
  - pose proof (proj1 (H a) eq_refl). discriminate.
  - pose proof (proj2 (H b) eq_refl). discriminate.
Qed.

Lemma first_some_app {A B} (g : A -> option B) l1 l2 :
  first_some g (l1 ++ l2) = match first_some g l1 with Some x => Some x | None => first_some g l2 end.
Proof. induction l1 as [|a l IH]; simpl; auto. destruct (g a); auto. Qed.

Lemma first_some_concat {A B} (g : A -> option B) ll :
  first_some g (concat ll) = first_some (fun l => first_some g l) ll.
Proof. induction ll as [|l ll IH]; simpl; auto. rewrite first_some_app, IH. reflexivity. Qed.

Lemma first_some_ne_none {A B} (g : A -> option B) l :
  first_some g l <> None <-> exists a, In a l /\ g a <> None.
Proof.
  split.
  - destruct (first_some g l) eqn:E; [|congruence]. intros _.
    apply first_some_in in E. destruct E as (a & Ha & Hg). exists a. split; auto. congruence.
  - intros (a & Ha & Hg) E. apply Hg. apply (proj1 (first_some_none g l) E a Ha).
Qed.

Lemma first_some_restrict {A V W} (f : V -> W) (g : A -> Z -> option V) l s e k :
  first_some (fun a => option_map f (restrict (g a) s e k)) l
  = restrict (fun k => option_map f (first_some (fun a => g a k) l)) s e k.
Proof.
  unfold restrict. destruct ((s <=? k) && (k <=? e)).
  - induction l as [|a l IH]; simpl; auto. destruct (g a k); simpl; auto.
  - induction l as [|a l IH]; simpl; auto.
Qed.

Lemma NoDup_app_disj {A} (a b : list A) :
  NoDup (a ++ b) -> NoDup b /\ forall x, In x a -> In x b -> False.
Proof.
  induction a as [|x a IH]; simpl; intros H.
  - split; auto.
  - inversion H as [|? ? Hn Hd]; subst. destruct (IH Hd) as [Hb Hdis]. split; auto.
    intros y [<-|Hy] Hyb.
    + apply Hn. apply in_or_app. auto.
    + apply (Hdis y Hy Hyb).
Qed.

Lemma NoDup_map_inj {A B} (g : A -> B) l x y :
  NoDup (map g l) -> In x l -> In y l -> g x = g y -> x = y.
Proof.
  induction l as [|a l IH]; simpl; [tauto|]. intros H Hx Hy E.
  inversion H as [|? ? Hn Hd]; subst.
  destruct Hx as [<-|Hx]; destruct Hy as [<-|Hy]; auto.
  - exfalso. apply Hn. rewrite E. apply in_map. exact Hy.
  - exfalso. apply Hn. rewrite <- E. apply in_map. exact Hx.
Qed.

Lemma Permutation_concat {A} (l l' : list (list A)) :
  Permutation l l' -> Permutation (concat l) (concat l').
Proof.
  induction 1; simpl.
  - constructor.
  - apply Permutation_app_head. assumption.
  - rewrite !app_assoc. apply Permutation_app_tail. apply Permutation_app_comm.
  - eapply Permutation_trans; eassumption.
Qed.

(* dict insertion commutes with any map on the values *)
Lemma dict_set_map {P Q} (g : P -> Q) k v (d : list (Z * P)) :
  dict_set k (g v) (map (fun p => (fst p, g (snd p))) d)
  = map (fun p => (fst p, g (snd p))) (dict_set k v d).
Proof.
  induction d as [|[k' v'] d IH]; simpl; auto.
  destruct (k <? k'); [reflexivity|]. destruct (k =? k'); [reflexivity|].
  simpl. f_equal. exact IH.
Qed.

Lemma dict_of_map_gen {P Q} (g : P -> Q) (l : list (Z * P)) :
  dict_of (map (fun p => (fst p, g (snd p))) l) = map (fun p => (fst p, g (snd p))) (dict_of l).
Proof.
  unfold dict_of. change (@nil (Z * Q)) with (map (fun p : Z * P => (fst p, g (snd p))) []).
  generalize (@nil (Z * P)). induction l as [|p l IH]; intros acc; simpl; auto.
  rewrite dict_set_map. apply IH.
Qed.

(* ------------------------------------------------------------------ unordered, pairwise separated blocks *)

Section Blocks.
Context {W : Type}.
Implicit Types (b x y : @block W) (l d : list (@block W)).

Definition sep x y : Prop := bbefore x y \/ bbefore y x.

Fixpoint PS l : Prop :=
  match l with
  | [] => True
  | b :: r => (forall y, In y r -> sep b y) /\ PS r
  end.

Definition SD l : Prop := Forall (fun b => snd b <> []) l /\ StronglySorted bbefore l.

Lemma block_at_some b k v : block_at b k = Some v <->
  fst b <= k < bend b /\ nth_error (snd b) (Z.to_nat (k - fst b)) = Some v.
Proof.
  unfold block_at. destruct (Z.leb_spec (fst b) k); destruct (Z.ltb_spec k (bend b)); simpl;
    split; try discriminate; try tauto; try (intros [? _]; lia).
Qed.

Lemma PS_den l k v : PS l -> (den l k = Some v <-> exists b, In b l /\ block_at b k = Some v).
Proof.
  intros Hps. split.
  - intros H. apply den_some_in in H. destruct H as (b & Hb & Hk & Hn).
    exists b. split; auto. apply block_at_some. auto.
  - intros (b & Hb & Hat). apply block_at_some in Hat. destruct Hat as [Hk Hn].
    induction l as [|b0 r IH]; [inversion Hb|]. destruct Hps as [Hsep Hps].
    destruct Hb as [->|Hb].
    + rewrite den_head by exact Hk. exact Hn.
    + rewrite den_skip; [apply IH; auto|].
      intros Hk0. destruct (Hsep b Hb) as [S|S]; unfold bbefore in S; lia.
Qed.

Lemma PS_den_perm l l' k : PS l -> PS l' -> (forall b, In b l <-> In b l') -> den l k = den l' k.
Proof.
  intros H H' Hin. apply option_ext. intros v. rewrite (PS_den l k v H), (PS_den l' k v H').
  split; intros (b & Hb & Hat); exists b; split; auto; apply Hin; auto.
Qed.

Lemma SS_PS l : StronglySorted bbefore l -> PS l.
Proof.
  induction 1 as [|b l Hs IH Hall]; simpl; auto. split; auto.
  intros y Hy. left. rewrite Forall_forall in Hall. auto.
Qed.

Lemma PS_app l l' : PS l -> PS l' -> (forall x y, In x l -> In y l' -> sep x y) -> PS (l ++ l').
Proof.
  induction l as [|b l IH]; simpl; auto. intros [Hb Hl] Hl' Hx. split.
  - intros y Hy. apply in_app_or in Hy. destruct Hy; auto.
  - apply IH; auto.
Qed.

Lemma SD_head_le x0 r y : SD (x0 :: r) -> In y (x0 :: r) -> fst x0 <= fst y.
Proof.
  intros [F S] [<-|Hy]; [lia|]. inversion S as [|? ? _ Hall]; subst. inversion F as [|? ? Hne _]; subst.
  rewrite Forall_forall in Hall. specialize (Hall y Hy). unfold bbefore, bend in Hall.
  pose proof (blen_pos x0 Hne). lia.
Qed.

(* inserting a block that is separated from everything already in the (sorted) dict *)
Lemma dict_set_block b d : SD d -> snd b <> [] -> (forall x, In x d -> sep x b) ->
  SD (dict_set (fst b) (snd b) d) /\
  forall x, In x (dict_set (fst b) (snd b) d) <-> x = b \/ In x d.
Proof.
  destruct b as [kb vb]. simpl fst. simpl snd. intros Hd Hne.
  pose proof (blen_pos (kb, vb) Hne) as Hlen.
  induction d as [|[k' v'] r IH]; intros Hsep; simpl.
  - split.
    + split; repeat constructor. exact Hne.
    + intros x. split; [intros [<-|[]]; auto | intros [->|[]]; auto].
  - set (x0 := (k', v') : @block W) in *.
    pose proof Hd as [F S]. inversion F as [|? ? Hne0 F']; subst. inversion S as [|? ? S' Hall]; subst.
    pose proof (blen_pos x0 Hne0) as Hlen0.
    pose proof (Hsep x0 (or_introl eq_refl)) as Hs0. unfold sep, bbefore, bend in Hs0. simpl in Hs0.
    destruct (Z.ltb_spec kb k').
    + split.
      * split; constructor; auto. apply Forall_forall. intros y Hy.
        pose proof (SD_head_le x0 r y Hd Hy) as Hle. simpl in Hle.
        assert (Hney : snd y <> []) by (rewrite Forall_forall in F; apply F; exact Hy).
        pose proof (blen_pos y Hney).
        destruct (Hsep y Hy) as [B|B]; unfold bbefore, bend in *; simpl in *; lia.
      * intros x. simpl. split; [intros [<-|H']; auto | intros [->|H']; auto].
    + destruct (Z.eqb_spec kb k').
      * exfalso. unfold bend in *. simpl in *. lia.
      * destruct (IH (conj F' S')) as [SDr Inr]. { intros x Hx. apply Hsep. right. exact Hx. }
        split.
        -- split; constructor.
           ++ exact Hne0.
           ++ apply SDr.
           ++ apply SDr.
           ++ apply Forall_forall. intros y Hy. apply Inr in Hy. destruct Hy as [->|Hy].
              ** unfold bbefore, bend in *. simpl in *. lia.
              ** rewrite Forall_forall in Hall. auto.
        -- intros x. simpl. rewrite Inr. tauto.
Qed.

Lemma dict_of_blocks l : Forall (fun b => snd b <> []) l -> PS l ->
  SD (dict_of l) /\ forall x, In x (dict_of l) <-> In x l.
Proof.
  intros Hne Hps. unfold dict_of.
  assert (G : forall l acc, SD acc -> Forall (fun b => snd b <> []) l -> PS l ->
              (forall x y, In x acc -> In y l -> sep x y) ->
              SD (fold_left (fun d p => dict_set (fst p) (snd p) d) l acc) /\
              forall x, In x (fold_left (fun d p => dict_set (fst p) (snd p) d) l acc) <-> In x acc \/ In x l).
  { clear. induction l as [|b l IH]; intros acc Hacc Hne Hps Hx; simpl.
    - split; auto. intros x. tauto.
    - inversion Hne as [|? ? Hb Hl]; subst. destruct Hps as [Hsb Hps].
      destruct (dict_set_block b acc Hacc Hb) as [SDa Ina].
      { intros x Hxa. apply Hx; auto. left. reflexivity. }
      destruct (IH _ SDa Hl Hps) as [SDf Inf].
      { intros x y Hxa Hy. apply Ina in Hxa. destruct Hxa as [->|Hxa]; auto. apply Hx; auto. right. exact Hy. }
      split; auto. intros x. rewrite Inf, Ina. split; [intros [[->|H]|H] | intros [H|[->|H]]]; auto. }
  destruct (G l [] (conj (Forall_nil _) (SSorted_nil _)) Hne Hps) as [A B].
  { intros x y []. }
  split; auto. intros x. rewrite B. simpl. tauto.
Qed.

Lemma dict_of_blocks_den l k : Forall (fun b => snd b <> []) l -> PS l ->
  sorted_disj (dict_of l) /\ den (dict_of l) k = den l k.
Proof.
  intros Hne Hps. destruct (dict_of_blocks l Hne Hps) as [[F S] Hin]. split.
  - apply sorted_disj_SS. split; auto.
  - apply PS_den_perm; auto. apply SS_PS. exact S.
Qed.
End Blocks.

(* ------------------------------------------------------------------ several directories *)

Section Multi.
Context {V : Type}.
Variable c : cfg.
Notation rfile := (rfile V).
Implicit Types (f : rfile) (fs : list rfile) (dirs : list (list rfile)).

Lemma dirs_ok_files dirs : dirs_ok c dirs ->
  forall f, In f (concat dirs) -> file_ok c f.
Proof.
  intros (_ & Hall & _) f Hf. apply in_concat in Hf. destruct Hf as (fs & Hfs & Hf).
  rewrite Forall_forall in Hall. destruct (Hall fs Hfs) as (_ & Hok & _).
  rewrite Forall_forall in Hok. auto.
Qed.

(* two files with different times have ordered, disjoint windows *)
Lemma windows_apart f f' : cfg_ok c -> file_ok c f -> file_ok c f' -> file_ms f <> file_ms f' ->
  slot_lo c (file_ms f + fcad c) <= slot_lo c (file_ms f') \/
  slot_lo c (file_ms f' + fcad c) <= slot_lo c (file_ms f).
Proof.
  intros (Hn & Hd & Hfc & Hsc & Hdiv) (_ & _ & _ & _ & Hm & _) (_ & _ & _ & _ & Hm' & _) Hne.
  destruct (Z.lt_trichotomy (file_ms f) (file_ms f')) as [L|[L|L]]; [left|contradiction|right].
  - pose proof (mult_step _ _ _ Hfc Hm Hm' L). unfold slot_lo. apply cdiv_le_mono; nia.
  - pose proof (mult_step _ _ _ Hfc Hm' Hm L). unfold slot_lo. apply cdiv_le_mono; nia.
Qed.

Lemma same_window_same_ms f f' k : cfg_ok c -> file_ok c f -> file_ok c f' ->
  file_abs f k <> None -> file_abs f' k <> None -> file_ms f = file_ms f'.
Proof.
  intros Hc Hok Hok' Hk Hk'.
  pose proof (file_abs_window c f k Hok Hk). pose proof (file_abs_window c f' k Hok' Hk').
  destruct (Z.eq_dec (file_ms f) (file_ms f')) as [E|E]; auto.
  destruct (windows_apart f f' Hc Hok Hok' E); lia.
Qed.

(* the union recording: what any one of the files says *)
Lemma dirs_abs_char dirs k v : dirs_ok c dirs ->
  (dirs_abs dirs k = Some v <-> exists f, In f (concat dirs) /\ file_abs f k = Some v).
Proof.
  intros Hok. pose proof Hok as (Hc & Hall & Hnd).
  unfold dirs_abs. unfold files_abs. rewrite <- first_some_concat. split.
  - apply first_some_in.
  - intros (f & Hf & Hv). rewrite (first_some_owner _ (concat dirs) f); auto.
    intros f' Hf' Hne. apply (NoDup_map_inj file_ms (concat dirs)); auto.
    apply (same_window_same_ms f' f k); auto; try (apply (dirs_ok_files dirs Hok); auto). congruence.
Qed.

Lemma dirs_ok_perm dirs dirs' : Permutation dirs dirs' -> dirs_ok c dirs -> dirs_ok c dirs'.
Proof.
  intros Hp (Hc & Hall & Hnd). split; auto. split.
  - apply Forall_forall. intros fs Hfs. rewrite Forall_forall in Hall. apply Hall.
    apply (Permutation_in _ (Permutation_sym Hp) Hfs).
  - apply (Permutation_NoDup (l := map file_ms (concat dirs))); auto.
    apply Permutation_map. apply Permutation_concat. exact Hp.
Qed.

Lemma dirs_abs_perm dirs dirs' k : Permutation dirs dirs' -> dirs_ok c dirs ->
  dirs_abs dirs k = dirs_abs dirs' k.
Proof.
  intros Hp Hok. pose proof (dirs_ok_perm dirs dirs' Hp Hok) as Hok'.
  apply option_ext. intros v. rewrite (dirs_abs_char dirs k v Hok), (dirs_abs_char dirs' k v Hok').
  pose proof (Permutation_concat _ _ Hp) as Hpc.
  split; intros (f & Hf & Hv); exists f; split; auto.
  - apply (Permutation_in _ Hpc Hf).
  - apply (Permutation_in _ (Permutation_sym Hpc) Hf).
Qed.

Section Sel.
Context {W : Type} (sel : V -> W).

Definition all_pieces dirs s e : list (@block W) :=
  flat_map (fun fs => pieces_gen (mk_data sel) ExactRational c fs s e) dirs.

(* every piece lies in the window of a file of its directory *)
Lemma piece_window fs s e x : FilesInv c fs ->
  In x (pieces_gen (mk_data sel) ExactRational c fs s e) ->
  snd x <> [] /\ exists f, In f fs /\ file_ok c f /\
    slot_lo c (file_ms f) <= fst x /\ bend x <= slot_lo c (file_ms f + fcad c).
Proof.
  intros Hinv Hx. pose proof Hinv as (_ & Hall & _). rewrite Forall_forall in Hall.
  unfold pieces_gen in Hx. apply in_flat_map in Hx. destruct Hx as (f & Hf & Hx).
  apply found_files_in in Hf. destruct Hf as [Hf _]. pose proof (Hall f Hf) as Hok.
  destruct (file_blocks_spec c sel f s e Hok) as (A & B & _).
  change (In x (file_blocks sel f s e)) in Hx. split.
  - apply (sorted_gap_nonempty _ _ _ A Hx).
  - exists f. destruct (B x Hx). auto.
Qed.

Lemma all_pieces_spec dirs s e : dirs_ok c dirs ->
  Forall (fun b => snd b <> []) (all_pieces dirs s e) /\ PS (all_pieces dirs s e).
Proof.
  intros (Hc & Hall & Hnd). unfold all_pieces.
  induction dirs as [|fs dirs IH]; simpl; [split; [constructor | exact I]|].
  inversion Hall as [|? ? Hinv Hall']; subst.
  simpl in Hnd. rewrite map_app in Hnd. destruct (NoDup_app_disj _ _ Hnd) as [Hnd' Hdis].
  destruct (IH Hall' Hnd') as [F P]. destruct (pieces_spec c sel fs s e Hinv) as (A & _).
  split.
  - apply Forall_app. split; auto. apply sorted_disj_SS in A. apply A.
  - apply PS_app; auto.
    + apply SS_PS. apply sorted_disj_SS in A. apply A.
    + intros x y Hx Hy. apply in_flat_map in Hy. destruct Hy as (fs' & Hfs' & Hy).
      rewrite Forall_forall in Hall'.
      destruct (piece_window fs s e x Hinv Hx) as (_ & f & Hf & Hok & X1 & X2).
      destruct (piece_window fs' s e y (Hall' fs' Hfs') Hy) as (_ & f' & Hf' & Hok' & Y1 & Y2).
      assert (Hne : file_ms f <> file_ms f').
      { intros E. apply (Hdis (file_ms f)).
        - apply in_map. exact Hf.
        - rewrite E. apply in_map. apply in_concat. exists fs'. auto. }
      unfold sep, bbefore. destruct (windows_apart f f' Hc Hok Hok' Hne); [left | right]; lia.
Qed.

(* (1) reading several directories = the runs of the union recording *)
Theorem reader_multi_refines_sel dirs s e : dirs_ok c dirs ->
  read_multi sel ExactRational c dirs s e = runs (fun k => option_map sel (dirs_abs dirs k)) s e.
Proof.
  intros Hok. pose proof Hok as (Hc & Hall & Hnd).
  destruct (all_pieces_spec dirs s e Hok) as [F P].
  unfold read_multi. fold (all_pieces dirs s e).
  apply runs_unique.
  - apply combine_canon. apply (dict_of_blocks_den _ 0 F P).
  - intros k. destruct (dict_of_blocks_den _ k F P) as [S D].
    rewrite combine_den by exact S. rewrite D. unfold all_pieces.
    etransitivity;
      [apply (den_flat_map (fun fs => pieces_gen (mk_data sel) ExactRational c fs s e) dirs k)|].
    rewrite (first_some_ext _ (fun fs => option_map sel (restrict (files_abs fs) s e k))).
    + unfold dirs_abs. apply first_some_restrict.
    + intros fs Hfs. rewrite Forall_forall in Hall.
      destruct (pieces_spec c sel fs s e (Hall fs Hfs)) as (_ & B & _). apply B.
Qed.

(* (3) ... whatever the order of the directories *)
Theorem reader_multi_order_sel dirs dirs' s e : Permutation dirs dirs' -> dirs_ok c dirs ->
  read_multi sel ExactRational c dirs s e = read_multi sel ExactRational c dirs' s e.
Proof.
  intros Hp Hok. rewrite !reader_multi_refines_sel; auto; [|apply (dirs_ok_perm dirs dirs'); auto].
  apply runs_ext. intros k _. rewrite (dirs_abs_perm dirs dirs' k Hp Hok). reflexivity.
Qed.
End Sel.

Theorem reader_multi_refines dirs s e : dirs_ok c dirs ->
  read_multi (fun v => v) ExactRational c dirs s e = runs (dirs_abs dirs) s e.
Proof.
  intros Hok. rewrite reader_multi_refines_sel by exact Hok.
  apply runs_ext. intros k _. destruct (dirs_abs dirs k); reflexivity.
Qed.

Theorem reader_multi_column {W} (sel : V -> W) dirs s e : dirs_ok c dirs ->
  read_multi sel ExactRational c dirs s e
  = map (bmap sel) (read_multi (fun v => v) ExactRational c dirs s e).
Proof.
  intros Hok. rewrite reader_multi_refines_sel, reader_multi_refines by exact Hok. apply runs_column.
Qed.

Theorem reader_multi_order dirs dirs' s e : Permutation dirs dirs' -> dirs_ok c dirs ->
  read_multi (fun v => v) ExactRational c dirs s e = read_multi (fun v => v) ExactRational c dirs' s e.
Proof. apply reader_multi_order_sel. Qed.

(* one directory: the multi-directory read is the single-directory read *)
Theorem reader_multi_single fs s e :
  read_multi (fun v => v) ExactRational c [fs] s e = read ExactRational c fs s e.
Proof. unfold read_multi, read, read_sel. simpl. rewrite app_nil_r. reflexivity. Qed.

Theorem lengths_agree_multi dirs s e : dirs_ok c dirs ->
  get_continuous_blocks_multi ExactRational c dirs s e
  = lens (read_multi (fun v => v) ExactRational c dirs s e).
Proof.
  intros (Hc & Hall & _). unfold get_continuous_blocks_multi, read_multi.
  set (L := flat_map (fun fs => pieces_gen (mk_data (fun v : V => v)) ExactRational c fs s e) dirs).
  assert (HL : flat_map (fun fs => pieces_gen mk_len ExactRational c fs s e) dirs = lens L).
  { unfold L, lens. rewrite !flat_map_concat_map, concat_map, map_map. f_equal.
    apply map_ext_in. intros fs Hfs. rewrite Forall_forall in Hall.
    destruct (pieces_spec c (fun v : V => v) fs s e (Hall fs Hfs)) as (_ & _ & D). symmetry. exact D. }
  rewrite HL. rewrite <- combine_len_lens. f_equal.
  exact (dict_of_map_gen (fun d : list V => Z.of_nat (length d)) L).
Qed.

(* ------------------------------------------------------------------ bounds *)

Definition bstep (acc : option Z * option Z) (fs : list rfile) : option Z * option Z :=
  let '(tf, tl) := get_bounds fs in
  match acc with
  | (Some af, al) =>
      match tf with
      | Some tf' =>
          (Some (if tf' <? af then tf' else af),
           match tl, al with
           | Some tl', Some al' => Some (if al' <? tl' then tl' else al')
           | _, _ => al
           end)
      | None => acc
      end
  | (None, _) => match tf with Some _ => (tf, tl) | None => acc end
  end.

Lemma get_bounds_multi_fold dirs : get_bounds_multi dirs = fold_left bstep dirs (None, None).
Proof. reflexivity. Qed.

(* r = (min, max) of the set P, or (None, None) when P is empty *)
Definition bchar (r : option Z * option Z) (P : Z -> Prop) : Prop :=
  match r with
  | (Some a, Some b) => P a /\ P b /\ forall k, P k -> a <= k <= b
  | (None, None) => forall k, ~ P k
  | _ => False
  end.

Lemma bchar_iff r P Q : (forall k, P k <-> Q k) -> bchar r P -> bchar r Q.
Proof.
  intros H. destruct r as [[a|] [b|]]; simpl; auto.
  - intros (H1 & H2 & H3). split; [apply H; auto|]. split; [apply H; auto|]. intros k Hk. apply H3, H, Hk.
  - intros H1 k Hk. apply (H1 k), H, Hk.
Qed.

Lemma bchar_unique r r' P Q : (forall k, P k <-> Q k) -> bchar r P -> bchar r' Q -> r = r'.
Proof.
  intros H Hr Hr'. apply (bchar_iff r P Q H) in Hr.
  destruct r as [[a|] [b|]], r' as [[a'|] [b'|]]; simpl in *; try contradiction; auto.
  - destruct Hr as (A1 & A2 & A3), Hr' as (B1 & B2 & B3).
    pose proof (A3 _ B1). pose proof (A3 _ B2). pose proof (B3 _ A1). pose proof (B3 _ A2).
    f_equal; f_equal; lia.
  - destruct Hr as (A1 & _). exfalso. apply (Hr' a A1).
  - destruct Hr' as (B1 & _). exfalso. apply (Hr a' B1).
Qed.

Lemma bstep_char acc fs P : FilesInv c fs -> bchar acc P ->
  bchar (bstep acc fs) (fun k => P k \/ files_abs fs k <> None).
Proof.
  intros Hinv Hacc. destruct (bounds_are_extremes c fs Hinv) as [Hnil Hne].
  destruct fs as [|f0 r].
  - unfold bstep. rewrite (Hnil eq_refl).
    assert (E : forall k, P k <-> P k \/ files_abs (@nil rfile) k <> None).
    { intros k. split; auto. intros [H|H]; auto. exfalso. apply H. reflexivity. }
    destruct acc as [[af|] al]; apply (bchar_iff _ P _ E); exact Hacc.
  - destruct (Hne ltac:(discriminate)) as (a & b & G & Ga & Gb & Gk & _).
    unfold bstep. rewrite G. destruct acc as [[af|] [al|]]; simpl in Hacc; try contradiction.
    + destruct Hacc as (A1 & A2 & A3). simpl.
      pose proof (Gk a Ga). pose proof (A3 af A1).
      split; [|split].
      * destruct (Z.ltb_spec a af); auto.
      * destruct (Z.ltb_spec al b); auto.
      * intros k [Hk|Hk]; [specialize (A3 k Hk) | specialize (Gk k Hk)];
          destruct (Z.ltb_spec a af); destruct (Z.ltb_spec al b); lia.
    + simpl. split; auto. split; auto. intros k [Hk|Hk]; [exfalso; apply (Hacc k Hk) | auto].
Qed.

Lemma fold_bstep_char : forall rest acc P, Forall (FilesInv c) rest -> bchar acc P ->
  bchar (fold_left bstep rest acc)
        (fun k => P k \/ exists fs, In fs rest /\ files_abs fs k <> None).
Proof.
  induction rest as [|fs rest IH]; intros acc P Hall Hacc; simpl.
  - apply (bchar_iff _ P); auto. intros k. split; auto. intros [H|(fs & [] & _)]; auto.
  - inversion Hall as [|? ? Hinv Hall']; subst.
    pose proof (IH _ _ Hall' (bstep_char acc fs P Hinv Hacc)) as H.
    eapply bchar_iff; [|exact H]. intros k. simpl. split.
    + intros [[Hk|Hk]|(fs' & Hfs' & Hk)]; auto.
      * right. exists fs. auto.
      * right. exists fs'. auto.
    + intros [Hk|(fs' & [<-|Hfs'] & Hk)]; auto. right. exists fs'. auto.
Qed.

Lemma get_bounds_multi_char dirs : Forall (FilesInv c) dirs ->
  bchar (get_bounds_multi dirs) (fun k => exists fs, In fs dirs /\ files_abs fs k <> None).
Proof.
  intros Hall. rewrite get_bounds_multi_fold.
  pose proof (fold_bstep_char dirs (None, None) (fun _ => False) Hall (fun _ H => H)) as H.
  eapply bchar_iff; [|exact H]. intros k. simpl. tauto.
Qed.

(* (2) the merged bounds are the first and last index of the union recording *)
Theorem bounds_multi_are_extremes dirs : Forall (FilesInv c) dirs ->
  match get_bounds_multi dirs with
  | (Some a, Some b) => dirs_abs dirs a <> None /\ dirs_abs dirs b <> None /\
                        forall k, dirs_abs dirs k <> None -> a <= k <= b
  | (None, None) => forall k, dirs_abs dirs k = None
  | _ => False
  end.
Proof.
  intros Hall. pose proof (get_bounds_multi_char dirs Hall) as H.
  assert (E : forall k, (exists fs, In fs dirs /\ files_abs fs k <> None) <-> dirs_abs dirs k <> None).
  { intros k. unfold dirs_abs. symmetry. apply first_some_ne_none. }
  apply (bchar_iff _ _ _ E) in H.
  destruct (get_bounds_multi dirs) as [[a|] [b|]]; simpl in H; auto.
  intros k. specialize (H k). destruct (dirs_abs dirs k); auto. exfalso. apply H. discriminate.
Qed.

(* (3) ... whatever the order of the directories *)
Theorem bounds_multi_order dirs dirs' : Permutation dirs dirs' -> Forall (FilesInv c) dirs ->
  get_bounds_multi dirs = get_bounds_multi dirs'.
Proof.
  intros Hp Hall.
  assert (Hall' : Forall (FilesInv c) dirs').
  { apply Forall_forall. intros fs Hfs. rewrite Forall_forall in Hall. apply Hall.
    apply (Permutation_in _ (Permutation_sym Hp) Hfs). }
  eapply bchar_unique; [|apply get_bounds_multi_char; exact Hall | apply get_bounds_multi_char; exact Hall'].
  intros k. split; intros (fs & Hfs & Hk); exists fs; split; auto.
  - apply (Permutation_in _ Hp Hfs).
  - apply (Permutation_in _ (Permutation_sym Hp) Hfs).
Qed.

(* ------------------------------------------------------------------ the side condition is decidable *)

Lemma nodup_zb_sound l : nodup_zb l = true -> NoDup l.
Proof.
  induction l as [|x l IH]; simpl; [constructor|]. intros H. apply andb_true_iff in H. destruct H as [H1 H2].
  constructor; auto. intros Hin. apply negb_true_iff in H1.
  assert (existsb (Z.eqb x) l = true) by (apply existsb_exists; exists x; split; auto; apply Z.eqb_refl).
  congruence.
Qed.

Theorem dirs_ok_b_sound dirs : dirs_ok_b c dirs = true -> dirs_ok c dirs.
Proof.
  unfold dirs_ok_b, dirs_ok. intros H.
  apply andb_true_iff in H. destruct H as [H Hn]. apply andb_true_iff in H. destruct H as [Hc Hf].
  split; [|split].
  - unfold cfg_ok_b in Hc. repeat (apply andb_true_iff in Hc; destruct Hc as [Hc ?]).
    repeat match goal with
           | H : (_ <? _) = true |- _ => apply Z.ltb_lt in H
           | H : (_ =? _) = true |- _ => apply Z.eqb_eq in H
           end.
    unfold cfg_ok. auto.
  - apply Forall_forall. intros fs Hfs. rewrite forallb_forall in Hf.
    apply files_inv_b_sound. auto.
  - apply nodup_zb_sound. exact Hn.
Qed.
End Multi.

(* ------------------------------------------------------------------ non-vacuity *)

(* the two files of ReaderProofs.ex_files in two directories, the later one listed first *)
Definition ex_dirs : list (list (rfile (list Z))) :=
  [[nth 1 ex_files (mkFile 0 0 [] [])]; [nth 0 ex_files (mkFile 0 0 [] [])]].

Example ex_dirs_ok : dirs_ok ex_cfg ex_dirs.
Proof. apply dirs_ok_b_sound. vm_compute. reflexivity. Qed.

(* the block that spans both directories is merged; the bounds are the union's *)
Example ex_multi_read : lens (read_multi (fun r => r) ExactRational ex_cfg ex_dirs (ex_k - 7) (ex_k + 30))
                        = [(ex_k - 5, 20); (ex_k + 25, 6)].
Proof. vm_compute. reflexivity. Qed.

Example ex_multi_bounds : get_bounds_multi ex_dirs = (Some (ex_k - 5), Some (ex_k + 44)).
Proof. vm_compute. reflexivity. Qed.
