(* C06 / C11: what the attribute tables regenerated from the source (Gen/AttrTables.v) guarantee.
   Generic lemmas reduce each statement to a boolean condition on the tables alone; the conditions are
   then decided by computation on the regenerated tables, so every theorem is about the tables the
   current source contains and holds for every writer object (env). *)
From Coq Require Import ZArith List Bool String Lia.
From DRF Require Import Model.Attrs Gen.AttrTables.
Import ListNotations.
Local Open Scope Z_scope.

(* ---------- basic facts ---------- *)
Lemma cty_eqb_eq a b : cty_eqb a b = true -> a = b.
Proof. destruct a, b; simpl; congruence. Qed.

Lemma src_eqb_eq a b : src_eqb a b = true -> a = b.
Proof.
  destruct a, b; simpl; try discriminate; try reflexivity;
    intros H; apply String.eqb_eq in H; congruence.
Qed.

Definition find_w (n : string) (tab : list wentry) : option wentry :=
  find (fun w => String.eqb (w_name w) n) tab.

Lemma lookup_write_table e n tab :
  lookup n (write_table e tab) = option_map (fun w => eval e (w_ty w) (w_src w)) (find_w n tab).
Proof.
  induction tab as [|w tl IH]; [reflexivity|].
  cbn [write_table map lookup find_w find]. fold (write_table e tl). fold (find_w n tl).
  destruct (String.eqb (w_name w) n); [reflexivity|exact IH].
Qed.

Definition same_entry (a b : wentry) : bool := cty_eqb (w_ty a) (w_ty b) && src_eqb (w_src a) (w_src b).

Lemma same_entry_eval e a b : same_entry a b = true -> eval e (w_ty a) (w_src a) = eval e (w_ty b) (w_src b).
Proof.
  unfold same_entry. intros H. apply andb_true_iff in H as [Ht Hs].
  apply cty_eqb_eq in Ht. apply src_eqb_eq in Hs. congruence.
Qed.

(* ---------- a table repeats another ---------- *)
Definition tab_sub (a b : list wentry) : bool :=
  forallb (fun w => match find_w (w_name w) b with Some w' => same_entry w w' | None => false end) a.

Lemma find_w_some n tab w : find_w n tab = Some w -> In w tab /\ w_name w = n.
Proof.
  unfold find_w. intros H. apply find_some in H as [Hin He]. split; [exact Hin|].
  apply String.eqb_eq. exact He.
Qed.

Lemma tab_sub_sound a b : tab_sub a b = true ->
  forall e n v, lookup n (write_table e a) = Some v -> lookup n (write_table e b) = Some v.
Proof.
  intros Hs e n v. rewrite !lookup_write_table.
  destruct (find_w n a) as [w|] eqn:Ea; [|discriminate].
  destruct (find_w_some _ _ _ Ea) as [Hin Hn].
  unfold tab_sub in Hs. rewrite forallb_forall in Hs. specialize (Hs w Hin). rewrite Hn in Hs.
  destruct (find_w n b) as [w'|]; [|discriminate].
  cbn [option_map]. intros H. rewrite <- (same_entry_eval e w w' Hs). exact H.
Qed.

Theorem file_attrs_repeat_properties : forall e n v,
  lookup n (write_table e prop_table) = Some v -> lookup n (write_table e file_table) = Some v.
Proof. apply tab_sub_sound. vm_compute. reflexivity. Qed.

(* ---------- the properties show the channel parameters as documented ---------- *)
Definition spec_table : list wentry :=
  map (fun q => mkW q TULLong (SDtype q)) dtype_queries ++ map (fun f => mkW f (doc_ty f) (SField f)) param_fields.

Lemma spec_table_numeric e : write_table e spec_table = spec_numeric e.
Proof. reflexivity. Qed.

Theorem properties_show_parameters : forall e n v,
  lookup n (spec_numeric e) = Some v -> lookup n (write_table e prop_table) = Some v.
Proof. intros e. rewrite <- spec_table_numeric. apply tab_sub_sound. vm_compute. reflexivity. Qed.

Theorem file_shows_parameters : forall e n v,
  lookup n (spec_numeric e) = Some v -> lookup n (write_table e file_table) = Some v.
Proof. intros e n v H. apply file_attrs_repeat_properties, properties_show_parameters, H. Qed.

(* the constant strings: present in both, the same in both, and independent of the writer object *)
Definition is_lit (tab : list wentry) (n : string) : bool :=
  match find_w n tab with Some (mkW _ TStr (SLit _)) => true | _ => false end.

Lemma is_lit_const tab n : is_lit tab n = true ->
  exists s, forall e, lookup n (write_table e tab) = Some (VS s).
Proof.
  unfold is_lit. destruct (find_w n tab) as [[nm ty sr]|] eqn:E; [|discriminate].
  destruct ty; try discriminate. destruct sr; try discriminate. intros _.
  exists s. intros e. rewrite lookup_write_table, E. reflexivity.
Qed.

Theorem constants_present : forall n, In n const_names ->
  exists s, forall e, lookup n (write_table e prop_table) = Some (VS s) /\
                      lookup n (write_table e file_table) = Some (VS s).
Proof.
  intros n Hin.
  assert (Hl : forallb (is_lit prop_table) const_names = true) by (vm_compute; reflexivity).
  rewrite forallb_forall in Hl. destruct (is_lit_const _ _ (Hl n Hin)) as [s Hs].
  exists s. intros e. split; [apply Hs|]. apply file_attrs_repeat_properties, Hs.
Qed.

Theorem epoch_is_unix_epoch : forall e,
  lookup "epoch"%string (write_table e prop_table) = Some (VS "1970-01-01T00:00:00Z"%string).
Proof. intros e. rewrite lookup_write_table. vm_compute. reflexivity. Qed.

(* ---------- the per-session / per-file attributes ---------- *)
Theorem file_session_attributes : forall e,
  lookup "sequence_num"%string (write_table e file_table) = Some (VI TInt (fld e "present_seq"%string)) /\
  lookup "uuid_str"%string (write_table e file_table) = Some (VS (sfld e "uuid_str"%string)) /\
  lookup "init_utc_timestamp"%string (write_table e file_table)
    = Some (VI TULLong (fld e "init_utc_timestamp"%string)) /\
  lookup "computer_time"%string (write_table e file_table) = Some (VI TULLong (clock e)).
Proof. intros e. rewrite !lookup_write_table. repeat split. Qed.

(* attribute names are unique in every table (so "the attribute called n" is well defined) *)
Theorem attribute_names_unique :
  nodupb (names file_table) = true /\ nodupb (names prop_table) = true /\
  nodupb (map c_name compare_table) = true /\ nodupb (map fst regen_table) = true.
Proof. vm_compute. repeat split. Qed.

(* ---------- regeneration ---------- *)
Definition regen_row_ok (ftab ptab : list wentry) (r : string * string) : bool :=
  match find_w (fst r) ptab, find_w (snd r) ftab with
  | Some p, Some w => same_entry w p
  | _, _ => false
  end.

Definition regen_ok (regen : list (string * string)) (ftab ptab : list wentry) : bool :=
  forallb (regen_row_ok ftab ptab) regen &&
  forallb (fun p => existsb (fun r => String.eqb (fst r) (w_name p)) regen) ptab &&
  nodupb (map fst regen).

Lemma regenerate_some regen ftab ptab e :
  forallb (regen_row_ok ftab ptab) regen = true ->
  exists r, regenerate regen (write_table e ftab) = Some r /\
            map fst r = map fst regen /\
            forall d s, In (d, s) regen -> nodupb (map fst regen) = true ->
                        lookup d r = lookup d (write_table e ptab).
Proof.
  induction regen as [|[d s] tl IH]; intros Hok.
  - exists []. repeat split. intros d s [].
  - cbn [forallb] in Hok. apply andb_true_iff in Hok as [Hrow Htl].
    destruct (IH Htl) as (r & Hr & Hnames & Hlk).
    unfold regen_row_ok in Hrow. cbn [fst snd] in Hrow.
    destruct (find_w d ptab) as [p|] eqn:Ep; [|discriminate].
    destruct (find_w s ftab) as [w|] eqn:Ew; [|discriminate].
    cbn [regenerate]. rewrite lookup_write_table, Ew. cbn [option_map]. rewrite Hr.
    eexists. split; [reflexivity|]. split; [cbn [map fst]; f_equal; exact Hnames|].
    intros d' s' Hin Hnd. cbn [map fst nodupb] in Hnd. apply andb_true_iff in Hnd as [Hfresh Hnd].
    cbn [lookup]. destruct (String.eqb d d') eqn:Ed.
    + apply String.eqb_eq in Ed. subst d'.
      rewrite lookup_write_table, Ep. cbn [option_map]. f_equal. apply same_entry_eval, Hrow.
    + destruct Hin as [Heq|Hin]; [inversion Heq; subst; rewrite String.eqb_refl in Ed; discriminate|].
      apply (Hlk d' s' Hin Hnd).
Qed.

Lemma lookup_not_in {A} n (l : list (string * A)) : ~ In n (map fst l) -> lookup n l = None.
Proof.
  induction l as [|[k v] tl IH]; [reflexivity|]. cbn [map fst In lookup]. intros H.
  destruct (String.eqb k n) eqn:E; [apply String.eqb_eq in E; tauto|]. apply IH. tauto.
Qed.

Lemma regen_sound regen ftab ptab : regen_ok regen ftab ptab = true ->
  forall e, exists r, regenerate regen (write_table e ftab) = Some r /\
                      forall n, lookup n r = lookup n (write_table e ptab).
Proof.
  unfold regen_ok. intros H e. apply andb_true_iff in H as [H Hnd]. apply andb_true_iff in H as [Hrows Hcov].
  destruct (regenerate_some regen ftab ptab e Hrows) as (r & Hr & Hnames & Hlk).
  exists r. split; [exact Hr|]. intros n.
  destruct (in_dec string_dec n (map fst regen)) as [Hin|Hnin].
  - apply in_map_iff in Hin as [[d s] [Hd Hin]]. cbn [fst] in Hd. subst d. apply (Hlk n s Hin Hnd).
  - rewrite (lookup_not_in n r) by (rewrite Hnames; exact Hnin).
    rewrite lookup_write_table. destruct (find_w n ptab) as [p|] eqn:Ep; [|reflexivity].
    exfalso. destruct (find_w_some _ _ _ Ep) as [Hin Hn].
    rewrite forallb_forall in Hcov. specialize (Hcov p Hin). apply existsb_exists in Hcov as [[d s] [Hin' He]].
    cbn [fst] in He. apply String.eqb_eq in He. apply Hnin. apply in_map_iff. exists (d, s). split; [cbn; congruence|exact Hin'].
Qed.

(* regenerating drf_properties.h5 from the attributes of ANY data file of the channel gives exactly
   the properties the writer created: same attribute names, same values, same types *)
Theorem regenerated_properties_identical : forall e,
  exists r, regenerate regen_table (write_table e file_table) = Some r /\
            forall n, lookup n r = lookup n (write_table e prop_table).
Proof. apply regen_sound. vm_compute. reflexivity. Qed.

(* ---------- the restart comparison ---------- *)
Definition num_srcb (s : src) : bool := match s with SField _ | SDtype _ | SClock => true | _ => false end.

(* for each comparison: (what the properties file holds under that name, what it is compared with) *)
Definition cmp_pair (ptab : list wentry) (c : centry) : option (src * src) :=
  match find_w (c_name c) ptab with
  | Some p => if num_srcb (w_src p) && num_srcb (c_src c) then Some (w_src p, c_src c) else None
  | None => None
  end.

Definition cmp_wf (ctab : list centry) (final : Z) (ptab : list wentry) : bool :=
  (final =? 0) &&
  forallb (fun c => negb (c_miss c =? 0) && negb (c_rej c =? 0) &&
                    match c_op c with ONe => true | _ => false end &&
                    match cmp_pair ptab c with Some _ => true | None => false end) ctab.

Fixpoint cmp_pairs (ptab : list wentry) (ctab : list centry) : list (src * src) :=
  match ctab with
  | [] => []
  | c :: tl => match cmp_pair ptab c with Some p => p :: cmp_pairs ptab tl | None => cmp_pairs ptab tl end
  end.

Lemma num_src_some e s : num_srcb s = true -> exists z, num_src e s = Some z.
Proof. destruct s; simpl; try discriminate; eauto. Qed.

Lemma num_of_eval e t s : num_srcb s = true -> num_of (eval e t s) = num_src e s.
Proof. destruct s; simpl; try discriminate; reflexivity. Qed.

Lemma check_iff ctab final ptab e e' : cmp_wf ctab final ptab = true ->
  (check_existing ctab final e' (write_table e ptab) = 0 <->
   Forall (fun p => num_src e (fst p) = num_src e' (snd p)) (cmp_pairs ptab ctab)).
Proof.
  unfold cmp_wf. intros H. apply andb_true_iff in H as [Hf Hall]. apply Z.eqb_eq in Hf. subst final.
  induction ctab as [|c tl IH].
  - cbn. split; [constructor|reflexivity].
  - cbn [forallb] in Hall. apply andb_true_iff in Hall as [Hc Htl].
    apply andb_true_iff in Hc as [Hc Hp]. apply andb_true_iff in Hc as [Hc Hop].
    apply andb_true_iff in Hc as [Hm Hr]. apply negb_true_iff, Z.eqb_neq in Hm, Hr.
    destruct (c_op c) eqn:Eop; try discriminate.
    cbn [check_existing cmp_pairs]. unfold cmp_pair in *.
    rewrite lookup_write_table.
    destruct (find_w (c_name c) ptab) as [p|]; [|discriminate]. cbn [option_map].
    destruct (num_srcb (w_src p) && num_srcb (c_src c)) eqn:En; [|discriminate].
    apply andb_true_iff in En as [En1 En2].
    rewrite (num_of_eval e _ _ En1).
    destruct (num_src_some e _ En1) as [a Ha]. destruct (num_src_some e' _ En2) as [b Hb].
    rewrite Ha, Hb, Eop. cbn [cmp_holds].
    destruct (Z.eqb_spec a b) as [Hab|Hab]; cbn [negb].
    + rewrite (IH Htl). split.
      * intros HF. constructor; [cbn [fst snd]; congruence|exact HF].
      * intros HF. inversion HF; assumption.
    + split; [intros; contradiction|].
      intros HF. inversion HF as [|x l Hx Hl]. cbn [fst snd] in Hx. congruence.
Qed.

(* the Spec side: equal channel parameters, source by source *)
Definition spec_srcs : list src := map SDtype dtype_queries ++ map SField param_fields.

Lemma chan_params_srcs e : map (num_src e) spec_srcs = map Some (chan_params e).
Proof. reflexivity. Qed.

Lemma map_some_inj {A} (l l' : list A) : map Some l = map Some l' -> l = l'.
Proof.
  revert l'; induction l as [|x tl IH]; intros [|y tl']; cbn; try discriminate; [reflexivity|].
  intros H. inversion H. f_equal. apply IH. assumption.
Qed.

Lemma chan_params_eq_iff e e' :
  chan_params e = chan_params e' <-> Forall (fun s => num_src e s = num_src e' s) spec_srcs.
Proof.
  split.
  - intros H. assert (Hm : map (num_src e) spec_srcs = map (num_src e') spec_srcs)
      by (rewrite !chan_params_srcs; congruence).
    clear H. induction spec_srcs as [|s tl IH]; [constructor|].
    cbn [map] in Hm. inversion Hm. constructor; auto.
  - intros HF. apply map_some_inj. rewrite <- !chan_params_srcs.
    induction spec_srcs as [|s tl IH]; [reflexivity|]. inversion HF; subst. cbn [map]. f_equal; auto.
Qed.

Definition pair_eqb (p q : src * src) : bool := src_eqb (fst p) (fst q) && src_eqb (snd p) (snd q).

(* the comparisons are exactly "each channel parameter with itself", in any order *)
Definition pairs_are_spec (pairs : list (src * src)) : bool :=
  forallb (fun s => existsb (pair_eqb (s, s)) pairs) spec_srcs &&
  forallb (fun p => existsb (fun s => pair_eqb (s, s) p) spec_srcs) pairs.

Lemma pairs_spec_iff pairs e e' : pairs_are_spec pairs = true ->
  (Forall (fun p => num_src e (fst p) = num_src e' (snd p)) pairs <->
   Forall (fun s => num_src e s = num_src e' s) spec_srcs).
Proof.
  unfold pairs_are_spec. intros H. apply andb_true_iff in H as [H1 H2].
  rewrite forallb_forall in H1, H2. rewrite !Forall_forall. split.
  - intros HF s Hs. apply H1 in Hs. apply existsb_exists in Hs as [[a b] [Hin He]].
    unfold pair_eqb in He. cbn [fst snd] in He. apply andb_true_iff in He as [Ea Eb].
    apply src_eqb_eq in Ea, Eb. subst a b. apply (HF (s, s) Hin).
  - intros HF [a b] Hin. apply H2 in Hin. apply existsb_exists in Hin as [s [Hs He]].
    unfold pair_eqb in He. cbn [fst snd] in He. apply andb_true_iff in He as [Ea Eb].
    apply src_eqb_eq in Ea, Eb. subst a b. cbn [fst snd]. apply HF, Hs.
Qed.

(* C11: a writer object e' opened on a channel whose drf_properties.h5 was created by a writer object
   e passes the comparison exactly when every stored channel parameter is equal; any difference makes
   digital_rf_handle_metadata return non-zero (and digital_rf_create_write_hdf5 refuse the session) *)
Theorem restart_accepted_iff_same_parameters : forall e e',
  check_existing compare_table compare_final e' (write_table e prop_table) = 0 <->
  chan_params e = chan_params e'.
Proof.
  intros e e'.
  rewrite (check_iff compare_table compare_final prop_table e e') by (vm_compute; reflexivity).
  rewrite (pairs_spec_iff _ e e') by (vm_compute; reflexivity).
  symmetry. apply chan_params_eq_iff.
Qed.

Corollary restart_refused_on_any_difference : forall e e',
  chan_params e <> chan_params e' ->
  check_existing compare_table compare_final e' (write_table e prop_table) <> 0.
Proof. intros e e' H Hc. apply H. apply restart_accepted_iff_same_parameters. exact Hc. Qed.

(* the same comparison against a regenerated properties file *)
Theorem restart_on_regenerated_properties : forall e e' r,
  regenerate regen_table (write_table e file_table) = Some r ->
  (forall n, lookup n r = lookup n (write_table e prop_table)) ->
  forall tab, check_existing tab compare_final e' r = check_existing tab compare_final e' (write_table e prop_table).
Proof.
  intros e e' r _ Hl tab. induction tab as [|c tl IH]; [reflexivity|].
  cbn [check_existing]. rewrite Hl, IH. reflexivity.
Qed.

(* ---------- the hypotheses are satisfiable, the statements not vacuous ---------- *)
Definition ex_env (nsub cont : Z) : env :=
  mkEnv (fun f => if String.eqb f "num_subchannels" then nsub
                  else if String.eqb f "is_continuous" then cont
                  else if String.eqb f "sample_rate_numerator" then 200
                  else if String.eqb f "sample_rate_denominator" then 3 else 1)
        (fun _ => "uuid"%string) (fun q => if String.eqb q "H5Tget_size" then 2 else 0) 1700000000.

Example restart_same_accepted :
  check_existing compare_table compare_final (ex_env 2 1) (write_table (ex_env 2 1) prop_table) = 0.
Proof. vm_compute. reflexivity. Qed.

Example restart_other_subchannels_refused :
  check_existing compare_table compare_final (ex_env 3 1) (write_table (ex_env 2 1) prop_table) = -1.
Proof. vm_compute. reflexivity. Qed.

Example restart_other_mode_refused :
  check_existing compare_table compare_final (ex_env 2 0) (write_table (ex_env 2 1) prop_table) = -1.
Proof. vm_compute. reflexivity. Qed.

Example regenerated_example :
  regenerate regen_table (write_table (ex_env 2 1) file_table) = Some (write_table (ex_env 2 1) prop_table).
Proof. vm_compute. reflexivity. Qed.
