(* C14 -- proofs about the listing model (variant `fixed` = the code after the repairs), and
   refutations for the variant `legacy` (the code before). *)
From Coq Require Import ZArith List Bool Lia Permutation Sorted.
From DRF Require Import Base.Regex Base.WordLit Gen.Grammar Model.PathSpec Model.Listing.
Import ListNotations.
Local Open Scope Z_scope.

(* ------------------------------------------------------------------ the orders *)
Lemma word_leb_refl a : word_leb a a = true.
Proof. induction a as [|x a IH]; cbn; [reflexivity|]. rewrite Z.ltb_irrefl. exact IH. Qed.

Lemma word_leb_total a : forall b, word_leb a b = true \/ word_leb b a = true.
Proof.
  induction a as [|x a IH]; destruct b as [|y b]; cbn; auto.
  destruct (x <? y) eqn:E1, (y <? x) eqn:E2; auto.
Qed.

Lemma word_leb_antisym a : forall b, word_leb a b = true -> word_leb b a = true -> a = b.
Proof.
  induction a as [|x a IH]; destruct b as [|y b]; cbn; intros H1 H2; try discriminate; auto.
  destruct (x <? y) eqn:E1, (y <? x) eqn:E2; try discriminate.
  - apply Z.ltb_lt in E1, E2. lia.
  - apply Z.ltb_ge in E1, E2. assert (x = y) by lia. subst. f_equal. auto.
Qed.

Lemma word_leb_trans a : forall b c, word_leb a b = true -> word_leb b c = true -> word_leb a c = true.
Proof.
  induction a as [|x a IH]; destruct b as [|y b], c as [|z c]; cbn; intros H1 H2; try discriminate; auto.
  destruct (x <? y) eqn:E1, (y <? x) eqn:E2, (y <? z) eqn:E3, (z <? y) eqn:E4; try discriminate;
    rewrite ?Z.ltb_lt, ?Z.ltb_ge in *;
    destruct (x <? z) eqn:E5; auto; destruct (z <? x) eqn:E6; rewrite ?Z.ltb_lt, ?Z.ltb_ge in *; try lia.
  eapply IH; eauto.
Qed.

Lemma dec_leb_total a b : dec_leb a b = true \/ dec_leb b a = true.
Proof.
  unfold dec_leb. destruct (fst a <? fst b) eqn:E1, (fst b <? fst a) eqn:E2; auto. apply word_leb_total.
Qed.

Lemma dec_leb_refl a : dec_leb a a = true.
Proof. unfold dec_leb. rewrite Z.ltb_irrefl. apply word_leb_refl. Qed.

Lemma dec_leb_antisym a b : dec_leb a b = true -> dec_leb b a = true -> a = b.
Proof.
  unfold dec_leb. destruct a as [ta pa], b as [tb pb]. cbn.
  destruct (ta <? tb) eqn:E1, (tb <? ta) eqn:E2; intros H1 H2; try discriminate;
    rewrite ?Z.ltb_lt, ?Z.ltb_ge in *; try lia.
  assert (ta = tb) by lia. subst. f_equal. apply word_leb_antisym; assumption.
Qed.

Lemma dec_leb_trans a b c : dec_leb a b = true -> dec_leb b c = true -> dec_leb a c = true.
Proof.
  unfold dec_leb. destruct a as [ta pa], b as [tb pb], c as [tc pc]. cbn.
  destruct (ta <? tb) eqn:E1, (tb <? ta) eqn:E2, (tb <? tc) eqn:E3, (tc <? tb) eqn:E4; intros H1 H2;
    try discriminate; rewrite ?Z.ltb_lt, ?Z.ltb_ge in *;
    destruct (ta <? tc) eqn:E5; auto; destruct (tc <? ta) eqn:E6; rewrite ?Z.ltb_lt, ?Z.ltb_ge in *; try lia.
  eapply word_leb_trans; eauto.
Qed.

Lemma dec_leb_time a b : dec_leb a b = true -> fst a <= fst b.
Proof.
  unfold dec_leb. destruct (fst a <? fst b) eqn:E1; [apply Z.ltb_lt in E1; lia|].
  destruct (fst b <? fst a) eqn:E2; [discriminate|]. apply Z.ltb_ge in E1, E2. lia.
Qed.

Lemma time_lt_dec_leb a b : fst a < fst b -> dec_leb a b = true.
Proof. intro H. unfold dec_leb. apply Z.ltb_lt in H. rewrite H. reflexivity. Qed.

(* ------------------------------------------------------------------ insertion sort, generically *)
Section SortFacts.
  Context {A : Type} (leb : A -> A -> bool).
  Hypothesis leb_total : forall a b, leb a b = true \/ leb b a = true.
  Hypothesis leb_trans : forall a b c, leb a b = true -> leb b c = true -> leb a c = true.

  Definition le (a b : A) : Prop := leb a b = true.

  Lemma insert_perm x l : Permutation (x :: l) (insert leb x l).
  Proof.
    induction l as [|y l IH]; cbn; [reflexivity|].
    destruct (leb x y); [reflexivity|]. rewrite perm_swap. constructor. exact IH.
  Qed.

  Lemma isort_perm l : Permutation l (isort leb l).
  Proof.
    induction l as [|x l IH]; cbn; [reflexivity|].
    rewrite <- insert_perm. constructor. exact IH.
  Qed.

  Lemma isort_in x l : In x (isort leb l) <-> In x l.
  Proof. split; apply Permutation_in; [symmetry|]; apply isort_perm. Qed.

  Lemma isort_nodup l : NoDup l -> NoDup (isort leb l).
  Proof. apply Permutation_NoDup, isort_perm. Qed.

  Lemma isort_length l : length (isort leb l) = length l.
  Proof. symmetry. apply Permutation_length, isort_perm. Qed.

  Lemma insert_sorted x l : StronglySorted le l -> StronglySorted le (insert leb x l).
  Proof.
    induction l as [|y l IH]; intro Hs; cbn.
    - constructor; constructor.
    - inversion Hs as [|? ? Hs' Hall]; subst. destruct (leb x y) eqn:E.
      + constructor; [exact Hs|]. constructor; [exact E|].
        eapply Forall_impl; [|exact Hall]. intros z Hz. eapply leb_trans; eauto.
      + constructor; [apply IH; exact Hs'|].
        assert (Hyx : leb y x = true) by (destruct (leb_total x y); congruence).
        apply Forall_forall. intros z Hz.
        apply (Permutation_in _ (Permutation_sym (insert_perm x l))) in Hz. destruct Hz as [<-|Hz]; [exact Hyx|].
        rewrite Forall_forall in Hall. apply Hall. exact Hz.
  Qed.

  Lemma isort_sorted l : StronglySorted le (isort leb l).
  Proof. induction l as [|x l IH]; cbn; [constructor|apply insert_sorted; exact IH]. Qed.

  (* a sorted list is its own sort *)
  Lemma insert_head x l : Forall (le x) l -> insert leb x l = x :: l.
  Proof. destruct l as [|y l]; cbn; [reflexivity|]. intro H. inversion H; subst. unfold le in *. rewrite H2. reflexivity. Qed.

  Lemma isort_id l : StronglySorted le l -> isort leb l = l.
  Proof.
    induction l as [|x l IH]; intro Hs; cbn; [reflexivity|].
    inversion Hs; subst. rewrite IH by assumption. apply insert_head. assumption.
  Qed.
End SortFacts.

(* two sorted lists with the same elements (no repetitions, antisymmetric order) are equal *)
Section SortedUnique.
  Context {A : Type} (leb : A -> A -> bool).
  Hypothesis leb_antisym : forall a b, leb a b = true -> leb b a = true -> a = b.

  Lemma sorted_unique : forall l1 l2,
    StronglySorted (le leb) l1 -> StronglySorted (le leb) l2 -> NoDup l1 -> NoDup l2 ->
    (forall x, In x l1 <-> In x l2) -> l1 = l2.
  Proof.
    induction l1 as [|a l1 IH]; intros l2 S1 S2 N1 N2 Hin.
    - destruct l2 as [|b l2]; [reflexivity|]. exfalso. apply (Hin b). left. reflexivity.
    - destruct l2 as [|b l2]; [exfalso; apply (Hin a); left; reflexivity|].
      inversion S1 as [|? ? S1' A1]; inversion S2 as [|? ? S2' A2]; subst.
      inversion N1; inversion N2; subst.
      rewrite Forall_forall in A1, A2.
      assert (a = b).
      { destruct (proj1 (Hin a) (or_introl eq_refl)) as [->|Ha]; [reflexivity|].
        destruct (proj2 (Hin b) (or_introl eq_refl)) as [->|Hb]; [reflexivity|].
        apply leb_antisym; [apply A1; exact Hb|apply A2; exact Ha]. }
      subst b. f_equal. apply IH; auto.
      intro x. split; intro Hx.
      + destruct (proj1 (Hin x) (or_intror Hx)) as [->|]; [contradiction|assumption].
      + destruct (proj2 (Hin x) (or_intror Hx)) as [->|]; [contradiction|assumption].
  Qed.
End SortedUnique.

(* ------------------------------------------------------------------ _decorated_list_slice on a sorted list *)
Definition lastl {A} (l : list A) : list A := match rev l with x :: _ => [x] | [] => [] end.

Lemma lastl_app_cons {A} (a : list A) x b : lastl (a ++ x :: b) = lastl (x :: b).
Proof.
  unfold lastl. rewrite rev_app_distr. cbn [rev]. destruct (rev b) as [|y r] eqn:E; cbn.
  - reflexivity.
  - reflexivity.
Qed.

Lemma lastl_snoc {A} (a : list A) x : lastl (a ++ [x]) = [x].
Proof. unfold lastl. rewrite rev_app_distr. reflexivity. Qed.

Lemma lastl_nil {A} : @lastl A [] = [].
Proof. reflexivity. Qed.

Section Slice.
  Context {A : Type} (time : A -> Z).
  Definition tsorted (l : list A) : Prop := StronglySorted (fun a b => time a <= time b) l.

  Lemma tsorted_tail x l : tsorted (x :: l) -> tsorted l.
  Proof. intro H. inversion H. assumption. Qed.

  Lemma tsorted_head x l y : tsorted (x :: l) -> In y l -> time x <= time y.
  Proof. intros H Hy. inversion H as [|? ? _ Hall]; subst. rewrite Forall_forall in Hall. auto. Qed.

  Lemma filter_none (p : A -> bool) l : (forall x, In x l -> p x = false) -> filter p l = [].
  Proof.
    induction l as [|x l IH]; intro H; cbn; [reflexivity|].
    rewrite (H x (or_introl eq_refl)). apply IH. intros y Hy. apply H. right. exact Hy.
  Qed.

  Lemma filter_all (p : A -> bool) l : (forall x, In x l -> p x = true) -> filter p l = l.
  Proof.
    induction l as [|x l IH]; intro H; cbn; [reflexivity|].
    rewrite (H x (or_introl eq_refl)). f_equal. apply IH. intros y Hy. apply H. right. exact Hy.
  Qed.

  (* on a sorted list, the leading run below a threshold is everything below it *)
  Lemma span_lt_sorted s l : tsorted l ->
    span (fun x => time x <? s) l = (filter (fun x => time x <? s) l, filter (fun x => negb (time x <? s)) l).
  Proof.
    induction l as [|x l IH]; intro Hs; cbn; [reflexivity|].
    destruct (time x <? s) eqn:E; cbn.
    - rewrite IH by (eapply tsorted_tail; eauto). reflexivity.
    - apply Z.ltb_ge in E.
      rewrite filter_none, filter_all; [reflexivity| |];
        intros y Hy; pose proof (tsorted_head _ _ _ Hs Hy); [apply negb_true_iff|]; apply Z.ltb_ge; lia.
  Qed.

  Lemma span_eq_sorted e l : tsorted l -> (forall x, In x l -> e <= time x) ->
    fst (span (fun x => time x =? e) l) = filter (fun x => time x <=? e) l.
  Proof.
    induction l as [|x l IH]; intros Hs Hge; cbn; [reflexivity|].
    destruct (time x =? e) eqn:E; cbn.
    - apply Z.eqb_eq in E. rewrite E, Z.leb_refl. f_equal. apply IH; [eapply tsorted_tail; eauto|].
      intros y Hy. apply Hge. right. exact Hy.
    - apply Z.eqb_neq in E. pose proof (Hge x (or_introl eq_refl)).
      assert (time x <=? e = false) as -> by (apply Z.leb_gt; lia).
      symmetry. apply filter_none. intros y Hy. pose proof (tsorted_head _ _ _ Hs Hy). apply Z.leb_gt. lia.
  Qed.

  Lemma end_take_sorted l e : tsorted l ->
    end_take fixed time l (Some e) = filter (fun x => time x <=? e) l.
  Proof.
    induction l as [|x l IH]; intro Hs; [reflexivity|].
    unfold end_take. cbn [span v_end_all fixed].
    destruct (time x <? e) eqn:E; cbn [fst snd app].
    - apply Z.ltb_lt in E. cbn [filter]. assert (time x <=? e = true) as -> by (apply Z.leb_le; lia).
      f_equal. apply IH. eapply tsorted_tail; eauto.
    - apply Z.ltb_ge in E. apply span_eq_sorted; [exact Hs|].
      intros y [<-|Hy]; [exact E|]. pose proof (tsorted_head _ _ _ Hs Hy). lia.
  Qed.

  (* the forward-fill entry: the last one below the start, when none is stamped exactly at it *)
  Definition ffpre (ff : bool) (st : option Z) (l : list A) : list A :=
    match st with
    | Some s => if ff && negb (existsb (fun x => time x =? s) l)
                then lastl (filter (fun x => time x <? s) l) else []
    | None => []
    end.

  Lemma head_ge_cond s l : tsorted l ->
    (match filter (fun x => negb (time x <? s)) l with [] => true | y :: _ => time y >? s end)
    = negb (existsb (fun x => time x =? s) l).
  Proof.
    induction l as [|x l IH]; intro Hs; cbn; [reflexivity|].
    destruct (time x <? s) eqn:E; cbn.
    - apply Z.ltb_lt in E. assert (time x =? s = false) as -> by (apply Z.eqb_neq; lia). cbn.
      apply IH. eapply tsorted_tail; eauto.
    - apply Z.ltb_ge in E. destruct (time x =? s) eqn:E2; cbn.
      + apply Z.eqb_eq in E2. rewrite Z.gtb_ltb. apply Z.ltb_ge. lia.
      + apply Z.eqb_neq in E2. assert (time x >? s = true) as -> by (rewrite Z.gtb_ltb; apply Z.ltb_lt; lia).
        symmetry. apply negb_true_iff. rewrite <- not_true_iff_false. intro Hex.
        apply existsb_exists in Hex as (y & Hy & Hys). apply Z.eqb_eq in Hys.
        pose proof (tsorted_head _ _ _ Hs Hy). lia.
  Qed.

  Lemma rev_cons_inv (l : list A) x r : rev l = x :: r -> l = rev r ++ [x].
  Proof. intro H. rewrite <- (rev_involutive l), H. reflexivity. Qed.

  Lemma filter_le_lt_below s e l : s <= e ->
    filter (fun x => time x <=? e) (filter (fun x => time x <? s) l) = filter (fun x => time x <? s) l.
  Proof.
    intro Hse. apply filter_all. intros x Hx. apply filter_In in Hx as [_ Hx].
    apply Z.ltb_lt in Hx. apply Z.leb_le. lia.
  Qed.

  Lemma filter_filter (p q : A -> bool) l : filter p (filter q l) = filter (fun x => q x && p x) l.
  Proof.
    induction l as [|x l IH]; cbn; [reflexivity|]. destruct (q x); cbn; [destruct (p x)|]; rewrite ?IH; reflexivity.
  Qed.

  Lemma tsorted_filter p l : tsorted l -> tsorted (filter p l).
  Proof.
    induction l as [|x l IH]; intro Hs; cbn; [constructor|].
    inversion Hs as [|? ? Hs' Hall]; subst. destruct (p x); [|apply IH; exact Hs'].
    constructor; [apply IH; exact Hs'|]. apply Forall_forall. intros y Hy. apply filter_In in Hy as [Hy _].
    rewrite Forall_forall in Hall. auto.
  Qed.

  Lemma tsorted_cons_intro x l : tsorted l -> (forall y, In y l -> time x <= time y) -> tsorted (x :: l).
  Proof. intros Hs H. constructor; [exact Hs|]. apply Forall_forall. exact H. Qed.

  (* THE slice, on a list sorted by time, as forward-fill entry ++ window filter *)
  Definition wok (st en : option Z) (x : A) : bool := in_window st en (time x).

  Definition window_wf (st en : option Z) : Prop :=
    match st, en with Some s, Some e => s <= e | _, _ => True end.

  Lemma slice_sorted l st en ff : tsorted l -> window_wf st en ->
    snd (slice fixed time l st en ff) = ffpre ff st l ++ filter (wok st en) l.
  Proof.
    intros Hs Hw. unfold slice, start_split, ffpre, wok, in_window.
    destruct st as [s|].
    2:{ cbn [fst snd app]. destruct en as [e|].
        - rewrite end_take_sorted by exact Hs. reflexivity.
        - unfold end_take. symmetry. apply filter_all. reflexivity. }
    rewrite span_lt_sorted by exact Hs. cbn [fst snd].
    rewrite head_ge_cond by exact Hs.
    set (lo := filter (fun x => time x <? s) l).
    set (hi := filter (fun x => negb (time x <? s)) l).
    assert (Hhi : tsorted hi) by (apply tsorted_filter; exact Hs).
    assert (Hwin : forall en', (match en' with Some e => s <= e | None => True end) ->
              filter (fun x => (s <=? time x) && match en' with Some e => time x <=? e | None => true end) l
              = match en' with Some e => filter (fun x => time x <=? e) hi | None => hi end).
    { intros en' _. destruct en' as [e|]; unfold hi.
      - rewrite filter_filter. apply filter_ext. intro x. rewrite Z.leb_antisym. reflexivity.
      - apply filter_ext. intro x. rewrite Z.leb_antisym, andb_true_r. reflexivity. }
    destruct (ff && negb (existsb (fun x => time x =? s) l)) eqn:Eff.
    - destruct (rev lo) as [|x rlo] eqn:Erev.
      + cbn [fst snd]. unfold lastl. rewrite Erev. cbn [app].
        rewrite Hwin by (destruct en; auto). destruct en as [e|]; [apply end_take_sorted; exact Hhi|reflexivity].
      + cbn [fst snd]. unfold lastl. rewrite Erev.
        pose proof (rev_cons_inv _ _ _ Erev) as Hlo.
        assert (Hx : time x < s).
        { assert (In x lo) by (rewrite Hlo; apply in_or_app; right; left; reflexivity).
          unfold lo in H. apply filter_In in H as [_ H]. apply Z.ltb_lt. exact H. }
        assert (Hxs : tsorted (x :: hi)).
        { apply tsorted_cons_intro; [exact Hhi|]. intros y Hy. unfold hi in Hy.
          apply filter_In in Hy as [_ Hy]. apply negb_true_iff, Z.ltb_ge in Hy. lia. }
        rewrite Hwin by (destruct en; auto). destruct en as [e|].
        * rewrite end_take_sorted by exact Hxs. cbn [filter]. cbn in Hw.
          assert (time x <=? e = true) as -> by (apply Z.leb_le; lia). reflexivity.
        * reflexivity.
    - cbn [fst snd app]. rewrite Hwin by (destruct en; auto).
      destruct en as [e|]; [apply end_take_sorted; exact Hhi|reflexivity].
  Qed.

  (* what precedes the slice: entries below the start, all but the forward-fill one *)
  Lemma slice_before l st en ff x : tsorted l -> In x (fst (slice fixed time l st en ff)) ->
    In x l /\ exists s, st = Some s /\ time x < s.
  Proof.
    intros Hs. unfold slice, start_split. destruct st as [s|]; cbn [fst]; [|intros []].
    rewrite span_lt_sorted by exact Hs. cbn [fst snd].
    set (lo := filter (fun x => time x <? s) l).
    assert (Hlo : forall y, In y lo -> In y l /\ exists s0, Some s = Some s0 /\ time y < s0).
    { intros y Hy. unfold lo in Hy. apply filter_In in Hy as [Hy1 Hy2]. split; [exact Hy1|].
      exists s. split; [reflexivity|apply Z.ltb_lt; exact Hy2]. }
    destruct (ff && _).
    - destruct (rev lo) as [|y rlo] eqn:Erev; cbn [fst]; [intros []|].
      intro Hx. apply Hlo. rewrite (rev_cons_inv _ _ _ Erev). apply in_or_app. left. exact Hx.
    - cbn [fst]. apply Hlo.
  Qed.
End Slice.

(* ------------------------------------------------------------------ never fails; reverse is rev *)
Lemma lookback_fixed_ok prior : snd (lookback fixed prior) = None.
Proof.
  induction prior as [|p rest IH]; cbn; [reflexivity|].
  destruct (s_files p) as [[|x pf]|]; cbn; auto.
Qed.

Lemma chunk_fixed_ok ydmd st en prior first d : snd (chunk fixed ydmd st en prior first d) = None.
Proof.
  unfold chunk. destruct (s_files d) as [files|]; [|reflexivity].
  pose proof (lookback_fixed_ok prior) as Hl.
  destruct (first && ydmd && negb match prior with [] => true | _ => false end && truthy st); [|reflexivity].
  destruct (isort dec_leb files) as [|x dfs]; cbn [v_guard_empty fixed].
  - destruct (lookback fixed prior) as [[pf|] [e|]]; cbn in Hl; try discriminate; reflexivity.
  - destruct st as [s|]; [|reflexivity]. destruct (fst x >? s); [|reflexivity].
    destruct (lookback fixed prior) as [[pf|] [e|]]; cbn in Hl; try discriminate; reflexivity.
Qed.

Lemma seq_chunks_ok {A} (cs : list (list A * option err)) :
  (forall c, In c cs -> snd c = None) -> seq_chunks cs = (concat (map fst cs), None).
Proof.
  induction cs as [|[out e] cs IH]; intro H; cbn; [reflexivity|].
  pose proof (H (out, e) (or_introl eq_refl)) as He. cbn in He. subst e.
  rewrite IH by (intros c Hc; apply H; right; exact Hc). reflexivity.
Qed.

Lemma mapi_aux_in {A B} (f : nat -> A -> B) : forall l i y, In y (mapi_aux f i l) -> exists j x, y = f j x.
Proof.
  induction l as [|x l IH]; intros i y H; cbn in H; [contradiction|].
  destruct H as [<-|H]; [eauto|]. eapply IH; eauto.
Qed.

Lemma rev_concat {A} (L : list (list A)) : rev (concat L) = concat (map (@rev A) (rev L)).
Proof.
  induction L as [|l L IH]; cbn; [reflexivity|].
  rewrite rev_app_distr, IH, map_app, concat_app. cbn. rewrite app_nil_r. reflexivity.
Qed.

(* the chunks of the repaired code do not depend on the direction of iteration *)
Definition chunks_of (ydmd : bool) (st en : option Z) (D : list sub) : list (list dec * option err) :=
  let b := slice fixed s_time D st en true in
  mapi (fun i d => chunk fixed ydmd st en (rev (fst b)) (Nat.eqb i 0) d) (snd b).

Lemma yield_channel_forward ydmd st en D :
  yield_channel fixed ydmd st en false D = (concat (map fst (chunks_of ydmd st en D)), None).
Proof.
  unfold yield_channel, chunks_of. cbn [v_chrono fixed orb negb].
  apply seq_chunks_ok. intros c Hc. unfold mapi in Hc. apply mapi_aux_in in Hc as (j & x & ->).
  apply chunk_fixed_ok.
Qed.

Theorem never_fails ydmd st en reverse D : snd (yield_channel fixed ydmd st en reverse D) = None.
Proof.
  destruct reverse; [|rewrite yield_channel_forward; reflexivity].
  unfold yield_channel. cbn [v_chrono fixed orb].
  rewrite seq_chunks_ok; [reflexivity|].
  intros c Hc. apply in_map_iff in Hc as (c0 & <- & Hc0). cbn. apply in_rev in Hc0.
  unfold mapi in Hc0. apply mapi_aux_in in Hc0 as (j & x & ->). apply chunk_fixed_ok.
Qed.

Theorem reverse_is_rev ydmd st en D :
  yield_channel fixed ydmd st en true D = (rev (fst (yield_channel fixed ydmd st en false D)), None).
Proof.
  rewrite yield_channel_forward. cbn [fst].
  unfold yield_channel. cbn [v_chrono fixed orb].
  fold (chunks_of ydmd st en D).
  change (mapi (fun i d => chunk fixed ydmd st en (rev (fst (slice fixed s_time D st en true))) (Nat.eqb i 0) d)
            (snd (slice fixed s_time D st en true))) with (chunks_of ydmd st en D).
  rewrite seq_chunks_ok.
  - rewrite rev_concat, map_map, <- map_rev, map_map. reflexivity.
  - intros c Hc. apply in_map_iff in Hc as (c0 & <- & Hc0). cbn. apply in_rev in Hc0.
    unfold chunks_of, mapi in Hc0. apply mapi_aux_in in Hc0 as (j & x & ->). apply chunk_fixed_ok.
Qed.

(* ------------------------------------------------------------------ the channel against its Spec *)
Definition F (d : sub) : list dec := match s_files d with Some fs => fs | None => [] end.
Definition SF (d : sub) : list dec := isort dec_leb (F d).

Definition strict_sorted (D : list sub) : Prop := StronglySorted (fun a b => s_time a < s_time b) D.
Definition all_listed (D : list sub) : Prop := forall d, In d D -> s_files d <> None.
(* layout consistency: a file's name time lies in [time of its subdirectory, time of any later one) *)
Definition consistent (D : list sub) : Prop :=
  forall d x, In d D -> In x (F d) ->
    s_time d <= fst x /\ forall d', In d' D -> s_time d < s_time d' -> fst x < s_time d'.
Definition nonneg (D : list sub) : Prop := forall d x, In d D -> In x (F d) -> 0 <= fst x.

Lemma StronglySorted_impl {A} (R1 R2 : A -> A -> Prop) l :
  (forall a b, R1 a b -> R2 a b) -> StronglySorted R1 l -> StronglySorted R2 l.
Proof.
  intros Himp Hs. induction Hs; constructor; auto. eapply Forall_impl; [|eassumption]. cbn. intros; auto.
Qed.

Lemma SF_in d x : In x (SF d) <-> In x (F d).
Proof. apply isort_in. Qed.

Lemma isort_tsorted l : tsorted fst (isort dec_leb l).
Proof.
  eapply StronglySorted_impl; [|apply (isort_sorted dec_leb dec_leb_total dec_leb_trans)].
  intros a b. apply dec_leb_time.
Qed.

Lemma strict_tsorted D : strict_sorted D -> tsorted s_time D.
Proof. apply StronglySorted_impl. intros; lia. Qed.

Lemma insert_app_le x l1 l2 : (forall y, In y l2 -> dec_leb x y = true) ->
  insert dec_leb x (l1 ++ l2) = insert dec_leb x l1 ++ l2.
Proof.
  intro H. induction l1 as [|y l1 IH]; cbn.
  - apply insert_head. apply Forall_forall. exact H.
  - destruct (dec_leb x y); [reflexivity|]. rewrite IH. reflexivity.
Qed.

Lemma isort_app_lt a b : (forall x y, In x a -> In y b -> fst x < fst y) ->
  isort dec_leb (a ++ b) = isort dec_leb a ++ isort dec_leb b.
Proof.
  induction a as [|x a IH]; intro H; cbn; [reflexivity|].
  rewrite IH by (intros; apply H; [right|]; assumption).
  apply insert_app_le. intros y Hy. apply time_lt_dec_leb. apply H; [left; reflexivity|].
  apply (proj1 (isort_in dec_leb y b)) in Hy. exact Hy.
Qed.

Lemma flat_map_nil {A B} (g : A -> list B) L : (forall d, In d L -> g d = []) -> flat_map g L = [].
Proof.
  induction L as [|d L IH]; intro H; cbn; [reflexivity|].
  rewrite (H d (or_introl eq_refl)), IH; [reflexivity|]. intros; apply H; right; assumption.
Qed.

Lemma filter_flat_map {A B} (p : B -> bool) (g : A -> list B) L :
  filter p (flat_map g L) = flat_map (fun d => filter p (g d)) L.
Proof. induction L as [|d L IH]; cbn; [reflexivity|]. rewrite filter_app, IH. reflexivity. Qed.

Lemma flat_map_filter_drop {A B} (q : A -> bool) (g : A -> list B) L :
  (forall d, In d L -> q d = false -> g d = []) -> flat_map g (filter q L) = flat_map g L.
Proof.
  induction L as [|d L IH]; intro H; cbn; [reflexivity|].
  destruct (q d) eqn:E; cbn; rewrite IH by (intros; apply H; [right|]; assumption); [reflexivity|].
  rewrite (H d (or_introl eq_refl) E). reflexivity.
Qed.

Lemma span_app {A} (p : A -> bool) l : fst (span p l) ++ snd (span p l) = l.
Proof. induction l as [|x l IH]; cbn; [reflexivity|]. destruct (p x); cbn; [rewrite IH|]; reflexivity. Qed.

Lemma in_flat_map_SF D x : In x (flat_map SF D) <-> exists d, In d D /\ In x (F d).
Proof.
  rewrite in_flat_map. split; intros (d & Hd & Hx); exists d; (split; [exact Hd|]); apply SF_in; exact Hx.
Qed.

(* all files of the channel, sorted: under layout consistency this is the concatenation of the
   sorted subdirectories *)
Lemma all_files_concat D : strict_sorted D -> consistent D -> all_files D = flat_map SF D.
Proof.
  unfold all_files. change (fun d : sub => match s_files d with Some fs => fs | None => [] end) with F.
  induction D as [|d D IH]; intros Hs Hc; cbn; [reflexivity|].
  inversion Hs as [|? ? Hs' Hall]; subst. rewrite Forall_forall in Hall.
  rewrite isort_app_lt.
  - rewrite IH; [reflexivity|exact Hs'|].
    intros d1 x Hd1 Hx. destruct (Hc d1 x (or_intror Hd1) Hx) as [H1 H2]. split; [exact H1|].
    intros d' Hd' Hlt. apply H2; [right; exact Hd'|exact Hlt].
  - intros x y Hx Hy. apply in_flat_map in Hy as (d' & Hd' & Hy).
    destruct (Hc d x (or_introl eq_refl) Hx) as [_ H2].
    destruct (Hc d' y (or_intror Hd') Hy) as [H3 _].
    specialize (H2 d' (or_intror Hd') (Hall d' Hd')). lia.
Qed.

(* one subdirectory that is not the first of the slice: the window filter of its sorted files *)
Lemma chunk_rest ydmd st en prior d : s_files d <> None -> window_wf st en ->
  chunk fixed ydmd st en prior false d = (filter (win st en) (SF d), None).
Proof.
  intros Hl Hw. unfold chunk, SF, F. destruct (s_files d) as [files|]; [|congruence].
  cbn [andb]. rewrite slice_sorted by (try apply isort_tsorted; exact Hw).
  unfold ffpre. destruct st; reflexivity.
Qed.

Lemma mapi_aux_shift {A B} (f : A -> B) (g : nat -> A -> B) : forall l i,
  (forall j x, (i <= j)%nat -> g j x = f x) -> mapi_aux g i l = map f l.
Proof.
  induction l as [|x l IH]; intros i H; cbn; [reflexivity|].
  rewrite H by lia. f_equal. apply IH. intros j y Hj. apply H. lia.
Qed.

Lemma mapi_first {A B} (g : bool -> A -> B) d0 rest :
  mapi (fun i d => g (Nat.eqb i 0) d) (d0 :: rest) = g true d0 :: map (g false) rest.
Proof.
  unfold mapi. cbn. f_equal. apply mapi_aux_shift. intros j x Hj.
  destruct j; [lia|reflexivity].
Qed.

Lemma lastl_app_nonnil {A} (a b : list A) : b <> [] -> lastl (a ++ b) = lastl b.
Proof. destruct b as [|x b]; [congruence|]. intros _. apply lastl_app_cons. Qed.

Lemma isort_nonnil l : l <> [] -> isort dec_leb l <> [].
Proof.
  intros H E. apply (f_equal (@length dec)) in E. rewrite isort_length in E. destruct l; [congruence|discriminate].
Qed.

(* what the look-back loop finds, in terms of the files that precede the slice *)
Lemma lookback_fixed_spec : forall prior, (forall p, In p prior -> s_files p <> None) ->
  match fst (lookback fixed prior) with
  | None => flat_map SF (rev prior) = []
  | Some pf => pf <> [] /\ (exists p, In p prior /\ F p = pf) /\
               lastl (flat_map SF (rev prior)) = lastl (isort dec_leb pf)
  end.
Proof.
  induction prior as [|p rest IH]; intro Hl; [reflexivity|].
  cbn [lookback rev]. rewrite flat_map_app. cbn [flat_map]. rewrite app_nil_r.
  assert (Hr : forall q, In q rest -> s_files q <> None) by (intros; apply Hl; right; assumption).
  specialize (IH Hr).
  destruct (s_files p) as [[|x pf]|] eqn:Ep.
  - assert (SF p = []) as -> by (unfold SF, F; rewrite Ep; reflexivity). rewrite app_nil_r.
    destruct (fst (lookback fixed rest)) as [pf|]; [|exact IH].
    destruct IH as (H1 & (q & Hq & HF) & H3). repeat split; auto. exists q. split; [right; exact Hq|exact HF].
  - cbn [fst]. split; [discriminate|]. split.
    + exists p. split; [left; reflexivity|]. unfold F. rewrite Ep. reflexivity.
    + unfold SF, F. rewrite Ep. apply lastl_app_nonnil. apply isort_nonnil. discriminate.
  - exfalso. apply (Hl p (or_introl eq_refl)). exact Ep.
Qed.

Lemma existsb_false_all {A} (p : A -> bool) l : (forall x, In x l -> p x = false) -> existsb p l = false.
Proof.
  intro H. destruct (existsb p l) eqn:E; [|reflexivity].
  apply existsb_exists in E as (x & Hx & Hp). rewrite (H x Hx) in Hp. discriminate.
Qed.

Lemma tsorted_all_gt (C : list dec) s :
  tsorted fst C -> (match C with [] => True | x :: _ => s < fst x end) -> forall y, In y C -> s < fst y.
Proof.
  intros Hs Hh y Hy. destruct C as [|x C]; [contradiction|].
  destruct Hy as [<-|Hy]; [exact Hh|]. pose proof (tsorted_head fst _ _ _ Hs Hy). lia.
Qed.

(* the first subdirectory of the slice, with the files P of the subdirectories before the slice
   and the files R0 of those after it *)
Lemma first_chunk ydmd s en before d0 (R0 : list dec) :
  (forall p, In p before -> s_files p <> None) -> s_files d0 <> None ->
  (forall x, In x (flat_map SF before) -> 0 <= fst x < s /\ forall y, In y (F d0) -> fst x < fst y) ->
  (forall y, In y R0 -> s < fst y) ->
  window_wf (Some s) en ->
  fst (chunk fixed ydmd (Some s) en (rev before) true d0) =
    ffpre fst ydmd (Some s) (flat_map SF before ++ SF d0 ++ R0) ++ filter (win (Some s) en) (SF d0).
Proof.
  intros Hlb Hl0 HP HR Hw.
  change (win (Some s) en) with (wok (@fst Z word) (Some s) en).
  set (P := flat_map SF before) in *. set (C := SF d0).
  assert (HC : tsorted fst C) by apply isort_tsorted.
  (* the forward-fill entry of the Spec, reduced to P and C *)
  assert (Hex : existsb (fun x : Z * word => fst x =? s) (P ++ C ++ R0) = existsb (fun x : Z * word => fst x =? s) C).
  { rewrite !existsb_app.
    rewrite (existsb_false_all _ P) by (intros x Hx; apply Z.eqb_neq; destruct (HP x Hx); lia).
    rewrite (existsb_false_all _ R0) by (intros x Hx; apply Z.eqb_neq; specialize (HR x Hx); lia).
    rewrite orb_false_r. reflexivity. }
  assert (Hlt : filter (fun x : Z * word => fst x <? s) (P ++ C ++ R0) = P ++ filter (fun x : Z * word => fst x <? s) C).
  { rewrite !filter_app.
    rewrite (filter_all _ P) by (intros x Hx; apply Z.ltb_lt; destruct (HP x Hx); lia).
    rewrite (filter_none _ R0) by (intros x Hx; apply Z.ltb_ge; specialize (HR x Hx); lia).
    rewrite app_nil_r. reflexivity. }
  assert (Hspec : ffpre fst ydmd (Some s) (P ++ C ++ R0) =
                  if ydmd && negb (existsb (fun x : Z * word => fst x =? s) C)
                  then lastl (P ++ filter (fun x : Z * word => fst x <? s) C) else []).
  { unfold ffpre. rewrite Hex, Hlt. reflexivity. }
  rewrite Hspec. clear Hspec Hex Hlt.
  (* the code *)
  unfold chunk. fold (F d0). destruct (s_files d0) as [files|] eqn:E0; [|congruence].
  assert (EF : F d0 = files) by (unfold F; rewrite E0; reflexivity).
  change (isort dec_leb files) with (isort dec_leb files). rewrite <- EF. fold (SF d0). fold C.
  assert (Hgo : forall ff, snd (slice fixed fst C (Some s) en ff) = ffpre fst ff (Some s) C ++ filter (wok fst (Some s) en) C).
  { intro ff. apply slice_sorted; assumption. }
  destruct ydmd.
  2:{ rewrite !andb_false_r. cbn [andb fst]. rewrite Hgo. reflexivity. }
  cbn [andb].
  (* is the first file of the subdirectory after the start (or is there none)? *)
  destruct C as [|x C'] eqn:EC.
  - (* empty first subdirectory *)
    cbn [existsb negb filter]. rewrite !app_nil_r.
    destruct (negb match rev before with [] => true | _ => false end && truthy (Some s)) eqn:Epre.
    + cbn [v_guard_empty fixed].
      pose proof (lookback_fixed_ok (rev before)) as Hok.
      pose proof (lookback_fixed_spec (rev before)) as Hlb'.
      rewrite rev_involutive in Hlb'. fold P in Hlb'.
      specialize (Hlb' (fun p Hp => Hlb p (proj2 (in_rev before p) Hp))).
      destruct (lookback fixed (rev before)) as [[pf|] [e|]]; cbn in Hok; try discriminate; cbn [fst snd] in *.
      * destruct Hlb' as (Hne & (p & Hp & HFp) & Hlast).
        rewrite app_nil_r. rewrite slice_sorted by (try apply isort_tsorted; exact Hw).
        assert (Hall : forall y, In y (isort dec_leb pf) -> fst y < s).
        { intros y Hy. apply (proj1 (isort_in dec_leb y pf)) in Hy. rewrite <- HFp in Hy.
          assert (In y P) by (apply in_flat_map_SF; exists p; split; [apply in_rev; exact Hp|exact Hy]).
          destruct (HP y H). lia. }
        unfold ffpre. cbn [andb].
        rewrite (existsb_false_all _ (isort dec_leb pf)) by (intros y Hy; apply Z.eqb_neq; specialize (Hall y Hy); lia).
        cbn [negb]. rewrite (filter_all _ (isort dec_leb pf)) by (intros y Hy; apply Z.ltb_lt; auto).
        rewrite (filter_none (wok fst (Some s) en)); [rewrite app_nil_r; symmetry; exact Hlast|].
        intros y Hy. unfold wok, in_window. specialize (Hall y Hy).
        assert (s <=? fst y = false) as -> by (apply Z.leb_gt; lia). reflexivity.
      * rewrite Hlb'. rewrite Hgo. reflexivity.
    + rewrite Hgo. cbn. (* no look-back: nothing precedes, or start = epoch *)
      assert (HPnil : P = []).
      { apply andb_false_iff in Epre as [Epre|Epre].
        - apply negb_false_iff in Epre. destruct (rev before) eqn:Er; [|discriminate].
          assert (before = []) by (rewrite <- (rev_involutive before), Er; reflexivity). subst before. reflexivity.
        - cbn in Epre. apply negb_false_iff, Z.eqb_eq in Epre. subst s.
          destruct P as [|y P']; [reflexivity|]. destruct (HP y (or_introl eq_refl)). lia. }
      rewrite HPnil. reflexivity.
  - (* the subdirectory has files; x is the earliest *)
    destruct (fst x >? s) eqn:Egt.
    + (* it starts after the start: nothing of it is below or at the start *)
      assert (Hgt : s < fst x) by (rewrite Z.gtb_ltb in Egt; apply Z.ltb_lt; exact Egt).
      assert (Hall : forall y, In y (x :: C') -> s < fst y) by (apply tsorted_all_gt; assumption).
      rewrite (existsb_false_all _ (x :: C')) by (intros y Hy; apply Z.eqb_neq; specialize (Hall y Hy); lia).
      rewrite (filter_none (fun x0 : Z * word => fst x0 <? s) (x :: C')) by (intros y Hy; apply Z.ltb_ge; specialize (Hall y Hy); lia).
      cbn [negb]. rewrite app_nil_r.
      assert (Hgo0 : ffpre fst true (Some s) (x :: C') = []).
      { unfold ffpre. cbn [andb].
        rewrite (existsb_false_all _ (x :: C')) by (intros y Hy; apply Z.eqb_neq; specialize (Hall y Hy); lia).
        rewrite (filter_none _ (x :: C')) by (intros y Hy; apply Z.ltb_ge; specialize (Hall y Hy); lia).
        reflexivity. }
      destruct (negb match rev before with [] => true | _ => false end && truthy (Some s)) eqn:Epre.
      * pose proof (lookback_fixed_ok (rev before)) as Hok.
        pose proof (lookback_fixed_spec (rev before)) as Hlb'.
        rewrite rev_involutive in Hlb'. fold P in Hlb'.
        specialize (Hlb' (fun p Hp => Hlb p (proj2 (in_rev before p) Hp))).
        destruct (lookback fixed (rev before)) as [[pf|] [e|]]; cbn in Hok; try discriminate; cbn [fst snd] in *.
        -- destruct Hlb' as (Hne & (p & Hp & HFp) & Hlast).
           assert (HallP : forall y, In y (isort dec_leb pf) -> fst y < s /\ forall z, In z (x :: C') -> fst y < fst z).
           { intros y Hy. apply (proj1 (isort_in dec_leb y pf)) in Hy. rewrite <- HFp in Hy.
             assert (HyP : In y P) by (apply in_flat_map_SF; exists p; split; [apply in_rev; exact Hp|exact Hy]).
             destruct (HP y HyP) as [H1 H2]. split; [lia|]. intros z Hz. apply H2.
             rewrite <- EC in Hz. apply SF_in in Hz. exact Hz. }
           assert (Hsort : isort dec_leb (pf ++ x :: C') = isort dec_leb pf ++ x :: C').
           { rewrite isort_app_lt.
             - f_equal. rewrite <- EC. unfold C, SF. apply isort_id; try apply dec_leb_total.
               apply (isort_sorted dec_leb dec_leb_total dec_leb_trans).
             - intros a b Ha Hb. apply (proj2 (isort_in dec_leb a pf)) in Ha. apply HallP; assumption. }
           rewrite Hsort. rewrite slice_sorted; [| |exact Hw].
           2:{ rewrite <- Hsort. apply isort_tsorted. }
           unfold ffpre. cbn [andb]. rewrite existsb_app, !filter_app.
           rewrite (existsb_false_all _ (isort dec_leb pf)) by (intros y Hy; apply Z.eqb_neq; destruct (HallP y Hy); lia).
           rewrite (existsb_false_all _ (x :: C')) by (intros y Hy; apply Z.eqb_neq; specialize (Hall y Hy); lia).
           cbn [orb negb].
           rewrite (filter_all _ (isort dec_leb pf)) by (intros y Hy; apply Z.ltb_lt; destruct (HallP y Hy); lia).
           rewrite (filter_none (fun x0 : Z * word => fst x0 <? s) (x :: C')) by (intros y Hy; apply Z.ltb_ge; specialize (Hall y Hy); lia).
           rewrite app_nil_r, Hlast. f_equal.
           rewrite (filter_none (wok fst (Some s) en) (isort dec_leb pf)); [reflexivity|].
           intros y Hy. unfold wok, in_window. destruct (HallP y Hy) as [H1 _].
           assert (s <=? fst y = false) as -> by (apply Z.leb_gt; lia). reflexivity.
        -- rewrite Hlb'. rewrite Hgo, Hgo0. reflexivity.
      * rewrite Hgo, Hgo0.
        assert (HPnil : P = []).
        { apply andb_false_iff in Epre as [Epre|Epre].
          - apply negb_false_iff in Epre. destruct (rev before) eqn:Er; [|discriminate].
            assert (before = []) by (rewrite <- (rev_involutive before), Er; reflexivity). subst before. reflexivity.
          - cbn in Epre. apply negb_false_iff, Z.eqb_eq in Epre. subst s.
            destruct P as [|y P']; [reflexivity|]. destruct (HP y (or_introl eq_refl)). lia. }
        rewrite HPnil. reflexivity.
    + (* the earliest file is at or before the start: no look-back, the forward-fill entry is here *)
      assert (Hle : fst x <= s) by (rewrite Z.gtb_ltb in Egt; apply Z.ltb_ge; exact Egt).
      assert (Hboth : (if negb match rev before with [] => true | _ => false end && truthy (Some s)
                       then (snd (slice fixed fst (x :: C') (Some s) en true), @None err)
                       else (snd (slice fixed fst (x :: C') (Some s) en true), None))
                      = (snd (slice fixed fst (x :: C') (Some s) en true), None)) by (destruct (_ && _); reflexivity).
      match goal with |- fst (if ?c then _ else _) = _ => destruct c end; cbn [fst]; rewrite Hgo;
        (f_equal; unfold ffpre; cbn [andb];
         destruct (negb (existsb (fun x0 : Z * word => fst x0 =? s) (x :: C'))) eqn:Eno; [|reflexivity];
         symmetry; apply lastl_app_nonnil;
         cbn [filter]; apply negb_true_iff in Eno; cbn [existsb] in Eno; apply orb_false_iff in Eno as [Ex _];
         apply Z.eqb_neq in Ex; assert (fst x <? s = true) as -> by (apply Z.ltb_lt; lia); discriminate).
Qed.

Lemma sorted_app_lt (a b : list sub) : strict_sorted (a ++ b) ->
  forall x y, In x a -> In y b -> s_time x < s_time y.
Proof.
  induction a as [|z a IH]; intros Hs x y Hx Hy; [contradiction|].
  cbn in Hs. inversion Hs as [|? ? Hs' Hall]; subst. destruct Hx as [<-|Hx].
  - rewrite Forall_forall in Hall. apply Hall. apply in_or_app. right. exact Hy.
  - eapply IH; eauto.
Qed.

Lemma sorted_app_r (a b : list sub) : strict_sorted (a ++ b) -> strict_sorted b.
Proof. induction a as [|z a IH]; intro Hs; [exact Hs|]. cbn in Hs. inversion Hs; subst. auto. Qed.

Lemma existsb_false_inv {A} (p : A -> bool) l : existsb p l = false -> forall x, In x l -> p x = false.
Proof.
  intros H x Hx. destruct (p x) eqn:E; [|reflexivity].
  assert (existsb p l = true) by (apply existsb_exists; eauto). congruence.
Qed.

(* where the subdirectory slice starts (start given, forward fill always on) *)
Lemma start_split_facts s D : strict_sorted D ->
  let b := start_split s_time D (Some s) true in
  D = fst b ++ snd b /\
  match snd b with
  | [] => D = []
  | d0 :: rest0 => (forall d, In d rest0 -> s < s_time d) /\ (s_time d0 <= s \/ fst b = [])
  end.
Proof.
  intro Hss. pose proof (strict_tsorted D Hss) as Hts.
  unfold start_split. rewrite span_lt_sorted by exact Hts. cbn [fst snd andb].
  rewrite head_ge_cond by exact Hts.
  pose proof (span_app (fun x => s_time x <? s) D) as Happ. rewrite span_lt_sorted in Happ by exact Hts.
  cbn [fst snd] in Happ.
  set (lo := filter (fun x => s_time x <? s) D) in *.
  set (hi := filter (fun x => negb (s_time x <? s)) D) in *.
  assert (Hhi : forall d, In d hi -> s <= s_time d).
  { intros d Hd. unfold hi in Hd. apply filter_In in Hd as [_ Hd]. apply negb_true_iff, Z.ltb_ge in Hd. exact Hd. }
  destruct (negb (existsb (fun x => s_time x =? s) D)) eqn:Eno.
  - apply negb_true_iff in Eno. pose proof (existsb_false_inv _ _ Eno) as Hne.
    assert (Hhi' : forall d, In d hi -> s < s_time d).
    { intros d Hd. specialize (Hhi d Hd). assert (In d D) by (unfold hi in Hd; apply filter_In in Hd; tauto).
      specialize (Hne d H). apply Z.eqb_neq in Hne. lia. }
    destruct (rev lo) as [|x rlo] eqn:Erev; cbn [fst snd].
    + assert (lo = []) by (rewrite <- (rev_involutive lo), Erev; reflexivity).
      rewrite H in Happ. cbn in Happ. split; [symmetry; exact Happ|].
      destruct hi as [|d0 rest0]; [symmetry; exact Happ|]. split; [|right; reflexivity].
      intros d Hd. apply Hhi'. right. exact Hd.
    + pose proof (rev_cons_inv _ _ _ Erev) as Hlo. split.
      * rewrite <- Happ, Hlo, <- app_assoc. reflexivity.
      * split; [exact Hhi'|]. left.
        assert (In x lo) by (rewrite Hlo; apply in_or_app; right; left; reflexivity).
        unfold lo in H. apply filter_In in H as [_ H]. apply Z.ltb_lt in H. lia.
  - cbn [fst snd]. split; [symmetry; exact Happ|].
    apply negb_false_iff in Eno. apply existsb_exists in Eno as (d & Hd & Hds). apply Z.eqb_eq in Hds.
    assert (Hdhi : In d hi).
    { unfold hi. apply filter_In. split; [exact Hd|]. apply negb_true_iff, Z.ltb_ge. lia. }
    destruct hi as [|d0 rest0] eqn:Ehi; [contradiction|].
    assert (Hs0 : strict_sorted (d0 :: rest0)) by (rewrite <- Happ in Hss; eapply sorted_app_r; eauto).
    apply StronglySorted_inv in Hs0 as [_ Hall]. rewrite Forall_forall in Hall.
    assert (Hd0 : s <= s_time d0) by (apply Hhi; left; reflexivity).
    assert (s_time d0 = s).
    { destruct Hdhi as [Heq|Hin]; [subst d; exact Hds|]. specialize (Hall d Hin). lia. }
    split; [|left; lia]. intros d' Hd'. specialize (Hall d' Hd'). lia.
Qed.

Lemma chunk_nostart ydmd en prior first d : s_files d <> None ->
  chunk fixed ydmd None en prior first d = (filter (win None en) (SF d), None).
Proof.
  intros Hl. unfold chunk, SF, F. destruct (s_files d) as [files|]; [|congruence].
  cbn [truthy]. rewrite !andb_false_r.
  rewrite slice_sorted by (try apply isort_tsorted; exact I). reflexivity.
Qed.

Lemma concat_map_fst_chunks (g : sub -> list dec) (f : sub -> list dec * option err) L :
  (forall d, In d L -> f d = (g d, None)) -> concat (map fst (map f L)) = flat_map g L.
Proof.
  induction L as [|d L IH]; intro H; cbn; [reflexivity|].
  rewrite (H d (or_introl eq_refl)). cbn. f_equal. apply IH. intros; apply H; right; assumption.
Qed.

Lemma mapi_aux_const {A B} (f : A -> B) (g : nat -> A -> B) : forall l i,
  (forall j x, In x l -> g j x = f x) -> mapi_aux g i l = map f l.
Proof.
  induction l as [|x l IH]; intros i H; cbn; [reflexivity|].
  rewrite H by (left; reflexivity). f_equal. apply IH. intros j y Hy. apply H. right. exact Hy.
Qed.

Definition gwin (st en : option Z) (d : sub) : list dec := filter (win st en) (SF d).

(* subdirectories later than the window contribute nothing *)
Lemma g_after st e D d : consistent D -> In d D -> (s_time d <=? e) = false -> gwin st (Some e) d = [].
Proof.
  intros Hco Hd Hlt. apply Z.leb_gt in Hlt. unfold gwin. apply filter_none. intros x Hx.
  apply SF_in in Hx. destruct (Hco d x Hd Hx) as [H1 _]. unfold win, in_window.
  assert (fst x <=? e = false) as -> by (apply Z.leb_gt; lia). apply andb_false_r.
Qed.

Lemma sel_tail st en D rest0 : consistent D -> (forall d, In d rest0 -> In d D) -> tsorted s_time rest0 ->
  flat_map (gwin st en) (end_take fixed s_time rest0 en) = flat_map (gwin st en) rest0.
Proof.
  intros Hco Hin Hts. destruct en as [e|]; [|reflexivity].
  rewrite end_take_sorted by exact Hts. apply flat_map_filter_drop.
  intros d Hd Hlt. eapply g_after; eauto.
Qed.

Section Channel.
  Variables (ydmd : bool) (st en : option Z) (D : list sub).
  Hypothesis Hss : strict_sorted D.
  Hypothesis Hal : all_listed D.
  Hypothesis Hco : consistent D.
  Hypothesis Hnn : nonneg D.
  Hypothesis Hw : window_wf st en.

  Let g := gwin st en.

  Theorem channel_spec :
    yield_channel fixed ydmd st en false D = (spec_channel ydmd st en false D, None).
  Proof.
    rewrite yield_channel_forward. f_equal. unfold spec_channel.
    rewrite all_files_concat by assumption.
    change (ffill_extra ydmd st en (flat_map SF D)) with (ffpre (@fst Z word) ydmd st (flat_map SF D)).
    rewrite filter_flat_map. change (fun d : sub => filter (win st en) (SF d)) with g.
    unfold chunks_of, slice. cbn [fst snd].
    destruct st as [s|].
    2:{ (* no start time: no forward fill, every chunk is the window filter *)
        cbn [start_split fst snd ffpre app rev].
        unfold mapi. rewrite (mapi_aux_const (fun d => (g d, @None err))).
        - rewrite (concat_map_fst_chunks g) by reflexivity.
          apply (sel_tail None en D); [exact Hco|auto|apply strict_tsorted; exact Hss].
        - intros j d Hd. apply chunk_nostart. apply Hal.
          destruct en as [e|]; [|exact Hd].
          rewrite end_take_sorted in Hd by (apply strict_tsorted; exact Hss). apply filter_In in Hd. tauto. }
    pose proof (start_split_facts s D Hss) as Hf. cbn zeta in Hf.
    destruct (start_split s_time D (Some s) true) as [before from] eqn:Ess. cbn [fst snd] in *.
    destruct Hf as [HD Hfrom].
    destruct from as [|d0 rest0].
    { rewrite Hfrom. unfold end_take. destruct en, ydmd; reflexivity. }
    destruct Hfrom as [Hrest Hd0].
    assert (HinD : forall d, In d (before ++ d0 :: rest0) -> In d D) by (intros d Hd; rewrite HD; exact Hd).
    assert (Hsb : strict_sorted (before ++ d0 :: rest0)) by (rewrite <- HD; exact Hss).
    assert (Hs0 : strict_sorted (d0 :: rest0)) by (eapply sorted_app_r; eauto).
    assert (Hts0 : tsorted s_time (d0 :: rest0)) by (apply strict_tsorted; exact Hs0).
    assert (Htsr : tsorted s_time rest0) by (eapply tsorted_tail; eauto).
    (* files before / after the first subdirectory of the slice *)
    assert (HP : forall x, In x (flat_map SF before) -> 0 <= fst x < s /\ forall y, In y (F d0) -> fst x < fst y).
    { intros x Hx. apply in_flat_map_SF in Hx as (p & Hp & Hx).
      assert (HpD : In p D) by (apply HinD, in_or_app; left; exact Hp).
      assert (Hd0D : In d0 D) by (apply HinD, in_or_app; right; left; reflexivity).
      assert (Hlt : s_time p < s_time d0) by (eapply sorted_app_lt; eauto; left; reflexivity).
      destruct (Hco p x HpD Hx) as [_ H2]. specialize (H2 d0 Hd0D Hlt).
      pose proof (Hnn p x HpD Hx).
      assert (s_time d0 <= s) by (destruct Hd0 as [?|Hbn]; [assumption|rewrite Hbn in Hp; contradiction]).
      split; [lia|]. intros y Hy. destruct (Hco d0 y Hd0D Hy). lia. }
    assert (HR : forall y, In y (flat_map SF rest0) -> s < fst y).
    { intros y Hy. apply in_flat_map_SF in Hy as (d & Hd & Hy).
      assert (HdD : In d D) by (apply HinD, in_or_app; right; right; exact Hd).
      destruct (Hco d y HdD Hy) as [H1 _]. specialize (Hrest d Hd). lia. }
    assert (HA : flat_map SF D = flat_map SF before ++ SF d0 ++ flat_map SF rest0).
    { rewrite HD at 1. rewrite flat_map_app. reflexivity. }
    assert (Hgb : flat_map g before = []).
    { apply flat_map_nil. intros p Hp. unfold g. apply filter_none. intros x Hx.
      assert (In x (flat_map SF before)) by (apply in_flat_map; exists p; split; assumption).
      destruct (HP x H) as [H1 _]. unfold win, in_window.
      assert (s <=? fst x = false) as -> by (apply Z.leb_gt; lia). reflexivity. }
    assert (HgD : flat_map g D = g d0 ++ flat_map g rest0).
    { rewrite HD at 1. rewrite flat_map_app, Hgb. reflexivity. }
    rewrite HA, HgD.
    (* is the first subdirectory itself within the end? *)
    assert (Hsel : end_take fixed s_time (d0 :: rest0) en = d0 :: end_take fixed s_time rest0 en
                   \/ (before = [] /\ end_take fixed s_time (d0 :: rest0) en = [] /\
                       exists e, en = Some e /\ e < s_time d0)).
    { destruct en as [e|] eqn:Een; [|left; reflexivity].
      rewrite !end_take_sorted by assumption. cbn [filter].
      destruct (s_time d0 <=? e) eqn:Ele; [left; reflexivity|right].
      apply Z.leb_gt in Ele. cbn in Hw.
      split; [destruct Hd0 as [?|?]; [lia|assumption]|]. split; [|exists e; auto].
      apply filter_none. intros d Hd. inversion Hs0 as [|? ? _ Hall]; subst.
      rewrite Forall_forall in Hall. specialize (Hall d Hd). apply Z.leb_gt. lia. }
    destruct Hsel as [Hsel | (Hb & Hsel & e & Hen & He)].
    - rewrite Hsel. rewrite mapi_first. cbn [map concat].
      rewrite (concat_map_fst_chunks g).
      2:{ intros d Hd. apply chunk_rest; [|exact Hw]. apply Hal. apply HinD, in_or_app. right. right.
          destruct en as [e|]; [|exact Hd]. rewrite end_take_sorted in Hd by exact Htsr.
          apply filter_In in Hd. tauto. }
      unfold g. rewrite (sel_tail (Some s) en D); [|exact Hco|intros d Hd; apply HinD, in_or_app; right; right; exact Hd|exact Htsr].
      rewrite (first_chunk ydmd s en before d0 (flat_map SF rest0)); auto.
      + rewrite <- app_assoc. reflexivity.
      + intros p Hp. apply Hal, HinD, in_or_app. left. exact Hp.
      + apply Hal, HinD, in_or_app. right. left. reflexivity.
    - (* nothing is selected: every file is after the end *)
      rewrite Hsel. subst before. cbn [mapi mapi_aux map concat flat_map app].
      assert (Hall : forall x, In x (SF d0 ++ flat_map SF rest0) -> e < fst x).
      { intros x Hx. apply in_app_or in Hx as [Hx|Hx].
        - apply SF_in in Hx. destruct (Hco d0 x (HinD d0 (or_introl eq_refl)) Hx). lia.
        - apply in_flat_map_SF in Hx as (d & Hd & Hx).
          destruct (Hco d x (HinD d (or_intror Hd)) Hx) as [H1 _].
          inversion Hs0 as [|? ? _ Hall]; subst. rewrite Forall_forall in Hall. specialize (Hall d Hd). lia. }
      subst en. cbn in Hw.
      assert (Hgn : g d0 ++ flat_map g rest0 = []).
      { unfold g, gwin. rewrite <- (filter_flat_map (win (Some s) (Some e)) SF rest0). rewrite <- filter_app.
        apply filter_none. intros x Hx. specialize (Hall x Hx). unfold win, in_window.
        assert (fst x <=? e = false) as -> by (apply Z.leb_gt; lia). apply andb_false_r. }
      rewrite Hgn, app_nil_r. unfold ffpre.
      rewrite (filter_none (fun x : Z * word => fst x <? s)) by (intros x Hx; specialize (Hall x Hx); apply Z.ltb_ge; lia).
      destruct (ydmd && _); reflexivity.
  Qed.
End Channel.

(* ------------------------------------------------------------------ what the Spec says, read off *)
Definition dle (a b : dec) : Prop := dec_leb a b = true.

Lemma all_files_in D x : In x (all_files D) <-> exists d, In d D /\ In x (F d).
Proof.
  unfold all_files. rewrite isort_in, in_flat_map. split; intros (d & Hd & Hx); exists d; auto.
Qed.

Lemma lastl_in {A} (l : list A) x : In x (lastl l) -> In x l.
Proof.
  unfold lastl. destruct (rev l) as [|y r] eqn:E; [intros []|]. intros [<-|[]].
  apply in_rev. rewrite E. left. reflexivity.
Qed.

Lemma ffill_extra_in ydmd st en A x : In x (ffill_extra ydmd st en A) ->
  ydmd = true /\ exists s, st = Some s /\ In x A /\ fst x < s /\ (forall y, In y A -> fst y <> s).
Proof.
  unfold ffill_extra. destruct st as [s|]; [|intros []].
  destruct ydmd; [|intros []]. cbn [andb].
  destruct (existsb (fun x0 : Z * word => fst x0 =? s) A) eqn:E; [intros []|]. cbn [negb].
  intro Hx. change (In x (lastl (filter (fun x0 : Z * word => fst x0 <? s) A))) in Hx.
  apply lastl_in, filter_In in Hx as [Hx Hlt]. apply Z.ltb_lt in Hlt.
  split; [reflexivity|]. exists s. repeat split; auto.
  intros y Hy. pose proof (existsb_false_inv _ _ E y Hy) as H. apply Z.eqb_neq in H. exact H.
Qed.

(* at most one extra file, and it is the latest before the start *)
Lemma ffill_extra_latest ydmd st en A x : StronglySorted dle A -> In x (ffill_extra ydmd st en A) ->
  forall y s, st = Some s -> In y A -> fst y < s -> dle y x.
Proof.
  intros Hs Hx y s Hst Hy Hlt. subst st. unfold ffill_extra in Hx.
  destruct (ydmd && _); [|contradiction].
  set (L := filter (fun x0 : Z * word => fst x0 <? s) A) in *.
  assert (HyL : In y L) by (apply filter_In; split; [exact Hy|apply Z.ltb_lt; exact Hlt]).
  assert (HsL : StronglySorted dle L).
  { clear -Hs. unfold L. induction Hs; cbn; [constructor|]. destruct (fst a <? s); auto.
    constructor; auto. rewrite Forall_forall in *. intros z Hz. apply filter_In in Hz. apply H. tauto. }
  destruct (rev L) as [|z r] eqn:E; [contradiction|]. destruct Hx as [<-|[]].
  assert (HL : L = rev r ++ [z]) by (rewrite <- (rev_involutive L), E; reflexivity).
  rewrite HL in HyL, HsL. apply in_app_or in HyL as [HyL|[<-|[]]]; [|apply dec_leb_refl].
  clear -HsL HyL. induction (rev r) as [|a l IH]; [contradiction|].
  cbn in HsL. apply StronglySorted_inv in HsL as [HsL Hall]. destruct HyL as [<-|HyL]; [|auto].
  rewrite Forall_forall in Hall. apply Hall. apply in_or_app. right. left. reflexivity.
Qed.

Lemma ffill_extra_length ydmd st en A : (length (ffill_extra ydmd st en A) <= 1)%nat.
Proof.
  unfold ffill_extra. destruct st; [|cbn; lia]. destruct (ydmd && _); [|cbn; lia].
  destruct (rev _); cbn; lia.
Qed.

Lemma spec_channel_in ydmd st en D x :
  In x (spec_channel ydmd st en false D) <->
  In x (ffill_extra ydmd st en (all_files D)) \/ ((exists d, In d D /\ In x (F d)) /\ win st en x = true).
Proof.
  unfold spec_channel. rewrite in_app_iff, filter_In, all_files_in. reflexivity.
Qed.

Lemma sorted_filter_dle p (l : list dec) : StronglySorted dle l -> StronglySorted dle (filter p l).
Proof.
  induction 1; cbn; [constructor|]. destruct (p a); auto. constructor; auto.
  rewrite Forall_forall in *. intros z Hz. apply filter_In in Hz. apply H0. tauto.
Qed.

Lemma spec_channel_sorted ydmd st en D : StronglySorted dle (spec_channel ydmd st en false D).
Proof.
  unfold spec_channel.
  assert (HA : StronglySorted dle (all_files D)) by apply (isort_sorted dec_leb dec_leb_total dec_leb_trans).
  pose proof (sorted_filter_dle (win st en) _ HA) as HW.
  pose proof (ffill_extra_length ydmd st en (all_files D)) as Hlen.
  destruct (ffill_extra ydmd st en (all_files D)) as [|x [|y r]] eqn:E; [exact HW| |cbn in Hlen; lia].
  cbn. constructor; [exact HW|]. apply Forall_forall. intros z Hz. apply filter_In in Hz as [_ Hz].
  assert (Hx : In x (ffill_extra ydmd st en (all_files D))) by (rewrite E; left; reflexivity).
  apply ffill_extra_in in Hx as (_ & s & -> & _ & Hlt & _).
  unfold win, in_window in Hz. apply andb_true_iff in Hz as [Hz _]. apply Z.leb_le in Hz.
  apply time_lt_dec_leb. lia.
Qed.

Lemma spec_channel_nodup ydmd st en D : NoDup (flat_map F D) -> NoDup (spec_channel ydmd st en false D).
Proof.
  intro Hn. unfold spec_channel.
  assert (HA : NoDup (all_files D)) by (apply isort_nodup; exact Hn).
  pose proof (NoDup_filter (win st en) HA) as HW.
  pose proof (ffill_extra_length ydmd st en (all_files D)) as Hlen.
  destruct (ffill_extra ydmd st en (all_files D)) as [|x [|y r]] eqn:E; [exact HW| |cbn in Hlen; lia].
  cbn. constructor; [|exact HW]. intro Hz. apply filter_In in Hz as [_ Hz].
  assert (Hx : In x (ffill_extra ydmd st en (all_files D))) by (rewrite E; left; reflexivity).
  apply ffill_extra_in in Hx as (_ & s & -> & _ & Hlt & _).
  unfold win, in_window in Hz. apply andb_true_iff in Hz as [Hz _]. apply Z.leb_le in Hz. lia.
Qed.

(* ------------------------------------------------------------------ soundness for EVERY variant *)
Lemma span_fst_in {A} (p : A -> bool) l x : In x (fst (span p l)) -> In x l.
Proof.
  revert x. induction l as [|y l IH]; intros x H; cbn in *; [contradiction|].
  destruct (p y); cbn in H; [|contradiction]. destruct H as [<-|H]; auto.
Qed.

Lemma span_snd_in {A} (p : A -> bool) l x : In x (snd (span p l)) -> In x l.
Proof.
  revert x. induction l as [|y l IH]; intros x H; cbn in *; [contradiction|].
  destruct (p y); cbn in H; auto.
Qed.

Lemma end_take_in {A} v (time : A -> Z) l en x : In x (end_take v time l en) -> In x l.
Proof.
  unfold end_take. destruct en as [e|]; [|auto]. intro H. apply in_app_or in H as [H|H].
  - eapply span_fst_in; eauto.
  - destruct (v_end_all v).
    + eapply span_snd_in, span_fst_in; eauto.
    + destruct (snd (span _ l)) as [|y r] eqn:E; [contradiction|].
      destruct (time y =? e); [|contradiction]. destruct H as [<-|[]].
      eapply span_snd_in. rewrite E. left. reflexivity.
Qed.

Lemma start_split_in {A} (time : A -> Z) l st ff x :
  In x (fst (start_split time l st ff)) \/ In x (snd (start_split time l st ff)) -> In x l.
Proof.
  unfold start_split. destruct st as [s|]; [|cbn; intros [[]|H]; exact H].
  pose proof (span_app (fun y => time y <? s) l) as Happ.
  destruct (ff && _).
  - destruct (rev (fst (span _ l))) as [|y rlo] eqn:E; cbn [fst snd].
    + intros [[]|H]. eapply span_snd_in; eauto.
    + pose proof (rev_cons_inv _ _ _ E) as Hlo. intros [H|[<-|H]].
      * eapply span_fst_in. rewrite Hlo. apply in_or_app. left. exact H.
      * eapply span_fst_in. rewrite Hlo. apply in_or_app. right. left. reflexivity.
      * eapply span_snd_in; eauto.
  - intros [H|H]; [eapply span_fst_in|eapply span_snd_in]; eauto.
Qed.

Lemma slice_in {A} v (time : A -> Z) l st en ff x :
  In x (fst (slice v time l st en ff)) \/ In x (snd (slice v time l st en ff)) -> In x l.
Proof.
  unfold slice. cbn [fst snd]. intros [H|H]; apply (start_split_in time l st ff); [left; exact H|right].
  eapply end_take_in; eauto.
Qed.

Lemma lookback_in v prior pf : fst (lookback v prior) = Some pf -> exists p, In p prior /\ s_files p = Some pf.
Proof.
  induction prior as [|p rest IH]; cbn; [discriminate|].
  destruct (s_files p) as [[|x l]|] eqn:E.
  - intro H. destruct (IH H) as (q & Hq & Hs). exists q. auto.
  - cbn. intro H. inversion H; subst. exists p. auto.
  - destruct (v_guard_lookback v); [|discriminate]. intro H. destruct (IH H) as (q & Hq & Hs). exists q. auto.
Qed.

Lemma chunk_in v ydmd st en prior first d x : In x (fst (chunk v ydmd st en prior first d)) ->
  In x (F d) \/ exists p, In p prior /\ In x (F p).
Proof.
  unfold chunk, F. destruct (s_files d) as [files|]; [|intros []].
  assert (Hgo : forall dfs, In x (snd (slice v fst dfs st en (first && ydmd))) -> In x dfs).
  { intros dfs H. eapply slice_in. right. exact H. }
  assert (Hbase : In x (isort dec_leb files) -> In x files) by apply isort_in.
  assert (Hlb : forall pf, fst (lookback v prior) = Some pf ->
            In x (snd (slice v fst (isort dec_leb (pf ++ isort dec_leb files)) st en (first && ydmd))) ->
            In x files \/ exists p, In p prior /\ In x match s_files p with Some fs => fs | None => [] end).
  { intros pf Hpf H. apply Hgo, isort_in, in_app_or in H as [H|H]; [right|left; auto].
    apply lookback_in in Hpf as (p & Hp & Hs). exists p. rewrite Hs. auto. }
  destruct (first && ydmd && _ && truthy st); [|intro H; left; auto].
  destruct (isort dec_leb files) as [|y dfs] eqn:Ed.
  - destruct (v_guard_empty v); [|intros []].
    destruct (lookback v prior) as [[pf|] [e|]] eqn:El; cbn [fst]; try (intros []).
    + intro H. apply (Hlb pf eq_refl). exact H.
    + intro H. apply Hgo in H. contradiction.
  - destruct st as [s|]; [|intro H; left; apply Hbase, Hgo; exact H].
    destruct (fst y >? s); [|intro H; left; apply Hbase, Hgo; exact H].
    destruct (lookback v prior) as [[pf|] [e|]] eqn:El; cbn [fst]; try (intros []).
    + intro H. apply (Hlb pf eq_refl). exact H.
    + intro H. left. apply Hbase, Hgo. exact H.
Qed.

Lemma seq_chunks_in {A} (cs : list (list A * option err)) x :
  In x (fst (seq_chunks cs)) -> exists c, In c cs /\ In x (fst c).
Proof.
  induction cs as [|[out e] cs IH]; cbn; [intros []|].
  destruct e as [e|]; cbn.
  - intro H. exists (out, Some e). auto.
  - intro H. apply in_app_or in H as [H|H]; [exists (out, None); auto|].
    destruct (IH H) as (c & Hc & Hx). exists c. auto.
Qed.

Lemma mapi_aux_in2 {A B} (f : nat -> A -> B) : forall l i y, In y (mapi_aux f i l) -> exists j x, In x l /\ y = f j x.
Proof.
  induction l as [|x l IH]; intros i y H; cbn in H; [contradiction|].
  destruct H as [<-|H]; [exists i, x; split; [left; reflexivity|reflexivity]|].
  destruct (IH _ _ H) as (j & z & Hz & ->). exists j, z. split; [right; exact Hz|reflexivity].
Qed.

(* whatever the variant and the direction: only files of the channel's timestamped subdirectories *)
Theorem yield_channel_subset v ydmd st en reverse D x :
  In x (fst (yield_channel v ydmd st en reverse D)) -> exists d, In d D /\ In x (F d).
Proof.
  unfold yield_channel.
  set (b := slice v s_time D st en true).
  assert (Hsel : forall d, In d (snd b) -> In d D) by (intros d Hd; eapply slice_in; right; exact Hd).
  assert (Hpri : forall d, In d (rev (fst b)) -> In d D) by (intros d Hd; apply in_rev in Hd; eapply slice_in; left; exact Hd).
  assert (Hchunks : forall c, In c (mapi (fun i d => chunk v ydmd st en (rev (fst b))
                      (if v_chrono v || negb reverse then Nat.eqb i 0 else Nat.eqb i (length (snd b) - 1)) d) (snd b)) ->
                    forall y, In y (fst c) -> exists d, In d D /\ In y (F d)).
  { intros c Hc y Hy. unfold mapi in Hc. apply mapi_aux_in2 in Hc as (j & d & Hd & ->).
    apply chunk_in in Hy as [Hy|(p & Hp & Hy)]; [exists d|exists p]; auto. }
  destruct reverse.
  - intro H. apply seq_chunks_in in H as (c & Hc & Hx).
    apply in_map_iff in Hc as (c0 & <- & Hc0). cbn in Hx. apply in_rev in Hc0. apply in_rev in Hx.
    eapply Hchunks; eauto.
  - intro H. apply seq_chunks_in in H as (c & Hc & Hx). eapply Hchunks; eauto.
Qed.

(* ------------------------------------------------------------------ a concrete channel: the hypotheses are satisfiable,
   and the code before the repairs (variant legacy) breaks the statements on it *)
Definition exD : list sub :=
  [ mkSub 0 (W "A") (Some [(12, W "A/x12"); (20, W "A/x20")]);
    mkSub 100 (W "B") (Some [(112, W "B/x112"); (120, W "B/x120")]);
    mkSub 200 (W "C") (Some [(212, W "C/x212"); (220, W "C/x220")]) ].

Lemma exD_strict : strict_sorted exD.
Proof. unfold strict_sorted, exD. repeat (constructor; cbn; try lia). Qed.

Lemma exD_listed : all_listed exD.
Proof. intros d [<-|[<-|[<-|[]]]]; discriminate. Qed.

Lemma exD_consistent : consistent exD.
Proof.
  intros d x Hd Hx. destruct Hd as [<-|[<-|[<-|[]]]]; cbn in Hx;
    destruct Hx as [<-|[<-|[]]]; (split; [cbn; lia|]);
    intros d' [<-|[<-|[<-|[]]]]; cbn; lia.
Qed.

Lemma exD_nonneg : nonneg exD.
Proof.
  intros d x Hd Hx. destruct Hd as [<-|[<-|[<-|[]]]]; cbn in Hx; destruct Hx as [<-|[<-|[]]]; cbn; lia.
Qed.

Example exD_listing :
  yield_channel fixed true (Some 113) (Some 215) false exD
  = ([(112, W "B/x112"); (120, W "B/x120"); (212, W "C/x212")], None)
  /\ yield_channel fixed true (Some 205) None true exD
  = ([(220, W "C/x220"); (212, W "C/x212"); (120, W "B/x120")], None).
Proof. split; vm_compute; reflexivity. Qed.

(* before the repair: reversing changed the set and the order *)
Lemma legacy_reverse_refuted :
  fst (yield_channel legacy true (Some 113) None true exD)
  <> rev (fst (yield_channel legacy true (Some 113) None false exD)).
Proof. vm_compute. discriminate. Qed.

Definition exD_empty_middle : list sub :=
  [ mkSub 0 (W "A") (Some [(12, W "A/x12")]); mkSub 100 (W "B") (Some []); mkSub 200 (W "C") (Some [(212, W "C/x212")]) ].
Definition exD_gone_middle : list sub :=
  [ mkSub 0 (W "A") (Some [(12, W "A/x12")]); mkSub 100 (W "B") None; mkSub 200 (W "C") (Some [(212, W "C/x212")]) ].

Lemma legacy_indexerror_refuted :
  snd (yield_channel legacy true (Some 150) None false exD_empty_middle) = Some IndexError.
Proof. vm_compute. reflexivity. Qed.

Lemma legacy_oserror_refuted :
  snd (yield_channel legacy true (Some 205) None false exD_gone_middle) = Some OSErrorE.
Proof. vm_compute. reflexivity. Qed.

Lemma fixed_on_the_same_inputs :
  yield_channel fixed true (Some 150) None false exD_empty_middle = ([(12, W "A/x12"); (212, W "C/x212")], None) /\
  yield_channel fixed true (Some 205) None false exD_gone_middle = ([(12, W "A/x12"); (212, W "C/x212")], None).
Proof. split; vm_compute; reflexivity. Qed.

Definition exD_dups : list sub := [ mkSub 0 (W "A") (Some [(5, W "A/a"); (5, W "A/b"); (7, W "A/c")]) ].

Lemma legacy_endtime_refuted :
  ~ In (5, W "A/b") (fst (yield_channel legacy false None (Some 5) false exD_dups)) /\
  In (5, W "A/b") (fst (yield_channel fixed false None (Some 5) false exD_dups)).
Proof. split; vm_compute; [intros [H|[]]; discriminate|auto]. Qed.

(* ------------------------------------------------------------------ the statements of the property, for the repaired code *)
Section Statements.
  Variables (ydmd : bool) (st en : option Z) (D : list sub).
  Hypothesis Hss : strict_sorted D.
  Hypothesis Hal : all_listed D.
  Hypothesis Hco : consistent D.
  Hypothesis Hnn : nonneg D.
  Hypothesis Hw : window_wf st en.

  Let fwd := fst (yield_channel fixed ydmd st en false D).

  Lemma fwd_spec : fwd = spec_channel ydmd st en false D.
  Proof. unfold fwd. rewrite channel_spec by assumption. reflexivity. Qed.

  (* sound + complete + window-exact + forward-fill, as one equivalence *)
  Theorem listing_in x :
    In x fwd <->
    In x (ffill_extra ydmd st en (all_files D)) \/ ((exists d, In d D /\ In x (F d)) /\ win st en x = true).
  Proof. rewrite fwd_spec. apply spec_channel_in. Qed.

  Theorem listing_nodup reverse : NoDup (flat_map F D) -> NoDup (fst (yield_channel fixed ydmd st en reverse D)).
  Proof.
    intro Hn. destruct reverse.
    - rewrite reverse_is_rev. cbn [fst]. apply NoDup_rev. fold fwd. rewrite fwd_spec. apply spec_channel_nodup. exact Hn.
    - fold fwd. rewrite fwd_spec. apply spec_channel_nodup. exact Hn.
  Qed.

  Theorem listing_sorted : StronglySorted dle fwd.
  Proof. rewrite fwd_spec. apply spec_channel_sorted. Qed.
End Statements.
