(* Digital Metadata file placement (C13, used by C12/C20).
   Hand model of python/digital_rf/digital_metadata.py:
     writer  DigitalMetadataWriter._sample_group_generator  (groupby key, file_ts, start_sub_ts, names)
     reader  DigitalMetadataReader._get_file_list           (start_ts/end_ts, subdirectory loop,
                                                             np.arange candidates, validity mask)
   The arithmetic site is a parameter (DESIGN 2.6): [Exact] is the integer arithmetic of the
   current code ((k*d // n) // cadence), [LongDouble] is the np.longdouble arithmetic the code used
   before the fix (np.uint64(s / (cadence * sps)), np.uint64(sample / sps)), [U64Wrap] is the same
   integer formula evaluated in numpy uint64 (the product k*d wraps modulo 2^64: what happens when the
   index is not converted to a Python int first).  The current code uses Python integers, which are
   unbounded, so [Exact] over Z assumes no bound on k*d.  Which one /repo implements is decided by
   the correspondence on every run. *)
From Coq Require Import ZArith List Bool String.
From DRF Require Import Base.DivLemmas Base.Dec Base.Civil Model.Ld80.
Import ListNotations.
Local Open Scope Z_scope.

(* static channel parameters: rate numerator / denominator, file cadence, subdirectory cadence *)
Record cfg := mkCfg { rn : Z; rd : Z; fc : Z; sc : Z }.

Inductive arith := Exact | LongDouble | U64Wrap.

Definition ld_sps (c : cfg) : ld := ld_div (ld_of_Z (rn c)) (ld_of_Z (rd c)).

(* ---- writer ---- *)
(* key of itertools.groupby(samples, ...) *)
Definition w_file_idx (a : arith) (c : cfg) (k : Z) : Z :=
  match a with
  | Exact => (k * rd c / rn c) / fc c
  | LongDouble => ld_trunc (ld_div (ld_of_Z k) (ld_mul (ld_of_Z (fc c)) (ld_sps c)))
  | U64Wrap => (((k * rd c) mod 18446744073709551616) / rn c) / fc c
  end.
(* file_ts = file_idx * file_cadence_secs *)
Definition w_file_ts (a : arith) (c : cfg) (k : Z) : Z := w_file_idx a c k * fc c.
(* start_sub_ts = (file_ts // subdir_cadence_secs) * subdir_cadence_secs *)
Definition sub_of (c : cfg) (ts : Z) : Z := (ts / sc c) * sc c.
Definition w_path (a : arith) (c : cfg) (k : Z) : Z * Z :=
  (sub_of c (w_file_ts a c k), w_file_ts a c k).

(* ---- reader ---- *)
(* start_ts = sample*d // n  (was int(np.uint64(np.uint64(sample) / sps))) *)
Definition r_sec (a : arith) (c : cfg) (k : Z) : Z :=
  match a with
  | Exact => k * rd c / rn c
  | LongDouble => ld_trunc (ld_div (ld_of_Z k) (ld_sps c))
  | U64Wrap => ((k * rd c) mod 18446744073709551616) / rn c
  end.
(* (ts // file_cadence_secs) * file_cadence_secs *)
Definition r_ts (a : arith) (c : cfg) (k : Z) : Z := (r_sec a c k / fc c) * fc c.

(* Python range(lo, hi, step) / np.arange(lo, hi, step) for step > 0 *)
Definition nsteps (lo hi step : Z) : nat := Z.to_nat (cdiv (hi - lo) step).
Fixpoint zrange_from (x step : Z) (cnt : nat) : list Z :=
  match cnt with O => [] | S cnt' => x :: zrange_from (x + step) step cnt' end.
Definition pyrange (lo hi step : Z) : list Z := zrange_from lo step (nsteps lo hi step).

(* candidate (subdirectory ts, file ts) pairs, in the order _get_file_list generates them,
   before the os.access existence test *)
Definition candidates (a : arith) (c : cfg) (s0 s1 : Z) : list (Z * Z) :=
  let start_ts := r_ts a c s0 in
  let end_ts := r_ts a c s1 in
  let start_sub := sub_of c start_ts in
  let end_sub := sub_of c end_ts in
  flat_map (fun sub =>
      map (fun ts => (sub, ts))
          (filter (fun ts => (start_ts <=? ts + fc c - 1) && (ts <=? end_ts))
                  (pyrange sub (sub + sc c) (fc c))))
    (pyrange start_sub (end_sub + sc c) (sc c)).

(* ---- names ---- *)
(* strftime("%Y-%m-%dT%H-%M-%S") of the UTC datetime of sub *)
Definition subdir_name (sub : Z) : string :=
  let '(y, mo, dd, hh, mi, ss) := time_parts sub in
  snprintf "%04i-%02i-%02iT%02i-%02i-%02i" [y; mo; dd; hh; mi; ss].
(* "%s@%i.h5" % (file_name, file_ts) *)
Definition file_basename (prefix : string) (ts : Z) : string :=
  append prefix (append "@" (append (dec ts) ".h5")).
