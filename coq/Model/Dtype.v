(* Element types: how the Python front end describes a numpy dtype to the extension, and what
   HDF5's predefined types mean.  The decision table itself (get_hdf5_data_type) is regenerated from
   the extension's source on every run (Gen/DtypeTable.v, translator T4).  Definitions only. *)
From Coq Require Import ZArith List Bool String.
From DRF Require Import Model.FillValue.
Import ListNotations.
Local Open Scope Z_scope.

(* a numpy scalar dtype the writer accepts for the components: kind, item size, big-endian? *)
Record npdt := mkNp { nk : kind; nsz : Z; nbe : bool }.

(* DigitalRFWriter.__init__ on a little-endian host: realdtype.byteorder is '|' for one-byte types,
   '>' for big-endian ones, '=' (resolved to '<') or '<' otherwise; realdtype.kind; realdtype.itemsize *)
Definition byteorder_char (d : npdt) : Z := if nsz d =? 1 then 124 else if nbe d then 62 else 60.
Definition kind_char (d : npdt) : Z := match nk d with KI => 105 | KU => 117 | KF => 102 end.

Definition all_npdt : list npdt :=
  flat_map (fun ks => map (fun be => mkNp (fst ks) (snd ks) be) [false; true])
    [(KI, 1); (KI, 2); (KI, 4); (KI, 8); (KU, 1); (KU, 2); (KU, 4); (KU, 8); (KF, 4); (KF, 8)].

(* HDF5's predefined types (H5Tpublic.h): class/sign, size in bytes, big-endian? *)
Definition h5_predef (name : string) : option (kind * Z * bool) :=
  let tbl := [("IEEE_F32LE", (KF, 4, false)); ("IEEE_F32BE", (KF, 4, true));
              ("IEEE_F64LE", (KF, 8, false)); ("IEEE_F64BE", (KF, 8, true));
              ("STD_I8LE", (KI, 1, false)); ("STD_I8BE", (KI, 1, true));
              ("STD_I16LE", (KI, 2, false)); ("STD_I16BE", (KI, 2, true));
              ("STD_I32LE", (KI, 4, false)); ("STD_I32BE", (KI, 4, true));
              ("STD_I64LE", (KI, 8, false)); ("STD_I64BE", (KI, 8, true));
              ("STD_U8LE", (KU, 1, false)); ("STD_U8BE", (KU, 1, true));
              ("STD_U16LE", (KU, 2, false)); ("STD_U16BE", (KU, 2, true));
              ("STD_U32LE", (KU, 4, false)); ("STD_U32BE", (KU, 4, true));
              ("STD_U64LE", (KU, 8, false)); ("STD_U64BE", (KU, 8, true))]%string in
  match find (fun e => String.eqb (fst e) name) tbl with Some e => Some (snd e) | None => None end.

Definition kind_eqb (a b : kind) : bool :=
  match a, b with KI, KI | KU, KU | KF, KF => true | _, _ => false end.

(* the stored type is the requested one: same class and signedness, same size, and -- for types of
   more than one byte -- the same byte order *)
Definition faithful (d : npdt) (h : kind * Z * bool) : bool :=
  let '(k, sz, be) := h in
  kind_eqb k (nk d) && (sz =? nsz d) && ((nsz d =? 1) || Bool.eqb be (nbe d)).
