(* Vocabulary of the regenerated DigitalRFMirrorHandler.mirror_to_dest (T20, Gen/MirrorDestGen.v): the outcomes of the
   primitives the method calls, and the file-system actions it attempts.  Executable definitions only. *)
From Coq Require Import List Bool.
Import ListNotations.

(* what the primitives answer for one call of mirror_to_dest(src_path) *)
Record mprims := mkPr {
  p_dest_dir_exists : bool;     (* os.path.exists(dest_dir) *)
  p_makedirs_ok : bool;         (* os.makedirs(dest_dir) returns (false: raises OSError) *)
  p_dest_exists : bool;         (* os.path.exists(dest_path) *)
  p_cmp : option bool;          (* filecmp.cmp(src_path, dest_path); None: raises OSError (a file vanished) *)
  p_stage_ok : bool;            (* self.mirror_fun(src_path, tmp_dest_path) returns *)
  p_rename_ok : bool;           (* os.rename(tmp_dest_path, dest_path) returns *)
  p_src_isfile : bool }.        (* os.path.isfile(src_path), asked by the OSError handler *)

(* attempted actions, in order; the flag says whether the call returned *)
Inductive mact :=
| AMakedirs (ok : bool)         (* the destination directory *)
| AStage (ok : bool)            (* mirror_fun: copy / link / move the source to tmp.<name> in the destination directory *)
| APublish (ok : bool)          (* rename tmp.<name> -> <name> *)
| AReport                       (* traceback.print_exc() *)
| ARmdirSrc.                    (* os.rmdir(source directory), failure ignored *)

(* Python's not / or / and over conditions that may raise *)
Definition c_not (a : option bool) : option bool := option_map negb a.
Definition c_or (a b : option bool) : option bool :=
  match a with None => None | Some true => Some true | Some false => b end.
Definition c_and (a b : option bool) : option bool :=
  match a with None => None | Some false => Some false | Some true => b end.

Definition pcons (a : mact) (r : list mact * bool) : list mact * bool := (a :: fst r, snd r).
(* a block that ran to its end is followed by the continuation; one that raised ends the try body *)
Definition bind_acts (b k : list mact * bool) : list mact * bool :=
  if snd b then (fst b ++ fst k, snd k) else b.
