(* Hand model of digital_rf_get_time_parts (c/lib/rf_write_hdf5.c:744-766): gmtime() and the
   +1900 / +1 adjustments.  gmtime fails only for years that overflow int, outside the domain. *)
From Coq Require Import ZArith.
From DRF Require Import Base.Civil.
Local Open Scope Z_scope.

Definition digital_rf_get_time_parts (unix_second : Z) : Z * Z * Z * Z * Z * Z * Z :=
  let '(y, m, d, hh, mm, ss) := time_parts unix_second in (0, y, m, d, hh, mm, ss).
