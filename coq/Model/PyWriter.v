(* Hand model of the Python writer front end:
     DigitalRFWriter.rf_write / rf_write_blocks / close (python/digital_rf/digital_rf_hdf5.py 430-684)
     and the extension's rf_write / rf_block_write (python/lib/py_rf_write_hdf5.c 156-305),
   on top of Model/WriterCore.v.  Result classes: 0 ok, 1 ValueError, 2 RuntimeError, 3 IOError. *)
From Coq Require Import ZArith List Bool.
From DRF Require Import Model.IndexCalc Model.WriterCore.
Import ListNotations.
Local Open Scope Z_scope.

(* how rf_write accounts the gap: from the requested index (the code before the fix) or from
   the cursor the C library reports (as rf_write_blocks does) *)
Inductive gap_rule := FromRequest | FromCursor.

Record pystate := mkPy {
  p_next : Z;        (* _next_avail_sample *)
  p_written : Z;     (* _total_samples_written *)
  p_gap : Z;         (* _total_gap_samples *)
  p_closed : bool;
  p_w : wstate
}.

Definition py_init : pystate := mkPy 0 0 0 false init_state.

Definition OK := 0. Definition ValueError := 1. Definition RuntimeError := 2. Definition IOError := 3.

(* rf_write(arr, next_sample): returns (class, returned value) *)
Definition py_rf_write (gr : gap_rule) (c : cfg) (ps : pystate) (ns : option Z) (vec : list Z)
  : (Z * Z) * pystate :=
  let ns' := match ns with Some x => x | None => p_next ps end in
  if ns' <? p_next ps then ((ValueError, 0), ps)
  else if p_closed ps then ((IOError, 0), ps)
  else
    let '(rc, w') := write_one c (p_w ps) ns' vec in
    if negb (rc =? 0) then ((RuntimeError, 0), mkPy (p_next ps) (p_written ps) (p_gap ps) false w')
    else
      let nw := Z.of_nat (length vec) in
      let gap := match gr with
                 | FromRequest => ns' - p_next ps
                 | FromCursor => (w_gi w' - p_next ps) - nw
                 end in
      ((OK, w_gi w'), mkPy (w_gi w') (p_written ps + nw) (p_gap ps + gap) false w').

Fixpoint diffs (l : list Z) : list Z :=
  match l with a :: ((b :: _) as tl) => (b - a) :: diffs tl | _ => [] end.

Fixpoint any2 (f : Z -> Z -> bool) (a b : list Z) : bool :=
  match a, b with x :: a', y :: b' => f x y || any2 f a' b' | _, _ => false end.

(* the extension's per-block split in continuous mode *)
Fixpoint split_blocks (c : cfg) (w : wstate) (G D : list Z) (vec : list Z) (vlen : Z) : Z * wstate :=
  match G, D with
  | g :: G', dx :: D' =>
    let nxt := match D' with d' :: _ => d' | [] => vlen end in
    let blk := slice vec dx (nxt - dx) in
    let '(rc, w') := write_one c w g blk in
    if negb (rc =? 0) then (rc, w') else split_blocks c w' G' D' vec vlen
  | _, _ => (0, w)
  end.

Definition py_rf_write_blocks (c : cfg) (ps : pystate) (G D : list Z) (vec : list Z)
  : (Z * Z) * pystate :=
  let vlen := Z.of_nat (length vec) in
  match G, D with
  | g0 :: _, d0 :: _ =>
    if g0 <? p_next ps then ((ValueError, 1), ps)
    else if negb (d0 =? 0) then ((ValueError, 2), ps)
    else if negb (Nat.eqb (length G) (length D)) then ((ValueError, 3), ps)
    else if existsb (fun x => x <? 1) (diffs D) then ((ValueError, 4), ps)
    else if existsb (fun x => x <? 1) (diffs G) then ((ValueError, 5), ps)
    else if last D 0 >=? vlen then ((ValueError, 6), ps)
    else if any2 Z.gtb (diffs D) (diffs G) then ((ValueError, 7), ps)
    else if p_closed ps then ((IOError, 0), ps)
    else
      let '(rc, w') :=
        if c_cont c && (1 <? Z.of_nat (length G)) then split_blocks c (p_w ps) G D vec vlen
        else write_blocks c (p_w ps) (combine G D) vec in
      if negb (rc =? 0) then ((RuntimeError, 0), mkPy (p_next ps) (p_written ps) (p_gap ps) false w')
      else
        let gap := (w_gi w' - p_next ps) - vlen in
        ((OK, w_gi w'), mkPy (w_gi w') (p_written ps + vlen) (p_gap ps + gap) false w')
  | _, _ => ((ValueError, 0), ps)     (* empty arrays: IndexError in numpy; outside the claim *)
  end.

Definition py_close (ps : pystate) : pystate :=
  if p_closed ps then ps
  else mkPy (p_next ps) (p_written ps) (p_gap ps) true (close_writer (p_w ps)).
