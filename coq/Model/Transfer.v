(* C18 -- model of `drf cp / mv / ln` (list_drf._run_cp, _run_ln, _run_mv): the loop
     for srcpath in ilsdrf(src, **kwargs):
         destpath = join(dest, relpath(srcpath, src)); makedirs(dirname(destpath)) if missing
         copy2 | link | symlink | move (srcpath, destpath)
   as a transfer between two abstract file stores driven by the listing of the source.
   A store maps a relative path to a content identity; directories are implied by the paths.
   Executable definitions only. *)
From Coq Require Import ZArith List Bool.
From DRF Require Import Base.Regex Model.PathSpec Model.Listing.
Import ListNotations.
Local Open Scope Z_scope.

Definition store := list (word * Z).

Fixpoint lookup (p : word) (s : store) : option Z :=
  match s with
  | [] => None
  | (q, c) :: s' => if word_eqb p q then Some c else lookup p s'
  end.

Fixpoint remove (p : word) (s : store) : store :=
  match s with
  | [] => []
  | (q, c) :: s' => if word_eqb p q then remove p s' else (q, c) :: remove p s'
  end.

Definition put (p : word) (c : Z) (s : store) : store := (p, c) :: remove p s.

Inductive op := Cp | Mv | LnHard | LnSym.

Inductive terr :=
| FileExists            (* os.link / os.symlink onto an existing destination *)
| NoSuchFile            (* the listed source path is not there *)
| ListingError (e : err).

Definition is_ln (o : op) : bool := match o with LnHard | LnSym => true | _ => false end.

(* one iteration of the loop *)
Definition step (o : op) (p : word) (st : store * store) : (store * store) * option terr :=
  let '(src, dst) := st in
  match lookup p src with
  | None => (st, Some NoSuchFile)
  | Some c =>
    match o with
    | Cp => ((src, put p c dst), None)                 (* shutil.copy2 overwrites *)
    | Mv => ((remove p src, put p c dst), None)        (* shutil.move: rename, overwrites a file *)
    | LnHard | LnSym =>
      match lookup p dst with
      | Some _ => (st, Some FileExists)
      | None => ((src, put p c dst), None)             (* a link: the same content *)
      end
    end
  end.

Fixpoint run_steps (o : op) (listed : list word) (st : store * store) : (store * store) * option terr :=
  match listed with
  | [] => (st, None)
  | p :: rest =>
    match step o p st with
    | (st', Some e) => (st', Some e)
    | (st', None) => run_steps o rest st'
    end
  end.

(* the command for one (src, dest) pair: the listing is the one of Model/Listing.v on the source
   tree; an exception of the listing ends the loop after what was yielded before it *)
Definition transfer (o : op) (listing : list word * option err) (src dst : store)
    : (store * store) * option terr :=
  match run_steps o (fst listing) (src, dst) with
  | (st', Some e) => (st', Some e)
  | (st', None) => (st', match snd listing with Some e => Some (ListingError e) | None => None end)
  end.

(* ---- the source as a tree with contents: what the listing walks and what the loop reads *)
Inductive cnode :=
| CFile (c : Z)
| CDir (entries : list (word * cnode))
| CGone.

Fixpoint erase (t : cnode) : node :=
  match t with
  | CFile _ => File
  | CGone => Gone
  | CDir es => Dir ((fix go (l : list (word * cnode)) : list (word * node) :=
                       match l with [] => [] | (nm, c) :: l' => (nm, erase c) :: go l' end) es)
  end.

Fixpoint store_of (t : cnode) : store :=
  match t with
  | CFile _ | CGone => []
  | CDir es =>
    (fix go (l : list (word * cnode)) : store :=
       match l with
       | [] => []
       | (nm, CFile c) :: l' => (nm, c) :: go l'
       | (nm, sub) :: l' => map (fun pc : word * Z => (join2 nm (fst pc), snd pc)) (store_of sub) ++ go l'
       end) es
  end.

(* `drf cp|mv|ln src dest` for one (src, dest) pair *)
Definition drf_transfer (o : op) (v : variant) (lo : opts) (src : cnode) (dst : store)
    : (store * store) * option terr :=
  transfer o (lsdrf v lo (erase src)) (store_of src) dst.
