(* Shared by the listing model (C14), the event filter model (C15) and the transfer model (C18):
   include flags, time of a matched name, the inclusive window, and the component-wise
   description `listable` of "a listing with these flags and this window would list a finalized
   file at this path inside a channel directory" (forward-fill file aside).  Executable
   definitions only.  Times are microseconds since the epoch (datetime.timedelta resolution). *)
From Coq Require Import ZArith List Bool.
From DRF Require Import Base.Regex Gen.Grammar.
Import ListNotations.
Local Open Scope Z_scope.

Record flags := mkFlags {
  inc_drf : bool;
  inc_dmd : bool;
  inc_drfp : option bool;     (* include_drf_properties: None -> value of include_drf *)
  inc_dmdp : option bool }.

Definition eff (o : option bool) (d : bool) : bool := match o with None => d | Some b => b end.
Definition eff_drfp (f : flags) : bool := eff (inc_drfp f) (inc_drf f).
Definition eff_dmdp (f : flags) : bool := eff (inc_dmdp f) (inc_dmd f).

(* what int(m.group("secs")), int(m.group("frac")) and timedelta(seconds=, milliseconds=) give.
   NoTime: the pattern has no group "secs" (IndexError) -> callers skip the time check.
   BadInt: a captured text that int() would reject (ValueError propagates); never produced by
   the regenerated grammars (theorem time_of_never_bad on the bounded universe, and the
   grammar lemmas in Proofs/GrammarProofs.v). *)
Inductive tinfo := NoTime | Time (t : Z) | BadInt.

Definition time_of (c : caps) : tinfo :=
  match group g_secs c with
  | None => NoTime
  | Some w =>
    match int_of w with
    | None => BadInt
    | Some s =>
      match group g_frac c with
      | None => Time (s * 1000000)                      (* frac group absent or None -> 0 *)
      | Some fw => match int_of fw with
                   | None => BadInt
                   | Some f => Time (s * 1000000 + f * 1000)
                   end
      end
    end
  end.

Definition in_window (st en : option Z) (t : Z) : bool :=
  (match st with Some s => s <=? t | None => true end) &&
  (match en with Some e => t <=? e | None => true end).

(* os.path.split at the last separator: (head, tail); None when there is no separator *)
Fixpoint split_last_aux (s acc_rev : word) (best : option (word * word)) : option (word * word) :=
  match s with
  | [] => best
  | x :: s' =>
    if x =? sep then split_last_aux s' (x :: acc_rev) (Some (rev acc_rev, s'))
    else split_last_aux s' (x :: acc_rev) best
  end.
Definition split_last (s : word) : option (word * word) := split_last_aux s [] None.

(* which file pattern the listing applies in a channel directory holding the given kinds of
   properties files (list_drf.py 165-175); the bool says "yielding a metadata channel" *)
Inductive fsel := FFile | FDrfFile | FDmdFile.

Definition fsel_re (x : fsel) : re :=
  match x with FFile => l_re_file | FDrfFile => l_re_drffile | FDmdFile => l_re_dmdfile end.

Definition file_sel (has_drf has_dmd : bool) (f : flags) : option (fsel * bool) :=
  let yd := has_drf && inc_drf f in
  let ym := has_dmd && inc_dmd f in
  if yd && ym then Some (FFile, true)
  else if yd then Some (FDrfFile, false)
  else if ym then Some (FDmdFile, true)
  else None.

Definition file_regex (has_drf has_dmd : bool) (f : flags) : option (re * bool) :=
  option_map (fun p : fsel * bool => (fsel_re (fst p), snd p)) (file_sel has_drf has_dmd f).

(* which properties pattern the listing applies (list_drf.py 325-333) *)
Definition prop_regex (f : flags) : option re :=
  if eff_drfp f && eff_dmdp f then Some l_re_propfile
  else if eff_drfp f then Some l_re_drfpropfile
  else if eff_dmdp f then Some l_re_dmdpropfile
  else None.

Definition match_time (r : re) (name : word) : option tinfo :=
  option_map time_of (rmatch listing_ci r name).

(* everything the listing can learn from the components of one path, computed once *)
Record linfo := mkLinfo {
  li_depth2 : bool;            (* path = chan / sub / base *)
  li_sub_ok : bool;            (* sub matches _RE_SUBDIR *)
  li_drf : option tinfo;       (* base against _RE_DRFFILE *)
  li_dmd : option tinfo;       (* base against _RE_DMDFILE *)
  li_file : option tinfo;      (* base against _RE_FILE *)
  li_pdrf : bool;              (* base against _RE_DRFPROPFILE *)
  li_pdmd : bool;
  li_pboth : bool;
  li_depth1 : bool }.          (* path = chan / base *)

Definition linfo_of (p : word) : linfo :=
  match split_last p with
  | None => mkLinfo false false None None None false false false false
  | Some (d, base) =>
    let sub_ok := match split_last d with
                  | Some (_, sub) => Some (matches listing_ci l_re_subdir sub)
                  | None => None end in
    mkLinfo (match sub_ok with Some _ => true | None => false end)
            (match sub_ok with Some b => b | None => false end)
            (match_time l_re_drffile base) (match_time l_re_dmdfile base) (match_time l_re_file base)
            (matches listing_ci l_re_drfpropfile base) (matches listing_ci l_re_dmdpropfile base)
            (matches listing_ci l_re_propfile base) true
  end.

Definition li_sel (li : linfo) (x : fsel) : option tinfo :=
  match x with FFile => li_file li | FDrfFile => li_drf li | FDmdFile => li_dmd li end.

Definition timed_ok (st en : option Z) (o : option tinfo) : bool :=
  match o with Some (Time t) => in_window st en t | _ => false end.

(* the kinds of channel directory: holding drf_properties.h5, dmd_properties.h5, or both
   (legacy metadata.h5 counts as both) *)
Definition chan_kinds : list (bool * bool) := [(true, false); (false, true); (true, true)].

(* a data file at chan/sub/base is listed in a channel of SOME kind *)
Definition listable_data_core (f : flags) (st en : option Z) (li : linfo) : bool :=
  li_depth2 li && li_sub_ok li &&
  ( (inc_drf f && inc_dmd f && timed_ok st en (li_file li))      (* channel with both kinds *)
    || (inc_drf f && timed_ok st en (li_drf li))                 (* channel yielding RF *)
    || (inc_dmd f && timed_ok st en (li_dmd li)) ).              (* channel yielding metadata *)

(* a properties file at chan/base is listed *)
Definition listable_prop_core (f : flags) (li : linfo) : bool :=
  li_depth1 li &&
  (if eff_drfp f && eff_dmdp f then li_pboth li
   else if eff_drfp f then li_pdrf li
   else if eff_dmdp f then li_pdmd li
   else false).

Definition listable_core (f : flags) (st en : option Z) (li : linfo) : bool :=
  listable_data_core f st en li || listable_prop_core f li.

Definition listable (f : flags) (st en : option Z) (p : word) : bool :=
  listable_core f st en (linfo_of p).
