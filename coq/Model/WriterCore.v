(* Hand model of the C writer's state machine (c/lib/rf_write_hdf5.c):
     digital_rf_write_blocks_hdf5 (330-402), digital_rf_write_samples_to_file (906-1079),
     digital_rf_create_hdf5_file (1082-1221), digital_rf_close_hdf5_file (1224-1264),
     digital_rf_write_rf_data_index (1909-1977), digital_rf_close_write_hdf5 (501-550)
   over abstract files.  HDF5 is abstracted: a data file is {index rows; data slots}.
   A sample is one Z tag (>= 0); the never-written slot of continuous mode is Fill = -1.
   The disk is: the finalized files (w_files) plus the one open file (w_openf, under its tmp. name);
   leftovers of crashed sessions are the subject of C02, not of this model.
   The file layout (which file, how many slots left, capacity) comes from the Spec functions
   F_of / file_start, which Properties/C04.v proves equal to the regenerated C code.
   Definitions only -- proofs are in Proofs/WriterProofs.v. *)
From Coq Require Import ZArith List Bool.
From DRF Require Import Base.DivLemmas Model.LayoutSpec Model.IndexCalc.
Import ListNotations.
Local Open Scope Z_scope.

Record cfg := mkCfg {
  c_start : Z; c_n : Z; c_d : Z; c_sc : Z; c_fc : Z;
  c_cont : bool;          (* is_continuous *)
  c_chunk : bool          (* needs_chunking = not continuous, or compression / checksum *)
}.

Definition Fill : Z := -1.

Record afile := mkFile {
  f_ms : Z;                 (* F: file time in ms (names the file; the directory is a function of it) *)
  f_tmp : bool;             (* still under its tmp. name *)
  f_index : list (Z * Z);   (* rf_data_index rows: (absolute sample, offset) *)
  f_data : list Z;          (* rf_data rows as tags *)
  f_cap : Z;                (* slots of the file's time window *)
  f_seq : Z                 (* sequence_num attribute *)
}.

Record wstate := mkW {
  w_gi : Z;                 (* global_index: next writable sample, relative to c_start *)
  w_cur : option Z;         (* sub_directory/basename: F of the file last opened or attempted *)
  w_openf : option afile;   (* the open file (hdf5_file != 0), still under its tmp. name *)
  w_di : Z;                 (* dataset_index *)
  w_nia : Z;                (* next_index_avail; 0 also stands for index_dataset == 0 *)
  w_seq : Z;                (* present_seq *)
  w_failed : bool;          (* has_failure *)
  w_files : list afile      (* finalized files, in the order they were finalized *)
}.

Definition w_open (st : wstate) : bool := match w_openf st with Some _ => true | None => false end.

Definition init_state : wstate :=
  {| w_gi := 0; w_cur := None; w_openf := None; w_di := 0; w_nia := 0; w_seq := -1;
     w_failed := false; w_files := [] |}.

(* everything on disk: finalized files, then the open tmp. file *)
Definition all_files (st : wstate) : list afile :=
  w_files st ++ match w_openf st with Some a => [a] | None => [] end.

(* ---------- list helpers *)
Definition slice (l : list Z) (a len : Z) : list Z := firstn (Z.to_nat len) (skipn (Z.to_nat a) l).
(* overwrite len slots at offset a *)
Definition overwrite (l : list Z) (a : Z) (new : list Z) : list Z :=
  firstn (Z.to_nat a) l ++ new ++ skipn (Z.to_nat a + length new) l.

Definition has_final (f : Z) (fs : list afile) : bool := existsb (fun a => f_ms a =? f) fs.

Definition set_final (a : afile) : afile := mkFile (f_ms a) false (f_index a) (f_data a) (f_cap a) (f_seq a).

(* digital_rf_close_hdf5_file after the handles are closed: rename tmp -> final
   (or remove the tmp. file after a failure) *)
Definition finalize (st : wstate) : list afile :=
  match w_openf st with
  | None => w_files st
  | Some a => if w_failed st then w_files st else w_files st ++ [set_final a]
  end.

Inductive outcome := Wrote (n : Z) | Fail.

(* digital_rf_write_samples_to_file; returns the number of samples written, Fail = 0 in C *)
Definition write_samples_to_file (c : cfg) (st : wstate) (sw : Z) (bl : list (Z * Z)) (vec : list Z)
  : outcome * wstate :=
  match bl with
  | [] => (Fail, st)
  | (_, d0) :: _ =>
    if negb (d0 =? 0) then (Fail, st) else
    let vlen := Z.of_nat (length vec) in
    let next := get_global_sample sw bl in
    let K := c_start c + next in
    let F := F_of K (c_n c) (c_d c) (c_fc c) in
    let nxt := file_start (F + c_fc c) (c_n c) (c_d c) in
    let left := nxt - K in
    let cap := nxt - file_start F (c_n c) (c_d c) in
    (* the name alone is not enough: it is also set by a refused creation (no file open) *)
    let file_exists := match w_cur st with Some f => (f =? F) && w_open st | None => false end in
    match create_rf_data_index (c_start c) (w_gi st) (c_chunk c) (c_cont c) sw left cap bl vlen next file_exists with
    | None => (Fail, st)
    | Some (rows, stw) =>
      (* open / create; inl = failure state, inr = (state, open file) ready for the data write *)
      let r :=
        if negb file_exists then
          (* close the previous file, if one is open; the new name is committed before the checks *)
          let files1 := finalize st in
          let di1 := if w_open st then 0 else w_di st in
          let st1 := mkW (w_gi st) (Some F) None di1 (w_nia st) (w_seq st + 1) (w_failed st) files1 in
          if has_final F files1 then inl st1                     (* refuse: final name exists *)
          else
            let data0 := if c_chunk c then [] else repeat Fill (Z.to_nat cap) in
            let nf := mkFile F true [] data0 cap (w_seq st + 1) in
            inr (mkW (w_gi st) (Some F) (Some nf) (if c_chunk c then 0 else cap - left) 0 (w_seq st + 1)
                     (w_failed st) files1, nf)
        else
          match w_openf st with
          | None => inl st       (* unreachable: file_exists implies an open file *)
          | Some a =>
            if c_chunk c then inr (st, a)
            else inr (mkW next (w_cur st) (w_openf st) (cap - left) (w_nia st) (w_seq st) (w_failed st) (w_files st), a)
          end in
      match r with
      | inl stf => (Fail, stf)
      | inr (st2, a) =>
        let di := w_di st2 in
        let new := slice vec sw stw in
        let rows' := if w_nia st2 =? 0 then rows else map (fun r => (fst r, snd r + di)) rows in
        let a' := mkFile (f_ms a) true (f_index a ++ rows')
                         (if c_chunk c then f_data a ++ new else overwrite (f_data a) di new)
                         (f_cap a) (f_seq a) in
        let di3 := di + stw in
        let gi3 := match rev rows' with
                   | (g, o) :: _ => (g - c_start c) + (di3 - o)
                   | [] => w_gi st2 + stw
                   end in
        (Wrote stw, mkW gi3 (w_cur st2) (Some a') di3 (w_nia st2 + Z.of_nat (length rows')) (w_seq st2)
                        (w_failed st2) (w_files st2))
      end
    end
  end.

(* the per-file loop of digital_rf_write_blocks_hdf5; fuel bounds the iterations (each writes >= 1) *)
Fixpoint write_loop (fuel : nat) (c : cfg) (st : wstate) (sw : Z) (bl : list (Z * Z)) (vec : list Z)
  : Z * wstate :=
  if sw <? Z.of_nat (length vec) then
    match fuel with
    | O => (-99, st)                                (* out of fuel: excluded by the theorems *)
    | S fuel' =>
      match write_samples_to_file c st sw bl vec with
      | (Fail, st') => (-6, st')
      | (Wrote k, st') => if k =? 0 then (-6, st') else write_loop fuel' c st' (sw + k) bl vec
      end
    end
  else (0, st).

(* digital_rf_write_blocks_hdf5: return code and new state *)
Definition write_blocks (c : cfg) (st : wstate) (bl : list (Z * Z)) (vec : list Z) : Z * wstate :=
  if w_failed st then (-1, st) else
  match bl with
  | [] => (-6, st)
  | (g0, _) :: tl =>
    if g0 <? w_gi st then (-3, st)
    else if c_cont c && negb (match tl with [] => true | _ => false end) then (-4, st)
    else write_loop (S (length vec)) c st 0 bl vec
  end.

(* digital_rf_write_hdf5: one block at offset 0 *)
Definition write_one (c : cfg) (st : wstate) (g : Z) (vec : list Z) : Z * wstate :=
  write_blocks c st [(g, 0)] vec.

(* digital_rf_close_write_hdf5 *)
Definition close_writer (st : wstate) : wstate :=
  mkW (w_gi st) (w_cur st) None 0 (w_nia st) (w_seq st) (w_failed st) (finalize st).

(* ---------- what the files mean: absolute sample index -> tag *)
Fixpoint rows_lookup (rows : list (Z * Z)) (data : list Z) (k : Z) : option Z :=
  match rows with
  | [] => None
  | (g, o) :: tl =>
    let o_next := match tl with (_, o') :: _ => o' | [] => Z.of_nat (length data) end in
    if (g <=? k) && (k <? g + (o_next - o)) then nth_error data (Z.to_nat (o + (k - g)))
    else rows_lookup tl data k
  end.

Definition file_lookup (a : afile) (k : Z) : option Z := rows_lookup (f_index a) (f_data a) k.

Fixpoint files_lookup (fs : list afile) (k : Z) : option Z :=
  match fs with
  | [] => None
  | a :: tl => match file_lookup a k with Some v => Some v | None => files_lookup tl k end
  end.
