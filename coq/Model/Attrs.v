(* Attribute tables of the Digital RF writer (C06 / C11).

   The C writer stores the channel properties three times: as attributes of the rf_data dataset of
   every data file (digital_rf_write_metadata), as attributes of drf_properties.h5 when a channel is
   first created, and -- on a restart -- it compares the attributes of an existing drf_properties.h5
   with the new writer object (both in digital_rf_handle_metadata).  The Python function
   recreate_properties_file copies a subset of a data file's attributes into a new properties file.

   Each of those four pieces of code is a *table*; translate/attrs2gallina.py regenerates the four
   tables from the current source on every run (Gen/AttrTables.v).  This file gives the tables their
   meaning: where a value comes from (a field of the writer object, a query on the HDF5 element
   type, a string literal, the wall clock), what writing a table produces, what the restart
   comparison returns and what regeneration copies.  Executable definitions only. *)
From Coq Require Import ZArith List Bool String.
Import ListNotations.
Local Open Scope string_scope.
Local Open Scope Z_scope.

(* the HDF5 memory type an attribute is written / read with *)
Inductive cty := TInt | TULLong | TStr.

Definition cty_eqb (a b : cty) : bool :=
  match a, b with TInt, TInt | TULLong, TULLong | TStr, TStr => true | _, _ => false end.

(* where a written value comes from *)
Inductive src :=
| SField  (f : string)       (* hdf5_data_object-><f>, an integer field *)
| SSField (f : string)       (* hdf5_data_object-><f>, a character array *)
| SDtype  (q : string)       (* <q>(hdf5_data_object->dtype_id), q = H5Tget_class ... *)
| SLit    (s : string)       (* a string literal (after macro expansion) *)
| SClock.                    (* time(NULL) *)

Definition src_eqb (a b : src) : bool :=
  match a, b with
  | SField f, SField g | SSField f, SSField g | SDtype f, SDtype g | SLit f, SLit g => String.eqb f g
  | SClock, SClock => true
  | _, _ => false
  end.

(* the writer object as far as attributes are concerned *)
Record env := mkEnv {
  fld  : string -> Z;        (* integer fields *)
  sfld : string -> string;   (* character-array fields *)
  dtq  : string -> Z;        (* element-type queries *)
  clock : Z }.

Inductive aval := VI (t : cty) (z : Z) | VS (s : string).

Definition aval_eqb (a b : aval) : bool :=
  match a, b with
  | VI t z, VI t' z' => cty_eqb t t' && (z =? z')
  | VS s, VS s' => String.eqb s s'
  | _, _ => false
  end.

Definition eval (e : env) (t : cty) (s : src) : aval :=
  match s with
  | SField f => VI t (fld e f)
  | SDtype q => VI t (dtq e q)
  | SClock => VI t (clock e)
  | SSField f => VS (sfld e f)
  | SLit l => VS l
  end.

(* one attribute write: H5Acreate2(target, name, ty) ; H5Awrite(.., ty, &source) *)
Record wentry := mkW { w_name : string; w_ty : cty; w_src : src }.

Definition attrs := list (string * aval).

Fixpoint lookup {A} (n : string) (l : list (string * A)) : option A :=
  match l with
  | [] => None
  | (k, v) :: tl => if String.eqb k n then Some v else lookup n tl
  end.

Definition write_table (e : env) (tab : list wentry) : attrs :=
  map (fun w => (w_name w, eval e (w_ty w) (w_src w))) tab.

Definition names (tab : list wentry) : list string := map w_name tab.

Fixpoint nodupb (l : list string) : bool :=
  match l with
  | [] => true
  | x :: tl => negb (existsb (String.eqb x) tl) && nodupb tl
  end.

(* ---- the restart comparison.  One entry per attribute:
        h = H5Aopen(file, name); if (h < 0) return miss; H5Aread(h, ty, &v);
        if (v <op> source) return rej;                                            *)
Inductive cmpop := ONe | OEq | OLt | OLe | OGt | OGe.

Definition cmp_holds (o : cmpop) (a b : Z) : bool :=
  match o with
  | ONe => negb (a =? b) | OEq => a =? b
  | OLt => a <? b | OLe => a <=? b | OGt => a >? b | OGe => a >=? b
  end.

Record centry := mkC { c_name : string; c_ty : cty; c_src : src; c_op : cmpop; c_miss : Z; c_rej : Z }.

(* numeric reading of a stored attribute with memory type ty (HDF5 converts between integer types;
   the values concerned are small non-negative numbers, so conversion is the identity) *)
Definition num_of (v : aval) : option Z := match v with VI _ z => Some z | VS _ => None end.
Definition num_src (e : env) (s : src) : option Z :=
  match s with
  | SField f => Some (fld e f) | SDtype q => Some (dtq e q) | SClock => Some (clock e)
  | _ => None
  end.

(* result of the comparison: the return value of the first entry that fires, else final *)
Fixpoint check_existing (tab : list centry) (final : Z) (e : env) (stored : attrs) : Z :=
  match tab with
  | [] => final
  | c :: tl =>
      match lookup (c_name c) stored with
      | None => c_miss c
      | Some v =>
          match num_of v, num_src e (c_src c) with
          | Some a, Some b => if cmp_holds (c_op c) a b then c_rej c else check_existing tl final e stored
          | _, _ => c_rej c
          end
      end
  end.

(* ---- regeneration: fo.attrs[dst] = md[src] for each row; a missing source attribute is an error *)
Fixpoint regenerate (tab : list (string * string)) (file_attrs : attrs) : option attrs :=
  match tab with
  | [] => Some []
  | (dst, s) :: tl =>
      match lookup s file_attrs, regenerate tl file_attrs with
      | Some v, Some r => Some ((dst, v) :: r)
      | _, _ => None
      end
  end.

(* ---- the Spec: the channel parameters stored with a channel.  Written by hand from the format
   documentation (the 12 numeric properties); the constant strings are the epoch, the time
   description and the format version. *)
Definition dtype_queries : list string :=
  ["H5Tget_class"; "H5Tget_size"; "H5Tget_order"; "H5Tget_precision"; "H5Tget_offset"].
Definition param_fields : list string :=
  ["subdir_cadence_secs"; "file_cadence_millisecs"; "sample_rate_numerator"; "sample_rate_denominator";
   "is_complex"; "num_subchannels"; "is_continuous"].
Definition const_names : list string := ["epoch"; "digital_rf_time_description"; "digital_rf_version"].

Definition chan_params (e : env) : list Z := app (map (dtq e) dtype_queries) (map (fld e) param_fields).

(* the properties a channel with parameters e must show, name by name (memory types as documented:
   int for the three flags / counts, unsigned long long for the rest) *)
Definition doc_ty (n : string) : cty :=
  if existsb (String.eqb n) ["is_complex"; "num_subchannels"; "is_continuous"] then TInt else TULLong.
Definition spec_numeric (e : env) : attrs :=
  app (map (fun q => (q, VI TULLong (dtq e q))) dtype_queries)
      (map (fun f => (f, VI (doc_ty f) (fld e f))) param_fields).
