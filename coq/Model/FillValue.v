(* Hand model of digital_rf_set_fill_value (c/lib/rf_write_hdf5.c 1326-1530): which object's bytes
   are handed to H5Pset_fill_value for each element type, on a little-endian host, and how HDF5
   reads them back (as the type id it was given: csz bytes per component in the file's byte order).
   The domain is finite: {signed, unsigned} x {1,2,4,8} + float x {4,8}, x byte order x real/complex. *)
From Coq Require Import ZArith List Bool.
Import ListNotations.
Local Open Scope Z_scope.

Inductive kind := KI | KU | KF.
Record cell := mkCell { ck : kind; csz : Z; cbe : bool; ccx : bool }.

Fixpoint le_bytes (v : Z) (n : nat) : list Z :=
  match n with O => [] | S n' => (v mod 256) :: le_bytes (v / 256) n' end.

Definition nan_bits (sz : Z) : Z := if sz =? 4 then 2143289344 (* 0x7FC00000 *) else 9221120237041090560 (* 0x7FF8000000000000 *).
Definition nan_flip_bits (sz : Z) : Z := if sz =? 4 then 49279 (* 0x0000C07F *) else 63615 (* 0x000000000000F87F *).
Definition int_min (sz : Z) : Z := - 2 ^ (8 * sz - 1).

(* the C object whose address is passed, as host (little-endian) bytes, one component *)
Definition component_image (c : cell) : list Z :=
  let n := Z.to_nat (csz c) in
  match ck c with
  | KU => le_bytes 0 n                                         (* minUnsignedInt / {0,0} *)
  | KI => if csz c =? 1 then le_bytes (int_min 1) n            (* minChar: no byte order *)
          else le_bytes (if cbe c then 128 else int_min (csz c)) n   (* minX[endian_flip] *)
  | KF => le_bytes (if cbe c then nan_flip_bits (csz c) else nan_bits (csz c)) n
  end.

Definition fill_image (c : cell) : list Z :=
  if ccx c then component_image c ++ component_image c else component_image c.

(* HDF5 reads the buffer as the dataset's type: unsigned value of csz bytes in file order *)
Fixpoint be_value (bs : list Z) (acc : Z) : Z :=
  match bs with [] => acc | b :: tl => be_value tl (acc * 256 + b) end.
Definition raw_value (c : cell) (bs : list Z) : Z :=
  be_value (if cbe c then bs else rev bs) 0.

Definition is_missing (c : cell) (raw : Z) : bool :=
  let bits := 8 * csz c in
  match ck c with
  | KU => raw =? 0
  | KI => (if raw >=? 2 ^ (bits - 1) then raw - 2 ^ bits else raw) =? int_min (csz c)
  | KF => (* NaN: exponent all ones, mantissa non-zero *)
    let mbits := if csz c =? 4 then 23 else 52 in
    let ebits := if csz c =? 4 then 8 else 11 in
    let mant := raw mod 2 ^ mbits in
    let expo := (raw / 2 ^ mbits) mod 2 ^ ebits in
    (expo =? 2 ^ ebits - 1) && negb (mant =? 0)
  end.

Definition components (c : cell) (img : list Z) : list (list Z) :=
  let n := Z.to_nat (csz c) in
  if ccx c then [firstn n img; skipn n img] else [img].

Definition cell_ok (c : cell) : bool :=
  forallb (fun comp => is_missing c (raw_value c comp)) (components c (fill_image c)).

Definition all_cells : list cell :=
  flat_map (fun k_sz => flat_map (fun be => map (fun cx => mkCell (fst k_sz) (snd k_sz) be cx) [false; true]) [false; true])
    [(KI, 1); (KI, 2); (KI, 4); (KI, 8); (KU, 1); (KU, 2); (KU, 4); (KU, 8); (KF, 4); (KF, 8)].

(* the code before the fix passed the native NaN for big-endian floats as well *)
Definition component_image_native_nan (c : cell) : list Z :=
  match ck c with
  | KF => le_bytes (nan_bits (csz c)) (Z.to_nat (csz c))
  | _ => component_image c
  end.
