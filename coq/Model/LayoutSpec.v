(* Spec of the time-partitioned layout (C04): which file / directory holds absolute sample K. *)
From Coq Require Import ZArith.
From DRF Require Import Base.DivLemmas.
Local Open Scope Z_scope.

Definition ms_of (K n d : Z) : Z := K * d * 1000 / n.                 (* floor(K*d*1000/n) *)
Definition F_of (K n d fc : Z) : Z := fc * (ms_of K n d / fc).        (* file time, ms *)
Definition S_of (K n d sc : Z) : Z := sc * ((K * d / n) / sc).        (* directory time, s *)
Definition file_start (f n d : Z) : Z := cdiv (f * n) (1000 * d).     (* first sample of file f *)
