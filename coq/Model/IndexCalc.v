(* Hand model (faithful transcription) of two pure helpers of c/lib/rf_write_hdf5.c:
     digital_rf_get_global_sample      (1980-2009)
     digital_rf_create_rf_data_index   (1681-1906)
   A write call's block description is the list bl = [(G_0,D_0); (G_1,D_1); ...] of
   (global sample, data index) pairs (global_index_arr / data_index_arr zipped).
   Unbounded Z is used: on every path that the C code reaches after its own checks
   (index_len >= 1, D_0 = 0) no unsigned subtraction underflows (see DESIGN A.2), and the
   correspondence check compares this transcription with the compiled functions directly. *)
From Coq Require Import ZArith List Bool.
Import ListNotations.
Local Open Scope Z_scope.

Fixpoint ggs_loop (sw : Z) (bl : list (Z * Z)) (ret : Z) : Z :=
  match bl with
  | [] => ret
  | (g, dx) :: tl => if sw <? dx then ret else ggs_loop sw tl (g + (sw - dx))
  end.

Definition get_global_sample (sw : Z) (bl : list (Z * Z)) : Z :=
  match bl with
  | [] => 0
  | (g0, d0) :: tl => ggs_loop sw tl (g0 + (sw - d0))
  end.

(* first pass: validation, row count, bottom/top index.  -1 is the C sentinel. *)
Record pass1 := { p_err : bool; p_rows : Z; p_bottom : Z; p_top : Z; p_pidx : Z; p_psmp : Z }.

Fixpoint pass1_loop (first : bool) (count_first : bool) (vlen next last : Z)
         (bl : list (Z * Z)) (st : pass1) : pass1 :=
  match bl with
  | [] => st
  | (this_sample, this_index) :: tl =>
    let pidx := p_pidx st in
    let psmp := p_psmp st in
    if this_index >=? vlen then {| p_err := true; p_rows := p_rows st; p_bottom := p_bottom st;
                                   p_top := p_top st; p_pidx := pidx; p_psmp := psmp |}
    else if negb first && (pidx >=? this_index) then
      {| p_err := true; p_rows := p_rows st; p_bottom := p_bottom st; p_top := p_top st; p_pidx := pidx; p_psmp := psmp |}
    else if negb first && (psmp >=? this_sample) then
      {| p_err := true; p_rows := p_rows st; p_bottom := p_bottom st; p_top := p_top st; p_pidx := pidx; p_psmp := psmp |}
    else if negb first && ((this_index - pidx) >? (this_sample - psmp)) then
      {| p_err := true; p_rows := p_rows st; p_bottom := p_bottom st; p_top := p_top st; p_pidx := pidx; p_psmp := psmp |}
    else
      let rows :=
        if first then (if count_first then p_rows st + 1 else p_rows st)
        else if (next <? psmp + (this_index - pidx)) && (last >? this_sample) then p_rows st + 1
        else p_rows st in
      let bottom :=
        if (this_sample >? next) && (p_bottom st =? -1) then
          (if first then 0
           else if psmp + (this_index - pidx) <? next then this_index
           else pidx + (next - psmp))
        else p_bottom st in
      let top :=
        if (this_sample >? last) && (p_top st =? -1) then
          (if last >? psmp + (this_index - pidx) then this_index
           else pidx + (last - psmp))
        else p_top st in
      pass1_loop false count_first vlen next last tl
        {| p_err := false; p_rows := rows; p_bottom := bottom; p_top := top;
           p_pidx := this_index; p_psmp := this_sample |}
  end.

(* second pass: the rows (absolute global sample, offset relative to this call's data in this file) *)
Fixpoint pass2_loop (first : bool) (emit_first : bool) (first_row : Z * Z) (start sw next last : Z)
         (bl : list (Z * Z)) (pidx psmp : Z) : list (Z * Z) :=
  match bl with
  | [] => []
  | (this_sample, this_index) :: tl =>
    let here :=
      if first then (if emit_first then [first_row] else [])
      else if (next <? psmp + (this_index - pidx)) && (last >? this_sample)
           then [(this_sample + start, this_index - sw)] else [] in
    here ++ pass2_loop false emit_first first_row start sw next last tl this_index this_sample
  end.

(* result: None = validation error (rows_to_write = -1); Some (rows, samples_to_write) *)
Definition create_rf_data_index (start gi : Z) (chunk cont : bool)
           (sw left cap : Z) (bl : list (Z * Z)) (vlen next : Z) (file_exists : bool)
  : option (list (Z * Z) * Z) :=
  match bl with
  | [] => None
  | (g0, _) :: _ =>
    let last := next + left in
    if (sw =? 0) && (g0 <? gi) then None else
    let count_first := negb file_exists || chunk in
    let st := pass1_loop true count_first vlen next last bl
                {| p_err := false; p_rows := 0; p_bottom := -1; p_top := -1; p_pidx := 0; p_psmp := 0 |} in
    if p_err st then None else
    let pidx := p_pidx st in
    let psmp := p_psmp st in
    let this_sample := psmp + (vlen - pidx) in
    let bottom := if p_bottom st =? -1 then pidx + (next - psmp) else p_bottom st in
    let top := if p_top st =? -1 then
                 (if last <? this_sample then pidx + (last - psmp) else pidx + (this_sample - psmp))
               else p_top st in
    let stw := top - bottom in
    if p_rows st =? 0 then Some ([], stw) else
    let r0 := next + start - (if cont && negb chunk then cap - left else 0) in
    Some (pass2_loop true count_first (r0, 0) start sw next last bl 0 0, stw)
  end.
