(* Model/WriterProto.v -- the Digital RF writer seen from the file system (C02, C09, C10).
   Executable definitions only.

   The writer of c/lib/rf_write_hdf5.c is modelled as a function that issues file-system
   operations one at a time against Base/Fs.v, looks at the results the C code looks at and
   ignores the ones it ignores.  A recording is described abstractly: per rf_write call, the list
   of per-file pieces it is split into; per piece the sub-directory and file period, the payload
   tag of the file once the piece is in, and the low-level operations HDF5 issues for it, each
   labelled with the HDF5 call it is issued from (the harness reads the labels from the call stack
   of the real writer).  HDF5 itself is not modelled.

   Source facts kept (line numbers of c/lib/rf_write_hdf5.c):
   * digital_rf_handle_metadata (2028-2396): drf_properties.h5 created when absent, otherwise only
     read; [Direct] = created under its final name; [Staged] = created as tmp.drf_properties.h5
     and renamed after a successful close.
   * digital_rf_write_samples_to_file (906-1079): the open file is reused when (sub_directory,
     basename) are equal; status examined after the data H5Dwrite (has_failure := 1) and after
     the index H5Dwrite (error returned, has_failure NOT set); not after H5Dset_extent, H5Dcreate2
     or the attribute writes.
   * digital_rf_create_hdf5_file (1145-1264): roll-over = close all handles, then
     digital_rf_close_hdf5_file; mkdir for every new file, EEXIST tolerated, other failure sets
     has_failure; sub_directory/basename committed; refusal when the final name exists (no
     has_failure); H5Fcreate(H5F_ACC_EXCL) on the tmp name (open O_RDWR probe, then
     O_CREAT|O_EXCL), failure sets has_failure.
   * digital_rf_close_hdf5_file (1116-1142): if the tmp file exists: has_failure ? remove : rename.
   * [Ignored] = results of H5Dclose/H5Fclose/rename not examined (the rename follows
     unconditionally); [Checked] = a failure there sets has_failure, the tmp file is removed
     instead of renamed and a roll-over reports the error.
   * digital_rf_write_hdf5 (300-303): has_failure refuses every later call. *)
From Coq Require Import ZArith List Bool.
From DRF Require Import Base.Fs.
Import ListNotations.
Local Open Scope Z_scope.

(* ---------------------------------------------------------------- recordings *)
Inductive lowkind := LW | LT.                       (* write/pwrite | ftruncate *)
Inductive phase := PhCreate | PhMeta | PhData | PhIndex.
(* PhCreate: inside H5Fcreate (checked)        PhMeta: H5Dcreate2 / attributes / H5Dset_extent (unchecked)
   PhData: inside the rf_data H5Dwrite (checked, sticky)   PhIndex: inside the rf_data_index H5Dwrite
   (checked, error returned, not sticky) *)

Record filepart := mkPart {
  fp_d : Z; fp_k : Z;                               (* sub-directory second, file millisecond *)
  fp_pre : list (lowkind * phase);                  (* low-level operations while the piece is written *)
  fp_close : list lowkind;                          (* those HDF5 issues when the file is closed after this piece *)
  fp_tag : Z }.                                     (* image of the file once this piece is in *)

Record recording := mkRec {
  r_props_create : list lowkind;                    (* inside H5Fcreate of the properties file *)
  r_props_close : list lowkind;                     (* inside its H5Fclose, before close(2) *)
  r_calls : list (list filepart) }.

Inductive props_publication := Direct | Staged.
Inductive close_check := Ignored | Checked.
Record variant := mkVar { v_props : props_publication; v_close : close_check }.

Definition low_op (k : lowkind) (p : path) : op := match k with LW => Write p | LT => Truncate p end.

(* ---------------------------------------------------------------- writer state *)
Record openfile := mkOpen { of_close : list lowkind; of_tag : Z }.

Record W := mkW {
  w_hf : bool;                      (* has_failure *)
  w_name : option (Z * Z);          (* sub_directory, basename (always the tmp name of that period) *)
  w_cur : option openfile;          (* HDF5 handles open on the tmp file of w_name *)
  w_fs : fs;
  w_n : nat;                        (* operations issued so far *)
  w_trace : list (op * res);        (* newest first *)
  w_ud : bool }.                    (* ghost: a fault hit an operation whose result the code does not examine *)

Definition W0 : W := mkW false None None empty_fs 0 [] false.

Definition set_hf (b : bool) (w : W) := mkW b (w_name w) (w_cur w) (w_fs w) (w_n w) (w_trace w) (w_ud w).
Definition set_name (x : option (Z * Z)) (w : W) := mkW (w_hf w) x (w_cur w) (w_fs w) (w_n w) (w_trace w) (w_ud w).
Definition set_cur (x : option openfile) (w : W) := mkW (w_hf w) (w_name w) x (w_fs w) (w_n w) (w_trace w) (w_ud w).
Definition set_ud (b : bool) (w : W) := mkW (w_hf w) (w_name w) (w_cur w) (w_fs w) (w_n w) (w_trace w) b.

Definition issue (F : fault) (o : op) (w : W) : W * res :=
  let n := S (w_n w) in
  let sr := exec F n o (w_fs w) in
  (mkW (w_hf w) (w_name w) (w_cur w) (fst sr) n ((o, snd sr) :: w_trace w) (w_ud w), snd sr).

(* a failure of an operation of the close path: examined or not *)
Definition mark (v : variant) (w : W) : W :=
  match v_close v with Checked => set_hf true w | Ignored => set_ud true w end.

Definition exists_at (s : fs) (p : path) : bool := match s p with Some _ => true | None => false end.

Inductive status := Go | Abort.

(* low-level operations of one piece, with the reaction of the code to a failure *)
Fixpoint do_lows (F : fault) (p : path) (l : list (lowkind * phase)) (w : W) : W * status :=
  match l with
  | [] => (w, Go)
  | (k, ph) :: r =>
      let '(w1, rs) := issue F (low_op k p) w in
      if res_ok rs then do_lows F p r w1
      else match ph with
           | PhCreate => (set_cur None (set_hf true w1), Abort)
           | PhData => (set_hf true w1, Abort)
           | PhIndex => (set_ud true w1, Abort)
           | PhMeta => do_lows F p r (set_ud true w1)
           end
  end.

Fixpoint close_lows (F : fault) (v : variant) (p : path) (l : list lowkind) (w : W) : W :=
  match l with
  | [] => w
  | k :: r =>
      let '(w1, rs) := issue F (low_op k p) w in
      close_lows F v p r (if res_ok rs then w1 else mark v w1)
  end.

(* H5Dclose ... H5Fclose of the open file *)
Definition close_handles (F : fault) (v : variant) (w : W) : W :=
  match w_cur w, w_name w with
  | Some o, Some (d, k) =>
      let p := PData d true k in
      let w1 := close_lows F v p (of_close o) w in
      let '(w2, rs) := issue F (CloseFd p (of_tag o)) w1 in
      set_cur None (if res_ok rs then w2 else mark v w2)
  | _, _ => w
  end.

(* digital_rf_close_hdf5_file *)
Definition publish (F : fault) (v : variant) (w : W) : W :=
  match w_name w with
  | Some (d, k) =>
      let p := PData d true k in
      if exists_at (w_fs w) p then
        if w_hf w then fst (issue F (Unlink p) w)
        else let '(w1, rs) := issue F (Rename p (PData d false k)) w in
             if res_ok rs then w1 else mark v w1
      else w
  | None => w
  end.

Definition same_name (x : option (Z * Z)) (d k : Z) : bool :=
  match x with Some (d', k') => (d' =? d) && (k' =? k) | None => false end.

Definition mkdir_failed (r : res) : bool :=
  match r with Ok => false | Err e => negb (e =? EEXIST) end.

(* one per-file piece of a write call: digital_rf_write_samples_to_file *)
Definition part (F : fault) (v : variant) (fp : filepart) (w : W) : W * status :=
  let d := fp_d fp in
  let k := fp_k fp in
  let tmp := PData d true k in
  let o := mkOpen (fp_close fp) (fp_tag fp) in
  if same_name (w_name w) d k then
    match w_cur w with
    | None => (set_hf true w, Abort)          (* handles closed (earlier refusal): H5Dwrite fails *)
    | Some _ => do_lows F tmp (fp_pre fp) (set_cur (Some o) w)
    end
  else
    let w1 := match w_cur w with Some _ => publish F v (close_handles F v w) | None => w end in
    if w_hf w1 then (w1, Abort) else
    let '(w2, r2) := issue F (Mkdir (PDir d)) w1 in
    if mkdir_failed r2 then (set_hf true w2, Abort) else
    let w3 := set_name (Some (d, k)) w2 in
    if exists_at (w_fs w3) (PData d false k) then (w3, Abort) else
    let '(w4, r4) := issue F (Probe tmp) w3 in
    if res_ok r4 then (set_hf true w4, Abort) else
    let '(w5, r5) := issue F (CreateExcl tmp) w4 in
    if res_ok r5 then do_lows F tmp (fp_pre fp) (set_cur (Some o) w5)
    else (set_hf true w5, Abort).

Fixpoint parts (F : fault) (v : variant) (l : list filepart) (w : W) : W * status :=
  match l with
  | [] => (w, Go)
  | fp :: r =>
      let '(w1, st) := part F v fp w in
      match st with Go => parts F v r w1 | Abort => (w1, Abort) end
  end.

(* digital_rf_write_hdf5: true = returned 0 *)
Definition call (F : fault) (v : variant) (l : list filepart) (w : W) : W * bool :=
  if w_hf w then (w, false)
  else let '(w1, st) := parts F v l w in (w1, match st with Go => true | Abort => false end).

Fixpoint calls (F : fault) (v : variant) (cs : list (list filepart)) (w : W) : W * list bool :=
  match cs with
  | [] => (w, [])
  | c :: r =>
      let '(w1, ok) := call F v c w in
      let '(w2, oks) := calls F v r w1 in
      (w2, ok :: oks)
  end.

(* digital_rf_close_write_hdf5 *)
Definition close_call (F : fault) (v : variant) (w : W) : W := publish F v (close_handles F v w).

(* low-level operations inside H5Fcreate of the properties file: a failure fails the creation *)
Fixpoint props_create_lows (F : fault) (p : path) (l : list lowkind) (w : W) : W * status :=
  match l with
  | [] => (w, Go)
  | k :: r =>
      let '(w1, rs) := issue F (low_op k p) w in
      if res_ok rs then props_create_lows F p r w1 else (w1, Abort)
  end.

(* the same list as close_lows, but recording whether anything failed *)
Fixpoint props_close_lows (F : fault) (p : path) (l : list lowkind) (w : W) : W * bool :=
  match l with
  | [] => (w, true)
  | k :: r =>
      let '(w1, rs) := issue F (low_op k p) w in
      let '(w2, ok) := props_close_lows F p r w1 in
      (w2, res_ok rs && ok)
  end.

(* digital_rf_handle_metadata: true = the writer object is returned *)
Definition init (F : fault) (v : variant) (rc : recording) (w : W) : W * bool :=
  match probe (w_fs w) (PProps false) with
  | Sees _ => (w, true)
  | Garbage => (w, false)
  | Absent =>
      match v_props v with
      | Direct =>
          let p := PProps false in
          let '(w1, _) := issue F (Probe p) w in
          let '(w2, r2) := issue F (CreateExcl p) w1 in
          if negb (res_ok r2) then (w2, false) else
          let '(w3, st) := props_create_lows F p (r_props_create rc) w2 in
          match st with
          | Abort => (w3, false)
          | Go =>
              let '(w4, ok4) := props_close_lows F p (r_props_close rc) w3 in
              let '(w5, r5) := issue F (CloseFd p 0) w4 in
              if ok4 && res_ok r5 then (w5, true)
              else match v_close v with
                   | Ignored => (set_ud true w5, true)
                   | Checked => (fst (issue F (Unlink p) w5), false)
                   end
          end
      | Staged =>
          let p := PProps true in
          let '(w1, _) := issue F (Probe p) w in
          let '(w2, r2) := issue F (CreateTrunc p) w1 in
          if negb (res_ok r2) then (w2, false) else
          let '(w3, st) := props_create_lows F p (r_props_create rc) w2 in
          match st with
          | Abort => (fst (issue F (Unlink p) w3), false)
          | Go =>
              let '(w4, ok4) := props_close_lows F p (r_props_close rc) w3 in
              let '(w5, r5) := issue F (CloseFd p 0) w4 in
              if ok4 && res_ok r5 then
                let '(w6, r6) := issue F (Rename p (PProps false)) w5 in
                if res_ok r6 then (w6, true) else (fst (issue F (Unlink p) w6), false)
              else (fst (issue F (Unlink p) w5), false)
          end
      end
  end.

Record result := mkRes { rs_init : bool; rs_out : list bool; rs_w : W }.

Definition wrun (F : fault) (v : variant) (rc : recording) : result :=
  let '(w1, ok) := init F v rc W0 in
  if ok then
    let '(w2, outs) := calls F v (r_calls rc) w1 in
    mkRes true outs (close_call F v w2)
  else mkRes false [] w1.

Definition ops_of (w : W) : list op := map fst (rev (w_trace w)).
Definition trace_of (v : variant) (rc : recording) : list op := ops_of (rs_w (wrun no_fault v rc)).

(* ---------------------------------------------------------------- the publication protocol *)
(* The discipline on file-system operations that makes publication kill-safe, as an acceptor.
   It is checked on the real writer's trace (extracted) and proved of the model's trace. *)
Inductive pstate :=
| PsStart                          (* channel directory empty *)
| PsProps (tmp closed : bool)      (* properties file being written at PProps tmp *)
| PsIdle                           (* no data file in progress *)
| PsOpen (d k : Z)                 (* tmp file of (d, k) created, descriptor open *)
| PsClosed (d k : Z).              (* tmp file closed, not yet renamed *)

Definition is_staged (pv : props_publication) : bool := match pv with Staged => true | Direct => false end.

Definition pstep (pv : props_publication) (ps : pstate) (s : fs) (o : op) : option pstate :=
  match o with
  | Probe p => if exists_at s p then None else Some ps       (* a write-mode open of an existing file is never allowed *)
  | _ =>
    match ps, o with
    | PsStart, CreateExcl (PProps false) => if is_staged pv then None else Some (PsProps false false)
    | PsStart, CreateTrunc (PProps true) => if is_staged pv then Some (PsProps true false) else None
    | PsProps t false, Write (PProps t') | PsProps t false, Truncate (PProps t') =>
        if Bool.eqb t t' then Some ps else None
    | PsProps t false, CloseFd (PProps t') _ =>
        if Bool.eqb t t' then Some (if t then PsProps true true else PsIdle) else None
    | PsProps true true, Rename (PProps true) (PProps false) => Some PsIdle
    | PsIdle, Mkdir (PDir _) => Some PsIdle
    | PsIdle, CreateExcl (PData d true k) =>
        if exists_at s (PData d false k) || exists_at s (PData d true k) || negb (parent_ok s (PData d true k))
        then None else Some (PsOpen d k)
    | PsOpen d k, Write (PData d' true k') | PsOpen d k, Truncate (PData d' true k') =>
        if (d =? d') && (k =? k') then Some ps else None
    | PsOpen d k, CloseFd (PData d' true k') _ =>
        if (d =? d') && (k =? k') then Some (PsClosed d k) else None
    | PsClosed d k, Rename (PData d' true k') (PData d'' false k'') =>
        if (d =? d') && (k =? k') && (d =? d'') && (k =? k'') then Some PsIdle else None
    | PsClosed d k, Unlink (PData d' true k') =>
        if (d =? d') && (k =? k') then Some PsIdle else None
    | _, _ => None
    end
  end.

Fixpoint proto_run (pv : props_publication) (ps : pstate) (s : fs) (t : list op) : option (pstate * fs) :=
  match t with
  | [] => Some (ps, s)
  | o :: r =>
      match pstep pv ps s o with
      | Some ps' => proto_run pv ps' (fst (apply o s)) r
      | None => None
      end
  end.

Definition proto_ok (pv : props_publication) (t : list op) : bool :=
  match proto_run pv PsStart empty_fs t with Some _ => true | None => false end.

(* ---------------------------------------------------------------- what a recording writes *)
(* image of file (d, k) after the pieces of [l]: the tag of the last piece addressed to it *)
Fixpoint last_tag (l : list filepart) (d k : Z) : option Z :=
  match l with
  | [] => None
  | fp :: r =>
      match last_tag r d k with
      | Some t => Some t
      | None => if (fp_d fp =? d) && (fp_k fp =? k) then Some (fp_tag fp) else None
      end
  end.

Definition all_parts (rc : recording) : list filepart := concat (r_calls rc).
