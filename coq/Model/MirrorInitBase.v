(* Vocabulary of the regenerated handler table of DigitalRFMirror.__init__ (Gen/MirrorInitGen.v, T15). *)
From Coq Require Import ZArith Bool.

(* what a handler does with a matching file: the copy-like function chosen from self.link
   (LinkWithFallback() or shutil.copy2), shutil.move, or a count-limited ring buffer *)
Inductive gfun := GCopyLike | GShutilMove | GRingbuffer (count : Z).

(* include_drf, include_dmd, include_drf_properties, include_dmd_properties as passed to
   DigitalRFEventHandler.__init__ (None = "use the include_drf / include_dmd value") *)
Record gflags := mkGF { g_drf : bool; g_dmd : bool; g_drfp : option bool; g_dmdp : option bool }.
