(* Digital Metadata writer and reader over an abstract channel directory (C12, C20).
   Hand model of python/digital_rf/digital_metadata.py:
     DigitalMetadataWriter.write/_write/_sample_group_generator   -> write_one, write_call
     DigitalMetadataReader._get_file_list                         -> file_list (over MdPlace.candidates)
     DigitalMetadataReader._add_metadata / OrderedDict insertion  -> add_metadata, od_set
     DigitalMetadataReader.get_bounds (via list_drf.ilsdrf order) -> listing, get_bounds
     DigitalMetadataReader.read / read_latest                     -> read, read_latest
   A channel directory is a list of entries (subdirectory ts, file ts, sample index, value tag), in
   creation order: one entry per HDF5 group.  The file <sub>/<prefix>@<ts>.h5 is the set of entries
   with that (sub, ts); files are created together with their first group and groups are never
   removed, so there are no empty files.  Values are opaque tags: value conversion (numpy/h5py) is
   glue covered by the correspondence only.
   Defect sites are parameters (DESIGN 2.6): [v_arith] (file arithmetic, see MdPlace), [v_gsort]
   (get_bounds orders group names as integers | as strings), [v_ffedge] (the forward-fill pass
   clips the file's samples to [first bound, start] | takes the whole file). *)
From Coq Require Import ZArith List Bool.
From DRF Require Import Base.DivLemmas Model.Ld80 Model.MdPlace.
Import ListNotations.
Local Open Scope Z_scope.

Definition sample : Type := (Z * Z)%type.                 (* index, value tag *)
Definition entry : Type := (Z * Z * Z * Z)%type.          (* sub, ts, index, value tag *)
Definition store : Type := list entry.

Definition e_path (e : entry) : Z * Z := let '(s, t, _, _) := e in (s, t).
Definition e_key (e : entry) : Z := let '(_, _, k, _) := e in k.
Definition e_kv (e : entry) : sample := let '(_, _, k, v) := e in (k, v).

Definition path_eqb (p q : Z * Z) : bool := (fst p =? fst q) && (snd p =? snd q).

Inductive gsort := IntSort | StrSort.
Inductive ffedge := Clipped | WholeFile.
Record variant := mkVar { v_arith : arith; v_gsort : gsort; v_ffedge : ffedge }.
Definition fixed_code : variant := mkVar Exact IntSort Clipped.
Definition prefix_code : variant := mkVar LongDouble StrSort WholeFile.

(* ------------------------------------------------------------------ writer *)
(* f.create_group(str(sample)) in the file chosen for the sample: refused (ValueError -> IOError)
   when that file already has a group of that name *)
Definition group_exists (p : Z * Z) (k : Z) (st : store) : bool :=
  existsb (fun e => path_eqb (e_path e) p && (e_key e =? k)) st.

Definition write_one (a : arith) (c : cfg) (st : store) (k v : Z) : option store :=
  let p := w_path a c k in
  if group_exists p k st then None else Some (st ++ [(fst p, snd p, k, v)]).

(* one write() call: samples in the given order; the call raises at the first refused sample,
   the samples before it stay written *)
Fixpoint write_call (a : arith) (c : cfg) (st : store) (l : list sample) : store * bool :=
  match l with
  | [] => (st, true)
  | (k, v) :: r =>
      match write_one a c st k v with
      | None => (st, false)
      | Some st' => write_call a c st' r
      end
  end.

Definition run_writes (a : arith) (c : cfg) (h : list (list sample)) : store :=
  fold_left (fun st l => fst (write_call a c st l)) h [].

(* ------------------------------------------------------------------ reader *)
Fixpoint insert_by {A} (leb : A -> A -> bool) (x : A) (l : list A) : list A :=
  match l with
  | [] => [x]
  | y :: r => if leb x y then x :: l else y :: insert_by leb x r
  end.
Definition isort {A} (leb : A -> A -> bool) (l : list A) : list A := fold_right (insert_by leb) [] l.

Definition file_exists (st : store) (p : Z * Z) : bool := existsb (fun e => path_eqb (e_path e) p) st.
(* the groups of one file *)
Definition groups (st : store) (p : Z * Z) : list sample :=
  map e_kv (filter (fun e => path_eqb (e_path e) p) st).

(* _get_file_list: the candidates that exist (os.access), in candidate order *)
Definition file_list (a : arith) (c : cfg) (st : store) (s0 s1 : Z) : list (Z * Z) :=
  filter (file_exists st) (candidates a c s0 s1).

Definition key_leb (x y : sample) : bool := fst x <=? fst y.
Definition in_range (s0 s1 : Z) (x : sample) : bool := (s0 <=? fst x) && (fst x <=? s1).

(* ret_dict[idx] = value  on an OrderedDict: replace in place or append *)
Fixpoint od_set (acc : list sample) (k v : Z) : list sample :=
  match acc with
  | [] => [(k, v)]
  | (k', v') :: r => if k' =? k then (k', v) :: r else (k', v') :: od_set r k v
  end.

(* _add_metadata: indices of the file sorted ascending, clipped to [s0, s1] when is_edge *)
Definition add_metadata (acc : list sample) (g : list sample) (s0 s1 : Z) (is_edge : bool) : list sample :=
  let idxs := isort key_leb g in
  let idxs := if is_edge then filter (in_range s0 s1) idxs else idxs in
  fold_left (fun acc x => od_set acc (fst x) (snd x)) idxs acc.

(* this_file in (file_list[0], file_list[-1]) *)
Definition is_edge_file (p : Z * Z) (fl : list (Z * Z)) : bool :=
  match fl with
  | [] => false
  | p0 :: _ => path_eqb p p0 || path_eqb p (last fl p0)
  end.

Definition read_range (a : arith) (c : cfg) (st : store) (acc : list sample) (s0 s1 : Z) : list sample :=
  let fl := file_list a c st s0 s1 in
  fold_left (fun acc p => add_metadata acc (groups st p) s0 s1 (is_edge_file p fl)) fl acc.

(* ---- get_bounds ---- *)
(* list_drf.ilsdrf: subdirectories by time, files of a subdirectory by time *)
Definition path_leb (p q : Z * Z) : bool := (fst p <? fst q) || ((fst p =? fst q) && (snd p <=? snd q)).
Fixpoint dedup (l : list (Z * Z)) : list (Z * Z) :=
  match l with
  | [] => []
  | p :: r => if existsb (path_eqb p) r then dedup r else p :: dedup r
  end.
Definition listing (st : store) : list (Z * Z) := isort path_leb (dedup (map e_path st)).

(* decimal digits, most significant first, and the order of Python str on them *)
Fixpoint digits_fuel (fuel : nat) (n : Z) (acc : list Z) : list Z :=
  match fuel with
  | O => acc
  | S f => if n <? 10 then n :: acc else digits_fuel f (n / 10) (n mod 10 :: acc)
  end.
Definition digits (n : Z) : list Z := digits_fuel (S (Z.to_nat (Z.log2 n))) n [].
Fixpoint lex_leb (x y : list Z) : bool :=
  match x, y with
  | [], _ => true
  | _ :: _, [] => false
  | a :: x', b :: y' => if a <? b then true else if b <? a then false else lex_leb x' y'
  end.
Definition name_leb (gs : gsort) (x y : sample) : bool :=
  match gs with
  | IntSort => fst x <=? fst y
  | StrSort => lex_leb (digits (fst x)) (digits (fst y))
  end.

(* first file (in the given order) whose sorted group names give a first / last element;
   a file without groups raises IndexError and is skipped *)
Fixpoint first_sample (gs : gsort) (st : store) (fs : list (Z * Z)) : option Z :=
  match fs with
  | [] => None
  | p :: r => match isort (name_leb gs) (groups st p) with
              | x :: _ => Some (fst x)
              | [] => first_sample gs st r
              end
  end.
Fixpoint last_sample (gs : gsort) (st : store) (fs : list (Z * Z)) : option Z :=
  match fs with
  | [] => None
  | p :: r => match rev (isort (name_leb gs) (groups st p)) with
              | x :: _ => Some (fst x)
              | [] => last_sample gs st r
              end
  end.
(* None = IOError("All attempts to read first/last sample failed") *)
Definition get_bounds (va : variant) (st : store) : option (Z * Z) :=
  match first_sample (v_gsort va) st (listing st) with
  | None => None
  | Some lo => match last_sample (v_gsort va) st (rev (listing st)) with
               | None => None
               | Some hi => Some (lo, hi)
               end
  end.

(* ---- read ---- *)
Inductive rres := ROk (l : list sample) | RValueError | RIOError.

(* forward fill: files of [first bound, start] in reverse; the last entry of the first file that
   contributes anything *)
Fixpoint ffill_scan (st : store) (fl_rev : list (Z * Z)) (sb s0 : Z) (edge : bool) : list sample :=
  match fl_rev with
  | [] => []
  | p :: r => match rev (add_metadata [] (groups st p) sb s0 edge) with
              | x :: _ => [x]
              | [] => ffill_scan st r sb s0 edge
              end
  end.

Definition read (va : variant) (c : cfg) (st : store) (start end_ : option Z) (ffill : bool) : rres :=
  let a := v_arith va in
  match (match start with Some s => Some s | None => option_map snd (get_bounds va st) end) with
  | None => RIOError
  | Some s0 =>
      let s1 := match end_ with Some e => e | None => s0 end in
      if s1 <? s0 then RValueError
      else if ffill then
        match get_bounds va st with
        | None => RIOError
        | Some (sb, _) =>
            let edge := match v_ffedge va with Clipped => true | WholeFile => false end in
            let acc := ffill_scan st (rev (file_list a c st sb s0)) sb s0 edge in
            ROk (read_range a c st acc (s0 + 1) s1)
        end
      else ROk (read_range a c st [] s0 s1)
  end.

Definition read_latest (va : variant) (c : cfg) (st : store) : rres :=
  match get_bounds va st with
  | None => RIOError
  | Some (_, hi) => read va c st (Some hi) None true
  end.

(* ------------------------------------------------------------------ Spec *)
(* what was written: the accepted samples, in order; an index that already exists is refused *)
Definition has_key (k : Z) (sp : list sample) : bool := existsb (fun x => fst x =? k) sp.
Fixpoint spec_call (sp : list sample) (l : list sample) : list sample * bool :=
  match l with
  | [] => (sp, true)
  | (k, v) :: r => if has_key k sp then (sp, false) else spec_call (sp ++ [(k, v)]) r
  end.
Definition spec_of (h : list (list sample)) : list sample :=
  fold_left (fun sp l => fst (spec_call sp l)) h [].
