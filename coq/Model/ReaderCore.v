(* Executable model of the RF reader, python/digital_rf/digital_rf_hdf5.py:
     DigitalRFReader._get_file_list      -> get_file_list   (candidate (subdir, file-ms) pairs)
     _top_level_dir_properties._read     -> read_rows_gen   (per index row clipping), found_files, pieces
     the dict `cont_data_dict` + sorted  -> dict_set / dict_of
     DigitalRFReader._combine_blocks     -> Base.Runs.combine / combine_len
     read / get_continuous_blocks        -> read_sel / read / get_continuous_blocks
     read_vector_raw                     -> read_vector_raw (gap / length checks and the shape logic)
     _get_bounds / get_bounds            -> get_bounds, get_bounds_multi
     get_properties(sample=k)            -> properties_file
   Definitions only (HOWTO); lemmas are in Proofs/ReaderProofs.v.

   Input of the model = what is on disk, abstracted: a channel directory is the list of its data
   files in listing order; a data file is (subdirectory timestamp [s], file timestamp [ms],
   rf_data_index rows (global sample, offset), rf_data rows).  The sample type V is abstract; the
   extracted instance (Extract/ReaderRunner.v) uses V := list Z, one row of subchannel values.

   Defect sites are parameters (DESIGN 2.6):
     lookup  = ExactRational (integer arithmetic on numerator/denominator; the code after the
               fix) | LongDouble (np.longdouble quotient then truncation; the code before it)
     squeeze = SqueezeAxis1 (drop only a singleton subchannel axis; after the fix)
             | SqueezeAll   (`z.squeeze()` then `len(z)`; before it). *)
From Coq Require Import ZArith List Lia Bool.
From DRF Require Import Base.DivLemmas Base.Runs Model.Ld80.
Import ListNotations.
Local Open Scope Z_scope.

Record cfg : Type := mkCfg {
  rn : Z;        (* sample_rate_numerator *)
  rd : Z;        (* sample_rate_denominator *)
  fcad : Z;      (* file_cadence_millisecs *)
  scad : Z       (* subdir_cadence_secs *)
}.

Inductive lookup : Type := ExactRational | LongDouble.
Inductive squeeze : Type := SqueezeAxis1 | SqueezeAll.

(* range(a, a+len) *)
Definition zseq (a len : Z) : list Z := map (fun i => a + Z.of_nat i) (seq 0 (Z.to_nat len)).

(* numpy basic slicing l[a:b] for 0 <= a (clips at the end of l) *)
Definition slice {A} (l : list A) (a b : Z) : list A :=
  firstn (Z.to_nat (b - a)) (skipn (Z.to_nat a) l).

(* ------------------------------------------------------------------ candidate files *)

(* samples_per_second as the reader stores it: longdouble(n) / longdouble(d) *)
Definition sps_ld (c : cfg) : ld := ld_div (ld_of_Z (rn c)) (ld_of_Z (rd c)).

(* int(np.uint64(np.uint64(k) / sps))            |  (k * d) // n *)
Definition sample_secs (lk : lookup) (c : cfg) (k : Z) : Z :=
  match lk with
  | ExactRational => k * rd c / rn c
  | LongDouble => ld_trunc (ld_div (ld_of_Z k) (sps_ld c))
  end.

(* int(np.uint64(np.uint64(k) / sps * 1000))     |  (k * d * 1000) // n *)
Definition sample_ms (lk : lookup) (c : cfg) (k : Z) : Z :=
  match lk with
  | ExactRational => k * rd c * 1000 / rn c
  | LongDouble => ld_trunc (ld_mul (ld_div (ld_of_Z k) (sps_ld c)) (ld_of_Z 1000))
  end.

(* One subdirectory: np.arange(sub*1000, (sub+sc)*1000, fc) compressed by
     ms + fc - 1 >= start_ms  and  ms <= end_ms.
   Written in closed form (first and last qualifying position of the arithmetic progression) so
   that the model does not enumerate a whole subdirectory: position j is kept iff
   0 <= j <= len-1, j >= ceil((start_ms - (fc-1) - sub*1000)/fc), j <= floor((end_ms - sub*1000)/fc). *)
Definition subdir_files (c : cfg) (start_ms end_ms sub : Z) : list (Z * Z) :=
  let q := cdiv (scad c * 1000) (fcad c) in
  let jlo := Z.max 0 (cdiv (start_ms - (fcad c - 1) - sub * 1000) (fcad c)) in
  let jhi := Z.min (q - 1) ((end_ms - sub * 1000) / fcad c) in
  map (fun j => (sub, sub * 1000 + j * fcad c)) (zseq jlo (jhi - jlo + 1)).

(* range(start_sub, end_sub + sc, sc) with start_sub = (start_ts // sc) * sc etc. *)
Definition get_file_list (lk : lookup) (c : cfg) (s e : Z) : list (Z * Z) :=
  let start_ts := sample_secs lk c s in
  let end_ts := sample_secs lk c e + 1 in
  let start_ms := sample_ms lk c s in
  let end_ms := sample_ms lk c e in
  let i0 := start_ts / scad c in
  let i1 := end_ts / scad c in
  flat_map (fun i => subdir_files c start_ms end_ms (i * scad c)) (zseq i0 (i1 - i0 + 1)).

(* ------------------------------------------------------------------ per-file clipping *)

(* the row loop of `_read`; `mk a b` is the payload for rf_data[a:b] (the data, or b - a when
   len_only).  A row whose clipped range is empty is skipped. *)
Fixpoint read_rows_gen {P} (mk : Z -> Z -> P) (rows : list (Z * Z)) (dlen : Z) (s e : Z)
  : list (Z * P) :=
  match rows with
  | [] => []
  | (block_start_sample, block_start_index) :: rest =>
      let block_stop_index := match rest with [] => dlen | (_, o') :: _ => o' end in
      let block_stop_sample := block_start_sample + (block_stop_index - block_start_index) in
      let tail := read_rows_gen mk rest dlen s e in
      let emit (read_start_index read_start_sample : Z) :=
        let read_stop_index :=
          if block_stop_sample <=? e + 1 then block_stop_index
          else block_stop_index - (block_stop_sample - (e + 1)) in
        if read_stop_index <=? read_start_index then tail
        else (read_start_sample, mk read_start_index read_stop_index) :: tail in
      if s <=? block_start_sample then emit block_start_index block_start_sample
      else if s <? block_stop_sample then emit (block_start_index + (s - block_start_sample)) s
      else tail
  end.

(* cont_data_dict[key] = value, listed by sorted(items()) *)
Fixpoint dict_set {P} (k : Z) (v : P) (d : list (Z * P)) : list (Z * P) :=
  match d with
  | [] => [(k, v)]
  | (k', v') :: r => if k <? k' then (k, v) :: d
                     else if k =? k' then (k, v) :: r
                     else (k', v') :: dict_set k v r
  end.
Definition dict_of {P} (l : list (Z * P)) : list (Z * P) :=
  fold_left (fun d p => dict_set (fst p) (snd p) d) l [].

Inductive vres {W : Type} : Type :=
| VOk (dims : list Z) (dat : list W)
| VIOError
| VTypeError.
Arguments vres : clear implicits.

Inductive pres {F : Type} : Type := PFile (f : F) | PIOError | PValueError.
Arguments pres : clear implicits.

Fixpoint first_some {A B} (g : A -> option B) (l : list A) : option B :=
  match l with
  | [] => None
  | a :: r => match g a with Some x => Some x | None => first_some g r end
  end.
(* the same loop over the reversed listing *)
Fixpoint last_some {A B} (g : A -> option B) (l : list A) : option B :=
  match l with
  | [] => None
  | a :: r => match last_some g r with Some x => Some x | None => g a end
  end.

Section Reader.
Context {V : Type}.

Record rfile : Type := mkFile {
  file_sub : Z;                  (* subdirectory timestamp, seconds *)
  file_ms : Z;                   (* rf@<sec>.<ms>.h5 as milliseconds *)
  findex : list (Z * Z);         (* rf_data_index rows: (global sample, offset into rf_data) *)
  fdata : list V                 (* rf_data rows *)
}.

Definition dlen (f : rfile) : Z := Z.of_nat (length (fdata f)).

(* os.access(<top>/<channel>/<subdir>/rf@<sec>.<ms>.h5) *)
Definition find_file (fs : list rfile) (cand : Z * Z) : option rfile :=
  find (fun f => (file_sub f =? fst cand) && (file_ms f =? snd cand)) fs.

Definition found_files (lk : lookup) (c : cfg) (fs : list rfile) (s e : Z) : list rfile :=
  flat_map (fun cand => match find_file fs cand with Some f => [f] | None => [] end)
           (get_file_list lk c s e).

Definition pieces_gen {P} (mk : rfile -> Z -> Z -> P) (lk : lookup) (c : cfg) (fs : list rfile)
  (s e : Z) : list (Z * P) :=
  flat_map (fun f => read_rows_gen (mk f) (findex f) (dlen f) s e) (found_files lk c fs s e).

Definition mk_data {W} (sel : V -> W) (f : rfile) (a b : Z) : list W := map sel (slice (fdata f) a b).
Definition mk_len (f : rfile) (a b : Z) : Z := b - a.

(* read(start, end, channel, sub_channel): `sel` is the column selection (identity for None) *)
Definition read_sel {W} (sel : V -> W) (lk : lookup) (c : cfg) (fs : list rfile) (s e : Z)
  : list (@block W) :=
  combine (dict_of (pieces_gen (mk_data sel) lk c fs s e)).

Definition read (lk : lookup) (c : cfg) (fs : list rfile) (s e : Z) : list (@block V) :=
  read_sel (fun v => v) lk c fs s e.

Definition get_continuous_blocks (lk : lookup) (c : cfg) (fs : list rfile) (s e : Z) : list (Z * Z) :=
  combine_len (dict_of (pieces_gen mk_len lk c fs s e)).

(* several top-level directories holding the same channel: every directory adds to one dict *)
Definition read_multi {W} (sel : V -> W) (lk : lookup) (c : cfg) (dirs : list (list rfile)) (s e : Z)
  : list (@block W) :=
  combine (dict_of (flat_map (fun fs => pieces_gen (mk_data sel) lk c fs s e) dirs)).

Definition get_continuous_blocks_multi (lk : lookup) (c : cfg) (dirs : list (list rfile)) (s e : Z)
  : list (Z * Z) :=
  combine_len (dict_of (flat_map (fun fs => pieces_gen mk_len lk c fs s e) dirs)).

(* read_vector_raw(start, vector_length, channel, sub_channel).  `is_sub` = a sub_channel index
   was given (the blocks are then 1-d), `nsub` = number of subchannels. *)
Definition vector_of_blocks {W} (sq : squeeze) (is_sub : bool) (nsub : Z) (L : Z)
  (r : list (@block W)) : vres W :=
  match r with
  | [] => VIOError                                   (* "No data found" *)
  | [b] =>
      let shape := if is_sub then [blen b] else [blen b; nsub] in
      match sq with
      | SqueezeAll =>
          match filter (fun x => negb (x =? 1)) shape with
          | [] => VTypeError                         (* len() of a 0-d array *)
          | l0 :: sh => if l0 =? L then VOk (l0 :: sh) (snd b) else VIOError
          end
      | SqueezeAxis1 =>
          let sh := match shape with [a; 1] => [a] | _ => shape end in
          if hd 0 sh =? L then VOk sh (snd b) else VIOError
      end
  | _ => VIOError                                    (* "Data gaps found" *)
  end.

Definition read_vector_raw {W} (sq : squeeze) (sel : V -> W) (is_sub : bool) (nsub : Z)
  (lk : lookup) (c : cfg) (fs : list rfile) (s L : Z) : vres W :=
  if L <? 1 then VIOError
  else vector_of_blocks sq is_sub nsub L (read_sel sel lk c fs s (s + (L - 1))).

(* _get_first_sample / _get_last_sample; an empty index raises IndexError -> file ignored *)
Definition first_sample (f : rfile) : option Z :=
  match findex f with (g, _) :: _ => Some g | [] => None end.
Definition last_sample (f : rfile) : option Z :=
  match last (map Some (findex f)) None with
  | Some (g, o) => Some (g + (dlen f - (o + 1)))
  | None => None
  end.

Definition get_bounds (fs : list rfile) : option Z * option Z :=
  (first_some first_sample fs, last_some last_sample fs).

(* DigitalRFReader.get_bounds over several top-level directories, as written *)
Definition get_bounds_multi (dirs : list (list rfile)) : option Z * option Z :=
  fold_left (fun acc fs =>
               let '(tf, tl) := get_bounds fs in
               match acc with
               | (Some af, al) =>
                   match tf with
                   | Some tf' =>
                       (Some (if tf' <? af then tf' else af),
                        match tl, al with
                        | Some tl', Some al' => Some (if al' <? tl' then tl' else al')
                        | _, _ => al
                        end)
                   | None => acc
                   end
               | (None, _) => match tf with Some _ => (tf, tl) | None => acc end
               end) dirs (None, None).

(* get_properties(channel, sample=k): which file's attributes are reported *)
Definition properties_file (lk : lookup) (c : cfg) (fs : list rfile) (k : Z) : pres rfile :=
  match get_file_list lk c k k with
  | [cand] => match find_file fs cand with Some f => PFile f | None => PIOError end
  | _ => PValueError
  end.

(* ------------------------------------------------------------------ abstraction (what the files say) *)

Fixpoint rows_abs (rows : list (Z * Z)) (dl : Z) (dat : list V) (k : Z) : option V :=
  match rows with
  | [] => None
  | (g, o) :: rest =>
      let stop := match rest with [] => dl | (_, o') :: _ => o' end in
      if (g <=? k) && (k <? g + (stop - o)) then nth_error dat (Z.to_nat (o + (k - g)))
      else rows_abs rest dl dat k
  end.
Definition file_abs (f : rfile) (k : Z) : option V := rows_abs (findex f) (dlen f) (fdata f) k.
Definition files_abs (fs : list rfile) (k : Z) : option V := first_some (fun f => file_abs f k) fs.

(* ------------------------------------------------------------------ the file-set invariant *)

Definition cfg_ok (c : cfg) : Prop :=
  0 < rn c /\ 0 < rd c /\ 0 < fcad c /\ 0 < scad c /\ (scad c * 1000) mod fcad c = 0.

(* first sample index of the cadence slot that starts at millisecond t *)
Definition slot_lo (c : cfg) (t : Z) : Z := cdiv (t * rn c) (1000 * rd c).

(* every row: offsets strictly increasing and inside rf_data, its samples inside [lo, hi), and
   not overlapping the next row *)
Fixpoint rows_ok (rows : list (Z * Z)) (dl lo hi : Z) : Prop :=
  match rows with
  | [] => True
  | (g, o) :: rest =>
      let stop := match rest with [] => dl | (_, o') :: _ => o' end in
      0 <= o /\ o < stop /\ stop <= dl /\ lo <= g /\ g + (stop - o) <= hi /\
      match rest with [] => True | (g', _) :: _ => g + (stop - o) <= g' end /\
      rows_ok rest dl lo hi
  end.

Definition file_ok (c : cfg) (f : rfile) : Prop :=
  findex f <> [] /\
  (match findex f with (_, o) :: _ => o = 0 | [] => True end) /\
  rows_ok (findex f) (dlen f) (slot_lo c (file_ms f)) (slot_lo c (file_ms f + fcad c)) /\
  0 <= file_ms f /\ file_ms f mod fcad c = 0 /\
  file_sub f = file_ms f / 1000 / scad c * scad c.

Fixpoint ms_sorted (fs : list rfile) : Prop :=
  match fs with
  | [] => True
  | f :: r => match r with [] => True | f' :: _ => file_ms f < file_ms f' end /\ ms_sorted r
  end.

Definition FilesInv (c : cfg) (fs : list rfile) : Prop :=
  cfg_ok c /\ Forall (file_ok c) fs /\ ms_sorted fs.

(* executable checker, run by the harness on every channel the real writer produced *)
Definition cfg_ok_b (c : cfg) : bool :=
  (0 <? rn c) && (0 <? rd c) && (0 <? fcad c) && (0 <? scad c) && ((scad c * 1000) mod fcad c =? 0).

Fixpoint rows_ok_b (rows : list (Z * Z)) (dl lo hi : Z) : bool :=
  match rows with
  | [] => true
  | (g, o) :: rest =>
      let stop := match rest with [] => dl | (_, o') :: _ => o' end in
      (0 <=? o) && (o <? stop) && (stop <=? dl) && (lo <=? g) && (g + (stop - o) <=? hi) &&
      match rest with [] => true | (g', _) :: _ => g + (stop - o) <=? g' end &&
      rows_ok_b rest dl lo hi
  end.

Definition file_ok_b (c : cfg) (f : rfile) : bool :=
  match findex f with (_, o) :: _ => o =? 0 | [] => false end &&
  rows_ok_b (findex f) (dlen f) (slot_lo c (file_ms f)) (slot_lo c (file_ms f + fcad c)) &&
  (0 <=? file_ms f) && (file_ms f mod fcad c =? 0) &&
  (file_sub f =? file_ms f / 1000 / scad c * scad c).

Fixpoint ms_sorted_b (fs : list rfile) : bool :=
  match fs with
  | [] => true
  | f :: r => match r with [] => true | f' :: _ => file_ms f <? file_ms f' end && ms_sorted_b r
  end.

Definition files_inv_b (c : cfg) (fs : list rfile) : bool :=
  cfg_ok_b c && forallb (file_ok_b c) fs && ms_sorted_b fs.

(* several top-level directories: every directory satisfies the invariant and no file period is
   recorded in two directories (side condition of the multi-directory theorems, C11) *)
Fixpoint nodup_zb (l : list Z) : bool :=
  match l with
  | [] => true
  | x :: r => negb (existsb (Z.eqb x) r) && nodup_zb r
  end.

Definition dirs_ok (c : cfg) (dirs : list (list rfile)) : Prop :=
  cfg_ok c /\ Forall (FilesInv c) dirs /\ NoDup (map file_ms (concat dirs)).

Definition dirs_ok_b (c : cfg) (dirs : list (list rfile)) : bool :=
  cfg_ok_b c && forallb (files_inv_b c) dirs && nodup_zb (map file_ms (concat dirs)).

(* the recording held by several directories *)
Definition dirs_abs (dirs : list (list rfile)) (k : Z) : option V :=
  first_some (fun fs => files_abs fs k) dirs.

End Reader.
Arguments rfile : clear implicits.
