(* x87 80-bit extended precision ("np.longdouble" on x86-64), restricted to what the pre-fix
   Digital Metadata code used: positive, normal-range values; conversion from uint64 (exact),
   multiplication, division (round to nearest, ties to even, 64-bit significand) and truncation
   to an integer.  A value is (m, e) meaning m * 2^e with 2^63 <= m < 2^64, or (0, 0).
   Only used for the *variant* models of defect sites (DESIGN 2.6); no theorem about the fixed
   code depends on it. *)
From Coq Require Import ZArith Bool.
Local Open Scope Z_scope.
Local Open Scope bool_scope.

Definition ld : Type := (Z * Z)%type.

Definition P63 : Z := 9223372036854775808.
Definition P64 : Z := 18446744073709551616.

(* p/q > 0 rounded to 64 significant bits, nearest-even *)
Definition ld_round (p q : Z) : ld :=
  if (p <=? 0) || (q <=? 0) then (0, 0) else
  let e0 := Z.log2 p - Z.log2 q - 63 in
  let scaled (e : Z) := if 0 <=? e then (p, q * 2 ^ e) else (p * 2 ^ (- e), q) in
  let e := (let '(a, b) := scaled e0 in if a / b <? P63 then e0 - 1 else e0) in
  let '(a, b) := scaled e in
  let m := a / b in
  let r := a mod b in
  let up := (b <? 2 * r) || ((b =? 2 * r) && Z.odd m) in
  let m' := if up then m + 1 else m in
  if m' =? P64 then (P63, e + 1) else (m', e).

Definition ld_of_Z (z : Z) : ld := ld_round z 1.

Definition ld_div (x y : ld) : ld :=
  let '(m1, e1) := x in let '(m2, e2) := y in
  let de := e1 - e2 in
  if 0 <=? de then ld_round (m1 * 2 ^ de) m2 else ld_round m1 (m2 * 2 ^ (- de)).

Definition ld_mul (x y : ld) : ld :=
  let '(m1, e1) := x in let '(m2, e2) := y in
  let e := e1 + e2 in
  if 0 <=? e then ld_round (m1 * m2 * 2 ^ e) 1 else ld_round (m1 * m2) (2 ^ (- e)).

(* conversion to an unsigned integer truncates *)
Definition ld_trunc (x : ld) : Z :=
  let '(m, e) := x in if 0 <=? e then m * 2 ^ e else m / 2 ^ (- e).
