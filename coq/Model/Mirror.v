(* Executable model of python/digital_rf/mirror.py (C17): mirror_to_dest as a sequence of
   atomic file-system operations, the handler set DigitalRFMirror builds per method, and the
   count=1 ring buffer it puts on the source metadata in move mode (Model/Ringbuffer.v).
   Definitions only.

   Files are Ringbuffer paths (group, key, sub); the kind of a file is a function of its group:
   group >= 0 even: RF data, odd: metadata data; -1 / -2: drf / dmd properties; below: anything
   else (tmp. files, foreign names).  A content is an integer id.  The source tree is the disk of
   the ring-buffer state (so the ring buffer's deletions and the mirror's moves act on the same
   files); the destination tree maps names -- final or 'tmp.' + name -- to a content and a flag
   telling whether the file is complete. *)
From Coq Require Import ZArith List Bool Lia.
From DRF Require Import Model.Ringbuffer.
Import ListNotations.
Local Open Scope Z_scope.

Definition kind_rf (p : path) : bool := (0 <=? pg p) && Z.even (pg p).
Definition kind_md (p : path) : bool := (0 <=? pg p) && Z.odd (pg p).
Definition kind_prop (p : path) : bool := (pg p =? -1) || (pg p =? -2).
Definition mirrorable (p : path) : bool := kind_rf p || kind_md p || kind_prop p.

Inductive method := MCopy | MMove | MLink.
(* m_same_fs: shutil.move can rename (else copy + unlink); m_linkable: os.link works (else
   LinkWithFallback copies) *)
(* m_drf / m_dmd: the include_drf / include_dmd options (which kinds are selected) *)
Record mcfg := mkM { m_meth : method; m_same_fs : bool; m_linkable : bool; m_drf : bool; m_dmd : bool }.
Inductive mode := Copy | Move | Link.

Inductive dname := Fin (p : path) | Tmp (p : path).
Definition dname_eqb (a b : dname) : bool :=
  match a, b with
  | Fin p, Fin q => path_eqb p q
  | Tmp p, Tmp q => path_eqb p q
  | _, _ => false
  end.
(* dc: content; dok: complete; dl: the name is a hard link to the source file of the same path
   (so a rewrite of the source file in place shows through) *)
Record dfile := mkD { dc : Z; dok : bool; dl : bool }.
Definition name_path (n : dname) : path := match n with Fin p => p | Tmp p => p end.

Fixpoint dget (n : dname) (l : list (dname * dfile)) : option dfile :=
  match l with
  | [] => None
  | (x, v) :: r => if dname_eqb n x then Some v else dget n r
  end.
Definition ddel (n : dname) (l : list (dname * dfile)) : list (dname * dfile) :=
  filter (fun a => negb (dname_eqb n (fst a))) l.
Definition dset (n : dname) (v : dfile) (l : list (dname * dfile)) : list (dname * dfile) :=
  (n, v) :: ddel n l.

(* the ring buffer of mirror.py:308: count=1, metadata only *)
Definition rbc : cfg := mkCfg None (Some 1) None CountOnce.

(* nolink: LinkWithFallback.unlinkable_path_pairs -- directories (group, sub) for which os.link
   raised once (also for a vanished source!) and every later file is copied *)
Record mst := mkMst { ring : st; dst : list (dname * dfile); nolink : list (Z * Z) }.
Definition dir_of (p : path) : Z * Z := (pg p, ps p).
Definition dir_mem (d : Z * Z) (l : list (Z * Z)) : bool :=
  existsb (fun e => (fst e =? fst d) && (snd e =? snd d)) l.
Definition src (s : mst) : list (path * Z) := disk (ring s).
Definition minit : mst := mkMst init [] [].

(* atomic file-system operations (a copy is two: the file exists under its name before it is complete) *)
Inductive fop :=
| FEnvWrite (p : path) (c : Z) | FEnvRemove (p : path)        (* the recorder, behind the mirror's back *)
| FCopyBegin (p : path) (n : dname) | FCopyEnd (p : path) (n : dname)
| FLink (p : path) (n : dname)                                (* FileExistsError tolerated *)
| FRenameIn (p : path) (n : dname)                            (* rename from the source tree *)
| FUnlinkSrc (p : path)
| FRename (a b : dname)
| FNoLink (p : path)                                          (* os.link failed: remember the directory *)
| FRing (o : op).                                             (* the ring-buffer handler handles an event *)

Definition ring_step (s : mst) (o : op) : mst := mkMst (step rbc (ring s) o) (dst s) (nolink s).

(* an in-place rewrite of source file p is seen through every hard link to it; removing the
   source name ends the aliasing *)
Definition relink (p : path) (f : dfile -> dfile) (l : list (dname * dfile)) : list (dname * dfile) :=
  map (fun a => if dl (snd a) && path_eqb (name_path (fst a)) p then (fst a, f (snd a)) else a) l.

Definition apply_fop (s : mst) (f : fop) : mst :=
  match f with
  | FEnvWrite p c =>
      mkMst (step rbc (ring s) (EnvWrite p c))
            (match rget p (src s) with
             | Some _ => relink p (fun v => mkD c (dok v) true) (dst s)
             | None => dst s end) (nolink s)
  | FEnvRemove p => mkMst (step rbc (ring s) (EnvRemove p)) (relink p (fun v => mkD (dc v) (dok v) false) (dst s)) (nolink s)
  | FCopyBegin p n =>
      match rget p (src s) with
      | Some c => mkMst (ring s) (dset n (mkD c false false) (dst s)) (nolink s) | None => s end
  | FCopyEnd p n =>
      match rget p (src s) with
      | Some c => mkMst (ring s) (dset n (mkD c true false) (dst s)) (nolink s) | None => s end
  | FLink p n =>
      match rget p (src s), dget n (dst s) with
      | Some c, None => mkMst (ring s) (dset n (mkD c true true) (dst s)) (nolink s) | _, _ => s end
  | FRenameIn p n =>
      match rget p (src s) with
      | Some c => mkMst (step rbc (ring s) (EnvRemove p)) (dset n (mkD c true false) (dst s)) (nolink s) | None => s end
  | FUnlinkSrc p => ring_step s (EnvRemove p)
  | FRename a b =>
      match dget a (dst s) with
      | Some v => mkMst (ring s) (dset b v (ddel a (dst s))) (nolink s) | None => s end
  | FNoLink p => mkMst (ring s) (dst s) (dir_of p :: nolink s)
  | FRing o => ring_step s o
  end.

Definition exec (s : mst) (l : list fop) : mst := fold_left apply_fop l s.
Fixpoint states (s : mst) (l : list fop) : list mst :=
  match l with [] => [] | f :: r => apply_fop s f :: states (apply_fop s f) r end.

(* mirror_fun(src_path, tmp_dest_path) *)
Definition stage (mc : mcfg) (m : mode) (s : mst) (p : path) : list fop :=
  let copy := [FCopyBegin p (Tmp p); FCopyEnd p (Tmp p)] in
  match m with
  | Copy => copy
  | Link => if dir_mem (dir_of p) (nolink s) then copy
            else if m_linkable mc then [FLink p (Tmp p)] else FNoLink p :: copy
  | Move => if m_same_fs mc then [FRenameIn p (Tmp p)] else copy ++ [FUnlinkSrc p]
  end.

(* os.path.exists(dest_path) and filecmp.cmp(src_path, dest_path) *)
Definition up_to_date (s : mst) (p : path) (c : Z) : bool :=
  match dget (Fin p) (dst s) with Some d => (dc d =? c) && dok d | None => false end.

(* mirror_to_dest: a vanished source is a tolerated OSError; an equal destination is left alone;
   otherwise stage under tmp.<name>, then rename.  (makedirs / rmdir do not touch files.) *)
Definition mirror_plan (mc : mcfg) (m : mode) (s : mst) (p : path) : list fop :=
  match rget p (src s) with
  | None =>
      (* exists(dest) false -> mirror_fun runs and fails; the link method remembers the directory *)
      match m, dget (Fin p) (dst s) with
      | Link, None => if dir_mem (dir_of p) (nolink s) then [] else [FNoLink p]
      | _, _ => []
      end
  | Some c => if up_to_date s p c then [] else stage mc m s p ++ [FRename (Tmp p) (Fin p)]
  end.

(* DigitalRFMirror.__init__: event_handlers in list order, each with what its regexes match *)
Inductive hnd := HMirror (m : mode) | HRing.
(* what the copy-like handler's regexes match: include_drf (only when RF is not moved), include_dmd,
   include_drf_properties = include_drf, include_dmd_properties = include_dmd *)
Definition copy_match (mc : mcfg) (with_rf : bool) (p : path) : bool :=
  (with_rf && m_drf mc && kind_rf p) || (m_dmd mc && kind_md p) ||
  (m_drf mc && (pg p =? -1)) || (m_dmd mc && (pg p =? -2)).
Definition mirror_handlers (mc : mcfg) : list (hnd * (path -> bool)) :=
  match m_meth mc with
  | MCopy => [(HMirror Copy, copy_match mc true)]
  | MLink => [(HMirror Link, copy_match mc true)]
  | MMove => (HMirror Copy, copy_match mc false) :: (if m_drf mc then [(HMirror Move, kind_rf)] else [])
  end.
Definition ring_handlers (mc : mcfg) : list (hnd * (path -> bool)) :=
  match m_meth mc with
  | MMove => if m_dmd mc then [(HRing, kind_md)] else []
  | _ => []
  end.
Definition handlers (mc : mcfg) : list (hnd * (path -> bool)) := mirror_handlers mc ++ ring_handlers mc.

(* the files of the selected kinds *)
Definition selected (mc : mcfg) (p : path) : bool :=
  (m_drf mc && (kind_rf p || (pg p =? -1))) || (m_dmd mc && (kind_md p || (pg p =? -2))).

Inductive mev :=
| EWrite (p : path) (c : Z) | ERemove (p : path)
| ECreated (p : path) | EModified (p : path) | EDeleted (p : path) | EMoved (p q : path).

Definition react (mc : mcfg) (hd : hnd) (s : mst) (created : bool) (p : path) : list fop :=
  match hd with
  | HMirror m => mirror_plan mc m s p
  | HRing => [FRing (if created then Created p else Modified p)]
  end.
Definition react_deleted (hd : hnd) (p : path) : list fop :=
  match hd with HMirror _ => [] | HRing => [FRing (Deleted p)] end.

(* DigitalRFEventHandler.dispatch: a move with one matching side becomes a deletion / a creation *)
Definition handler_fops (mc : mcfg) (hm : hnd * (path -> bool)) (s : mst) (e : mev) : list fop :=
  let '(hd, mt) := hm in
  match e with
  | EWrite _ _ | ERemove _ => []
  | ECreated p => if mt p then react mc hd s true p else []
  | EModified p => if mt p then react mc hd s false p else []
  | EDeleted p => if mt p then react_deleted hd p else []
  | EMoved p q =>
    match mt p, mt q with
    | true, true => match hd with HMirror _ => [] | HRing => [FRing (Moved p q)] end
    | true, false => react_deleted hd p
    | false, true => react mc hd s true q
    | false, false => []
    end
  end.

Fixpoint handlers_fops (mc : mcfg) (hs : list (hnd * (path -> bool))) (s : mst) (e : mev) : list fop :=
  match hs with
  | [] => []
  | hm :: r => let l := handler_fops mc hm s e in l ++ handlers_fops mc r (exec s l) e
  end.

Definition event_fops (mc : mcfg) (s : mst) (e : mev) : list fop :=
  match e with
  | EWrite p c => [FEnvWrite p c]
  | ERemove p => [FEnvRemove p]
  | _ => handlers_fops mc (handlers mc) s e
  end.

Fixpoint run_fops (mc : mcfg) (s : mst) (evs : list mev) : list fop :=
  match evs with
  | [] => []
  | e :: r => let l := event_fops mc s e in l ++ run_fops mc (exec s l) r
  end.

Definition mrun (mc : mcfg) (evs : list mev) : mst := exec minit (run_fops mc minit evs).
Definition mtrace (mc : mcfg) (evs : list mev) : list mst := states minit (run_fops mc minit evs).
