(* C15 -- the bounded universe of the property (DESIGN Appendix C), as Coq data: the theorems
   C15_*_bounded quantify over exactly these lists, and the harness enumerates exactly these lists
   (read back through the extracted runner) against the real DigitalRFEventHandler. *)
From Coq Require Import ZArith List Bool.
From DRF Require Import Base.Regex Base.WordLit Gen.Grammar Model.PathSpec Model.Events.
Import ListNotations.
Local Open Scope Z_scope.

Definition u_chans : list word := [W "/w/ch0"; W "/w/a/b/ch1"; W "/w/ch0/metadata"].

(* (component, inside the claim?) ; None = file directly in the channel directory *)
Definition u_subs : list (option word * bool) :=
  [ (Some (W "2017-07-14T02-00-00"), true);
    (None, true);
    (Some (W "2017-07-14T02-00-0"), true);        (* one digit short *)
    (Some (W "2017-07-14 02-00-00"), true);       (* space for T *)
    (Some (W "x2017-07-14T02-00-00"), true);      (* extra leading character *)
    (Some (W "2017-07-14T02-00-00x"), true);      (* extra trailing character *)
    (Some (W "2017-07-14T02-00-000"), true);      (* one digit more *)
    (Some (W "2017-07-14t02-00-00"), false);      (* case variant of the fixed T: outside the claim *)
    (Some (W "2017-13-41T25-61-61"), false) ].    (* impossible date: datetime raises in the listing *)

Definition u_files : list (word * bool) :=
  [ (W "rf@1500000000.000.h5", true);
    (W "ch@1500000000.123.h5", true);
    (W "metadata@1500000000.h5", true);
    (W "drf_properties.h5", true);
    (W "dmd_properties.h5", true);
    (W "metadata.h5", true);
    (W "tmp.rf@1500000000.000.h5", true);
    (W "tmp.ch@1500000000.123.h5", true);
    (W "tmp.metadata@1500000000.h5", true);
    (W "rf@1500000000.00.h5", true);              (* fraction of 2 digits *)
    (W "rf@1500000000.0000.h5", true);            (* fraction of 4 digits *)
    (W "rf@.000.h5", true);                       (* empty seconds *)
    (W "metadata@.h5", true);
    (W "rf1500000000.000.h5", true);              (* missing @ *)
    (W "@1500000000.000.h5", true);               (* empty name *)
    (W "rf@15000x0000.000.h5", true);             (* non-digit inside the seconds *)
    (W "rf@1500000000.000.h4", true);
    (W "metadata@1500000000.h4", true);
    (W "rf@1500000000.000.h5.bak", true);
    (W "xdrf_properties.h5", true);
    (W "drf_properties.h5x", true);
    (W "tmp.drf_properties.h5", true);
    (W "tmp.dmd_properties.h5", true);
    (W "tmp.metadata.h5", true);
    (W "a@b@1500000000.123.h5", true);            (* @ inside the name *)
    (W "RF@1500000000.000.H5", false);            (* upper-cased fixed parts: outside the claim *)
    (W "rf@1500000000.000.H5", false);
    (W "DRF_PROPERTIES.h5", false);
    (W "Metadata.h5", false) ].

Definition join (a b : word) : word := a ++ sep :: b.

Definition mk_path (ch : word) (sub : option word) (file : word) : word :=
  match sub with Some s => join (join ch s) file | None => join ch file end.

(* (path, in the claim) *)
Definition u_paths : list (word * bool) :=
  flat_map (fun ch =>
    flat_map (fun sb =>
      map (fun fl => (mk_path ch (fst sb) (fst fl), snd sb && snd fl)) u_files) u_subs) u_chans.

(* destinations of a move from p = dir/base: base without "tmp.", "tmp."+base, a valid
   sibling, a near-miss sibling, the same name in another channel *)
Definition strip_tmp (b : word) : word :=
  if starts_with (W "tmp.") b then skipn 4 b else b.

Definition u_moves (p : word) : list (word * bool) :=
  match split_last p with
  | None => []
  | Some (d, base) =>
    [ (join d (strip_tmp base), true);
      (join d (W "tmp." ++ base), true);
      (join d (if word_eqb base (W "ch@1500000000.123.h5") then W "rf@1500000000.000.h5"
               else W "ch@1500000000.123.h5"), true);
      (join d (W "rf@1500000000.00.h5"), true);
      (W "/w/other/2017-07-14T02-00-00/" ++ base, true) ]
  end.

Definition u_bools : list bool := [true; false].
Definition u_obools : list (option bool) := [None; Some true; Some false].
Definition u_flags : list flags :=
  flat_map (fun a => flat_map (fun b => flat_map (fun c => map (fun d => mkFlags a b c d) u_obools)
    u_obools) u_bools) u_bools.

Definition u_kinds : list kind := [Created; Modified; Deleted].

