(* Primitives the regenerated list_drf._decorated_list_slice (Gen/ListSliceGen.v, translator T14) is
   expressed in.  Executable definitions only.

   bisect_left is the SPECIFICATION of Python's bisect.bisect_left(a, (x,), lo) on a list `a` of tuples
   whose first components `t` are in ascending order: the first index i >= lo with not (a[i] < (x,)),
   i.e. with t[i] >= x (a tuple (t_i, ..) is smaller than the 1-tuple (x,) iff t_i < x).  On an ascending
   list this is lo + the number of leading entries from lo on that are < x.  (CPython's bisect module is
   not translated; that it meets this specification on ascending lists is part of the trusted base.) *)
From Coq Require Import ZArith List Bool Arith.
Import ListNotations.

Fixpoint take_while {A} (p : A -> bool) (l : list A) : list A :=
  match l with
  | [] => []
  | x :: l' => if p x then x :: take_while p l' else []
  end.

Definition bisect_left (t : list Z) (x : Z) (lo : nat) : nat :=
  lo + length (take_while (fun y => (y <? x)%Z) (skipn lo t)).

(* dec_list[i][0]; the default is never used by an in-range access *)
Definition nth_time (t : list Z) (i : nat) : Z := nth i t 0%Z.

(* while c(v): v = f(v)   on explicit fuel *)
Fixpoint while_nat (c : nat -> bool) (f : nat -> nat) (fuel : nat) (v : nat) : nat :=
  match fuel with
  | O => v
  | S fuel' => if c v then while_nat c f fuel' (f v) else v
  end.
