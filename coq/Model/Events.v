(* C15 -- model of digital_rf.watchdog_drf.DigitalRFEventHandler: the regex list built from the
   include flags (watchdog_drf.py 113-132) and `dispatch` (134-199).  The path patterns e_re_* are
   regenerated from the source (Gen/Grammar.v) together with the flag they are compiled with
   (watchdog's RegexMatchingEventHandler default case_sensitive=False -> re.IGNORECASE).
   Executable definitions only. *)
From Coq Require Import ZArith List Bool.
From DRF Require Import Base.Regex Gen.Grammar Model.PathSpec.
Import ListNotations.
Local Open Scope Z_scope.

(* ---- regex selection: self.regexes, in order; [] stands for the ValueError *)
Inductive rx := RxDrfDmd | RxDrf | RxDmd | RxDrfDmdProp | RxDrfProp | RxDmdProp.

Definition re_of (x : rx) : re :=
  match x with
  | RxDrfDmd => e_re_drfdmd | RxDrf => e_re_drf | RxDmd => e_re_dmd
  | RxDrfDmdProp => e_re_drfdmdprop | RxDrfProp => e_re_drfprop | RxDmdProp => e_re_dmdprop
  end.

Definition select (f : flags) : list rx :=
  (if inc_drf f && inc_dmd f then [RxDrfDmd]
   else if inc_drf f then [RxDrf]
   else if inc_dmd f then [RxDmd]
   else [])
  ++
  (if eff_drfp f && eff_dmdp f then [RxDrfDmdProp]
   else if eff_drfp f then [RxDrfProp]
   else if eff_dmdp f then [RxDmdProp]
   else []).

Definition select_regexes (f : flags) : list re := map re_of (select f).

(* ---- events *)
Inductive kind := Created | Modified | Deleted | Moved.

Record event := mkEvent {
  ev_kind : kind;
  ev_dir : bool;
  ev_src : word;
  ev_dest : word }.            (* "" for the non-move events *)

Inductive outcome :=
| Dropped
| Deliver (k : kind) (src dest : word)     (* on_<k>(event with these paths) *)
| Raises.                                  (* int() on a captured text that is not a number *)

(* `for r in self.regexes: m = r.match(path); if m: match = m` -- the LAST matching pattern *)
Fixpoint match_last (rs : list re) (p : word) (acc : option caps) : option caps :=
  match rs with
  | [] => acc
  | r :: rs' => match_last rs' p (match rmatch events_ci r p with Some c => Some c | None => acc end)
  end.

(* what dispatch learns from one path: None = no pattern matched (or the path is empty) *)
Definition classify (rs : list re) (p : word) : option tinfo :=
  match p with
  | [] => None
  | _ => option_map time_of (match_last rs p None)
  end.

Definition nonempty (w : word) : bool := match w with [] => false | _ => true end.

(* lines 150-199 given the two classifications: first what happens to the event ... *)
Inductive decision :=
| DDrop                      (* return without dispatching *)
| DKeep                      (* dispatch the event as it is *)
| DDeleted                   (* dispatch FileDeletedEvent(src) *)
| DCreated                   (* dispatch FileCreatedEvent(dest) *)
| DRaise.

Definition decide (st en : option Z) (match_time : bool) (is_dir has_dest : bool)
    (sm dm : option tinfo) : decision :=
  if is_dir then DDrop                                       (* ignore_directories=True *)
  else
    let dm := if has_dest then dm else None in
    let delivered :=
      if has_dest then
        match sm, dm with
        | Some _, None => DDeleted
        | None, Some _ => DCreated
        | _, _ => DKeep
        end
      else DKeep in
    (* `match` is the destination's match object when the destination matched *)
    match (match dm with Some t => Some t | None => sm end) with
    | None => DDrop
    | Some ti =>
      if match_time then
        match ti with
        | NoTime => delivered
        | BadInt => DRaise
        | Time t =>
          if (match st with Some s => t <? s | None => false end) then DDrop
          else if (match en with Some e => e <? t | None => false end) then DDrop
          else delivered
        end
      else delivered
    end.

(* ... then which on_* method sees which paths *)
Definition render (ev : event) (d : decision) : outcome :=
  match d with
  | DDrop => Dropped
  | DKeep => Deliver (ev_kind ev) (ev_src ev) (ev_dest ev)
  | DDeleted => Deliver Deleted (ev_src ev) []
  | DCreated => Deliver Created (ev_dest ev) []
  | DRaise => Raises
  end.

Definition dispatch_core (st en : option Z) (match_time : bool) (ev : event)
    (sm dm : option tinfo) : outcome :=
  render ev (decide st en match_time (ev_dir ev) (nonempty (ev_dest ev)) sm dm).

Definition dispatch_rs (rs : list re) (st en : option Z) (match_time : bool) (ev : event) : outcome :=
  dispatch_core st en match_time ev (classify rs (ev_src ev)) (classify rs (ev_dest ev)).

(* None = the constructor raised ValueError("Must include at least one file type.") *)
Definition dispatch (f : flags) (st en : option Z) (ev : event) : option outcome :=
  match select_regexes f with
  | [] => None
  | rs => Some (dispatch_rs rs st en true ev)
  end.

(* "the filter accepts an event for path p" (created / modified / deleted) *)
Definition file_event (k : kind) (p : word) : event := mkEvent k false p [].
Definition accepts (f : flags) (st en : option Z) (k : kind) (p : word) : bool :=
  match dispatch f st en (file_event k p) with
  | Some (Deliver k' s d) => true
  | _ => false
  end.

(* times in microseconds: at and 1 ms around the two file times of the universe, and 1 microsecond around the second
   (a bound taken from a clock has a sub-millisecond part; file times have none) *)
Definition T0 : Z := 1500000000000000.
Definition u_times : list (option Z) :=
  [None; Some (T0 - 1000); Some T0; Some (T0 + 1000); Some (T0 + 122000); Some (T0 + 122999); Some (T0 + 123000);
   Some (T0 + 123001); Some (T0 + 124000)].
Definition u_windows : list (option Z * option Z) :=
  flat_map (fun a => map (fun b => (a, b)) u_times) u_times.

