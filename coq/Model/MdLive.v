(* Live use of a Digital Metadata channel (C20): write calls interleaved, at call granularity,
   with reader construction and queries, over a directory that may also contain files that cannot
   be opened.  Extends Model/MdStore.v with
     - the reader's only mutating branch (digital_metadata.py, _add_metadata: an IOError on opening
       a file that is readable, writable and older than the file cadence -> os.remove),
     - get_bounds skipping files that cannot be opened,
     - reader objects, which keep only the static channel parameters read from dmd_properties.h5.
   A directory is: the channel parameters (dmd_properties.h5), the groups of the readable files
   (as in MdStore) and the list of unopenable files with a flag "accessible and old" (deletable). *)
From Coq Require Import ZArith List Bool.
From DRF Require Import Base.DivLemmas Model.Ld80 Model.MdPlace Model.MdStore.
Import ListNotations.
Local Open Scope Z_scope.

Record fsys := mkFs { f_props : cfg; f_ents : store; f_bad : list (Z * Z * bool) }.

Definition valid_tree (fs : fsys) : Prop := f_bad fs = [].

Definition is_bad (fs : fsys) (p : Z * Z) : bool := existsb (fun b => path_eqb (fst b) p) (f_bad fs).
Definition deletable (fs : fsys) (p : Z * Z) : bool :=
  existsb (fun b => path_eqb (fst b) p && snd b) (f_bad fs).
Definition remove_bad (fs : fsys) (p : Z * Z) : fsys :=
  mkFs (f_props fs) (f_ents fs) (filter (fun b => negb (path_eqb (fst b) p)) (f_bad fs)).

(* os.access(full_file, os.R_OK) *)
Definition file_exists_fs (fs : fsys) (p : Z * Z) : bool := file_exists (f_ents fs) p || is_bad fs p.
Definition file_list_fs (c : cfg) (fs : fsys) (s0 s1 : Z) : list (Z * Z) :=
  filter (file_exists_fs fs) (candidates Exact c s0 s1).

(* _add_metadata including the except IOError branch *)
Definition add_metadata_fs (fs : fsys) (acc : list sample) (p : Z * Z) (s0 s1 : Z) (is_edge : bool)
  : list sample * fsys :=
  if is_bad fs p then (acc, if deletable fs p then remove_bad fs p else fs)
  else (add_metadata acc (groups (f_ents fs) p) s0 s1 is_edge, fs).

Definition read_range_fs (c : cfg) (fs : fsys) (acc : list sample) (s0 s1 : Z) : list sample * fsys :=
  let fl := file_list_fs c fs s0 s1 in
  fold_left (fun st p => add_metadata_fs (snd st) (fst st) p s0 s1 (is_edge_file p fl)) fl (acc, fs).

(* get_bounds: a file that cannot be opened raises IOError and is skipped; no mutation *)
Definition listing_fs (fs : fsys) : list (Z * Z) :=
  isort path_leb (dedup (map e_path (f_ents fs) ++ map fst (f_bad fs))).
Fixpoint first_sample_fs (fs : fsys) (ps : list (Z * Z)) : option Z :=
  match ps with
  | [] => None
  | p :: r => if is_bad fs p then first_sample_fs fs r
              else match isort key_leb (groups (f_ents fs) p) with
                   | x :: _ => Some (fst x)
                   | [] => first_sample_fs fs r
                   end
  end.
Fixpoint last_sample_fs (fs : fsys) (ps : list (Z * Z)) : option Z :=
  match ps with
  | [] => None
  | p :: r => if is_bad fs p then last_sample_fs fs r
              else match rev (isort key_leb (groups (f_ents fs) p)) with
                   | x :: _ => Some (fst x)
                   | [] => last_sample_fs fs r
                   end
  end.
Definition get_bounds_fs (fs : fsys) : option (Z * Z) :=
  match first_sample_fs fs (listing_fs fs) with
  | None => None
  | Some lo => match last_sample_fs fs (rev (listing_fs fs)) with
               | None => None
               | Some hi => Some (lo, hi)
               end
  end.

Fixpoint ffill_scan_fs (fs : fsys) (fl_rev : list (Z * Z)) (sb s0 : Z) : list sample * fsys :=
  match fl_rev with
  | [] => ([], fs)
  | p :: r => let '(d, fs') := add_metadata_fs fs [] p sb s0 true in
              match rev d with
              | x :: _ => ([x], fs')
              | [] => ffill_scan_fs fs' r sb s0
              end
  end.

Definition read_fs (c : cfg) (fs : fsys) (start end_ : option Z) (ffill : bool) : rres * fsys :=
  match (match start with Some s => Some s | None => option_map snd (get_bounds_fs fs) end) with
  | None => (RIOError, fs)
  | Some s0 =>
      let s1 := match end_ with Some e => e | None => s0 end in
      if s1 <? s0 then (RValueError, fs)
      else if ffill then
        match get_bounds_fs fs with
        | None => (RIOError, fs)
        | Some (sb, _) =>
            let '(acc, fs1) := ffill_scan_fs fs (rev (file_list_fs c fs sb s0)) sb s0 in
            let '(r, fs2) := read_range_fs c fs1 acc (s0 + 1) s1 in (ROk r, fs2)
        end
      else let '(r, fs1) := read_range_fs c fs [] s0 s1 in (ROk r, fs1)
  end.

Definition read_latest_fs (c : cfg) (fs : fsys) : rres * fsys :=
  match get_bounds_fs fs with
  | None => (RIOError, fs)
  | Some (_, hi) => read_fs c fs (Some hi) None true
  end.

(* ---- interleavings at call granularity ---- *)
Inductive op :=
| OWrite (l : list sample)                        (* DigitalMetadataWriter.write *)
| ONewReader                                      (* DigitalMetadataReader(dir) *)
| OBounds (r : nat)                               (* reader number r .get_bounds() *)
| ORead (r : nat) (s0 s1 : Z) (ff : bool)         (* .read(s0, s1, method) *)
| OLatest (r : nat).                              (* .read_latest() *)

Inductive obs :=
| ObsWrite (ok : bool)
| ObsReader
| ObsBounds (b : option (Z * Z))
| ObsRead (r : rres)
| ObsNoReader.

(* a reader object keeps the static parameters it read from dmd_properties.h5, nothing else *)
Definition state : Type := (fsys * list cfg)%type.

Definition step (s : state) (o : op) : state * obs :=
  let '(fs, rs) := s in
  match o with
  | OWrite l =>
      let '(st', ok) := write_call Exact (f_props fs) (f_ents fs) l in
      ((mkFs (f_props fs) st' (f_bad fs), rs), ObsWrite ok)
  | ONewReader => ((fs, rs ++ [f_props fs]), ObsReader)
  | OBounds r =>
      match nth_error rs r with
      | None => (s, ObsNoReader)
      | Some _ => ((fs, rs), ObsBounds (get_bounds_fs fs))
      end
  | ORead r s0 s1 ff =>
      match nth_error rs r with
      | None => (s, ObsNoReader)
      | Some c => let '(res, fs') := read_fs c fs (Some s0) (Some s1) ff in ((fs', rs), ObsRead res)
      end
  | OLatest r =>
      match nth_error rs r with
      | None => (s, ObsNoReader)
      | Some c => let '(res, fs') := read_latest_fs c fs in ((fs', rs), ObsRead res)
      end
  end.

Fixpoint exec (s : state) (ops : list op) : state * list obs :=
  match ops with
  | [] => (s, [])
  | o :: r => let '(s', ob) := step s o in
              let '(s'', obs') := exec s' r in (s'', ob :: obs')
  end.

(* the channel directory right after DigitalMetadataWriter(...) created it *)
Definition init (c : cfg) : state := (mkFs c [] [], []).

Definition writes_of (ops : list op) : list (list sample) :=
  flat_map (fun o => match o with OWrite l => [l] | _ => [] end) ops.

(* ---- writer sessions ----
   DigitalMetadataWriter(dir, subdir cadence, file cadence, numerator, denominator, prefix) on a
   directory that already holds dmd_properties.h5 runs _parse_properties: every parameter must equal
   the stored one, else ValueError("Mismatched ...") and nothing is touched. (The file-name prefix is
   compared too; it is not part of cfg and is covered by the correspondence only.) *)
Definition cfg_eqb (a b : cfg) : bool :=
  (rn a =? rn b) && (rd a =? rd b) && (fc a =? fc b) && (sc a =? sc b).

Definition open_writer (fs : fsys) (c' : cfg) : option cfg :=
  if cfg_eqb (f_props fs) c' then Some (f_props fs) else None.

(* a session = the parameters given to the constructor and the write calls made through it *)
Fixpoint run_sessions (fs : fsys) (ss : list (cfg * list (list sample))) : fsys :=
  match ss with
  | [] => fs
  | (c', calls) :: r =>
      match open_writer fs c' with
      | None => run_sessions fs r
      | Some c =>
          run_sessions (mkFs (f_props fs)
                             (fold_left (fun st l => fst (write_call Exact c st l)) calls (f_ents fs))
                             (f_bad fs)) r
      end
  end.

Definition accepted_calls (c : cfg) (ss : list (cfg * list (list sample))) : list (list sample) :=
  flat_map (fun s => if cfg_eqb c (fst s) then snd s else []) ss.
