(* C14 -- model of digital_rf.list_drf: _decorate_drf_files, _decorated_list_slice,
   _yield_matching_files, ilsdrf, over an abstract directory tree.  Executable definitions only.

   Defect sites are parameters of the model (DESIGN 2.6): `variant`.  `fixed` is the code after the
   four repairs, `legacy` the code before; the correspondence decides on every run which one /repo
   implements.  Paths are words relative to the listed directory, components joined by '/'.
   Times are microseconds. *)
From Coq Require Import ZArith List Bool.
From DRF Require Import Base.Regex Base.Civil Gen.Grammar Model.PathSpec.
Import ListNotations.
Local Open Scope Z_scope.

(* ------------------------------------------------------------------ variants at the defect sites *)
Record variant := mkVariant {
  v_chrono : bool;          (* forward fill keyed to the chronologically first subdirectory of the
                               slice (true) / to the first ITERATED one, i.e. the latest under
                               reverse=True (false, the code before the repair) *)
  v_guard_empty : bool;     (* `not dec_files or dec_files[0][0] > starttime` (true) / unguarded
                               dec_files[0] -> IndexError on an empty first subdirectory (false) *)
  v_guard_lookback : bool;  (* look-back os.listdir inside try/except OSError (true) / unguarded *)
  v_end_all : bool }.       (* every entry stamped exactly `endtime` is included (true) / only the
                               first one (false) *)

Definition fixed : variant := mkVariant true true true true.
Definition legacy : variant := mkVariant false false false false.

Inductive err := IndexError | OSErrorE | ValueErrorE.

(* ------------------------------------------------------------------ sorting *)
Fixpoint word_leb (a b : word) : bool :=
  match a, b with
  | [], _ => true
  | _ :: _, [] => false
  | x :: a', y :: b' => if x <? y then true else if y <? x then false else word_leb a' b'
  end.

Section Sort.
  Context {A : Type} (leb : A -> A -> bool).
  Fixpoint insert (x : A) (l : list A) : list A :=
    match l with
    | [] => [x]
    | y :: l' => if leb x y then x :: l else y :: insert x l'
    end.
  Fixpoint isort (l : list A) : list A :=
    match l with [] => [] | x :: l' => insert x (isort l') end.
End Sort.

Notation dec := (Z * word)%type.                   (* (time, path relative to the channel) *)
Definition dec_leb (a b : dec) : bool :=
  if fst a <? fst b then true else if fst b <? fst a then false else word_leb (snd a) (snd b).

Definition sort_words (reverse : bool) (l : list word) : list word :=
  if reverse then rev (isort word_leb l) else isort word_leb l.

(* ------------------------------------------------------------------ _decorated_list_slice *)
(* (take_while p l, drop_while p l) *)
Fixpoint span {A} (p : A -> bool) (l : list A) : list A * list A :=
  match l with
  | [] => ([], [])
  | x :: l' => if p x then let r := span p l' in (x :: fst r, snd r) else ([], l)
  end.

(* The slice is computed on a list sorted by time.  bisect.bisect_left(dec_list, (x,), lo) on such a
   list returns lo + the number of leading entries from lo on whose time is < x (tuple comparison:
   (t, ..) < (x,) iff t < x), so dec_list[ks:ke] is described here directly on the list:
   start_split = (dec_list[:ks], dec_list[ks:]),  end_take = dec_list[ks:ke]. *)
Definition start_split {A} (time : A -> Z) (l : list A) (st : option Z) (ffill : bool) : list A * list A :=
  match st with
  | None => ([], l)
  | Some s =>
    let r := span (fun x => time x <? s) l in
    (* ks == len(dec_list) or dec_list[ks][0] > starttime  ->  ks = max(ks - 1, 0) *)
    if ffill && (match snd r with [] => true | y :: _ => time y >? s end) then
      match rev (fst r) with
      | [] => ([], snd r)
      | x :: rlo => (rev rlo, x :: snd r)
      end
    else r
  end.

Definition end_take {A} (v : variant) (time : A -> Z) (l : list A) (en : option Z) : list A :=
  match en with
  | None => l
  | Some e =>
    let r := span (fun x => time x <? e) l in
    fst r ++ (if v_end_all v then fst (span (fun x => time x =? e) (snd r))
              else match snd r with
                   | y :: _ => if time y =? e then [y] else []
                   | [] => []
                   end)
  end.

(* (dec_list[:slice.start], dec_list[slice]) *)
Definition slice {A} (v : variant) (time : A -> Z) (l : list A) (st en : option Z) (ffill : bool)
    : list A * list A :=
  let r := start_split time l st ffill in (fst r, end_take v time (snd r) en).

(* ------------------------------------------------------------------ _yield_matching_files on decorated data *)
(* a timestamped subdirectory: its time, name, and what os.listdir + _decorate_drf_files give
   (None = listdir raises OSError: the directory vanished) *)
Record sub := mkSub { s_time : Z; s_name : word; s_files : option (list dec) }.

Definition sub_leb (a b : sub) : bool :=
  if s_time a <? s_time b then true else if s_time b <? s_time a then false else word_leb (s_name a) (s_name b).

(* the look-back loop over the earlier subdirectories, nearest first *)
Fixpoint lookback (v : variant) (prior : list sub) : option (list dec) * option err :=
  match prior with
  | [] => (None, None)
  | p :: rest =>
    match s_files p with
    | None => if v_guard_lookback v then lookback v rest else (None, Some OSErrorE)
    | Some [] => lookback v rest
    | Some pf => (Some pf, None)
    end
  end.

Definition truthy (st : option Z) : bool := match st with Some s => negb (s =? 0) | None => false end.

(* one subdirectory of the slice; `first` is the (k == 0) of the code *)
Definition chunk (v : variant) (ydmd : bool) (st en : option Z) (prior : list sub) (first : bool) (d : sub)
    : list dec * option err :=
  match s_files d with
  | None => ([], None)                                   (* except OSError: continue *)
  | Some files =>
    let dfs := isort dec_leb files in
    let pre := first && ydmd && negb (match prior with [] => true | _ => false end) && truthy st in
    let go (dfs : list dec) := (snd (slice v fst dfs st en (first && ydmd)), None) in
    if pre then
      match dfs, st with
      | [], _ =>
        if v_guard_empty v then
          match lookback v prior with
          | (_, Some e) => ([], Some e)
          | (Some pf, None) => go (isort dec_leb (pf ++ dfs))
          | (None, None) => go dfs
          end
        else ([], Some IndexError)
      | x :: _, Some s =>
        if fst x >? s then
          match lookback v prior with
          | (_, Some e) => ([], Some e)
          | (Some pf, None) => go (isort dec_leb (pf ++ dfs))
          | (None, None) => go dfs
          end
        else go dfs
      | _, None => go dfs
      end
    else go dfs
  end.

Fixpoint mapi_aux {A B} (f : nat -> A -> B) (i : nat) (l : list A) : list B :=
  match l with [] => [] | x :: l' => f i x :: mapi_aux f (S i) l' end.
Definition mapi {A B} (f : nat -> A -> B) (l : list A) : list B := mapi_aux f O l.

(* run the chunks in order; an exception ends the generator after what was yielded before *)
Fixpoint seq_chunks {A} (cs : list (list A * option err)) : list A * option err :=
  match cs with
  | [] => ([], None)
  | (out, Some e) :: _ => (out, Some e)
  | (out, None) :: cs' => let r := seq_chunks cs' in (out ++ fst r, snd r)
  end.

(* D: the timestamped subdirectories sorted by (time, name) *)
Definition yield_channel (v : variant) (ydmd : bool) (st en : option Z) (reverse : bool) (D : list sub)
    : list dec * option err :=
  let b := slice v s_time D st en true in
  let sel := snd b in
  let n := length sel in
  let prior := rev (fst b) in
  let first (i : nat) := if v_chrono v || negb reverse then Nat.eqb i 0 else Nat.eqb i (n - 1) in
  let chunks := mapi (fun i d => chunk v ydmd st en prior (first i) d) sel in
  if reverse then seq_chunks (map (fun c : list dec * option err => (rev (fst c), snd c)) (rev chunks))
  else seq_chunks chunks.

(* ------------------------------------------------------------------ trees *)
Inductive node :=
| File
| Dir (entries : list (word * node))
| Gone.                      (* a directory entry whose listing raises OSError *)

Definition is_dir (n : node) : bool := match n with File => false | _ => true end.

Definition days_in_month (y m : Z) : Z :=
  if (m =? 2) then (if ((y mod 4 =? 0) && negb (y mod 100 =? 0)) || (y mod 400 =? 0) then 29 else 28)
  else if (m =? 4) || (m =? 6) || (m =? 9) || (m =? 11) then 30 else 31.

(* datetime.datetime(y, mo, d, h, mi, s, tzinfo=utc) - epoch, in microseconds; None = ValueError *)
Definition subdir_time (c : caps) : option Z :=
  match group g_year c, group g_month c, group g_day c, group g_hour c, group g_minute c, group g_second c with
  | Some wy, Some wm, Some wd, Some wh, Some wi, Some ws =>
    match int_of wy, int_of wm, int_of wd, int_of wh, int_of wi, int_of ws with
    | Some y, Some m, Some d, Some h, Some mi, Some s =>
      if (1 <=? y) && (y <=? 9999) && (1 <=? m) && (m <=? 12) && (1 <=? d) && (d <=? days_in_month y m)
         && (h <=? 23) && (mi <=? 59) && (s <=? 59)
      then Some (unix_of_parts (y, m, d, h, mi, s) * 1000000)
      else None
    | _, _, _, _, _, _ => None
    end
  | _, _, _, _, _, _ => None
  end.

Definition join2 (a b : word) : word := a ++ sep :: b.

(* _decorate_drf_files(subdir, os.listdir(subdir), file_regex) *)
Definition decorate (r : re) (subdir : word) (names : list word) : list dec :=
  flat_map (fun nm => match match_time r nm with
                      | Some (Time t) => [(t, join2 subdir nm)]
                      | _ => []        (* no match; BadInt/NoTime cannot occur: Proofs/ListingProofs.v *)
                      end) names.

(* the `for d in dirs` loop of _yield_matching_files: (timestamped subdirectories, others), or the
   ValueError of an impossible calendar date *)
Fixpoint classify_dirs (r : re) (dirs : list (word * node)) : option (list sub * list (word * node)) :=
  match dirs with
  | [] => Some ([], [])
  | (d, n) :: rest =>
    match rmatch listing_ci l_re_subdir d with
    | Some c =>
      match subdir_time c with
      | None => None
      | Some t =>
        match classify_dirs r rest with
        | None => None
        | Some (subs, others) =>
          Some (mkSub t d (match n with
                           | Dir es => Some (decorate r d (map fst es))
                           | _ => None
                           end) :: subs, others)
        end
      end
    | None =>
      match classify_dirs r rest with
      | None => None
      | Some (subs, others) => Some (subs, (d, n) :: others)
      end
    end
  end.

Record opts := mkOpts {
  o_flags : flags; o_start : option Z; o_end : option Z; o_recursive : bool; o_reverse : bool }.

(* _yield_matching_files(root, dirs, props, ...): (yielded paths, exception, dirs left for the walk) *)
Definition yield_matching (v : variant) (o : opts) (dirs : list (word * node)) (props : list word)
    : list word * option err * list (word * node) :=
  let has_drf := existsb (matches listing_ci l_re_drfpropfile) props in
  let has_dmd := existsb (matches listing_ci l_re_dmdpropfile) props in
  match file_regex has_drf has_dmd (o_flags o) with
  | None => ([], None, dirs)
  | Some (r, ydmd) =>
    match classify_dirs r dirs with
    | None => ([], Some ValueErrorE, dirs)
    | Some (subs, others) =>
      let res := yield_channel v ydmd (o_start o) (o_end o) (o_reverse o) (isort sub_leb subs) in
      (map snd (fst res), snd res, others)
    end
  end.

Fixpoint assoc {B} (k : word) (l : list (word * B)) : option B :=
  match l with
  | [] => None
  | (k', x) :: l' => if word_eqb k k' then Some x else assoc k l'
  end.

(* run sub-generators in order: (name, result) *)
Fixpoint seq_named (l : list (word * (list word * option err))) : list word * option err :=
  match l with
  | [] => ([], None)
  | (nm, (out, e)) :: l' =>
    let out' := map (join2 nm) out in
    match e with
    | Some x => (out', Some x)
    | None => let r := seq_named l' in (out' ++ fst r, snd r)
    end
  end.

(* os.walk(path) with the body of the loop in ilsdrf *)
Fixpoint walk (v : variant) (o : opts) (t : node) : list word * option err :=
  match t with
  | File | Gone => ([], None)
  | Dir es =>
    let files := map fst (filter (fun e : word * node => negb (is_dir (snd e))) es) in
    let dirs := filter (fun e : word * node => is_dir (snd e)) es in
    let children := (fix go (l : list (word * node)) : list (word * (list word * option err)) :=
                       match l with
                       | [] => []
                       | (nm, c) :: l' => (nm, walk v o c) :: go l'
                       end) es in
    let any_props := filter (matches listing_ci l_re_propfile) files in
    let f := o_flags o in
    let '(here, e, dirs') :=
      match any_props with
      | [] => ([], None, dirs)
      | _ =>
        let props := match prop_regex f with
                     | Some pr => sort_words (o_reverse o) (filter (matches listing_ci pr) any_props)
                     | None => []
                     end in
        if inc_drf f || inc_dmd f then
          let '(out, e, dirs') := yield_matching v o dirs any_props in (props ++ out, e, dirs')
        else (props, None, dirs)
      end in
    match e with
    | Some x => (here, Some x)
    | None =>
      let names := if o_recursive o then sort_words (o_reverse o) (map fst dirs') else [] in
      let r := seq_named (flat_map (fun nm => match assoc nm children with
                                              | Some res => [(nm, res)]
                                              | None => []
                                              end) names) in
      (here ++ fst r, snd r)
    end
  end.

(* ilsdrf(path): `ctx` = (basename of path, entries of its parent directory) when the caller wants
   the "path is itself a timestamped subdirectory" entry case modelled; None otherwise *)
Definition ilsdrf (v : variant) (o : opts) (ctx : option (word * list (word * node))) (t : node)
    : list word * option err :=
  let f := o_flags o in
  let entry :=
    match ctx with
    | Some (base, parent) =>
      if (inc_drf f || inc_dmd f) && matches listing_ci l_re_subdir base then
        let any_props := filter (matches listing_ci l_re_propfile)
                           (map fst parent) in
        match any_props with
        | [] => ([], None)
        | _ =>
          let '(out, e, _) := yield_matching v o [(base, t)] any_props in
          (* paths come out as base/file relative to the parent: relative to `path` drop base/ *)
          (map (fun p => skipn (S (length base)) p) out, e)
        end
      else ([], None)
    | None => ([], None)
    end in
  match snd entry with
  | Some x => entry
  | None => let r := walk v o t in (fst entry ++ fst r, snd r)
  end.

Definition lsdrf (v : variant) (o : opts) (t : node) : list word * option err := ilsdrf v o None t.

(* ------------------------------------------------------------------ the set-theoretic Spec *)
(* Spec of one channel on decorated data: all matched files of all listable timestamped
   subdirectories, sorted by (time, path); the window; plus, for a metadata-yielding channel with a
   start time, the latest file before start unless a file is stamped exactly at start (then that
   one is in the window).  Meaningful for start <= end. *)
Definition all_files (D : list sub) : list dec :=
  isort dec_leb (flat_map (fun d => match s_files d with Some fs => fs | None => [] end) D).

Definition win (st en : option Z) (x : dec) : bool := in_window st en (fst x).

Definition ffill_extra (ydmd : bool) (st en : option Z) (A : list dec) : list dec :=
  match st with
  | Some s =>
    if ydmd && negb (existsb (fun x : dec => fst x =? s) A) then
      match rev (filter (fun x : dec => fst x <? s) A) with
      | x :: _ => [x]
      | [] => []
      end
    else []
  | None => []
  end.

Definition spec_channel (ydmd : bool) (st en : option Z) (reverse : bool) (D : list sub) : list dec :=
  let A := all_files D in
  let l := ffill_extra ydmd st en A ++ filter (win st en) A in
  if reverse then rev l else l.
