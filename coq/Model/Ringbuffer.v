(* Executable model of python/digital_rf/ringbuffer.py (C16): the handler built by
   DigitalRFRingbufferHandler(size, count, duration) -- MRO Count -> Time -> Size -> Base --
   together with the files on disk.  Definitions only.

   A path is the triple (group, key, sub): `group` identifies (channel path, file name) as
   _get_file_record extracts it, `key` is the time in ms parsed from the file name, `sub`
   distinguishes files of equal (group, key) lying in different sub-directories.  Group and key
   are functions of the path in the implementation (regex groups), which the triple makes true
   by construction.  group < 0: no handler regex matches (properties file, tmp. file, outside).

   Exceptions of the implementation (IndexError on an empty deque, KeyError, ValueError) set the
   sticky flag `err`; afterwards nothing changes (the harness stops a history there). *)
From Coq Require Import ZArith List Bool Lia.
Import ListNotations.
Local Open Scope Z_scope.

Record path := mkP { pg : Z; pk : Z; ps : Z }.
Definition path_eqb (p q : path) : bool := (pg p =? pg q) && (pk p =? pk q) && (ps p =? ps q).
Definition trackable (p : path) : bool := 0 <=? pg p.

(* defect site (DESIGN 2.6): SizeExpirer._add_to_queue accounted rec.size even when the base
   class found the path already queued (CountTwice); the repaired code accounts once *)
Inductive dup_size := CountOnce | CountTwice.

Record cfg := mkCfg { c_size : option Z; c_count : option Z; c_dur : option Z; c_dup : dup_size }.

(* handler state: records (path -> size), queues (group -> ascending deque, in dict insertion
   order), active_size *)
Record hst := mkH { recs : list (path * Z); qs : list (Z * list path); act : Z }.
(* one deletion: the path, which expirer asked (1 count, 2 duration, 3 size), the group whose
   _expire ran, and the handler state just before (ghost, used by the theorems) *)
Record del := mkDel { d_path : path; d_why : Z; d_for : Z; d_pre : hst }.
Record st := mkSt { h : hst; disk : list (path * Z); dels : list del; err : bool }.

Definition init : st := mkSt (mkH [] [] 0) [] [] false.

Fixpoint rget (p : path) (l : list (path * Z)) : option Z :=
  match l with
  | [] => None
  | (x, s) :: r => if path_eqb p x then Some s else rget p r
  end.
Fixpoint rset (p : path) (s : Z) (l : list (path * Z)) : list (path * Z) :=
  match l with
  | [] => [(p, s)]
  | (x, s0) :: r => if path_eqb p x then (p, s) :: r else (x, s0) :: rset p s r
  end.
Fixpoint rdel (p : path) (l : list (path * Z)) : list (path * Z) :=
  match l with
  | [] => []
  | (x, s0) :: r => if path_eqb p x then r else (x, s0) :: rdel p r
  end.
Fixpoint qget (g : Z) (l : list (Z * list path)) : list path :=
  match l with
  | [] => []
  | (x, q) :: r => if g =? x then q else qget g r
  end.
Fixpoint qset (g : Z) (q : list path) (l : list (Z * list path)) : list (Z * list path) :=
  match l with
  | [] => [(g, q)]
  | (x, q0) :: r => if g =? x then (g, q) :: r else (x, q0) :: qset g q r
  end.

(* Base._add_to_queue: scan from the newest end while rec.key <= key; stop (insert after) at the
   first smaller key; return on an equal path.  Cont = scanned everything. *)
Inductive ins_res := Ins (l : list path) | Dup | Cont.
Fixpoint ins3 (p : path) (q : list path) : ins_res :=
  match q with
  | [] => Cont
  | x :: r =>
    match ins3 p r with
    | Ins l => Ins (x :: l)
    | Dup => Dup
    | Cont => if pk x <? pk p then Ins (x :: p :: r)
              else if path_eqb p x then Dup else Cont
    end
  end.
Definition q_insert (p : path) (q : list path) : option (list path) :=
  match ins3 p q with Ins l => Some l | Dup => None | Cont => Some (p :: q) end.

(* deque.remove: first occurrence, ValueError (None) when absent *)
Fixpoint q_remove (p : path) (q : list path) : option (list path) :=
  match q with
  | [] => None
  | x :: r => if path_eqb p x then Some r else option_map (cons x) (q_remove p r)
  end.

Definition has_size (c : cfg) : bool := match c_size c with Some _ => true | None => false end.
Definition set_err (s : st) : st := mkSt (h s) (disk s) (dels s) true.
Definition with_h (s : st) (hs : hst) : st := mkSt hs (disk s) (dels s) (err s).

(* _add_to_queue as SizeExpirer wraps it *)
Definition add_to_queue (c : cfg) (hs : hst) (p : path) (sz : Z) : hst :=
  match q_insert p (qget (pg p) (qs hs)) with
  | Some q' => mkH (recs hs) (qset (pg p) q' (qs hs)) (if has_size c then act hs + sz else act hs)
  | None => mkH (recs hs) (qs hs)
                (if has_size c then match c_dup c with CountOnce => act hs | CountTwice => act hs + sz end
                 else act hs)
  end.

Definition remove_from_queue (c : cfg) (hs : hst) (p : path) (sz : Z) : option hst :=
  match q_remove p (qget (pg p) (qs hs)) with
  | Some q' => Some (mkH (recs hs) (qset (pg p) q' (qs hs)) (if has_size c then act hs - sz else act hs))
  | None => None
  end.

(* _expire_oldest_from_group: pop the head of the group's deque from records and queue, delete
   the file (ENOENT tolerated) *)
Definition expire_oldest_from_group (c : cfg) (s : st) (g why gfor : Z) : st :=
  match qget g (qs (h s)) with
  | [] => set_err s
  | p :: _ =>
    match rget p (recs (h s)) with
    | None => set_err s
    | Some sz =>
      match remove_from_queue c (mkH (rdel p (recs (h s))) (qs (h s)) (act (h s))) p sz with
      | None => set_err s
      | Some h2 => mkSt h2 (rdel p (disk s)) (dels s ++ [mkDel p why gfor (h s)]) (err s)
      end
    end
  end.

Definition qlen (s : st) (g : Z) : Z := Z.of_nat (length (qget g (qs (h s)))).
Definition queue_duration (q : list path) : Z :=
  match q with [] => 0 | x :: _ => pk (last q x) - pk x end.

Fixpoint count_loop (c : cfg) (cnt : Z) (fuel : nat) (s : st) (g : Z) : st :=
  match fuel with
  | O => if qlen s g >? cnt then set_err s else s
  | S f => if err s then s
           else if qlen s g >? cnt then count_loop c cnt f (expire_oldest_from_group c s g 1 g) g
           else s
  end.

Fixpoint time_loop (c : cfg) (dur : Z) (fuel : nat) (s : st) (g : Z) : st :=
  match fuel with
  | O => if queue_duration (qget g (qs (h s))) >? dur then set_err s else s
  | S f => if err s then s
           else if queue_duration (qget g (qs (h s))) >? dur
                then time_loop c dur f (expire_oldest_from_group c s g 2 g) g
           else s
  end.

(* SizeExpirer._expire_oldest: start from `g`'s head (or +inf), prefer a strictly older head among
   the other groups that hold more than one file, first in dict order on ties *)
Definition head_key (q : list path) : option Z := match q with [] => None | x :: _ => Some (pk x) end.
Fixpoint pick_group (g : Z) (best : option Z) (rg : Z) (l : list (Z * list path)) : Z :=
  match l with
  | [] => rg
  | (x, q) :: r =>
    if x =? g then pick_group g best rg r
    else match q with
         | a :: _ :: _ =>
           if (match best with None => true | Some b => pk a <? b end)
           then pick_group g (Some (pk a)) x r else pick_group g best rg r
         | _ => pick_group g best rg r
         end
  end.
Definition removal_group (hs : hst) (g : Z) : Z := pick_group g (head_key (qget g (qs hs))) g (qs hs).

Fixpoint size_loop (c : cfg) (lim : Z) (fuel : nat) (s : st) (g : Z) : st :=
  match fuel with
  | O => if act (h s) >? lim then set_err s else s
  | S f => if err s then s
           else if act (h s) >? lim
                then size_loop c lim f (expire_oldest_from_group c s (removal_group (h s) g) 3 g) g
           else s
  end.

(* _expire through the MRO: Count, Time, Size, Base *)
Definition expire (c : cfg) (s : st) (g : Z) : st :=
  let s1 := match c_count c with
            | Some n => count_loop c n (S (length (qget g (qs (h s))))) s g | None => s end in
  let s2 := match c_dur c with
            | Some d => time_loop c d (S (length (qget g (qs (h s1))))) s1 g | None => s1 end in
  match c_size c with
  | Some z => size_loop c z (S (length (recs (h s2)))) s2 g | None => s2 end.

(* SizeExpirer._modify_record on a known path: replace the record, adjust active_size;
   Base._modify_record on a known path: nothing *)
Definition modify_existing (c : cfg) (hs : hst) (p : path) (sz old : Z) : hst :=
  if has_size c then mkH (rset p sz (recs hs)) (qs hs) (act hs - old + sz) else hs.

(* tail of _add_record: records[path] = rec; _add_to_queue(rec); _expire(rec.group) *)
Definition add_core (c : cfg) (s : st) (p : path) (sz : Z) : st :=
  let h1 := mkH (rset p sz (recs (h s))) (qs (h s)) (act (h s)) in
  expire c (with_h s (add_to_queue c h1 p sz)) (pg p).

Definition add_record (c : cfg) (s : st) (p : path) (sz : Z) : st :=
  if err s then s else
  match rget p (recs (h s)) with
  | Some old => add_core c (with_h s (modify_existing c (h s) p sz old)) p sz
  | None => add_core c s p sz
  end.

Definition modify_record (c : cfg) (s : st) (p : path) (sz : Z) : st :=
  if err s then s else
  match rget p (recs (h s)) with
  | Some old => with_h s (modify_existing c (h s) p sz old)
  | None => add_core c s p sz
  end.

Definition remove_record (c : cfg) (s : st) (p : path) : st :=
  if err s then s else
  match rget p (recs (h s)) with
  | None => s
  | Some sz =>
    match remove_from_queue c (mkH (rdel p (recs (h s))) (qs (h s)) (act (h s))) p sz with
    | Some h2 => with_h s h2
    | None => set_err s
    end
  end.

(* _get_file_record: a regex must match and stat must succeed *)
Definition get_file_record (s : st) (p : path) : option Z :=
  if trackable p then rget p (disk s) else None.

Definition get_records (s : st) (l : list path) : list (path * Z) :=
  flat_map (fun p => match get_file_record s p with Some sz => [(p, sz)] | None => [] end) l.

(* sorted(records): FileRecord tuples (key, size, path, group); the path strings of equal key
   compare as (group, sub) in the harness universe (asserted there) *)
Definition rec_leb (a b : path * Z) : bool :=
  let '(p, s) := a in let '(q, t) := b in
  if pk p <? pk q then true else if pk q <? pk p then false else
  if s <? t then true else if t <? s then false else
  if pg p <? pg q then true else if pg q <? pg p then false else ps p <=? ps q.
Fixpoint rec_insert (a : path * Z) (l : list (path * Z)) : list (path * Z) :=
  match l with
  | [] => [a]
  | b :: r => if rec_leb a b then a :: b :: r else b :: rec_insert a r
  end.
Definition sort_recs (l : list (path * Z)) : list (path * Z) := fold_right rec_insert [] l.

(* `{r.path: r for r in records}.values()`: one record per path (the last one made), before sorting *)
Fixpoint dedup_recs (l : list (path * Z)) : list (path * Z) :=
  match l with
  | [] => []
  | a :: r => if existsb (fun b => path_eqb (fst a) (fst b)) r then dedup_recs r else a :: dedup_recs r
  end.

Definition add_recs (c : cfg) (s : st) (l : list (path * Z)) : st :=
  fold_left (fun s a => add_record c s (fst a) (snd a)) l s.
Definition modify_recs (c : cfg) (s : st) (l : list (path * Z)) : st :=
  fold_left (fun s a => modify_record c s (fst a) (snd a)) l s.
(* sort=False: the generator is consumed lazily, each stat happens just before its record is
   handled *)
Fixpoint add_lazy (c : cfg) (s : st) (l : list path) : st :=
  match l with
  | [] => s
  | p :: r => add_lazy c (match get_file_record s p with Some sz => add_record c s p sz | None => s end) r
  end.
Fixpoint modify_lazy (c : cfg) (s : st) (l : list path) : st :=
  match l with
  | [] => s
  | p :: r => modify_lazy c (match get_file_record s p with Some sz => modify_record c s p sz | None => s end) r
  end.

Definition add_files (c : cfg) (s : st) (l : list path) (sort : bool) : st :=
  if sort then add_recs c s (sort_recs (dedup_recs (get_records s l))) else add_lazy c s l.
Definition modify_files (c : cfg) (s : st) (l : list path) (sort : bool) : st :=
  if sort then modify_recs c s (sort_recs (dedup_recs (get_records s l))) else modify_lazy c s l.
Definition remove_files (c : cfg) (s : st) (l : list path) : st :=
  fold_left (remove_record c) l s.

Definition mem (p : path) (l : list path) : bool := existsb (path_eqb p) l.

(* DigitalRFRingbuffer._verify_ringbuffer_files(inbuffer): ondisk = every trackable file found;
   deletions = inbuffer - ondisk; creations = ondisk - deletions; possibly_modified = inbuffer & ondisk *)
Definition rescan (c : cfg) (s : st) (inbuffer : list path) : st :=
  let ondisk := filter trackable (map fst (disk s)) in
  let deletions := filter (fun p => negb (mem p ondisk)) inbuffer in
  let s1 := remove_files c s deletions in
  let creations := filter (fun p => negb (mem p deletions)) ondisk in
  let s2 := add_files c s1 creations true in
  let possibly := filter (fun p => mem p ondisk) inbuffer in
  modify_files c s2 possibly true.

Inductive op :=
| Created (p : path) | Modified (p : path) | Deleted (p : path) | Moved (p q : path)
| AddFiles (l : list path) (sort : bool) | ModifyFiles (l : list path) (sort : bool)
| RemoveFiles (l : list path) | Rescan (inbuffer : list path)
| EnvWrite (p : path) (sz : Z) | EnvRemove (p : path).      (* files changing behind the handler's back *)

Definition env_effect (o : op) (d : list (path * Z)) : list (path * Z) :=
  match o with EnvWrite p sz => rset p sz d | EnvRemove p => rdel p d | _ => d end.

Definition step (c : cfg) (s : st) (o : op) : st :=
  match o with
  | Created p => add_files c s [p] true
  | Modified p => modify_files c s [p] true
  | Deleted p => remove_files c s [p]
  | Moved p q => add_files c (remove_files c s [p]) [q] true
  | AddFiles l b => add_files c s l b
  | ModifyFiles l b => modify_files c s l b
  | RemoveFiles l => remove_files c s l
  | Rescan l => rescan c s l
  | EnvWrite _ _ | EnvRemove _ => mkSt (h s) (env_effect o (disk s)) (dels s) (err s)
  end.

Definition run_ops (c : cfg) (l : list op) : st := fold_left (step c) l init.
