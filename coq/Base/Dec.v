(* Decimal printing of Z and the small printf subset used for file and directory names:
   conversions  %i %d %u %lu %llu %li  with optional  0<width>  . *)
From Coq Require Import ZArith String Ascii List Bool Lia DecimalString DecimalZ.
Import ListNotations.
Local Open Scope Z_scope.

Definition dec (n : Z) : string := NilZero.string_of_int (Z.to_int n).

Fixpoint rep0 (k : nat) : string := match k with O => EmptyString | S k => String "0" (rep0 k) end.

(* %0<w>: sign first, then zero padding, as printf does *)
Definition pad0 (w : nat) (n : Z) : string :=
  if Z.ltb n 0 then
    let s := dec (- n) in String "-" (append (rep0 (w - 1 - String.length s)%nat) s)
  else let s := dec n in append (rep0 (w - String.length s)%nat) s.

Definition padsp (w : nat) (n : Z) : string :=
  let s := dec n in
  append ((fix sp k := match k with O => EmptyString | S k => String " " (sp k) end) (w - String.length s)%nat) s.

Inductive fstate := FNormal | FSpec (zero : bool) (width : nat) (started : bool).

Definition digit_of (c : ascii) : option nat :=
  let n := nat_of_ascii c in
  if andb (Nat.leb 48 n) (Nat.leb n 57) then Some (n - 48)%nat else None.

Definition emit (zero : bool) (w : nat) (n : Z) : string :=
  if zero then pad0 w n else padsp w n.

(* snprintf with an unbounded buffer.  Unsupported directives print "<?>", which no
   theorem about names can accept, so an unexpected format breaks the proofs. *)
Fixpoint fmt_go (f : string) (st : fstate) (args : list Z) : string :=
  match f with
  | EmptyString => EmptyString
  | String c f' =>
    match st with
    | FNormal =>
      if Ascii.eqb c "%" then fmt_go f' (FSpec false 0 false) args
      else String c (fmt_go f' FNormal args)
    | FSpec z w started =>
      match digit_of c with
      | Some dgt =>
        if andb (negb started) (Nat.eqb dgt 0) then fmt_go f' (FSpec true w true) args
        else fmt_go f' (FSpec z (w * 10 + dgt)%nat true) args
      | None =>
        if Ascii.eqb c "l" then fmt_go f' st args
        else if orb (Ascii.eqb c "i") (orb (Ascii.eqb c "d") (Ascii.eqb c "u")) then
          match args with
          | a :: args' => append (emit z w a) (fmt_go f' FNormal args')
          | [] => append "<?>" (fmt_go f' FNormal [])
          end
        else if Ascii.eqb c "%" then String "%" (fmt_go f' FNormal args)
        else append "<?>" (fmt_go f' FNormal args)
      end
    end
  end.

Definition snprintf (f : string) (args : list Z) : string := fmt_go f FNormal args.

(* strings as lists of byte codes, for the extracted runner *)
Fixpoint codes (s : string) : list Z :=
  match s with EmptyString => [] | String c s' => Z.of_nat (nat_of_ascii c) :: codes s' end.
Fixpoint of_codes (l : list Z) : string :=
  match l with [] => EmptyString | c :: l' => String (ascii_of_nat (Z.to_nat c)) (of_codes l') end.

Lemma to_int_nonnil a : Z.to_int a <> Decimal.Pos Decimal.Nil /\ Z.to_int a <> Decimal.Neg Decimal.Nil.
Proof.
  split; intro H; pose proof (DecimalZ.of_to a) as E; rewrite H in E; cbn in E; subst a; discriminate.
Qed.

Lemma dec_inj a b : dec a = dec b -> a = b.
Proof.
  unfold dec. intros H.
  apply (f_equal NilZero.int_of_string) in H.
  destruct (to_int_nonnil a), (to_int_nonnil b).
  rewrite !NilZero.isi in H by assumption.
  injection H as H.
  apply (f_equal Z.of_int) in H. rewrite !DecimalZ.of_to in H. exact H.
Qed.

Example snprintf_subdir :
  snprintf "%04i-%02i-%02iT%02i-%02i-%02i" [2017; 7; 14; 2; 0; 5] = "2017-07-14T02-00-05"%string.
Proof. reflexivity. Qed.
Example snprintf_file :
  snprintf "tmp.rf@%lu.%03lu.h5" [1500000002; 40] = "tmp.rf@1500000002.040.h5"%string.
Proof. reflexivity. Qed.
