(* Floor / ceiling division facts shared by the time-conversion, layout and metadata proofs. *)
From Coq Require Import ZArith Lia.
Local Open Scope Z_scope.

Definition cdiv (a b : Z) : Z := (a + b - 1) / b.

Lemma div_unique_pos a b q : 0 < b -> b * q <= a < b * (q + 1) -> a / b = q.
Proof. intros Hb H. symmetry. apply Z.div_unique with (r := a - b * q); lia. Qed.

Lemma div_bounds a b : 0 < b -> b * (a / b) <= a < b * (a / b + 1).
Proof. intros Hb. pose proof (Z.div_mod a b ltac:(lia)). pose proof (Z.mod_pos_bound a b Hb). lia. Qed.

(* the divide/modulus split the C code uses to avoid overflow *)
Lemma muldiv_split a n d : 0 < n ->
  (a / n) * d + ((a mod n) * d) / n = (a * d) / n.
Proof.
  intros Hn. rewrite (Z.div_mod a n) at 3 by lia.
  replace ((n * (a / n) + a mod n) * d) with ((a mod n) * d + ((a / n) * d) * n) by ring.
  rewrite Z.div_add by lia. ring.
Qed.

Lemma mulmod_split a n d : 0 < n -> ((a mod n) * d) mod n = (a * d) mod n.
Proof. intros Hn. rewrite Z.mul_mod_idemp_l by lia. reflexivity. Qed.

Lemma div_div a b c : 0 < b -> 0 < c -> (a / b) / c = a / (b * c).
Proof. intros. apply Z.div_div; lia. Qed.

Lemma cdiv_spec a b q : 0 < b -> (cdiv a b = q <-> b * (q - 1) < a <= b * q).
Proof.
  intros Hb. unfold cdiv. split.
  - intros <-. pose proof (div_bounds (a + b - 1) b Hb). lia.
  - intros H. apply div_unique_pos; lia.
Qed.

Lemma cdiv_exact_or_up a b : 0 < b -> cdiv a b = a / b + (if Z.eqb (a mod b) 0 then 0 else 1).
Proof.
  intros Hb. apply cdiv_spec; [lia|].
  pose proof (Z.div_mod a b ltac:(lia)). pose proof (Z.mod_pos_bound a b Hb).
  destruct (Z.eqb_spec (a mod b) 0); nia.
Qed.

(* nested ceilings *)
Lemma cdiv_cdiv A x c b : 0 < c -> 0 < b -> cdiv (A + cdiv x c) b = cdiv (A * c + x) (c * b).
Proof.
  intros Hc Hb. symmetry. apply cdiv_spec; [nia|].
  set (q := cdiv (A + cdiv x c) b).
  assert (Hq : b * (q - 1) < A + cdiv x c <= b * q) by (apply cdiv_spec; auto).
  set (y := cdiv x c) in *.
  assert (Hy : c * (y - 1) < x <= c * y) by (apply cdiv_spec; auto).
  nia.
Qed.

Lemma cdiv_le_mono a a' b : 0 < b -> a <= a' -> cdiv a b <= cdiv a' b.
Proof. intros. unfold cdiv. apply Z.div_le_mono; lia. Qed.

(* k lies in the window of the cadence slot f  <->  its floored time does *)
Lemma window_iff k n D f c : 0 < n -> 0 < D -> 0 < c ->
  (cdiv (f * n) D <= k < cdiv ((f + c) * n) D) <-> (f <= k * D / n < f + c).
Proof.
  intros Hn HD Hc.
  pose proof (div_bounds (k * D) n Hn) as Hk.
  set (t := k * D / n) in *.
  set (lo := cdiv (f * n) D). set (hi := cdiv ((f + c) * n) D).
  assert (Hlo : D * (lo - 1) < f * n <= D * lo) by (apply cdiv_spec; auto).
  assert (Hhi : D * (hi - 1) < (f + c) * n <= D * hi) by (apply cdiv_spec; auto).
  split; intros [H1 H2]; split; nia.
Qed.
