(* Base/Fs.v -- abstract file system of one Digital RF channel directory, used by the protocol
   properties C02 (kill-safe publication), C09 (reader isolation), C10 (fault containment).

   A state maps paths to nodes.  The content of a regular file is abstract: HDF5 is not modelled;
   a file that has been created and is being written holds unspecified bytes ([Partial]); the
   close(2) that ends a successful H5Fclose turns it into [Complete tag], where [tag] names the
   HDF5 image the library had in memory.  A low-level write that failed (fault injection) marks
   the file damaged: no later close can make it complete.

   Crash semantics: a crash (death of the process, page cache kept) after [i] operations leaves
   [state_after (firstn i trace)].  Definitions only compute; lemmas are at the end. *)
From Coq Require Import ZArith List Bool String Ascii.
From DRF Require Import Base.Dec.
Import ListNotations.
Local Open Scope Z_scope.

(* ---------------------------------------------------------------- paths *)
(* relative to the channel directory *)
Inductive path :=
| PProps (tmp : bool)              (* drf_properties.h5  /  tmp.drf_properties.h5 *)
| PDir (d : Z)                     (* sub-directory starting at unix second d *)
| PData (d : Z) (tmp : bool) (k : Z). (* <subdir d>/[tmp.]rf@<k/1000>.<k mod 1000>.h5, k = file millisecond *)

Definition path_eqb (a b : path) : bool :=
  match a, b with
  | PProps t, PProps t' => Bool.eqb t t'
  | PDir d, PDir d' => d =? d'
  | PData d t k, PData d' t' k' => (d =? d') && Bool.eqb t t' && (k =? k')
  | _, _ => false
  end.

(* the name of the last component, as the writer prints it *)
Definition data_base (k : Z) : string :=
  ("rf@" ++ dec (k / 1000) ++ "." ++ pad0 3 (k mod 1000) ++ ".h5")%string.
Definition basename (p : path) : string :=
  match p with
  | PProps false => "drf_properties.h5"
  | PProps true => "tmp.drf_properties.h5"
  | PDir d => dec d
  | PData _ false k => data_base k
  | PData _ true k => ("tmp." ++ data_base k)%string
  end.

(* the only thing readers and listings look at to ignore a file in progress *)
Definition is_tmp_name (s : string) : bool := String.prefix "tmp." s.

Definition is_final_data (p : path) : bool := match p with PData _ false _ => true | _ => false end.
Definition is_tmp_path (p : path) : bool :=
  match p with PData _ true _ => true | PProps true => true | _ => false end.
Definition is_file_path (p : path) : bool := match p with PDir _ => false | _ => true end.

(* ---------------------------------------------------------------- nodes, states *)
Inductive content :=
| Partial (damaged : bool)        (* created, not (successfully) closed: bytes unspecified *)
| Complete (tag : Z).             (* whole HDF5 file with payload [tag] *)

Inductive node := Dir | File (c : content).

Definition fs := path -> option node.
Definition empty_fs : fs := fun _ => None.
Definition upd (p : path) (v : option node) (s : fs) : fs :=
  fun q => if path_eqb q p then v else s q.

Definition is_file (s : fs) (p : path) : bool :=
  match s p with Some (File _) => true | _ => false end.
Definition parent_ok (s : fs) (p : path) : bool :=
  match p with
  | PData d _ _ => match s (PDir d) with Some Dir => true | _ => false end
  | _ => true
  end.

(* ---------------------------------------------------------------- operations *)
Inductive op :=
| Mkdir (p : path)
| Probe (p : path)                 (* open(O_RDWR) of a name expected not to exist (H5Fcreate does this) *)
| CreateExcl (p : path)            (* open(O_CREAT|O_EXCL|O_RDWR) *)
| CreateTrunc (p : path)           (* open(O_CREAT|O_TRUNC|O_RDWR): creates, or empties an existing file *)
| Write (p : path)                 (* write / pwrite on the descriptor of p *)
| Truncate (p : path)              (* ftruncate *)
| CloseFd (p : path) (tag : Z)     (* close(2) ending the HDF5 close of an image [tag] *)
| Rename (p q : path)
| Unlink (p : path).

Inductive res := Ok | Err (e : Z).
Definition EEXIST := 17.
Definition ENOENT := 2.
Definition EBADF := 9.
Definition EINJ := -1.             (* the injected errno (ENOSPC / EIO in the runs) *)

Definition res_ok (r : res) : bool := match r with Ok => true | Err _ => false end.

Definition op_target (o : op) : path :=
  match o with
  | Mkdir p | Probe p | CreateExcl p | CreateTrunc p | Write p | Truncate p | CloseFd p _ | Unlink p => p
  | Rename _ q => q
  end.

(* effect of an operation that the kernel carries out *)
Definition apply (o : op) (s : fs) : fs * res :=
  match o with
  | Mkdir p =>
      match s p with
      | None => (upd p (Some Dir) s, Ok)
      | Some _ => (s, Err EEXIST)
      end
  | Probe p => if is_file s p then (s, Ok) else (s, Err ENOENT)
  | CreateExcl p =>
      match s p with
      | Some _ => (s, Err EEXIST)
      | None => if parent_ok s p then (upd p (Some (File (Partial false))) s, Ok) else (s, Err ENOENT)
      end
  | CreateTrunc p =>
      match s p with
      | Some Dir => (s, Err EEXIST)
      | _ => if parent_ok s p then (upd p (Some (File (Partial false))) s, Ok) else (s, Err ENOENT)
      end
  | Write p | Truncate p =>
      match s p with
      | Some (File (Partial d)) => (s, Ok)
      | Some (File (Complete _)) => (upd p (Some (File (Partial false))) s, Ok)   (* re-opened and modified *)
      | _ => (s, Err EBADF)
      end
  | CloseFd p tag =>
      match s p with
      | Some (File (Partial false)) => (upd p (Some (File (Complete tag))) s, Ok)
      | Some (File _) => (s, Ok)
      | _ => (s, Err EBADF)
      end
  | Rename p q =>
      match s p with
      | Some (File c) => (upd q (Some (File c)) (upd p None s), Ok)
      | _ => (s, Err ENOENT)
      end
  | Unlink p =>
      match s p with
      | Some (File _) => (upd p None s, Ok)
      | _ => (s, Err ENOENT)
      end
  end.

(* effect of an operation that the kernel refuses with an injected error: a failed write,
   truncate or close leaves the file short of what the library believes it holds *)
Definition apply_fault (o : op) (s : fs) : fs :=
  match o with
  | Write p | Truncate p | CloseFd p _ =>
      match s p with
      | Some (File _) => upd p (Some (File (Partial true))) s
      | _ => s
      end
  | _ => s
  end.

(* single-fault oracle: operation number [f_at] (1-based; 0 = never) fails, and with
   [f_persist] every later one as well *)
Record fault := { f_at : nat; f_persist : bool }.
Definition no_fault : fault := {| f_at := 0; f_persist := false |}.
Definition faulted (f : fault) (n : nat) : bool :=
  negb (Nat.eqb (f_at f) 0) && (Nat.eqb n (f_at f) || (f_persist f && Nat.ltb (f_at f) n)).

Definition exec (f : fault) (n : nat) (o : op) (s : fs) : fs * res :=
  if faulted f n then (apply_fault o s, Err EINJ) else apply o s.

(* ---------------------------------------------------------------- traces, crash points *)
Fixpoint state_after (t : list op) (s : fs) : fs :=
  match t with
  | [] => s
  | o :: t' => state_after t' (fst (apply o s))
  end.

Definition crash_state (t : list op) (i : nat) (s : fs) : fs := state_after (firstn i t) s.

(* ---------------------------------------------------------------- what readers observe *)
(* a listing reports a file when it exists and its name does not start with "tmp." *)
Definition listed (s : fs) (p : path) : bool := is_file s p && negb (is_tmp_name (basename p)).

(* one reader probe: os.access + h5py open of a candidate path *)
Inductive probe_result :=
| Absent                       (* not there: skipped *)
| Sees (tag : Z)               (* opened, holds the image [tag] *)
| Garbage.                     (* exists under that name but is not a whole file *)

Definition probe (s : fs) (p : path) : probe_result :=
  match s p with
  | Some (File (Complete t)) => Sees t
  | Some (File (Partial _)) => Garbage
  | _ => Absent
  end.

(* a reader pass over candidate data files [(d, k)]: None = the reader failed (raised, or would
   return bytes that are not a file image); otherwise the (k, tag) of the files it read.  Readers
   only ever form final names. *)
Fixpoint read_pass (s : fs) (cands : list (Z * Z)) : option (list (Z * Z)) :=
  match cands with
  | [] => Some []
  | (d, k) :: r =>
      match probe s (PData d false k), read_pass s r with
      | Garbage, _ => None
      | _, None => None
      | Absent, Some l => Some l
      | Sees t, Some l => Some ((k, t) :: l)
      end
  end.

(* opening the channel: DigitalRFReader reads drf_properties.h5 *)
Definition open_channel (s : fs) : bool :=
  match probe s (PProps false) with Sees _ => true | _ => false end.

(* ================================================================ lemmas *)

Lemma path_eqb_spec a b : reflect (a = b) (path_eqb a b).
Proof.
  destruct a as [t|d|d t k], b as [t'|d'|d' t' k']; simpl; try (constructor; congruence).
  - destruct (Bool.eqb_spec t t'); constructor; congruence.
  - destruct (Z.eqb_spec d d'); constructor; congruence.
  - destruct (Z.eqb_spec d d'), (Bool.eqb_spec t t'), (Z.eqb_spec k k'); simpl; constructor; congruence.
Qed.

Lemma path_eqb_refl a : path_eqb a a = true.
Proof. destruct (path_eqb_spec a a); congruence. Qed.

Lemma upd_same p v s : upd p v s p = v.
Proof. unfold upd. now rewrite path_eqb_refl. Qed.

Lemma upd_other p q v s : q <> p -> upd p v s q = s q.
Proof. unfold upd. destruct (path_eqb_spec q p); congruence. Qed.

Lemma data_base_not_tmp k : is_tmp_name (data_base k) = false.
Proof. reflexivity. Qed.

(* the grammar fact the model relies on: a name is ignored exactly when the path is one of the
   writer's temporary paths *)
Lemma is_tmp_name_basename p : is_file_path p = true -> is_tmp_name (basename p) = is_tmp_path p.
Proof. destruct p as [[|]|d|d [|] k]; simpl; try reflexivity; discriminate. Qed.

Lemma listed_not_tmp s p : listed s p = true -> is_tmp_path p = false.
Proof.
  unfold listed, is_file. intros H. apply andb_prop in H as [Hf Hn].
  destruct p as [[|]|d|d [|] k]; simpl in *; try reflexivity; try discriminate.
Qed.

Lemma state_after_app t1 t2 s : state_after (t1 ++ t2) s = state_after t2 (state_after t1 s).
Proof. revert s. induction t1; simpl; auto. Qed.

Lemma crash_state_all t s : crash_state t (List.length t) s = state_after t s.
Proof. unfold crash_state. now rewrite firstn_all. Qed.

Lemma faulted_no_fault n : faulted no_fault n = false.
Proof. reflexivity. Qed.

Lemma exec_no_fault n o s : exec no_fault n o s = apply o s.
Proof. reflexivity. Qed.
